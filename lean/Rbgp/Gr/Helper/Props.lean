/-
  Rbgp.Gr.Helper.Props — C10, the readable statements.

  Everything here is about the MODEL (`Rbgp.Gr.Helper.Model`): `GrState` (`gprocess`), the two timer
  slots, the established session, the admin-down flag and the peer's routes with their stale marks
  (`G`), driven by the glue functions (`step`).  `stateAfter evs` is the state a history leaves.  No statement has a side condition on the events:
  an `est` carries the peer's capabilities as they are (a GR / LLGR capability may be empty or name
  families without MP-BGP) and `negotiate` computes what the session negotiates from them.

  Proofs: `Proofs.lean` (RIB procedures over family lists), `Inv.lean` (the invariant `Inv` and its
  preservation by every glue function), `Sim.lean` (simulation against Spec.lean).
-/
import Rbgp.Gr.Helper.Sim
namespace Rbgp.Gr.Helper.Props
open Rbgp.Gr.Helper Rbgp.Gr.Helper.Spec

/-! ## 0. The reference checker accepts every run (all histories) -/

theorem check_run_ok (evs : List Ev) : Spec.check evs (run evs) = .ok := Rbgp.Gr.Helper.check_run_ok evs

/-- non-vacuity: GR then LLGR, a NO_LLGR route, a failed attempt in between, both timers firing -/
def exEvs : List Ev :=
  [.est [0, 1] (some { fams := [0], nbit := true }) (some [0, 1]) false, .ann 0 0 false false, .ann 0 1 true false,
   .ann 1 0 false false, .down .hold, .attempt, .grTimer, .est [0, 1] (some { fams := [0], nbit := false }) none false,
   .ann 0 0 false false, .eor 0]

example : (run exEvs).map (fun o => (o.routes.length, o.grTimer, o.llgrTimers)) =
    [(0, false, []), (1, false, []), (2, false, []), (3, false, []), (3, true, []), (3, true, []),
     (2, false, [0, 1]), (1, false, []), (1, false, []), (1, false, [])] := by decide

/-! ## every history -/

def stateAfterFrom (g : G) : List Ev → G
  | [] => g
  | e :: es => stateAfterFrom (step g e) es

def stateAfter (evs : List Ev) : G := stateAfterFrom {} evs

theorem inv_after_from (g : G) (evs : List Ev) (h : Inv g) : Inv (stateAfterFrom g evs) := by
  induction evs generalizing g with
  | nil => exact h
  | cons e es ih => exact ih _ (step_inv h e).1

/-- The invariant `Inv` (Inv.lean) holds after EVERY history: no side condition on the events.
    (What a session negotiates is computed from the peer's capabilities by `negotiate`; a GR or
    LLGR capability naming a family without MP-BGP, or an empty one, is an ordinary input.) -/
theorem inv_after (evs : List Ev) : Inv (stateAfter evs) := inv_after_from {} evs inv_init

/-! ## 1. `stale_implies_pending` -/

/-- After every history: a route marked stale or LLGR-stale has the restart timer armed, or the
    LLGR timer of its family armed, or the session is up and End-of-RIB of its family is awaited
    (`awaitingOf`: the pending set of `PeerReconnected`). -/
theorem stale_implies_pending (evs : List Ev) (x : Route)
    (hx : x ∈ (stateAfter evs).rib) (hm : marked x = true) :
    (stateAfter evs).grTimer = true ∨ x.fam ∈ (stateAfter evs).llgrTimers ∨
    ((stateAfter evs).sess.isSome = true ∧ x.fam ∈ awaitingOf (stateAfter evs)) :=
  (inv_after evs).pending x hx hm

/-- The invariant is inductive: ANY event preserves it, from ANY state satisfying it. -/
theorem inv_inductive (g : G) (h : Inv g) (ev : Ev) : Inv (step g ev) := (step_inv h ev).1

/-- What a session negotiates for GR / LLGR are non-empty sets of families of the session, whatever
    the peer's capabilities list (`negotiate_gr` / `negotiate_llgr` ∩ the MP-BGP families). -/
theorem negotiated_within_session (fams : List Fam) (gr : Option NegGr) (llgr : Option (List Fam)) :
    SessWF (negotiate fams gr llgr) := sessWF_negotiate fams gr llgr

/-! ## 2. `drop_clears_other_families` -/

/-- When the session goes down, whatever the reason, a route of a session family that remains
    belongs to a family that entered helper mode (eligible GR or LLGR family); every other family
    of the session is empty at once. -/
theorem drop_clears_other_families (g : G) (h : Inv g) (s : Sess) (hs : g.sess = some s) (reason : Reason)
    (y : Route) (hy : y ∈ (sessionDown g reason).rib) (hf : y.fam ∈ s.fams) :
    y.fam ∈ ((helperGr s reason g.adminDown).map (·.fams)).getD [] ∨
    y.fam ∈ (helperLlgr s reason g.adminDown).getD [] := by
  cases h1 : helperGr s reason g.adminDown with
  | some n =>
      rw [sessionDown_gr h hs reason n h1] at hy
      simp only [List.mem_map, List.mem_filter] at hy
      obtain ⟨x, ⟨_, hk⟩, rfl⟩ := hy
      have hfam : (if (helperStaleFamilies n (helperLlgr s reason g.adminDown)).contains x.fam
          then { x with stale := true } else x).fam = x.fam := by split <;> rfl
      rw [hfam] at hf ⊢
      have hnd : x.fam ∉ familiesToDrop s.fams (some n) (helperLlgr s reason g.adminDown) := by simpa using hk
      rw [mem_familiesToDrop] at hnd
      simp only [Option.map_some, Option.getD_some]
      by_cases h2 : x.fam ∈ n.fams
      · exact Or.inl h2
      · by_cases h3 : x.fam ∈ (helperLlgr s reason g.adminDown).getD []
        · exact Or.inr h3
        · exact absurd ⟨hf, by simpa using h2, h3⟩ hnd
  | none =>
      cases h2 : helperLlgr s reason g.adminDown with
      | none =>
          rw [sessionDown_none hs reason h1 h2] at hy
          simp only [List.mem_filter] at hy
          simp [hf] at hy
      | some lp =>
          rw [sessionDown_llgr h hs reason lp h1 h2] at hy
          simp only at hy
          rw [List.mem_filterMap] at hy
          obtain ⟨x, hx, hxy⟩ := hy
          rw [List.mem_filter] at hx
          have hfam : y.fam = x.fam := by
            unfold mkAll at hxy; split at hxy
            · split at hxy
              · cases hxy
              · cases hxy; rfl
            · cases hxy; rfl
          rw [hfam] at hf ⊢
          have hnd : x.fam ∉ familiesToDrop s.fams none (some lp) := by simpa using hx.2
          rw [mem_familiesToDrop] at hnd
          right
          simp only [Option.getD_some]
          by_cases h3 : x.fam ∈ lp
          · exact h3
          · exact absurd ⟨hf, by simp, by simpa using h3⟩ hnd

/-! ## 3. `purge_spares_fresh` -/

/-- While the session is up, no event other than an announcement replacing it, or the end of the
    session itself, removes or marks an unmarked route: End-of-RIB, timer expiries (fired or
    elapsed), a failed connection attempt, enable, a second `est`. -/
theorem purge_spares_fresh (g : G) (h : Inv g) (s : Sess) (hs : g.sess = some s) (ev : Ev)
    (hev : match ev with | .eor _ | .grTimer | .llgrTimer _ | .attempt | .enable | .est .. | .wait => True | _ => False)
    (x : Route) (hx : x ∈ g.rib) (hm : marked x = false) : x ∈ (step g ev).rib := by
  have hsome : g.sess.isSome = true := by rw [hs]; rfl
  cases ev with
  | eor f =>
      simp only [step, hs]
      by_cases hg : s.gr.isSome = true
      · simp only [hg, ↓reduceIte]
        obtain ⟨_, _, _, hcase⟩ := h.live s hs
        have hst' : x.stale = false ∧ x.llgr = false := by simpa [marked] using hm
        rcases hcase with hi | ⟨P, fl, hp⟩
        · rw [onEor_idle g hi]; exact hx
        · rw [onEor_prc g P fl hp]
          simp only
          rw [List.mem_filter]
          refine ⟨hx, ?_⟩
          cases fl <;> simp [hst'.1, hst'.2]
      · simp only [hg, Bool.false_eq_true, ↓reduceIte]; exact hx
  | grTimer => rw [show step g .grTimer = fireGr g from rfl, (fireGr_fields h).2.2 hsome]; exact hx
  | llgrTimer f => rw [show step g (.llgrTimer f) = fireLlgr g f from rfl, (fireLlgr_fields h f).2.2 hsome]; exact hx
  | attempt => simp only [step, attemptEnds, applyDisc_none]; exact hx
  | enable => exact hx
  | est fams gr llgr lr => simp only [step, hs]; exact hx
  | wait => rw [show step g .wait = waitAll g from rfl, (waitAll_fields h).2.2 hsome]; exact hx
  | ann => exact absurd hev (by simp)
  | down => exact absurd hev (by simp)
  | force => exact absurd hev (by simp)
  | disable => exact absurd hev (by simp)

/-! ## 4. `failed_attempt_keeps_timer` -/

/-- (all states) A connection that ends before Established changes nothing: armed timers stay armed,
    `GrState` and the routes are untouched. -/
theorem failed_attempt_keeps_timer (g : G) : step g .attempt = g := by
  simp [step, attemptEnds, applyDisc_none]

/-! ## 5. `no_llgr_dropped` -/

/-- An LLGR timer that a step arms comes with the NO_LLGR routes of its family already dropped. -/
theorem no_llgr_dropped (g : G) (h : Inv g) (ev : Ev) (f : Fam)
    (hf : f ∈ (step g ev).llgrTimers) (hnew : f ∉ g.llgrTimers) (x : Route) (hx : x ∈ (step g ev).rib)
    (hxf : x.fam = f) : x.noLlgr = false := by
  rcases (step_inv h ev).2 f hf with h1 | h1
  · exact absurd h1 hnew
  · exact h1 x hx hxf

/-! ## 6. `ineligible_no_helper` -/

/-- the reasons that never enter helper mode: hard reset (either direction), admin shutdown,
    NOTIFICATION with a non-Cease code (either direction), FSM error, or an admin-down peer -/
def Ineligible (reason : Reason) (adminDown : Bool) : Prop :=
  adminDown = true ∨ reason = .admin ∨ reason = .fsmError ∨
  (∃ c s, (reason = .remoteNotif c s ∨ reason = .localNotif c s) ∧ (c ≠ 6 ∨ (c = 6 ∧ s = 9)))

theorem ineligible_class {reason : Reason} {ad : Bool} (h : Ineligible reason ad) : classify reason ad = .never := by
  rcases h with rfl | rfl | rfl | ⟨c, s, hr, hc⟩
  · simp [classify]
  · cases ad <;> simp [classify]
  · cases ad <;> simp [classify]
  · cases ad with
    | true => simp [classify]
    | false =>
        rcases hr with rfl | rfl <;> rcases hc with hc | ⟨h6, h9⟩ <;> simp [classify, *]

/-- An ineligible disconnect leaves no route of the session's families, arms no timer, and does not
    touch `GrState`. -/
theorem ineligible_no_helper (g : G) (h : Inv g) (s : Sess) (hs : g.sess = some s) (reason : Reason)
    (hi : Ineligible reason g.adminDown) :
    (sessionDown g reason).grTimer = false ∧ (sessionDown g reason).llgrTimers = [] ∧
    (sessionDown g reason).gs = g.gs ∧ (sessionDown g reason).sess = none ∧
    ∀ y ∈ (sessionDown g reason).rib, y.fam ∉ s.fams := by
  obtain ⟨F1, _, _⟩ := class_facts s reason g.adminDown
  obtain ⟨h1, h2⟩ := F1 (ineligible_class hi)
  obtain ⟨_, hgt, hlt, _⟩ := h.live s hs
  rw [sessionDown_none hs reason h1 h2]
  refine ⟨hgt, hlt, rfl, rfl, fun y hy => ?_⟩
  simp only [List.mem_filter] at hy
  simpa using hy.2

/-- An operator-forced peer-down (`force_down`: shutdown / reset / delete / disable / BFD) in ANY
    state satisfying the invariant ends helper mode altogether: no session, no timer armed, no
    marked route left — in particular the LLGR period does not start in place of a fired restart
    timer. -/
theorem forced_down_ends_helper (g : G) (h : Inv g) :
    (forceDown g).sess = none ∧ (forceDown g).grTimer = false ∧ (forceDown g).llgrTimers = [] ∧
    ∀ x ∈ (forceDown g).rib, marked x = false := by
  obtain ⟨hi, _, hs, _, hgt, hlt⟩ := inv_forceDown' h
  refine ⟨hs, hgt, hlt, fun x hx => ?_⟩
  cases hm : marked x with
  | false => rfl
  | true =>
      rcases hi.pending x hx hm with h1 | h1 | ⟨h1, _⟩
      · rw [hgt] at h1; cases h1
      · rw [hlt] at h1; cases h1
      · rw [hs] at h1; cases h1

/-! ## 7. `bounded_lifetime` -/

/-- every armed timer elapses (`wait`, the natural-expiry path): afterwards the restart timer is not
    armed, and whatever is still marked is covered by an LLGR timer (armed by the restart-timer
    expiry itself) or by an End-of-RIB awaited on the live session -/
theorem bounded_lifetime_wait (g : G) (h : Inv g) :
    (waitAll g).grTimer = false ∧
    ∀ x ∈ (waitAll g).rib, marked x = true →
      x.fam ∈ (waitAll g).llgrTimers ∨ ((waitAll g).sess.isSome = true ∧ x.fam ∈ awaitingOf (waitAll g)) := by
  have hi : Inv (waitAll g) := (step_inv h .wait).1
  have hgt : (waitAll g).grTimer = false := by
    have h1 : (fireGr g).grTimer = false := by
      unfold fireGr
      by_cases ht : g.grTimer = true
      · rw [if_pos ht]; exact (inv_grExpired h ht).2.2.2.2
      · rw [if_neg ht]; simpa using ht
    have : ∀ (l : List Fam) (g' : G), Inv g' → g'.grTimer = false → (l.foldl fireLlgr g').grTimer = false := by
      intro l
      induction l with
      | nil => exact fun _ _ h => h
      | cons f l ih =>
          intro g' hi' hg'
          refine ih _ (inv_fireLlgr hi' f).1 ?_
          unfold fireLlgr
          by_cases hf : g'.llgrTimers.contains f = true
          · rw [if_pos hf]
            obtain ⟨rem, hgs, _⟩ := (hi'.timerLl f).mp (by simpa using hf)
            rw [llgrExp_ls _ rem (by simpa using hgs)]; exact hg'
          · rw [if_neg hf]; exact hg'
    exact this _ _ (inv_fireGr h).1 h1
  refine ⟨hgt, fun x hx hm => ?_⟩
  rcases hi.pending x hx hm with h1 | h1 | h1
  · rw [hgt] at h1; cases h1
  · exact Or.inl h1
  · exact Or.inr h1

/-- The restart timer fires: afterwards it is not armed, and whatever is still marked is protected
    by the (just armed) LLGR timer of its family. -/
theorem bounded_lifetime_gr (g : G) (h : Inv g) (ht : g.grTimer = true) :
    (fireGr g).grTimer = false ∧
    ∀ x ∈ (fireGr g).rib, marked x = true → x.fam ∈ (fireGr g).llgrTimers := by
  obtain ⟨hi, _, hsn, _, hgf⟩ := inv_grExpired h ht
  have hfg : fireGr g = grTimerExpired { g with grTimer := false } := by simp [fireGr, ht]
  rw [hfg]
  refine ⟨hgf, fun x hx hm => ?_⟩
  rcases hi.pending x hx hm with h1 | h1 | ⟨h1, _⟩
  · rw [hgf] at h1; cases h1
  · exact h1
  · rw [hsn] at h1; cases h1

/-- The LLGR timer of family `f` fires: no marked route of `f` is left. -/
theorem bounded_lifetime_llgr (g : G) (h : Inv g) (f : Fam) (hf : f ∈ g.llgrTimers)
    (x : Route) (hx : x ∈ (fireLlgr g f).rib) (hxf : x.fam = f) : marked x = false := by
  obtain ⟨rem, hgs, hfr⟩ := (h.timerLl f).mp hf
  have hc := h.cover
  unfold Cover at hc
  rw [hgs] at hc
  have hff : fireLlgr g f = llgrTimerExpired { g with llgrTimers := g.llgrTimers.filter (· ≠ f) } f := by
    simp [fireLlgr, hf]
  rw [hff, llgrExp_ls _ rem (by simpa using hgs)] at hx
  simp only at hx
  rw [List.mem_filter] at hx
  have hl := hc.2 x hx.1 (hxf ▸ hfr)
  simp [hxf, hl] at hx

/-- End-of-RIB of family `f` on a session that re-negotiated GR: no marked route of `f` is left. -/
theorem bounded_lifetime_eor (g : G) (h : Inv g) (s : Sess) (hs : g.sess = some s) (f : Fam)
    (x : Route) (hx : x ∈ (onEor g f).rib) (hxf : x.fam = f) : marked x = false := by
  obtain ⟨_, _, _, hcase⟩ := h.live s hs
  have hc := h.cover
  unfold Cover at hc
  rcases hcase with hi | ⟨P, fl, hp⟩
  · rw [onEor_idle g hi] at hx; rw [hi] at hc; exact hc x hx
  · rw [onEor_prc g P fl hp] at hx
    simp only at hx
    rw [List.mem_filter] at hx
    rw [hp] at hc
    cases hm : marked x with
    | false => rfl
    | true =>
        obtain ⟨_, hk, _⟩ := hc x hx.1 hm
        cases fl with
        | true => simp only [↓reduceIte] at hk; simp [hxf, hk] at hx
        | false => simp only [Bool.false_eq_true, ↓reduceIte] at hk; simp [hxf, hk] at hx

/-! ## The defects the check found, as facts about the repaired transition function

  corpus/C10/seed-findings.case lists the histories on which the unrepaired code broke the
  property; on the repaired model the same histories satisfy the invariant, e.g. S18 (failed
  attempt), S19 (admin shutdown) and the partial-LLGR expiry: -/
example : (run [.est [0] (some { fams := [0], nbit := false }) none false, .ann 0 0 false false, .down .io,
      .attempt, .grTimer]).map (fun o => (o.routes.length, o.grTimer)) =
    [(0, false), (1, false), (1, true), (1, true), (0, false)] := by decide

example : (run [.est [1] (some { fams := [1], nbit := true }) none false, .ann 1 0 false false, .down .admin]).map
      (fun o => (o.routes.length, o.grTimer, o.restarting)) =
    [(0, false, false), (1, false, false), (0, false, false)] := by decide

example : (run [.est [0, 1] (some { fams := [0, 1], nbit := false }) (some [0]) false, .ann 0 0 false false,
      .ann 1 0 false false, .down .io, .grTimer, .llgrTimer 0]).map (fun o => (o.routes.length, o.llgrTimers)) =
    [(0, []), (1, []), (2, []), (2, []), (1, [0]), (0, [])] := by decide

/-- S41: the peer lists family 1 in its GR capability but has no MP-BGP for it on the second session:
    GR is negotiated for family 0 only, the stale route of family 1 is dropped at re-establishment -/
example : (run [.est [0, 1] (some { fams := [0, 1], nbit := false }) none false, .ann 1 0 false false, .down .io,
      .est [0] (some { fams := [0, 1], nbit := false }) none false, .down .admin]).map
      (fun o => (o.routes.length, o.grTimer, o.restarting)) =
    [(0, false, false), (1, false, false), (1, true, true), (0, false, true), (0, false, true)] := by decide

/-- S42: disable inside the restart window with LLGR negotiated: the LLGR period does not start -/
example : (run [.est [0] (some { fams := [0], nbit := false }) (some [0]) false, .ann 0 0 false false, .down .io,
      .disable]).map (fun o => (o.routes.length, o.grTimer, o.llgrTimers, o.restarting)) =
    [(0, false, [], false), (1, false, [], false), (1, true, [], true), (0, false, [], false)] := by decide

/-- the checker does reject: a tampered observation (the stale route survives the forced down) fails -/
example : Spec.check [.est [0] (some { fams := [0], nbit := false }) none false, .ann 0 0 false false, .down .io, .force]
    ((run [.est [0] (some { fams := [0], nbit := false }) none false, .ann 0 0 false false, .down .io]) ++
     [{ routes := [{ fam := 0, pfx := 0, stale := true, llgr := false, noLlgr := false, lsc := false }],
        grTimer := false, llgrTimers := [], restarting := false, up := false }]) =
    .fail 3 "forced-down-keeps-helper" := by decide

end Rbgp.Gr.Helper.Props
