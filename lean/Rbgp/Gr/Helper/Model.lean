/-
  Rbgp.Gr.Helper.Model — hand-written model of the GR/LLGR helper side:

  * daemon/src/gr.rs `GrState::process` (pure machine; timer durations abstracted away);
  * the glue in daemon/src/event/mod.rs: `gr_on_disconnect`, `families_to_drop_on_disconnect`,
    the tear-down of an established session (`PeerSession::finish_session`: decide eligibility —
    including the admin-down override — then `unregister_peer`), `apply_disconnect`,
    `gr_restart_timer_expired`, `llgr_timer_expired`, `spawn_llgr_timers`,
    `process_effects(GrSessionEstablished / GrEorReceived)`, `PeerContext::{fire_gr_timer,
    fire_llgr_timers, force_down}` and the two timer slots of `PeerContext`;
  * the RIB operations they call (daemon/src/table_manager.rs `unregister_peer`, `drop_families`,
    `drop_stale_families`, `mark_llgr_stale`, `drop_llgr_stale_families`; table/src/lib.rs `drop`,
    `restale`, `drop_stale`, `restale_llgr`, `drop_no_llgr`, `drop_llgr_stale`, `insert`) for the
    routes of ONE peer.

  One Lean function per Rust function, same branch order.  A route is (family, prefix) with its
  stale marks and the two communities the helper procedures look at.
-/
namespace Rbgp.Gr.Helper

abbrev Fam := Nat

/-! ## `GrState` -/

inductive GInner where
  | idle
  | peerRestarting (stale : List Fam) (llgr : Option (List Fam))
  | llgrStaling (remaining : List Fam)
  | peerReconnected (pending : List Fam) (fromLlgr : Bool)
  deriving DecidableEq, Repr, Inhabited

inductive GIn where
  | dropped (gr : Option (List Fam)) (llgr : Option (List Fam))   -- SessionDropped { gr, llgr }
  | established (grFams : List Fam)                               -- SessionEstablished { gr_families }
  | eor (f : Fam)                                                 -- EorReceived
  | timer                                                         -- TimerExpired
  | llgrTimer (f : Fam)                                           -- LlgrTimerExpired
  deriving DecidableEq, Repr, Inhabited

inductive GOut where
  | startTimer
  | stopTimer
  | deleteStale (fs : List Fam)
  | startLlgrTimers (fs : List Fam)
  | stopLlgrTimers
  | deleteLlgrStale (fs : List Fam)
  deriving DecidableEq, Repr, Inhabited

/-- duplicates removed (`collect::<FnvHashSet<_>>()`; order is irrelevant, observations are sorted) -/
def dedup : List Nat → List Nat
  | [] => []
  | a :: l => if l.contains a then dedup l else a :: dedup l

/-- `is_peer_restarting` -/
def isPeerRestarting : GInner → Bool
  | .idle => false
  | _ => true

/-- `GrState::process` -/
def gprocess : GInner → GIn → GInner × List GOut
  | s@(.llgrStaling _), .dropped _ _ => (s, [])
  | _, .dropped (some gr) llgr => (.peerRestarting gr llgr, [.startTimer])
  | _, .dropped none (some lp) => (.llgrStaling (dedup lp), [.startLlgrTimers lp])
  | .peerRestarting _ (some lp), .timer => (.llgrStaling (dedup lp), [.startLlgrTimers lp])
  | .peerRestarting stale none, .timer => (.idle, [.deleteStale stale])
  | .peerRestarting stale _, .established grFams =>
      let grSet := dedup grFams
      let dropped := stale.filter (fun f => !grSet.contains f)
      let outs := [GOut.stopTimer] ++ (if dropped.isEmpty then [] else [.deleteStale dropped])
      (if grSet.isEmpty then .idle else .peerReconnected grSet false, outs)
  | .llgrStaling remaining, .established grFams =>
      let grSet := dedup grFams
      let new := if grSet.isEmpty then GInner.idle else .peerReconnected grSet true
      let dropped := remaining.filter (fun f => !grSet.contains f)
      let outs := [GOut.stopLlgrTimers] ++ (if dropped.isEmpty then [] else [.deleteLlgrStale dropped])
      (new, outs)
  | .llgrStaling remaining, .llgrTimer f =>
      let rem := remaining.filter (· ≠ f)
      (if rem.isEmpty then .idle else .llgrStaling rem, [.deleteLlgrStale [f]])
  | .peerReconnected pending false, .eor f =>
      let p := pending.filter (· ≠ f)
      (if p.isEmpty then .idle else .peerReconnected p false, [.deleteStale [f]])
  | .peerReconnected pending true, .eor f =>
      let p := pending.filter (· ≠ f)
      (if p.isEmpty then .idle else .peerReconnected p true, [.deleteLlgrStale [f]])
  | s, _ => (s, [])

/-! ## routes of the peer

  `stale` / `llgr_stale` are flags of the `Arc<Source>` a path was received on (one `Source` per
  session and family, shared by its paths).  Every marking operation (`restale`, `restale_llgr`)
  runs after the session that owns the source has ended, so no path is ever inserted on a marked
  source and the shared flag is observationally a per-path flag; the model keeps it per path
  (the correspondence stream compares the flags path by path). -/

structure Route where
  fam : Fam
  pfx : Nat
  stale : Bool := false
  llgr : Bool := false
  /-- carries the NO_LLGR community -/
  noLlgr : Bool := false
  /-- carries the LLGR_STALE community (propagated by another helper) -/
  lsc : Bool := false
  deriving DecidableEq, Repr, Inhabited

abbrev Rib := List Route

/-- `Table::drop(addr, family)` -/
def Rib.dropFam (r : Rib) (f : Fam) : Rib := r.filter (·.fam ≠ f)

/-- `Table::restale(addr, family)`: mark the source of every path of the family -/
def Rib.restale (r : Rib) (f : Fam) : Rib := r.map fun x => if x.fam = f then { x with stale := true } else x

/-- `Table::drop_stale(addr, family)` -/
def Rib.dropStale (r : Rib) (f : Fam) : Rib := r.filter (fun x => !(x.fam = f && x.stale))

/-- `TableShard::mark_llgr_stale`: `restale_llgr` then `drop_no_llgr` -/
def Rib.markLlgrStale (r : Rib) (f : Fam) : Rib :=
  (r.map fun x => if x.fam = f then { x with llgr := true } else x).filter (fun x => !(x.fam = f && x.noLlgr))

/-- `Table::drop_llgr_stale(addr, family)`: paths whose SOURCE is LLGR-stale (a received
    LLGR_STALE community alone does not make a path a purge target) -/
def Rib.dropLlgrStale (r : Rib) (f : Fam) : Rib := r.filter (fun x => !(x.fam = f && x.llgr))

/-- `Table::insert`: replaces the peer's path for the prefix (matched by address and path id) -/
def Rib.insert (r : Rib) (x : Route) : Rib :=
  r.filter (fun y => !(y.fam = x.fam && y.pfx = x.pfx)) ++ [x]

def Rib.each (r : Rib) (fs : List Fam) (op : Rib → Fam → Rib) : Rib := fs.foldl op r

/-! ## glue -/

/-- `NegotiatedGr` (restart time abstracted) -/
structure NegGr where
  fams : List Fam
  nbit : Bool
  deriving DecidableEq, Repr, Inhabited

/-- an established `PeerSession` -/
structure Sess where
  /-- `source.keys()`: the session's families -/
  fams : List Fam
  gr : Option NegGr
  llgr : Option (List Fam)
  deriving DecidableEq, Repr, Inhabited

/-- `SessionDownReason` (a NOTIFICATION is its (code, subcode)) -/
inductive Reason where
  | io
  | hold
  | remoteNotif (code sub : Nat)
  | localNotif (code sub : Nat)
  | fsmError
  | admin
  deriving DecidableEq, Repr, Inhabited

def isHardReset (code sub : Nat) : Bool := code = 6 && sub = 9

/-- `gr_on_disconnect`: does GR helper mode apply? -/
def grApplies (r : Reason) (nbit : Bool) : Bool :=
  match r with
  | .io => true
  | .remoteNotif c s => nbit && c = 6 && !isHardReset c s
  | .localNotif c s => nbit && c = 6 && !isHardReset c s
  | .hold => nbit
  | _ => false

/-- `families_to_drop_on_disconnect` -/
def familiesToDrop (sessFams : List Fam) (gr : Option NegGr) (llgr : Option (List Fam)) : List Fam :=
  sessFams.filter fun f => !((gr.map (·.fams)).getD []).contains f && !(llgr.getD []).contains f

/-- the state of one peer as far as C10 is concerned -/
structure G where
  gs : GInner := .idle
  /-- `PeerContext.gr_restart_timer` holds a live sender -/
  grTimer : Bool := false
  /-- families with a live sender in `PeerContext.llgr_family_timers` -/
  llgrTimers : List Fam := []
  sess : Option Sess := none
  /-- `Peer.admin_down` -/
  adminDown : Bool := false
  rib : Rib := []
  deriving DecidableEq, Repr, Inhabited

def collectDelete (outs : List GOut) : List Fam :=
  outs.flatMap fun o => match o with | .deleteStale fs => fs | _ => []
def collectDeleteLlgr (outs : List GOut) : List Fam :=
  outs.flatMap fun o => match o with | .deleteLlgrStale fs => fs | _ => []
def llgrStart (outs : List GOut) : Option (List Fam) :=
  outs.findSome? fun o => match o with | .startLlgrTimers fs => some fs | _ => none

/-- `spawn_llgr_timers` + `llgr_family_timers.extend`: marks LLGR-stale, drops NO_LLGR, arms timers -/
def spawnLlgrTimers (g : G) (fs : List Fam) : G :=
  { g with rib := g.rib.each fs Rib.markLlgrStale, llgrTimers := dedup (g.llgrTimers ++ fs) }

/-- `process_effects(GrSessionEstablished)`; `localRestarting` = `selection_deferral.is_some()` -/
def onEstablished (g : G) (grFams : List Fam) (localRestarting : Bool) : G :=
  let g := { g with grTimer := false }                       -- cancel_gr_timer
  -- (the Restarting-Speaker bookkeeping of a locally restarting speaker is C11's subject;
  --  the helper side below runs in both cases)
  let _ := localRestarting
  let r := gprocess g.gs (.established grFams)
  let g := { g with gs := r.1 }
  let g := if r.2.contains .stopLlgrTimers then { g with llgrTimers := [] } else g
  let g := { g with rib := g.rib.each (collectDelete r.2) Rib.dropStale }
  { g with rib := g.rib.each (collectDeleteLlgr r.2) Rib.dropLlgrStale }

/-- `process_effects(GrEorReceived)` (helper part) -/
def onEor (g : G) (f : Fam) : G :=
  let r := gprocess g.gs (.eor f)
  let g := { g with gs := r.1 }
  let g := { g with rib := g.rib.each (collectDelete r.2) Rib.dropStale }
  { g with rib := g.rib.each (collectDeleteLlgr r.2) Rib.dropLlgrStale }

/-- `gr_restart_timer_expired` -/
def grTimerExpired (g : G) : G :=
  let r := gprocess g.gs .timer
  let g := { g with gs := r.1 }
  let g := { g with rib := g.rib.each (collectDelete r.2) Rib.dropFam }
  match llgrStart r.2 with
  | some fs =>
      -- `drop_stale_families(addr, all_families \ fs)`: stale routes of the peer in a family the
      -- LLGR period does not cover have no timer left
      let g := { g with rib := g.rib.filter (fun x => !(!fs.contains x.fam && x.stale)) }
      spawnLlgrTimers g fs
  | none => g

/-- `llgr_timer_expired` -/
def llgrTimerExpired (g : G) (f : Fam) : G :=
  let r := gprocess g.gs (.llgrTimer f)
  let g := { g with gs := r.1 }
  { g with rib := g.rib.each (collectDeleteLlgr r.2) Rib.dropLlgrStale }

/-- `helper_stale_families`: GR families plus the families negotiated for LLGR only -/
def helperStaleFamilies (gr : NegGr) (llgr : Option (List Fam)) : List Fam :=
  gr.fams ++ (dedup ((llgr.getD []).filter (fun f => !gr.fams.contains f)))

/-- `apply_disconnect` (GR part) with the already filtered `DisconnectInfo` -/
def applyDisconnect (g : G) (gr : Option NegGr) (llgr : Option (List Fam)) : G :=
  if gr.isSome || llgr.isSome then
    let g := { g with grTimer := false }                     -- cancel_gr_timer
    let r := gprocess g.gs (.dropped (gr.map (fun n => helperStaleFamilies n llgr)) llgr)
    let g := { g with gs := r.1 }
    r.2.foldl (fun g o => match o with
      | .startTimer => { g with grTimer := true }
      | .startLlgrTimers fs => spawnLlgrTimers g fs
      | _ => g) g
  else
    g                                                        -- a pending restart timer is left alone

/-- `finish_session`: the GR negotiation result that enters helper mode, if any
    (`gr_on_disconnect`, then the admin-down override) -/
def helperGr (s : Sess) (reason : Reason) (adminDown : Bool) : Option NegGr :=
  if adminDown then none
  else match s.gr with
    | some n => if grApplies reason n.nbit then some n else none
    | none => none

/-- `finish_session`: LLGR follows the same eligibility as GR, or a plain I/O error -/
def helperLlgr (s : Sess) (reason : Reason) (adminDown : Bool) : Option (List Fam) :=
  if adminDown then none
  else if (helperGr s reason false).isSome || reason = .io then s.llgr else none

/-- `PeerSession::finish_session` then `apply_disconnect`: eligibility (with the admin-down
    override) is decided first; only the families that really enter helper mode are kept. -/
def sessionDown (g : G) (reason : Reason) : G :=
  match g.sess with
  | none => g
  | some s =>
      let gr := helperGr s reason g.adminDown
      let llgr := helperLlgr s reason g.adminDown
      -- unregister_peer(drop_families, stale_families)
      let dropFams := familiesToDrop s.fams gr llgr
      let staleFams := match gr with | some n => helperStaleFamilies n llgr | none => []
      let rib := if s.fams.isEmpty then g.rib      -- `if !self.source.is_empty()`
                 else (g.rib.each dropFams Rib.dropFam).each staleFams Rib.restale
      applyDisconnect { g with sess := none, rib := rib } gr llgr

/-- a connection that ends without having reached Established -/
def attemptEnds (g : G) : G := applyDisconnect g none none

/-- `fire_gr_timer`: take the sender and send on it; the task runs the expiry handler -/
def fireGr (g : G) : G := if g.grTimer then grTimerExpired { g with grTimer := false } else g

/-- one LLGR timer fires -/
def fireLlgr (g : G) (f : Fam) : G :=
  if g.llgrTimers.contains f then llgrTimerExpired { g with llgrTimers := g.llgrTimers.filter (· ≠ f) } f
  else g

/-- sort (the harness fires drained LLGR timers family by family; handlers of distinct families commute) -/
def insertSorted (a : Nat) : List Nat → List Nat
  | [] => [a]
  | b :: l => if a ≤ b then a :: b :: l else b :: insertSorted a l
def sortNat (l : List Nat) : List Nat := l.foldr insertSorted []

/-- `force_down`: the GR timer task is woken first (and, being forced, fires the LLGR timers it
    arms), then every LLGR timer that was armed at the time of the call; a live session is told to
    close and ends with `AdminShutdown`. -/
def forceDown (g : G) : G :=
  let armed := sortNat g.llgrTimers
  let g1 := if g.grTimer then { g with grTimer := false } else g
  let g2 := { g1 with llgrTimers := [] }
  -- the restart timer task, woken with `forced = true`: the LLGR timers it arms are fired at once
  let g3 := if g.grTimer then grTimerExpired g2 else g2
  let newly := if g.grTimer then sortNat g3.llgrTimers else []
  let g3 := if g.grTimer then { g3 with llgrTimers := [] } else g3
  let g4 := armed.foldl llgrTimerExpired g3
  let g5 := newly.foldl llgrTimerExpired g4
  sessionDown g5 .admin

/-- every timer that is armed elapses (restart timer first; the LLGR timers it arms are new and keep
    running): the natural-expiry path of the timer tasks -/
def waitAll (g : G) : G := (sortNat g.llgrTimers).foldl fireLlgr (fireGr g)

/-- the families the local speaker advertises (MP-BGP, GR with the N-bit, LLGR) in the harness -/
def localFams : List Fam := [0, 1, 2]

/-- What a session negotiates (`PeerCodec::negotiate`, `negotiate_gr`, `negotiate_llgr`, and the
    restriction to the session's families in `apply_outputs`): the session families are the MP-BGP
    families both sides advertise; GR / LLGR hold for the session families both sides list in the
    capability; an empty result is `None`. -/
def negotiate (peerFams : List Fam) (peerGr : Option NegGr) (peerLlgr : Option (List Fam)) : Sess :=
  let fams := localFams.filter (peerFams.contains ·)
  let gr := match peerGr with
    | some n =>
        let fs := fams.filter (n.fams.contains ·)
        if fs.isEmpty then none else some { fams := fs, nbit := n.nbit }
    | none => none
  let llgr := match peerLlgr with
    | some l =>
        let fs := fams.filter (l.contains ·)
        if fs.isEmpty then none else some fs
    | none => none
  { fams := fams, gr := gr, llgr := llgr }

/-- events of a history -/
inductive Ev where
  /-- a session reaches Established: the peer's MP-BGP families, its GR capability (families,
      N-bit), its LLGR capability families, and whether the local speaker is itself in selection
      deferral -/
  | est (fams : List Fam) (gr : Option NegGr) (llgr : Option (List Fam)) (localRestarting : Bool)
  | ann (f : Fam) (n : Nat) (noLlgr lsc : Bool)      -- UPDATE announcing prefix n in family f
  | eor (f : Fam)
  | down (r : Reason)
  | attempt                                          -- a connection ends before Established
  | grTimer
  | llgrTimer (f : Fam)
  | force                                            -- force_down (shutdown / reset / delete / BFD)
  | disable                                          -- disable_peer: admin_down := true, force_down
  | enable                                           -- enable_peer: admin_down := false
  | wait                                             -- real time passes: every armed timer elapses
  deriving DecidableEq, Repr, Inhabited

def step (g : G) : Ev → G
  | .est fams gr llgr lr =>
      match g.sess with
      | some _ => g                                  -- one established session at a time (C07)
      | none =>
          let s := negotiate fams gr llgr
          let g := { g with sess := some s }
          onEstablished g ((s.gr.map (·.fams)).getD []) lr
  | .ann f n nl lc =>
      match g.sess with
      | none => g
      | some s =>
          if s.fams.contains f then
            { g with rib := g.rib.insert { fam := f, pfx := n, noLlgr := nl, lsc := lc } }
          else g
  | .eor f =>
      match g.sess with
      | none => g
      | some s => if s.gr.isSome then onEor g f else g   -- `if self.negotiated_gr.is_some()`
  | .down r => sessionDown g r
  | .attempt => attemptEnds g
  | .grTimer => fireGr g
  | .llgrTimer f => fireLlgr g f
  | .force => forceDown g
  | .disable => if g.adminDown then g else forceDown { g with adminDown := true }
  | .enable => { g with adminDown := false }
  | .wait => waitAll g

/-- what is observed after each step -/
structure RouteObs where
  fam : Fam
  pfx : Nat
  stale : Bool
  llgr : Bool
  noLlgr : Bool
  lsc : Bool
  deriving DecidableEq, Repr, Inhabited

structure Obs where
  routes : List RouteObs
  grTimer : Bool
  llgrTimers : List Fam
  restarting : Bool        -- `GrState::is_peer_restarting`
  up : Bool
  deriving DecidableEq, Repr, Inhabited

def observe (g : G) : Obs :=
  { routes := g.rib.map fun x =>
      { fam := x.fam, pfx := x.pfx, stale := x.stale, llgr := x.llgr, noLlgr := x.noLlgr, lsc := x.lsc },
    grTimer := g.grTimer, llgrTimers := g.llgrTimers, restarting := isPeerRestarting g.gs,
    up := g.sess.isSome }

def runFrom (g : G) : List Ev → List Obs
  | [] => []
  | e :: es => let g' := step g e; observe g' :: runFrom g' es

def run (evs : List Ev) : List Obs := runFrom {} evs

/-- pure-machine histories: outputs and `is_peer_restarting` after each input -/
def runPure (s : GInner) : List GIn → List (List GOut × Bool)
  | [] => []
  | i :: is => let r := gprocess s i; (r.2, isPeerRestarting r.1) :: runPure r.1 is

end Rbgp.Gr.Helper
