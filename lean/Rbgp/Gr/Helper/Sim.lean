/-
  Rbgp.Gr.Helper.Sim — the relation between a model state and the reference bookkeeping of
  Spec.lean, one step of simulation, and the master theorem `check_run_ok`.
-/
import Rbgp.Gr.Helper.Inv
import Rbgp.Gr.Helper.Spec
namespace Rbgp.Gr.Helper
open Rbgp.Gr.Helper.Spec

/-- the observation of a route -/
def obsOf (x : Route) : RouteObs :=
  { fam := x.fam, pfx := x.pfx, stale := x.stale, llgr := x.llgr, noLlgr := x.noLlgr, lsc := x.lsc }

theorem observe_routes (g : G) : (observe g).routes = g.rib.map obsOf := rfl

theorem marked_obs (x : Route) : Spec.marked (obsOf x) = marked x := rfl

structure Rel (g : G) (r : R) : Prop where
  inv : Inv g
  up : r.up = g.sess.isSome
  sess : ∀ s, g.sess = some s → r.fams = s.fams ∧ r.gr = s.gr ∧ r.llgr = s.llgr
  ad : r.adminDown = g.adminDown
  prev : r.prev = observe g
  aw : ∀ P fl, g.gs = .peerReconnected P fl → ∀ x ∈ g.rib, marked x = true → x.fam ∈ r.awaiting
  ann : g.sess.isSome = true → ∀ a ∈ r.announced, ∃ x ∈ g.rib, x.fam = a.1 ∧ x.pfx = a.2 ∧ marked x = false

theorem rel_init : Rel {} {} := by
  refine ⟨inv_init, rfl, fun s h => by simp at h, rfl, rfl, fun P fl h => by simp at h, fun h => by simp at h⟩

/-- no marked route can hide behind a `PeerReconnected` state once the session is gone -/
theorem no_marked_of_prc_down {g : G} (h : Inv g) (hs : g.sess = none) {P : List Fam} {fl : Bool}
    (hgs : g.gs = .peerReconnected P fl) (x : Route) (hx : x ∈ g.rib) : marked x = false := by
  have hc := h.cover
  unfold Cover at hc
  rw [hgs] at hc
  cases hm : marked x with
  | false => rfl
  | true =>
      obtain ⟨_, _, s, _, hs', _⟩ := hc x hx hm
      rw [hs] at hs'; cases hs'

/-- the invariant `I` of the property on the observation of a state -/
theorem invI_of {g : G} (h : Inv g) {up : Bool} {aw : List Fam} (hup : up = g.sess.isSome)
    (haw : ∀ P fl, g.gs = .peerReconnected P fl → ∀ x ∈ g.rib, marked x = true → x.fam ∈ aw) :
    invI up aw (observe g) = true := by
  simp only [invI, observe_routes, List.all_map, List.all_eq_true, Function.comp]
  intro x hx
  cases hm : marked x with
  | false => simp [marked_obs, hm]
  | true =>
      rcases h.pending x hx hm with h1 | h1 | ⟨h1, h2⟩
      · simp [observe, h1]
      · have : (obsOf x).fam ∈ (observe g).llgrTimers := by simpa [observe, obsOf] using h1
        simp [this]
      · have hsome := h1
        cases hgs : g.gs with
        | peerReconnected P fl =>
            have := haw P fl hgs x hx hm
            have hc : (obsOf x).fam ∈ aw := by simpa [obsOf] using this
            simp [hup, hsome, hc]
        | idle => simp [awaitingOf, hgs] at h2
        | peerRestarting S L => simp [awaitingOf, hgs] at h2
        | llgrStaling rem => simp [awaitingOf, hgs] at h2

theorem noLlgrDropped_of {g g' : G} (h : NoLlgrOk g g') : noLlgrDropped (observe g) (observe g') = true := by
  simp only [noLlgrDropped, List.all_eq_true, Bool.or_eq_true, observe_routes, List.all_map, Function.comp]
  intro f hf
  rcases h f (by simpa [observe] using hf) with h1 | h1
  · exact Or.inl (by simpa [observe] using h1)
  · refine Or.inr fun x hx => ?_
    by_cases hxf : x.fam = f
    · simp [obsOf, hxf, h1 x hx hxf]
    · simp [obsOf, hxf]

/-- the checks every step ends with -/
theorem common_ok {g g' : G} {r r' : R} (hprev : r.prev = observe g) (hi : Inv g') (hn : NoLlgrOk g g')
    (hup : r'.up = g'.sess.isSome)
    (haw : ∀ P fl, g'.gs = .peerReconnected P fl → ∀ x ∈ g'.rib, marked x = true → x.fam ∈ r'.awaiting) :
    (if !invI r'.up r'.awaiting (observe g') then (Except.error "stale-without-pending" : Except String R)
     else if !noLlgrDropped r.prev (observe g') then .error "no-llgr-kept"
     else .ok { r' with prev := observe g' }) = .ok { r' with prev := observe g' } := by
  rw [invI_of hi hup haw, hprev, noLlgrDropped_of hn]
  rfl

theorem noLlgrOk_refl (g : G) : NoLlgrOk g g := fun _ hf => Or.inl hf

theorem announcedKept_of {g : G} {ann : List (Fam × Nat)}
    (h : ∀ a ∈ ann, ∃ x ∈ g.rib, x.fam = a.1 ∧ x.pfx = a.2 ∧ marked x = false) :
    announcedKept ann (observe g) = true := by
  simp only [announcedKept, List.all_eq_true, observe_routes, List.any_map, List.any_eq_true, Function.comp]
  intro a ha
  obtain ⟨x, hx, h1, h2, h3⟩ := h a ha
  have h3' : Spec.marked (obsOf x) = false := by rw [marked_obs]; exact h3
  refine ⟨x, hx, ?_⟩
  rw [h3']
  simp [obsOf, h1, h2]

/-! ## the session goes down -/

theorem prev_quiet {g : G} {r : R} (hr : Rel g r) {s : Sess} (hs : g.sess = some s) :
    r.prev.grTimer = false ∧ r.prev.llgrTimers = [] := by
  obtain ⟨_, h1, h2, _⟩ := hr.inv.live s hs
  rw [hr.prev]; exact ⟨h1, h2⟩

theorem hasRoute_iff {o : Obs} {f : Fam} {n : Nat} :
    hasRoute o f n = true ↔ ∃ x ∈ o.routes, x.fam = f ∧ x.pfx = n := by
  simp [hasRoute]

/-- the three shapes a session-down step can take -/
def stNone (g : G) (s : Sess) : G :=
  { g with sess := none, rib := g.rib.filter (fun x => !s.fams.contains x.fam) }

def stLlgr (g : G) (s : Sess) (lp : List Fam) : G :=
  { g with sess := none, grTimer := false, gs := GInner.llgrStaling (dedup lp),
           rib := (g.rib.filter (fun x => !(familiesToDrop s.fams none (some lp)).contains x.fam)).filterMap (mkAll lp),
           llgrTimers := dedup (g.llgrTimers ++ lp) }

def stGr (g : G) (s : Sess) (n : NegGr) (ll : Option (List Fam)) : G :=
  { g with sess := none, grTimer := true,
           gs := GInner.peerRestarting (helperStaleFamilies n ll) ll,
           rib := (g.rib.filter (fun x => !(familiesToDrop s.fams (some n) ll).contains x.fam)).map
              (fun x => if (helperStaleFamilies n ll).contains x.fam then { x with stale := true } else x) }

/-- what a session-down step leaves behind is what clauses (1) and (6) allow -/
theorem downOk_ok {g : G} {r : R} (hr : Rel g r) {s : Sess} (hs : g.sess = some s) (reason : Reason) (cls : Class)
    (F1 : cls = .never → helperGr s reason g.adminDown = none ∧ helperLlgr s reason g.adminDown = none)
    (F2 : cls = .must → helperGr s reason g.adminDown = s.gr ∧ helperLlgr s reason g.adminDown = s.llgr)
    (F3 : cls = .either → (∀ n, helperGr s reason g.adminDown = some n → helperLlgr s reason g.adminDown = s.llgr) ∧
                           (helperGr s reason g.adminDown = none → helperLlgr s reason g.adminDown = none)) :
    downOk r cls (observe (sessionDown g reason)) = .ok () := by
  obtain ⟨hfams, hgr, hllgr⟩ := hr.sess s hs
  obtain ⟨hpg, hpl⟩ := prev_quiet hr hs
  obtain ⟨hw, hgt, hlt, _⟩ := hr.inv.live s hs
  have hneg : ((r.gr.map (·.fams)).getD []) ++ (r.llgr.getD []) = ((s.gr.map (·.fams)).getD []) ++ (s.llgr.getD []) := by
    rw [hgr, hllgr]
  unfold downOk
  simp only [hneg, hpg, hpl, hfams]
  cases h1 : helperGr s reason g.adminDown with
  | none =>
      cases h2 : helperLlgr s reason g.adminDown with
      | none =>
          -- no helper mode: every session family is gone, no timer
          rw [show sessionDown g reason = stNone g s from sessionDown_none hs reason h1 h2]
          have hnt : ((observe (stNone g s)).grTimer
              && !false || (observe (stNone g s)).llgrTimers.any
                (fun f => !([] : List Fam).contains f)) = false := by
            simp [observe, stNone, hgt, hlt]
          have hnoroute : (observe (stNone g s)).routes.any
              (fun x => s.fams.contains x.fam) = false := by
            simp only [observe_routes, stNone, List.any_map, List.any_eq_false, Function.comp, List.mem_filter]
            intro x hx
            simpa [obsOf] using hx.2
          have hmust : cls = .must → (((s.gr.map (·.fams)).getD []) ++ (s.llgr.getD [])).isEmpty = true := by
            intro hc
            obtain ⟨a, b⟩ := F2 hc
            rw [h1] at a; rw [h2] at b
            simp [← a, ← b]
          rw [hnt, hnoroute]
          cases cls with
          | never => simp
          | must => simp [hmust rfl]
          | either => simp
      | some lp =>
          -- LLGR-only helper mode
          obtain ⟨hl, had, hio⟩ := helperLlgr_some h2
          have hcls : cls = .must := by
            cases cls with
            | never => have := (F1 rfl).2; rw [h2] at this; cases this
            | either => have := (F3 rfl).2 h1; rw [h2] at this; cases this
            | must => rfl
          subst hcls
          have hsgr : s.gr = none := by rw [← (F2 rfl).1]; exact h1
          obtain ⟨hlpne, hlpsub⟩ := hw.2 lp hl
          rw [show sessionDown g reason = stLlgr g s lp from sessionDown_llgr hr.inv hs reason lp h1 h2]
          simp only [hsgr, hl, Option.map_none, Option.getD_none, List.nil_append, Option.getD_some]
          have hllt : (observe (stLlgr g s lp)).llgrTimers = dedup lp := by simp [observe, stLlgr, hlt]
          have hne : (dedup lp).isEmpty = false := by
            cases hd : dedup lp with
            | nil => exact absurd (dedup_eq_nil.mp hd) hlpne
            | cons a l => rfl
          have hlpe : lp.isEmpty = false := by cases lp <;> simp_all
          simp only [hllt, hne, hlpe, Bool.not_false, Bool.and_true, Bool.or_true, Bool.not_true, Bool.and_false,
            Bool.false_eq_true, ↓reduceIte, reduceCtorEq, decide_false, Bool.false_and, decide_true, Bool.true_and]
          -- the three route clauses
          have hroutes : ∀ y, y ∈ (g.rib.filter (fun x => !(familiesToDrop s.fams none (some lp)).contains x.fam)).filterMap (mkAll lp) →
              ∃ x ∈ g.rib, mkAll lp x = some y ∧ ¬ (x.fam ∈ s.fams ∧ x.fam ∉ lp) := by
            intro y hy
            rw [List.mem_filterMap] at hy
            obtain ⟨x, hx, hxy⟩ := hy
            rw [List.mem_filter] at hx
            refine ⟨x, hx.1, hxy, fun ⟨a, b⟩ => ?_⟩
            have : x.fam ∈ familiesToDrop s.fams none (some lp) := mem_familiesToDrop.mpr ⟨a, by simp, by simpa using b⟩
            simp [this] at hx
          have c1 : (observe (stLlgr g s lp)).routes.any
                (fun x => s.fams.contains x.fam && !lp.contains x.fam) = false := by
            simp only [observe_routes, List.any_map, List.any_eq_false, Function.comp]
            intro y hy
            obtain ⟨x, _, hxy, hnot⟩ := hroutes y hy
            have hfam : y.fam = x.fam := by
              unfold mkAll at hxy; split at hxy
              · split at hxy
                · cases hxy
                · cases hxy; rfl
              · cases hxy; rfl
            intro hcon
            simp only [obsOf, hfam, Bool.and_eq_true, Bool.not_eq_eq_eq_not, Bool.not_true, List.contains_eq_mem,
              decide_eq_true_eq, decide_eq_false_iff_not] at hcon
            exact hnot hcon
          have c2 : r.prev.routes.any (fun x => s.fams.contains x.fam && lp.contains x.fam &&
              !(x.noLlgr && (dedup lp).contains x.fam) &&
              !hasRoute (observe (stLlgr g s lp)) x.fam x.pfx) = false := by
            rw [hr.prev]
            simp only [observe_routes, List.any_map, List.any_eq_false, Function.comp]
            intro x hx hcon
            simp only [Bool.and_eq_true, Bool.not_eq_eq_eq_not, Bool.not_true, Bool.and_eq_false_imp, obsOf,
              List.contains_eq_mem, decide_eq_true_eq] at hcon
            obtain ⟨⟨⟨_, hinlp⟩, hnl⟩, hno⟩ := hcon
            have hnl' : x.noLlgr = false := by
              cases hq : x.noLlgr with
              | false => rfl
              | true => have := hnl hq; simp [mem_dedup, hinlp] at this
            have hy : mkAll lp x = some { x with llgr := true } := by simp [mkAll, hinlp, hnl']
            have hmem : ({ x with llgr := true } : Route) ∈
                (g.rib.filter (fun x => !(familiesToDrop s.fams none (some lp)).contains x.fam)).filterMap (mkAll lp) := by
              rw [List.mem_filterMap]
              refine ⟨x, List.mem_filter.mpr ⟨hx, ?_⟩, hy⟩
              have : x.fam ∉ familiesToDrop s.fams none (some lp) := fun hm => (mem_familiesToDrop.mp hm).2.2 (by simpa using hinlp)
              simp [this]
            have : hasRoute (observe (stLlgr g s lp)) x.fam x.pfx = true := by
              rw [hasRoute_iff, observe_routes]
              exact ⟨obsOf { x with llgr := true }, List.mem_map.mpr ⟨_, hmem, rfl⟩, rfl, rfl⟩
            rw [this] at hno; cases hno
          have c3 : (observe (stLlgr g s lp)).routes.any
                (fun x => s.fams.contains x.fam && !Spec.marked x) = false := by
            simp only [observe_routes, List.any_map, List.any_eq_false, Function.comp]
            intro y hy
            obtain ⟨x, _, hxy, hnot⟩ := hroutes y hy
            intro hcon
            simp only [Bool.and_eq_true, Bool.not_eq_eq_eq_not, Bool.not_true, marked_obs, obsOf,
              List.contains_eq_mem, decide_eq_true_eq] at hcon
            unfold mkAll at hxy
            by_cases hin : lp.contains x.fam = true
            · simp only [hin, ↓reduceIte] at hxy
              split at hxy
              · cases hxy
              · cases hxy; simp [Spec.marked] at hcon
            · simp only [hin, Bool.false_eq_true, ↓reduceIte, Option.some.injEq] at hxy
              subst hxy
              exact hnot ⟨hcon.1, by simpa using hin⟩
          rw [c1, c2, c3]; rfl
  | some n =>
      -- helper mode with a restart timer
      obtain ⟨hn, had, _⟩ := helperGr_some h1
      have hcls : cls ≠ .never := fun hc => by have := (F1 hc).1; rw [h1] at this; cases this
      have hll : helperLlgr s reason g.adminDown = s.llgr := by
        cases cls with
        | never => exact absurd rfl hcls
        | must => exact (F2 rfl).2
        | either => exact (F3 rfl).1 n h1
      obtain ⟨hnne, hnsub⟩ := hw.1 n hn
      rw [show sessionDown g reason = stGr g s n s.llgr from by rw [sessionDown_gr hr.inv hs reason n h1, hll]; rfl]
      simp only [hn, Option.map_some, Option.getD_some]
      generalize hG : stGr g s n s.llgr = g'
      have hgt' : (observe g').grTimer = true := by rw [← hG]; rfl
      have hnegne : (n.fams ++ s.llgr.getD []).isEmpty = false := by cases hq : n.fams <;> simp_all
      have hrib : (observe g').routes = ((g.rib.filter (fun x => !(familiesToDrop s.fams (some n) s.llgr).contains x.fam)).map
            (fun x => if (helperStaleFamilies n s.llgr).contains x.fam then { x with stale := true } else x)).map obsOf := by
        rw [← hG]; rfl
      have hkeep : ∀ x ∈ g.rib, x.fam ∈ s.fams → ((familiesToDrop s.fams (some n) s.llgr).contains x.fam = false ↔
          (x.fam ∈ n.fams ∨ x.fam ∈ s.llgr.getD [])) := by
        intro x _ hxf
        rw [Bool.eq_false_iff]
        simp only [ne_eq, List.contains_eq_mem, decide_eq_true_eq, mem_familiesToDrop, Option.map_some, Option.getD_some,
          not_and, Decidable.not_not]
        constructor
        · intro hh
          by_cases hq : x.fam ∈ n.fams
          · exact Or.inl hq
          · exact Or.inr (hh hxf hq)
        · rintro (hq | hq) _ hq2
          · exact absurd hq hq2
          · exact hq
      have c1 : (observe g').routes.any (fun x => s.fams.contains x.fam && !(n.fams ++ s.llgr.getD []).contains x.fam) = false := by
        rw [hrib]
        simp only [List.any_map, List.any_eq_false, Function.comp, List.mem_filter]
        intro x hx
        generalize hy : (if (helperStaleFamilies n s.llgr).contains x.fam then { x with stale := true } else x) = y
        have hyf : y.fam = x.fam := by rw [← hy]; split <;> rfl
        intro hcon
        simp only [obsOf, hyf, Bool.and_eq_true, Bool.not_eq_eq_eq_not, Bool.not_true, List.contains_eq_mem,
          decide_eq_true_eq, decide_eq_false_iff_not, List.mem_append, not_or] at hcon
        have := (hkeep x hx.1 hcon.1).mp (by simpa using hx.2)
        rcases this with h' | h'
        · exact hcon.2.1 h'
        · exact hcon.2.2 h'
      have c2 : r.prev.routes.any (fun x => s.fams.contains x.fam && (n.fams ++ s.llgr.getD []).contains x.fam &&
          !(x.noLlgr && (observe g').llgrTimers.contains x.fam) && !hasRoute (observe g') x.fam x.pfx) = false := by
        rw [hr.prev]
        simp only [observe_routes, List.any_map, List.any_eq_false, Function.comp]
        intro x hx hcon
        simp only [Bool.and_eq_true, Bool.not_eq_eq_eq_not, Bool.not_true, obsOf, List.contains_eq_mem,
          decide_eq_true_eq, List.mem_append] at hcon
        obtain ⟨⟨⟨hxf, hneg'⟩, _⟩, hno⟩ := hcon
        have hk : (familiesToDrop s.fams (some n) s.llgr).contains x.fam = false := (hkeep x hx hxf).mpr hneg'
        have : hasRoute (observe g') x.fam x.pfx = true := by
          rw [hasRoute_iff, hrib]
          refine ⟨obsOf (if (helperStaleFamilies n s.llgr).contains x.fam then { x with stale := true } else x),
            List.mem_map.mpr ⟨_, List.mem_map.mpr ⟨x, List.mem_filter.mpr ⟨hx, by rw [hk]; rfl⟩, rfl⟩, rfl⟩, ?_, ?_⟩ <;>
            split <;> rfl
        rw [this] at hno; cases hno
      have c3 : (observe g').routes.any (fun x => s.fams.contains x.fam && !Spec.marked x) = false := by
        rw [hrib]
        simp only [List.any_map, List.any_eq_false, Function.comp, List.mem_filter]
        intro x hx
        generalize hy : (if (helperStaleFamilies n s.llgr).contains x.fam then { x with stale := true } else x) = y
        have hyf : y.fam = x.fam := by rw [← hy]; split <;> rfl
        intro hcon
        simp only [obsOf, hyf, Bool.and_eq_true, Bool.not_eq_eq_eq_not, Bool.not_true, List.contains_eq_mem,
          decide_eq_true_eq] at hcon
        have hin := (hkeep x hx.1 hcon.1).mp (by simpa using hx.2)
        have hS : (helperStaleFamilies n s.llgr).contains x.fam = true := by simpa using mem_helperStale.mpr hin
        rw [if_pos hS] at hy
        subst hy
        simp [Spec.marked] at hcon
      have hnt : ((observe g').grTimer && !false || (observe g').llgrTimers.any fun f => !([] : List Fam).contains f) = true := by
        simp [hgt']
      rw [hnt, c1, c2, c3, hgt']
      cases cls with
      | never => exact absurd rfl hcls
      | must => simp [hnegne]
      | either => simp

/-! ## eligibility facts per class -/

theorem class_facts (s : Sess) (reason : Reason) (ad : Bool) :
    (classify reason ad = .never → helperGr s reason ad = none ∧ helperLlgr s reason ad = none) ∧
    (classify reason ad = .must → helperGr s reason ad = s.gr ∧ helperLlgr s reason ad = s.llgr) ∧
    (classify reason ad = .either → (∀ n, helperGr s reason ad = some n → helperLlgr s reason ad = s.llgr) ∧
                                     (helperGr s reason ad = none → helperLlgr s reason ad = none)) := by
  cases ad with
  | true => simp [classify, helperGr, helperLlgr]
  | false =>
      cases reason with
      | io =>
          refine ⟨by simp [classify], fun _ => ?_, by simp [classify]⟩
          cases hg : s.gr <;> simp [helperGr, helperLlgr, hg, grApplies]
      | hold =>
          refine ⟨by simp [classify], by simp [classify], fun _ => ⟨fun n hn => ?_, fun hn => ?_⟩⟩
          · simp [helperLlgr, hn]
          · simp [helperLlgr, hn]
      | fsmError =>
          refine ⟨fun _ => ?_, by simp [classify], by simp [classify]⟩
          cases hg : s.gr <;> simp [helperGr, helperLlgr, hg, grApplies]
      | admin =>
          refine ⟨fun _ => ?_, by simp [classify], by simp [classify]⟩
          cases hg : s.gr <;> simp [helperGr, helperLlgr, hg, grApplies]
      | remoteNotif c sc =>
          by_cases h6 : c = 6
          · by_cases h9 : sc = 9
            · subst h6 h9
              cases hg : s.gr <;> simp [classify, helperGr, helperLlgr, hg, grApplies, isHardReset]
            · subst h6
              refine ⟨by simp [classify, h9], by simp [classify, h9], fun _ => ⟨fun n hn => ?_, fun hn => ?_⟩⟩
              · simp [helperLlgr, hn]
              · simp [helperLlgr, hn]
          · cases hg : s.gr <;> simp [classify, h6, helperGr, helperLlgr, hg, grApplies]
      | localNotif c sc =>
          by_cases h6 : c = 6
          · by_cases h9 : sc = 9
            · subst h6 h9
              cases hg : s.gr <;> simp [classify, helperGr, helperLlgr, hg, grApplies, isHardReset]
            · subst h6
              refine ⟨by simp [classify, h9], by simp [classify, h9], fun _ => ⟨fun n hn => ?_, fun hn => ?_⟩⟩
              · simp [helperLlgr, hn]
              · simp [helperLlgr, hn]
          · cases hg : s.gr <;> simp [classify, h6, helperGr, helperLlgr, hg, grApplies]

theorem never_facts_admin (s : Sess) (ad : Bool) :
    helperGr s .admin ad = none ∧ helperLlgr s .admin ad = none := by
  cases ad with
  | true => simp [helperGr, helperLlgr]
  | false => cases hg : s.gr <;> simp [helperGr, helperLlgr, hg, grApplies]

/-! ## one step of simulation -/

/-- a step that leaves the model state untouched -/
theorem stutter {g : G} {r : R} (hr : Rel g r) :
    (if !invI r.up r.awaiting (observe g) then (Except.error "stale-without-pending" : Except String R)
     else if !noLlgrDropped r.prev (observe g) then .error "no-llgr-kept"
     else .ok { r with prev := observe g }) = .ok r := by
  have := common_ok (r := r) (r' := r) hr.prev hr.inv (noLlgrOk_refl g) hr.up hr.aw
  rw [this]
  congr 1
  have hp := hr.prev
  cases r
  simp only at hp
  subst hp
  rfl

theorem rel_sessionEnds {g g' : G} {r : R} (hr : Rel g r) (hi : Inv g') (hs : g'.sess = none)
    (had : g'.adminDown = g.adminDown) : Rel g' { sessionEnds r with prev := observe g' } := by
  refine ⟨hi, (by simp [sessionEnds, hs]), fun s h => (by rw [hs] at h; cases h),
    (by simp [sessionEnds, hr.ad, had]), rfl, fun P fl hgs x hx hm => ?_, fun h => (by rw [hs] at h; cases h)⟩
  have := no_marked_of_prc_down hi hs hgs x hx
  rw [hm] at this; cases this

theorem sessionDown_fields {g : G} (h : Inv g) (reason : Reason) :
    (sessionDown g reason).adminDown = g.adminDown ∧ (sessionDown g reason).sess = none ∨
    (g.sess = none ∧ sessionDown g reason = g) := by
  cases hs : g.sess with
  | none => right; exact ⟨rfl, by simp [sessionDown, hs]⟩
  | some s =>
      left
      cases h1 : helperGr s reason g.adminDown with
      | some n => rw [sessionDown_gr h hs reason n h1]; exact ⟨rfl, rfl⟩
      | none =>
          cases h2 : helperLlgr s reason g.adminDown with
          | none => rw [sessionDown_none hs reason h1 h2]; exact ⟨rfl, rfl⟩
          | some lp => rw [sessionDown_llgr h hs reason lp h1 h2]; exact ⟨rfl, rfl⟩

theorem forceDown_fields {g : G} (h : Inv g) :
    (forceDown g).adminDown = g.adminDown ∧ (forceDown g).sess = none :=
  ⟨(inv_forceDown' h).2.2.2.1, (inv_forceDown' h).2.2.1⟩

theorem fireGr_fields {g : G} (h : Inv g) :
    (fireGr g).adminDown = g.adminDown ∧ (fireGr g).sess = g.sess ∧ (g.sess.isSome = true → fireGr g = g) := by
  unfold fireGr
  by_cases ht : g.grTimer = true
  · obtain ⟨_, _, hsn, had, _⟩ := inv_grExpired h ht
    have hs := sess_none_of_grTimer h ht
    simp only [ht, ↓reduceIte]
    exact ⟨had, by rw [hsn, hs], fun hh => by rw [hs] at hh; cases hh⟩
  · rw [if_neg ht]; exact ⟨rfl, rfl, fun _ => rfl⟩

theorem fireLlgr_fields {g : G} (h : Inv g) (f : Fam) :
    (fireLlgr g f).adminDown = g.adminDown ∧ (fireLlgr g f).sess = g.sess ∧ (g.sess.isSome = true → fireLlgr g f = g) := by
  unfold fireLlgr
  by_cases hf : g.llgrTimers.contains f = true
  · obtain ⟨rem, hgs, _⟩ := (h.timerLl f).mp (by simpa using hf)
    have hs := sess_none_of_ls h hgs
    simp only [hf, ↓reduceIte]
    rw [llgrExp_ls _ rem (by simpa using hgs)]
    exact ⟨rfl, rfl, fun hh => by rw [hs] at hh; cases hh⟩
  · rw [if_neg hf]; exact ⟨rfl, rfl, fun _ => rfl⟩

/-- aw for a state whose machine is not `PeerReconnected`, or whose session is gone -/
theorem aw_vacuous {g : G} (hi : Inv g) (hs : g.sess = none) (aw : List Fam) :
    ∀ P fl, g.gs = .peerReconnected P fl → ∀ x ∈ g.rib, marked x = true → x.fam ∈ aw := by
  intro P fl hgs x hx hm
  have := no_marked_of_prc_down hi hs hgs x hx
  rw [hm] at this; cases this

/-- the checks every step ends with (the local `common` of `Spec.stepOk`) -/
def commonE (r r' : R) (cur : Obs) : Except String R :=
  if !invI r'.up r'.awaiting cur then .error "stale-without-pending"
  else if !noLlgrDropped r.prev cur then .error "no-llgr-kept"
  else .ok { r' with prev := cur }

theorem commonE_ok {g g' : G} {r r' : R} (hprev : r.prev = observe g) (hi : Inv g') (hn : NoLlgrOk g g')
    (hup : r'.up = g'.sess.isSome)
    (haw : ∀ P fl, g'.gs = .peerReconnected P fl → ∀ x ∈ g'.rib, marked x = true → x.fam ∈ r'.awaiting) :
    commonE r r' (observe g') = .ok { r' with prev := observe g' } :=
  common_ok hprev hi hn hup haw

theorem commonE_stutter {g : G} {r : R} (hr : Rel g r) : commonE r r (observe g) = .ok r := stutter hr

def rEst (r : R) (fams : List Fam) (gr : Option NegGr) (llgr : Option (List Fam)) : R :=
  { r with up := true, fams := sessFams fams, gr := negGr fams gr, llgr := negLlgr fams llgr,
           awaiting := ((negGr fams gr).map (·.fams)).getD [], announced := [] }

theorem negotiate_eq (fams : List Fam) (gr : Option NegGr) (llgr : Option (List Fam)) :
    (negotiate fams gr llgr).fams = sessFams fams ∧ (negotiate fams gr llgr).gr = negGr fams gr ∧
    (negotiate fams gr llgr).llgr = negLlgr fams llgr := by
  refine ⟨rfl, ?_, ?_⟩
  · cases gr <;> rfl
  · cases llgr <;> rfl
def rAnn (r : R) (f : Fam) (n : Nat) : R := { r with announced := (f, n) :: r.announced.filter (· ≠ (f, n)) }
def rEor (r : R) (f : Fam) : R := { r with awaiting := r.awaiting.filter (· ≠ f) }

theorem stepOk_est (r : R) (fams gr llgr lr) (cur : Obs) :
    stepOk r (.est fams gr llgr lr) cur = if r.up then commonE r r cur else commonE r (rEst r fams gr llgr) cur := rfl
theorem stepOk_ann (r : R) (f n nl lc) (cur : Obs) :
    stepOk r (.ann f n nl lc) cur =
      if r.up && r.fams.contains f then
        (if !announcedKept (rAnn r f n).announced cur then .error "announced-route-missing" else commonE r (rAnn r f n) cur)
      else commonE r r cur := rfl
theorem stepOk_eor (r : R) (f : Fam) (cur : Obs) :
    stepOk r (.eor f) cur =
      if r.up && !announcedKept r.announced cur then .error "purge-removed-fresh"
      else commonE r (if r.up && r.gr.isSome then rEor r f else r) cur := rfl
theorem stepOk_down (r : R) (reason : Reason) (cur : Obs) :
    stepOk r (.down reason) cur =
      if !r.up then commonE r r cur
      else match downOk r (classify reason r.adminDown) cur with
        | .error c => .error c
        | .ok _ => commonE r (sessionEnds r) cur := rfl
theorem stepOk_attempt (r : R) (cur : Obs) :
    stepOk r .attempt cur =
      if (r.prev.grTimer && !cur.grTimer) || r.prev.llgrTimers.any (fun f => !cur.llgrTimers.contains f) then
        .error "failed-attempt-disarmed"
      else if r.up && !announcedKept r.announced cur then .error "purge-removed-fresh"
      else commonE r r cur := rfl
theorem stepOk_grTimer (r : R) (cur : Obs) :
    stepOk r .grTimer cur =
      if r.up && !announcedKept r.announced cur then .error "purge-removed-fresh" else commonE r r cur := rfl
theorem stepOk_llgrTimer (r : R) (f : Fam) (cur : Obs) :
    stepOk r (.llgrTimer f) cur =
      if r.up && !announcedKept r.announced cur then .error "purge-removed-fresh" else commonE r r cur := rfl
theorem stepOk_force (r : R) (cur : Obs) :
    stepOk r .force cur =
      if forcedKeeps cur then .error "forced-down-keeps-helper"
      else if !r.up then commonE r r cur
      else match downOk r .never cur with
        | .error c => .error c
        | .ok _ => commonE r (sessionEnds r) cur := rfl
theorem stepOk_disable (r : R) (cur : Obs) :
    stepOk r .disable cur =
      if r.adminDown then commonE r r cur
      else if forcedKeeps cur then .error "forced-down-keeps-helper"
      else if !r.up then commonE r { r with adminDown := true } cur
      else match downOk r .never cur with
        | .error c => .error c
        | .ok _ => commonE r { sessionEnds r with adminDown := true } cur := rfl
theorem stepOk_wait (r : R) (cur : Obs) :
    stepOk r .wait cur =
      if r.up && !announcedKept r.announced cur then .error "purge-removed-fresh" else commonE r r cur := rfl
theorem stepOk_enable (r : R) (cur : Obs) :
    stepOk r .enable cur = commonE r { r with adminDown := false } cur := rfl

/-- no session, no timer: nothing marked is left (clause `forced-down-keeps-helper`) -/
theorem forcedKeeps_false {g : G} (hi : Inv g) (hs : g.sess = none) (hgt : g.grTimer = false)
    (hlt : g.llgrTimers = []) : forcedKeeps (observe g) = false := by
  have hno : ∀ x ∈ g.rib, marked x = false := by
    intro x hx
    cases hm : marked x with
    | false => rfl
    | true =>
        rcases hi.pending x hx hm with h1 | h1 | ⟨h1, _⟩
        · rw [hgt] at h1; cases h1
        · rw [hlt] at h1; cases h1
        · rw [hs] at h1; cases h1
  have hr : (observe g).routes.any Spec.marked = false := by
    simp only [observe_routes, List.any_map, List.any_eq_false, Function.comp]
    intro x hx; rw [marked_obs, hno x hx]; simp
  unfold forcedKeeps
  rw [hr]
  simp [observe, hgt, hlt]

theorem fold_fireLlgr_id (g : G) (h : g.llgrTimers = []) (l : List Fam) : l.foldl fireLlgr g = g := by
  induction l with
  | nil => rfl
  | cons f l ih =>
      have : fireLlgr g f = g := by simp [fireLlgr, h]
      simp only [List.foldl_cons, this, ih]

theorem fold_fireLlgr_fields {g : G} (h : Inv g) (l : List Fam) :
    Inv (l.foldl fireLlgr g) ∧ (l.foldl fireLlgr g).adminDown = g.adminDown ∧ (l.foldl fireLlgr g).sess = g.sess := by
  induction l generalizing g with
  | nil => exact ⟨h, rfl, rfl⟩
  | cons f l ih =>
      obtain ⟨a, b, c⟩ := ih (inv_fireLlgr h f).1
      obtain ⟨d, e, _⟩ := fireLlgr_fields h f
      exact ⟨a, b.trans d, c.trans e⟩

theorem waitAll_fields {g : G} (h : Inv g) :
    (waitAll g).adminDown = g.adminDown ∧ (waitAll g).sess = g.sess ∧ (g.sess.isSome = true → waitAll g = g) := by
  obtain ⟨a, b, c⟩ := fireGr_fields h
  obtain ⟨_, d, e⟩ := fold_fireLlgr_fields (inv_fireGr h).1 (sortNat g.llgrTimers)
  refine ⟨d.trans a, e.trans b, fun hs => ?_⟩
  unfold waitAll
  rw [c hs]
  obtain ⟨s, hss⟩ := Option.isSome_iff_exists.mp hs
  exact fold_fireLlgr_id g (h.live s hss).2.2.1 _

theorem up_false_iff {g : G} {r : R} (hr : Rel g r) : r.up = false ↔ g.sess = none := by
  rw [hr.up]; cases g.sess <;> simp

theorem up_true_of {g : G} {r : R} (hr : Rel g r) {s : Sess} (hs : g.sess = some s) : r.up = true := by
  rw [hr.up, hs]; rfl

/-- the relation after a step that ends (or finds no) session -/
theorem rel_down {g' : G} {r' : R} (hi : Inv g') (hsn : g'.sess = none) (hup : r'.up = false)
    (had : r'.adminDown = g'.adminDown) : Rel g' { r' with prev := observe g' } :=
  ⟨hi, (by rw [hsn]; exact hup), fun s hs => (by rw [hsn] at hs; cases hs), had, rfl, aw_vacuous hi hsn _,
   fun h => (by rw [hsn] at h; cases h)⟩

/-- One step of the model (any event) is accepted by the reference checker and keeps the relation. -/
theorem step_sim {g : G} {r : R} (hr : Rel g r) (ev : Ev) :
    ∃ r', stepOk r ev (observe (step g ev)) = .ok r' ∧ Rel (step g ev) r' := by
  obtain ⟨hinv', hnl'⟩ := step_inv hr.inv ev
  cases ev with
  | est fams gr llgr lr =>
      cases hs : g.sess with
      | some s =>
          have hst : step g (.est fams gr llgr lr) = g := by simp [step, hs]
          rw [hst, stepOk_est, if_pos (up_true_of hr hs)]
          exact ⟨r, commonE_stutter hr, hr⟩
      | none =>
          have hup : r.up = false := (up_false_iff hr).mpr hs
          have hst : step g (.est fams gr llgr lr) =
              onEstablished { g with sess := some (negotiate fams gr llgr) }
                (((negotiate fams gr llgr).gr.map (·.fams)).getD []) lr := by
            simp [step, hs]
          rw [hst] at hinv' hnl' ⊢
          obtain ⟨hn1, hn2, hn3⟩ := negotiate_eq fams gr llgr
          have hf := onEst_fields { g with sess := some (negotiate fams gr llgr) }
            (((negotiate fams gr llgr).gr.map (·.fams)).getD []) lr
          generalize onEstablished { g with sess := some (negotiate fams gr llgr) }
            (((negotiate fams gr llgr).gr.map (·.fams)).getD []) lr = g' at hinv' hnl' hf ⊢
          simp only at hf
          have haw : ∀ P fl, g'.gs = .peerReconnected P fl → ∀ x ∈ g'.rib, marked x = true →
              x.fam ∈ (rEst r fams gr llgr).awaiting := by
            intro P fl hgs x hx hm
            have hc := hinv'.cover
            unfold Cover at hc
            rw [hgs] at hc
            obtain ⟨_, _, s', n, hs', hn, hfn⟩ := hc x hx hm
            rw [hf.1] at hs'
            cases hs'
            rw [hn2] at hn
            simp [rEst, hn, hfn]
          rw [stepOk_est, if_neg (by simp [hup])]
          refine ⟨_, commonE_ok hr.prev hinv' hnl' (by simp [rEst, hf.1]) haw, ?_⟩
          exact ⟨hinv', (by simp [rEst, hf.1]),
            fun s' hs' => (by rw [hf.1] at hs'; cases hs'; exact ⟨hn1.symm, hn2.symm, hn3.symm⟩),
            (by simp [rEst, hf.2, hr.ad]), rfl, haw, fun _ a ha => (by simp [rEst] at ha)⟩
  | ann f n nl lc =>
      rw [stepOk_ann]
      by_cases hcond : (r.up && r.fams.contains f) = true
      · rw [if_pos hcond]
        simp only [Bool.and_eq_true] at hcond
        obtain ⟨s, hs⟩ : ∃ s, g.sess = some s := by
          cases h : g.sess with
          | none => have := (up_false_iff hr).mpr h; rw [this] at hcond; simp at hcond
          | some s => exact ⟨s, rfl⟩
        obtain ⟨hfams, _, _⟩ := hr.sess s hs
        have hcf : s.fams.contains f = true := by rw [← hfams]; exact hcond.2
        have hst : step g (.ann f n nl lc) =
            { g with rib := g.rib.insert { fam := f, pfx := n, noLlgr := nl, lsc := lc } } := by
          simp only [step]; rw [hs]; simp only [hcf, ↓reduceIte]
        rw [hst] at hinv' hnl' ⊢
        generalize hg' : ({ g with rib := g.rib.insert { fam := f, pfx := n, noLlgr := nl, lsc := lc } } : G) = g' at hinv' hnl' ⊢
        have hrib : g'.rib = g.rib.insert { fam := f, pfx := n, noLlgr := nl, lsc := lc } := by rw [← hg']
        have hsess : g'.sess = g.sess := by rw [← hg']
        have hgs : g'.gs = g.gs := by rw [← hg']
        have had : g'.adminDown = g.adminDown := by rw [← hg']
        have hann : ∀ a ∈ (rAnn r f n).announced, ∃ x ∈ g'.rib, x.fam = a.1 ∧ x.pfx = a.2 ∧ marked x = false := by
          intro a ha
          rw [hrib]
          rcases List.mem_cons.mp ha with rfl | ha
          · exact ⟨_, mem_insert.mpr (Or.inl rfl), rfl, rfl, rfl⟩
          · rw [List.mem_filter] at ha
            obtain ⟨x, hx, h1, h2, h3⟩ := hr.ann (by rw [hs]; rfl) a ha.1
            refine ⟨x, mem_insert.mpr (Or.inr ⟨hx, fun ⟨e1, e2⟩ => ?_⟩), h1, h2, h3⟩
            have ha1 : a.1 = f := h1.symm.trans e1
            have ha2 : a.2 = n := h2.symm.trans e2
            have : a = (f, n) := Prod.ext ha1 ha2
            simp [this] at ha
        have haw : ∀ P fl, g'.gs = .peerReconnected P fl → ∀ x ∈ g'.rib, marked x = true → x.fam ∈ (rAnn r f n).awaiting := by
          intro P fl hgs' x hx hm
          rw [hrib] at hx
          rcases mem_insert.mp hx with rfl | ⟨hx, _⟩
          · cases hm
          · exact hr.aw P fl (hgs ▸ hgs') x hx hm
        rw [announcedKept_of hann]
        simp only [Bool.not_true, Bool.false_eq_true, ↓reduceIte]
        refine ⟨_, commonE_ok hr.prev hinv' hnl' (by rw [hsess]; exact hr.up) haw, ?_⟩
        exact ⟨hinv', (by rw [hsess]; exact hr.up), fun s' hs' => hr.sess s' (hsess ▸ hs'), (by rw [had]; exact hr.ad),
          rfl, haw, fun _ => hann⟩
      · rw [if_neg hcond]
        have hst : step g (.ann f n nl lc) = g := by
          cases hs : g.sess with
          | none => simp [step, hs]
          | some s =>
              obtain ⟨hfams, _, _⟩ := hr.sess s hs
              have : s.fams.contains f = false := by
                rw [← hfams]; simpa [up_true_of hr hs] using hcond
              simp only [step]; rw [hs]; simp only [this, Bool.false_eq_true, ↓reduceIte]
        rw [hst]
        exact ⟨r, commonE_stutter hr, hr⟩
  | eor f =>
      rw [stepOk_eor]
      cases hs : g.sess with
      | none =>
          have hup : r.up = false := (up_false_iff hr).mpr hs
          have hst : step g (.eor f) = g := by simp [step, hs]
          rw [hst]
          simp only [hup, Bool.false_and, Bool.false_eq_true, ↓reduceIte]
          exact ⟨r, commonE_stutter hr, hr⟩
      | some s =>
          have hup : r.up = true := up_true_of hr hs
          obtain ⟨_, hgr, _⟩ := hr.sess s hs
          have hkept0 := hr.ann (by rw [hs]; rfl)
          by_cases hgs : s.gr.isSome = true
          · have hst : step g (.eor f) = onEor g f := by simp [step, hs, hgs]
            rw [hst] at hinv' hnl' ⊢
            obtain ⟨_, _, hsess, had⟩ := eor_timers hr.inv hs f
            have hsub : ∀ x ∈ (onEor g f).rib, x ∈ g.rib ∧ (marked x = true → x.fam ≠ f) := by
              intro x hx
              obtain ⟨_, _, _, hcase⟩ := hr.inv.live s hs
              rcases hcase with hi | ⟨P, fl, hp⟩
              · rw [onEor_idle g hi] at hx
                refine ⟨hx, fun hm => ?_⟩
                have hc := hr.inv.cover
                unfold Cover at hc; rw [hi] at hc
                have := hc x hx; rw [hm] at this; cases this
              · rw [onEor_prc g P fl hp] at hx
                simp only at hx
                rw [List.mem_filter] at hx
                refine ⟨hx.1, fun hm he => ?_⟩
                have hc := hr.inv.cover
                unfold Cover at hc; rw [hp] at hc
                obtain ⟨_, hk, _⟩ := hc x hx.1 hm
                cases fl with
                | true => simp only [↓reduceIte] at hk; simp [he, hk] at hx
                | false => simp only [Bool.false_eq_true, ↓reduceIte] at hk; simp [he, hk] at hx
            have hkeep : ∀ x ∈ g.rib, marked x = false → x ∈ (onEor g f).rib := by
              intro x hx hm
              obtain ⟨_, _, _, hcase⟩ := hr.inv.live s hs
              have hst' : x.stale = false ∧ x.llgr = false := by simpa [marked] using hm
              rcases hcase with hi | ⟨P, fl, hp⟩
              · rw [onEor_idle g hi]; exact hx
              · rw [onEor_prc g P fl hp]
                simp only
                rw [List.mem_filter]
                refine ⟨hx, ?_⟩
                cases fl <;> simp [hst'.1, hst'.2]
            have hann : ∀ a ∈ r.announced, ∃ x ∈ (onEor g f).rib, x.fam = a.1 ∧ x.pfx = a.2 ∧ marked x = false := by
              intro a ha
              obtain ⟨x, hx, h1, h2, h3⟩ := hkept0 a ha
              exact ⟨x, hkeep x hx h3, h1, h2, h3⟩
            have haw : ∀ P fl, (onEor g f).gs = .peerReconnected P fl → ∀ x ∈ (onEor g f).rib, marked x = true →
                x.fam ∈ (rEor r f).awaiting := by
              intro P fl hgs' x hx hm
              obtain ⟨hx', hne⟩ := hsub x hx
              obtain ⟨_, _, _, hcase⟩ := hr.inv.live s hs
              rcases hcase with hi | ⟨P0, fl0, hp⟩
              · have hc := hr.inv.cover
                unfold Cover at hc; rw [hi] at hc
                have := hc x hx'; rw [hm] at this; cases this
              · have := hr.aw P0 fl0 hp x hx' hm
                simp [rEor, this, hne hm]
            have hcond : (r.up && r.gr.isSome) = true := by rw [hup, hgr, hgs]; rfl
            rw [announcedKept_of hann, if_pos hcond]
            simp only [Bool.not_true, Bool.and_false, Bool.false_eq_true, ↓reduceIte]
            refine ⟨_, commonE_ok hr.prev hinv' hnl' (by rw [hsess]; exact hr.up) haw, ?_⟩
            exact ⟨hinv', (by rw [hsess]; exact hr.up), fun s' hs' => hr.sess s' (hsess ▸ hs'),
              (by rw [had]; exact hr.ad), rfl, haw, fun _ => hann⟩
          · have hst : step g (.eor f) = g := by simp [step, hs, hgs]
            rw [hst]
            have hcond : (r.up && r.gr.isSome) = false := by rw [hgr]; simp [hgs]
            rw [announcedKept_of hkept0, hcond]
            simp only [Bool.not_true, Bool.and_false, Bool.false_eq_true, ↓reduceIte]
            exact ⟨r, commonE_stutter hr, hr⟩
  | down reason =>
      rw [stepOk_down]
      cases hs : g.sess with
      | none =>
          have hup : r.up = false := (up_false_iff hr).mpr hs
          have hst : step g (.down reason) = g := by simp [step, sessionDown, hs]
          rw [hst, if_pos (by simp [hup])]
          exact ⟨r, commonE_stutter hr, hr⟩
      | some s =>
          have hup : r.up = true := up_true_of hr hs
          have hst : step g (.down reason) = sessionDown g reason := rfl
          rw [hst] at hinv' hnl' ⊢
          obtain ⟨F1, F2, F3⟩ := class_facts s reason g.adminDown
          have hd := downOk_ok hr hs reason (classify reason r.adminDown)
            (by rw [hr.ad]; exact F1) (by rw [hr.ad]; exact F2) (by rw [hr.ad]; exact F3)
          rcases sessionDown_fields hr.inv reason with ⟨had, hsn⟩ | ⟨h0, _⟩
          · rw [if_neg (by simp [hup]), hd]
            simp only
            refine ⟨_, commonE_ok hr.prev hinv' hnl' (by simp [sessionEnds, hsn]) (aw_vacuous hinv' hsn _), ?_⟩
            exact rel_down hinv' hsn (by simp [sessionEnds]) (by simp [sessionEnds, hr.ad, had])
          · rw [hs] at h0; cases h0
  | attempt =>
      have hst : step g .attempt = g := by simp [step, attemptEnds, applyDisc_none]
      rw [hst, stepOk_attempt]
      have h1 : ((r.prev.grTimer && !(observe g).grTimer) ||
          r.prev.llgrTimers.any (fun f => !(observe g).llgrTimers.contains f)) = false := by
        rw [hr.prev]; simp
      rw [h1]
      simp only [Bool.false_eq_true, ↓reduceIte]
      by_cases hup : r.up = true
      · have hk := announcedKept_of (hr.ann (by rw [← hr.up]; exact hup))
        rw [hk]
        simp only [Bool.not_true, Bool.and_false, Bool.false_eq_true, ↓reduceIte]
        exact ⟨r, commonE_stutter hr, hr⟩
      · have hup' : r.up = false := by simpa using hup
        rw [hup']
        simp only [Bool.false_and, Bool.false_eq_true, ↓reduceIte]
        exact ⟨r, commonE_stutter hr, hr⟩
  | grTimer =>
      obtain ⟨had, hsess, hsame⟩ := fireGr_fields hr.inv
      have hst : step g .grTimer = fireGr g := rfl
      rw [hst] at hinv' hnl' ⊢
      rw [stepOk_grTimer]
      by_cases hup : r.up = true
      · have hsome : g.sess.isSome = true := by rw [← hr.up]; exact hup
        rw [hsame hsome, announcedKept_of (hr.ann hsome)]
        simp only [Bool.not_true, Bool.and_false, Bool.false_eq_true, ↓reduceIte]
        exact ⟨r, commonE_stutter hr, hr⟩
      · have hup' : r.up = false := by simpa using hup
        have hsn : g.sess = none := (up_false_iff hr).mp hup'
        have hsn' : (fireGr g).sess = none := by rw [hsess, hsn]
        rw [hup']
        simp only [Bool.false_and, Bool.false_eq_true, ↓reduceIte]
        refine ⟨_, commonE_ok hr.prev hinv' hnl' (by rw [hsn']; exact hup') (aw_vacuous hinv' hsn' _), ?_⟩
        exact rel_down hinv' hsn' hup' (by rw [had]; exact hr.ad)
  | llgrTimer f =>
      obtain ⟨had, hsess, hsame⟩ := fireLlgr_fields hr.inv f
      have hst : step g (.llgrTimer f) = fireLlgr g f := rfl
      rw [hst] at hinv' hnl' ⊢
      rw [stepOk_llgrTimer]
      by_cases hup : r.up = true
      · have hsome : g.sess.isSome = true := by rw [← hr.up]; exact hup
        rw [hsame hsome, announcedKept_of (hr.ann hsome)]
        simp only [Bool.not_true, Bool.and_false, Bool.false_eq_true, ↓reduceIte]
        exact ⟨r, commonE_stutter hr, hr⟩
      · have hup' : r.up = false := by simpa using hup
        have hsn : g.sess = none := (up_false_iff hr).mp hup'
        have hsn' : (fireLlgr g f).sess = none := by rw [hsess, hsn]
        rw [hup']
        simp only [Bool.false_and, Bool.false_eq_true, ↓reduceIte]
        refine ⟨_, commonE_ok hr.prev hinv' hnl' (by rw [hsn']; exact hup') (aw_vacuous hinv' hsn' _), ?_⟩
        exact rel_down hinv' hsn' hup' (by rw [had]; exact hr.ad)
  | force =>
      obtain ⟨_, _, hsn', had, hgf, hlf⟩ := inv_forceDown' hr.inv
      have hst : step g .force = forceDown g := rfl
      rw [hst] at hinv' hnl' ⊢
      rw [stepOk_force, forcedKeeps_false hinv' hsn' hgf hlf]
      simp only [Bool.false_eq_true, ↓reduceIte]
      rcases Option.eq_none_or_eq_some g.sess with hs | ⟨s, hs⟩
      · have hup : r.up = false := (up_false_iff hr).mpr hs
        rw [if_pos (by simp [hup])]
        refine ⟨_, commonE_ok hr.prev hinv' hnl' (by rw [hsn']; exact hup) (aw_vacuous hinv' hsn' _), ?_⟩
        exact rel_down hinv' hsn' hup (by rw [had]; exact hr.ad)
      · have hup : r.up = true := up_true_of hr hs
        obtain ⟨_, hgt, hlt, _⟩ := hr.inv.live s hs
        have hfd : forceDown g = sessionDown g .admin := forceDown_quiet g hgt hlt
        obtain ⟨F1a, F1b⟩ := never_facts_admin s g.adminDown
        have hd := downOk_ok hr hs .admin .never (fun _ => ⟨F1a, F1b⟩) (fun h => by cases h) (fun h => by cases h)
        rw [← hfd] at hd
        rw [if_neg (by simp [hup]), hd]
        simp only
        refine ⟨_, commonE_ok hr.prev hinv' hnl' (by simp [sessionEnds, hsn']) (aw_vacuous hinv' hsn' _), ?_⟩
        exact rel_down hinv' hsn' (by simp [sessionEnds]) (by simp [sessionEnds, hr.ad, had])
  | disable =>
      rw [stepOk_disable]
      by_cases ha : g.adminDown = true
      · have hst : step g .disable = g := by simp [step, ha]
        have hra : r.adminDown = true := by rw [hr.ad]; exact ha
        rw [hst, if_pos hra]
        exact ⟨r, commonE_stutter hr, hr⟩
      · have haf : g.adminDown = false := by simpa using ha
        have hra : r.adminDown = false := by rw [hr.ad]; exact haf
        have hst : step g .disable = forceDown { g with adminDown := true } := by simp [step, haf]
        rw [hst] at hinv' hnl' ⊢
        have hi2 : Inv { g with adminDown := true } := inv_adminDown hr.inv true
        obtain ⟨_, _, hsn', had, hgf, hlf⟩ := inv_forceDown' hi2
        have hnl2 : NoLlgrOk g (forceDown { g with adminDown := true }) := hnl'
        rw [if_neg (by simp [hra]), forcedKeeps_false hinv' hsn' hgf hlf]
        simp only [Bool.false_eq_true, ↓reduceIte]
        rcases Option.eq_none_or_eq_some g.sess with hs | ⟨s, hs⟩
        · have hup : r.up = false := (up_false_iff hr).mpr hs
          rw [if_pos (by simp [hup])]
          refine ⟨_, commonE_ok hr.prev hinv' hnl2 (by rw [hsn']; exact hup) (aw_vacuous hinv' hsn' _), ?_⟩
          exact rel_down hinv' hsn' hup (by rw [had])
        · have hup : r.up = true := up_true_of hr hs
          obtain ⟨_, hgt, hlt, _⟩ := hr.inv.live s hs
          have hfd : forceDown { g with adminDown := true } = sessionDown { g with adminDown := true } .admin :=
            forceDown_quiet _ hgt hlt
          have hr2 : Rel { g with adminDown := true } { r with adminDown := true } :=
            ⟨hi2, hr.up, hr.sess, rfl, hr.prev, hr.aw, hr.ann⟩
          obtain ⟨F1a, F1b⟩ := never_facts_admin s true
          have hd := downOk_ok hr2 (s := s) hs .admin .never (fun _ => ⟨F1a, F1b⟩) (fun h => by cases h) (fun h => by cases h)
          rw [← hfd] at hd
          have hd' : downOk r .never (observe (forceDown { g with adminDown := true })) = .ok () := by
            have : downOk r .never = downOk { r with adminDown := true } .never := by
              funext cur; simp [downOk]
            rw [this]; exact hd
          rw [if_neg (by simp [hup]), hd']
          simp only
          refine ⟨_, commonE_ok hr.prev hinv' hnl2 (by simp [sessionEnds, hsn']) (aw_vacuous hinv' hsn' _), ?_⟩
          exact rel_down hinv' hsn' (by simp [sessionEnds]) (by rw [had])
  | enable =>
      have hst : step g .enable = { g with adminDown := false } := rfl
      rw [hst] at hinv' hnl' ⊢
      rw [stepOk_enable]
      refine ⟨_, commonE_ok (r' := { r with adminDown := false }) hr.prev hinv' hnl' hr.up hr.aw, ?_⟩
      exact ⟨hinv', hr.up, hr.sess, rfl, rfl, hr.aw, hr.ann⟩
  | wait =>
      have hst : step g .wait = waitAll g := rfl
      rw [hst] at hinv' hnl' ⊢
      rw [stepOk_wait]
      obtain ⟨had, hsess, hsame⟩ := waitAll_fields hr.inv
      by_cases hup : r.up = true
      · have hsome : g.sess.isSome = true := by rw [← hr.up]; exact hup
        rw [hsame hsome, announcedKept_of (hr.ann hsome)]
        simp only [Bool.not_true, Bool.and_false, Bool.false_eq_true, ↓reduceIte]
        exact ⟨r, commonE_stutter hr, hr⟩
      · have hup' : r.up = false := by simpa using hup
        have hsn : g.sess = none := (up_false_iff hr).mp hup'
        have hsn' : (waitAll g).sess = none := by rw [hsess, hsn]
        rw [hup']
        simp only [Bool.false_and, Bool.false_eq_true, ↓reduceIte]
        refine ⟨_, commonE_ok hr.prev hinv' hnl' (by rw [hsn']; exact hup') (aw_vacuous hinv' hsn' _), ?_⟩
        exact rel_down hinv' hsn' hup' (by rw [had]; exact hr.ad)

/-! ## the master theorem -/

theorem checkFrom_ok (evs : List Ev) (g : G) (r : R) (i : Nat) (hr : Rel g r) :
    checkFrom r i evs (runFrom g evs) = .ok := by
  induction evs generalizing g r i with
  | nil => simp [runFrom, checkFrom]
  | cons e es ih =>
      simp only [runFrom, checkFrom]
      obtain ⟨r', hok, hrel⟩ := step_sim hr e
      simp only [hok]
      exact ih _ _ _ hrel

/-- The C10 reference checker accepts every run of the model. -/
theorem check_run_ok (evs : List Ev) : Spec.check evs (run evs) = .ok :=
  checkFrom_ok evs {} {} 0 rel_init

end Rbgp.Gr.Helper
