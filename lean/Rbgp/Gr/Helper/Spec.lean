/-
  Rbgp.Gr.Helper.Spec — C10 written from the property text as a reference checker over
  observations (routes of the peer with their stale marks, the two timer slots, session up/down
  after every step).  Imports the model only for its event / observation *types*; calls no model
  function.

  Property (properties.jsonl C10).  (1) When a peer that negotiated GR (or LLGR) goes down, its
  routes for the negotiated families are kept and marked stale while routes of every other family
  are removed at once; (2) from then on stale routes exist only while a restart timer or LLGR timer
  is armed for that peer or an End-of-RIB is awaited on a re-established session, and they are
  removed no later than that timer's expiry or that End-of-RIB; (3) routes re-announced on the new
  session are never removed by the stale purge; (4) a failed or short-lived reconnection attempt
  never disarms the pending timer; (5) NO_LLGR routes are dropped when the LLGR period starts;
  (6) a hard reset, admin shutdown or non-Cease error never enters helper mode.

  Reading.
  * (2) is the invariant `I` checked after EVERY step: a route marked stale or LLGR-stale in family
    f needs the restart timer armed, or the LLGR timer of f armed, or the session up with the
    End-of-RIB of f awaited.  End-of-RIB of f is awaited from the moment a session re-negotiates GR
    for f until that End-of-RIB arrives or the session ends.
  * Disconnect reasons: `never` = hard reset (either direction), admin shutdown (the reason, any
    forced close, or the peer being administratively down), NOTIFICATION with a code other than
    Cease (either direction), FSM error; `must` = I/O error (the TCP session just went away);
    everything else (`either`: hold timer, other Cease NOTIFICATIONs) may or may not enter helper
    mode (it depends on RFC 8538's N-bit, which the statement leaves open) — whichever it does is
    judged by what the step leaves behind (a timer armed = helper mode).
-/
import Rbgp.Gr.Helper.Model
namespace Rbgp.Gr.Helper.Spec
open Rbgp.Gr.Helper

structure R where
  up : Bool := false
  fams : List Fam := []            -- families of the session that is up (or was last up)
  gr : Option NegGr := none
  llgr : Option (List Fam) := none
  awaiting : List Fam := []
  adminDown : Bool := false
  /-- (family, prefix) announced on the session that is up -/
  announced : List (Fam × Nat) := []
  prev : Obs := { routes := [], grTimer := false, llgrTimers := [], restarting := false, up := false }
  deriving DecidableEq, Repr, Inhabited

inductive Class where
  | never | must | either
  deriving DecidableEq, Repr

def classify (r : Reason) (adminDown : Bool) : Class :=
  if adminDown then .never
  else match r with
    | .io => .must
    | .admin => .never
    | .fsmError => .never
    | .hold => .either
    | .remoteNotif c s => if c ≠ 6 || (c = 6 && s = 9) then .never else .either
    | .localNotif c s => if c ≠ 6 || (c = 6 && s = 9) then .never else .either

def marked (x : RouteObs) : Bool := x.stale || x.llgr

/-- (2) the invariant -/
def invI (up : Bool) (awaiting : List Fam) (o : Obs) : Bool :=
  o.routes.all fun x => !marked x || o.grTimer || o.llgrTimers.contains x.fam || (up && awaiting.contains x.fam)

def hasRoute (o : Obs) (f : Fam) (n : Nat) : Bool := o.routes.any fun x => x.fam = f && x.pfx = n

/-- (5) -/
def noLlgrDropped (prev cur : Obs) : Bool :=
  cur.llgrTimers.all fun f => prev.llgrTimers.contains f || cur.routes.all fun x => !(x.fam = f && x.noLlgr)

/-- (3) every prefix announced on the live session is still there, unmarked -/
def announcedKept (announced : List (Fam × Nat)) (cur : Obs) : Bool :=
  announced.all fun a => cur.routes.any fun x => x.fam = a.1 && x.pfx = a.2 && !marked x

/-- (1)/(6): what a session-down step may leave behind -/
def downOk (r : R) (cls : Class) (cur : Obs) : Except String Unit :=
  let prev := r.prev
  let negotiated := ((r.gr.map (·.fams)).getD []) ++ (r.llgr.getD [])
  let newTimer := (cur.grTimer && !prev.grTimer) || cur.llgrTimers.any (fun f => !prev.llgrTimers.contains f)
  let entered := match cls with
    | .never => false
    | .must => !negotiated.isEmpty
    | .either => newTimer
  if cls = .never && newTimer then .error "ineligible-entered-helper"
  else if cls = .must && !negotiated.isEmpty && !(cur.grTimer || !cur.llgrTimers.isEmpty) then .error "helper-not-entered"
  else if !entered then
    if cur.routes.any (fun x => r.fams.contains x.fam) then
      .error (if cls = .never then "ineligible-routes-kept" else "no-helper-routes-kept")
    else .ok ()
  else if cur.routes.any (fun x => r.fams.contains x.fam && !negotiated.contains x.fam) then .error "other-family-kept"
  else if prev.routes.any (fun x => r.fams.contains x.fam && negotiated.contains x.fam &&
            !(x.noLlgr && cur.llgrTimers.contains x.fam) && !hasRoute cur x.fam x.pfx) then
    .error "negotiated-route-lost"
  else if cur.routes.any (fun x => r.fams.contains x.fam && !marked x) then .error "kept-not-marked"
  else .ok ()

/-- (6) an operator-forced peer-down (shutdown / reset / delete / disable / BFD) in ANY state ends
    helper mode: afterwards no timer is armed and no marked route is left -/
def forcedKeeps (cur : Obs) : Bool := cur.grTimer || !cur.llgrTimers.isEmpty || cur.routes.any marked

def sessionEnds (r : R) : R := { r with up := false, awaiting := [], announced := [] }

/-- "negotiated": a family of the session for which both ends advertise the capability
    (the local speaker of the harness advertises MP-BGP, GR and LLGR for families 0..2) -/
def sessFams (peerFams : List Fam) : List Fam := [0, 1, 2].filter (peerFams.contains ·)
def negGr (peerFams : List Fam) (peerGr : Option NegGr) : Option NegGr :=
  match peerGr with
  | some n =>
      let fs := (sessFams peerFams).filter (n.fams.contains ·)
      if fs.isEmpty then none else some { fams := fs, nbit := n.nbit }
  | none => none
def negLlgr (peerFams : List Fam) (peerLlgr : Option (List Fam)) : Option (List Fam) :=
  match peerLlgr with
  | some l =>
      let fs := (sessFams peerFams).filter (l.contains ·)
      if fs.isEmpty then none else some fs
  | none => none

/-- reference bookkeeping + the clauses specific to the event -/
def stepOk (r : R) (ev : Ev) (cur : Obs) : Except String R :=
  let common (r' : R) : Except String R :=
    if !invI r'.up r'.awaiting cur then .error "stale-without-pending"
    else if !noLlgrDropped r.prev cur then .error "no-llgr-kept"
    else .ok { r' with prev := cur }
  match ev with
  | .est fams gr llgr _ =>
      if r.up then common r
      else
        let r' := { r with up := true, fams := sessFams fams, gr := negGr fams gr, llgr := negLlgr fams llgr,
                           awaiting := ((negGr fams gr).map (·.fams)).getD [], announced := [] }
        common r'
  | .ann f n _ _ =>
      if r.up && r.fams.contains f then
        let r' := { r with announced := (f, n) :: r.announced.filter (· ≠ (f, n)) }
        if !announcedKept r'.announced cur then .error "announced-route-missing" else common r'
      else common r
  | .eor f =>
      let r' := if r.up && r.gr.isSome then { r with awaiting := r.awaiting.filter (· ≠ f) } else r
      if r.up && !announcedKept r.announced cur then .error "purge-removed-fresh" else common r'
  | .down reason =>
      if !r.up then common r
      else match downOk r (classify reason r.adminDown) cur with
        | .error c => .error c
        | .ok _ => common (sessionEnds r)
  | .attempt =>
      if (r.prev.grTimer && !cur.grTimer) || r.prev.llgrTimers.any (fun f => !cur.llgrTimers.contains f) then
        .error "failed-attempt-disarmed"
      else if r.up && !announcedKept r.announced cur then .error "purge-removed-fresh"
      else common r
  | .grTimer | .llgrTimer _ | .wait =>
      if r.up && !announcedKept r.announced cur then .error "purge-removed-fresh" else common r
  | .force =>
      if forcedKeeps cur then .error "forced-down-keeps-helper"
      else if !r.up then common r
      else match downOk r .never cur with
        | .error c => .error c
        | .ok _ => common (sessionEnds r)
  | .disable =>
      if r.adminDown then common r
      else if forcedKeeps cur then .error "forced-down-keeps-helper"
      else if !r.up then common { r with adminDown := true }
      else match downOk r .never cur with
        | .error c => .error c
        | .ok _ => common { sessionEnds r with adminDown := true }
  | .enable => common { r with adminDown := false }

inductive Verdict where
  | ok
  | fail (idx : Nat) (clause : String)
  deriving DecidableEq, Repr

def checkFrom (r : R) (i : Nat) : List Ev → List Obs → Verdict
  | [], [] => .ok
  | e :: es, o :: os =>
      match stepOk r e o with
      | .error c => .fail i c
      | .ok r' => checkFrom r' (i + 1) es os
  | _, _ => .fail i "trace-length"

def check (evs : List Ev) (tr : List Obs) : Verdict := checkFrom {} 0 evs tr

end Rbgp.Gr.Helper.Spec
