/-
  Rbgp.Gr.Helper.Proofs — lemmas behind the C10 theorems: what the RIB procedures do to the
  peer's routes, the state invariant `Inv`, and its preservation by every glue function.
-/
import Rbgp.Gr.Helper.Model
namespace Rbgp.Gr.Helper

/-- a path the helper procedures consider stale (GR- or LLGR-stale) -/
def marked (x : Route) : Bool := x.stale || x.llgr

/-! ## small facts -/

theorem mem_dedup {a : Nat} {l : List Nat} : a ∈ dedup l ↔ a ∈ l := by
  induction l with
  | nil => simp [dedup]
  | cons b l ih =>
      by_cases h : b ∈ l
      · simp only [dedup, List.contains_iff_mem, h, ↓reduceIte, ih, List.mem_cons]
        constructor
        · exact Or.inr
        · rintro (rfl | h')
          · exact h
          · exact h'
      · simp [dedup, h, ih]

theorem dedup_eq_nil {l : List Nat} : dedup l = [] ↔ l = [] := by
  constructor
  · intro h
    cases l with
    | nil => rfl
    | cons a l =>
        have : a ∈ dedup (a :: l) := mem_dedup.mpr (by simp)
        rw [h] at this; simp at this
  · rintro rfl; rfl

theorem mem_insertSorted {a b : Nat} {l : List Nat} : a ∈ insertSorted b l ↔ (a = b ∨ a ∈ l) := by
  induction l with
  | nil => simp [insertSorted]
  | cons c l ih =>
      unfold insertSorted
      by_cases h : b ≤ c
      · simp [h]
      · simp only [h, ↓reduceIte, List.mem_cons, ih]
        constructor
        · rintro (h1 | h1 | h1)
          · exact Or.inr (Or.inl h1)
          · exact Or.inl h1
          · exact Or.inr (Or.inr h1)
        · rintro (h1 | h1 | h1)
          · exact Or.inr (Or.inl h1)
          · exact Or.inl h1
          · exact Or.inr (Or.inr h1)

theorem mem_sortNat {a : Nat} {l : List Nat} : a ∈ sortNat l ↔ a ∈ l := by
  induction l with
  | nil => simp [sortNat]
  | cons b l ih => simp only [sortNat, List.foldr_cons, mem_insertSorted, List.mem_cons]; rw [← ih]; rfl

/-! ## the RIB procedures over a list of families -/

theorem each_dropFam (r : Rib) (fs : List Fam) :
    r.each fs Rib.dropFam = r.filter (fun x => !fs.contains x.fam) := by
  induction fs generalizing r with
  | nil => simp only [Rib.each, List.foldl_nil]; exact (List.filter_eq_self.mpr (by simp)).symm
  | cons f fs ih =>
      simp only [Rib.each, List.foldl_cons] at ih ⊢
      rw [ih, Rib.dropFam, List.filter_filter]
      congr 1; funext x
      by_cases h : x.fam = f <;> simp [h, eq_comm]

theorem each_restale (r : Rib) (fs : List Fam) :
    r.each fs Rib.restale = r.map (fun x => if fs.contains x.fam then { x with stale := true } else x) := by
  induction fs generalizing r with
  | nil => simp [Rib.each]
  | cons f fs ih =>
      simp only [Rib.each, List.foldl_cons] at ih ⊢
      rw [ih, Rib.restale, List.map_map]
      congr 1; funext x
      by_cases h : x.fam = f
      · by_cases h2 : x.fam ∈ fs <;> simp [h, h2]
      · have h' : ¬ f = x.fam := fun e => h e.symm
        by_cases h2 : x.fam ∈ fs <;> simp [h, h', h2]

theorem each_dropStale (r : Rib) (fs : List Fam) :
    r.each fs Rib.dropStale = r.filter (fun x => !(fs.contains x.fam && x.stale)) := by
  induction fs generalizing r with
  | nil => simp only [Rib.each, List.foldl_nil]; exact (List.filter_eq_self.mpr (by simp)).symm
  | cons f fs ih =>
      simp only [Rib.each, List.foldl_cons] at ih ⊢
      rw [ih, Rib.dropStale, List.filter_filter]
      congr 1; funext x
      by_cases h : x.fam = f
      · cases x.stale <;> simp [h]
      · have h' : ¬ f = x.fam := fun e => h e.symm
        simp [h, h']

theorem each_dropLlgrStale (r : Rib) (fs : List Fam) :
    r.each fs Rib.dropLlgrStale = r.filter (fun x => !(fs.contains x.fam && x.llgr)) := by
  induction fs generalizing r with
  | nil => simp only [Rib.each, List.foldl_nil]; exact (List.filter_eq_self.mpr (by simp)).symm
  | cons f fs ih =>
      simp only [Rib.each, List.foldl_cons] at ih ⊢
      rw [ih, Rib.dropLlgrStale, List.filter_filter]
      congr 1; funext x
      by_cases h : x.fam = f
      · cases x.llgr <;> simp [h]
      · have h' : ¬ f = x.fam := fun e => h e.symm
        simp [h, h']

/-- what `mark_llgr_stale` over a family list does to one path: paths of those families become
    LLGR-stale, the NO_LLGR ones are removed, nothing else changes -/
def mkAll (fs : List Fam) (x : Route) : Option Route :=
  if fs.contains x.fam then (if x.noLlgr then none else some { x with llgr := true }) else some x

theorem markLlgrStale_eq (r : Rib) (f : Fam) : r.markLlgrStale f = r.filterMap (mkAll [f]) := by
  have hm : mkAll [f] = fun x => if x.fam = f then (if x.noLlgr then none else some { x with llgr := true })
      else some x := by
    funext x; simp [mkAll]
  rw [hm]
  induction r with
  | nil => rfl
  | cons x r ih =>
      unfold Rib.markLlgrStale at ih ⊢
      rw [List.map_cons, List.filterMap_cons]
      by_cases h : x.fam = f
      · by_cases hn : x.noLlgr = true
        · simp only [h, ↓reduceIte, hn]
          rw [List.filter_cons]
          simp only [decide_true, hn, Bool.and_self, Bool.not_true, Bool.false_eq_true, ↓reduceIte]
          exact ih
        · have hn' : x.noLlgr = false := by simpa using hn
          simp only [h, ↓reduceIte, hn', Bool.false_eq_true]
          rw [List.filter_cons]
          simp only [decide_true, hn', Bool.and_false, Bool.not_false, ↓reduceIte, List.cons.injEq, true_and]
          exact ih
      · simp only [h, ↓reduceIte]
        rw [List.filter_cons]
        simp only [h, decide_false, Bool.false_and, Bool.not_false, ↓reduceIte, List.cons.injEq, true_and]
        exact ih

theorem mkAll_cons (f : Fam) (fs : List Fam) (x : Route) :
    (mkAll [f] x).bind (mkAll fs) = mkAll (f :: fs) x := by
  by_cases h : x.fam = f
  · by_cases hn : x.noLlgr = true
    · simp [mkAll, h, hn]
    · have hn' : x.noLlgr = false := by simpa using hn
      have h1 : mkAll [f] x = some { x with llgr := true } := by simp [mkAll, h, hn']
      rw [h1]
      by_cases h2 : f ∈ fs
      · simp [mkAll, h, hn', h2]
      · simp [mkAll, h, hn', h2]
  · have hb : (x.fam == f) = false := by simpa using h
    have h1 : mkAll [f] x = some x := by simp [mkAll, h]
    rw [h1]
    simp [mkAll, h]

theorem each_markLlgrStale (r : Rib) (fs : List Fam) :
    r.each fs Rib.markLlgrStale = r.filterMap (mkAll fs) := by
  induction fs generalizing r with
  | nil =>
      simp only [Rib.each, List.foldl_nil]
      have : mkAll [] = some := by funext x; simp [mkAll]
      rw [this, List.filterMap_some]
  | cons f fs ih =>
      simp only [Rib.each, List.foldl_cons] at ih ⊢
      rw [ih, markLlgrStale_eq, List.filterMap_filterMap]
      congr 1; funext x
      exact mkAll_cons f fs x

theorem mem_each_markLlgrStale {r : Rib} {fs : List Fam} {y : Route} :
    y ∈ r.each fs Rib.markLlgrStale ↔ ∃ x ∈ r, mkAll fs x = some y := by
  rw [each_markLlgrStale, List.mem_filterMap]

end Rbgp.Gr.Helper
