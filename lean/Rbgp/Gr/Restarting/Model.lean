/-
  Rbgp.Gr.Restarting.Model — hand-written model of the Restarting-Speaker side of
  daemon/src/gr.rs (`RestartingDeferral::{new, process, remove_peer, complete_for,
  finish_awaiting, finish_deferring}`), of the driver glue that couples it to the RIB
  (daemon/src/event/mod.rs `process_restarting_outputs`, `gr_selection_deferral_timer_expired`,
  start-up `start_deferral_families`) and of the part of the RIB the coupling touches
  (table/src/lib.rs `Rib.deferring`, `Table::{start_deferral, end_deferral, insert, remove, drop}`
  seen through daemon/src/table_manager.rs `{start,end}_deferral_families`, `insert_route`,
  `remove_route`, `drop_families`).

  One Lean function per Rust function, same branch order.  Hash maps / hash sets are lists
  (`pending : List (Peer × List Fam)`, keys kept unique by construction); every observation is
  sorted by the codec, so iteration order never shows.  A path is abstracted to
  (prefix, announcing peer): one unfiltered, next-hop-valid path per (peer, prefix), which is
  all C11 speaks about (ranking is C02's subject; the harness sorts `current_paths`).
-/
namespace Rbgp.Gr.Restarting

abbrev Peer := Nat
abbrev Fam := Nat
abbrev Pending := List (Peer × List Fam)

/-! ## `RestartingDeferral` -/

inductive RIn where
  | est (p : Peer) (fams : List Fam)     -- PeerEstablished(addr, gr families); [] = no GR
  | eor (p : Peer) (f : Fam)             -- EorReceived(addr, family)
  | wd (p : Peer)                        -- PeerWithdrawn(addr)
  | timer                                -- TimerExpired
  deriving DecidableEq, Repr, Inhabited

inductive ROut where
  | deferFamilies (fs : List Fam)
  | startTimer (d : Option Nat)
  | famComplete (f : Fam)
  | endDeferral (fs : List Fam)
  deriving DecidableEq, Repr, Inhabited

inductive RInner where
  | awaiting (pending : Pending) (dur : Option Nat)
  | deferring (pending : Pending)
  | completed
  deriving DecidableEq, Repr, Inhabited

/-- `pending.get(&addr)` -/
def lookup (p : Peer) : Pending → Option (List Fam)
  | [] => none
  | (q, s) :: rest => if q = p then some s else lookup p rest

/-- `pending.remove(&addr)` -/
def erase (p : Peer) (pend : Pending) : Pending := pend.filter (fun e => e.1 ≠ p)

/-- `*pending.get_mut(&addr) = s` (keys are unique, so "all entries of p" is "the entry of p") -/
def replace (p : Peer) (s : List Fam) (pend : Pending) : Pending :=
  pend.map (fun e => if e.1 = p then (p, s) else e)

/-- `pending.values().any(|fs| fs.contains(&f))` -/
def anyHolds (f : Fam) (pend : Pending) : Bool := pend.any (fun e => e.2.contains f)

/-- duplicates removed (which occurrence survives is irrelevant: sets are sorted when observed) -/
def dedup : List Nat → List Nat
  | [] => []
  | a :: l => if l.contains a then dedup l else a :: dedup l

/-- `families.into_iter().collect::<FnvHashSet<_>>()` -/
def toSet (l : List Fam) : List Fam := dedup l

/-- `complete_for` -/
def completeFor (pend : Pending) (cands : List Fam) : List ROut :=
  (cands.filter (fun f => !anyHolds f pend)).map .famComplete

/-- `remove_peer` -/
def removePeer (pend : Pending) (p : Peer) : Pending × List ROut :=
  match lookup p pend with
  | some removed =>
      let pend' := erase p pend
      (pend', completeFor pend' removed)
  | none => (pend, [])

/-- `finish_awaiting` -/
def finishAwaiting (pend : Pending) (dur : Option Nat) (out : List ROut) : RInner × List ROut :=
  if pend.isEmpty then (.completed, out ++ [.endDeferral []]) else (.awaiting pend dur, out)

/-- `finish_deferring` -/
def finishDeferring (pend : Pending) (out : List ROut) : RInner × List ROut :=
  if pend.isEmpty then (.completed, out ++ [.endDeferral []]) else (.deferring pend, out)

/-- all families still held by some peer (`pending.into_values().flatten().collect::<HashSet>()`) -/
def heldFams (pend : Pending) : List Fam := dedup (pend.flatMap (·.2))

/-- `RestartingDeferral::new` : peers with an empty family list are skipped; later duplicates of a
    peer key overwrite earlier ones (the harness builds the map by successive `insert`). -/
def dedupLast : List (Peer × List Fam) → List (Peer × List Fam)
  | [] => []
  | e :: rest => if rest.any (fun x => x.1 = e.1) then dedupLast rest else e :: dedupLast rest

def mkPending (l : List (Peer × List Fam)) : Pending :=
  (dedupLast l).filterMap fun e => if (toSet e.2).isEmpty then none else some (e.1, toSet e.2)

def new (grPeers : List (Peer × List Fam)) (dur : Option Nat) : RInner × List ROut :=
  let pend := mkPending grPeers
  if pend.isEmpty then (.completed, [])
  else (.awaiting pend dur, [.deferFamilies (heldFams pend)])

def isCompleted : RInner → Bool
  | .completed => true
  | _ => false

/-- `still_awaited`: a known peer can only keep families still awaited from it -/
def stillAwaited (pend : Pending) (p : Peer) (fams : List Fam) : List Fam :=
  match lookup p pend with
  | some awaited => fams.filter (fun f => awaited.contains f)
  | none => fams

/-- `RestartingDeferral::process` -/
def process : RInner → RIn → RInner × List ROut
  | .awaiting pend dur, .est p fams0 =>
      let fams := stillAwaited pend p fams0
      if fams.isEmpty then
        let r := removePeer pend p
        finishAwaiting r.1 dur r.2
      else
        match lookup p pend with
        | some old =>
            let nw := toSet fams
            let pend' := replace p nw pend
            let removed := old.filter (fun f => !nw.contains f)
            (.deferring pend', completeFor pend' removed ++ [.startTimer dur])
        | none => (.awaiting pend dur, [])
  | .awaiting pend dur, .wd p =>
      let r := removePeer pend p
      finishAwaiting r.1 dur r.2
  | .deferring pend, .eor p f =>
      let r : Pending × List ROut :=
        match lookup p pend with
        | some set =>
            let wasAwaited := set.contains f
            let set' := set.filter (· ≠ f)
            let pend1 := if set'.isEmpty then erase p pend else replace p set' pend
            (pend1, if wasAwaited && !anyHolds f pend1 then [.famComplete f] else [])
        | none => (pend, [])
      if r.1.isEmpty then (.completed, r.2 ++ [.endDeferral []]) else (.deferring r.1, r.2)
  | .deferring pend, .est p fams0 =>
      let fams := stillAwaited pend p fams0
      if fams.isEmpty then
        let r := removePeer pend p
        finishDeferring r.1 r.2
      else
        match lookup p pend with
        | some old =>
            let nw := toSet fams
            let pend' := replace p nw pend
            let removed := old.filter (fun f => !nw.contains f)
            (.deferring pend', completeFor pend' removed)
        | none => (.deferring pend, [])
  | .deferring pend, .wd p =>
      let r := removePeer pend p
      finishDeferring r.1 r.2
  | .deferring pend, .timer => (.completed, [.endDeferral (heldFams pend)])
  | .completed, _ => (.completed, [])
  | s, _ => (s, [])

/-! ## The RIB part: deferral flag and per-family paths -/

structure Rib where
  deferring : Bool := false
  /-- (prefix, announcing peer) -/
  paths : List (Nat × Peer) := []
  /-- peers whose `Source` of this family carries the GR stale mark (`Source::mark_stale`; the
      harness keeps one `Source` per (peer, family) for the whole case, as a session does, so the
      mark also covers paths inserted later) -/
  stale : List Peer := []
  /-- ... the LLGR stale mark (`Source::mark_llgr_stale`) -/
  llgr : List Peer := []
  deriving DecidableEq, Repr, Inhabited

abbrev Tabs := Fam → Rib

/-- what a neighbour session does with a change: `adv` = best_changed ∧ any_changed (a release:
    every neighbour, Add-Path or not, advertises it); `chg` = any_changed (an ordinary RIB change;
    best_changed depends on ranking, C02's subject) -/
inductive ChgKind where
  | adv | chg
  | mute     -- neither flag set: no neighbour acts on it (never produced by the model)
  deriving DecidableEq, Repr, Inhabited

structure Change where
  fam : Fam
  pfx : Nat
  /-- `current_paths`, as the set of announcing peers -/
  peers : List Peer
  kind : ChgKind := .chg
  deriving DecidableEq, Repr, Inhabited

def Tabs.set (t : Tabs) (f : Fam) (r : Rib) : Tabs := fun g => if g = f then r else t g

/-- peers that have a path for prefix `n` -/
def peersOf (n : Nat) (paths : List (Nat × Peer)) : List Peer :=
  (paths.filter (fun e => e.1 = n)).map (·.2)

/-- the destinations of a Rib (every destination has at least one path) -/
def prefixes (paths : List (Nat × Peer)) : List Nat := dedup (paths.map (·.1))

/-- paths whose next hop is reachable (`unfiltered_iter`: not filtered, not FLAG_NEXTHOP_INVALID); every
    path of peer `p` has the next hop 10.0.0.(1+p), so validity is a property of the announcing peer
    (`TableManager.nexthop_invalid`, consulted by `insert_route`, flipped by `update_nexthop_validity`) -/
def usable (inv : List Peer) (paths : List (Nat × Peer)) : List (Nat × Peer) :=
  paths.filter (fun e => !inv.contains e.2)

/-- `Table::insert` (unfiltered path): stored always; a change is returned unless `deferring` -/
def insert (inv : List Peer) (t : Tabs) (p : Peer) (f : Fam) (n : Nat) : Tabs × List Change :=
  let r := t f
  let paths' := if r.paths.contains (n, p) then r.paths else r.paths ++ [(n, p)]
  let t' := t.set f { r with paths := paths' }
  (t', if r.deferring then [] else [{ fam := f, pfx := n, peers := peersOf n (usable inv paths') }])

/-- `Table::remove`: the path is removed; a change is returned if it existed, unless `deferring` -/
def remove (inv : List Peer) (t : Tabs) (p : Peer) (f : Fam) (n : Nat) : Tabs × List Change :=
  let r := t f
  if r.paths.contains (n, p) then
    let paths' := r.paths.filter (· ≠ (n, p))
    (t.set f { r with paths := paths' },
     if r.deferring then [] else [{ fam := f, pfx := n, peers := peersOf n (usable inv paths') }])
  else (t, [])

/-- `Table::drop(addr, family)`: one change per destination that had a usable path of `p`, unless
    `deferring` (`changes.clear()`) -/
def dropPeer (inv : List Peer) (t : Tabs) (p : Peer) (f : Fam) : Tabs × List Change :=
  let r := t f
  let paths' := r.paths.filter (fun e => e.2 ≠ p)
  let touched := prefixes (r.paths.filter (fun e => e.2 = p))
  (t.set f { r with paths := paths' },
   if r.deferring || inv.contains p then []
   else touched.map (fun n => { fam := f, pfx := n, peers := peersOf n (usable inv paths') }))

/-- `Table::restale(addr, family)` (`mark_stale`, from `unregister_peer(.., stale_families)`): the
    `Source` of every path of `p` is marked; one change per destination holding a path of `p`
    (`any_unfiltered_from_addr`), unless `deferring` -/
def restale (inv : List Peer) (t : Tabs) (p : Peer) (f : Fam) : Tabs × List Change :=
  let r := t f
  let touched := prefixes (r.paths.filter (fun e => e.2 = p))
  if touched.isEmpty then (t, [])
  else
    (t.set f { r with stale := if r.stale.contains p then r.stale else p :: r.stale },
     if r.deferring then []
     else touched.map (fun n => { fam := f, pfx := n, peers := peersOf n (usable inv r.paths) }))

/-- `Table::restale_llgr(addr, family)` (`mark_llgr_stale`; no path carries NO_LLGR here): as
    `restale` for the LLGR mark; one change per destination (the one usable path of `p`, reported as
    replaced, or the destination as such when `p`'s next hop is unreachable) -/
def restaleLlgr (inv : List Peer) (t : Tabs) (p : Peer) (f : Fam) : Tabs × List Change :=
  let r := t f
  let touched := prefixes (r.paths.filter (fun e => e.2 = p))
  if touched.isEmpty then (t, [])
  else
    (t.set f { r with llgr := if r.llgr.contains p then r.llgr else p :: r.llgr },
     if r.deferring then []
     else touched.map (fun n => { fam := f, pfx := n, peers := peersOf n (usable inv r.paths) }))

/-- `Table::drop_stale(addr, family)` / `drop_llgr_stale` (`marked` = the peer's `Source` of the
    family carries the mark): the marked paths of `p` are removed; changes as for `drop` -/
def purge (marked : Bool) (inv : List Peer) (t : Tabs) (p : Peer) (f : Fam) : Tabs × List Change :=
  if marked then dropPeer inv t p f else (t, [])

/-- `Table::update_nexthop_validity` for one family: every path of `p` flips; one change per
    destination holding one, unless `deferring`; `inv'` is the set after the update -/
def nhvFam (inv' : List Peer) (t : Tabs) (p : Peer) (f : Fam) : List Change :=
  let r := t f
  if r.deferring then []
  else (prefixes (r.paths.filter (fun e => e.2 = p))).map
    (fun n => { fam := f, pfx := n, peers := peersOf n (usable inv' r.paths) })

/-- `Table::start_deferral` -/
def startDeferral (t : Tabs) (f : Fam) : Tabs := t.set f { t f with deferring := true }

/-- `Table::end_deferral`: clears the flag, returns `collect_loc_rib_paths(family)` -/
def endDeferral (inv : List Peer) (t : Tabs) (f : Fam) : Tabs × List Change :=
  let r := t f
  let ps := usable inv r.paths
  (t.set f { r with deferring := false },
   (prefixes ps).map (fun n => { fam := f, pfx := n, peers := peersOf n ps, kind := .adv }))

/-- `TableManager::end_deferral_families` -/
def endDeferralFamilies (inv : List Peer) : List Fam → Tabs → Tabs × List Change
  | [], t => (t, [])
  | f :: fs, t =>
      let r1 := endDeferral inv t f
      let r2 := endDeferralFamilies inv fs r1.1
      (r2.1, r1.2 ++ r2.2)

def startDeferralFamilies (fs : List Fam) (t : Tabs) : Tabs := fs.foldl startDeferral t

/-! ## Glue -/

/-- family universe of the correspondence harness -/
def famUniverse : List Fam := [0, 1, 2]

def flagsOf (t : Tabs) (univ : List Fam) : List Fam := univ.filter (fun f => (t f).deferring)


def completeFamilies (outs : List ROut) : List Fam :=
  outs.filterMap fun o => match o with | .famComplete f => some f | _ => none

/-- the last `EndDeferral(remaining)` of the output list, if any -/
def endRemaining : List ROut → Option (List Fam)
  | [] => none
  | o :: rest =>
      match endRemaining rest with
      | some fs => some fs
      | none => match o with | .endDeferral fs => some fs | _ => none

/-- Daemon state C11 is about: `Global.selection_deferral` and the tables. -/
structure St where
  sd : Option RInner := none
  tabs : Tabs := fun _ => {}
  /-- families whose flag is reported in observations (not daemon state): the harness universe
      {0,1,2} plus every family the configuration names -/
  univ : List Fam := []
  /-- `Global.selection_deferral_timer.is_some()` -/
  timer : Bool := false
  /-- `TableManager.nexthop_invalid`, by announcing peer -/
  invalid : List Peer := []
  /-- sessions that are up, with the GR families negotiated on them (harness bookkeeping: what the
      `PeerSession` handed to `finish_session` holds) -/
  up : List (Peer × List Fam) := []
  deriving Inhabited

/-- `StartDeferralTimer(Some(d))` among the outputs (`start_timer.flatten()`) -/
def startsTimer (outs : List ROut) : Bool :=
  outs.any fun o => match o with | .startTimer (some _) => true | _ => false

/-- `process_restarting_outputs`, then (in `process_effects`) the spawn of the timer it asks for -/
def applyOuts (s : St) (outs : List ROut) : St × List Change :=
  let r1 := endDeferralFamilies s.invalid (completeFamilies outs) s.tabs
  let s' : St × List Change :=
    match endRemaining outs with
    | some remaining =>
        let r2 := endDeferralFamilies s.invalid remaining r1.1
        -- `selection_deferral_timer.take().abort()`, `selection_deferral = None`
        ({ s with sd := none, tabs := r2.1, timer := false }, r1.2 ++ r2.2)
    | none => ({ s with tabs := r1.1 }, r1.2)
  (if startsTimer outs then { s'.1 with timer := true } else s'.1, s'.2)

/-- `stale_routes_time` of the global GR config: absent → 360 s; 0 → disabled; n → n -/
def selectionDeferralTime : Option Nat → Option Nat
  | none => some 360
  | some 0 => none
  | some n => some n

/-- start-up: `RestartingDeferral::new`, `start_deferral_families`, install unless completed -/
def init (grPeers : List (Peer × List Fam)) (cfgDur : Option Nat) : St × List ROut :=
  let r := new grPeers (selectionDeferralTime cfgDur)
  let univ := dedup (famUniverse ++ grPeers.flatMap (·.2))
  if isCompleted r.1 then ({ univ := univ }, r.2)
  else
    let fs := r.2.flatMap fun o => match o with | .deferFamilies fs => fs | _ => []
    ({ sd := some r.1, tabs := startDeferralFamilies fs (fun _ => {}), univ := univ }, r.2)

/-- one event of a history -/
inductive Ev where
  | rd (i : RIn)                          -- fed to `selection_deferral` if installed, then the glue
  | ins (p : Peer) (f : Fam) (n : Nat)    -- `insert_route`
  | rm (p : Peer) (f : Fam) (n : Nat)     -- `remove_route`
  | drop (p : Peer) (f : Fam)             -- `drop_families(addr, [f])`
  | stale (p : Peer) (f : Fam)            -- `unregister_peer(addr, [], [f])` → `mark_stale` → `restale`
  | llgr (p : Peer) (f : Fam)             -- `mark_llgr_stale(addr, [f])`
  | purge (p : Peer) (f : Fam)            -- `drop_stale_families(addr, [f])`
  | lpurge (p : Peer) (f : Fam)           -- `drop_llgr_stale_families(addr, [f])`
  | nhv (p : Peer) (ok : Bool)            -- `update_nexthop_validity(10.0.0.(1+p), ok)`
  | gdown (p : Peer)                      -- the session of `p` ends by an I/O error: `finish_session`
  deriving DecidableEq, Repr, Inhabited

inductive Tag where
  | awaiting | deferring | completed | absent
  deriving DecidableEq, Repr, Inhabited

/-- what is observed after each step -/
structure Obs where
  outs : List ROut
  changes : List Change
  /-- state of the machine in `Global.selection_deferral` after the step (`absent`: none installed) -/
  tag : Tag
  /-- its `pending` -/
  pending : Pending
  /-- `Global.selection_deferral.is_some()` after the glue ran -/
  installed : Bool
  /-- families whose `Rib.deferring` is set after the step (over the family universe) -/
  flags : List Fam
  /-- `Global.selection_deferral_timer.is_some()` after the step -/
  timer : Bool
  deriving DecidableEq, Repr, Inhabited

def tagOf : RInner → Tag
  | .awaiting .. => .awaiting
  | .deferring .. => .deferring
  | .completed => .completed

def pendingOf : RInner → Pending
  | .awaiting p _ => p
  | .deferring p => p
  | .completed => []


def obsOf (s : St) (outs : List ROut) (changes : List Change) : Obs :=
  { outs := outs, changes := changes,
    tag := match s.sd with | some m => tagOf m | none => .absent,
    pending := match s.sd with | some m => pendingOf m | none => [],
    installed := s.sd.isSome, flags := flagsOf s.tabs s.univ, timer := s.timer }

/-- families a session carries in the harness (one `Source` each) -/
def sessionFams : List Fam := [0, 1, 2]

/-- `unregister_peer(addr, drop_families, stale_families)` as `finish_session` calls it for a session
    that negotiated graceful restart for `gr` and ended by an I/O error: the GR families are kept
    and marked stale, the others dropped -/
def unregister (inv : List Peer) (p : Peer) (gr : List Fam) : List Fam → Tabs → Tabs × List Change
  | [], t => (t, [])
  | f :: fs, t =>
      let r1 := if gr.contains f then restale inv t p f else dropPeer inv t p f
      let r2 := unregister inv p gr fs r1.1
      (r2.1, r1.2 ++ r2.2)

/-- the entry of `p` in the list of sessions -/
def sessOf (up : List (Peer × List Fam)) (p : Peer) : Option (List Fam) :=
  (up.find? (fun e => e.1 = p)).map (·.2)

def step (s : St) : Ev → St × Obs
  | .rd i =>
      let up' := match i with
        | .est p fams => (p, fams) :: s.up.filter (fun e => e.1 ≠ p)
        | .wd p => s.up.filter (fun e => e.1 ≠ p)
        | _ => s.up
      let s0 : St := { s with up := up' }
      match s.sd with
      | some m =>
          let r := process m i
          let s1 : St := { s0 with sd := some r.1 }
          let a := applyOuts s1 r.2
          -- (only a PeerEstablished input ever yields StartDeferralTimer, and only its call site,
          --  `process_effects(GrSessionEstablished)`, spawns the timer)
          (a.1, obsOf a.1 r.2 a.2)
      | none => (s0, obsOf s0 [] [])
  | .ins p f n =>
      let r := insert s.invalid s.tabs p f n
      ({ s with tabs := r.1 }, obsOf { s with tabs := r.1 } [] r.2)
  | .rm p f n =>
      let r := remove s.invalid s.tabs p f n
      ({ s with tabs := r.1 }, obsOf { s with tabs := r.1 } [] r.2)
  | .drop p f =>
      let r := dropPeer s.invalid s.tabs p f
      ({ s with tabs := r.1 }, obsOf { s with tabs := r.1 } [] r.2)
  | .stale p f =>
      let r := restale s.invalid s.tabs p f
      ({ s with tabs := r.1 }, obsOf { s with tabs := r.1 } [] r.2)
  | .llgr p f =>
      let r := restaleLlgr s.invalid s.tabs p f
      ({ s with tabs := r.1 }, obsOf { s with tabs := r.1 } [] r.2)
  | .purge p f =>
      let r := purge ((s.tabs f).stale.contains p) s.invalid s.tabs p f
      ({ s with tabs := r.1 }, obsOf { s with tabs := r.1 } [] r.2)
  | .lpurge p f =>
      let r := purge ((s.tabs f).llgr.contains p) s.invalid s.tabs p f
      ({ s with tabs := r.1 }, obsOf { s with tabs := r.1 } [] r.2)
  | .nhv p ok =>
      if s.invalid.contains p = !ok then (s, obsOf s [] [])   -- already in that state: nothing flips
      else
        let inv' := if ok then s.invalid.filter (· ≠ p) else p :: s.invalid
        ({ s with invalid := inv' }, obsOf { s with invalid := inv' } [] (s.univ.flatMap (nhvFam inv' s.tabs p)))
  | .gdown p =>
      match sessOf s.up p with
      | none => (s, obsOf s [] [])
      | some gr =>
          let r := unregister s.invalid p gr sessionFams s.tabs
          let s' : St := { s with tabs := r.1, up := s.up.filter (fun e => e.1 ≠ p) }
          (s', obsOf s' [] r.2)

def runFrom (s : St) : List Ev → St × List Obs
  | [] => (s, [])
  | e :: es =>
      let r := step s e
      let rest := runFrom r.1 es
      (rest.1, r.2 :: rest.2)

structure Cfg where
  peers : List (Peer × List Fam)
  dur : Option Nat
  deriving DecidableEq, Repr, Inhabited

/-- observation of the start-up step -/
def initObs (cfg : Cfg) : St × Obs :=
  let r := init cfg.peers cfg.dur
  (r.1, obsOf r.1 r.2 [])

def run (cfg : Cfg) (evs : List Ev) : List Obs :=
  let r := initObs cfg
  r.2 :: (runFrom r.1 evs).2

end Rbgp.Gr.Restarting
