/-
  Rbgp.Gr.Restarting.Props — C11, the readable statements.

  Everything here is about the MODEL (`Rbgp.Gr.Restarting.Model`): `RestartingDeferral`
  (`process`), the per-family RIB flag and paths (`Tabs`), and the glue (`applyOuts`, `step`).
  `run cfg evs` is the list of observations of a whole history; `stateAfter cfg evs` the daemon
  state it leaves.  "In-domain history" (`InDomain cfg evs`) is the decidable side condition of the
  property's quantifier made explicit; it excludes only what cannot happen: an End-of-RIB from a
  helper that is still waited for but has no established GR session, and a timer expiry while
  helpers are waited for although the timer was never started or is disabled (see Spec.lean `wf`).
  An End-of-RIB from a peer nobody waits for and a stale timer expiry are in the domain (they must
  change nothing).  The statements marked (all histories) need no side condition.

  Proofs: `Proofs.lean` (what one `process` call does to the (helper, family) pairs),
  `Sim.lean` (simulation against the reference bookkeeping of Spec.lean).
-/
import Rbgp.Gr.Restarting.Sim
namespace Rbgp.Gr.Restarting.Props
open Rbgp.Gr.Restarting Rbgp.Gr.Restarting.Spec

/-! ## 0. The reference checker accepts every run (all histories) -/

theorem check_run_ok (cfg : Cfg) (evs : List Ev) : Spec.check cfg evs (run cfg evs) = .ok :=
  Rbgp.Gr.Restarting.check_run_ok cfg evs

/-- non-vacuity: an in-domain history with two helpers sharing a family, on which every clause of
    the checker is exercised (held, released by EOR, announced, machine completed) -/
def exCfg : Cfg := { peers := [(0, [0, 1]), (1, [1])], dur := some 360 }
def exEvs : List Ev :=
  [.ins 0 0 1, .rd (.est 0 [0, 1]), .rd (.eor 0 0), .ins 1 1 2, .rd (.eor 0 1), .rd (.est 1 [1]), .rd (.eor 1 1)]

/-! ## histories in the property's domain -/

/-- every event is in the domain, judged by the reference bookkeeping -/
def InDomainFrom (cfg : Cfg) : R → List Ev → Bool
  | _, [] => true
  | r, e :: es => wf cfg r e && InDomainFrom cfg (advance cfg r e) es

def InDomain (cfg : Cfg) (evs : List Ev) : Bool := InDomainFrom cfg (Spec.init cfg) evs

def refAfterFrom (cfg : Cfg) : R → List Ev → R
  | r, [] => r
  | r, e :: es => refAfterFrom cfg (advance cfg r e) es

/-- the daemon state after a history -/
def stateAfter (cfg : Cfg) (evs : List Ev) : St := (runFrom (initObs cfg).1 evs).1

example : InDomain exCfg exEvs = true := by decide

/-- a history that ends by timer expiry while helper 1 never showed up (witness for §3) -/
def exTimerEvs : List Ev := [.ins 0 0 1, .rd (.est 0 [0, 1]), .ins 1 1 2, .rd .timer]
example : InDomain exCfg exTimerEvs = true := by decide

/-- in the domain although "unexpected": End-of-RIB from a peer nobody waits for, a timer expiry
    after everything completed, a timer expiry when nothing was ever deferred -/
example : InDomain exCfg [.rd (.est 3 []), .rd (.eor 3 0), .rd (.eor 7 1)] = true := by decide
example : InDomain exCfg (exEvs ++ [.rd .timer, .rd (.eor 0 0)]) = true := by decide
example : InDomain { peers := [], dur := none } [.rd .timer] = true := by decide
/-- outside: the timer cannot fire before it was started, nor when it is disabled -/
example : InDomain exCfg [.rd .timer] = false := by decide
example : InDomain { peers := [(0, [0])], dur := some 0 } [.rd (.est 0 [0]), .rd .timer] = false := by decide

/-! ### the checker is not a rubber stamp: tampered observations are refused -/

def mapNth (n : Nat) (f : Obs → Obs) : List Obs → List Obs
  | [] => []
  | o :: os => match n with
      | 0 => f o :: os
      | n + 1 => o :: mapNth n f os

/-- (1a) the timer request removed from the step at which the first helper establishes -/
example : Spec.check exCfg exEvs
    (mapNth 2 (fun o => { o with outs := o.outs.filter (fun x => !isStartTimer x) }) (run exCfg exEvs))
    = .fail 2 "timer-start" := by decide
/-- (1a) ... or requested with another duration -/
example : Spec.check exCfg exEvs
    (mapNth 2 (fun o => { o with outs := o.outs.map fun x => if isStartTimer x then .startTimer none else x })
      (run exCfg exEvs)) = .fail 2 "timer-start" := by decide
/-- (1a) the timer not armed although requested -/
example : Spec.check exCfg exEvs (mapNth 2 (fun o => { o with timer := false }) (run exCfg exEvs))
    = .fail 2 "timer-armed" := by decide
/-- (1b) the machine reported `completed` (and still installed) while families are held -/
example : Spec.check exCfg exEvs (mapNth 2 (fun o => { o with tag := .completed, pending := [] }) (run exCfg exEvs))
    = .fail 2 "completed-still-installed" := by decide
/-- (1b) the machine gone while helpers are still waited for -/
example : Spec.check exCfg exEvs
    (mapNth 2 (fun o => { o with tag := .absent, pending := [], installed := false }) (run exCfg exEvs))
    = .fail 2 "machine-gone-while-waited" := by decide
/-- (1c) a premature release after `est 3 (); eor 3 0` (peer 3 is nobody's helper) is refused -/
example : Spec.check exCfg [.rd (.est 3 []), .rd (.eor 3 0)]
    (mapNth 2 (fun o => { o with outs := [.famComplete 0], flags := [1] })
      (run exCfg [.rd (.est 3 []), .rd (.eor 3 0)])) = .fail 2 "released-early" := by decide
/-- (1d) start-up without the flags, or without the machine -/
example : Spec.check exCfg [] (mapNth 0 (fun o => { o with flags := [] }) (run exCfg []))
    = .fail 0 "released-early" ∨
    Spec.check exCfg [] (mapNth 0 (fun o => { o with flags := [] }) (run exCfg []))
    = .fail 0 "startup-not-deferred" := by decide
example : Spec.check exCfg [] (mapNth 0 (fun o => { o with tag := .absent, pending := [], installed := false })
    (run exCfg [])) = .fail 0 "machine-gone-while-waited" := by decide
/-- a release announced with the flags no neighbour acts on -/
example : Spec.check exCfg exEvs
    (mapNth 3 (fun o => { o with changes := o.changes.map fun c => { c with kind := .mute } }) (run exCfg exEvs))
    = .fail 3 "release-not-exact" := by decide

theorem rel_after_from (cfg : Cfg) (evs : List Ev) (s : St) (r : R) (hr : Rel cfg s r)
    (h : InDomainFrom cfg r evs = true) : Rel cfg (runFrom s evs).1 (refAfterFrom cfg r evs) := by
  induction evs generalizing s r with
  | nil => exact hr
  | cons e es ih =>
      simp only [InDomainFrom, Bool.and_eq_true] at h
      exact ih _ _ (step_ok hr e h.1).2 h.2

/-- After an in-domain history the model state and the reference bookkeeping are related. -/
theorem rel_after (cfg : Cfg) (evs : List Ev) (h : InDomain cfg evs = true) :
    Rel cfg (stateAfter cfg evs) (refAfterFrom cfg (Spec.init cfg) evs) :=
  rel_after_from cfg evs _ _ (init_ok cfg).2 h

/-! ## 1. `deferring_silent`: while a family is deferred no change for it is emitted -/

/-- (all states) Every RIB mutator — not only `insert`: withdrawal, peer drop, GR / LLGR stale marking,
    stale purge, next-hop validity — returns no change for a deferring family. -/
theorem deferring_silent (inv : List Peer) (t : Tabs) (p : Peer) (f : Fam) (n : Nat)
    (h : (t f).deferring = true) :
    (insert inv t p f n).2 = [] ∧ (remove inv t p f n).2 = [] ∧ (dropPeer inv t p f).2 = [] ∧
    (restale inv t p f).2 = [] ∧ (restaleLlgr inv t p f).2 = [] ∧ (∀ b, (purge b inv t p f).2 = []) ∧
    nhvFam inv t p f = [] := by
  refine ⟨by simp [insert, h], ?_, by simp [dropPeer, h], ?_, ?_, ?_, by simp [nhvFam, h]⟩
  · by_cases hm : (n, p) ∈ (t f).paths <;> simp [remove, hm, h]
  · rcases restale_eq inv t p f with ⟨_, he⟩ | ⟨_, he⟩ <;> rw [he] <;> simp [h]
  · rcases restaleLlgr_eq inv t p f with ⟨_, he⟩ | ⟨_, he⟩ <;> rw [he] <;> simp [h]
  · intro b; cases b <;> simp [purge, dropPeer, h]

/-- (all states, every composite mutator) `unregister_peer(addr, drop_families, stale_families)` as
    `finish_session` calls it returns no change for a deferring family, and leaves every flag. -/
theorem unregister_silent (inv : List Peer) (p : Peer) (gr fs : List Fam) (t : Tabs) :
    (∀ c ∈ (unregister inv p gr fs t).2, (t c.fam).deferring = false) ∧
    ∀ g, ((unregister inv p gr fs t).1 g).deferring = (t g).deferring :=
  ⟨(unregister_tabOp inv p gr fs t).quiet, (unregister_tabOp inv p gr fs t).flag⟩

/-- (all states, all route-only events: insert, withdraw, drop, stale, LLGR stale, purges, next-hop
    validity, the end of a helper's session) no change is distributed for a family whose deferral
    flag is set, and the flags stay as they are. -/
theorem route_event_silent (s : St) (e : Ev) (h : isRd e = false) :
    (∀ c ∈ (step s e).2.changes, (s.tabs c.fam).deferring = false) ∧
    (∀ g, ((step s e).1.tabs g).deferring = (s.tabs g).deferring) ∧
    (step s e).2.outs = [] ∧ (step s e).1.sd = s.sd := by
  obtain ⟨hop, hobs, hsd, _, _⟩ := step_tabOp s e h
  exact ⟨hop.quiet, hop.flag, by rw [hobs]; rfl, hsd⟩

/-- (all states, all events) After a step, the family of every change the step emitted is not
    deferring. -/
theorem deferring_silent_step (s : St) (e : Ev) (c : Change) (hc : c ∈ (step s e).2.changes) :
    ((step s e).1.tabs c.fam).deferring = false := by
  by_cases h : isRd e = false
  · obtain ⟨hq, hf, _, _⟩ := route_event_silent s e h
    rw [hf]; exact hq c hc
  · cases e with
    | rd i =>
        cases hsd : s.sd with
        | none => simp [step, hsd, obsOf] at hc
        | some m =>
            simp only [step, hsd, obsOf] at hc ⊢
            generalize hs1 : ({ s with up := _, sd := some (process m i).1 } : St) = s1 at hc ⊢
            obtain ⟨h1, h2, _⟩ := applyOuts_spec s1 (process m i).2
            obtain ⟨_, e2, e3, _⟩ := endDeferralFamilies_spec s1.invalid (relFams (process m i).2) s1.tabs
            rw [h2, e3] at hc
            rw [h1, e2, if_pos (mem_flatMap_announce_fam hc)]
    | _ => exact absurd rfl h

/-- (all states, all events) ... more precisely: a change is emitted either for a family that was not
    deferring before the step, or by the very machine input whose outputs release that family. -/
theorem change_free_or_released (s : St) (e : Ev) (c : Change) (hc : c ∈ (step s e).2.changes) :
    (s.tabs c.fam).deferring = false ∨
      ∃ i m, e = .rd i ∧ s.sd = some m ∧ c.fam ∈ relFams (process m i).2 := by
  by_cases h : isRd e = false
  · exact Or.inl ((route_event_silent s e h).1 c hc)
  · cases e with
    | rd i =>
        cases hsd : s.sd with
        | none => simp [step, hsd, obsOf] at hc
        | some m =>
            simp only [step, hsd, obsOf] at hc
            generalize hs1 : ({ s with up := _, sd := some (process m i).1 } : St) = s1 at hc
            obtain ⟨_, h2, _⟩ := applyOuts_spec s1 (process m i).2
            obtain ⟨_, _, e3, _⟩ := endDeferralFamilies_spec s1.invalid (relFams (process m i).2) s1.tabs
            rw [h2, e3] at hc
            exact Or.inr ⟨i, m, rfl, rfl, mem_flatMap_announce_fam hc⟩
    | _ => exact absurd rfl h

/-- non-vacuity: helper 0 has sent a route, establishes, and its session ends by an I/O error while
    families 0 and 1 are deferred (`gdown`: the routes are kept, marked stale); nothing is distributed at
    that step; the later `wd` releases family 0 and announces the (stale) route once; next-hop
    invalidation and LLGR marking then hit the released family 0 (distributed) and the still deferred
    family 1 (silent) -/
def exHelperEvs : List Ev :=
  [.ins 0 0 0, .ins 0 1 1, .rd (.est 0 [0, 1]), .gdown 0, .rd (.wd 0), .nhv 0 false, .llgr 0 0, .stale 1 1,
   .rd (.est 1 [1]), .purge 0 1, .rd (.eor 1 1)]
example : InDomain exCfg exHelperEvs = true := by decide
example : (run exCfg exHelperEvs).map (fun o => o.changes.map (fun c => (c.fam, c.pfx, c.peers))) =
    [[], [], [], [], [], [(0, 0, [0])], [(0, 0, [])], [(0, 0, [])], [], [], [], []] := by decide
/-- ... and the checker refuses a change distributed for a deferred family at the `gdown` step (what
    `Table::restale` without its deferral guard does) -/
example : Spec.check exCfg exHelperEvs
    (mapNth 4 (fun o => { o with changes := [{ fam := 0, pfx := 0, peers := [0] }] }) (run exCfg exHelperEvs))
    = .fail 4 "change-while-deferred" := by decide

/-! ## 2. `family_complete_iff`: a family is released exactly when its last pending helper goes -/

/-- The families an output list releases (`FamilyDeferralComplete*` then `EndDeferral(remaining)`)
    are exactly those held by some pending helper before the input and by none after it. -/
theorem family_complete_iff (cfg : Cfg) (evs : List Ev) (h : InDomain cfg evs = true) (i : RIn)
    (hi : wf cfg (refAfterFrom cfg (Spec.init cfg) evs) (.rd i) = true) (m : RInner)
    (hm : (stateAfter cfg evs).sd = some m) (f : Fam) :
    f ∈ relFams (process m i).2 ↔
      (holdsP f (pendingOf m) ∧ ¬ holdsP f (pendingOf (process m i).1)) := by
  have hr := rel_after cfg evs h
  obtain ⟨_, hw, hne, _, _⟩ := hr.sd_some m hm
  exact (process_spec m i hw (fun _ => hne) (inputOk_of_wf hr hm hi)).rel_mem f

/-- ... and the glue clears the flag of exactly those families (the others keep theirs). -/
theorem release_clears_flag (s : St) (m : RInner) (i : RIn) (hs : s.sd = some m) (f : Fam) :
    ((step s (.rd i)).1.tabs f).deferring =
      (if f ∈ relFams (process m i).2 then false else (s.tabs f).deferring) := by
  simp only [step, hs]
  generalize hs1 : ({ s with up := _, sd := some (process m i).1 } : St) = s1
  have ht : s1.tabs = s.tabs := by rw [← hs1]
  obtain ⟨h1, _⟩ := applyOuts_spec s1 (process m i).2
  rw [h1, (endDeferralFamilies_spec _ _ _).2.1, ht]

/-! ## 3. `timer_ends_all` -/

/-- Timer expiry in `Deferring` ends the deferral of every family still held and completes. -/
theorem timer_ends_all (pend : Pending) :
    process (.deferring pend) .timer = (.completed, [.endDeferral (heldFams pend)]) ∧
    ∀ f, f ∈ heldFams pend ↔ holdsP f pend :=
  ⟨rfl, fun _ => mem_heldFams⟩

/-- After an in-domain history, an in-domain timer expiry leaves no family deferring and removes
    the machine (`selection_deferral = None`, the restarting flag). -/
theorem timer_clears_everything (cfg : Cfg) (evs : List Ev) (h : InDomain cfg evs = true)
    (hi : wf cfg (refAfterFrom cfg (Spec.init cfg) evs) (.rd .timer) = true) :
    (step (stateAfter cfg evs) (.rd .timer)).1.sd = none ∧
    ∀ f, ((step (stateAfter cfg evs) (.rd .timer)).1.tabs f).deferring = false := by
  have hr := rel_after cfg evs h
  have hr' := (step_ok hr (.rd .timer) hi).2
  have hw : (advance cfg (refAfterFrom cfg (Spec.init cfg) evs) (.rd .timer)).waiting = [] := rfl
  refine ⟨?_, fun f => ?_⟩
  · cases hsd : (step (stateAfter cfg evs) (.rd .timer)).1.sd with
    | none => rfl
    | some m =>
        exfalso
        obtain ⟨_, hwf, hne, hp, _⟩ := hr'.sd_some m hsd
        exact hne (pend_nil_of_pairs_nil hwf (eq_nil_of_forall_not_mem fun x hx => by
          have := (hp x).mp hx; rw [hw] at this; simp at this))
  · rw [hr'.flags]
    cases hh : held (advance cfg (refAfterFrom cfg (Spec.init cfg) evs) (.rd .timer)) f with
    | false => rfl
    | true => have := (hr'.held_iff f).mp hh; rw [hw] at this; simp [holds] at this

/-- non-vacuity: on `exTimerEvs` the last event is an in-domain timer expiry taken while families 0 and 1 are
    still held; afterwards the machine is gone, no flag is set and both prefixes were announced -/
example : wf exCfg (refAfterFrom exCfg (Spec.init exCfg) (exTimerEvs.take 3)) (.rd .timer) = true := by decide
example : (stateAfter exCfg (exTimerEvs.take 3)).sd.isSome = true ∧
    flagsOf (stateAfter exCfg (exTimerEvs.take 3)).tabs [0, 1, 2] = [0, 1] ∧
    (stateAfter exCfg exTimerEvs).sd.isSome = false ∧
    flagsOf (stateAfter exCfg exTimerEvs).tabs [0, 1, 2] = [] := by decide

/-! ## 4. `release_exactly_held`: the release announces exactly the prefixes held, once each -/

/-- When an in-domain step releases family `f`, the changes it distributes for `f` are
    `announce f paths` over the paths whose next hop is reachable: one change per prefix that has
    such a path (`prefixes` is duplicate-free), each carrying exactly those paths, and nothing else
    for `f`. -/
theorem release_exactly_held (cfg : Cfg) (evs : List Ev) (h : InDomain cfg evs = true) (i : RIn)
    (hi : wf cfg (refAfterFrom cfg (Spec.init cfg) evs) (.rd i) = true) (m : RInner)
    (hm : (stateAfter cfg evs).sd = some m) (f : Fam) (hf : f ∈ relFams (process m i).2) :
    (step (stateAfter cfg evs) (.rd i)).2.changes.filter (·.fam = f) =
      announce f (usable (stateAfter cfg evs).invalid ((stateAfter cfg evs).tabs f).paths) := by
  have hr := rel_after cfg evs h
  obtain ⟨_, hw, hne, _, _⟩ := hr.sd_some m hm
  have sp := process_spec m i hw (fun _ => hne) (inputOk_of_wf hr hm hi)
  simp only [step, hm, obsOf]
  generalize hs1 : ({ stateAfter cfg evs with up := _, sd := some (process m i).1 } : St) = s1
  have ht : s1.tabs = (stateAfter cfg evs).tabs ∧ s1.invalid = (stateAfter cfg evs).invalid := by
    rw [← hs1]; exact ⟨rfl, rfl⟩
  obtain ⟨_, h2, _⟩ := applyOuts_spec s1 (process m i).2
  rw [h2, (endDeferralFamilies_spec _ _ _).2.2.1, filter_flatMap_announce sp.rel_nodup, if_pos hf, ht.1, ht.2]

theorem announce_once (f : Fam) (paths : List (Nat × Peer)) :
    ((announce f paths).map (·.pfx)).Nodup ∧
    (∀ n, n ∈ (announce f paths).map (·.pfx) ↔ ∃ p, (n, p) ∈ paths) ∧
    ∀ c ∈ announce f paths, c.fam = f ∧ ∀ p, p ∈ c.peers ↔ (c.pfx, p) ∈ paths := by
  have hmap : (announce f paths).map (·.pfx) = prefixes paths := by
    simp [announce, List.map_map, Function.comp_def]
  refine ⟨by rw [hmap]; exact nodup_dedup _, fun n => by rw [hmap]; exact mem_prefixes, fun c hc => ?_⟩
  simp only [announce, List.mem_map] at hc
  obtain ⟨n, _, rfl⟩ := hc
  exact ⟨rfl, fun p => mem_peersOf⟩

/-! ## 5. `nongr_never_blocks` -/

/-- (all states) A peer that establishes without graceful restart is not in `pending` afterwards. -/
theorem nongr_never_blocks (m : RInner) (p : Peer) :
    lookup p (pendingOf (process m (.est p [])).1) = none := by
  have hl : ∀ pend : Pending, lookup p (removePeer pend p).1 = none := by
    intro pend
    unfold removePeer
    cases h : lookup p pend with
    | none => simpa using h
    | some s =>
        simp only
        rw [lookup_none_iff]
        intro t ht
        exact (mem_erase.mp ht).2 rfl
  have hs : ∀ pend : Pending, (stillAwaited pend p []).isEmpty = true := by
    intro pend; unfold stillAwaited; cases lookup p pend <;> simp
  cases m with
  | completed => simp [process, pendingOf, lookup]
  | awaiting pend dur =>
      simp only [process, hs, ↓reduceIte, finishAwaiting]
      split
      · simp [pendingOf, lookup]
      · simpa [pendingOf] using hl pend
  | deferring pend =>
      simp only [process, hs, ↓reduceIte, finishDeferring]
      split
      · simp [pendingOf, lookup]
      · simpa [pendingOf] using hl pend

/-- (all states, all inputs) No input ever adds a peer to `pending`: its keys only shrink, so a peer
    that was not configured as a GR helper, or that left, never (re-)appears. -/
theorem pending_keys_shrink (m : RInner) (i : RIn) (q : Peer)
    (h : q ∈ (pendingOf (process m i).1).map (·.1)) : q ∈ (pendingOf m).map (·.1) := by
  have herase : ∀ (pend : Pending) p, q ∈ (erase p pend).map (·.1) → q ∈ pend.map (·.1) := by
    intro pend p hq
    simp only [List.mem_map] at hq ⊢
    obtain ⟨e, he, rfl⟩ := hq
    exact ⟨e, (mem_erase.mp he).1, rfl⟩
  have hrem : ∀ (pend : Pending) p, q ∈ (removePeer pend p).1.map (·.1) → q ∈ pend.map (·.1) := by
    intro pend p hq
    unfold removePeer at hq
    cases hl : lookup p pend with
    | none => simpa [hl] using hq
    | some s => rw [hl] at hq; exact herase pend p hq
  cases m with
  | completed =>
      have : process .completed i = (.completed, []) := by cases i <;> rfl
      rw [this] at h; exact h
  | awaiting pend dur =>
      cases i with
      | timer => exact h
      | eor p f => exact h
      | wd p =>
          simp only [process, finishAwaiting] at h
          split at h
          · simp [pendingOf] at h
          · exact hrem pend p h
      | est p fams0 =>
          simp only [process] at h
          split at h
          · simp only [finishAwaiting] at h
            split at h
            · simp [pendingOf] at h
            · exact hrem pend p h
          · split at h
            · simpa [pendingOf, keys_replace] using h
            · exact h
  | deferring pend =>
      cases i with
      | timer => simp [process, pendingOf] at h
      | eor p f =>
          have hp : process (.deferring pend) (.eor p f) =
              (if (eorStep pend p f).1.isEmpty then (.completed, (eorStep pend p f).2 ++ [.endDeferral []])
               else (.deferring (eorStep pend p f).1, (eorStep pend p f).2)) := rfl
          rw [hp] at h
          split at h
          · simp [pendingOf] at h
          · simp only [pendingOf, eorStep] at h
            cases hl : lookup p pend with
            | none => simpa [hl, pendingOf] using h
            | some s =>
                rw [hl] at h
                simp only at h
                split at h
                · simpa [pendingOf] using herase pend p h
                · simpa [keys_replace, pendingOf] using h
      | wd p =>
          simp only [process, finishDeferring] at h
          split at h
          · simp [pendingOf] at h
          · exact hrem pend p h
      | est p fams0 =>
          simp only [process] at h
          split at h
          · simp only [finishDeferring] at h
            split at h
            · simp [pendingOf] at h
            · exact hrem pend p h
          · split at h
            · simpa [pendingOf, keys_replace] using h
            · exact h

/-- the helpers `RestartingDeferral::new` starts with are the configured peers with a family -/
theorem initial_pending_configured (cfg : Cfg) (x : Peer × List Fam) (h : x ∈ mkPending cfg.peers) :
    ∃ e ∈ cfg.peers, e.1 = x.1 ∧ e.2 ≠ [] := by
  obtain ⟨e, he, hne, rfl⟩ := mem_mkPending.mp h
  refine ⟨e, dedupLast_sub he, rfl, fun h0 => ?_⟩
  simp [h0, toSet, dedup] at hne

/-! ## 6. `no_stuck_deferring` -/

/-- After an in-domain history the machine, if still installed, is not `Completed`, has a
    non-empty `pending`, and every entry of `pending` awaits at least one family; and once the
    reference has nobody left to wait for, the machine is gone. -/
theorem no_stuck_deferring (cfg : Cfg) (evs : List Ev) (h : InDomain cfg evs = true) :
    (∀ m, (stateAfter cfg evs).sd = some m →
        m ≠ .completed ∧ pendingOf m ≠ [] ∧ ∀ e ∈ pendingOf m, e.2 ≠ []) ∧
    ((refAfterFrom cfg (Spec.init cfg) evs).waiting = [] → (stateAfter cfg evs).sd = none) := by
  have hr := rel_after cfg evs h
  refine ⟨fun m hm => ?_, fun hw => ?_⟩
  · obtain ⟨a, b, c, _, _⟩ := hr.sd_some m hm
    exact ⟨a, c, fun e he => (b.sets e he).1⟩
  · cases hsd : (stateAfter cfg evs).sd with
    | none => rfl
    | some m =>
        exfalso
        obtain ⟨_, hwf, hne, hp, _⟩ := hr.sd_some m hsd
        exact hne (pend_nil_of_pairs_nil hwf (eq_nil_of_forall_not_mem fun x hx => by
          have := (hp x).mp hx; rw [hw] at this; simp at this))

/-- (one step, all inputs in the domain) `process` returns `Completed` exactly when it empties `pending`. -/
theorem completes_iff_pending_empty (m : RInner) (i : RIn) (hw : WFp (pendingOf m))
    (hne : pendingOf m ≠ []) (hi : InputOk m i) (hm : m ≠ .completed) :
    (process m i).1 = .completed ↔ pendingOf (process m i).1 = [] := by
  have sp := process_spec m i hw (fun _ => hne) hi
  constructor
  · intro h; rw [h]; rfl
  · intro h
    cases hc : (process m i).1 with
    | completed => rfl
    | awaiting q d => exact absurd h (sp.nonempty (by simp [hc]))
    | deferring q => exact absurd h (sp.nonempty (by simp [hc]))

/-! ## 7. `each_family_released_once` -/

/-- the families released at each step of a run, in order -/
def releases (tr : List Obs) : List Fam := tr.flatMap fun o => relFams o.outs

theorem releases_nodup_from (cfg : Cfg) (evs : List Ev) (s : St) (r : R) (hr : Rel cfg s r)
    (h : InDomainFrom cfg r evs = true) (acc : List Fam) (hacc : acc.Nodup)
    (hsub : ∀ f ∈ acc, held r f = false ∧ holds f r.waiting = false) :
    (acc ++ releases (runFrom s evs).2).Nodup := by
  induction evs generalizing s r acc with
  | nil => simpa [runFrom, releases] using hacc
  | cons e es ih =>
      simp only [InDomainFrom, Bool.and_eq_true] at h
      obtain ⟨hok, hrel⟩ := step_ok hr e h.1
      simp only [runFrom, releases, List.flatMap_cons]
      rw [← List.append_assoc]
      -- the families released by this step
      have key : (relFams (step s e).2.outs).Nodup ∧
          ∀ f ∈ relFams (step s e).2.outs, held r f = true ∧ holds f (next r e).waiting = false := by
        by_cases hrd : isRd e = false
        · have := (route_event_silent s e hrd).2.2.1
          rw [this]; simp [relFams, completeFamilies, endRemaining]
        · cases e with
          | rd i =>
              cases hsd : s.sd with
              | none => simp [step, hsd, obsOf, relFams, completeFamilies, endRemaining]
              | some m =>
                  obtain ⟨_, hw, hne, hp, _⟩ := hr.sd_some m hsd
                  have sp := process_spec m i hw (fun _ => hne) (inputOk_of_wf hr hsd h.1)
                  simp only [step, hsd, obsOf]
                  refine ⟨sp.rel_nodup, fun f hf => ?_⟩
                  have hp' : ∀ x, x ∈ pairs (pendingOf (process m i).1) ↔ x ∈ (next r (.rd i)).waiting := by
                    intro x; rw [sp.pairs, next_waiting]; exact nextW_congr hp i x
                  have := (sp.rel_mem f).mp hf
                  rw [holdsP_iff_holds hp, holdsP_iff_holds hp', ← hr.held_iff] at this
                  exact ⟨this.1, by simpa using this.2⟩
          | _ => exact absurd rfl hrd
      have hctl : (∀ x, x ∈ (next r e).waiting → x ∈ r.waiting) ∧ (next r e).deferred = r.deferred ∧
          (next r e).released = r.released := by
        by_cases hrd : isRd e = false
        · have c := next_ctl r e hrd
          exact ⟨fun x hx => c.waiting ▸ hx, c.deferred, c.released⟩
        · cases e with
          | rd i =>
              exact ⟨fun x hx => by rw [next_waiting] at hx; exact nextW_sub hx, next_rd_deferred r i,
                next_rd_released r i⟩
          | _ => exact absurd rfl hrd
      obtain ⟨hsubw, hdef, hrl⟩ := hctl
      apply ih _ _ hrel h.2
      · rw [List.nodup_append]
        refine ⟨hacc, key.1, fun a ha b hb hab => ?_⟩
        subst hab
        have h1 := (hsub a ha).1
        have h2 := (key.2 a hb).1
        rw [h1] at h2; cases h2
      · intro f hf
        have hnh : ∀ g, holds g r.waiting = false → holds g (advance cfg r e).waiting = false := by
          intro g hg
          cases hh : holds g (advance cfg r e).waiting with
          | false => rfl
          | true =>
              obtain ⟨p, hp⟩ := holds_iff.mp hh
              have : holds g r.waiting = true := holds_iff.mpr ⟨p, hsubw _ hp⟩
              rw [hg] at this; cases this
        have hheld : held (advance cfg r e) f = (held (next r e) f && !(releasedNow r (next r e)).contains f) :=
          held_advance cfg r e f
        have hheld2 : held (next r e) f = held r f := by simp [held, hdef, hrl]
        rcases List.mem_append.mp hf with hf | hf
        · obtain ⟨a, b⟩ := hsub f hf
          exact ⟨by rw [hheld, hheld2, a]; rfl, hnh f b⟩
        · obtain ⟨a, b⟩ := key.2 f hf
          have hrn : f ∈ releasedNow r (next r e) := mem_releasedNow.mpr ⟨a, b⟩
          refine ⟨by rw [hheld]; simp [hrn], b⟩

/-- Over an in-domain history (start-up step included) no family is released twice. -/
theorem each_family_released_once (cfg : Cfg) (evs : List Ev) (h : InDomain cfg evs = true) :
    (releases (run cfg evs)).Nodup := by
  have h0 : relFams (initObs cfg).2.outs = [] := by
    simp only [initObs, init, new]
    split <;> simp [relFams, completeFamilies, endRemaining, isCompleted, obsOf]
  simp only [run, releases, List.flatMap_cons, h0, List.nil_append]
  have := releases_nodup_from cfg evs _ _ (init_ok cfg).2 h [] List.nodup_nil (by simp)
  simpa [releases] using this

/-- non-vacuity of the "released once" statement: the example history releases both families -/
example : releases (run exCfg exEvs) = [0, 1] := by decide

/-! ## The defects the check found, as model-level facts about the *unrepaired* transition

  Before the repair (`still_awaited`, `was_awaited` in daemon/src/gr.rs) the history
  `est 1 (0); eor 1 2` over `peers (1 (2))` released family 2 twice; with the repair the same
  history releases it once (corpus/C11/seed-findings.case). -/
example :
    releases (run { peers := [(1, [2])], dur := some 0 } [.rd (.est 1 [0]), .rd (.eor 1 2)]) = [2] := by
  decide

end Rbgp.Gr.Restarting.Props
