/-
  Rbgp.Gr.Restarting.Sim — the simulation between the model state and the reference state of
  Spec.lean, and the master theorem `check_run_ok`.
-/
import Rbgp.Gr.Restarting.Proofs
namespace Rbgp.Gr.Restarting
open Rbgp.Gr.Restarting.Spec

/-- The relation kept between a model state and the reference bookkeeping. -/
structure Rel (cfg : Cfg) (s : St) (r : R) : Prop where
  sd_some : ∀ m, s.sd = some m → m ≠ .completed ∧ WFp (pendingOf m) ∧ pendingOf m ≠ [] ∧
      (∀ x, x ∈ pairs (pendingOf m) ↔ x ∈ r.waiting) ∧ (r.started = true ↔ isDeferring m = true)
  sd_none : s.sd = none → r.waiting = []
  flags : ∀ f, (s.tabs f).deferring = held r f
  rib : ∀ f n p, (n, p) ∈ (s.tabs f).paths ↔ (f, n, p) ∈ r.rib
  held_iff : ∀ f, held r f = true ↔ holds f r.waiting = true
  up_inv : r.started = false → ∀ e ∈ r.up, tracked r e.1 = false
  univ : ∀ f ∈ r.deferred, f ∈ s.univ
  timer : s.timer = r.timer
  timer_wait : r.timer = true → r.waiting ≠ []
  dur : ∀ pend d, s.sd = some (.awaiting pend d) → d = effDur cfg.dur

theorem holds_iff {f : Fam} {w : List (Peer × Fam)} : holds f w = true ↔ ∃ p, (p, f) ∈ w := by
  simp only [holds, List.any_eq_true, decide_eq_true_eq]
  constructor
  · rintro ⟨e, he, rfl⟩; exact ⟨e.1, he⟩
  · rintro ⟨p, hp⟩; exact ⟨(p, f), hp, rfl⟩

theorem tracked_iff {r : R} {p : Peer} : tracked r p = true ↔ ∃ f, (p, f) ∈ r.waiting := by
  simp only [tracked, List.any_eq_true, decide_eq_true_eq]
  constructor
  · rintro ⟨e, he, rfl⟩; exact ⟨e.2, he⟩
  · rintro ⟨f, hf⟩; exact ⟨(p, f), hf, rfl⟩

theorem held_mem {r : R} {f : Fam} (h : held r f = true) : f ∈ r.deferred ∧ f ∉ r.released := by
  simpa [held] using h

theorem mem_releasedNow {r r' : R} {f : Fam} :
    f ∈ releasedNow r r' ↔ (held r f = true ∧ holds f r'.waiting = false) := by
  simp only [releasedNow, List.mem_filter, Bool.and_eq_true, Bool.not_eq_eq_eq_not, Bool.not_true]
  constructor
  · rintro ⟨_, h⟩; exact h
  · intro h; exact ⟨(held_mem h.1).1, h⟩

theorem next_waiting (r : R) (i : RIn) : (next r (.rd i)).waiting = nextW r.waiting i := by
  cases i <;> rfl

theorem next_rd_rib (r : R) (i : RIn) : (next r (.rd i)).rib = r.rib := by cases i <;> rfl
theorem next_rd_deferred (r : R) (i : RIn) : (next r (.rd i)).deferred = r.deferred := by cases i <;> rfl
theorem next_rd_released (r : R) (i : RIn) : (next r (.rd i)).released = r.released := by cases i <;> rfl

theorem nextW_sub {w : List (Peer × Fam)} {i : RIn} {x : Peer × Fam} (h : x ∈ nextW w i) : x ∈ w := by
  cases i <;> simp [nextW] at h <;> exact h.1

theorem nextW_congr {w w' : List (Peer × Fam)} (h : ∀ x, x ∈ w ↔ x ∈ w') (i : RIn) (x : Peer × Fam) :
    x ∈ nextW w i ↔ x ∈ nextW w' i := by
  cases i <;> simp [nextW, h]

theorem holdsP_iff_holds {f : Fam} {pend : Pending} {w : List (Peer × Fam)}
    (h : ∀ x, x ∈ pairs pend ↔ x ∈ w) : holdsP f pend ↔ holds f w = true := by
  rw [holds_iff]; simp only [holdsP, h]

theorem eq_nil_of_forall_not_mem {α} {l : List α} (h : ∀ x, x ∉ l) : l = [] := by
  cases l with
  | nil => rfl
  | cons a l => exact absurd (List.mem_cons_self) (h a)

theorem mem_flagsOf {t : Tabs} {u : List Fam} {f : Fam} :
    f ∈ flagsOf t u ↔ (f ∈ u ∧ (t f).deferring = true) := by
  simp [flagsOf]

/-- Releasing a duplicate-free list of families: what is announced for one of them. -/
theorem filter_flatMap_announce {fs : List Fam} (hn : fs.Nodup) (t : Tabs) (f : Fam) :
    (fs.flatMap fun g => announce g (t g).paths).filter (·.fam = f) =
      if f ∈ fs then announce f (t f).paths else [] := by
  induction fs with
  | nil => simp
  | cons g fs ih =>
      rw [List.nodup_cons] at hn
      simp only [List.flatMap_cons, List.filter_append, ih hn.2]
      have hself : ∀ g, (announce g (t g).paths).filter (·.fam = f) =
          if g = f then announce g (t g).paths else [] := by
        intro g
        by_cases h : g = f
        · subst h
          simp only [↓reduceIte]
          apply List.filter_eq_self.mpr
          intro c hc
          simp only [announce, List.mem_map] at hc
          obtain ⟨n, _, rfl⟩ := hc
          simp
        · simp only [h, ↓reduceIte]
          apply List.filter_eq_nil_iff.mpr
          intro c hc
          simp only [announce, List.mem_map] at hc
          obtain ⟨n, _, rfl⟩ := hc
          simpa using h
      rw [hself g]
      by_cases h : g = f
      · subst h
        simp [hn.1]
      · have : f ≠ g := fun h' => h h'.symm
        simp [h, this]

theorem mem_flatMap_announce_fam {fs : List Fam} {t : Tabs} {c : Change}
    (h : c ∈ fs.flatMap fun g => announce g (t g).paths) : c.fam ∈ fs := by
  simp only [List.mem_flatMap, announce, List.mem_map] at h
  obtain ⟨g, hg, n, _, rfl⟩ := h
  exact hg

/-- Appending released families that are not held leaves `held` as it was elsewhere. -/
theorem held_after {r1 : R} {rn : List Fam} (f : Fam) :
    held { r1 with released := r1.released ++ rn } f = (held r1 f && !rn.contains f) := by
  simp only [held, List.contains_append]
  cases r1.deferred.contains f <;> cases r1.released.contains f <;> cases rn.contains f <;> rfl

/-- the reference state after a checked step -/
def advance (cfg : Cfg) (r : R) (e : Ev) : R :=
  let r1 := next r e
  { r1 with released := r1.released ++ releasedNow r r1, timer := timerAfter cfg r r1 }

theorem held_advance (cfg : Cfg) (r : R) (e : Ev) (f : Fam) :
    held (advance cfg r e) f = (held (next r e) f && !(releasedNow r (next r e)).contains f) := by
  simp only [held, advance, List.contains_append]
  cases (next r e).deferred.contains f <;> cases (next r e).released.contains f <;>
    cases (releasedNow r (next r e)).contains f <;> rfl

theorem next_timer (r : R) (e : Ev) : (next r e).timer = r.timer := by
  cases e with
  | rd i => cases i <;> rfl
  | ins p f n => simp only [next]; split <;> rfl
  | rm p f n => rfl
  | drop p f => rfl

/-- the reference `started` flag: set by the first helper that establishes and is still waited for -/
theorem next_started (r : R) (i : RIn) :
    (next r (.rd i)).started = true ↔
      (r.started = true ∨ ∃ p fams, i = .est p fams ∧ ∃ f, (p, f) ∈ (next r (.rd i)).waiting) := by
  cases i with
  | est p fams =>
      simp only [next, Bool.or_eq_true, List.any_eq_true, decide_eq_true_eq, RIn.est.injEq]
      constructor
      · rintro (h | ⟨e, he, rfl⟩)
        · exact Or.inl h
        · exact Or.inr ⟨e.1, fams, ⟨rfl, rfl⟩, e.2, he⟩
      · rintro (h | ⟨q, fams', ⟨rfl, rfl⟩, f, hf⟩)
        · exact Or.inl h
        · exact Or.inr ⟨(_, f), hf, rfl⟩
  | eor p f => simp [next]
  | wd p => simp [next]
  | timer => simp [next]

theorem sdt_eq (d : Option Nat) : selectionDeferralTime d = effDur d := by
  cases d with
  | none => rfl
  | some n => cases n <;> rfl

theorem waiting_ne_nil {cfg : Cfg} {s : St} {r : R} (hr : Rel cfg s r) {m : RInner} (hm : s.sd = some m) :
    r.waiting ≠ [] := by
  obtain ⟨_, hw, hne, hp, _⟩ := hr.sd_some m hm
  intro h0
  apply hne
  apply pend_nil_of_pairs_nil hw
  apply eq_nil_of_forall_not_mem
  intro x hx
  have := (hp x).mp hx
  rw [h0] at this; simp at this

theorem inputOk_of_wf {cfg : Cfg} {s : St} {r : R} (hr : Rel cfg s r) {m : RInner} (hm : s.sd = some m)
    {i : RIn} (hwf : wf cfg r (.rd i) = true) : InputOk m i := by
  intro pend dur hma
  obtain ⟨_, hw, _, hp, hst⟩ := hr.sd_some m hm
  have hwne := waiting_ne_nil hr hm
  have hns : r.started = false := by
    cases h : r.started with
    | false => rfl
    | true => have := hst.mp h; simp [hma, isDeferring] at this
  refine ⟨?_, ?_⟩
  · rintro rfl
    have hie : r.waiting.isEmpty = false := by
      cases h : r.waiting with
      | nil => exact absurd h hwne
      | cons a l => rfl
    simp [wf, hns, hie] at hwf
  · rintro p f rfl
    cases hl : lookup p pend with
    | none => rfl
    | some set =>
        exfalso
        subst hma
        have hset := hw.sets _ (mem_of_lookup_some hl)
        have htr : tracked r p = true := by
          cases hs : set with
          | nil => exact absurd hs hset.1
          | cons g rest =>
              have : (p, g) ∈ pairs pend := (mem_pairs_self hw hl).mpr (by simp [hs])
              exact tracked_iff.mpr ⟨g, (hp _).mp this⟩
        simp only [wf, htr, Bool.not_true, Bool.false_or] at hwf
        cases hu : upFams r p with
        | none => simp [hu] at hwf
        | some fs =>
            simp only [upFams, Option.map_eq_some_iff] at hu
            obtain ⟨e, he, rfl⟩ := hu
            have hmem := List.mem_of_find?_eq_some he
            have hpe : e.1 = p := by simpa using List.find?_some he
            have hnt := hr.up_inv hns e hmem
            rw [hpe, htr] at hnt; cases hnt

theorem tagOf_ne_absent (m : RInner) : tagOf m ≠ .absent := by cases m <;> simp [tagOf]

theorem step_rd {cfg : Cfg} {s : St} {r : R} (hr : Rel cfg s r) (i : RIn) (hwf : wf cfg r (.rd i) = true) :
    stepOk cfg (some (.rd i)) r (next r (.rd i)) (step s (.rd i)).2 = .ok () ∧
    Rel cfg (step s (.rd i)).1 (advance cfg r (.rd i)) := by
  have hw1 : (next r (.rd i)).waiting = nextW r.waiting i := next_waiting r i
  cases hsd : s.sd with
  | none =>
      have hw0 := hr.sd_none hsd
      have hw' : (next r (.rd i)).waiting = [] := by rw [hw1, hw0]; cases i <;> simp [nextW]
      have hnoheld : ∀ f, held r f = false := by
        intro f
        cases h : held r f with
        | false => rfl
        | true => have := (hr.held_iff f).mp h; simp [hw0, holds] at this
      have hrn : releasedNow r (next r (.rd i)) = [] :=
        eq_nil_of_forall_not_mem fun f hf => by simpa [hnoheld f] using (mem_releasedNow.mp hf).1
      have hrt : r.timer = false := by
        cases h : r.timer with
        | false => rfl
        | true => exact absurd hw0 (hr.timer_wait h)
      have hst' : (next r (.rd i)).started = r.started := by
        rw [Bool.eq_iff_iff, next_started]
        constructor
        · rintro (h | ⟨p, fams, _, f, hf⟩)
          · exact h
          · rw [hw'] at hf; simp at hf
        · exact Or.inl
      have htA : timerAfter cfg r (next r (.rd i)) = false := by simp [timerAfter, hw']
      have hstep : step s (.rd i) =
          (s, { outs := [], changes := [], tag := .absent, pending := [], installed := false,
                flags := flagsOf s.tabs s.univ, timer := s.timer }) := by
        simp [step, hsd, obsOf]
      rw [hstep]
      refine ⟨stepOk_ok (by simp) (fun f _ h => by simp [hnoheld f] at h) (by simp [hrn]) (by simp [hrn])
        (fun f _ _ => ⟨by simp [mentions], by simp⟩) (by simp) (by simp) (fun _ => by simp) (by simp)
        (fun h => absurd hw' h) (by simp [hst']) (by simp only; rw [htA, hr.timer, hrt]) (fun h => by cases h), ?_⟩
      have hadv : advance cfg r (.rd i) = next r (.rd i) := by
        have : (next r (.rd i)).timer = false := by rw [next_timer, hrt]
        simp [advance, hrn, htA, ← this]
      rw [hadv]
      have hheld' : ∀ f, held (next r (.rd i)) f = held r f := by
        intro f; simp [held, next_rd_deferred, next_rd_released]
      refine ⟨fun m hm => by simp [hsd] at hm, fun _ => hw', fun f => by rw [hheld']; exact hr.flags f,
        fun f n p => by rw [next_rd_rib]; exact hr.rib f n p, fun f => ?_, fun _ e he => ?_, fun f hf => ?_,
        (by rw [next_timer]; exact hr.timer), (fun h => by rw [next_timer, hrt] at h; cases h),
        (fun pend d h => by simp [hsd] at h)⟩
      · rw [hheld', hnoheld f, hw']; simp [holds]
      · simp [tracked, hw']
      · rw [next_rd_deferred] at hf; exact hr.univ f hf
  | some m =>
      obtain ⟨hmc, hw, hne, hp, hst⟩ := hr.sd_some m hsd
      have hi := inputOk_of_wf hr hsd hwf
      have sp := process_spec m i hw (fun _ => hne) hi
      have htag0 := process_tag m i hw
      have hpst := process_startTimer m i
      obtain ⟨cs, tail, hsh⟩ := sp.shape
      generalize hm' : (process m i).1 = m' at sp htag0 hpst
      generalize houts : (process m i).2 = outs at sp hsh hpst
      have ha := applyOuts_spec { s with sd := some m' } outs
      obtain ⟨e1, e2, e3⟩ := endDeferralFamilies_spec (relFams outs) s.tabs
      generalize hA : applyOuts { s with sd := some m' } outs = A at ha
      have hstep : step s (.rd i) = (A.1, obsOf A.1 outs A.2) := by
        simp [step, hsd, hm', houts, hA]
      rw [hstep]
      obtain ⟨ha1, ha2, ha3, ha4, ha5⟩ := ha
      simp only at ha1 ha2 ha3 ha4 ha5
      -- pairs of the new machine vs. the new waiting list
      have hp' : ∀ x, x ∈ pairs (pendingOf m') ↔ x ∈ (next r (.rd i)).waiting := by
        intro x; rw [sp.pairs, hw1]; exact nextW_congr hp i x
      have hsub : ∀ x, x ∈ (next r (.rd i)).waiting → x ∈ r.waiting := by
        intro x hx; rw [hw1] at hx; exact nextW_sub hx
      -- the machine is done exactly when nothing is waited for any more
      have hdone : m' = .completed ↔ (next r (.rd i)).waiting = [] := by
        constructor
        · intro h
          apply eq_nil_of_forall_not_mem
          intro x hx
          have := (hp' x).mpr hx
          simp [h, pendingOf, pairs] at this
        · intro hwn
          have hpn : pendingOf m' = [] :=
            pend_nil_of_pairs_nil sp.wf (eq_nil_of_forall_not_mem fun x hx => by
              have := (hp' x).mp hx; rw [hwn] at this; simp at this)
          cases hm'c : m' with
          | completed => rfl
          | awaiting q d => exact absurd hpn (sp.nonempty (by simp [hm'c]))
          | deferring q => exact absurd hpn (sp.nonempty (by simp [hm'c]))
      have hendc : (endRemaining outs).isSome = true ↔ m' = .completed := sp.ended hmc
      -- what is observed of the machine after the glue ran
      have hobs : ∃ T P I, obsOf A.1 outs A.2 =
            { outs := outs, changes := A.2, tag := T, pending := P, installed := I,
              flags := flagsOf A.1.tabs s.univ, timer := A.1.timer } ∧
            (m' = .completed → T = .absent ∧ P = [] ∧ I = false) ∧
            (m' ≠ .completed → T = tagOf m' ∧ P = pendingOf m' ∧ I = true) := by
        by_cases hend : (endRemaining outs).isSome = true
        · have hsdA : A.1.sd = none := by rw [ha3]; simp [hend]
          exact ⟨.absent, [], false, by simp [obsOf, hsdA, ha4], fun _ => ⟨rfl, rfl, rfl⟩,
            fun h => absurd (hendc.mp hend) h⟩
        · have hsdA : A.1.sd = some m' := by rw [ha3]; simp [hend]
          exact ⟨tagOf m', pendingOf m', true, by simp [obsOf, hsdA, ha4],
            fun h => absurd (hendc.mpr h) hend, fun _ => ⟨rfl, rfl, rfl⟩⟩
      obtain ⟨T, P, I, hobsEq, hoC, hoN⟩ := hobs
      rw [hobsEq]
      -- released families
      have hrel : ∀ f, f ∈ relFams outs ↔ f ∈ releasedNow r (next r (.rd i)) := by
        intro f
        rw [sp.rel_mem, mem_releasedNow, holdsP_iff_holds hp, holdsP_iff_holds hp', hr.held_iff]
        simp
      have hfl : ∀ f, (A.1.tabs f).deferring = (if f ∈ relFams outs then false else held r f) := by
        intro f; rw [ha1, e2, hr.flags]
      have hpa : ∀ f, (A.1.tabs f).paths = (s.tabs f).paths := by
        intro f; rw [ha1, e1]
      have hch : A.2 = (relFams outs).flatMap fun g => announce g (s.tabs g).paths := by rw [ha2, e3]
      -- the `started` flag of the reference follows the machine leaving `AwaitingStart`
      have hstd : (next r (.rd i)).started = true ↔ (r.started = true ∨ isDeferring m' = true) := by
        rw [next_started]
        by_cases hc : m' = .completed
        · have hwn := hdone.mp hc
          constructor
          · rintro (h | ⟨p, fams, _, f, hf⟩)
            · exact Or.inl h
            · rw [hwn] at hf; simp at hf
          · rintro (h | h)
            · exact Or.inl h
            · simp [hc, isDeferring] at h
        · have htag := htag0 hc
          constructor
          · rintro (h | ⟨p, fams, rfl, f, hf⟩)
            · exact Or.inl h
            · exact Or.inr (htag.mpr (Or.inr ⟨p, fams, rfl, f, (hp' _).mpr hf⟩))
          · rintro (h | h)
            · exact Or.inl h
            · rcases htag.mp h with h | ⟨p, fams, rfl, f, hf⟩
              · exact Or.inl (hst.mpr h)
              · exact Or.inr ⟨p, fams, rfl, f, (hp' _).mp hf⟩
      have hflt : outs.filter isStartTimer =
          (if (!r.started && (next r (.rd i)).started) = true then [.startTimer (effDur cfg.dur)] else []) := by
        rw [hpst]
        cases m with
        | completed => exact absurd rfl hmc
        | deferring pd =>
            have : r.started = true := hst.mpr rfl
            simp [this]
        | awaiting pd d =>
            have hd := hr.dur pd d hsd
            have hns : r.started = false := by
              cases h : r.started with
              | false => rfl
              | true => have := hst.mp h; simp [isDeferring] at this
            have : (next r (.rd i)).started = isDeferring m' := by
              rw [Bool.eq_iff_iff, hstd]; simp [hns]
            simp [hns, this, hd]
      have htm : A.1.timer = timerAfter cfg r (next r (.rd i)) := by
        rw [ha5, hr.timer]
        by_cases hsn : (!r.started && (next r (.rd i)).started) = true
        · rw [if_pos hsn] at hflt
          rw [startsTimer_iff _ _ hflt]
          have hdef : isDeferring m' = true := by
            simp only [Bool.and_eq_true, Bool.not_eq_eq_eq_not, Bool.not_true] at hsn
            rcases hstd.mp hsn.2 with h | h
            · rw [hsn.1] at h; cases h
            · exact h
          have hnc : m' ≠ .completed := by rintro rfl; simp [isDeferring] at hdef
          have hend : (endRemaining outs).isSome = false := by
            cases h : (endRemaining outs).isSome with
            | false => rfl
            | true => exact absurd (hendc.mp h) hnc
          have hwne : (next r (.rd i)).waiting.isEmpty = false := by
            cases h : (next r (.rd i)).waiting with
            | nil => exact absurd (hdone.mpr h) hnc
            | cons a l => rfl
          simp only [Bool.and_eq_true, Bool.not_eq_eq_eq_not, Bool.not_true] at hsn
          simp only [timerAfter, hwne, hsn.1, hsn.2, hend]
          cases (effDur cfg.dur).isSome <;> simp
        · rw [if_neg hsn] at hflt
          rw [startsTimer_false _ hflt]
          have hsn' : (!r.started && (next r (.rd i)).started) = false := by simpa using hsn
          by_cases hc : m' = .completed
          · have hend := hendc.mpr hc
            simp [timerAfter, hdone.mp hc, hend]
          · have hend : (endRemaining outs).isSome = false := by
              cases h : (endRemaining outs).isSome with
              | false => rfl
              | true => exact absurd (hendc.mp h) hc
            have hwne : (next r (.rd i)).waiting.isEmpty = false := by
              cases h : (next r (.rd i)).waiting with
              | nil => exact absurd (hdone.mpr h) hc
              | cons a l => rfl
            simp only [timerAfter, hwne, hend, Bool.false_eq_true, ↓reduceIte, Bool.not_false, Bool.true_and]
            rw [hsn']; simp
      refine ⟨stepOk_ok ?_ ?_ ?_ ?_ ?_ ?_ ?_ ?_ ?_ ?_ hflt htm (fun h => by cases h), ?_⟩
      · intro c hc _
        simp only at hc; rw [hch] at hc
        exact (hrel _).mp (mem_flatMap_announce_fam hc)
      · intro f hf hh hnr
        have hnr' : f ∉ relFams outs := fun h => hnr ((hrel f).mp h)
        refine ⟨mem_flagsOf.mpr ⟨hr.univ f hf, by rw [hfl, if_neg hnr', hh]⟩, ?_⟩
        cases hmn : mentions outs f with
        | false => rfl
        | true => exact absurd ((hsh.mentions f).mp hmn) hnr'
      · intro f hf hfl'
        have := (mem_flagsOf.mp hfl').2
        rw [hfl, if_pos ((hrel f).mpr hf)] at this; cases this
      · intro f hf
        apply exactRelease_announce (paths := (s.tabs f).paths)
        · intro n p; rw [next_rd_rib]; exact hr.rib f n p
        · simp only; rw [hch, filter_flatMap_announce sp.rel_nodup, if_pos ((hrel f).mpr hf)]
      · intro f hf hfr
        have hnh : held r f = false := by simp [held, hfr]
        have hnr' : f ∉ relFams outs := fun h => by
          have := (mem_releasedNow.mp ((hrel f).mp h)).1; rw [hnh] at this; cases this
        refine ⟨?_, fun _ c hc => ?_⟩
        · cases hmn : mentions outs f with
          | false => rfl
          | true => exact absurd ((hsh.mentions f).mp hmn) hnr'
        · simp only at hc; rw [hch] at hc
          intro hcf; exact hnr' (hcf ▸ mem_flatMap_announce_fam hc)
      · intro e he
        simp only at he
        by_cases hc : m' = .completed
        · rw [(hoC hc).2.1] at he; simp at he
        · rw [(hoN hc).2.1] at he
          have hset := sp.wf.sets e he
          refine ⟨?_, hset.1⟩
          cases hs : e.2 with
          | nil => exact absurd hs hset.1
          | cons g rest =>
              exact tracked_iff.mpr ⟨g, (hp' _).mp (mem_pairs.mpr ⟨e.2, he, by simp [hs]⟩)⟩
      · intro ht
        simp only at ht ⊢
        by_cases hc : m' = .completed
        · rw [(hoC hc).1] at ht; simp at ht
        · rw [(hoN hc).2.1]; exact sp.nonempty hc
      · intro hwn
        have hc := hdone.mpr hwn
        obtain ⟨a, _, c⟩ := hoC hc
        simp only
        exact ⟨by simp [a], by simp [a], c⟩
      · simp only
        by_cases hc : m' = .completed
        · rw [(hoC hc).1]; simp
        · rw [(hoN hc).1]; cases m' <;> simp_all [tagOf]
      · intro hwn
        have hc : m' ≠ .completed := fun h => hwn (hdone.mp h)
        obtain ⟨a, _, c⟩ := hoN hc
        simp only
        exact ⟨by rw [a]; exact tagOf_ne_absent m', c⟩
      -- the relation afterwards
      · have hadvw : (advance cfg r (.rd i)).waiting = (next r (.rd i)).waiting := rfl
        have hheld : ∀ f, held (advance cfg r (.rd i)) f = (held r f && !(relFams outs).contains f) := by
          intro f
          have h1 : held (advance cfg r (.rd i)) f =
              (held (next r (.rd i)) f && !(releasedNow r (next r (.rd i))).contains f) := by
            simp only [held, advance, List.contains_append]
            cases (next r (.rd i)).deferred.contains f <;> cases (next r (.rd i)).released.contains f <;>
              cases (releasedNow r (next r (.rd i))).contains f <;> rfl
          have h2 : held (next r (.rd i)) f = held r f := by
            simp [held, next_rd_deferred, next_rd_released]
          rw [h1, h2]
          by_cases hf : f ∈ relFams outs
          · simp [hf, (hrel f).mp hf]
          · have : f ∉ releasedNow r (next r (.rd i)) := fun h => hf ((hrel f).mpr h)
            simp [hf, this]
        refine ⟨?_, ?_, ?_, ?_, ?_, ?_, ?_, htm, ?_, ?_⟩
        · intro m2 hm2
          rw [ha3] at hm2
          by_cases hend : (endRemaining outs).isSome = true
          · simp [hend] at hm2
          · simp only [hend, Bool.false_eq_true, ↓reduceIte, Option.some.injEq] at hm2
            subst hm2
            have hnc : m' ≠ .completed := fun h => hend (hendc.mpr h)
            refine ⟨hnc, sp.wf, sp.nonempty hnc, fun x => by rw [hadvw]; exact hp' x, ?_⟩
            show (next r (.rd i)).started = true ↔ _
            rw [hstd]
            constructor
            · rintro (h | h)
              · exact (htag0 hnc).mpr (Or.inl (hst.mp h))
              · exact h
            · exact Or.inr
        · intro hnone
          rw [ha3] at hnone
          by_cases hend : (endRemaining outs).isSome = true
          · rw [hadvw]; exact hdone.mp (hendc.mp hend)
          · simp [hend] at hnone
        · intro f; rw [hfl, hheld]
          by_cases hf : f ∈ relFams outs <;> simp [hf]
        · intro f n p
          rw [hpa]
          show _ ↔ (f, n, p) ∈ (next r (.rd i)).rib
          rw [next_rd_rib]; exact hr.rib f n p
        · intro f
          rw [hheld, hadvw]
          by_cases hf : f ∈ relFams outs
          · have := mem_releasedNow.mp ((hrel f).mp hf)
            simp [hf, this.2]
          · have hcf : (relFams outs).contains f = false := by simpa using hf
            rw [hcf]
            simp only [Bool.not_false, Bool.and_true]
            constructor
            · intro hh
              cases hh2 : holds f (next r (.rd i)).waiting with
              | true => rfl
              | false => exact absurd ((hrel f).mpr (mem_releasedNow.mpr ⟨hh, hh2⟩)) hf
            · intro hh
              obtain ⟨p, hp2⟩ := holds_iff.mp hh
              exact (hr.held_iff f).mpr (holds_iff.mpr ⟨p, hsub _ hp2⟩)
        · intro hns e he
          have htr : ∀ q, tracked r q = false → tracked (advance cfg r (.rd i)) q = false := by
            intro q hq
            cases h : tracked (advance cfg r (.rd i)) q with
            | false => rfl
            | true =>
                obtain ⟨f, hf⟩ := tracked_iff.mp h
                have : tracked r q = true := tracked_iff.mpr ⟨f, hsub _ hf⟩
                rw [hq] at this; cases this
          cases i with
          | est p fams =>
              simp only [advance, next, Bool.or_eq_false_iff] at hns he
              simp only [List.mem_cons, List.mem_filter] at he
              rcases he with rfl | ⟨he, _⟩
              · simpa [advance, next, tracked] using hns.2
              · exact htr _ (hr.up_inv hns.1 e he)
          | eor p f => exact htr _ (hr.up_inv (by simpa [advance, next] using hns) e (by simpa [advance, next] using he))
          | wd p =>
              simp only [advance, next, List.mem_filter] at he
              exact htr _ (hr.up_inv (by simpa [advance, next] using hns) e he.1)
          | timer => exact htr _ (hr.up_inv (by simpa [advance, next] using hns) e (by simpa [advance, next] using he))
        · intro f hf
          rw [ha4]
          exact hr.univ f (by simpa [advance, next_rd_deferred] using hf)
        · intro h
          have h' : timerAfter cfg r (next r (.rd i)) = true := h
          rw [hadvw]
          intro hwn
          simp [timerAfter, hwn] at h'
        · intro pend d hsd2
          rw [ha3] at hsd2
          by_cases hend : (endRemaining outs).isSome = true
          · simp [hend] at hsd2
          · simp only [hend, Bool.false_eq_true, ↓reduceIte, Option.some.injEq] at hsd2
            -- an `AwaitingStart` result can only come from `AwaitingStart`, with the same duration
            have hnd : isDeferring m' = false := by rw [hsd2]; rfl
            have hnc : m' ≠ .completed := by rw [hsd2]; simp
            have hmd : isDeferring m = false := by
              cases h : isDeferring m with
              | false => rfl
              | true => have := (htag0 hnc).mpr (Or.inl h); rw [hnd] at this; cases this
            cases m with
            | completed => exact absurd rfl hmc
            | deferring pd => simp [isDeferring] at hmd
            | awaiting pd d0 =>
                have hd0 := hr.dur pd d0 hsd
                have := process_awaiting_dur pd d0 i
                rw [hm', hsd2] at this
                rw [← hd0]; exact this pend d rfl

/-- RIB mutators: what the property needs from `insert_route` / `remove_route` / `drop_families` -/
structure TabOp (t : Tabs) (rib : List (Fam × Nat × Peer)) (t' : Tabs) (rib' : List (Fam × Nat × Peer))
    (f : Fam) (changes : List Change) : Prop where
  flag : ∀ g, (t' g).deferring = (t g).deferring
  rib : (∀ g n p, (n, p) ∈ (t g).paths ↔ (g, n, p) ∈ rib) → ∀ g n p, (n, p) ∈ (t' g).paths ↔ (g, n, p) ∈ rib'
  silent : (t f).deferring = true → changes = []
  fam : ∀ c ∈ changes, c.fam = f

theorem insert_op (t : Tabs) (rib : List (Fam × Nat × Peer)) (p : Peer) (f : Fam) (n : Nat)
    (hrib : ∀ g n p, (n, p) ∈ (t g).paths ↔ (g, n, p) ∈ rib) :
    TabOp t rib (insert t p f n).1 (if rib.contains (f, n, p) then rib else rib ++ [(f, n, p)]) f
      (insert t p f n).2 := by
  refine ⟨fun g => ?_, fun _ g m q => ?_, fun h => by simp [insert, h], fun c hc' => ?_⟩
  · by_cases h : g = f
    · subst h; simp [insert]
    · simp [insert, set_other _ _ h]
  · by_cases hcc : (f, n, p) ∈ rib
    · have hm : (n, p) ∈ (t f).paths := (hrib f n p).mpr hcc
      by_cases h : g = f
      · subst h; simp [insert, hm, hcc, hrib]
      · simp [insert, set_other _ _ h, hcc, hrib]
    · have hm : (n, p) ∉ (t f).paths := fun h => hcc ((hrib f n p).mp h)
      by_cases h : g = f
      · subst h; simp [insert, hm, hcc, hrib]
      · simp only [insert, set_other _ _ h, hrib, List.contains_iff_mem, hcc, ↓reduceIte, List.mem_append,
          List.mem_singleton, Prod.mk.injEq]
        constructor
        · exact Or.inl
        · rintro (h' | ⟨h', _⟩)
          · exact h'
          · exact absurd h' h
  · simp only [insert] at hc'
    by_cases hd : (t f).deferring = true
    · simp [hd] at hc'
    · simp only [hd, Bool.false_eq_true, ↓reduceIte, List.mem_singleton] at hc'
      subst hc'; rfl

theorem remove_op (t : Tabs) (rib : List (Fam × Nat × Peer)) (p : Peer) (f : Fam) (n : Nat)
    (hrib : ∀ g n p, (n, p) ∈ (t g).paths ↔ (g, n, p) ∈ rib) :
    TabOp t rib (remove t p f n).1 (rib.filter (· ≠ (f, n, p))) f (remove t p f n).2 := by
  by_cases hm : (n, p) ∈ (t f).paths
  · refine ⟨fun g => ?_, fun _ g m q => ?_, fun h => by simp [remove, hm, h], fun c hc' => ?_⟩
    · by_cases h : g = f
      · subst h; simp [remove, hm]
      · simp [remove, hm, set_other _ _ h]
    · by_cases h : g = f
      · subst h
        simp [remove, hm, hrib]
      · simp only [remove, List.contains_iff_mem, hm, ↓reduceIte, set_other _ _ h, hrib, List.mem_filter, ne_eq,
          decide_not, Bool.not_eq_eq_eq_not, Bool.not_true, decide_eq_false_iff_not, Prod.mk.injEq, not_and]
        constructor
        · intro h'; exact ⟨h', fun hh => absurd hh h⟩
        · exact fun h' => h'.1
    · simp only [remove, List.contains_iff_mem, hm, ↓reduceIte] at hc'
      by_cases hd : (t f).deferring = true
      · simp [hd] at hc'
      · simp only [hd, Bool.false_eq_true, ↓reduceIte, List.mem_singleton] at hc'
        subst hc'; rfl
  · have hnm : (f, n, p) ∉ rib := fun h => hm ((hrib f n p).mpr h)
    refine ⟨fun g => by simp [remove, hm], fun _ g m q => ?_, fun _ => by simp [remove, hm],
      fun c hc' => by simp [remove, hm] at hc'⟩
    simp only [remove, List.contains_iff_mem, hm, ↓reduceIte, hrib, List.mem_filter, ne_eq, decide_not,
      Bool.not_eq_eq_eq_not, Bool.not_true, decide_eq_false_iff_not]
    constructor
    · intro h; exact ⟨h, fun he => hnm (he ▸ h)⟩
    · exact fun h => h.1

theorem drop_op (t : Tabs) (rib : List (Fam × Nat × Peer)) (p : Peer) (f : Fam)
    (hrib : ∀ g n p, (n, p) ∈ (t g).paths ↔ (g, n, p) ∈ rib) :
    TabOp t rib (dropPeer t p f).1 (rib.filter (fun e => !(e.1 = f && e.2.2 = p))) f (dropPeer t p f).2 := by
  refine ⟨fun g => ?_, fun _ g m q => ?_, fun h => by simp [dropPeer, h], fun c hc' => ?_⟩
  · by_cases h : g = f
    · subst h; simp [dropPeer]
    · simp [dropPeer, set_other _ _ h]
  · by_cases h : g = f
    · subst h
      simp [dropPeer, hrib]
    · simp [dropPeer, set_other _ _ h, hrib, h]
  · simp only [dropPeer] at hc'
    by_cases hd : (t f).deferring = true
    · simp [hd] at hc'
    · simp only [hd, Bool.false_eq_true, ↓reduceIte, List.mem_map] at hc'
      obtain ⟨n, _, rfl⟩ := hc'; rfl

/-- a RIB mutation is accepted by the checker and keeps the relation -/
theorem step_tab {cfg : Cfg} {s : St} {r : R} (hr : Rel cfg s r) (e : Ev) (f : Fam) (t' : Tabs)
    (changes : List Change) (hne : isRd e = false)
    (hw : (next r e).waiting = r.waiting) (hd : (next r e).deferred = r.deferred)
    (hrl : (next r e).released = r.released) (hs : (next r e).started = r.started)
    (hu : (next r e).up = r.up)
    (hop : TabOp s.tabs r.rib t' (next r e).rib f changes) :
    let o : Obs := { outs := [], changes := changes,
                     tag := match s.sd with | some m => tagOf m | none => .absent,
                     pending := match s.sd with | some m => pendingOf m | none => [],
                     installed := s.sd.isSome, flags := flagsOf t' s.univ, timer := s.timer }
    stepOk cfg (some e) r (next r e) o = .ok () ∧ Rel cfg { s with tabs := t' } (advance cfg r e) := by
  intro o
  have ht : (next r e).timer = r.timer := next_timer r e
  have hnorel : releasedNow r (next r e) = [] := by
    apply eq_nil_of_forall_not_mem
    intro g hg
    obtain ⟨h1, h2⟩ := mem_releasedNow.mp hg
    rw [hw, (hr.held_iff g).mp h1] at h2; cases h2
  have htA : timerAfter cfg r (next r e) = r.timer := by
    simp only [timerAfter, hw, hs]
    cases h : r.timer with
    | false => cases r.started <;> simp
    | true =>
        have := hr.timer_wait h
        cases hwl : r.waiting with
        | nil => exact absurd hwl this
        | cons a l => simp
  have hadv : advance cfg r e = next r e := by simp [advance, hnorel, htA, ← ht]
  have hheld : ∀ g, held (next r e) g = held r g := by intro g; simp [held, hd, hrl]
  have htr : ∀ q, tracked (next r e) q = tracked r q := by intro q; simp [tracked, hw]
  refine ⟨stepOk_ok ?_ ?_ (by simp [hnorel]) (by simp [hnorel]) ?_ ?_ ?_ ?_ ?_ ?_ ?_ ?_ (fun h => by cases h), ?_⟩
  · intro c hc hh
    have hcf := hop.fam c hc
    have : (s.tabs f).deferring = true := by rw [hr.flags, ← hcf]; exact hh
    have := hop.silent this
    simp only [o] at hc; rw [this] at hc; simp at hc
  · intro g hg hh _
    exact ⟨mem_flagsOf.mpr ⟨hr.univ g hg, by rw [hop.flag, hr.flags]; exact hh⟩, by simp [o, mentions]⟩
  · intro g _ _
    refine ⟨by simp [o, mentions], fun h => ?_⟩
    simp [hne] at h
  · intro x hx
    cases hsd : s.sd with
    | none => simp [o, hsd] at hx
    | some m =>
        obtain ⟨_, hwf, _, hp, _⟩ := hr.sd_some m hsd
        simp only [o, hsd] at hx
        have hset := hwf.sets x hx
        refine ⟨?_, hset.1⟩
        rw [htr]
        cases hs' : x.2 with
        | nil => exact absurd hs' hset.1
        | cons g rest =>
            exact tracked_iff.mpr ⟨g, (hp _).mp (mem_pairs.mpr ⟨x.2, hx, by simp [hs']⟩)⟩
  · intro ht'
    cases hsd : s.sd with
    | none => simp [o, hsd] at ht'
    | some m => obtain ⟨_, _, hne', _, _⟩ := hr.sd_some m hsd; simpa [o, hsd] using hne'
  · intro hwn
    rw [hw] at hwn
    cases hsd : s.sd with
    | none => simp [o, hsd]
    | some m => exact absurd hwn (waiting_ne_nil hr hsd)
  · cases hsd : s.sd with
    | none => simp [o, hsd]
    | some m =>
        obtain ⟨hmc, _⟩ := hr.sd_some m hsd
        simp only [o, hsd]
        cases m <;> simp_all [tagOf]
  · intro hwn
    rw [hw] at hwn
    cases hsd : s.sd with
    | none => exact absurd (hr.sd_none hsd) hwn
    | some m => exact ⟨by simp only [o, hsd]; exact tagOf_ne_absent m, by simp [o, hsd]⟩
  · simp only [o, hs]
    cases r.started <;> simp
  · simp only [o]; rw [htA]; exact hr.timer
  · rw [hadv]
    refine ⟨fun m hm => ?_, fun hn => by rw [hw]; exact hr.sd_none hn, fun g => ?_, hop.rib hr.rib, fun g => ?_,
      fun hns x hx => ?_, fun g hg => hr.univ g (hd ▸ hg), (by rw [ht]; exact hr.timer),
      (fun h => by rw [ht] at h; rw [hw]; exact hr.timer_wait h), hr.dur⟩
    · obtain ⟨a, b, c, d, e'⟩ := hr.sd_some m hm
      exact ⟨a, b, c, fun x => by rw [hw]; exact d x, by rw [hs]; exact e'⟩
    · show (t' g).deferring = _
      rw [hop.flag, hheld]; exact hr.flags g
    · rw [hheld, hw]; exact hr.held_iff g
    · rw [htr]; exact hr.up_inv (hs ▸ hns) x (hu ▸ hx)

theorem step_ok {cfg : Cfg} {s : St} {r : R} (hr : Rel cfg s r) (e : Ev) (hwf : wf cfg r e = true) :
    stepOk cfg (some e) r (next r e) (step s e).2 = .ok () ∧ Rel cfg (step s e).1 (advance cfg r e) := by
  cases e with
  | rd i => exact step_rd hr i hwf
  | ins p f n =>
      have h := step_tab hr (.ins p f n) f (insert s.tabs p f n).1 (insert s.tabs p f n).2 rfl
        (by simp only [next]; split <;> rfl) (by simp only [next]; split <;> rfl)
        (by simp only [next]; split <;> rfl) (by simp only [next]; split <;> rfl)
        (by simp only [next]; split <;> rfl)
        (by
          have := insert_op s.tabs r.rib p f n hr.rib
          simp only [next]
          by_cases hc : (f, n, p) ∈ r.rib
          · simpa [hc] using this
          · simpa [hc] using this)
      exact h
  | rm p f n =>
      exact step_tab hr (.rm p f n) f (remove s.tabs p f n).1 (remove s.tabs p f n).2 rfl rfl rfl rfl rfl rfl
        (remove_op s.tabs r.rib p f n hr.rib)
  | drop p f =>
      exact step_tab hr (.drop p f) f (dropPeer s.tabs p f).1 (dropPeer s.tabs p f).2 rfl rfl rfl rfl rfl rfl
        (drop_op s.tabs r.rib p f hr.rib)

/-! ## start-up -/

theorem helpers_eq (l : List (Peer × List Fam)) : helpers l = dedupLast l := by
  induction l with
  | nil => rfl
  | cons e rest ih => simp only [helpers, dedupLast, ih]

theorem dedupLast_sub {l : List (Peer × List Fam)} {e} (h : e ∈ dedupLast l) : e ∈ l := by
  induction l with
  | nil => simp [dedupLast] at h
  | cons a rest ih =>
      simp only [dedupLast] at h
      split at h
      · exact List.mem_cons_of_mem _ (ih h)
      · rcases List.mem_cons.mp h with rfl | h
        · simp
        · exact List.mem_cons_of_mem _ (ih h)

theorem dedupLast_keys (l : List (Peer × List Fam)) : ((dedupLast l).map (·.1)).Nodup := by
  induction l with
  | nil => simp [dedupLast]
  | cons a rest ih =>
      simp only [dedupLast]
      split
      · exact ih
      · rename_i h
        simp only [List.map_cons, List.nodup_cons, List.mem_map, not_exists, not_and]
        refine ⟨fun e he heq => h ?_, ih⟩
        simp only [List.any_eq_true, decide_eq_true_eq]
        exact ⟨e, dedupLast_sub he, heq⟩

theorem mem_mkPending {l : List (Peer × List Fam)} {x : Peer × List Fam} :
    x ∈ mkPending l ↔ ∃ e ∈ dedupLast l, (toSet e.2).isEmpty = false ∧ x = (e.1, toSet e.2) := by
  simp only [mkPending, List.mem_filterMap]
  constructor
  · rintro ⟨e, he, h⟩
    by_cases hem : (toSet e.2).isEmpty = true
    · simp [hem] at h
    · simp only [hem, Bool.false_eq_true, ↓reduceIte, Option.some.injEq] at h
      exact ⟨e, he, by simpa using hem, h.symm⟩
  · rintro ⟨e, he, hem, rfl⟩
    exact ⟨e, he, by simp [hem]⟩

theorem wfp_mkPending (l : List (Peer × List Fam)) : WFp (mkPending l) := by
  refine ⟨?_, fun x hx => ?_⟩
  · have hsub : ((mkPending l).map (·.1)).Sublist ((dedupLast l).map (·.1)) := by
      unfold mkPending
      generalize dedupLast l = d
      induction d with
      | nil => simp
      | cons a rest ih =>
          simp only [List.filterMap_cons, List.map_cons]
          by_cases h : (toSet a.2).isEmpty = true
          · simp only [h, ↓reduceIte]; exact List.Sublist.cons _ ih
          · simp only [h, Bool.false_eq_true, ↓reduceIte, List.map_cons]; exact List.Sublist.cons_cons _ ih
    exact List.Nodup.sublist hsub (dedupLast_keys l)
  · obtain ⟨e, _, hem, rfl⟩ := mem_mkPending.mp hx
    refine ⟨fun h => ?_, nodup_dedup _⟩
    simp only at h; rw [h] at hem; simp at hem

theorem mem_pairs_mkPending {l : List (Peer × List Fam)} {x : Peer × Fam} :
    x ∈ pairs (mkPending l) ↔ x ∈ (helpers l).flatMap fun e => e.2.map fun f => (e.1, f) := by
  obtain ⟨p, f⟩ := x
  rw [mem_pairs, helpers_eq]
  simp only [List.mem_flatMap, List.mem_map, Prod.mk.injEq]
  constructor
  · rintro ⟨s, hs, hf⟩
    obtain ⟨e, he, _, heq⟩ := mem_mkPending.mp hs
    simp only [Prod.mk.injEq] at heq
    obtain ⟨rfl, rfl⟩ := heq
    exact ⟨e, he, f, by simpa [toSet, mem_dedup] using hf, rfl, rfl⟩
  · rintro ⟨e, he, g, hg, rfl, rfl⟩
    refine ⟨toSet e.2, mem_mkPending.mpr ⟨e, he, ?_, rfl⟩, by simpa [toSet, mem_dedup] using hg⟩
    cases h : toSet e.2 with
    | nil => simp [toSet, dedup_eq_nil] at h; rw [h] at hg; simp at hg
    | cons a b => rfl

theorem startDeferralFamilies_spec (fs : List Fam) (t : Tabs) (g : Fam) :
    ((startDeferralFamilies fs t) g).deferring = (fs.contains g || (t g).deferring) ∧
    ((startDeferralFamilies fs t) g).paths = (t g).paths := by
  induction fs generalizing t with
  | nil => simp [startDeferralFamilies]
  | cons f fs ih =>
      have := ih (startDeferral t f)
      simp only [startDeferralFamilies, List.foldl_cons] at this ⊢
      rw [this.1, this.2]
      by_cases h : g = f
      · subst h; simp [startDeferral]
      · simp [startDeferral, set_other _ _ h, h]

theorem init_ok (cfg : Cfg) :
    stepOk cfg none {} (Spec.init cfg) (initObs cfg).2 = .ok () ∧ Rel cfg (initObs cfg).1 (Spec.init cfg) := by
  have hwf := wfp_mkPending cfg.peers
  have hp : ∀ x, x ∈ pairs (mkPending cfg.peers) ↔ x ∈ (Spec.init cfg).waiting := fun x => mem_pairs_mkPending
  have hdef : (Spec.init cfg).deferred = (Spec.init cfg).waiting.map (·.2) := rfl
  have hrel0 : (Spec.init cfg).released = [] := rfl
  have hst0 : (Spec.init cfg).started = false := rfl
  have htm0 : (Spec.init cfg).timer = false := rfl
  have hheld : ∀ f, held (Spec.init cfg) f = holds f (Spec.init cfg).waiting := by
    intro f
    rw [Bool.eq_iff_iff, holds_iff]
    have : held (Spec.init cfg) f = true ↔ f ∈ (Spec.init cfg).waiting.map (·.2) := by
      simp [held, hdef, hrel0]
    rw [this, List.mem_map]
    constructor
    · rintro ⟨e, he, rfl⟩; exact ⟨e.1, he⟩
    · rintro ⟨p, hp'⟩; exact ⟨(p, f), hp', rfl⟩
  have hnorel : releasedNow ({} : R) (Spec.init cfg) = [] := rfl
  have huniv : ∀ f ∈ (Spec.init cfg).deferred, f ∈ dedup (famUniverse ++ cfg.peers.flatMap (·.2)) := by
    intro f hf
    rw [hdef] at hf
    simp only [List.mem_map] at hf
    obtain ⟨x, hx, rfl⟩ := hf
    simp only [Spec.init, List.mem_flatMap, List.mem_map] at hx
    obtain ⟨e, he, g, hg, rfl⟩ := hx
    rw [helpers_eq] at he
    rw [mem_dedup, List.mem_append]
    exact Or.inr (List.mem_flatMap.mpr ⟨e, dedupLast_sub he, hg⟩)
  have hsn : (!({} : R).started && (Spec.init cfg).started) = false := by rw [hst0]; rfl
  have htA : timerAfter cfg {} (Spec.init cfg) = false := by
    simp only [timerAfter, hst0]
    cases (Spec.init cfg).waiting.isEmpty <;> rfl
  by_cases hem : (mkPending cfg.peers).isEmpty = true
  · have hnil := isEmpty_iff_nil.mp hem
    have hw0 : (Spec.init cfg).waiting = [] :=
      eq_nil_of_forall_not_mem fun x hx => by have := (hp x).mpr hx; simp [hnil, pairs] at this
    have hio : initObs cfg = ({ univ := dedup (famUniverse ++ cfg.peers.flatMap (·.2)) },
        { outs := [], changes := [], tag := .absent, pending := [], installed := false,
          flags := flagsOf (fun _ => {}) (dedup (famUniverse ++ cfg.peers.flatMap (·.2))), timer := false }) := by
      simp [initObs, init, new, hem, isCompleted, obsOf]
    rw [hio]
    refine ⟨stepOk_ok (by simp) (by simp [hnorel]) (by simp [hnorel]) (by simp [hnorel]) (by simp) (by simp) (by simp)
      (fun _ => by simp) (by simp) (fun h => absurd hw0 h) (by rw [hsn]; rfl) (by rw [htA])
      (fun _ f hf => by rw [hdef, hw0] at hf; simp at hf), ?_⟩
    refine ⟨fun m hm => by simp at hm, fun _ => hw0, fun f => ?_, fun f n p => by simp [Spec.init], fun f => by rw [hheld],
      fun _ e he => by simp [Spec.init] at he, huniv, htm0.symm, (fun h => by rw [htm0] at h; cases h),
      (fun pend d h => by simp at h)⟩
    rw [hheld, hw0]; rfl
  · have hne : mkPending cfg.peers ≠ [] := fun h => hem (isEmpty_iff_nil.mpr h)
    have hio : initObs cfg =
        ({ sd := some (.awaiting (mkPending cfg.peers) (effDur cfg.dur)),
           tabs := startDeferralFamilies (heldFams (mkPending cfg.peers)) (fun _ => {}),
           univ := dedup (famUniverse ++ cfg.peers.flatMap (·.2)) },
         { outs := [.deferFamilies (heldFams (mkPending cfg.peers))], changes := [], tag := .awaiting,
           pending := mkPending cfg.peers, installed := true,
           flags := flagsOf (startDeferralFamilies (heldFams (mkPending cfg.peers)) (fun _ => {}))
             (dedup (famUniverse ++ cfg.peers.flatMap (·.2))), timer := false }) := by
      simp [initObs, init, new, hem, isCompleted, tagOf, pendingOf, obsOf, sdt_eq]
    rw [hio]
    have hflag : ∀ f, ((startDeferralFamilies (heldFams (mkPending cfg.peers)) (fun _ => {})) f).deferring =
        held (Spec.init cfg) f := by
      intro f
      rw [(startDeferralFamilies_spec _ _ f).1, hheld, Bool.eq_iff_iff]
      simp only [Bool.or_false, List.contains_iff_mem, mem_heldFams]
      rw [holdsP_iff_holds hp]
    refine ⟨stepOk_ok (by simp) (by simp [hnorel]) (by simp [hnorel]) (by simp [hnorel]) (by simp) ?_ (fun _ => hne) ?_
      (by simp) ?_ (by rw [hsn]; rfl) (by rw [htA]) ?_, ?_⟩
    · intro e he
      simp only at he
      have hset := hwf.sets e he
      refine ⟨?_, hset.1⟩
      cases hs : e.2 with
      | nil => exact absurd hs hset.1
      | cons g rest => exact tracked_iff.mpr ⟨g, (hp _).mp (mem_pairs.mpr ⟨e.2, he, by simp [hs]⟩)⟩
    · intro hwn
      exfalso; apply hne
      apply pend_nil_of_pairs_nil hwf
      apply eq_nil_of_forall_not_mem
      intro x hx; have := (hp x).mp hx; rw [hwn] at this; simp at this
    · intro _; simp
    · intro _ f hf
      refine mem_flagsOf.mpr ⟨huniv f hf, ?_⟩
      rw [hflag]
      simp [held, hrel0, hf]
    · refine ⟨fun m hm => ?_, fun h => by simp at h, hflag, fun f n p => ?_, fun f => by rw [hheld],
        fun _ e he => by simp [Spec.init] at he, huniv, htm0.symm, (fun h => by rw [htm0] at h; cases h),
        (fun pend d h => ?_)⟩
      · simp only [Option.some.injEq] at hm; subst hm
        exact ⟨by simp, hwf, hne, hp, by simp [Spec.init, isDeferring]⟩
      · simp only
        rw [(startDeferralFamilies_spec _ _ f).2]; simp [Spec.init]
      · simp only [Option.some.injEq, RInner.awaiting.injEq] at h
        exact h.2.symm

/-! ## the master theorem -/

theorem checkFrom_ok (cfg : Cfg) (evs : List Ev) (s : St) (r : R) (i : Nat) (hr : Rel cfg s r) :
    checkFrom cfg r i evs (runFrom s evs).2 = .ok := by
  induction evs generalizing s r i with
  | nil => simp [runFrom, checkFrom]
  | cons e es ih =>
      simp only [runFrom, checkFrom]
      by_cases hwf : wf cfg r e = true
      · obtain ⟨hok, hrel⟩ := step_ok hr e hwf
        simp only [hwf, Bool.not_true, Bool.false_eq_true, ↓reduceIte, hok]
        exact ih _ _ _ hrel
      · simp [hwf]

/-- The C11 reference checker accepts every run of the model. -/
theorem check_run_ok (cfg : Cfg) (evs : List Ev) : Spec.check cfg evs (run cfg evs) = .ok := by
  obtain ⟨hok, hrel⟩ := init_ok cfg
  simp only [run, Spec.check, hok]
  exact checkFrom_ok cfg evs _ _ 1 hrel

end Rbgp.Gr.Restarting
