/-
  Rbgp.Gr.Restarting.Sim — the simulation between the model state and the reference state of
  Spec.lean, and the master theorem `check_run_ok`.
-/
import Rbgp.Gr.Restarting.Proofs
namespace Rbgp.Gr.Restarting
open Rbgp.Gr.Restarting.Spec

/-- The relation kept between a model state and the reference bookkeeping. -/
structure Rel (s : St) (r : R) : Prop where
  sd_some : ∀ m, s.sd = some m → m ≠ .completed ∧ WFp (pendingOf m) ∧ pendingOf m ≠ [] ∧
      (∀ x, x ∈ pairs (pendingOf m) ↔ x ∈ r.waiting) ∧ (r.started = true ↔ isDeferring m = true)
  sd_none : s.sd = none → r.waiting = []
  flags : ∀ f, (s.tabs f).deferring = held r f
  rib : ∀ f n p, (n, p) ∈ (s.tabs f).paths ↔ (f, n, p) ∈ r.rib
  held_iff : ∀ f, held r f = true ↔ holds f r.waiting = true
  up_inv : r.started = false → ∀ e ∈ r.up, tracked r e.1 = false
  univ : ∀ f ∈ r.deferred, f ∈ s.univ

theorem holds_iff {f : Fam} {w : List (Peer × Fam)} : holds f w = true ↔ ∃ p, (p, f) ∈ w := by
  simp only [holds, List.any_eq_true, decide_eq_true_eq]
  constructor
  · rintro ⟨e, he, rfl⟩; exact ⟨e.1, he⟩
  · rintro ⟨p, hp⟩; exact ⟨(p, f), hp, rfl⟩

theorem tracked_iff {r : R} {p : Peer} : tracked r p = true ↔ ∃ f, (p, f) ∈ r.waiting := by
  simp only [tracked, List.any_eq_true, decide_eq_true_eq]
  constructor
  · rintro ⟨e, he, rfl⟩; exact ⟨e.2, he⟩
  · rintro ⟨f, hf⟩; exact ⟨(p, f), hf, rfl⟩

theorem held_mem {r : R} {f : Fam} (h : held r f = true) : f ∈ r.deferred ∧ f ∉ r.released := by
  simpa [held] using h

theorem mem_releasedNow {r r' : R} {f : Fam} :
    f ∈ releasedNow r r' ↔ (held r f = true ∧ holds f r'.waiting = false) := by
  simp only [releasedNow, List.mem_filter, Bool.and_eq_true, Bool.not_eq_eq_eq_not, Bool.not_true]
  constructor
  · rintro ⟨_, h⟩; exact h
  · intro h; exact ⟨(held_mem h.1).1, h⟩

theorem next_waiting (r : R) (i : RIn) : (next r (.rd i)).waiting = nextW r.waiting i := by
  cases i <;> rfl

theorem next_rd_rib (r : R) (i : RIn) : (next r (.rd i)).rib = r.rib := by cases i <;> rfl
theorem next_rd_deferred (r : R) (i : RIn) : (next r (.rd i)).deferred = r.deferred := by cases i <;> rfl
theorem next_rd_released (r : R) (i : RIn) : (next r (.rd i)).released = r.released := by cases i <;> rfl

theorem nextW_sub {w : List (Peer × Fam)} {i : RIn} {x : Peer × Fam} (h : x ∈ nextW w i) : x ∈ w := by
  cases i <;> simp [nextW] at h <;> exact h.1

theorem nextW_congr {w w' : List (Peer × Fam)} (h : ∀ x, x ∈ w ↔ x ∈ w') (i : RIn) (x : Peer × Fam) :
    x ∈ nextW w i ↔ x ∈ nextW w' i := by
  cases i <;> simp [nextW, h]

theorem holdsP_iff_holds {f : Fam} {pend : Pending} {w : List (Peer × Fam)}
    (h : ∀ x, x ∈ pairs pend ↔ x ∈ w) : holdsP f pend ↔ holds f w = true := by
  rw [holds_iff]; simp only [holdsP, h]

theorem eq_nil_of_forall_not_mem {α} {l : List α} (h : ∀ x, x ∉ l) : l = [] := by
  cases l with
  | nil => rfl
  | cons a l => exact absurd (List.mem_cons_self) (h a)

theorem mem_flagsOf {t : Tabs} {u : List Fam} {f : Fam} :
    f ∈ flagsOf t u ↔ (f ∈ u ∧ (t f).deferring = true) := by
  simp [flagsOf]

/-- Releasing a duplicate-free list of families: what is announced for one of them. -/
theorem filter_flatMap_announce {fs : List Fam} (hn : fs.Nodup) (t : Tabs) (f : Fam) :
    (fs.flatMap fun g => announce g (t g).paths).filter (·.fam = f) =
      if f ∈ fs then announce f (t f).paths else [] := by
  induction fs with
  | nil => simp
  | cons g fs ih =>
      rw [List.nodup_cons] at hn
      simp only [List.flatMap_cons, List.filter_append, ih hn.2]
      have hself : ∀ g, (announce g (t g).paths).filter (·.fam = f) =
          if g = f then announce g (t g).paths else [] := by
        intro g
        by_cases h : g = f
        · subst h
          simp only [↓reduceIte]
          apply List.filter_eq_self.mpr
          intro c hc
          simp only [announce, List.mem_map] at hc
          obtain ⟨n, _, rfl⟩ := hc
          simp
        · simp only [h, ↓reduceIte]
          apply List.filter_eq_nil_iff.mpr
          intro c hc
          simp only [announce, List.mem_map] at hc
          obtain ⟨n, _, rfl⟩ := hc
          simpa using h
      rw [hself g]
      by_cases h : g = f
      · subst h
        simp [hn.1]
      · have : f ≠ g := fun h' => h h'.symm
        simp [h, this]

theorem mem_flatMap_announce_fam {fs : List Fam} {t : Tabs} {c : Change}
    (h : c ∈ fs.flatMap fun g => announce g (t g).paths) : c.fam ∈ fs := by
  simp only [List.mem_flatMap, announce, List.mem_map] at h
  obtain ⟨g, hg, n, _, rfl⟩ := h
  exact hg

/-- Appending released families that are not held leaves `held` as it was elsewhere. -/
theorem held_after {r1 : R} {rn : List Fam} (f : Fam) :
    held { r1 with released := r1.released ++ rn } f = (held r1 f && !rn.contains f) := by
  simp only [held, List.contains_append]
  cases r1.deferred.contains f <;> cases r1.released.contains f <;> cases rn.contains f <;> rfl

/-- the reference state after a checked step -/
def advance (r : R) (e : Ev) : R :=
  let r1 := next r e
  { r1 with released := r1.released ++ releasedNow r r1 }

theorem inputOk_of_wf {cfg : Cfg} {s : St} {r : R} (hr : Rel s r) {m : RInner} (hm : s.sd = some m)
    {i : RIn} (hwf : wf cfg r (.rd i) = true) : InputOk m i := by
  intro pend dur hma
  obtain ⟨_, hw, _, hp, hst⟩ := hr.sd_some m hm
  have hns : r.started = false := by
    cases h : r.started with
    | false => rfl
    | true => have := hst.mp h; simp [hma, isDeferring] at this
  refine ⟨?_, ?_⟩
  · rintro rfl
    simp [wf, hns] at hwf
  · rintro p f rfl
    simp only [wf] at hwf
    cases hu : upFams r p with
    | none => simp [hu] at hwf
    | some fs =>
        simp only [upFams, Option.map_eq_some_iff] at hu
        obtain ⟨e, he, rfl⟩ := hu
        have hmem := List.mem_of_find?_eq_some he
        have hpe : e.1 = p := by simpa using List.find?_some he
        have hnt := hr.up_inv hns e hmem
        rw [hpe] at hnt
        cases hl : lookup p pend with
        | none => rfl
        | some set =>
            exfalso
            subst hma
            have hset := hw.sets _ (mem_of_lookup_some hl)
            cases hs : set with
            | nil => exact hset.1 hs
            | cons g rest =>
                have : (p, g) ∈ pairs pend := (mem_pairs_self hw hl).mpr (by simp [hs])
                have : tracked r p = true := tracked_iff.mpr ⟨g, (hp _).mp this⟩
                rw [hnt] at this; cases this

theorem step_rd {cfg : Cfg} {s : St} {r : R} (hr : Rel s r) (i : RIn) (hwf : wf cfg r (.rd i) = true) :
    stepOk (some (.rd i)) r (next r (.rd i)) (step s (.rd i)).2 = .ok () ∧
    Rel (step s (.rd i)).1 (advance r (.rd i)) := by
  have hw1 : (next r (.rd i)).waiting = nextW r.waiting i := next_waiting r i
  cases hsd : s.sd with
  | none =>
      have hw0 := hr.sd_none hsd
      have hw' : (next r (.rd i)).waiting = [] := by rw [hw1, hw0]; cases i <;> simp [nextW]
      have hnoheld : ∀ f, held r f = false := by
        intro f
        cases h : held r f with
        | false => rfl
        | true => have := (hr.held_iff f).mp h; simp [hw0, holds] at this
      have hrn : releasedNow r (next r (.rd i)) = [] :=
        eq_nil_of_forall_not_mem fun f hf => by simpa [hnoheld f] using (mem_releasedNow.mp hf).1
      have hstep : step s (.rd i) =
          (s, { outs := [], changes := [], tag := .absent, pending := [], installed := false,
                flags := flagsOf s.tabs s.univ }) := by
        simp [step, hsd]
      rw [hstep]
      refine ⟨stepOk_ok (by simp) (fun f _ h => by simp [hnoheld f] at h) (by simp [hrn]) (by simp [hrn])
        (fun f _ _ => ⟨by simp [mentions], by simp⟩) (by simp) (by simp) (fun _ => by simp), ?_⟩
      have hadv : advance r (.rd i) = next r (.rd i) := by simp [advance, hrn]
      rw [hadv]
      have hheld' : ∀ f, held (next r (.rd i)) f = held r f := by
        intro f; simp [held, next_rd_deferred, next_rd_released]
      refine ⟨fun m hm => by simp [hsd] at hm, fun _ => hw', fun f => by rw [hheld']; exact hr.flags f,
        fun f n p => by rw [next_rd_rib]; exact hr.rib f n p, fun f => ?_, fun _ e he => ?_, fun f hf => ?_⟩
      · rw [hheld', hnoheld f, hw']; simp [holds]
      · simp [tracked, hw']
      · rw [next_rd_deferred] at hf; exact hr.univ f hf
  | some m =>
      obtain ⟨hmc, hw, hne, hp, hst⟩ := hr.sd_some m hsd
      have hi := inputOk_of_wf hr hsd hwf
      have sp := process_spec m i hw (fun _ => hne) hi
      obtain ⟨cs, tail, hsh⟩ := sp.shape
      generalize hm' : (process m i).1 = m' at sp
      generalize houts : (process m i).2 = outs at sp hsh
      have ha := applyOuts_spec { s with sd := some m' } outs
      obtain ⟨e1, e2, e3⟩ := endDeferralFamilies_spec (relFams outs) s.tabs
      -- the step, spelled out
      have hstep : step s (.rd i) =
          ((applyOuts { s with sd := some m' } outs).1,
           { outs := outs, changes := (applyOuts { s with sd := some m' } outs).2, tag := tagOf m',
             pending := pendingOf m', installed := (applyOuts { s with sd := some m' } outs).1.sd.isSome,
             flags := flagsOf (applyOuts { s with sd := some m' } outs).1.tabs s.univ }) := by
        simp [step, hsd, hm', houts]
      rw [hstep]
      obtain ⟨ha1, ha2, ha3, ha4⟩ := ha
      simp only at ha1 ha2 ha3 ha4
      -- pairs of the new machine vs. the new waiting list
      have hp' : ∀ x, x ∈ pairs (pendingOf m') ↔ x ∈ (next r (.rd i)).waiting := by
        intro x; rw [sp.pairs, hw1]; exact nextW_congr hp i x
      have hsub : ∀ x, x ∈ (next r (.rd i)).waiting → x ∈ r.waiting := by
        intro x hx; rw [hw1] at hx; exact nextW_sub hx
      -- released families
      have hrel : ∀ f, f ∈ relFams outs ↔ f ∈ releasedNow r (next r (.rd i)) := by
        intro f
        rw [sp.rel_mem, mem_releasedNow, holdsP_iff_holds hp, holdsP_iff_holds hp', hr.held_iff]
        simp
      have hfl : ∀ f, ((applyOuts { s with sd := some m' } outs).1.tabs f).deferring =
          (if f ∈ relFams outs then false else held r f) := by
        intro f; rw [ha1, e2, hr.flags]
      have hpa : ∀ f, ((applyOuts { s with sd := some m' } outs).1.tabs f).paths = (s.tabs f).paths := by
        intro f; rw [ha1, e1]
      have hch : (applyOuts { s with sd := some m' } outs).2 =
          (relFams outs).flatMap fun g => announce g (s.tabs g).paths := by rw [ha2, e3]
      refine ⟨stepOk_ok ?_ ?_ ?_ ?_ ?_ ?_ ?_ ?_, ?_⟩
      · intro c hc _
        simp only at hc; rw [hch] at hc
        exact (hrel _).mp (mem_flatMap_announce_fam hc)
      · intro f hf hh hnr
        have hnr' : f ∉ relFams outs := fun h => hnr ((hrel f).mp h)
        refine ⟨mem_flagsOf.mpr ⟨hr.univ f hf, by rw [hfl, if_neg hnr', hh]⟩, ?_⟩
        cases hmn : mentions outs f with
        | false => rfl
        | true => exact absurd ((hsh.mentions f).mp hmn) hnr'
      · intro f hf hfl'
        have := (mem_flagsOf.mp hfl').2
        rw [hfl, if_pos ((hrel f).mpr hf)] at this; cases this
      · intro f hf
        apply exactRelease_announce (paths := (s.tabs f).paths)
        · intro n p; rw [next_rd_rib]; exact hr.rib f n p
        · simp only; rw [hch, filter_flatMap_announce sp.rel_nodup, if_pos ((hrel f).mpr hf)]
      · intro f hf hfr
        have hnh : held r f = false := by simp [held, hfr]
        have hnr' : f ∉ relFams outs := fun h => by
          have := (mem_releasedNow.mp ((hrel f).mp h)).1; rw [hnh] at this; cases this
        refine ⟨?_, fun _ c hc => ?_⟩
        · cases hmn : mentions outs f with
          | false => rfl
          | true => exact absurd ((hsh.mentions f).mp hmn) hnr'
        · simp only at hc; rw [hch] at hc
          intro hcf; exact hnr' (hcf ▸ mem_flatMap_announce_fam hc)
      · intro e he
        simp only at he
        have hset := sp.wf.sets e he
        refine ⟨?_, hset.1⟩
        cases hs : e.2 with
        | nil => exact absurd hs hset.1
        | cons g rest =>
            exact tracked_iff.mpr ⟨g, (hp' _).mp (mem_pairs.mpr ⟨e.2, he, by simp [hs]⟩)⟩
      · intro ht
        simp only at ht ⊢
        apply sp.nonempty
        rintro rfl
        simp [tagOf] at ht
      · intro hwn
        have hpn : pendingOf m' = [] :=
          pend_nil_of_pairs_nil sp.wf (eq_nil_of_forall_not_mem fun x hx => by
            have := (hp' x).mp hx; rw [hwn] at this; simp at this)
        have hmc' : m' = .completed := by
          cases hm'c : m' with
          | completed => rfl
          | awaiting q d => exact absurd hpn (sp.nonempty (by simp [hm'c]))
          | deferring q => exact absurd hpn (sp.nonempty (by simp [hm'c]))
        have hend := (sp.ended hmc).mpr hmc'
        simp only
        refine ⟨by simp [hmc', tagOf], by simp [hmc', tagOf], ?_⟩
        rw [ha3, hend]; simp
      -- the relation afterwards
      · have hadvw : (advance r (.rd i)).waiting = (next r (.rd i)).waiting := rfl
        have hheld : ∀ f, held (advance r (.rd i)) f = (held r f && !(relFams outs).contains f) := by
          intro f
          have h1 : held (advance r (.rd i)) f =
              (held (next r (.rd i)) f && !(releasedNow r (next r (.rd i))).contains f) := held_after f
          have h2 : held (next r (.rd i)) f = held r f := by
            simp [held, next_rd_deferred, next_rd_released]
          rw [h1, h2]
          by_cases hf : f ∈ relFams outs
          · simp [hf, (hrel f).mp hf]
          · have : f ∉ releasedNow r (next r (.rd i)) := fun h => hf ((hrel f).mpr h)
            simp [hf, this]
        refine ⟨?_, ?_, ?_, ?_, ?_, ?_, ?_⟩
        · intro m2 hm2
          simp only at hm2
          rw [ha3] at hm2
          by_cases hend : (endRemaining outs).isSome = true
          · simp [hend] at hm2
          · simp only [hend, Bool.false_eq_true, ↓reduceIte, Option.some.injEq] at hm2
            subst hm2
            have hnc : m' ≠ .completed := fun h => hend ((sp.ended hmc).mpr h)
            refine ⟨hnc, sp.wf, sp.nonempty hnc, fun x => by rw [hadvw]; exact hp' x, ?_⟩
            have htag := process_tag m i hw (by rw [hm']; exact hnc)
            rw [hm'] at htag
            rw [htag, ← hst]
            cases i with
            | est p fams =>
                simp only [advance, next, Bool.or_eq_true, List.any_eq_true, decide_eq_true_eq, RIn.est.injEq]
                constructor
                · rintro (h | ⟨e, he, rfl⟩)
                  · exact Or.inl h
                  · refine Or.inr ⟨e.1, fams, ⟨rfl, rfl⟩, e.2, (hp' _).mpr ?_⟩
                    simpa [next] using he
                · rintro (h | ⟨q, fams', ⟨rfl, rfl⟩, f, hf⟩)
                  · exact Or.inl h
                  · refine Or.inr ⟨(_, f), ?_, rfl⟩
                    simpa [next] using (hp' _).mp hf
            | eor p f => simp [advance, next]
            | wd p => simp [advance, next]
            | timer => simp [advance, next]
        · intro hnone
          simp only at hnone
          rw [ha3] at hnone
          by_cases hend : (endRemaining outs).isSome = true
          · have hmc' := (sp.ended hmc).mp hend
            rw [hadvw]
            apply eq_nil_of_forall_not_mem
            intro x hx
            have := (hp' x).mpr hx
            simp [hmc', pendingOf, pairs] at this
          · simp [hend] at hnone
        · intro f; simp only; rw [hfl, hheld]
          by_cases hf : f ∈ relFams outs <;> simp [hf]
        · intro f n p
          rw [hpa]
          show _ ↔ (f, n, p) ∈ (next r (.rd i)).rib
          rw [next_rd_rib]; exact hr.rib f n p
        · intro f
          rw [hheld, hadvw]
          by_cases hf : f ∈ relFams outs
          · have := mem_releasedNow.mp ((hrel f).mp hf)
            simp [hf, this.2]
          · have hcf : (relFams outs).contains f = false := by simpa using hf
            rw [hcf]
            simp only [Bool.not_false, Bool.and_true]
            constructor
            · intro hh
              cases hh2 : holds f (next r (.rd i)).waiting with
              | true => rfl
              | false => exact absurd ((hrel f).mpr (mem_releasedNow.mpr ⟨hh, hh2⟩)) hf
            · intro hh
              obtain ⟨p, hp2⟩ := holds_iff.mp hh
              exact (hr.held_iff f).mpr (holds_iff.mpr ⟨p, hsub _ hp2⟩)
        · intro hns e he
          have htr : ∀ q, tracked r q = false → tracked (advance r (.rd i)) q = false := by
            intro q hq
            cases h : tracked (advance r (.rd i)) q with
            | false => rfl
            | true =>
                obtain ⟨f, hf⟩ := tracked_iff.mp h
                have : tracked r q = true := tracked_iff.mpr ⟨f, hsub _ hf⟩
                rw [hq] at this; cases this
          cases i with
          | est p fams =>
              simp only [advance, next, Bool.or_eq_false_iff] at hns he
              simp only [List.mem_cons, List.mem_filter] at he
              rcases he with rfl | ⟨he, _⟩
              · simpa [advance, next, tracked] using hns.2
              · exact htr _ (hr.up_inv hns.1 e he)
          | eor p f => exact htr _ (hr.up_inv (by simpa [advance, next] using hns) e (by simpa [advance, next] using he))
          | wd p =>
              simp only [advance, next, List.mem_filter] at he
              exact htr _ (hr.up_inv (by simpa [advance, next] using hns) e he.1)
          | timer => exact htr _ (hr.up_inv (by simpa [advance, next] using hns) e (by simpa [advance, next] using he))
        · intro f hf
          simp only; rw [ha4]
          exact hr.univ f (by simpa [advance, next_rd_deferred] using hf)

/-- RIB mutators: what the property needs from `insert_route` / `remove_route` / `drop_families` -/
structure TabOp (t : Tabs) (rib : List (Fam × Nat × Peer)) (t' : Tabs) (rib' : List (Fam × Nat × Peer))
    (f : Fam) (changes : List Change) : Prop where
  flag : ∀ g, (t' g).deferring = (t g).deferring
  rib : (∀ g n p, (n, p) ∈ (t g).paths ↔ (g, n, p) ∈ rib) → ∀ g n p, (n, p) ∈ (t' g).paths ↔ (g, n, p) ∈ rib'
  silent : (t f).deferring = true → changes = []
  fam : ∀ c ∈ changes, c.fam = f

theorem insert_op (t : Tabs) (rib : List (Fam × Nat × Peer)) (p : Peer) (f : Fam) (n : Nat)
    (hrib : ∀ g n p, (n, p) ∈ (t g).paths ↔ (g, n, p) ∈ rib) :
    TabOp t rib (insert t p f n).1 (if rib.contains (f, n, p) then rib else rib ++ [(f, n, p)]) f
      (insert t p f n).2 := by
  refine ⟨fun g => ?_, fun _ g m q => ?_, fun h => by simp [insert, h], fun c hc' => ?_⟩
  · by_cases h : g = f
    · subst h; simp [insert]
    · simp [insert, set_other _ _ h]
  · by_cases hcc : (f, n, p) ∈ rib
    · have hm : (n, p) ∈ (t f).paths := (hrib f n p).mpr hcc
      by_cases h : g = f
      · subst h; simp [insert, hm, hcc, hrib]
      · simp [insert, set_other _ _ h, hcc, hrib]
    · have hm : (n, p) ∉ (t f).paths := fun h => hcc ((hrib f n p).mp h)
      by_cases h : g = f
      · subst h; simp [insert, hm, hcc, hrib]
      · simp only [insert, set_other _ _ h, hrib, List.contains_iff_mem, hcc, ↓reduceIte, List.mem_append,
          List.mem_singleton, Prod.mk.injEq]
        constructor
        · exact Or.inl
        · rintro (h' | ⟨h', _⟩)
          · exact h'
          · exact absurd h' h
  · simp only [insert] at hc'
    by_cases hd : (t f).deferring = true
    · simp [hd] at hc'
    · simp only [hd, Bool.false_eq_true, ↓reduceIte, List.mem_singleton] at hc'
      subst hc'; rfl

theorem remove_op (t : Tabs) (rib : List (Fam × Nat × Peer)) (p : Peer) (f : Fam) (n : Nat)
    (hrib : ∀ g n p, (n, p) ∈ (t g).paths ↔ (g, n, p) ∈ rib) :
    TabOp t rib (remove t p f n).1 (rib.filter (· ≠ (f, n, p))) f (remove t p f n).2 := by
  by_cases hm : (n, p) ∈ (t f).paths
  · refine ⟨fun g => ?_, fun _ g m q => ?_, fun h => by simp [remove, hm, h], fun c hc' => ?_⟩
    · by_cases h : g = f
      · subst h; simp [remove, hm]
      · simp [remove, hm, set_other _ _ h]
    · by_cases h : g = f
      · subst h
        simp [remove, hm, hrib]
      · simp only [remove, List.contains_iff_mem, hm, ↓reduceIte, set_other _ _ h, hrib, List.mem_filter, ne_eq,
          decide_not, Bool.not_eq_eq_eq_not, Bool.not_true, decide_eq_false_iff_not, Prod.mk.injEq, not_and]
        constructor
        · intro h'; exact ⟨h', fun hh => absurd hh h⟩
        · exact fun h' => h'.1
    · simp only [remove, List.contains_iff_mem, hm, ↓reduceIte] at hc'
      by_cases hd : (t f).deferring = true
      · simp [hd] at hc'
      · simp only [hd, Bool.false_eq_true, ↓reduceIte, List.mem_singleton] at hc'
        subst hc'; rfl
  · have hnm : (f, n, p) ∉ rib := fun h => hm ((hrib f n p).mpr h)
    refine ⟨fun g => by simp [remove, hm], fun _ g m q => ?_, fun _ => by simp [remove, hm],
      fun c hc' => by simp [remove, hm] at hc'⟩
    simp only [remove, List.contains_iff_mem, hm, ↓reduceIte, hrib, List.mem_filter, ne_eq, decide_not,
      Bool.not_eq_eq_eq_not, Bool.not_true, decide_eq_false_iff_not]
    constructor
    · intro h; exact ⟨h, fun he => hnm (he ▸ h)⟩
    · exact fun h => h.1

theorem drop_op (t : Tabs) (rib : List (Fam × Nat × Peer)) (p : Peer) (f : Fam)
    (hrib : ∀ g n p, (n, p) ∈ (t g).paths ↔ (g, n, p) ∈ rib) :
    TabOp t rib (dropPeer t p f).1 (rib.filter (fun e => !(e.1 = f && e.2.2 = p))) f (dropPeer t p f).2 := by
  refine ⟨fun g => ?_, fun _ g m q => ?_, fun h => by simp [dropPeer, h], fun c hc' => ?_⟩
  · by_cases h : g = f
    · subst h; simp [dropPeer]
    · simp [dropPeer, set_other _ _ h]
  · by_cases h : g = f
    · subst h
      simp [dropPeer, hrib]
    · simp [dropPeer, set_other _ _ h, hrib, h]
  · simp only [dropPeer] at hc'
    by_cases hd : (t f).deferring = true
    · simp [hd] at hc'
    · simp only [hd, Bool.false_eq_true, ↓reduceIte, List.mem_map] at hc'
      obtain ⟨n, _, rfl⟩ := hc'; rfl

/-- a RIB mutation is accepted by the checker and keeps the relation -/
theorem step_tab {s : St} {r : R} (hr : Rel s r) (e : Ev) (f : Fam) (t' : Tabs) (changes : List Change)
    (hne : isRd e = false)
    (hw : (next r e).waiting = r.waiting) (hd : (next r e).deferred = r.deferred)
    (hrl : (next r e).released = r.released) (hs : (next r e).started = r.started)
    (hu : (next r e).up = r.up)
    (hop : TabOp s.tabs r.rib t' (next r e).rib f changes) :
    let o : Obs := { outs := [], changes := changes,
                     tag := match s.sd with | some m => tagOf m | none => .absent,
                     pending := match s.sd with | some m => pendingOf m | none => [],
                     installed := s.sd.isSome, flags := flagsOf t' s.univ }
    stepOk (some e) r (next r e) o = .ok () ∧ Rel { s with tabs := t' } (advance r e) := by
  intro o
  have hnorel : releasedNow r (next r e) = [] := by
    apply eq_nil_of_forall_not_mem
    intro g hg
    obtain ⟨h1, h2⟩ := mem_releasedNow.mp hg
    rw [hw, (hr.held_iff g).mp h1] at h2; cases h2
  have hadv : advance r e = next r e := by simp [advance, hnorel]
  have hheld : ∀ g, held (next r e) g = held r g := by intro g; simp [held, hd, hrl]
  have htr : ∀ q, tracked (next r e) q = tracked r q := by intro q; simp [tracked, hw]
  refine ⟨stepOk_ok ?_ ?_ (by simp [hnorel]) (by simp [hnorel]) ?_ ?_ ?_ ?_, ?_⟩
  · intro c hc hh
    have hcf := hop.fam c hc
    have : (s.tabs f).deferring = true := by rw [hr.flags, ← hcf]; exact hh
    have := hop.silent this
    simp only [o] at hc; rw [this] at hc; simp at hc
  · intro g hg hh _
    exact ⟨mem_flagsOf.mpr ⟨hr.univ g hg, by rw [hop.flag, hr.flags]; exact hh⟩, by simp [o, mentions]⟩
  · intro g _ _
    refine ⟨by simp [o, mentions], fun h => ?_⟩
    simp [hne] at h
  · intro x hx
    cases hsd : s.sd with
    | none => simp [o, hsd] at hx
    | some m =>
        obtain ⟨_, hwf, _, hp, _⟩ := hr.sd_some m hsd
        simp only [o, hsd] at hx
        have hset := hwf.sets x hx
        refine ⟨?_, hset.1⟩
        rw [htr]
        cases hs' : x.2 with
        | nil => exact absurd hs' hset.1
        | cons g rest =>
            exact tracked_iff.mpr ⟨g, (hp _).mp (mem_pairs.mpr ⟨x.2, hx, by simp [hs']⟩)⟩
  · intro ht
    cases hsd : s.sd with
    | none => simp [o, hsd] at ht
    | some m => obtain ⟨_, _, hne', _, _⟩ := hr.sd_some m hsd; simpa [o, hsd] using hne'
  · intro hwn
    rw [hw] at hwn
    cases hsd : s.sd with
    | none => simp [o, hsd]
    | some m =>
        exfalso
        obtain ⟨_, hwf, hne', hp, _⟩ := hr.sd_some m hsd
        apply hne'
        apply pend_nil_of_pairs_nil hwf
        apply eq_nil_of_forall_not_mem
        intro x hx; have := (hp x).mp hx; rw [hwn] at this; simp at this
  · rw [hadv]
    refine ⟨fun m hm => ?_, fun hn => by rw [hw]; exact hr.sd_none hn, fun g => ?_, hop.rib hr.rib, fun g => ?_,
      fun hns x hx => ?_, fun g hg => hr.univ g (hd ▸ hg)⟩
    · obtain ⟨a, b, c, d, e'⟩ := hr.sd_some m hm
      exact ⟨a, b, c, fun x => by rw [hw]; exact d x, by rw [hs]; exact e'⟩
    · show (t' g).deferring = _
      rw [hop.flag, hheld]; exact hr.flags g
    · rw [hheld, hw]; exact hr.held_iff g
    · rw [htr]; exact hr.up_inv (hs ▸ hns) x (hu ▸ hx)

theorem step_ok {cfg : Cfg} {s : St} {r : R} (hr : Rel s r) (e : Ev) (hwf : wf cfg r e = true) :
    stepOk (some e) r (next r e) (step s e).2 = .ok () ∧ Rel (step s e).1 (advance r e) := by
  cases e with
  | rd i => exact step_rd hr i hwf
  | ins p f n =>
      have h := step_tab hr (.ins p f n) f (insert s.tabs p f n).1 (insert s.tabs p f n).2 rfl
        (by simp only [next]; split <;> rfl) (by simp only [next]; split <;> rfl)
        (by simp only [next]; split <;> rfl) (by simp only [next]; split <;> rfl)
        (by simp only [next]; split <;> rfl)
        (by
          have := insert_op s.tabs r.rib p f n hr.rib
          simp only [next]
          by_cases hc : (f, n, p) ∈ r.rib
          · simpa [hc] using this
          · simpa [hc] using this)
      exact h
  | rm p f n =>
      exact step_tab hr (.rm p f n) f (remove s.tabs p f n).1 (remove s.tabs p f n).2 rfl rfl rfl rfl rfl rfl
        (remove_op s.tabs r.rib p f n hr.rib)
  | drop p f =>
      exact step_tab hr (.drop p f) f (dropPeer s.tabs p f).1 (dropPeer s.tabs p f).2 rfl rfl rfl rfl rfl rfl
        (drop_op s.tabs r.rib p f hr.rib)

/-! ## start-up -/

theorem helpers_eq (l : List (Peer × List Fam)) : helpers l = dedupLast l := by
  induction l with
  | nil => rfl
  | cons e rest ih => simp only [helpers, dedupLast, ih]

theorem dedupLast_sub {l : List (Peer × List Fam)} {e} (h : e ∈ dedupLast l) : e ∈ l := by
  induction l with
  | nil => simp [dedupLast] at h
  | cons a rest ih =>
      simp only [dedupLast] at h
      split at h
      · exact List.mem_cons_of_mem _ (ih h)
      · rcases List.mem_cons.mp h with rfl | h
        · simp
        · exact List.mem_cons_of_mem _ (ih h)

theorem dedupLast_keys (l : List (Peer × List Fam)) : ((dedupLast l).map (·.1)).Nodup := by
  induction l with
  | nil => simp [dedupLast]
  | cons a rest ih =>
      simp only [dedupLast]
      split
      · exact ih
      · rename_i h
        simp only [List.map_cons, List.nodup_cons, List.mem_map, not_exists, not_and]
        refine ⟨fun e he heq => h ?_, ih⟩
        simp only [List.any_eq_true, decide_eq_true_eq]
        exact ⟨e, dedupLast_sub he, heq⟩

theorem mem_mkPending {l : List (Peer × List Fam)} {x : Peer × List Fam} :
    x ∈ mkPending l ↔ ∃ e ∈ dedupLast l, (toSet e.2).isEmpty = false ∧ x = (e.1, toSet e.2) := by
  simp only [mkPending, List.mem_filterMap]
  constructor
  · rintro ⟨e, he, h⟩
    by_cases hem : (toSet e.2).isEmpty = true
    · simp [hem] at h
    · simp only [hem, Bool.false_eq_true, ↓reduceIte, Option.some.injEq] at h
      exact ⟨e, he, by simpa using hem, h.symm⟩
  · rintro ⟨e, he, hem, rfl⟩
    exact ⟨e, he, by simp [hem]⟩

theorem wfp_mkPending (l : List (Peer × List Fam)) : WFp (mkPending l) := by
  refine ⟨?_, fun x hx => ?_⟩
  · have hsub : ((mkPending l).map (·.1)).Sublist ((dedupLast l).map (·.1)) := by
      unfold mkPending
      generalize dedupLast l = d
      induction d with
      | nil => simp
      | cons a rest ih =>
          simp only [List.filterMap_cons, List.map_cons]
          by_cases h : (toSet a.2).isEmpty = true
          · simp only [h, ↓reduceIte]; exact List.Sublist.cons _ ih
          · simp only [h, Bool.false_eq_true, ↓reduceIte, List.map_cons]; exact List.Sublist.cons_cons _ ih
    exact List.Nodup.sublist hsub (dedupLast_keys l)
  · obtain ⟨e, _, hem, rfl⟩ := mem_mkPending.mp hx
    refine ⟨fun h => ?_, nodup_dedup _⟩
    simp only at h; rw [h] at hem; simp at hem

theorem mem_pairs_mkPending {l : List (Peer × List Fam)} {x : Peer × Fam} :
    x ∈ pairs (mkPending l) ↔ x ∈ (helpers l).flatMap fun e => e.2.map fun f => (e.1, f) := by
  obtain ⟨p, f⟩ := x
  rw [mem_pairs, helpers_eq]
  simp only [List.mem_flatMap, List.mem_map, Prod.mk.injEq]
  constructor
  · rintro ⟨s, hs, hf⟩
    obtain ⟨e, he, _, heq⟩ := mem_mkPending.mp hs
    simp only [Prod.mk.injEq] at heq
    obtain ⟨rfl, rfl⟩ := heq
    exact ⟨e, he, f, by simpa [toSet, mem_dedup] using hf, rfl, rfl⟩
  · rintro ⟨e, he, g, hg, rfl, rfl⟩
    refine ⟨toSet e.2, mem_mkPending.mpr ⟨e, he, ?_, rfl⟩, by simpa [toSet, mem_dedup] using hg⟩
    cases h : toSet e.2 with
    | nil => simp [toSet, dedup_eq_nil] at h; rw [h] at hg; simp at hg
    | cons a b => rfl

theorem startDeferralFamilies_spec (fs : List Fam) (t : Tabs) (g : Fam) :
    ((startDeferralFamilies fs t) g).deferring = (fs.contains g || (t g).deferring) ∧
    ((startDeferralFamilies fs t) g).paths = (t g).paths := by
  induction fs generalizing t with
  | nil => simp [startDeferralFamilies]
  | cons f fs ih =>
      have := ih (startDeferral t f)
      simp only [startDeferralFamilies, List.foldl_cons] at this ⊢
      rw [this.1, this.2]
      by_cases h : g = f
      · subst h; simp [startDeferral]
      · simp [startDeferral, set_other _ _ h, h]

theorem init_ok (cfg : Cfg) :
    stepOk none {} (Spec.init cfg) (initObs cfg).2 = .ok () ∧ Rel (initObs cfg).1 (Spec.init cfg) := by
  have hwf := wfp_mkPending cfg.peers
  have hp : ∀ x, x ∈ pairs (mkPending cfg.peers) ↔ x ∈ (Spec.init cfg).waiting := fun x => mem_pairs_mkPending
  have hdef : (Spec.init cfg).deferred = (Spec.init cfg).waiting.map (·.2) := rfl
  have hrel0 : (Spec.init cfg).released = [] := rfl
  have hheld : ∀ f, held (Spec.init cfg) f = holds f (Spec.init cfg).waiting := by
    intro f
    rw [Bool.eq_iff_iff, holds_iff]
    have : held (Spec.init cfg) f = true ↔ f ∈ (Spec.init cfg).waiting.map (·.2) := by
      simp [held, hdef, hrel0]
    rw [this, List.mem_map]
    constructor
    · rintro ⟨e, he, rfl⟩; exact ⟨e.1, he⟩
    · rintro ⟨p, hp'⟩; exact ⟨(p, f), hp', rfl⟩
  have hnorel : releasedNow ({} : R) (Spec.init cfg) = [] := rfl
  have huniv : ∀ f ∈ (Spec.init cfg).deferred, f ∈ dedup (famUniverse ++ cfg.peers.flatMap (·.2)) := by
    intro f hf
    rw [hdef] at hf
    simp only [List.mem_map] at hf
    obtain ⟨x, hx, rfl⟩ := hf
    simp only [Spec.init, List.mem_flatMap, List.mem_map] at hx
    obtain ⟨e, he, g, hg, rfl⟩ := hx
    rw [helpers_eq] at he
    rw [mem_dedup, List.mem_append]
    exact Or.inr (List.mem_flatMap.mpr ⟨e, dedupLast_sub he, hg⟩)
  by_cases hem : (mkPending cfg.peers).isEmpty = true
  · have hnil := isEmpty_iff_nil.mp hem
    have hw0 : (Spec.init cfg).waiting = [] :=
      eq_nil_of_forall_not_mem fun x hx => by have := (hp x).mpr hx; simp [hnil, pairs] at this
    have hio : initObs cfg = ({ univ := dedup (famUniverse ++ cfg.peers.flatMap (·.2)) },
        { outs := [], changes := [], tag := .absent, pending := [], installed := false,
          flags := flagsOf (fun _ => {}) (dedup (famUniverse ++ cfg.peers.flatMap (·.2))) }) := by
      simp [initObs, init, new, hem, isCompleted]
    rw [hio]
    refine ⟨stepOk_ok (by simp) (by simp [hnorel]) (by simp [hnorel]) (by simp [hnorel]) (by simp) (by simp) (by simp)
      (fun _ => by simp), ?_⟩
    refine ⟨fun m hm => by simp at hm, fun _ => hw0, fun f => ?_, fun f n p => by simp [Spec.init], fun f => by rw [hheld],
      fun _ e he => by simp [Spec.init] at he, huniv⟩
    rw [hheld, hw0]; rfl
  · have hne : mkPending cfg.peers ≠ [] := fun h => hem (isEmpty_iff_nil.mpr h)
    have hio : initObs cfg =
        ({ sd := some (.awaiting (mkPending cfg.peers) cfg.dur),
           tabs := startDeferralFamilies (heldFams (mkPending cfg.peers)) (fun _ => {}),
           univ := dedup (famUniverse ++ cfg.peers.flatMap (·.2)) },
         { outs := [.deferFamilies (heldFams (mkPending cfg.peers))], changes := [], tag := .awaiting,
           pending := mkPending cfg.peers, installed := true,
           flags := flagsOf (startDeferralFamilies (heldFams (mkPending cfg.peers)) (fun _ => {}))
             (dedup (famUniverse ++ cfg.peers.flatMap (·.2))) }) := by
      simp [initObs, init, new, hem, isCompleted, tagOf, pendingOf]
    rw [hio]
    refine ⟨stepOk_ok (by simp) (by simp [hnorel]) (by simp [hnorel]) (by simp [hnorel]) (by simp) ?_ (fun _ => hne) ?_, ?_⟩
    · intro e he
      simp only at he
      have hset := hwf.sets e he
      refine ⟨?_, hset.1⟩
      cases hs : e.2 with
      | nil => exact absurd hs hset.1
      | cons g rest => exact tracked_iff.mpr ⟨g, (hp _).mp (mem_pairs.mpr ⟨e.2, he, by simp [hs]⟩)⟩
    · intro hwn
      exfalso; apply hne
      apply pend_nil_of_pairs_nil hwf
      apply eq_nil_of_forall_not_mem
      intro x hx; have := (hp x).mp hx; rw [hwn] at this; simp at this
    · refine ⟨fun m hm => ?_, fun h => by simp at h, fun f => ?_, fun f n p => ?_, fun f => by rw [hheld],
        fun _ e he => by simp [Spec.init] at he, huniv⟩
      · simp only [Option.some.injEq] at hm; subst hm
        exact ⟨by simp, hwf, hne, hp, by simp [Spec.init, isDeferring]⟩
      · simp only
        rw [(startDeferralFamilies_spec _ _ f).1, hheld, Bool.eq_iff_iff]
        simp only [Bool.or_false, List.contains_iff_mem, mem_heldFams]
        rw [holdsP_iff_holds hp]
      · simp only
        rw [(startDeferralFamilies_spec _ _ f).2]; simp [Spec.init]

/-! ## the master theorem -/

theorem checkFrom_ok (cfg : Cfg) (evs : List Ev) (s : St) (r : R) (i : Nat) (hr : Rel s r) :
    checkFrom cfg r i evs (runFrom s evs).2 = .ok := by
  induction evs generalizing s r i with
  | nil => simp [runFrom, checkFrom]
  | cons e es ih =>
      simp only [runFrom, checkFrom]
      by_cases hwf : wf cfg r e = true
      · obtain ⟨hok, hrel⟩ := step_ok hr e hwf
        simp only [hwf, Bool.not_true, Bool.false_eq_true, ↓reduceIte, hok]
        exact ih _ _ _ hrel
      · simp [hwf]

/-- The C11 reference checker accepts every run of the model. -/
theorem check_run_ok (cfg : Cfg) (evs : List Ev) : Spec.check cfg evs (run cfg evs) = .ok := by
  obtain ⟨hok, hrel⟩ := init_ok cfg
  simp only [run, Spec.check, hok]
  exact checkFrom_ok cfg evs _ _ 1 hrel

end Rbgp.Gr.Restarting
