/-
  Rbgp.Gr.Restarting.Sim — the simulation between the model state and the reference state of
  Spec.lean, and the master theorem `check_run_ok`.
-/
import Rbgp.Gr.Restarting.Proofs
namespace Rbgp.Gr.Restarting
open Rbgp.Gr.Restarting.Spec

/-- The relation kept between a model state and the reference bookkeeping. -/
structure Rel (s : St) (r : R) : Prop where
  sd_some : ∀ m, s.sd = some m → m ≠ .completed ∧ WFp (pendingOf m) ∧ pendingOf m ≠ [] ∧
      (∀ x, x ∈ pairs (pendingOf m) ↔ x ∈ r.waiting) ∧ (r.started = true ↔ isDeferring m = true)
  sd_none : s.sd = none → r.waiting = []
  flags : ∀ f, (s.tabs f).deferring = held r f
  rib : ∀ f n p, (n, p) ∈ (s.tabs f).paths ↔ (f, n, p) ∈ r.rib
  held_iff : ∀ f, held r f = true ↔ holds f r.waiting = true
  up_inv : r.started = false → ∀ e ∈ r.up, tracked r e.1 = false
  univ : ∀ f ∈ r.deferred, f ∈ s.univ

theorem holds_iff {f : Fam} {w : List (Peer × Fam)} : holds f w = true ↔ ∃ p, (p, f) ∈ w := by
  simp only [holds, List.any_eq_true, decide_eq_true_eq]
  constructor
  · rintro ⟨e, he, rfl⟩; exact ⟨e.1, he⟩
  · rintro ⟨p, hp⟩; exact ⟨(p, f), hp, rfl⟩

theorem tracked_iff {r : R} {p : Peer} : tracked r p = true ↔ ∃ f, (p, f) ∈ r.waiting := by
  simp only [tracked, List.any_eq_true, decide_eq_true_eq]
  constructor
  · rintro ⟨e, he, rfl⟩; exact ⟨e.2, he⟩
  · rintro ⟨f, hf⟩; exact ⟨(p, f), hf, rfl⟩

theorem held_mem {r : R} {f : Fam} (h : held r f = true) : f ∈ r.deferred ∧ f ∉ r.released := by
  simpa [held] using h

theorem mem_releasedNow {r r' : R} {f : Fam} :
    f ∈ releasedNow r r' ↔ (held r f = true ∧ holds f r'.waiting = false) := by
  simp only [releasedNow, List.mem_filter, Bool.and_eq_true, Bool.not_eq_eq_eq_not, Bool.not_true]
  constructor
  · rintro ⟨_, h⟩; exact h
  · intro h; exact ⟨(held_mem h.1).1, h⟩

theorem next_waiting (r : R) (i : RIn) : (next r (.rd i)).waiting = nextW r.waiting i := by
  cases i <;> rfl

theorem next_rd_rib (r : R) (i : RIn) : (next r (.rd i)).rib = r.rib := by cases i <;> rfl
theorem next_rd_deferred (r : R) (i : RIn) : (next r (.rd i)).deferred = r.deferred := by cases i <;> rfl
theorem next_rd_released (r : R) (i : RIn) : (next r (.rd i)).released = r.released := by cases i <;> rfl

theorem nextW_sub {w : List (Peer × Fam)} {i : RIn} {x : Peer × Fam} (h : x ∈ nextW w i) : x ∈ w := by
  cases i <;> simp [nextW] at h <;> exact h.1

theorem nextW_congr {w w' : List (Peer × Fam)} (h : ∀ x, x ∈ w ↔ x ∈ w') (i : RIn) (x : Peer × Fam) :
    x ∈ nextW w i ↔ x ∈ nextW w' i := by
  cases i <;> simp [nextW, h]

theorem holdsP_iff_holds {f : Fam} {pend : Pending} {w : List (Peer × Fam)}
    (h : ∀ x, x ∈ pairs pend ↔ x ∈ w) : holdsP f pend ↔ holds f w = true := by
  rw [holds_iff]; simp only [holdsP, h]

theorem eq_nil_of_forall_not_mem {α} {l : List α} (h : ∀ x, x ∉ l) : l = [] := by
  cases l with
  | nil => rfl
  | cons a l => exact absurd (List.mem_cons_self) (h a)

theorem mem_flagsOf {t : Tabs} {u : List Fam} {f : Fam} :
    f ∈ flagsOf t u ↔ (f ∈ u ∧ (t f).deferring = true) := by
  simp [flagsOf]

/-- Releasing a duplicate-free list of families: what is announced for one of them. -/
theorem filter_flatMap_announce {fs : List Fam} (hn : fs.Nodup) (t : Tabs) (f : Fam) :
    (fs.flatMap fun g => announce g (t g).paths).filter (·.fam = f) =
      if f ∈ fs then announce f (t f).paths else [] := by
  induction fs with
  | nil => simp
  | cons g fs ih =>
      rw [List.nodup_cons] at hn
      simp only [List.flatMap_cons, List.filter_append, ih hn.2]
      have hself : ∀ g, (announce g (t g).paths).filter (·.fam = f) =
          if g = f then announce g (t g).paths else [] := by
        intro g
        by_cases h : g = f
        · subst h
          simp only [↓reduceIte]
          apply List.filter_eq_self.mpr
          intro c hc
          simp only [announce, List.mem_map] at hc
          obtain ⟨n, _, rfl⟩ := hc
          simp
        · simp only [h, ↓reduceIte]
          apply List.filter_eq_nil_iff.mpr
          intro c hc
          simp only [announce, List.mem_map] at hc
          obtain ⟨n, _, rfl⟩ := hc
          simpa using h
      rw [hself g]
      by_cases h : g = f
      · subst h
        simp [hn.1]
      · have : f ≠ g := fun h' => h h'.symm
        simp [h, this]

theorem mem_flatMap_announce_fam {fs : List Fam} {t : Tabs} {c : Change}
    (h : c ∈ fs.flatMap fun g => announce g (t g).paths) : c.fam ∈ fs := by
  simp only [List.mem_flatMap, announce, List.mem_map] at h
  obtain ⟨g, hg, n, _, rfl⟩ := h
  exact hg

/-- Appending released families that are not held leaves `held` as it was elsewhere. -/
theorem held_after {r1 : R} {rn : List Fam} (f : Fam) :
    held { r1 with released := r1.released ++ rn } f = (held r1 f && !rn.contains f) := by
  simp only [held, List.contains_append]
  cases r1.deferred.contains f <;> cases r1.released.contains f <;> cases rn.contains f <;> rfl

end Rbgp.Gr.Restarting
