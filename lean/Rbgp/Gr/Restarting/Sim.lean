/-
  Rbgp.Gr.Restarting.Sim — the simulation between the model state and the reference state of
  Spec.lean, and the master theorem `check_run_ok`.
-/
import Rbgp.Gr.Restarting.Proofs
namespace Rbgp.Gr.Restarting
open Rbgp.Gr.Restarting.Spec

/-- The relation kept between a model state and the reference bookkeeping. -/
structure Rel (cfg : Cfg) (s : St) (r : R) : Prop where
  sd_some : ∀ m, s.sd = some m → m ≠ .completed ∧ WFp (pendingOf m) ∧ pendingOf m ≠ [] ∧
      (∀ x, x ∈ pairs (pendingOf m) ↔ x ∈ r.waiting) ∧ (r.started = true ↔ isDeferring m = true)
  sd_none : s.sd = none → r.waiting = []
  flags : ∀ f, (s.tabs f).deferring = held r f
  rib : ∀ f n p, (n, p) ∈ (s.tabs f).paths ↔ (f, n, p) ∈ r.rib
  held_iff : ∀ f, held r f = true ↔ holds f r.waiting = true
  up_inv : r.started = false → ∀ e ∈ r.up, tracked r e.1 = false
  univ : ∀ f ∈ r.deferred, f ∈ s.univ
  timer : s.timer = r.timer
  timer_wait : r.timer = true → r.waiting ≠ []
  dur : ∀ pend d, s.sd = some (.awaiting pend d) → d = effDur cfg.dur
  stale : ∀ f p, p ∈ (s.tabs f).stale ↔ (f, p) ∈ r.stale
  llgr : ∀ f p, p ∈ (s.tabs f).llgr ↔ (f, p) ∈ r.llgr
  invalid : s.invalid = r.invalid
  up : s.up = r.up

theorem holds_iff {f : Fam} {w : List (Peer × Fam)} : holds f w = true ↔ ∃ p, (p, f) ∈ w := by
  simp only [holds, List.any_eq_true, decide_eq_true_eq]
  constructor
  · rintro ⟨e, he, rfl⟩; exact ⟨e.1, he⟩
  · rintro ⟨p, hp⟩; exact ⟨(p, f), hp, rfl⟩

theorem tracked_iff {r : R} {p : Peer} : tracked r p = true ↔ ∃ f, (p, f) ∈ r.waiting := by
  simp only [tracked, List.any_eq_true, decide_eq_true_eq]
  constructor
  · rintro ⟨e, he, rfl⟩; exact ⟨e.2, he⟩
  · rintro ⟨f, hf⟩; exact ⟨(p, f), hf, rfl⟩

theorem held_mem {r : R} {f : Fam} (h : held r f = true) : f ∈ r.deferred ∧ f ∉ r.released := by
  simpa [held] using h

theorem mem_releasedNow {r r' : R} {f : Fam} :
    f ∈ releasedNow r r' ↔ (held r f = true ∧ holds f r'.waiting = false) := by
  simp only [releasedNow, List.mem_filter, Bool.and_eq_true, Bool.not_eq_eq_eq_not, Bool.not_true]
  constructor
  · rintro ⟨_, h⟩; exact h
  · intro h; exact ⟨(held_mem h.1).1, h⟩

theorem next_waiting (r : R) (i : RIn) : (next r (.rd i)).waiting = nextW r.waiting i := by
  cases i <;> rfl

theorem next_rd_rib (r : R) (i : RIn) : (next r (.rd i)).rib = r.rib := by cases i <;> rfl
theorem next_rd_deferred (r : R) (i : RIn) : (next r (.rd i)).deferred = r.deferred := by cases i <;> rfl
theorem next_rd_released (r : R) (i : RIn) : (next r (.rd i)).released = r.released := by cases i <;> rfl

theorem nextW_sub {w : List (Peer × Fam)} {i : RIn} {x : Peer × Fam} (h : x ∈ nextW w i) : x ∈ w := by
  cases i <;> simp [nextW] at h <;> exact h.1

theorem nextW_congr {w w' : List (Peer × Fam)} (h : ∀ x, x ∈ w ↔ x ∈ w') (i : RIn) (x : Peer × Fam) :
    x ∈ nextW w i ↔ x ∈ nextW w' i := by
  cases i <;> simp [nextW, h]

theorem holdsP_iff_holds {f : Fam} {pend : Pending} {w : List (Peer × Fam)}
    (h : ∀ x, x ∈ pairs pend ↔ x ∈ w) : holdsP f pend ↔ holds f w = true := by
  rw [holds_iff]; simp only [holdsP, h]

theorem eq_nil_of_forall_not_mem {α} {l : List α} (h : ∀ x, x ∉ l) : l = [] := by
  cases l with
  | nil => rfl
  | cons a l => exact absurd (List.mem_cons_self) (h a)

theorem mem_flagsOf {t : Tabs} {u : List Fam} {f : Fam} :
    f ∈ flagsOf t u ↔ (f ∈ u ∧ (t f).deferring = true) := by
  simp [flagsOf]

/-- Releasing a duplicate-free list of families: what is announced for one of them. -/
theorem filter_flatMap_announce {fs : List Fam} (hn : fs.Nodup) (P : Fam → List (Nat × Peer)) (f : Fam) :
    (fs.flatMap fun g => announce g (P g)).filter (·.fam = f) =
      if f ∈ fs then announce f (P f) else [] := by
  induction fs with
  | nil => simp
  | cons g fs ih =>
      rw [List.nodup_cons] at hn
      simp only [List.flatMap_cons, List.filter_append, ih hn.2]
      have hself : ∀ g, (announce g (P g)).filter (·.fam = f) =
          if g = f then announce g (P g) else [] := by
        intro g
        by_cases h : g = f
        · subst h
          simp only [↓reduceIte]
          apply List.filter_eq_self.mpr
          intro c hc
          simp only [announce, List.mem_map] at hc
          obtain ⟨n, _, rfl⟩ := hc
          simp
        · simp only [h, ↓reduceIte]
          apply List.filter_eq_nil_iff.mpr
          intro c hc
          simp only [announce, List.mem_map] at hc
          obtain ⟨n, _, rfl⟩ := hc
          simpa using h
      rw [hself g]
      by_cases h : g = f
      · subst h
        simp [hn.1]
      · have : f ≠ g := fun h' => h h'.symm
        simp [h, this]

theorem mem_flatMap_announce_fam {fs : List Fam} {P : Fam → List (Nat × Peer)} {c : Change}
    (h : c ∈ fs.flatMap fun g => announce g (P g)) : c.fam ∈ fs := by
  simp only [List.mem_flatMap, announce, List.mem_map] at h
  obtain ⟨g, hg, n, _, rfl⟩ := h
  exact hg

/-- Appending released families that are not held leaves `held` as it was elsewhere. -/
theorem held_after {r1 : R} {rn : List Fam} (f : Fam) :
    held { r1 with released := r1.released ++ rn } f = (held r1 f && !rn.contains f) := by
  simp only [held, List.contains_append]
  cases r1.deferred.contains f <;> cases r1.released.contains f <;> cases rn.contains f <;> rfl

/-- the reference state after a checked step -/
def advance (cfg : Cfg) (r : R) (e : Ev) : R :=
  let r1 := next r e
  { r1 with released := r1.released ++ releasedNow r r1, timer := timerAfter cfg r r1 }

theorem held_advance (cfg : Cfg) (r : R) (e : Ev) (f : Fam) :
    held (advance cfg r e) f = (held (next r e) f && !(releasedNow r (next r e)).contains f) := by
  simp only [held, advance, List.contains_append]
  cases (next r e).deferred.contains f <;> cases (next r e).released.contains f <;>
    cases (releasedNow r (next r e)).contains f <;> rfl

theorem next_timer (r : R) (i : RIn) : (next r (.rd i)).timer = r.timer := by cases i <;> rfl
theorem next_rd_stale (r : R) (i : RIn) : (next r (.rd i)).stale = r.stale := by cases i <;> rfl
theorem next_rd_llgr (r : R) (i : RIn) : (next r (.rd i)).llgr = r.llgr := by cases i <;> rfl
theorem next_rd_invalid (r : R) (i : RIn) : (next r (.rd i)).invalid = r.invalid := by cases i <;> rfl

/-- the reference `started` flag: set by the first helper that establishes and is still waited for -/
theorem next_started (r : R) (i : RIn) :
    (next r (.rd i)).started = true ↔
      (r.started = true ∨ ∃ p fams, i = .est p fams ∧ ∃ f, (p, f) ∈ (next r (.rd i)).waiting) := by
  cases i with
  | est p fams =>
      simp only [next, Bool.or_eq_true, List.any_eq_true, decide_eq_true_eq, RIn.est.injEq]
      constructor
      · rintro (h | ⟨e, he, rfl⟩)
        · exact Or.inl h
        · exact Or.inr ⟨e.1, fams, ⟨rfl, rfl⟩, e.2, he⟩
      · rintro (h | ⟨q, fams', ⟨rfl, rfl⟩, f, hf⟩)
        · exact Or.inl h
        · exact Or.inr ⟨(_, f), hf, rfl⟩
  | eor p f => simp [next]
  | wd p => simp [next]
  | timer => simp [next]

theorem sdt_eq (d : Option Nat) : selectionDeferralTime d = effDur d := by
  cases d with
  | none => rfl
  | some n => cases n <;> rfl

theorem waiting_ne_nil {cfg : Cfg} {s : St} {r : R} (hr : Rel cfg s r) {m : RInner} (hm : s.sd = some m) :
    r.waiting ≠ [] := by
  obtain ⟨_, hw, hne, hp, _⟩ := hr.sd_some m hm
  intro h0
  apply hne
  apply pend_nil_of_pairs_nil hw
  apply eq_nil_of_forall_not_mem
  intro x hx
  have := (hp x).mp hx
  rw [h0] at this; simp at this

theorem inputOk_of_wf {cfg : Cfg} {s : St} {r : R} (hr : Rel cfg s r) {m : RInner} (hm : s.sd = some m)
    {i : RIn} (hwf : wf cfg r (.rd i) = true) : InputOk m i := by
  intro pend dur hma
  obtain ⟨_, hw, _, hp, hst⟩ := hr.sd_some m hm
  have hwne := waiting_ne_nil hr hm
  have hns : r.started = false := by
    cases h : r.started with
    | false => rfl
    | true => have := hst.mp h; simp [hma, isDeferring] at this
  refine ⟨?_, ?_⟩
  · rintro rfl
    have hie : r.waiting.isEmpty = false := by
      cases h : r.waiting with
      | nil => exact absurd h hwne
      | cons a l => rfl
    simp [wf, hns, hie] at hwf
  · rintro p f rfl
    cases hl : lookup p pend with
    | none => rfl
    | some set =>
        exfalso
        subst hma
        have hset := hw.sets _ (mem_of_lookup_some hl)
        have htr : tracked r p = true := by
          cases hs : set with
          | nil => exact absurd hs hset.1
          | cons g rest =>
              have : (p, g) ∈ pairs pend := (mem_pairs_self hw hl).mpr (by simp [hs])
              exact tracked_iff.mpr ⟨g, (hp _).mp this⟩
        simp only [wf, htr, Bool.not_true, Bool.false_or] at hwf
        cases hu : upFams r p with
        | none => simp [hu] at hwf
        | some fs =>
            simp only [upFams, Option.map_eq_some_iff] at hu
            obtain ⟨e, he, rfl⟩ := hu
            have hmem := List.mem_of_find?_eq_some he
            have hpe : e.1 = p := by simpa using List.find?_some he
            have hnt := hr.up_inv hns e hmem
            rw [hpe, htr] at hnt; cases hnt

theorem tagOf_ne_absent (m : RInner) : tagOf m ≠ .absent := by cases m <;> simp [tagOf]

theorem step_rd {cfg : Cfg} {s : St} {r : R} (hr : Rel cfg s r) (i : RIn) (hwf : wf cfg r (.rd i) = true) :
    stepOk cfg (some (.rd i)) r (next r (.rd i)) (step s (.rd i)).2 = .ok () ∧
    Rel cfg (step s (.rd i)).1 (advance cfg r (.rd i)) := by
  have hw1 : (next r (.rd i)).waiting = nextW r.waiting i := next_waiting r i
  cases hsd : s.sd with
  | none =>
      have hw0 := hr.sd_none hsd
      have hw' : (next r (.rd i)).waiting = [] := by rw [hw1, hw0]; cases i <;> simp [nextW]
      have hnoheld : ∀ f, held r f = false := by
        intro f
        cases h : held r f with
        | false => rfl
        | true => have := (hr.held_iff f).mp h; simp [hw0, holds] at this
      have hrn : releasedNow r (next r (.rd i)) = [] :=
        eq_nil_of_forall_not_mem fun f hf => by simpa [hnoheld f] using (mem_releasedNow.mp hf).1
      have hrt : r.timer = false := by
        cases h : r.timer with
        | false => rfl
        | true => exact absurd hw0 (hr.timer_wait h)
      have hst' : (next r (.rd i)).started = r.started := by
        rw [Bool.eq_iff_iff, next_started]
        constructor
        · rintro (h | ⟨p, fams, _, f, hf⟩)
          · exact h
          · rw [hw'] at hf; simp at hf
        · exact Or.inl
      have htA : timerAfter cfg r (next r (.rd i)) = false := by simp [timerAfter, hw']
      have hstep : step s (.rd i) =
          ({ s with up := (next r (.rd i)).up },
           { outs := [], changes := [], tag := .absent, pending := [], installed := false,
             flags := flagsOf s.tabs s.univ, timer := s.timer }) := by
        cases i <;> simp [step, hsd, obsOf, next, hr.up]
      rw [hstep]
      refine ⟨stepOk_ok (by simp) (fun f _ h => by simp [hnoheld f] at h) (by simp [hrn]) (by simp [hrn])
        (fun f _ _ => ⟨by simp [mentions], by simp⟩) (by simp) (by simp) (fun _ => by simp) (by simp)
        (fun h => absurd hw' h) (by simp [hst']) (by simp only; rw [htA, hr.timer, hrt]) (fun h => by cases h), ?_⟩
      have hadv : advance cfg r (.rd i) = next r (.rd i) := by
        have : (next r (.rd i)).timer = false := by rw [next_timer, hrt]
        simp [advance, hrn, htA, ← this]
      rw [hadv]
      have hheld' : ∀ f, held (next r (.rd i)) f = held r f := by
        intro f; simp [held, next_rd_deferred, next_rd_released]
      refine ⟨fun m hm => by simp [hsd] at hm, fun _ => hw', fun f => by rw [hheld']; exact hr.flags f,
        fun f n p => by rw [next_rd_rib]; exact hr.rib f n p, fun f => ?_, fun _ e he => ?_, fun f hf => ?_,
        (by rw [next_timer]; exact hr.timer), (fun h => by rw [next_timer, hrt] at h; cases h),
        (fun pend d h => by simp [hsd] at h),
        (fun f p => by rw [next_rd_stale]; exact hr.stale f p),
        (fun f p => by rw [next_rd_llgr]; exact hr.llgr f p),
        (by rw [next_rd_invalid]; exact hr.invalid), rfl⟩
      · rw [hheld', hnoheld f, hw']; simp [holds]
      · simp [tracked, hw']
      · rw [next_rd_deferred] at hf; exact hr.univ f hf
  | some m =>
      obtain ⟨hmc, hw, hne, hp, hst⟩ := hr.sd_some m hsd
      have hi := inputOk_of_wf hr hsd hwf
      have sp := process_spec m i hw (fun _ => hne) hi
      have htag0 := process_tag m i hw
      have hpst := process_startTimer m i
      obtain ⟨cs, tail, hsh⟩ := sp.shape
      generalize hm' : (process m i).1 = m' at sp htag0 hpst
      generalize houts : (process m i).2 = outs at sp hsh hpst
      have ha := applyOuts_spec { s with sd := some m', up := (next r (.rd i)).up } outs
      obtain ⟨e1, e2, e3, e4, e5⟩ := endDeferralFamilies_spec s.invalid (relFams outs) s.tabs
      generalize hA : applyOuts { s with sd := some m', up := (next r (.rd i)).up } outs = A at ha
      have hstep : step s (.rd i) = (A.1, obsOf A.1 outs A.2) := by
        rw [← hA, ← hm', ← houts]
        cases i <;> simp [step, hsd, next, hr.up]
      rw [hstep]
      obtain ⟨ha1, ha2, ha3, ha4, ha5, ha6, ha7⟩ := ha
      simp only at ha1 ha2 ha3 ha4 ha5 ha6 ha7
      -- pairs of the new machine vs. the new waiting list
      have hp' : ∀ x, x ∈ pairs (pendingOf m') ↔ x ∈ (next r (.rd i)).waiting := by
        intro x; rw [sp.pairs, hw1]; exact nextW_congr hp i x
      have hsub : ∀ x, x ∈ (next r (.rd i)).waiting → x ∈ r.waiting := by
        intro x hx; rw [hw1] at hx; exact nextW_sub hx
      -- the machine is done exactly when nothing is waited for any more
      have hdone : m' = .completed ↔ (next r (.rd i)).waiting = [] := by
        constructor
        · intro h
          apply eq_nil_of_forall_not_mem
          intro x hx
          have := (hp' x).mpr hx
          simp [h, pendingOf, pairs] at this
        · intro hwn
          have hpn : pendingOf m' = [] :=
            pend_nil_of_pairs_nil sp.wf (eq_nil_of_forall_not_mem fun x hx => by
              have := (hp' x).mp hx; rw [hwn] at this; simp at this)
          cases hm'c : m' with
          | completed => rfl
          | awaiting q d => exact absurd hpn (sp.nonempty (by simp [hm'c]))
          | deferring q => exact absurd hpn (sp.nonempty (by simp [hm'c]))
      have hendc : (endRemaining outs).isSome = true ↔ m' = .completed := sp.ended hmc
      -- what is observed of the machine after the glue ran
      have hobs : ∃ T P I, obsOf A.1 outs A.2 =
            { outs := outs, changes := A.2, tag := T, pending := P, installed := I,
              flags := flagsOf A.1.tabs s.univ, timer := A.1.timer } ∧
            (m' = .completed → T = .absent ∧ P = [] ∧ I = false) ∧
            (m' ≠ .completed → T = tagOf m' ∧ P = pendingOf m' ∧ I = true) := by
        by_cases hend : (endRemaining outs).isSome = true
        · have hsdA : A.1.sd = none := by rw [ha3]; simp [hend]
          exact ⟨.absent, [], false, by simp [obsOf, hsdA, ha4], fun _ => ⟨rfl, rfl, rfl⟩,
            fun h => absurd (hendc.mp hend) h⟩
        · have hsdA : A.1.sd = some m' := by rw [ha3]; simp [hend]
          exact ⟨tagOf m', pendingOf m', true, by simp [obsOf, hsdA, ha4],
            fun h => absurd (hendc.mpr h) hend, fun _ => ⟨rfl, rfl, rfl⟩⟩
      obtain ⟨T, P, I, hobsEq, hoC, hoN⟩ := hobs
      rw [hobsEq]
      -- released families
      have hrel : ∀ f, f ∈ relFams outs ↔ f ∈ releasedNow r (next r (.rd i)) := by
        intro f
        rw [sp.rel_mem, mem_releasedNow, holdsP_iff_holds hp, holdsP_iff_holds hp', hr.held_iff]
        simp
      have hfl : ∀ f, (A.1.tabs f).deferring = (if f ∈ relFams outs then false else held r f) := by
        intro f; rw [ha1, e2, hr.flags]
      have hpa : ∀ f, (A.1.tabs f).paths = (s.tabs f).paths := by
        intro f; rw [ha1, e1]
      have hch : A.2 = (relFams outs).flatMap fun g => announce g (usable s.invalid (s.tabs g).paths) := by
        rw [ha2, e3]
      -- the `started` flag of the reference follows the machine leaving `AwaitingStart`
      have hstd : (next r (.rd i)).started = true ↔ (r.started = true ∨ isDeferring m' = true) := by
        rw [next_started]
        by_cases hc : m' = .completed
        · have hwn := hdone.mp hc
          constructor
          · rintro (h | ⟨p, fams, _, f, hf⟩)
            · exact Or.inl h
            · rw [hwn] at hf; simp at hf
          · rintro (h | h)
            · exact Or.inl h
            · simp [hc, isDeferring] at h
        · have htag := htag0 hc
          constructor
          · rintro (h | ⟨p, fams, rfl, f, hf⟩)
            · exact Or.inl h
            · exact Or.inr (htag.mpr (Or.inr ⟨p, fams, rfl, f, (hp' _).mpr hf⟩))
          · rintro (h | h)
            · exact Or.inl h
            · rcases htag.mp h with h | ⟨p, fams, rfl, f, hf⟩
              · exact Or.inl (hst.mpr h)
              · exact Or.inr ⟨p, fams, rfl, f, (hp' _).mp hf⟩
      have hflt : outs.filter isStartTimer =
          (if (!r.started && (next r (.rd i)).started) = true then [.startTimer (effDur cfg.dur)] else []) := by
        rw [hpst]
        cases m with
        | completed => exact absurd rfl hmc
        | deferring pd =>
            have : r.started = true := hst.mpr rfl
            simp [this]
        | awaiting pd d =>
            have hd := hr.dur pd d hsd
            have hns : r.started = false := by
              cases h : r.started with
              | false => rfl
              | true => have := hst.mp h; simp [isDeferring] at this
            have : (next r (.rd i)).started = isDeferring m' := by
              rw [Bool.eq_iff_iff, hstd]; simp [hns]
            simp [hns, this, hd]
      have htm : A.1.timer = timerAfter cfg r (next r (.rd i)) := by
        rw [ha5, hr.timer]
        by_cases hsn : (!r.started && (next r (.rd i)).started) = true
        · rw [if_pos hsn] at hflt
          rw [startsTimer_iff _ _ hflt]
          have hdef : isDeferring m' = true := by
            simp only [Bool.and_eq_true, Bool.not_eq_eq_eq_not, Bool.not_true] at hsn
            rcases hstd.mp hsn.2 with h | h
            · rw [hsn.1] at h; cases h
            · exact h
          have hnc : m' ≠ .completed := by rintro rfl; simp [isDeferring] at hdef
          have hend : (endRemaining outs).isSome = false := by
            cases h : (endRemaining outs).isSome with
            | false => rfl
            | true => exact absurd (hendc.mp h) hnc
          have hwne : (next r (.rd i)).waiting.isEmpty = false := by
            cases h : (next r (.rd i)).waiting with
            | nil => exact absurd (hdone.mpr h) hnc
            | cons a l => rfl
          simp only [Bool.and_eq_true, Bool.not_eq_eq_eq_not, Bool.not_true] at hsn
          simp only [timerAfter, hwne, hsn.1, hsn.2, hend]
          cases (effDur cfg.dur).isSome <;> simp
        · rw [if_neg hsn] at hflt
          rw [startsTimer_false _ hflt]
          have hsn' : (!r.started && (next r (.rd i)).started) = false := by simpa using hsn
          by_cases hc : m' = .completed
          · have hend := hendc.mpr hc
            simp [timerAfter, hdone.mp hc, hend]
          · have hend : (endRemaining outs).isSome = false := by
              cases h : (endRemaining outs).isSome with
              | false => rfl
              | true => exact absurd (hendc.mp h) hc
            have hwne : (next r (.rd i)).waiting.isEmpty = false := by
              cases h : (next r (.rd i)).waiting with
              | nil => exact absurd (hdone.mpr h) hc
              | cons a l => rfl
            simp only [timerAfter, hwne, hend, Bool.false_eq_true, ↓reduceIte, Bool.not_false, Bool.true_and]
            rw [hsn']; simp
      refine ⟨stepOk_ok ?_ ?_ ?_ ?_ ?_ ?_ ?_ ?_ ?_ ?_ hflt htm (fun h => by cases h), ?_⟩
      · intro c hc _
        simp only at hc; rw [hch] at hc
        exact (hrel _).mp (mem_flatMap_announce_fam hc)
      · intro f hf hh hnr
        have hnr' : f ∉ relFams outs := fun h => hnr ((hrel f).mp h)
        refine ⟨mem_flagsOf.mpr ⟨hr.univ f hf, by rw [hfl, if_neg hnr', hh]⟩, ?_⟩
        cases hmn : mentions outs f with
        | false => rfl
        | true => exact absurd ((hsh.mentions f).mp hmn) hnr'
      · intro f hf hfl'
        have := (mem_flagsOf.mp hfl').2
        rw [hfl, if_pos ((hrel f).mpr hf)] at this; cases this
      · intro f hf
        apply exactRelease_announce (paths := usable s.invalid (s.tabs f).paths)
        · intro n p
          rw [next_rd_rib, next_rd_invalid, ← hr.invalid]
          simp only [usable, List.mem_filter, hr.rib]
        · simp only; rw [hch, filter_flatMap_announce sp.rel_nodup, if_pos ((hrel f).mpr hf)]
      · intro f hf hfr
        have hnh : held r f = false := by simp [held, hfr]
        have hnr' : f ∉ relFams outs := fun h => by
          have := (mem_releasedNow.mp ((hrel f).mp h)).1; rw [hnh] at this; cases this
        refine ⟨?_, fun _ c hc => ?_⟩
        · cases hmn : mentions outs f with
          | false => rfl
          | true => exact absurd ((hsh.mentions f).mp hmn) hnr'
        · simp only at hc; rw [hch] at hc
          intro hcf; exact hnr' (hcf ▸ mem_flatMap_announce_fam hc)
      · intro e he
        simp only at he
        by_cases hc : m' = .completed
        · rw [(hoC hc).2.1] at he; simp at he
        · rw [(hoN hc).2.1] at he
          have hset := sp.wf.sets e he
          refine ⟨?_, hset.1⟩
          cases hs : e.2 with
          | nil => exact absurd hs hset.1
          | cons g rest =>
              exact tracked_iff.mpr ⟨g, (hp' _).mp (mem_pairs.mpr ⟨e.2, he, by simp [hs]⟩)⟩
      · intro ht
        simp only at ht ⊢
        by_cases hc : m' = .completed
        · rw [(hoC hc).1] at ht; simp at ht
        · rw [(hoN hc).2.1]; exact sp.nonempty hc
      · intro hwn
        have hc := hdone.mpr hwn
        obtain ⟨a, _, c⟩ := hoC hc
        simp only
        exact ⟨by simp [a], by simp [a], c⟩
      · simp only
        by_cases hc : m' = .completed
        · rw [(hoC hc).1]; simp
        · rw [(hoN hc).1]; cases m' <;> simp_all [tagOf]
      · intro hwn
        have hc : m' ≠ .completed := fun h => hwn (hdone.mp h)
        obtain ⟨a, _, c⟩ := hoN hc
        simp only
        exact ⟨by rw [a]; exact tagOf_ne_absent m', c⟩
      -- the relation afterwards
      · have hadvw : (advance cfg r (.rd i)).waiting = (next r (.rd i)).waiting := rfl
        have hheld : ∀ f, held (advance cfg r (.rd i)) f = (held r f && !(relFams outs).contains f) := by
          intro f
          have h1 : held (advance cfg r (.rd i)) f =
              (held (next r (.rd i)) f && !(releasedNow r (next r (.rd i))).contains f) := by
            simp only [held, advance, List.contains_append]
            cases (next r (.rd i)).deferred.contains f <;> cases (next r (.rd i)).released.contains f <;>
              cases (releasedNow r (next r (.rd i))).contains f <;> rfl
          have h2 : held (next r (.rd i)) f = held r f := by
            simp [held, next_rd_deferred, next_rd_released]
          rw [h1, h2]
          by_cases hf : f ∈ relFams outs
          · simp [hf, (hrel f).mp hf]
          · have : f ∉ releasedNow r (next r (.rd i)) := fun h => hf ((hrel f).mpr h)
            simp [hf, this]
        refine ⟨?_, ?_, ?_, ?_, ?_, ?_, ?_, htm, ?_, ?_,
          (fun f p => by rw [ha1, e4]; show _ ↔ (f, p) ∈ (next r (.rd i)).stale; rw [next_rd_stale]; exact hr.stale f p),
          (fun f p => by rw [ha1, e5]; show _ ↔ (f, p) ∈ (next r (.rd i)).llgr; rw [next_rd_llgr]; exact hr.llgr f p),
          (by rw [ha6]; show _ = (next r (.rd i)).invalid; rw [next_rd_invalid]; exact hr.invalid), ha7⟩
        · intro m2 hm2
          rw [ha3] at hm2
          by_cases hend : (endRemaining outs).isSome = true
          · simp [hend] at hm2
          · simp only [hend, Bool.false_eq_true, ↓reduceIte, Option.some.injEq] at hm2
            subst hm2
            have hnc : m' ≠ .completed := fun h => hend (hendc.mpr h)
            refine ⟨hnc, sp.wf, sp.nonempty hnc, fun x => by rw [hadvw]; exact hp' x, ?_⟩
            show (next r (.rd i)).started = true ↔ _
            rw [hstd]
            constructor
            · rintro (h | h)
              · exact (htag0 hnc).mpr (Or.inl (hst.mp h))
              · exact h
            · exact Or.inr
        · intro hnone
          rw [ha3] at hnone
          by_cases hend : (endRemaining outs).isSome = true
          · rw [hadvw]; exact hdone.mp (hendc.mp hend)
          · simp [hend] at hnone
        · intro f; rw [hfl, hheld]
          by_cases hf : f ∈ relFams outs <;> simp [hf]
        · intro f n p
          rw [hpa]
          show _ ↔ (f, n, p) ∈ (next r (.rd i)).rib
          rw [next_rd_rib]; exact hr.rib f n p
        · intro f
          rw [hheld, hadvw]
          by_cases hf : f ∈ relFams outs
          · have := mem_releasedNow.mp ((hrel f).mp hf)
            simp [hf, this.2]
          · have hcf : (relFams outs).contains f = false := by simpa using hf
            rw [hcf]
            simp only [Bool.not_false, Bool.and_true]
            constructor
            · intro hh
              cases hh2 : holds f (next r (.rd i)).waiting with
              | true => rfl
              | false => exact absurd ((hrel f).mpr (mem_releasedNow.mpr ⟨hh, hh2⟩)) hf
            · intro hh
              obtain ⟨p, hp2⟩ := holds_iff.mp hh
              exact (hr.held_iff f).mpr (holds_iff.mpr ⟨p, hsub _ hp2⟩)
        · intro hns e he
          have htr : ∀ q, tracked r q = false → tracked (advance cfg r (.rd i)) q = false := by
            intro q hq
            cases h : tracked (advance cfg r (.rd i)) q with
            | false => rfl
            | true =>
                obtain ⟨f, hf⟩ := tracked_iff.mp h
                have : tracked r q = true := tracked_iff.mpr ⟨f, hsub _ hf⟩
                rw [hq] at this; cases this
          cases i with
          | est p fams =>
              simp only [advance, next, Bool.or_eq_false_iff] at hns he
              simp only [List.mem_cons, List.mem_filter] at he
              rcases he with rfl | ⟨he, _⟩
              · simpa [advance, next, tracked] using hns.2
              · exact htr _ (hr.up_inv hns.1 e he)
          | eor p f => exact htr _ (hr.up_inv (by simpa [advance, next] using hns) e (by simpa [advance, next] using he))
          | wd p =>
              simp only [advance, next, List.mem_filter] at he
              exact htr _ (hr.up_inv (by simpa [advance, next] using hns) e he.1)
          | timer => exact htr _ (hr.up_inv (by simpa [advance, next] using hns) e (by simpa [advance, next] using he))
        · intro f hf
          rw [ha4]
          exact hr.univ f (by simpa [advance, next_rd_deferred] using hf)
        · intro h
          have h' : timerAfter cfg r (next r (.rd i)) = true := h
          rw [hadvw]
          intro hwn
          simp [timerAfter, hwn] at h'
        · intro pend d hsd2
          rw [ha3] at hsd2
          by_cases hend : (endRemaining outs).isSome = true
          · simp [hend] at hsd2
          · simp only [hend, Bool.false_eq_true, ↓reduceIte, Option.some.injEq] at hsd2
            -- an `AwaitingStart` result can only come from `AwaitingStart`, with the same duration
            have hnd : isDeferring m' = false := by rw [hsd2]; rfl
            have hnc : m' ≠ .completed := by rw [hsd2]; simp
            have hmd : isDeferring m = false := by
              cases h : isDeferring m with
              | false => rfl
              | true => have := (htag0 hnc).mpr (Or.inl h); rw [hnd] at this; cases this
            cases m with
            | completed => exact absurd rfl hmc
            | deferring pd => simp [isDeferring] at hmd
            | awaiting pd d0 =>
                have hd0 := hr.dur pd d0 hsd
                have := process_awaiting_dur pd d0 i
                rw [hm', hsd2] at this
                rw [← hd0]; exact this pend d rfl

/-! ## RIB mutators -/

/-- the tables against the reference's view of them -/
def RelT (t : Tabs) (r : R) : Prop :=
  (∀ f n p, (n, p) ∈ (t f).paths ↔ (f, n, p) ∈ r.rib) ∧
  (∀ f p, p ∈ (t f).stale ↔ (f, p) ∈ r.stale) ∧
  (∀ f p, p ∈ (t f).llgr ↔ (f, p) ∈ r.llgr)

theorem Rel.relT {cfg : Cfg} {s : St} {r : R} (hr : Rel cfg s r) : RelT s.tabs r := ⟨hr.rib, hr.stale, hr.llgr⟩

/-- What the property needs from every RIB mutator (`insert_route`, `remove_route`, `drop_families`,
    `mark_stale`, `mark_llgr_stale`, `drop_stale_families`, `drop_llgr_stale_families`,
    `update_nexthop_validity`, `unregister_peer`): the deferral flags stay, and no change is
    returned for a family whose flag is set. -/
structure TabOp (t t' : Tabs) (changes : List Change) : Prop where
  flag : ∀ g, (t' g).deferring = (t g).deferring
  quiet : ∀ c ∈ changes, (t c.fam).deferring = false

theorem TabOp.refl (t : Tabs) : TabOp t t [] := ⟨fun _ => rfl, fun _ h => by simp at h⟩

theorem TabOp.trans {t t1 t2 : Tabs} {c1 c2 : List Change} (h1 : TabOp t t1 c1) (h2 : TabOp t1 t2 c2) :
    TabOp t t2 (c1 ++ c2) := by
  refine ⟨fun g => by rw [h2.flag, h1.flag], fun c hc => ?_⟩
  rcases List.mem_append.mp hc with h | h
  · exact h1.quiet c h
  · rw [← h1.flag]; exact h2.quiet c h

theorem set_apply (t : Tabs) (f g : Fam) (x : Rib) : (t.set f x) g = if g = f then x else t g := rfl

/-- an operation that only rewrites the path list of one family -/
theorem tabOp_setPaths (t : Tabs) (f : Fam) (X : List (Nat × Peer)) (changes : List Change)
    (hq : ∀ c ∈ changes, c.fam = f ∧ (t f).deferring = false) :
    TabOp t (t.set f { t f with paths := X }) changes := by
  refine ⟨fun g => ?_, fun c hc => ?_⟩
  · rw [set_apply]; by_cases h : g = f
    · subst h; simp
    · simp [h]
  · obtain ⟨a, b⟩ := hq c hc; rw [a]; exact b

theorem relT_setPaths {t : Tabs} {r : R} (h : RelT t r) (f : Fam) (X : List (Nat × Peer))
    (rib' : List (Fam × Nat × Peer)) (hx : ∀ n p, (n, p) ∈ X ↔ (f, n, p) ∈ rib')
    (ho : ∀ g n p, g ≠ f → ((g, n, p) ∈ rib' ↔ (g, n, p) ∈ r.rib)) :
    RelT (t.set f { t f with paths := X }) { r with rib := rib' } := by
  obtain ⟨h1, h2, h3⟩ := h
  refine ⟨fun g n p => ?_, fun g p => ?_, fun g p => ?_⟩
  · rw [set_apply]; by_cases hg : g = f
    · subst hg; simpa using hx n p
    · simp only [hg, ↓reduceIte]; rw [ho g n p hg]; exact h1 g n p
  · rw [set_apply]; by_cases hg : g = f
    · subst hg; simpa using h2 g p
    · simpa [hg] using h2 g p
  · rw [set_apply]; by_cases hg : g = f
    · subst hg; simpa using h3 g p
    · simpa [hg] using h3 g p

theorem changes_if {b : Bool} {l : List Change} {c : Change} (h : c ∈ (if b = true then [] else l)) :
    b = false ∧ c ∈ l := by
  cases b with
  | true => simp at h
  | false => exact ⟨rfl, by simpa using h⟩

/-! ### insert / remove / drop -/

theorem insert_tabOp (inv : List Peer) (t : Tabs) (p : Peer) (f : Fam) (n : Nat) :
    TabOp t (insert inv t p f n).1 (insert inv t p f n).2 := by
  apply tabOp_setPaths
  intro c hc
  obtain ⟨hd, hc⟩ := changes_if hc
  simp only [List.mem_singleton] at hc
  exact ⟨by rw [hc], hd⟩

theorem insert_relT (inv : List Peer) {t : Tabs} {r : R} (h : RelT t r) (p : Peer) (f : Fam) (n : Nat) :
    RelT (insert inv t p f n).1 (next r (.ins p f n)) := by
  have hrib := h.1
  by_cases hcc : (f, n, p) ∈ r.rib
  · have hm : (n, p) ∈ (t f).paths := (hrib f n p).mpr hcc
    have : next r (.ins p f n) = { r with rib := r.rib } := by simp [next, hcc]
    rw [this]
    apply relT_setPaths h
    · intro m q; simp [hm, hrib]
    · intro g m q _; rfl
  · have hm : (n, p) ∉ (t f).paths := fun h' => hcc ((hrib f n p).mp h')
    have : next r (.ins p f n) = { r with rib := r.rib ++ [(f, n, p)] } := by simp [next, hcc]
    rw [this]
    apply relT_setPaths h
    · intro m q; simp [hm, hrib]
    · intro g m q hg
      simp only [List.mem_append, List.mem_singleton, Prod.mk.injEq]
      constructor
      · rintro (h' | ⟨h', _⟩)
        · exact h'
        · exact absurd h' hg
      · exact Or.inl

theorem remove_tabOp (inv : List Peer) (t : Tabs) (p : Peer) (f : Fam) (n : Nat) :
    TabOp t (remove inv t p f n).1 (remove inv t p f n).2 := by
  unfold remove
  by_cases hm : (t f).paths.contains (n, p) = true
  · simp only [hm, ↓reduceIte]
    apply tabOp_setPaths
    intro c hc
    obtain ⟨hd, hc⟩ := changes_if hc
    simp only [List.mem_singleton] at hc
    exact ⟨by rw [hc], hd⟩
  · simp only [hm, Bool.false_eq_true, ↓reduceIte]; exact TabOp.refl t

theorem remove_relT (inv : List Peer) {t : Tabs} {r : R} (h : RelT t r) (p : Peer) (f : Fam) (n : Nat) :
    RelT (remove inv t p f n).1 (next r (.rm p f n)) := by
  have hrib := h.1
  have hn : next r (.rm p f n) = { r with rib := r.rib.filter (· ≠ (f, n, p)) } := rfl
  rw [hn]
  unfold remove
  by_cases hm : (t f).paths.contains (n, p) = true
  · simp only [hm, ↓reduceIte]
    apply relT_setPaths h
    · intro m q; simp [hrib]
    · intro g m q hg; simp [hg]
  · simp only [hm, Bool.false_eq_true, ↓reduceIte]
    have hnm : (f, n, p) ∉ r.rib := fun h' => hm (by simpa using (hrib f n p).mpr h')
    obtain ⟨h1, h2, h3⟩ := h
    refine ⟨fun g m q => ?_, h2, h3⟩
    rw [h1]
    simp only [List.mem_filter, ne_eq, decide_not, Bool.not_eq_eq_eq_not, Bool.not_true, decide_eq_false_iff_not]
    constructor
    · intro h'; exact ⟨h', fun he => hnm (he ▸ h')⟩
    · exact fun h' => h'.1

theorem dropPeer_tabOp (inv : List Peer) (t : Tabs) (p : Peer) (f : Fam) :
    TabOp t (dropPeer inv t p f).1 (dropPeer inv t p f).2 := by
  apply tabOp_setPaths
  intro c hc
  obtain ⟨hd, hc⟩ := changes_if hc
  simp only [List.mem_map] at hc
  obtain ⟨m, _, rfl⟩ := hc
  simp only [Bool.or_eq_false_iff] at hd
  exact ⟨rfl, hd.1⟩

theorem dropPeer_relT (inv : List Peer) {t : Tabs} {r : R} (h : RelT t r) (p : Peer) (f : Fam) :
    RelT (dropPeer inv t p f).1 (dropRoutes r p f) := by
  have hrib := h.1
  unfold dropRoutes
  apply relT_setPaths h
  · intro m q; simp [hrib]
  · intro g m q hg; simp [hg]

/-! ### stale marks -/

theorem mem_touched {paths : List (Nat × Peer)} {p : Peer} :
    (prefixes (paths.filter (fun e => e.2 = p))).isEmpty = false ↔ ∃ n, (n, p) ∈ paths := by
  cases hpe : prefixes (paths.filter (fun e => e.2 = p)) with
  | nil =>
      simp only [List.isEmpty_nil, Bool.true_eq_false, false_iff, not_exists]
      intro n hn
      have : n ∈ prefixes (paths.filter (fun e => e.2 = p)) :=
        mem_prefixes.mpr ⟨p, List.mem_filter.mpr ⟨hn, by simp⟩⟩
      rw [hpe] at this; simp at this
  | cons a l =>
      simp only [List.isEmpty_cons, true_iff]
      have : a ∈ prefixes (paths.filter (fun e => e.2 = p)) := by rw [hpe]; simp
      obtain ⟨q, hq⟩ := mem_prefixes.mp this
      simp only [List.mem_filter, decide_eq_true_eq] at hq
      exact ⟨a, hq.2 ▸ hq.1⟩

theorem ribAny_iff {rib : List (Fam × Nat × Peer)} {f : Fam} {p : Peer} :
    rib.any (fun e => e.1 = f && e.2.2 = p) = true ↔ ∃ n, (f, n, p) ∈ rib := by
  simp only [List.any_eq_true, Bool.and_eq_true, decide_eq_true_eq]
  constructor
  · rintro ⟨⟨g, n, q⟩, he, rfl, rfl⟩; exact ⟨n, he⟩
  · rintro ⟨n, hn⟩; exact ⟨(f, n, p), hn, rfl, rfl⟩

theorem tabOp_setMark (t : Tabs) (f : Fam) (x : Rib) (changes : List Change)
    (hx : x.deferring = (t f).deferring) (hq : ∀ c ∈ changes, c.fam = f ∧ (t f).deferring = false) :
    TabOp t (t.set f x) changes := by
  refine ⟨fun g => ?_, fun c hc => ?_⟩
  · rw [set_apply]; by_cases h : g = f
    · subst h; simpa using hx
    · simp [h]
  · obtain ⟨a, b⟩ := hq c hc; rw [a]; exact b

theorem relT_sameMarks {t : Tabs} {r : R} (h : RelT t r) (f : Fam) (x : Rib)
    (hp : x.paths = (t f).paths) (hs : x.stale = (t f).stale) (hl : x.llgr = (t f).llgr) :
    RelT (t.set f x) r := by
  obtain ⟨h1, h2, h3⟩ := h
  refine ⟨fun g n q => ?_, fun g q => ?_, fun g q => ?_⟩ <;> rw [set_apply] <;> by_cases hg : g = f
  · subst hg; simp only [↓reduceIte, hp]; exact h1 g n q
  · simp only [hg, ↓reduceIte]; exact h1 g n q
  · subst hg; simp only [↓reduceIte, hs]; exact h2 g q
  · simp only [hg, ↓reduceIte]; exact h2 g q
  · subst hg; simp only [↓reduceIte, hl]; exact h3 g q
  · simp only [hg, ↓reduceIte]; exact h3 g q

theorem relT_addStale {t : Tabs} {r : R} (h : RelT t r) (f : Fam) (p : Peer) :
    RelT (t.set f { t f with stale := p :: (t f).stale }) { r with stale := (f, p) :: r.stale } := by
  obtain ⟨h1, h2, h3⟩ := h
  refine ⟨fun g n q => ?_, fun g q => ?_, fun g q => ?_⟩ <;> rw [set_apply] <;> by_cases hg : g = f
  · subst hg; simp only [↓reduceIte]; exact h1 g n q
  · simp only [hg, ↓reduceIte]; exact h1 g n q
  · subst hg; simp only [↓reduceIte, List.mem_cons, Prod.mk.injEq, true_and]; rw [h2]
  · simp only [hg, ↓reduceIte, List.mem_cons, Prod.mk.injEq, false_and, false_or]; exact h2 g q
  · subst hg; simp only [↓reduceIte]; exact h3 g q
  · simp only [hg, ↓reduceIte]; exact h3 g q

theorem relT_addLlgr {t : Tabs} {r : R} (h : RelT t r) (f : Fam) (p : Peer) :
    RelT (t.set f { t f with llgr := p :: (t f).llgr }) { r with llgr := (f, p) :: r.llgr } := by
  obtain ⟨h1, h2, h3⟩ := h
  refine ⟨fun g n q => ?_, fun g q => ?_, fun g q => ?_⟩ <;> rw [set_apply] <;> by_cases hg : g = f
  · subst hg; simp only [↓reduceIte]; exact h1 g n q
  · simp only [hg, ↓reduceIte]; exact h1 g n q
  · subst hg; simp only [↓reduceIte]; exact h2 g q
  · simp only [hg, ↓reduceIte]; exact h2 g q
  · subst hg; simp only [↓reduceIte, List.mem_cons, Prod.mk.injEq, true_and]; rw [h3]
  · simp only [hg, ↓reduceIte, List.mem_cons, Prod.mk.injEq, false_and, false_or]; exact h3 g q

theorem touched_cases (paths : List (Nat × Peer)) (p : Peer) :
    ((prefixes (paths.filter (fun e => e.2 = p))).isEmpty = true ∧ ¬ ∃ n, (n, p) ∈ paths) ∨
    ((prefixes (paths.filter (fun e => e.2 = p))).isEmpty = false ∧ ∃ n, (n, p) ∈ paths) := by
  cases hh : (prefixes (paths.filter (fun e => e.2 = p))).isEmpty with
  | true =>
      left; refine ⟨rfl, fun hex => ?_⟩
      have := mem_touched.mpr hex; rw [hh] at this; cases this
  | false => right; exact ⟨rfl, mem_touched.mp hh⟩

theorem restale_eq (inv : List Peer) (t : Tabs) (p : Peer) (f : Fam) :
    (¬ (∃ n, (n, p) ∈ (t f).paths) ∧ restale inv t p f = (t, [])) ∨
    ((∃ n, (n, p) ∈ (t f).paths) ∧
      restale inv t p f =
        (t.set f { t f with stale := if (t f).stale.contains p then (t f).stale else p :: (t f).stale },
         if (t f).deferring then []
         else (prefixes ((t f).paths.filter (fun e => e.2 = p))).map
           (fun n => { fam := f, pfx := n, peers := peersOf n (usable inv (t f).paths) }))) := by
  rcases touched_cases (t f).paths p with ⟨h, hn⟩ | ⟨h, hn⟩
  · left; exact ⟨hn, by simp [restale, h]⟩
  · right; exact ⟨hn, by simp [restale, h]⟩

theorem restaleLlgr_eq (inv : List Peer) (t : Tabs) (p : Peer) (f : Fam) :
    (¬ (∃ n, (n, p) ∈ (t f).paths) ∧ restaleLlgr inv t p f = (t, [])) ∨
    ((∃ n, (n, p) ∈ (t f).paths) ∧
      restaleLlgr inv t p f =
        (t.set f { t f with llgr := if (t f).llgr.contains p then (t f).llgr else p :: (t f).llgr },
         if (t f).deferring then []
         else (prefixes ((t f).paths.filter (fun e => e.2 = p))).map
           (fun n => { fam := f, pfx := n, peers := peersOf n (usable inv (t f).paths) }))) := by
  rcases touched_cases (t f).paths p with ⟨h, hn⟩ | ⟨h, hn⟩
  · left; exact ⟨hn, by simp [restaleLlgr, h]⟩
  · right; exact ⟨hn, by simp [restaleLlgr, h]⟩

theorem restale_tabOp (inv : List Peer) (t : Tabs) (p : Peer) (f : Fam) :
    TabOp t (restale inv t p f).1 (restale inv t p f).2 := by
  rcases restale_eq inv t p f with ⟨_, h⟩ | ⟨_, h⟩ <;> rw [h]
  · exact TabOp.refl t
  · show TabOp t (t.set f _) (if _ then _ else _)
    refine tabOp_setMark t f _ _ rfl ?_
    intro c hc
    obtain ⟨hd, hc⟩ := changes_if hc
    simp only [List.mem_map] at hc
    obtain ⟨m, _, rfl⟩ := hc
    exact ⟨rfl, hd⟩

theorem restaleLlgr_tabOp (inv : List Peer) (t : Tabs) (p : Peer) (f : Fam) :
    TabOp t (restaleLlgr inv t p f).1 (restaleLlgr inv t p f).2 := by
  rcases restaleLlgr_eq inv t p f with ⟨_, h⟩ | ⟨_, h⟩ <;> rw [h]
  · exact TabOp.refl t
  · show TabOp t (t.set f _) (if _ then _ else _)
    refine tabOp_setMark t f _ _ rfl ?_
    intro c hc
    obtain ⟨hd, hc⟩ := changes_if hc
    simp only [List.mem_map] at hc
    obtain ⟨m, _, rfl⟩ := hc
    exact ⟨rfl, hd⟩

theorem ribAny_of_relT {t : Tabs} {r : R} (h : RelT t r) (f : Fam) (p : Peer) :
    r.rib.any (fun e => e.1 = f && e.2.2 = p) = true ↔ ∃ n, (n, p) ∈ (t f).paths := by
  rw [ribAny_iff]
  constructor
  · rintro ⟨n, hn⟩; exact ⟨n, (h.1 f n p).mpr hn⟩
  · rintro ⟨n, hn⟩; exact ⟨n, (h.1 f n p).mp hn⟩

theorem restale_relT (inv : List Peer) {t : Tabs} {r : R} (h : RelT t r) (p : Peer) (f : Fam) :
    RelT (restale inv t p f).1 (markStale r p f) := by
  rcases restale_eq inv t p f with ⟨hn, he⟩ | ⟨hn, he⟩ <;> rw [he]
  · have hra : r.rib.any (fun e => e.1 = f && e.2.2 = p) = false := by
      cases hh : r.rib.any (fun e => e.1 = f && e.2.2 = p) with
      | false => rfl
      | true => exact absurd ((ribAny_of_relT h f p).mp hh) hn
    have : markStale r p f = r := by simp [markStale, hra]
    rw [this]; exact h
  · have hra := (ribAny_of_relT h f p).mpr hn
    by_cases hs : p ∈ (t f).stale
    · have hs' : (f, p) ∈ r.stale := (h.2.1 f p).mp hs
      have : markStale r p f = r := by simp [markStale, hs']
      rw [this]
      exact relT_sameMarks h f _ rfl (by simp [hs]) rfl
    · have hs' : (f, p) ∉ r.stale := fun h' => hs ((h.2.1 f p).mpr h')
      have : markStale r p f = { r with stale := (f, p) :: r.stale } := by simp [markStale, hra, hs']
      rw [this]
      have hc : (t f).stale.contains p = false := by simpa using hs
      simp only [hc, Bool.false_eq_true, ↓reduceIte]
      exact relT_addStale h f p

theorem restaleLlgr_relT (inv : List Peer) {t : Tabs} {r : R} (h : RelT t r) (p : Peer) (f : Fam) :
    RelT (restaleLlgr inv t p f).1 (next r (.llgr p f)) := by
  rcases restaleLlgr_eq inv t p f with ⟨hn, he⟩ | ⟨hn, he⟩ <;> rw [he]
  · have hra : r.rib.any (fun e => e.1 = f && e.2.2 = p) = false := by
      cases hh : r.rib.any (fun e => e.1 = f && e.2.2 = p) with
      | false => rfl
      | true => exact absurd ((ribAny_of_relT h f p).mp hh) hn
    have : next r (.llgr p f) = r := by simp [next, hra]
    rw [this]; exact h
  · have hra := (ribAny_of_relT h f p).mpr hn
    by_cases hs : p ∈ (t f).llgr
    · have hs' : (f, p) ∈ r.llgr := (h.2.2 f p).mp hs
      have : next r (.llgr p f) = r := by simp [next, hs']
      rw [this]
      exact relT_sameMarks h f _ rfl rfl (by simp [hs])
    · have hs' : (f, p) ∉ r.llgr := fun h' => hs ((h.2.2 f p).mpr h')
      have : next r (.llgr p f) = { r with llgr := (f, p) :: r.llgr } := by simp [next, hra, hs']
      rw [this]
      have hc : (t f).llgr.contains p = false := by simpa using hs
      simp only [hc, Bool.false_eq_true, ↓reduceIte]
      exact relT_addLlgr h f p

theorem purge_tabOp (b : Bool) (inv : List Peer) (t : Tabs) (p : Peer) (f : Fam) :
    TabOp t (purge b inv t p f).1 (purge b inv t p f).2 := by
  unfold purge
  cases b with
  | true => exact dropPeer_tabOp inv t p f
  | false => exact TabOp.refl t

/-! ### next-hop validity -/

theorem nhv_quiet (inv' : List Peer) (t : Tabs) (p : Peer) (u : List Fam) :
    ∀ c ∈ u.flatMap (nhvFam inv' t p), (t c.fam).deferring = false := by
  intro c hc
  simp only [List.mem_flatMap] at hc
  obtain ⟨f, _, hc⟩ := hc
  unfold nhvFam at hc
  obtain ⟨hd, hc⟩ := changes_if hc
  simp only [List.mem_map] at hc
  obtain ⟨m, _, rfl⟩ := hc
  exact hd

/-! ### `unregister_peer` as `finish_session` calls it -/

/-- the reference's step for one family of the ended session -/
def gstep (gr : List Fam) (p : Peer) (r : R) (f : Fam) : R :=
  if gr.contains f then markStale r p f else dropRoutes r p f

theorem unregister_tabOp (inv : List Peer) (p : Peer) (gr : List Fam) (fs : List Fam) (t : Tabs) :
    TabOp t (unregister inv p gr fs t).1 (unregister inv p gr fs t).2 := by
  induction fs generalizing t with
  | nil => exact TabOp.refl t
  | cons f fs ih =>
      simp only [unregister]
      refine TabOp.trans ?_ (ih _)
      split
      · exact restale_tabOp inv t p f
      · exact dropPeer_tabOp inv t p f

theorem unregister_relT (inv : List Peer) (p : Peer) (gr : List Fam) (fs : List Fam) {t : Tabs} {r : R}
    (h : RelT t r) : RelT (unregister inv p gr fs t).1 (fs.foldl (gstep gr p) r) := by
  induction fs generalizing t r with
  | nil => exact h
  | cons f fs ih =>
      simp only [unregister, List.foldl_cons]
      apply ih
      unfold gstep
      split
      · exact restale_relT inv h p f
      · exact dropPeer_relT inv h p f

/-- the reference fields a route-only step leaves alone -/
structure SameCtl (r r' : R) : Prop where
  waiting : r'.waiting = r.waiting
  deferred : r'.deferred = r.deferred
  released : r'.released = r.released
  started : r'.started = r.started
  timer : r'.timer = r.timer
  up : ∀ x ∈ r'.up, x ∈ r.up

theorem SameCtl.refl (r : R) : SameCtl r r := ⟨rfl, rfl, rfl, rfl, rfl, fun _ h => h⟩

theorem SameCtl.trans {a b c : R} (h1 : SameCtl a b) (h2 : SameCtl b c) : SameCtl a c :=
  ⟨h2.waiting.trans h1.waiting, h2.deferred.trans h1.deferred, h2.released.trans h1.released,
   h2.started.trans h1.started, h2.timer.trans h1.timer, fun x hx => h1.up x (h2.up x hx)⟩

theorem markStale_ctl (r : R) (p : Peer) (f : Fam) : SameCtl r (markStale r p f) := by
  unfold markStale; split
  · exact ⟨rfl, rfl, rfl, rfl, rfl, fun _ h => h⟩
  · exact SameCtl.refl r

theorem dropRoutes_ctl (r : R) (p : Peer) (f : Fam) : SameCtl r (dropRoutes r p f) :=
  ⟨rfl, rfl, rfl, rfl, rfl, fun _ h => h⟩

theorem markStale_inv (r : R) (p : Peer) (f : Fam) :
    (markStale r p f).invalid = r.invalid ∧ (markStale r p f).up = r.up := by
  unfold markStale; split <;> exact ⟨rfl, rfl⟩

theorem gstep_ctl (gr : List Fam) (p : Peer) (r : R) (f : Fam) :
    SameCtl r (gstep gr p r f) ∧ (gstep gr p r f).invalid = r.invalid ∧ (gstep gr p r f).up = r.up := by
  unfold gstep; split
  · exact ⟨markStale_ctl r p f, markStale_inv r p f⟩
  · exact ⟨dropRoutes_ctl r p f, rfl, rfl⟩

theorem foldl_gstep_ctl (gr : List Fam) (p : Peer) (fs : List Fam) (r : R) :
    SameCtl r (fs.foldl (gstep gr p) r) ∧ (fs.foldl (gstep gr p) r).invalid = r.invalid ∧
      (fs.foldl (gstep gr p) r).up = r.up := by
  induction fs generalizing r with
  | nil => exact ⟨SameCtl.refl r, rfl, rfl⟩
  | cons f fs ih =>
      obtain ⟨a, b, c⟩ := gstep_ctl gr p r f
      obtain ⟨a', b', c'⟩ := ih (gstep gr p r f)
      exact ⟨a.trans a', b'.trans b, c'.trans c⟩

theorem next_gdown (r : R) (p : Peer) :
    next r (.gdown p) = match upFams r p with
      | none => r
      | some gr => { (sessionFams.foldl (gstep gr p) r) with
                     up := (sessionFams.foldl (gstep gr p) r).up.filter (fun e => e.1 ≠ p) } := by
  simp only [next]
  cases upFams r p <;> rfl

/-- what a route-only event leaves alone in the reference -/
theorem next_ctl (r : R) (e : Ev) (h : isRd e = false) : SameCtl r (next r e) := by
  cases e with
  | rd i => simp [isRd] at h
  | ins p f n => simp only [next]; split <;> exact ⟨rfl, rfl, rfl, rfl, rfl, fun _ h => h⟩
  | rm p f n => exact ⟨rfl, rfl, rfl, rfl, rfl, fun _ h => h⟩
  | drop p f => exact dropRoutes_ctl r p f
  | stale p f => exact markStale_ctl r p f
  | llgr p f => simp only [next]; split <;> exact ⟨rfl, rfl, rfl, rfl, rfl, fun _ h => h⟩
  | purge p f => simp only [next]; split; exact dropRoutes_ctl r p f; exact SameCtl.refl r
  | lpurge p f => simp only [next]; split; exact dropRoutes_ctl r p f; exact SameCtl.refl r
  | nhv p ok => simp only [next]; split <;> exact ⟨rfl, rfl, rfl, rfl, rfl, fun _ h => h⟩
  | gdown p =>
      rw [next_gdown]
      cases upFams r p with
      | none => exact SameCtl.refl r
      | some gr =>
          obtain ⟨a, _, c⟩ := foldl_gstep_ctl gr p sessionFams r
          refine ⟨a.waiting, a.deferred, a.released, a.started, a.timer, fun x hx => ?_⟩
          simp only [List.mem_filter] at hx
          exact a.up x hx.1

/-- every route-only event of the model is a `TabOp`, observed with no machine output -/
theorem step_tabOp (s : St) (e : Ev) (h : isRd e = false) :
    TabOp s.tabs (step s e).1.tabs (step s e).2.changes ∧
    (step s e).2 = obsOf (step s e).1 [] (step s e).2.changes ∧
    (step s e).1.sd = s.sd ∧ (step s e).1.univ = s.univ ∧ (step s e).1.timer = s.timer := by
  cases e with
  | rd i => simp [isRd] at h
  | ins p f n => exact ⟨insert_tabOp _ _ _ _ _, rfl, rfl, rfl, rfl⟩
  | rm p f n => exact ⟨remove_tabOp _ _ _ _ _, rfl, rfl, rfl, rfl⟩
  | drop p f => exact ⟨dropPeer_tabOp _ _ _ _, rfl, rfl, rfl, rfl⟩
  | stale p f => exact ⟨restale_tabOp _ _ _ _, rfl, rfl, rfl, rfl⟩
  | llgr p f => exact ⟨restaleLlgr_tabOp _ _ _ _, rfl, rfl, rfl, rfl⟩
  | purge p f => exact ⟨purge_tabOp _ _ _ _ _, rfl, rfl, rfl, rfl⟩
  | lpurge p f => exact ⟨purge_tabOp _ _ _ _ _, rfl, rfl, rfl, rfl⟩
  | nhv p ok =>
      simp only [step]
      split
      · exact ⟨TabOp.refl _, rfl, rfl, rfl, rfl⟩
      · exact ⟨⟨fun _ => rfl, nhv_quiet _ _ _ _⟩, rfl, rfl, rfl, rfl⟩
  | gdown p =>
      simp only [step]
      cases sessOf s.up p with
      | none => exact ⟨TabOp.refl _, rfl, rfl, rfl, rfl⟩
      | some gr => exact ⟨unregister_tabOp _ _ _ _ _, rfl, rfl, rfl, rfl⟩

/-- ... and keeps the tables in step with the reference's view -/
theorem step_relT {cfg : Cfg} {s : St} {r : R} (hr : Rel cfg s r) (e : Ev) (h : isRd e = false) :
    RelT (step s e).1.tabs (next r e) ∧ (step s e).1.invalid = (next r e).invalid ∧
    (step s e).1.up = (next r e).up := by
  have hT := hr.relT
  have hinv := hr.invalid
  have hup := hr.up
  cases e with
  | rd i => simp [isRd] at h
  | ins p f n =>
      refine ⟨insert_relT s.invalid hT p f n, ?_, ?_⟩ <;> simp only [step, next] <;> split <;> assumption
  | rm p f n => exact ⟨remove_relT s.invalid hT p f n, hinv, hup⟩
  | drop p f => exact ⟨dropPeer_relT s.invalid hT p f, hinv, hup⟩
  | stale p f =>
      refine ⟨restale_relT s.invalid hT p f, ?_, ?_⟩
      · exact hinv.trans (markStale_inv r p f).1.symm
      · exact hup.trans (markStale_inv r p f).2.symm
  | llgr p f =>
      refine ⟨restaleLlgr_relT s.invalid hT p f, ?_, ?_⟩ <;> simp only [step, next] <;> split <;> assumption
  | purge p f =>
      have hb : (s.tabs f).stale.contains p = r.stale.contains (f, p) := by
        rw [Bool.eq_iff_iff]; simp only [List.contains_iff_mem]; exact hr.stale f p
      simp only [step, next, hb]
      cases r.stale.contains (f, p) with
      | true => exact ⟨dropPeer_relT s.invalid hT p f, hinv, hup⟩
      | false => exact ⟨hT, hinv, hup⟩
  | lpurge p f =>
      have hb : (s.tabs f).llgr.contains p = r.llgr.contains (f, p) := by
        rw [Bool.eq_iff_iff]; simp only [List.contains_iff_mem]; exact hr.llgr f p
      simp only [step, next, hb]
      cases r.llgr.contains (f, p) with
      | true => exact ⟨dropPeer_relT s.invalid hT p f, hinv, hup⟩
      | false => exact ⟨hT, hinv, hup⟩
  | nhv p ok =>
      simp only [step, next, hinv]
      split
      · exact ⟨hT, hinv, hup⟩
      · exact ⟨hT, rfl, hup⟩
  | gdown p =>
      rw [next_gdown]
      have hs : sessOf s.up p = upFams r p := by rw [hup]; rfl
      simp only [step, hs]
      cases upFams r p with
      | none => exact ⟨hT, hinv, hup⟩
      | some gr =>
          obtain ⟨_, b, c⟩ := foldl_gstep_ctl gr p sessionFams r
          refine ⟨?_, ?_, ?_⟩
          · exact unregister_relT s.invalid p gr sessionFams hT
          · simp only; rw [b]; exact hinv
          · simp only; rw [c, hup]

/-- a route-only event is accepted by the checker and keeps the relation -/
theorem step_tab {cfg : Cfg} {s : St} {r : R} (hr : Rel cfg s r) (e : Ev) (hne : isRd e = false) :
    stepOk cfg (some e) r (next r e) (step s e).2 = .ok () ∧ Rel cfg (step s e).1 (advance cfg r e) := by
  obtain ⟨hop, hobs, hsd', huniv', htimer'⟩ := step_tabOp s e hne
  obtain ⟨hT', hinv', hup'⟩ := step_relT hr e hne
  obtain ⟨hw, hd, hrl, hs, ht, hu⟩ := next_ctl r e hne
  rw [hobs]
  generalize (step s e).2.changes = changes at hop ⊢
  generalize (step s e).1 = s' at *
  have hnorel : releasedNow r (next r e) = [] := by
    apply eq_nil_of_forall_not_mem
    intro g hg
    obtain ⟨h1, h2⟩ := mem_releasedNow.mp hg
    rw [hw, (hr.held_iff g).mp h1] at h2; cases h2
  have htA : timerAfter cfg r (next r e) = r.timer := by
    simp only [timerAfter, hw, hs]
    cases h : r.timer with
    | false => cases r.started <;> simp
    | true =>
        have := hr.timer_wait h
        cases hwl : r.waiting with
        | nil => exact absurd hwl this
        | cons a l => simp
  have hadv : advance cfg r e = next r e := by simp [advance, hnorel, htA, ← ht]
  have hheld : ∀ g, held (next r e) g = held r g := by intro g; simp [held, hd, hrl]
  have htr : ∀ q, tracked (next r e) q = tracked r q := by intro q; simp [tracked, hw]
  refine ⟨stepOk_ok ?_ ?_ (by simp [hnorel]) (by simp [hnorel]) ?_ ?_ ?_ ?_ ?_ ?_ ?_ ?_ (fun h => by cases h), ?_⟩
  · intro c hc hh
    have := hop.quiet c (by simpa [obsOf] using hc)
    rw [hr.flags, hh] at this; cases this
  · intro g hg hh _
    exact ⟨mem_flagsOf.mpr ⟨huniv' ▸ hr.univ g hg, by rw [hop.flag, hr.flags]; exact hh⟩, by simp [obsOf, mentions]⟩
  · intro g _ _
    refine ⟨by simp [obsOf, mentions], fun h => ?_⟩
    simp [hne] at h
  · intro x hx
    cases hsd : s.sd with
    | none => simp [obsOf, hsd', hsd] at hx
    | some m =>
        obtain ⟨_, hwf, _, hp, _⟩ := hr.sd_some m hsd
        simp only [obsOf, hsd', hsd] at hx
        have hset := hwf.sets x hx
        refine ⟨?_, hset.1⟩
        rw [htr]
        cases hs' : x.2 with
        | nil => exact absurd hs' hset.1
        | cons g rest =>
            exact tracked_iff.mpr ⟨g, (hp _).mp (mem_pairs.mpr ⟨x.2, hx, by simp [hs']⟩)⟩
  · intro ht'
    cases hsd : s.sd with
    | none => simp [obsOf, hsd', hsd] at ht'
    | some m => obtain ⟨_, _, hne', _, _⟩ := hr.sd_some m hsd; simpa [obsOf, hsd', hsd] using hne'
  · intro hwn
    rw [hw] at hwn
    cases hsd : s.sd with
    | none => simp [obsOf, hsd', hsd]
    | some m => exact absurd hwn (waiting_ne_nil hr hsd)
  · cases hsd : s.sd with
    | none => simp [obsOf, hsd', hsd]
    | some m =>
        obtain ⟨hmc, _⟩ := hr.sd_some m hsd
        simp only [obsOf, hsd', hsd]
        cases m <;> simp_all [tagOf]
  · intro hwn
    rw [hw] at hwn
    cases hsd : s.sd with
    | none => exact absurd (hr.sd_none hsd) hwn
    | some m => exact ⟨by simp only [obsOf, hsd', hsd]; exact tagOf_ne_absent m, by simp [obsOf, hsd', hsd]⟩
  · simp only [obsOf, hs]
    cases r.started <;> simp
  · simp only [obsOf]; rw [htA, htimer']; exact hr.timer
  · rw [hadv]
    refine ⟨fun m hm => ?_, fun hn => by rw [hw]; exact hr.sd_none (hsd' ▸ hn), fun g => ?_, hT'.1, fun g => ?_,
      fun hns x hx => ?_, fun g hg => huniv' ▸ hr.univ g (hd ▸ hg), (by rw [ht, htimer']; exact hr.timer),
      (fun h => by rw [ht] at h; rw [hw]; exact hr.timer_wait h), (fun pend d h => hr.dur pend d (hsd' ▸ h)),
      hT'.2.1, hT'.2.2, hinv', hup'⟩
    · obtain ⟨a, b, c, d, e'⟩ := hr.sd_some m (hsd' ▸ hm)
      exact ⟨a, b, c, fun x => by rw [hw]; exact d x, by rw [hs]; exact e'⟩
    · rw [hop.flag, hheld]; exact hr.flags g
    · rw [hheld, hw]; exact hr.held_iff g
    · rw [htr]; exact hr.up_inv (hs ▸ hns) x (hu x hx)

theorem step_ok {cfg : Cfg} {s : St} {r : R} (hr : Rel cfg s r) (e : Ev) (hwf : wf cfg r e = true) :
    stepOk cfg (some e) r (next r e) (step s e).2 = .ok () ∧ Rel cfg (step s e).1 (advance cfg r e) := by
  cases e with
  | rd i => exact step_rd hr i hwf
  | ins p f n => exact step_tab hr _ rfl
  | rm p f n => exact step_tab hr _ rfl
  | drop p f => exact step_tab hr _ rfl
  | stale p f => exact step_tab hr _ rfl
  | llgr p f => exact step_tab hr _ rfl
  | purge p f => exact step_tab hr _ rfl
  | lpurge p f => exact step_tab hr _ rfl
  | nhv p ok => exact step_tab hr _ rfl
  | gdown p => exact step_tab hr _ rfl

/-! ## start-up -/

theorem helpers_eq (l : List (Peer × List Fam)) : helpers l = dedupLast l := by
  induction l with
  | nil => rfl
  | cons e rest ih => simp only [helpers, dedupLast, ih]

theorem dedupLast_sub {l : List (Peer × List Fam)} {e} (h : e ∈ dedupLast l) : e ∈ l := by
  induction l with
  | nil => simp [dedupLast] at h
  | cons a rest ih =>
      simp only [dedupLast] at h
      split at h
      · exact List.mem_cons_of_mem _ (ih h)
      · rcases List.mem_cons.mp h with rfl | h
        · simp
        · exact List.mem_cons_of_mem _ (ih h)

theorem dedupLast_keys (l : List (Peer × List Fam)) : ((dedupLast l).map (·.1)).Nodup := by
  induction l with
  | nil => simp [dedupLast]
  | cons a rest ih =>
      simp only [dedupLast]
      split
      · exact ih
      · rename_i h
        simp only [List.map_cons, List.nodup_cons, List.mem_map, not_exists, not_and]
        refine ⟨fun e he heq => h ?_, ih⟩
        simp only [List.any_eq_true, decide_eq_true_eq]
        exact ⟨e, dedupLast_sub he, heq⟩

theorem mem_mkPending {l : List (Peer × List Fam)} {x : Peer × List Fam} :
    x ∈ mkPending l ↔ ∃ e ∈ dedupLast l, (toSet e.2).isEmpty = false ∧ x = (e.1, toSet e.2) := by
  simp only [mkPending, List.mem_filterMap]
  constructor
  · rintro ⟨e, he, h⟩
    by_cases hem : (toSet e.2).isEmpty = true
    · simp [hem] at h
    · simp only [hem, Bool.false_eq_true, ↓reduceIte, Option.some.injEq] at h
      exact ⟨e, he, by simpa using hem, h.symm⟩
  · rintro ⟨e, he, hem, rfl⟩
    exact ⟨e, he, by simp [hem]⟩

theorem wfp_mkPending (l : List (Peer × List Fam)) : WFp (mkPending l) := by
  refine ⟨?_, fun x hx => ?_⟩
  · have hsub : ((mkPending l).map (·.1)).Sublist ((dedupLast l).map (·.1)) := by
      unfold mkPending
      generalize dedupLast l = d
      induction d with
      | nil => simp
      | cons a rest ih =>
          simp only [List.filterMap_cons, List.map_cons]
          by_cases h : (toSet a.2).isEmpty = true
          · simp only [h, ↓reduceIte]; exact List.Sublist.cons _ ih
          · simp only [h, Bool.false_eq_true, ↓reduceIte, List.map_cons]; exact List.Sublist.cons_cons _ ih
    exact List.Nodup.sublist hsub (dedupLast_keys l)
  · obtain ⟨e, _, hem, rfl⟩ := mem_mkPending.mp hx
    refine ⟨fun h => ?_, nodup_dedup _⟩
    simp only at h; rw [h] at hem; simp at hem

theorem mem_pairs_mkPending {l : List (Peer × List Fam)} {x : Peer × Fam} :
    x ∈ pairs (mkPending l) ↔ x ∈ (helpers l).flatMap fun e => e.2.map fun f => (e.1, f) := by
  obtain ⟨p, f⟩ := x
  rw [mem_pairs, helpers_eq]
  simp only [List.mem_flatMap, List.mem_map, Prod.mk.injEq]
  constructor
  · rintro ⟨s, hs, hf⟩
    obtain ⟨e, he, _, heq⟩ := mem_mkPending.mp hs
    simp only [Prod.mk.injEq] at heq
    obtain ⟨rfl, rfl⟩ := heq
    exact ⟨e, he, f, by simpa [toSet, mem_dedup] using hf, rfl, rfl⟩
  · rintro ⟨e, he, g, hg, rfl, rfl⟩
    refine ⟨toSet e.2, mem_mkPending.mpr ⟨e, he, ?_, rfl⟩, by simpa [toSet, mem_dedup] using hg⟩
    cases h : toSet e.2 with
    | nil => simp [toSet, dedup_eq_nil] at h; rw [h] at hg; simp at hg
    | cons a b => rfl

theorem startDeferralFamilies_spec (fs : List Fam) (t : Tabs) (g : Fam) :
    ((startDeferralFamilies fs t) g).deferring = (fs.contains g || (t g).deferring) ∧
    ((startDeferralFamilies fs t) g).paths = (t g).paths ∧
    ((startDeferralFamilies fs t) g).stale = (t g).stale ∧
    ((startDeferralFamilies fs t) g).llgr = (t g).llgr := by
  induction fs generalizing t with
  | nil => simp [startDeferralFamilies]
  | cons f fs ih =>
      have := ih (startDeferral t f)
      simp only [startDeferralFamilies, List.foldl_cons] at this ⊢
      rw [this.1, this.2.1, this.2.2.1, this.2.2.2]
      by_cases h : g = f
      · subst h; simp [startDeferral]
      · simp [startDeferral, set_other _ _ h, h]

theorem init_ok (cfg : Cfg) :
    stepOk cfg none {} (Spec.init cfg) (initObs cfg).2 = .ok () ∧ Rel cfg (initObs cfg).1 (Spec.init cfg) := by
  have hwf := wfp_mkPending cfg.peers
  have hp : ∀ x, x ∈ pairs (mkPending cfg.peers) ↔ x ∈ (Spec.init cfg).waiting := fun x => mem_pairs_mkPending
  have hdef : (Spec.init cfg).deferred = (Spec.init cfg).waiting.map (·.2) := rfl
  have hrel0 : (Spec.init cfg).released = [] := rfl
  have hst0 : (Spec.init cfg).started = false := rfl
  have htm0 : (Spec.init cfg).timer = false := rfl
  have hheld : ∀ f, held (Spec.init cfg) f = holds f (Spec.init cfg).waiting := by
    intro f
    rw [Bool.eq_iff_iff, holds_iff]
    have : held (Spec.init cfg) f = true ↔ f ∈ (Spec.init cfg).waiting.map (·.2) := by
      simp [held, hdef, hrel0]
    rw [this, List.mem_map]
    constructor
    · rintro ⟨e, he, rfl⟩; exact ⟨e.1, he⟩
    · rintro ⟨p, hp'⟩; exact ⟨(p, f), hp', rfl⟩
  have hnorel : releasedNow ({} : R) (Spec.init cfg) = [] := rfl
  have huniv : ∀ f ∈ (Spec.init cfg).deferred, f ∈ dedup (famUniverse ++ cfg.peers.flatMap (·.2)) := by
    intro f hf
    rw [hdef] at hf
    simp only [List.mem_map] at hf
    obtain ⟨x, hx, rfl⟩ := hf
    simp only [Spec.init, List.mem_flatMap, List.mem_map] at hx
    obtain ⟨e, he, g, hg, rfl⟩ := hx
    rw [helpers_eq] at he
    rw [mem_dedup, List.mem_append]
    exact Or.inr (List.mem_flatMap.mpr ⟨e, dedupLast_sub he, hg⟩)
  have hsn : (!({} : R).started && (Spec.init cfg).started) = false := by rw [hst0]; rfl
  have htA : timerAfter cfg {} (Spec.init cfg) = false := by
    simp only [timerAfter, hst0]
    cases (Spec.init cfg).waiting.isEmpty <;> rfl
  by_cases hem : (mkPending cfg.peers).isEmpty = true
  · have hnil := isEmpty_iff_nil.mp hem
    have hw0 : (Spec.init cfg).waiting = [] :=
      eq_nil_of_forall_not_mem fun x hx => by have := (hp x).mpr hx; simp [hnil, pairs] at this
    have hio : initObs cfg = ({ univ := dedup (famUniverse ++ cfg.peers.flatMap (·.2)) },
        { outs := [], changes := [], tag := .absent, pending := [], installed := false,
          flags := flagsOf (fun _ => {}) (dedup (famUniverse ++ cfg.peers.flatMap (·.2))), timer := false }) := by
      simp [initObs, init, new, hem, isCompleted, obsOf]
    rw [hio]
    refine ⟨stepOk_ok (by simp) (by simp [hnorel]) (by simp [hnorel]) (by simp [hnorel]) (by simp) (by simp) (by simp)
      (fun _ => by simp) (by simp) (fun h => absurd hw0 h) (by rw [hsn]; rfl) (by rw [htA])
      (fun _ f hf => by rw [hdef, hw0] at hf; simp at hf), ?_⟩
    refine ⟨fun m hm => by simp at hm, fun _ => hw0, fun f => ?_, fun f n p => by simp [Spec.init], fun f => by rw [hheld],
      fun _ e he => by simp [Spec.init] at he, huniv, htm0.symm, (fun h => by rw [htm0] at h; cases h),
      (fun pend d h => by simp at h), (fun f p => by simp [Spec.init]), (fun f p => by simp [Spec.init]), rfl, rfl⟩
    rw [hheld, hw0]; rfl
  · have hne : mkPending cfg.peers ≠ [] := fun h => hem (isEmpty_iff_nil.mpr h)
    have hio : initObs cfg =
        ({ sd := some (.awaiting (mkPending cfg.peers) (effDur cfg.dur)),
           tabs := startDeferralFamilies (heldFams (mkPending cfg.peers)) (fun _ => {}),
           univ := dedup (famUniverse ++ cfg.peers.flatMap (·.2)) },
         { outs := [.deferFamilies (heldFams (mkPending cfg.peers))], changes := [], tag := .awaiting,
           pending := mkPending cfg.peers, installed := true,
           flags := flagsOf (startDeferralFamilies (heldFams (mkPending cfg.peers)) (fun _ => {}))
             (dedup (famUniverse ++ cfg.peers.flatMap (·.2))), timer := false }) := by
      simp [initObs, init, new, hem, isCompleted, tagOf, pendingOf, obsOf, sdt_eq]
    rw [hio]
    have hflag : ∀ f, ((startDeferralFamilies (heldFams (mkPending cfg.peers)) (fun _ => {})) f).deferring =
        held (Spec.init cfg) f := by
      intro f
      rw [(startDeferralFamilies_spec _ _ f).1, hheld, Bool.eq_iff_iff]
      simp only [Bool.or_false, List.contains_iff_mem, mem_heldFams]
      rw [holdsP_iff_holds hp]
    refine ⟨stepOk_ok (by simp) (by simp [hnorel]) (by simp [hnorel]) (by simp [hnorel]) (by simp) ?_ (fun _ => hne) ?_
      (by simp) ?_ (by rw [hsn]; rfl) (by rw [htA]) ?_, ?_⟩
    · intro e he
      simp only at he
      have hset := hwf.sets e he
      refine ⟨?_, hset.1⟩
      cases hs : e.2 with
      | nil => exact absurd hs hset.1
      | cons g rest => exact tracked_iff.mpr ⟨g, (hp _).mp (mem_pairs.mpr ⟨e.2, he, by simp [hs]⟩)⟩
    · intro hwn
      exfalso; apply hne
      apply pend_nil_of_pairs_nil hwf
      apply eq_nil_of_forall_not_mem
      intro x hx; have := (hp x).mp hx; rw [hwn] at this; simp at this
    · intro _; simp
    · intro _ f hf
      refine mem_flagsOf.mpr ⟨huniv f hf, ?_⟩
      rw [hflag]
      simp [held, hrel0, hf]
    · refine ⟨fun m hm => ?_, fun h => by simp at h, hflag, fun f n p => ?_, fun f => by rw [hheld],
        fun _ e he => by simp [Spec.init] at he, huniv, htm0.symm, (fun h => by rw [htm0] at h; cases h),
        (fun pend d h => ?_),
        (fun f p => by simp only; rw [(startDeferralFamilies_spec _ _ f).2.2.1]; simp [Spec.init]),
        (fun f p => by simp only; rw [(startDeferralFamilies_spec _ _ f).2.2.2]; simp [Spec.init]), rfl, rfl⟩
      · simp only [Option.some.injEq] at hm; subst hm
        exact ⟨by simp, hwf, hne, hp, by simp [Spec.init, isDeferring]⟩
      · simp only
        rw [(startDeferralFamilies_spec _ _ f).2.1]; simp [Spec.init]
      · simp only [Option.some.injEq, RInner.awaiting.injEq] at h
        exact h.2.symm

/-! ## the master theorem -/

theorem checkFrom_ok (cfg : Cfg) (evs : List Ev) (s : St) (r : R) (i : Nat) (hr : Rel cfg s r) :
    checkFrom cfg r i evs (runFrom s evs).2 = .ok := by
  induction evs generalizing s r i with
  | nil => simp [runFrom, checkFrom]
  | cons e es ih =>
      simp only [runFrom, checkFrom]
      by_cases hwf : wf cfg r e = true
      · obtain ⟨hok, hrel⟩ := step_ok hr e hwf
        simp only [hwf, Bool.not_true, Bool.false_eq_true, ↓reduceIte, hok]
        exact ih _ _ _ hrel
      · simp [hwf]

/-- The C11 reference checker accepts every run of the model. -/
theorem check_run_ok (cfg : Cfg) (evs : List Ev) : Spec.check cfg evs (run cfg evs) = .ok := by
  obtain ⟨hok, hrel⟩ := init_ok cfg
  simp only [run, Spec.check, hok]
  exact checkFrom_ok cfg evs _ _ 1 hrel

end Rbgp.Gr.Restarting
