/-
  Rbgp.Gr.Restarting.Proofs — lemmas behind the C11 theorems (see Props.lean for the readable
  statements).
-/
import Rbgp.Gr.Restarting.Model
import Rbgp.Gr.Restarting.Spec
namespace Rbgp.Gr.Restarting
open Rbgp.Gr.Restarting.Spec

/-! ## small list facts -/

theorem mem_dedup {a : Nat} {l : List Nat} : a ∈ dedup l ↔ a ∈ l := by
  induction l with
  | nil => simp [dedup]
  | cons b l ih =>
      by_cases h : b ∈ l
      · simp only [dedup, List.contains_iff_mem, h, ↓reduceIte, ih, List.mem_cons]
        constructor
        · exact Or.inr
        · rintro (rfl | h')
          · exact h
          · exact h'
      · simp [dedup, h, ih]

theorem nodup_dedup (l : List Nat) : (dedup l).Nodup := by
  induction l with
  | nil => simp [dedup]
  | cons b l ih =>
      by_cases h : b ∈ l
      · simpa [dedup, h] using ih
      · simp [dedup, h, List.nodup_cons, mem_dedup, ih]

theorem dedup_eq_nil {l : List Nat} : dedup l = [] ↔ l = [] := by
  constructor
  · intro h
    cases l with
    | nil => rfl
    | cons a l =>
        have : a ∈ dedup (a :: l) := mem_dedup.mpr (by simp)
        rw [h] at this; simp at this
  · rintro rfl; rfl

theorem distinct_iff {l : List Nat} : distinct l = true ↔ l.Nodup := by
  induction l with
  | nil => simp [distinct]
  | cons a l ih => simp [distinct, ih, List.nodup_cons]

/-! ## `Pending` as a finite map -/

/-- the (helper, family) pairs a `pending` map stands for -/
def pairs (pend : Pending) : List (Peer × Fam) := pend.flatMap fun e => e.2.map fun f => (e.1, f)

theorem mem_pairs {pend : Pending} {p : Peer} {f : Fam} :
    (p, f) ∈ pairs pend ↔ ∃ s, (p, s) ∈ pend ∧ f ∈ s := by
  simp only [pairs, List.mem_flatMap, List.mem_map, Prod.mk.injEq]
  constructor
  · rintro ⟨e, he, g, hg, rfl, rfl⟩; exact ⟨e.2, he, hg⟩
  · rintro ⟨s, hs, hf⟩; exact ⟨(p, s), hs, f, hf, rfl, rfl⟩

/-- keys unique, every set non-empty and duplicate-free -/
structure WFp (pend : Pending) : Prop where
  keys : (pend.map (·.1)).Nodup
  sets : ∀ e ∈ pend, e.2 ≠ [] ∧ e.2.Nodup

theorem lookup_some_of_mem {pend : Pending} (h : (pend.map (·.1)).Nodup) {p : Peer} {s : List Fam}
    (hm : (p, s) ∈ pend) : lookup p pend = some s := by
  induction pend with
  | nil => simp at hm
  | cons e rest ih =>
      obtain ⟨q, t⟩ := e
      simp only [List.map_cons, List.nodup_cons, List.mem_map, not_exists, not_and] at h
      simp only [List.mem_cons, Prod.mk.injEq] at hm
      unfold lookup
      rcases hm with ⟨rfl, rfl⟩ | hm
      · simp
      · have : q ≠ p := fun heq => h.1 (p, s) hm (by simp [heq])
        simp [this, ih h.2 hm]

theorem mem_of_lookup_some {pend : Pending} {p : Peer} {s : List Fam}
    (h : lookup p pend = some s) : (p, s) ∈ pend := by
  induction pend with
  | nil => simp [lookup] at h
  | cons e rest ih =>
      obtain ⟨q, t⟩ := e
      unfold lookup at h
      by_cases hq : q = p
      · simp only [hq, ↓reduceIte, Option.some.injEq] at h; simp [hq, h]
      · simp only [hq, ↓reduceIte] at h; exact List.mem_cons_of_mem _ (ih h)

theorem lookup_none_iff {pend : Pending} {p : Peer} :
    lookup p pend = none ↔ ∀ s, (p, s) ∉ pend := by
  induction pend with
  | nil => simp [lookup]
  | cons e rest ih =>
      obtain ⟨q, t⟩ := e
      unfold lookup
      by_cases hq : q = p
      · subst hq
        simp only [↓reduceIte, reduceCtorEq, false_iff]
        intro h; exact h t (by simp)
      · simp only [hq, ↓reduceIte, ih, List.mem_cons, Prod.mk.injEq, not_or, not_and]
        constructor
        · intro h s; exact ⟨fun h1 => absurd h1.symm hq, h s⟩
        · intro h s; exact (h s).2

theorem mem_erase {pend : Pending} {p : Peer} {e : Peer × List Fam} :
    e ∈ erase p pend ↔ e ∈ pend ∧ e.1 ≠ p := by
  simp [erase]

theorem mem_replace {pend : Pending} {p : Peer} {s : List Fam} {e : Peer × List Fam} :
    e ∈ replace p s pend ↔ (e ∈ pend ∧ e.1 ≠ p) ∨ (e = (p, s) ∧ ∃ t, (p, t) ∈ pend) := by
  simp only [replace, List.mem_map]
  constructor
  · rintro ⟨x, hx, rfl⟩
    by_cases h : x.1 = p
    · simp only [h, ↓reduceIte, ne_eq, not_true_eq_false, and_false, true_and, false_or]
      exact ⟨x.2, by rw [← h]; exact hx⟩
    · simp [h, hx]
  · rintro (⟨he, hne⟩ | ⟨rfl, t, ht⟩)
    · exact ⟨e, he, by simp [hne]⟩
    · exact ⟨(p, t), ht, by simp⟩

theorem keys_erase {pend : Pending} (p : Peer) (h : (pend.map (·.1)).Nodup) :
    ((erase p pend).map (·.1)).Nodup := by
  unfold erase
  exact List.Nodup.sublist (List.Sublist.map _ List.filter_sublist) h

theorem keys_replace {pend : Pending} (p : Peer) (s : List Fam) :
    (replace p s pend).map (·.1) = pend.map (·.1) := by
  unfold replace
  rw [List.map_map]
  apply List.map_congr_left
  intro e _
  by_cases h : e.1 = p <;> simp [h]

theorem WFp.erase {pend : Pending} (h : WFp pend) (p : Peer) : WFp (erase p pend) :=
  ⟨keys_erase p h.keys, fun e he => h.sets e (mem_erase.mp he).1⟩

theorem WFp.replace {pend : Pending} (h : WFp pend) (p : Peer) {s : List Fam}
    (hs : s ≠ []) (hn : s.Nodup) : WFp (replace p s pend) := by
  refine ⟨by rw [keys_replace]; exact h.keys, fun e he => ?_⟩
  rcases mem_replace.mp he with ⟨he, _⟩ | ⟨rfl, _⟩
  · exact h.sets e he
  · exact ⟨hs, hn⟩

theorem anyHolds_iff {f : Fam} {pend : Pending} :
    anyHolds f pend = true ↔ ∃ p, (p, f) ∈ pairs pend := by
  simp only [anyHolds, List.any_eq_true, List.contains_iff_mem]
  constructor
  · rintro ⟨e, he, hf⟩; exact ⟨e.1, mem_pairs.mpr ⟨e.2, he, hf⟩⟩
  · rintro ⟨p, hp⟩
    obtain ⟨s, hs, hf⟩ := mem_pairs.mp hp
    exact ⟨(p, s), hs, hf⟩

theorem pairs_eq_nil_of_nil {pend : Pending} (h : pend = []) : pairs pend = [] := by
  subst h; rfl

theorem pend_nil_of_pairs_nil {pend : Pending} (hw : WFp pend) (h : pairs pend = []) : pend = [] := by
  cases pend with
  | nil => rfl
  | cons e rest =>
      exfalso
      have hne := (hw.sets e (by simp)).1
      cases hs : e.2 with
      | nil => exact hne hs
      | cons f fs =>
          have : (e.1, f) ∈ pairs (e :: rest) := mem_pairs.mpr ⟨e.2, by simp, by simp [hs]⟩
          rw [h] at this; simp at this

/-! ## what one `process` call does, in terms of (helper, family) pairs -/

/-- the reference update of the waited-for pairs (the `waiting` part of `Spec.next`) -/
def nextW (w : List (Peer × Fam)) : RIn → List (Peer × Fam)
  | .est p fams => w.filter (fun e => e.1 ≠ p || fams.contains e.2)
  | .eor p f => w.filter (fun e => e ≠ (p, f))
  | .wd p => w.filter (fun e => e.1 ≠ p)
  | .timer => []

def holdsP (f : Fam) (pend : Pending) : Prop := ∃ p, (p, f) ∈ pairs pend

theorem anyHolds_iff' {f : Fam} {pend : Pending} : anyHolds f pend = true ↔ holdsP f pend := anyHolds_iff

/-- families released by an output list, in the order the glue releases them -/
def relFams (outs : List ROut) : List Fam := completeFamilies outs ++ (endRemaining outs).getD []

/-- output lists have the shape `FamilyDeferralComplete* ++ ([] | [StartDeferralTimer] | [EndDeferral])` -/
def Shape (outs : List ROut) (cs : List Fam) (tail : List ROut) : Prop :=
  outs = cs.map .famComplete ++ tail ∧
    (tail = [] ∨ (∃ d, tail = [.startTimer d]) ∨ (∃ fs, tail = [.endDeferral fs]))

theorem completeFamilies_map (cs : List Fam) : completeFamilies (cs.map .famComplete) = cs := by
  induction cs with
  | nil => rfl
  | cons c cs ih => simp [completeFamilies, List.filterMap_cons] at ih ⊢; exact ih

theorem completeFamilies_append (a b : List ROut) :
    completeFamilies (a ++ b) = completeFamilies a ++ completeFamilies b := by
  simp [completeFamilies, List.filterMap_append]

theorem endRemaining_map_append (cs : List Fam) (tail : List ROut) :
    endRemaining (cs.map .famComplete ++ tail) = endRemaining tail := by
  induction cs with
  | nil => rfl
  | cons c cs ih => simp [endRemaining, ih]; cases endRemaining tail <;> rfl

theorem Shape.complete {outs cs tail} (h : Shape outs cs tail) : completeFamilies outs = cs := by
  obtain ⟨rfl, h | ⟨d, rfl⟩ | ⟨fs, rfl⟩⟩ := h
  · subst h; simp [completeFamilies_map]
  · rw [completeFamilies_append, completeFamilies_map]; simp [completeFamilies]
  · rw [completeFamilies_append, completeFamilies_map]; simp [completeFamilies]

theorem Shape.remaining {outs cs tail} (h : Shape outs cs tail) : endRemaining outs = endRemaining tail := by
  obtain ⟨rfl, _⟩ := h
  exact endRemaining_map_append cs tail

theorem mentions_map_append (cs : List Fam) (tail : List ROut) (f : Fam) :
    mentions (cs.map .famComplete ++ tail) f = true ↔ (f ∈ cs ∨ mentions tail f = true) := by
  induction cs with
  | nil => simp
  | cons c cs ih =>
      simp only [mentions, List.map_cons, List.cons_append, List.any_cons, Bool.or_eq_true,
        decide_eq_true_eq, List.mem_cons] at ih ⊢
      rw [ih]
      constructor
      · rintro (h | h | h)
        · exact Or.inl (Or.inl h.symm)
        · exact Or.inl (Or.inr h)
        · exact Or.inr h
      · rintro ((h | h) | h)
        · exact Or.inl h.symm
        · exact Or.inr (Or.inl h)
        · exact Or.inr (Or.inr h)

theorem Shape.mentions {outs cs tail} (h : Shape outs cs tail) (f : Fam) :
    mentions outs f = true ↔ f ∈ relFams outs := by
  have hc := h.complete
  have hr := h.remaining
  unfold relFams
  rw [hc, hr]
  obtain ⟨rfl, h | ⟨d, rfl⟩ | ⟨fs, rfl⟩⟩ := h
  · subst h
    rw [mentions_map_append]
    simp [endRemaining, Spec.mentions]
  · rw [mentions_map_append]
    simp [endRemaining, Spec.mentions]
  · rw [mentions_map_append]
    simp [endRemaining, Spec.mentions]

/-- Candidate lemma: `complete_for` over candidates that cover everything that lost a holder. -/
theorem completeFor_mem {pend pend' : Pending} {keep : Peer × Fam → Bool} {C : List Fam}
    (hp : ∀ x, x ∈ pairs pend' ↔ (x ∈ pairs pend ∧ keep x = true))
    (hC1 : ∀ q f, (q, f) ∈ pairs pend → keep (q, f) = false → f ∈ C)
    (hC2 : ∀ f ∈ C, holdsP f pend) (f : Fam) :
    f ∈ completeFamilies (completeFor pend' C) ↔ (holdsP f pend ∧ ¬ holdsP f pend') := by
  simp only [completeFor, completeFamilies_map, List.mem_filter, Bool.not_eq_eq_eq_not, Bool.not_true]
  rw [← Bool.not_eq_true, anyHolds_iff']
  constructor
  · rintro ⟨hf, hn⟩; exact ⟨hC2 f hf, hn⟩
  · rintro ⟨⟨q, hq⟩, hn⟩
    refine ⟨hC1 q f hq ?_, hn⟩
    cases hk : keep (q, f) with
    | false => rfl
    | true => exact absurd ⟨q, (hp (q, f)).mpr ⟨hq, hk⟩⟩ hn

theorem completeFor_shape (pend' : Pending) (C : List Fam) :
    completeFor pend' C = (C.filter (fun f => !anyHolds f pend')).map .famComplete := rfl

theorem completeFor_nodup {pend' : Pending} {C : List Fam} (h : C.Nodup) :
    (completeFamilies (completeFor pend' C)).Nodup := by
  rw [completeFor_shape, completeFamilies_map]
  exact List.Nodup.sublist List.filter_sublist h

theorem mem_pairs_erase {pend : Pending} {p : Peer} {x : Peer × Fam} :
    x ∈ pairs (erase p pend) ↔ (x ∈ pairs pend ∧ x.1 ≠ p) := by
  obtain ⟨q, f⟩ := x
  simp only [mem_pairs, mem_erase]
  constructor
  · rintro ⟨s, ⟨hs, hne⟩, hf⟩; exact ⟨⟨s, hs, hf⟩, hne⟩
  · rintro ⟨⟨s, hs, hf⟩, hne⟩; exact ⟨s, ⟨hs, hne⟩, hf⟩

theorem mem_pairs_replace {pend : Pending} (hw : WFp pend) {p : Peer} {old nw : List Fam}
    (hl : lookup p pend = some old) {x : Peer × Fam} :
    x ∈ pairs (replace p nw pend) ↔ ((x ∈ pairs pend ∧ x.1 ≠ p) ∨ (x.1 = p ∧ x.2 ∈ nw)) := by
  obtain ⟨q, f⟩ := x
  have hm := mem_of_lookup_some hl
  simp only [mem_pairs, mem_replace]
  constructor
  · rintro ⟨s, (⟨hs, hne⟩ | ⟨heq, _⟩), hf⟩
    · exact Or.inl ⟨⟨s, hs, hf⟩, hne⟩
    · simp only [Prod.mk.injEq] at heq
      obtain ⟨rfl, rfl⟩ := heq
      exact Or.inr ⟨rfl, hf⟩
  · rintro (⟨⟨s, hs, hf⟩, hne⟩ | ⟨rfl, hf⟩)
    · exact ⟨s, Or.inl ⟨hs, hne⟩, hf⟩
    · exact ⟨nw, Or.inr ⟨rfl, old, hm⟩, hf⟩

theorem mem_pairs_self {pend : Pending} (hw : WFp pend) {p : Peer} {old : List Fam}
    (hl : lookup p pend = some old) {f : Fam} : (p, f) ∈ pairs pend ↔ f ∈ old := by
  rw [mem_pairs]
  constructor
  · rintro ⟨s, hs, hf⟩
    have := lookup_some_of_mem hw.keys hs
    rw [hl] at this
    cases this; exact hf
  · intro hf; exact ⟨old, mem_of_lookup_some hl, hf⟩

theorem not_mem_pairs_of_lookup_none {pend : Pending} {p : Peer} (hl : lookup p pend = none) (f : Fam) :
    (p, f) ∉ pairs pend := by
  rw [mem_pairs]
  rintro ⟨s, hs, _⟩
  exact lookup_none_iff.mp hl s hs

/-- What a `process` call guarantees. -/
structure StepSpec (m : RInner) (i : RIn) (m' : RInner) (outs : List ROut) : Prop where
  wf : WFp (pendingOf m')
  pairs : ∀ x, x ∈ pairs (pendingOf m') ↔ x ∈ nextW (Restarting.pairs (pendingOf m)) i
  nonempty : m' ≠ .completed → pendingOf m' ≠ []
  shape : ∃ cs tail, Shape outs cs tail
  rel_nodup : (relFams outs).Nodup
  rel_mem : ∀ f, f ∈ relFams outs ↔ (holdsP f (pendingOf m) ∧ ¬ holdsP f (pendingOf m'))
  ended : m ≠ .completed → ((endRemaining outs).isSome = true ↔ m' = .completed)

theorem holdsP_nil (f : Fam) : ¬ holdsP f [] := by
  rintro ⟨p, hp⟩; simp [Restarting.pairs] at hp

/-- `remove_peer` followed by `finish_*` -/
theorem removePeer_spec {pend : Pending} (hw : WFp pend) (p : Peer) :
    let r := removePeer pend p
    WFp r.1 ∧ (∀ x, x ∈ pairs r.1 ↔ (x ∈ pairs pend ∧ x.1 ≠ p)) ∧
    (∃ cs : List Fam, r.2 = cs.map .famComplete ∧ cs.Nodup ∧
      ∀ f, f ∈ cs ↔ (holdsP f pend ∧ ¬ holdsP f r.1)) := by
  unfold removePeer
  cases hl : lookup p pend with
  | none =>
      refine ⟨hw, fun x => ?_, [], rfl, List.nodup_nil, fun f => ?_⟩
      · constructor
        · intro hx
          refine ⟨hx, fun h => ?_⟩
          obtain ⟨q, f⟩ := x
          subst h
          exact not_mem_pairs_of_lookup_none hl f hx
        · exact fun h => h.1
      · simp
  | some removed =>
      have hk : ∀ x, x ∈ pairs (erase p pend) ↔ (x ∈ pairs pend ∧ (decide (x.1 ≠ p)) = true) := by
        intro x; rw [mem_pairs_erase]; simp
      refine ⟨hw.erase p, fun x => mem_pairs_erase, (removed.filter fun f => !anyHolds f (erase p pend)), rfl,
        List.Nodup.sublist List.filter_sublist (hw.sets _ (mem_of_lookup_some hl)).2, fun f => ?_⟩
      have := completeFor_mem (pend := pend) (pend' := erase p pend) (keep := fun x => decide (x.1 ≠ p))
        (C := removed) hk
        (by
          intro q g hq hkq
          simp only [ne_eq, decide_not, Bool.not_eq_eq_eq_not, Bool.not_false, decide_eq_true_eq] at hkq
          subst hkq
          exact (mem_pairs_self hw hl).mp hq)
        (by intro g hg; exact ⟨p, (mem_pairs_self hw hl).mpr hg⟩) f
      rw [completeFor_shape, completeFamilies_map] at this
      exact this

theorem wfp_nil : WFp [] := ⟨by simp, by simp⟩

/-- Packaging lemma: a step that leaves `pend'`, completes exactly `cs`, and finishes iff `pend'` is empty. -/
theorem mkSpec {m : RInner} {i : RIn} {pend' : Pending} {cs : List Fam} {m' : RInner} {outs : List ROut}
    (hw : WFp pend') (hp : ∀ x, x ∈ pairs pend' ↔ x ∈ nextW (pairs (pendingOf m)) i)
    (hcs : cs.Nodup) (hmem : ∀ f, f ∈ cs ↔ (holdsP f (pendingOf m) ∧ ¬ holdsP f pend'))
    (hres : (pend' = [] ∧ m' = .completed ∧ outs = cs.map .famComplete ++ [.endDeferral []]) ∨
            (pend' ≠ [] ∧ pendingOf m' = pend' ∧ m' ≠ .completed ∧
              (outs = cs.map .famComplete ∨ ∃ d, outs = cs.map .famComplete ++ [.startTimer d]))) :
    StepSpec m i m' outs := by
  rcases hres with ⟨rfl, rfl, rfl⟩ | ⟨hne, hpe, hnc, hout⟩
  · have hsh : Shape (cs.map ROut.famComplete ++ [.endDeferral []]) cs [.endDeferral []] :=
      ⟨rfl, Or.inr (Or.inr ⟨[], rfl⟩)⟩
    refine ⟨wfp_nil, hp, fun h => absurd rfl h, ⟨cs, _, hsh⟩, ?_, ?_, ?_⟩
    · simp [relFams, hsh.complete, hsh.remaining, endRemaining, hcs]
    · intro f; simp only [relFams, hsh.complete, hsh.remaining, endRemaining, Option.getD_some, List.append_nil]
      exact hmem f
    · intro _; simp [hsh.remaining, endRemaining]
  · rcases hout with rfl | ⟨d, rfl⟩
    · have hsh : Shape (cs.map ROut.famComplete) cs [] := ⟨by simp, Or.inl rfl⟩
      refine ⟨hpe ▸ hw, hpe ▸ hp, fun _ => hpe ▸ hne, ⟨cs, _, hsh⟩, ?_, ?_, ?_⟩
      · simp [relFams, hsh.complete, hsh.remaining, endRemaining, hcs]
      · intro f; simp only [relFams, hsh.complete, hsh.remaining, endRemaining, Option.getD_none, List.append_nil]
        rw [hpe]; exact hmem f
      · intro _; simp [hsh.remaining, endRemaining, hnc]
    · have hsh : Shape (cs.map ROut.famComplete ++ [.startTimer d]) cs [.startTimer d] :=
        ⟨rfl, Or.inr (Or.inl ⟨d, rfl⟩)⟩
      refine ⟨hpe ▸ hw, hpe ▸ hp, fun _ => hpe ▸ hne, ⟨cs, _, hsh⟩, ?_, ?_, ?_⟩
      · simp [relFams, hsh.complete, hsh.remaining, endRemaining, hcs]
      · intro f; simp only [relFams, hsh.complete, hsh.remaining, endRemaining, Option.getD_none, List.append_nil]
        rw [hpe]; exact hmem f
      · intro _; simp [hsh.remaining, endRemaining, hnc]

theorem isEmpty_iff_nil {α} {l : List α} : l.isEmpty = true ↔ l = [] := List.isEmpty_iff

theorem mem_nextW_est {w : List (Peer × Fam)} {p : Peer} {fams : List Fam} {x : Peer × Fam} :
    x ∈ nextW w (.est p fams) ↔ (x ∈ w ∧ (x.1 ≠ p ∨ x.2 ∈ fams)) := by
  simp [nextW]

/-- `PeerEstablished`: no family still awaited from the peer is re-negotiated -/
theorem est_empty {pend : Pending} (hw : WFp pend) (p : Peer) (fams0 : List Fam)
    (he : (stillAwaited pend p fams0).isEmpty = true) (x : Peer × Fam) :
    (x ∈ pairs pend ∧ x.1 ≠ p) ↔ x ∈ nextW (pairs pend) (.est p fams0) := by
  rw [mem_nextW_est]
  constructor
  · rintro ⟨h1, h2⟩; exact ⟨h1, Or.inl h2⟩
  · rintro ⟨h1, h2 | h2⟩
    · exact ⟨h1, h2⟩
    · refine ⟨h1, fun hp => ?_⟩
      obtain ⟨q, f⟩ := x
      simp only at hp h2; subst hp
      unfold stillAwaited at he
      cases hl : lookup q pend with
      | none => exact not_mem_pairs_of_lookup_none hl f h1
      | some aw =>
          rw [hl] at he
          simp only at he
          have hf : f ∈ aw := (mem_pairs_self hw hl).mp h1
          have : f ∈ fams0.filter (fun f => aw.contains f) := by simp [h2, hf]
          rw [isEmpty_iff_nil.mp he] at this
          simp at this

/-- `PeerEstablished` of an unknown peer changes nothing -/
theorem est_unknown {pend : Pending} (p : Peer) (fams0 : List Fam) (hl : lookup p pend = none)
    (x : Peer × Fam) : x ∈ pairs pend ↔ x ∈ nextW (pairs pend) (.est p fams0) := by
  rw [mem_nextW_est]
  constructor
  · intro h
    refine ⟨h, Or.inl fun hp => ?_⟩
    obtain ⟨q, f⟩ := x
    simp only at hp; subst hp
    exact not_mem_pairs_of_lookup_none hl f h
  · exact fun h => h.1

/-- `PeerEstablished` of a known peer that keeps some awaited family -/
theorem est_known {pend : Pending} (hw : WFp pend) (p : Peer) (fams0 old : List Fam)
    (hl : lookup p pend = some old) (hne : (stillAwaited pend p fams0).isEmpty = false) :
    let nw := toSet (stillAwaited pend p fams0)
    let pend' := replace p nw pend
    WFp pend' ∧ pend' ≠ [] ∧ (∀ x, x ∈ pairs pend' ↔ x ∈ nextW (pairs pend) (.est p fams0)) ∧
    (completeFor pend' (old.filter fun f => !nw.contains f) =
      ((old.filter fun f => !nw.contains f).filter fun f => !anyHolds f pend').map .famComplete) ∧
    ((old.filter fun f => !nw.contains f).filter fun f => !anyHolds f pend').Nodup ∧
    ∀ f, f ∈ ((old.filter fun f => !nw.contains f).filter fun f => !anyHolds f pend') ↔
      (holdsP f pend ∧ ¬ holdsP f pend') := by
  intro nw pend'
  have hsa : stillAwaited pend p fams0 = fams0.filter (fun f => old.contains f) := by
    simp [stillAwaited, hl]
  have hnw : ∀ f, f ∈ nw ↔ (f ∈ fams0 ∧ f ∈ old) := by
    intro f; simp [nw, toSet, mem_dedup, hsa]
  have hnwne : nw ≠ [] := by
    intro h
    have : stillAwaited pend p fams0 = [] := dedup_eq_nil.mp h
    simp [this] at hne
  have hold := (hw.sets _ (mem_of_lookup_some hl)).2
  have hw' : WFp pend' := hw.replace p hnwne (nodup_dedup _)
  have hp : ∀ x, x ∈ pairs pend' ↔ x ∈ nextW (pairs pend) (.est p fams0) := by
    intro x
    rw [mem_pairs_replace hw hl, mem_nextW_est]
    obtain ⟨q, f⟩ := x
    simp only [hnw]
    constructor
    · rintro (⟨h1, h2⟩ | ⟨rfl, h1, h2⟩)
      · exact ⟨h1, Or.inl h2⟩
      · exact ⟨(mem_pairs_self hw hl).mpr h2, Or.inr h1⟩
    · rintro ⟨h1, h2 | h2⟩
      · exact Or.inl ⟨h1, h2⟩
      · by_cases hq : q = p
        · subst hq; exact Or.inr ⟨rfl, h2, (mem_pairs_self hw hl).mp h1⟩
        · exact Or.inl ⟨h1, hq⟩
  have hne' : pend' ≠ [] := by
    intro h
    have hm : (p, nw) ∈ pend' := mem_replace.mpr (Or.inr ⟨rfl, old, mem_of_lookup_some hl⟩)
    rw [h] at hm; simp at hm
  refine ⟨hw', hne', hp, rfl, ?_, fun f => ?_⟩
  · exact List.Nodup.sublist List.filter_sublist (List.Nodup.sublist List.filter_sublist hold)
  · have hk : ∀ x, x ∈ pairs pend' ↔ (x ∈ pairs pend ∧ (decide (x.1 ≠ p ∨ x.2 ∈ fams0)) = true) := by
      intro x; rw [hp, mem_nextW_est]; simp
    have := completeFor_mem (pend := pend) (pend' := pend') (keep := fun x => decide (x.1 ≠ p ∨ x.2 ∈ fams0))
      (C := old.filter fun f => !nw.contains f) hk
      (by
        intro q g hq hkq
        simp only [ne_eq, decide_eq_false_iff_not, not_or, Decidable.not_not] at hkq
        obtain ⟨rfl, hg⟩ := hkq
        have hgo := (mem_pairs_self hw hl).mp hq
        have hgn : g ∉ nw := fun h => hg ((hnw g).mp h).1
        simp [List.mem_filter, hgo, hgn])
      (by
        intro g hg
        simp only [List.mem_filter] at hg
        exact ⟨p, (mem_pairs_self hw hl).mpr hg.1⟩) f
    rw [completeFor_shape, completeFamilies_map] at this
    exact this

theorem mem_nextW_eor {w : List (Peer × Fam)} {p : Peer} {f : Fam} {x : Peer × Fam} :
    x ∈ nextW w (.eor p f) ↔ (x ∈ w ∧ x ≠ (p, f)) := by
  simp [nextW]

/-- the pending-level part of `EorReceived` in `Deferring` -/
def eorStep (pend : Pending) (p : Peer) (f : Fam) : Pending × List ROut :=
  match lookup p pend with
  | some set =>
      let wasAwaited := set.contains f
      let set' := set.filter (· ≠ f)
      let pend1 := if set'.isEmpty then erase p pend else replace p set' pend
      (pend1, if wasAwaited && !anyHolds f pend1 then [.famComplete f] else [])
  | none => (pend, [])

theorem eor_spec {pend : Pending} (hw : WFp pend) (p : Peer) (f : Fam) :
    let r := eorStep pend p f
    WFp r.1 ∧ (∀ x, x ∈ pairs r.1 ↔ x ∈ nextW (pairs pend) (.eor p f)) ∧
    (∃ cs : List Fam, r.2 = cs.map .famComplete ∧ cs.Nodup ∧
      ∀ g, g ∈ cs ↔ (holdsP g pend ∧ ¬ holdsP g r.1)) := by
  unfold eorStep
  cases hl : lookup p pend with
  | none =>
      refine ⟨hw, fun x => ?_, [], rfl, List.nodup_nil, fun g => by simp⟩
      rw [mem_nextW_eor]
      constructor
      · intro h; exact ⟨h, fun he => not_mem_pairs_of_lookup_none hl f (he ▸ h)⟩
      · exact fun h => h.1
  | some set =>
      simp only
      have hset := hw.sets _ (mem_of_lookup_some hl)
      -- the new pending map and its pairs
      have key : ∀ pend1, pend1 = (if (set.filter (· ≠ f)).isEmpty then erase p pend
                                   else replace p (set.filter (· ≠ f)) pend) →
          WFp pend1 ∧ ∀ x, x ∈ pairs pend1 ↔ x ∈ nextW (pairs pend) (.eor p f) := by
        intro pend1 hp1
        by_cases he : (set.filter (· ≠ f)).isEmpty = true
        · rw [if_pos he] at hp1; subst hp1
          refine ⟨hw.erase p, fun x => ?_⟩
          rw [mem_pairs_erase, mem_nextW_eor]
          obtain ⟨q, g⟩ := x
          constructor
          · rintro ⟨h1, h2⟩; exact ⟨h1, fun h => h2 (by simp at h; exact h.1)⟩
          · rintro ⟨h1, h2⟩
            refine ⟨h1, fun hq => ?_⟩
            simp only at hq; subst hq
            have hg : g ∈ set := (mem_pairs_self hw hl).mp h1
            have : g ∉ set.filter (· ≠ f) := by rw [isEmpty_iff_nil.mp he]; simp
            simp only [List.mem_filter, hg, true_and, ne_eq, decide_not, Bool.not_eq_eq_eq_not, Bool.not_true,
              decide_eq_false_iff_not, Decidable.not_not] at this
            exact h2 (by rw [this])
        · rw [if_neg he] at hp1; subst hp1
          have hne : set.filter (· ≠ f) ≠ [] := fun h => he (isEmpty_iff_nil.mpr h)
          refine ⟨hw.replace p hne (List.Nodup.sublist List.filter_sublist hset.2), fun x => ?_⟩
          rw [mem_pairs_replace hw hl, mem_nextW_eor]
          obtain ⟨q, g⟩ := x
          simp only [List.mem_filter, ne_eq, decide_not, Bool.not_eq_eq_eq_not, Bool.not_true,
            decide_eq_false_iff_not, Prod.mk.injEq, not_and]
          constructor
          · rintro (⟨h1, h2⟩ | ⟨rfl, h1, h2⟩)
            · exact ⟨h1, fun h => absurd h h2⟩
            · exact ⟨(mem_pairs_self hw hl).mpr h1, fun _ => h2⟩
          · rintro ⟨h1, h2⟩
            by_cases hq : q = p
            · subst hq; exact Or.inr ⟨rfl, (mem_pairs_self hw hl).mp h1, h2 rfl⟩
            · exact Or.inl ⟨h1, hq⟩
      obtain ⟨hw1, hp1⟩ := key _ rfl
      refine ⟨hw1, hp1, ?_⟩
      generalize (if (set.filter (· ≠ f)).isEmpty then erase p pend
                  else replace p (set.filter (· ≠ f)) pend) = pend1 at hw1 hp1 ⊢
      have hk : ∀ x, x ∈ pairs pend1 ↔ (x ∈ pairs pend ∧ (decide (x ≠ (p, f))) = true) := by
        intro x; rw [hp1, mem_nextW_eor]; simp
      have hcm := fun C hC1 hC2 => completeFor_mem (pend := pend) (pend' := pend1)
        (keep := fun x => decide (x ≠ (p, f))) (C := C) hk hC1 hC2
      by_cases hwa : set.contains f = true
      · have := hcm [f]
          (by
            intro q g hq hkq
            simp only [ne_eq, decide_not, Bool.not_eq_eq_eq_not, Bool.not_false, decide_eq_true_eq,
              Prod.mk.injEq] at hkq
            simp [hkq.2])
          (by
            intro g hg
            simp only [List.mem_singleton] at hg; subst hg
            exact ⟨p, (mem_pairs_self hw hl).mpr (by simpa using hwa)⟩)
        rw [completeFor_shape, completeFamilies_map] at this
        refine ⟨[f].filter (fun g => !anyHolds g pend1), ?_, List.Nodup.sublist List.filter_sublist (by simp), this⟩
        have hfs : f ∈ set := by simpa using hwa
        by_cases ha : anyHolds f pend1 = true <;> simp [hfs, ha]
      · have := hcm []
          (by
            intro q g hq hkq
            simp only [ne_eq, decide_not, Bool.not_eq_eq_eq_not, Bool.not_false, decide_eq_true_eq,
              Prod.mk.injEq] at hkq
            obtain ⟨rfl, rfl⟩ := hkq
            exact absurd ((mem_pairs_self hw hl).mp hq) (by simpa using hwa))
          (by simp)
        rw [completeFor_shape, completeFamilies_map] at this
        refine ⟨[], ?_, List.nodup_nil, by simpa using this⟩
        have hfs : f ∉ set := by simpa using hwa
        simp [hfs]

theorem mem_nextW_wd {w : List (Peer × Fam)} {p : Peer} {x : Peer × Fam} :
    x ∈ nextW w (.wd p) ↔ (x ∈ w ∧ x.1 ≠ p) := by
  simp [nextW]

theorem mem_heldFams {pend : Pending} {f : Fam} : f ∈ heldFams pend ↔ holdsP f pend := by
  simp only [heldFams, mem_dedup, List.mem_flatMap, holdsP]
  constructor
  · rintro ⟨e, he, hf⟩; exact ⟨e.1, mem_pairs.mpr ⟨e.2, he, hf⟩⟩
  · rintro ⟨p, hp⟩
    obtain ⟨s, hs, hf⟩ := mem_pairs.mp hp
    exact ⟨(p, s), hs, hf⟩

/-- Preconditions under which the machine and the reference agree on an input: in `AwaitingStart`
    the timer has not been started and End-of-RIB can only come from a peer that is not awaited. -/
def InputOk (m : RInner) (i : RIn) : Prop :=
  ∀ pend dur, m = .awaiting pend dur →
    i ≠ .timer ∧ ∀ p f, i = .eor p f → lookup p pend = none

theorem process_spec (m : RInner) (i : RIn) (hw : WFp (pendingOf m))
    (hne : m ≠ .completed → pendingOf m ≠ []) (hi : InputOk m i) :
    StepSpec m i (process m i).1 (process m i).2 := by
  cases m with
  | completed =>
      have : process .completed i = (.completed, []) := by cases i <;> rfl
      rw [this]
      refine ⟨wfp_nil, fun x => ?_, fun h => absurd rfl h, ⟨[], [], by simp, Or.inl rfl⟩, by simp [relFams, completeFamilies, endRemaining],
        fun f => ?_, fun h => absurd rfl h⟩
      · cases i <;> simp [pendingOf, pairs, nextW]
      · simp [relFams, completeFamilies, endRemaining, pendingOf, holdsP_nil]
  | awaiting pend dur =>
      have hpe : pend ≠ [] := hne (by simp)
      simp only [pendingOf] at hw
      cases i with
      | timer => exact absurd rfl (hi pend dur rfl).1
      | eor p f =>
          have hl := (hi pend dur rfl).2 p f rfl
          have : process (.awaiting pend dur) (.eor p f) = (.awaiting pend dur, []) := rfl
          rw [this]
          refine mkSpec (cs := []) (pend' := pend) hw (fun x => ?_) List.nodup_nil (fun g => by simp [pendingOf])
            (Or.inr ⟨hpe, rfl, by simp, Or.inl rfl⟩)
          simp only [pendingOf, mem_nextW_eor]
          constructor
          · intro h; exact ⟨h, fun he => not_mem_pairs_of_lookup_none hl f (he ▸ h)⟩
          · exact fun h => h.1
      | wd p =>
          obtain ⟨hw', hp', cs, hcs, hnd, hmem⟩ := removePeer_spec hw p
          have : process (.awaiting pend dur) (.wd p) =
              finishAwaiting (removePeer pend p).1 dur (removePeer pend p).2 := rfl
          rw [this, hcs]
          unfold finishAwaiting
          by_cases he : (removePeer pend p).1.isEmpty = true
          · rw [if_pos he]
            exact mkSpec hw' (fun x => by rw [hp', pendingOf, mem_nextW_wd]) hnd hmem
              (Or.inl ⟨isEmpty_iff_nil.mp he, rfl, rfl⟩)
          · rw [if_neg he]
            exact mkSpec hw' (fun x => by rw [hp', pendingOf, mem_nextW_wd]) hnd hmem
              (Or.inr ⟨fun h => he (isEmpty_iff_nil.mpr h), rfl, by simp, Or.inl rfl⟩)
      | est p fams0 =>
          by_cases he : (stillAwaited pend p fams0).isEmpty = true
          · obtain ⟨hw', hp', cs, hcs, hnd, hmem⟩ := removePeer_spec hw p
            have : process (.awaiting pend dur) (.est p fams0) =
                finishAwaiting (removePeer pend p).1 dur (removePeer pend p).2 := by
              simp only [process, he, ↓reduceIte]
            rw [this, hcs]
            have hp'' : ∀ x, x ∈ pairs (removePeer pend p).1 ↔
                x ∈ nextW (pairs (pendingOf (.awaiting pend dur))) (.est p fams0) := by
              intro x; rw [hp', pendingOf]; exact est_empty hw p fams0 he x
            unfold finishAwaiting
            by_cases he2 : (removePeer pend p).1.isEmpty = true
            · rw [if_pos he2]
              exact mkSpec hw' hp'' hnd hmem (Or.inl ⟨isEmpty_iff_nil.mp he2, rfl, rfl⟩)
            · rw [if_neg he2]
              exact mkSpec hw' hp'' hnd hmem
                (Or.inr ⟨fun h => he2 (isEmpty_iff_nil.mpr h), rfl, by simp, Or.inl rfl⟩)
          · have he' : (stillAwaited pend p fams0).isEmpty = false := by simpa using he
            cases hl : lookup p pend with
            | none =>
                have : process (.awaiting pend dur) (.est p fams0) = (.awaiting pend dur, []) := by
                  simp only [process, he', Bool.false_eq_true, ↓reduceIte, hl]
                rw [this]
                exact mkSpec (cs := []) (pend' := pend) hw (fun x => by rw [pendingOf]; exact est_unknown p fams0 hl x)
                  List.nodup_nil (fun g => by simp [pendingOf]) (Or.inr ⟨hpe, rfl, by simp, Or.inl rfl⟩)
            | some old =>
                obtain ⟨hw', hne', hp', hcf, hnd, hmem⟩ := est_known hw p fams0 old hl he'
                have : process (.awaiting pend dur) (.est p fams0) =
                    (.deferring (replace p (toSet (stillAwaited pend p fams0)) pend),
                     completeFor (replace p (toSet (stillAwaited pend p fams0)) pend)
                       (old.filter fun f => !(toSet (stillAwaited pend p fams0)).contains f) ++ [.startTimer dur]) := by
                  simp only [process, he', Bool.false_eq_true, ↓reduceIte, hl]
                rw [this, hcf]
                exact mkSpec hw' (fun x => by rw [pendingOf]; exact hp' x) hnd hmem
                  (Or.inr ⟨hne', rfl, by simp, Or.inr ⟨dur, rfl⟩⟩)
  | deferring pend =>
      have hpe : pend ≠ [] := hne (by simp)
      simp only [pendingOf] at hw
      cases i with
      | timer =>
          have : process (.deferring pend) .timer = (.completed, [.endDeferral (heldFams pend)]) := rfl
          rw [this]
          have hsh : Shape [ROut.endDeferral (heldFams pend)] [] [.endDeferral (heldFams pend)] :=
            ⟨by simp, Or.inr (Or.inr ⟨_, rfl⟩)⟩
          refine ⟨wfp_nil, fun x => by simp [pendingOf, pairs, nextW], fun h => absurd rfl h, ⟨_, _, hsh⟩, ?_, fun f => ?_, ?_⟩
          · simp [relFams, completeFamilies, endRemaining, heldFams, nodup_dedup]
          · simp [relFams, completeFamilies, endRemaining, pendingOf, mem_heldFams, holdsP_nil]
          · intro _; simp [endRemaining]
      | eor p f =>
          obtain ⟨hw', hp', cs, hcs, hnd, hmem⟩ := eor_spec hw p f
          have : process (.deferring pend) (.eor p f) =
              (if (eorStep pend p f).1.isEmpty then (.completed, (eorStep pend p f).2 ++ [.endDeferral []])
               else (.deferring (eorStep pend p f).1, (eorStep pend p f).2)) := rfl
          rw [this, hcs]
          by_cases he : (eorStep pend p f).1.isEmpty = true
          · rw [if_pos he]
            exact mkSpec hw' (fun x => by rw [hp', pendingOf]) hnd hmem (Or.inl ⟨isEmpty_iff_nil.mp he, rfl, rfl⟩)
          · rw [if_neg he]
            exact mkSpec hw' (fun x => by rw [hp', pendingOf]) hnd hmem
              (Or.inr ⟨fun h => he (isEmpty_iff_nil.mpr h), rfl, by simp, Or.inl rfl⟩)
      | wd p =>
          obtain ⟨hw', hp', cs, hcs, hnd, hmem⟩ := removePeer_spec hw p
          have : process (.deferring pend) (.wd p) =
              finishDeferring (removePeer pend p).1 (removePeer pend p).2 := rfl
          rw [this, hcs]
          unfold finishDeferring
          by_cases he : (removePeer pend p).1.isEmpty = true
          · rw [if_pos he]
            exact mkSpec hw' (fun x => by rw [hp', pendingOf, mem_nextW_wd]) hnd hmem
              (Or.inl ⟨isEmpty_iff_nil.mp he, rfl, rfl⟩)
          · rw [if_neg he]
            exact mkSpec hw' (fun x => by rw [hp', pendingOf, mem_nextW_wd]) hnd hmem
              (Or.inr ⟨fun h => he (isEmpty_iff_nil.mpr h), rfl, by simp, Or.inl rfl⟩)
      | est p fams0 =>
          by_cases he : (stillAwaited pend p fams0).isEmpty = true
          · obtain ⟨hw', hp', cs, hcs, hnd, hmem⟩ := removePeer_spec hw p
            have : process (.deferring pend) (.est p fams0) =
                finishDeferring (removePeer pend p).1 (removePeer pend p).2 := by
              simp only [process, he, ↓reduceIte]
            rw [this, hcs]
            have hp'' : ∀ x, x ∈ pairs (removePeer pend p).1 ↔
                x ∈ nextW (pairs (pendingOf (.deferring pend))) (.est p fams0) := by
              intro x; rw [hp', pendingOf]; exact est_empty hw p fams0 he x
            unfold finishDeferring
            by_cases he2 : (removePeer pend p).1.isEmpty = true
            · rw [if_pos he2]
              exact mkSpec hw' hp'' hnd hmem (Or.inl ⟨isEmpty_iff_nil.mp he2, rfl, rfl⟩)
            · rw [if_neg he2]
              exact mkSpec hw' hp'' hnd hmem
                (Or.inr ⟨fun h => he2 (isEmpty_iff_nil.mpr h), rfl, by simp, Or.inl rfl⟩)
          · have he' : (stillAwaited pend p fams0).isEmpty = false := by simpa using he
            cases hl : lookup p pend with
            | none =>
                have : process (.deferring pend) (.est p fams0) = (.deferring pend, []) := by
                  simp only [process, he', Bool.false_eq_true, ↓reduceIte, hl]
                rw [this]
                exact mkSpec (cs := []) (pend' := pend) hw (fun x => by rw [pendingOf]; exact est_unknown p fams0 hl x)
                  List.nodup_nil (fun g => by simp [pendingOf]) (Or.inr ⟨hpe, rfl, by simp, Or.inl rfl⟩)
            | some old =>
                obtain ⟨hw', hne', hp', hcf, hnd, hmem⟩ := est_known hw p fams0 old hl he'
                have : process (.deferring pend) (.est p fams0) =
                    (.deferring (replace p (toSet (stillAwaited pend p fams0)) pend),
                     completeFor (replace p (toSet (stillAwaited pend p fams0)) pend)
                       (old.filter fun f => !(toSet (stillAwaited pend p fams0)).contains f)) := by
                  simp only [process, he', Bool.false_eq_true, ↓reduceIte, hl]
                rw [this, hcf]
                exact mkSpec hw' (fun x => by rw [pendingOf]; exact hp' x) hnd hmem
                  (Or.inr ⟨hne', rfl, by simp, Or.inl rfl⟩)

/-! ## the reference checker, clause by clause -/

theorem stepOk_ok {cfg : Cfg} {ev : Option Ev} {r r' : R} {o : Obs}
    (h1 : ∀ c ∈ o.changes, held r c.fam = true → c.fam ∈ releasedNow r r')
    (h2 : ∀ f ∈ r.deferred, held r f = true → f ∉ releasedNow r r' →
            f ∈ o.flags ∧ mentions o.outs f = false)
    (h3 : ∀ f ∈ releasedNow r r', f ∉ o.flags)
    (h4 : ∀ f ∈ releasedNow r r', exactRelease (r'.rib.filter (fun e => !r'.invalid.contains e.2.2)) f o.changes = true)
    (h5 : ∀ f ∈ r.deferred, f ∈ r.released → mentions o.outs f = false ∧
            ((ev.map isRd).getD true = true → ∀ c ∈ o.changes, c.fam ≠ f))
    (h6 : ∀ e ∈ o.pending, tracked r' e.1 = true ∧ e.2 ≠ [])
    (h7 : (o.tag = .awaiting ∨ o.tag = .deferring) → o.pending ≠ [])
    (h8 : r'.waiting = [] → o.tag ≠ .awaiting ∧ o.tag ≠ .deferring ∧ o.installed = false)
    (h9 : o.tag ≠ .completed)
    (h10 : r'.waiting ≠ [] → o.tag ≠ .absent ∧ o.installed = true)
    (h11 : o.outs.filter isStartTimer =
            (if (!r.started && r'.started) = true then [.startTimer (effDur cfg.dur)] else []))
    (h12 : o.timer = timerAfter cfg r r')
    (h13 : ev = none → ∀ f ∈ r'.deferred, f ∈ o.flags) :
    stepOk cfg ev r r' o = .ok () := by
  unfold stepOk
  have c1 : (o.changes.any fun c => held r c.fam && !(releasedNow r r').contains c.fam) = false := by
    rw [List.any_eq_false]
    intro c hc
    cases hh : held r c.fam with
    | false => simp
    | true => simp [h1 c hc hh]
  have c2 : (r.deferred.any fun f => held r f && !(releasedNow r r').contains f &&
      (!o.flags.contains f || mentions o.outs f)) = false := by
    rw [List.any_eq_false]
    intro f hf
    cases hh : held r f with
    | false => simp
    | true =>
        by_cases hr : f ∈ releasedNow r r'
        · simp [hr]
        · obtain ⟨a, b⟩ := h2 f hf hh hr
          simp [hr, a, b]
  have c3 : ((releasedNow r r').any fun f => o.flags.contains f) = false := by
    rw [List.any_eq_false]; intro f hf; simpa using h3 f hf
  have c4 : ((releasedNow r r').any fun f => !exactRelease (r'.rib.filter (fun e => !r'.invalid.contains e.2.2)) f o.changes) = false := by
    rw [List.any_eq_false]; intro f hf; rw [h4 f hf]; simp
  have c5 : (r.deferred.any fun f => r.released.contains f &&
      (mentions o.outs f || ((ev.map isRd).getD true && o.changes.any (·.fam = f)))) = false := by
    rw [List.any_eq_false]
    intro f hf
    by_cases hr : f ∈ r.released
    · obtain ⟨a, b⟩ := h5 f hf hr
      cases hg : (ev.map isRd).getD true with
      | false => simp [a]
      | true =>
          have := b hg
          simp only [List.contains_iff_mem, hr, a, Bool.false_or, Bool.true_and, Bool.and_eq_true, not_and,
            Bool.not_eq_true, List.any_eq_false, decide_eq_true_eq]
          intro _ c hc; exact this c hc
    · simp [hr]
  have c6 : (o.pending.any fun e => !tracked r' e.1 || e.2.isEmpty) = false := by
    rw [List.any_eq_false]
    intro e he
    obtain ⟨a, b⟩ := h6 e he
    simp [a, b]
  have c7 : ((o.tag = .awaiting || o.tag = .deferring) && o.pending.isEmpty) = false := by
    by_cases ht : o.tag = .awaiting ∨ o.tag = .deferring
    · have hp := h7 ht
      have : o.pending.isEmpty = false := by cases hq : o.pending <;> simp_all
      simp [this]
    · have ht1 : o.tag ≠ .awaiting := fun h => ht (Or.inl h)
      have ht2 : o.tag ≠ .deferring := fun h => ht (Or.inr h)
      simp [ht1, ht2]
  have c8 : (r'.waiting.isEmpty && (o.tag = .awaiting || o.tag = .deferring || o.installed)) = false := by
    by_cases hw : r'.waiting = []
    · obtain ⟨a, b, c⟩ := h8 hw
      simp [a, b, c]
    · have : r'.waiting.isEmpty = false := by cases hq : r'.waiting <;> simp_all
      simp [this]
  have c9 : decide (o.tag = .completed) = false := by simpa using h9
  have c10 : (!r'.waiting.isEmpty && (o.tag = .absent || !o.installed)) = false := by
    by_cases hw : r'.waiting = []
    · simp [hw]
    · obtain ⟨a, b⟩ := h10 hw
      simp [a, b]
  have c13 : (ev.isNone && r'.deferred.any (fun f => !o.flags.contains f)) = false := by
    cases ev with
    | some e => simp
    | none =>
        have := h13 rfl
        simp only [Option.isNone_none, Bool.true_and, List.any_eq_false, Bool.not_eq_eq_eq_not, Bool.not_true,
          Bool.not_eq_false, List.contains_eq_mem, decide_eq_true_eq]
        simpa using this
  simp only [c1, c2, c3, c4, c5, c6, c7, c8, c10, c13, h11, h12, Bool.false_eq_true, ↓reduceIte, ne_eq,
    not_true_eq_false, h9]

/-! ## the RIB part -/

@[simp] theorem set_same (t : Tabs) (f : Fam) (r : Rib) : (t.set f r) f = r := by simp [Tabs.set]
theorem set_other (t : Tabs) {f g : Fam} (r : Rib) (h : g ≠ f) : (t.set f r) g = t g := by simp [Tabs.set, h]

/-- the announcement `end_deferral(f)` makes for a RIB -/
def announce (f : Fam) (paths : List (Nat × Peer)) : List Change :=
  (prefixes paths).map fun n => { fam := f, pfx := n, peers := peersOf n paths, kind := .adv }

theorem endDeferralFamilies_spec (inv : List Peer) (fs : List Fam) (t : Tabs) :
    (∀ g, ((endDeferralFamilies inv fs t).1 g).paths = (t g).paths) ∧
    (∀ g, ((endDeferralFamilies inv fs t).1 g).deferring = (if g ∈ fs then false else (t g).deferring)) ∧
    (endDeferralFamilies inv fs t).2 = (fs.flatMap fun f => announce f (usable inv (t f).paths)) ∧
    (∀ g, ((endDeferralFamilies inv fs t).1 g).stale = (t g).stale) ∧
    (∀ g, ((endDeferralFamilies inv fs t).1 g).llgr = (t g).llgr) := by
  induction fs generalizing t with
  | nil => simp [endDeferralFamilies]
  | cons f fs ih =>
      obtain ⟨i1, i2, i3, i4, i5⟩ := ih (endDeferral inv t f).1
      have hp : ∀ g, ((endDeferral inv t f).1 g).paths = (t g).paths := by
        intro g; by_cases h : g = f
        · subst h; simp [endDeferral]
        · simp [endDeferral, set_other _ _ h]
      have hs : ∀ g, ((endDeferral inv t f).1 g).stale = (t g).stale := by
        intro g; by_cases h : g = f
        · subst h; simp [endDeferral]
        · simp [endDeferral, set_other _ _ h]
      have hl : ∀ g, ((endDeferral inv t f).1 g).llgr = (t g).llgr := by
        intro g; by_cases h : g = f
        · subst h; simp [endDeferral]
        · simp [endDeferral, set_other _ _ h]
      refine ⟨fun g => by simp only [endDeferralFamilies]; rw [i1, hp], fun g => ?_, ?_,
        fun g => by simp only [endDeferralFamilies]; rw [i4, hs],
        fun g => by simp only [endDeferralFamilies]; rw [i5, hl]⟩
      · simp only [endDeferralFamilies]; rw [i2]
        by_cases hg : g ∈ fs
        · simp [hg]
        · by_cases h : g = f
          · subst h; simp [hg, endDeferral]
          · simp [hg, h, endDeferral, set_other _ _ h]
      · simp only [endDeferralFamilies, i3, List.flatMap_cons, hp]
        rfl

theorem endDeferralFamilies_append (inv : List Peer) (a b : List Fam) (t : Tabs) :
    endDeferralFamilies inv (a ++ b) t =
      ((endDeferralFamilies inv b (endDeferralFamilies inv a t).1).1,
       (endDeferralFamilies inv a t).2 ++ (endDeferralFamilies inv b (endDeferralFamilies inv a t).1).2) := by
  induction a generalizing t with
  | nil => simp [endDeferralFamilies]
  | cons f a ih => simp [endDeferralFamilies, ih]

/-- `process_restarting_outputs` releases exactly `relFams outs`, in that order -/
theorem applyOuts_spec (s : St) (outs : List ROut) :
    (applyOuts s outs).1.tabs = (endDeferralFamilies s.invalid (relFams outs) s.tabs).1 ∧
    (applyOuts s outs).2 = (endDeferralFamilies s.invalid (relFams outs) s.tabs).2 ∧
    (applyOuts s outs).1.sd = (if (endRemaining outs).isSome then none else s.sd) ∧
    (applyOuts s outs).1.univ = s.univ ∧
    (applyOuts s outs).1.timer =
      (if startsTimer outs then true else if (endRemaining outs).isSome then false else s.timer) ∧
    (applyOuts s outs).1.invalid = s.invalid ∧ (applyOuts s outs).1.up = s.up := by
  unfold applyOuts relFams
  cases h : endRemaining outs with
  | none => by_cases ht : startsTimer outs = true <;> simp [endDeferralFamilies, ht]
  | some fs => by_cases ht : startsTimer outs = true <;> simp [endDeferralFamilies_append, ht]

theorem mem_peersOf {n : Nat} {p : Peer} {paths : List (Nat × Peer)} :
    p ∈ peersOf n paths ↔ (n, p) ∈ paths := by
  simp only [peersOf, List.mem_map, List.mem_filter, decide_eq_true_eq]
  constructor
  · rintro ⟨e, ⟨he, rfl⟩, rfl⟩; exact he
  · intro h; exact ⟨(n, p), ⟨h, rfl⟩, rfl⟩

theorem mem_prefixes {n : Nat} {paths : List (Nat × Peer)} :
    n ∈ prefixes paths ↔ ∃ p, (n, p) ∈ paths := by
  simp only [prefixes, mem_dedup, List.mem_map]
  constructor
  · rintro ⟨e, he, rfl⟩; exact ⟨e.2, he⟩
  · rintro ⟨p, hp⟩; exact ⟨(n, p), hp, rfl⟩

/-- `end_deferral` announces every prefix that has a path exactly once, with the paths present -/
theorem exactRelease_announce {rib : List (Fam × Nat × Peer)} {f : Fam} {paths : List (Nat × Peer)}
    (hr : ∀ n p, (n, p) ∈ paths ↔ (f, n, p) ∈ rib) {changes : List Change}
    (hc : changes.filter (·.fam = f) = announce f paths) :
    exactRelease rib f changes = true := by
  unfold exactRelease
  simp only [hc, Bool.and_eq_true, List.all_eq_true, Bool.not_eq_eq_eq_not, Bool.not_true]
  refine ⟨⟨?_, ?_⟩, ?_⟩
  · rw [distinct_iff]
    have : (announce f paths).map (·.pfx) = prefixes paths := by
      simp [announce, List.map_map, Function.comp_def]
    rw [this]; exact nodup_dedup _
  · intro c hc'
    simp only [announce, List.mem_map] at hc'
    obtain ⟨n, hn, rfl⟩ := hc'
    obtain ⟨p0, hp0⟩ := mem_prefixes.mp hn
    refine ⟨⟨?_, ?_⟩, by simp⟩
    · simp only [sameSet, Bool.and_eq_true, List.all_eq_true, List.contains_iff_mem, List.mem_map,
        List.mem_filter, decide_eq_true_eq]
      constructor
      · intro p hp
        exact ⟨(f, n, p), ⟨⟨(hr n p).mp (mem_peersOf.mp hp), rfl⟩, rfl⟩, rfl⟩
      · rintro p ⟨e, ⟨⟨he, h1⟩, h2⟩, rfl⟩
        obtain ⟨f', n', p'⟩ := e
        simp only at h1 h2; subst h1 h2
        exact mem_peersOf.mpr ((hr _ _).mpr he)
    · cases hpe : peersOf n paths with
      | nil =>
          have := mem_peersOf.mpr hp0
          rw [hpe] at this; simp at this
      | cons a l => rfl
  · intro e he
    simp only [List.mem_filter, decide_eq_true_eq] at he
    obtain ⟨f', n, p⟩ := e
    obtain ⟨he, rfl⟩ := he
    simp only [List.any_eq_true, decide_eq_true_eq, announce, List.mem_map]
    exact ⟨_, ⟨n, mem_prefixes.mpr ⟨p, (hr n p).mpr he⟩, rfl⟩, rfl⟩

/-! ## tag bookkeeping: when does the machine leave `AwaitingStart` -/

def isDeferring : RInner → Bool
  | .deferring _ => true
  | _ => false

theorem process_tag (m : RInner) (i : RIn) (hw : WFp (pendingOf m)) (hm : (process m i).1 ≠ .completed) :
    isDeferring (process m i).1 = true ↔
      (isDeferring m = true ∨ ∃ p fams, i = .est p fams ∧ ∃ f, (p, f) ∈ pairs (pendingOf (process m i).1)) := by
  cases m with
  | completed =>
      have : process .completed i = (.completed, []) := by cases i <;> rfl
      rw [this] at hm; exact absurd rfl hm
  | deferring pend =>
      simp only [isDeferring, true_or, iff_true]
      cases i with
      | timer => exact absurd rfl hm
      | eor p f =>
          have : process (.deferring pend) (.eor p f) =
              (if (eorStep pend p f).1.isEmpty then (.completed, (eorStep pend p f).2 ++ [.endDeferral []])
               else (.deferring (eorStep pend p f).1, (eorStep pend p f).2)) := rfl
          rw [this] at hm ⊢
          by_cases he : (eorStep pend p f).1.isEmpty = true
          · rw [if_pos he] at hm; exact absurd rfl hm
          · rw [if_neg he]
      | wd p =>
          have : process (.deferring pend) (.wd p) =
              finishDeferring (removePeer pend p).1 (removePeer pend p).2 := rfl
          rw [this] at hm ⊢
          unfold finishDeferring at hm ⊢
          by_cases he : (removePeer pend p).1.isEmpty = true
          · rw [if_pos he] at hm; exact absurd rfl hm
          · rw [if_neg he]
      | est p fams0 =>
          by_cases he : (stillAwaited pend p fams0).isEmpty = true
          · have : process (.deferring pend) (.est p fams0) =
                finishDeferring (removePeer pend p).1 (removePeer pend p).2 := by
              simp only [process, he, ↓reduceIte]
            rw [this] at hm ⊢
            unfold finishDeferring at hm ⊢
            by_cases he2 : (removePeer pend p).1.isEmpty = true
            · rw [if_pos he2] at hm; exact absurd rfl hm
            · rw [if_neg he2]
          · have he' : (stillAwaited pend p fams0).isEmpty = false := by simpa using he
            cases hl : lookup p pend with
            | none => simp only [process, he', Bool.false_eq_true, ↓reduceIte, hl]
            | some old => simp only [process, he', Bool.false_eq_true, ↓reduceIte, hl]
  | awaiting pend dur =>
      simp only [pendingOf] at hw
      simp only [isDeferring, Bool.false_eq_true, false_or]
      cases i with
      | timer => simp [process, isDeferring]
      | eor p f => simp [process, isDeferring]
      | wd p =>
          have : process (.awaiting pend dur) (.wd p) =
              finishAwaiting (removePeer pend p).1 dur (removePeer pend p).2 := rfl
          rw [this]
          unfold finishAwaiting
          by_cases he : (removePeer pend p).1.isEmpty = true
          · rw [if_pos he]; simp [isDeferring]
          · rw [if_neg he]; simp [isDeferring]
      | est p fams0 =>
          by_cases he : (stillAwaited pend p fams0).isEmpty = true
          · have hproc : process (.awaiting pend dur) (.est p fams0) =
                finishAwaiting (removePeer pend p).1 dur (removePeer pend p).2 := by
              simp only [process, he, ↓reduceIte]
            rw [hproc]
            obtain ⟨_, hp', _⟩ := removePeer_spec hw p
            unfold finishAwaiting
            by_cases he2 : (removePeer pend p).1.isEmpty = true
            · rw [if_pos he2]; simp [isDeferring, pendingOf, pairs]
            · rw [if_neg he2]
              simp only [isDeferring, Bool.false_eq_true, RIn.est.injEq, pendingOf, false_iff, not_exists, not_and]
              rintro q fams ⟨rfl, rfl⟩ f hf
              exact ((hp' _).mp hf).2 rfl
          · have he' : (stillAwaited pend p fams0).isEmpty = false := by simpa using he
            cases hl : lookup p pend with
            | none =>
                simp only [process, he', Bool.false_eq_true, ↓reduceIte, hl, isDeferring, RIn.est.injEq,
                  pendingOf, false_iff, not_exists, not_and]
                rintro q fams ⟨rfl, rfl⟩ f hf
                exact not_mem_pairs_of_lookup_none hl f hf
            | some old =>
                obtain ⟨_, _, hp', _⟩ := est_known hw p fams0 old hl he'
                simp only [process, he', Bool.false_eq_true, ↓reduceIte, hl, isDeferring, RIn.est.injEq,
                  pendingOf, true_iff]
                have hnw : toSet (stillAwaited pend p fams0) ≠ [] := by
                  intro h
                  have : stillAwaited pend p fams0 = [] := dedup_eq_nil.mp h
                  simp [this] at he'
                cases hs : toSet (stillAwaited pend p fams0) with
                | nil => exact absurd hs hnw
                | cons f rest =>
                    refine ⟨p, fams0, ⟨rfl, rfl⟩, f, ?_⟩
                    rw [mem_pairs]
                    exact ⟨_, mem_replace.mpr (Or.inr ⟨rfl, old, mem_of_lookup_some hl⟩), by simp [hs]⟩

/-! ## when `StartDeferralTimer` is emitted -/

theorem filter_st_map (cs : List Fam) : (cs.map ROut.famComplete).filter isStartTimer = [] := by
  induction cs with
  | nil => rfl
  | cons c cs ih => simp [isStartTimer, ih]

theorem filter_st_completeFor (pend : Pending) (C : List Fam) : (completeFor pend C).filter isStartTimer = [] := by
  rw [completeFor_shape]; exact filter_st_map _

theorem filter_st_removePeer (pend : Pending) (p : Peer) : (removePeer pend p).2.filter isStartTimer = [] := by
  unfold removePeer
  cases lookup p pend with
  | none => rfl
  | some s => exact filter_st_completeFor _ _

theorem filter_st_finishA (pend : Pending) (d : Option Nat) (out : List ROut) (h : out.filter isStartTimer = []) :
    (finishAwaiting pend d out).2.filter isStartTimer = [] ∧ isDeferring (finishAwaiting pend d out).1 = false := by
  unfold finishAwaiting
  split <;> simp [List.filter_append, h, isStartTimer, isDeferring]

theorem filter_st_finishD (pend : Pending) (out : List ROut) (h : out.filter isStartTimer = []) :
    (finishDeferring pend out).2.filter isStartTimer = [] := by
  unfold finishDeferring
  split <;> simp [List.filter_append, h, isStartTimer]

theorem filter_st_eorStep (pend : Pending) (p : Peer) (f : Fam) : (eorStep pend p f).2.filter isStartTimer = [] := by
  unfold eorStep
  cases lookup p pend with
  | none => rfl
  | some s =>
      simp only
      have : ∀ (b : Bool), (if b then [ROut.famComplete f] else []).filter isStartTimer = [] := by
        intro b; cases b <;> simp [isStartTimer]
      exact this _

/-- `StartDeferralTimer(duration)` is emitted exactly when the machine leaves `AwaitingStart` for
    `Deferring`, once, with the configured duration. -/
theorem process_startTimer (m : RInner) (i : RIn) :
    (process m i).2.filter isStartTimer =
      (match m with
       | .awaiting _ d => if isDeferring (process m i).1 then [.startTimer d] else []
       | _ => []) := by
  cases m with
  | completed =>
      have : process .completed i = (.completed, []) := by cases i <;> rfl
      rw [this]; rfl
  | deferring pend =>
      cases i with
      | timer => simp [process, isStartTimer]
      | eor p f =>
          have : process (.deferring pend) (.eor p f) =
              (if (eorStep pend p f).1.isEmpty then (.completed, (eorStep pend p f).2 ++ [.endDeferral []])
               else (.deferring (eorStep pend p f).1, (eorStep pend p f).2)) := rfl
          rw [this]
          split <;> simp [List.filter_append, filter_st_eorStep, isStartTimer]
      | wd p =>
          have : process (.deferring pend) (.wd p) =
              finishDeferring (removePeer pend p).1 (removePeer pend p).2 := rfl
          rw [this]; exact filter_st_finishD _ _ (filter_st_removePeer _ _)
      | est p fams0 =>
          simp only [process]
          split
          · exact filter_st_finishD _ _ (filter_st_removePeer _ _)
          · split
            · exact filter_st_completeFor _ _
            · rfl
  | awaiting pend dur =>
      cases i with
      | timer => simp [process, isDeferring]
      | eor p f => simp [process, isDeferring]
      | wd p =>
          have : process (.awaiting pend dur) (.wd p) =
              finishAwaiting (removePeer pend p).1 dur (removePeer pend p).2 := rfl
          rw [this]
          obtain ⟨a, b⟩ := filter_st_finishA (removePeer pend p).1 dur _ (filter_st_removePeer pend p)
          simp [a, b]
      | est p fams0 =>
          simp only [process]
          split
          · obtain ⟨a, b⟩ := filter_st_finishA (removePeer pend p).1 dur _ (filter_st_removePeer pend p)
            simp [a, b]
          · split
            · simp [List.filter_append, filter_st_completeFor, isStartTimer, isDeferring]
            · simp [isDeferring]

theorem finishAwaiting_dur (pend : Pending) (d0 : Option Nat) (out : List ROut) :
    ∀ q d, (finishAwaiting pend d0 out).1 = .awaiting q d → d = d0 := by
  intro q d h
  unfold finishAwaiting at h
  split at h
  · cases h
  · simp only [RInner.awaiting.injEq] at h; exact h.2.symm

/-- the duration fixed at start-up stays with the machine for as long as it is `AwaitingStart` -/
theorem process_awaiting_dur (pend : Pending) (d0 : Option Nat) (i : RIn) :
    ∀ q d, (process (.awaiting pend d0) i).1 = .awaiting q d → d = d0 := by
  intro q d h
  cases i with
  | timer => simp only [process, RInner.awaiting.injEq] at h; exact h.2.symm
  | eor p f => simp only [process, RInner.awaiting.injEq] at h; exact h.2.symm
  | wd p => exact finishAwaiting_dur _ _ _ q d h
  | est p fams0 =>
      simp only [process] at h
      split at h
      · exact finishAwaiting_dur _ _ _ q d h
      · split at h
        · cases h
        · simp only [RInner.awaiting.injEq] at h; exact h.2.symm

theorem startsTimer_iff (outs : List ROut) (d : Option Nat) (h : outs.filter isStartTimer = [.startTimer d]) :
    startsTimer outs = d.isSome := by
  have hmem : ∀ o ∈ outs, isStartTimer o = true → o = .startTimer d := by
    intro o ho hs
    have : o ∈ outs.filter isStartTimer := List.mem_filter.mpr ⟨ho, hs⟩
    rw [h] at this; simpa using this
  have hin : ROut.startTimer d ∈ outs := by
    have : ROut.startTimer d ∈ outs.filter isStartTimer := by rw [h]; simp
    exact (List.mem_filter.mp this).1
  cases d with
  | none =>
      simp only [startsTimer, Option.isSome_none, List.any_eq_false]
      intro o ho
      cases o with
      | startTimer x => have := hmem _ ho rfl; cases this; simp
      | _ => simp
  | some n =>
      simp only [startsTimer, Option.isSome_some, List.any_eq_true]
      exact ⟨_, hin, rfl⟩

theorem startsTimer_false (outs : List ROut) (h : outs.filter isStartTimer = []) : startsTimer outs = false := by
  simp only [startsTimer, List.any_eq_false]
  intro o ho
  cases o with
  | startTimer x =>
      have : ROut.startTimer x ∈ outs.filter isStartTimer := List.mem_filter.mpr ⟨ho, rfl⟩
      rw [h] at this; simp at this
  | _ => simp

end Rbgp.Gr.Restarting
