/-
  Rbgp.Gr.Restarting.Wire — C11 judged at the socket.

  A `(wire ...)` case starts the real daemon from a configuration file in Restarting mode and drives
  it with remote speakers over TCP (harness/daemon/c11w.rs); the observation is, per step and per
  speaker, the BGP messages that arrived.  This file is the reference checker for those traces,
  written from the property text; it reuses the reference bookkeeping of Spec.lean (`R`, `next`,
  `releasedNow`: who is waited for, which family is held, which routes are in) and calls no model
  function.  There is no model of the export path here: wire cases are judged by this oracle only
  (`impl_only_re` in checks/c11.py).

  Reading of the text at the socket.
  * "advertisement for each deferred family is held back": while a family is held, no UPDATE that
    announces or withdraws a prefix of it reaches any speaker — neither as a change nor as the
    initial table dump of a session that comes up meanwhile (`wire-advertised-while-deferred`) —
    and the End-of-RIB marker of that family, which tells the peer that the advertisement is
    complete, is not sent either (`wire-eor-while-deferred`).
  * "then every prefix received meanwhile is announced exactly once": at the step that releases
    a family, every established speaker receives, for every prefix of it that has a usable path of
    somebody else which the table must still hold (announced on that peer's present session, or retained
    from a session that ended with graceful restart for the family and not yet followed by a new one) and
    none from the speaker itself, exactly one announcement
    (`wire-release-not-announced`), nobody receives an announcement twice (`wire-announced-twice`),
    and the End-of-RIB of the family follows the announcements (`wire-eor-missing-after-release`,
    `wire-eor-before-routes`).
  * "the restarting flag is cleared": the OPEN sent to a helper (a peer configured for graceful
    restart) carries the Restart State bit exactly while something is still waited for
    (`wire-restart-bit`).
-/
import Rbgp.Term
import Rbgp.Gr.Restarting.Codec
import Rbgp.Gr.Restarting.Spec
namespace Rbgp.Gr.Restarting.Wire
open Rbgp Rbgp.Term Rbgp.Gr.Restarting Rbgp.Gr.Restarting.Spec

inductive Frame where
  | openR | openN
  | reach (f : Fam) (n : Nat)
  | unreach (f : Fam) (n : Nat)
  | eor (f : Fam)
  | notif (c s : Nat)
  | eof
  deriving DecidableEq, Repr, Inhabited

/-- one step: what each speaker received -/
abbrev StepObs := List (Peer × List Frame)

/-! ## codec -/

def frameOf? : Term → Option Frame
  | .list [.atom "open", .atom "r"] => some .openR
  | .list [.atom "open", .atom "n"] => some .openN
  | .list [.atom "reach", f, n] => do pure (.reach (← asNat? f) (← asNat? n))
  | .list [.atom "unreach", f, n] => do pure (.unreach (← asNat? f) (← asNat? n))
  | .list [.atom "eor", f] => do pure (.eor (← asNat? f))
  | .list [.atom "notif", c, s] => do pure (.notif (← asNat? c) (← asNat? s))
  | .atom "eof" => some .eof
  | _ => none

def rxOf? : Term → Option (Peer × List Frame)
  | .list (.atom "rx" :: q :: fs) => do pure ((← asNat? q), (← fs.mapM frameOf?))
  | _ => none

def stepOf? : Term → Option StepObs
  | .list rs => rs.mapM rxOf?
  | _ => none

inductive Trace where
  | steps (l : List StepObs)
  /-- the selection-deferral timer, which runs in real time, may have fired before the case asked for it -/
  | inconclusive
  deriving Repr

def traceOf? : Term → Option Trace
  | .list (.atom "wire-trace" :: ss) => (ss.mapM stepOf?).map .steps
  | .list [.atom "wire-inconclusive", _] => some .inconclusive
  | _ => none

/-- `(wire (peers ...) (dur ..) (evs ...))`: a `(case ...)` restricted to what a remote speaker can do -/
def caseOf? : Term → Option (Cfg × List Ev)
  | .list (.atom "wire" :: rest) => Codec.caseOf? (.list (.atom "case" :: rest))
  | _ => none

/-! ## reference bookkeeping for wire events -/

/-- graceful-restart families configured for peer `p` (the last entry of a peer counts) -/
def helperFams (cfg : Cfg) (p : Peer) : List Fam :=
  match (helpers cfg.peers).find? (fun e => e.1 = p) with
  | some e => e.2
  | none => []

def isUp (r : R) (p : Peer) : Bool := r.up.any (fun e => e.1 = p)

/-- is the event something a remote speaker can do in this situation? -/
def wireOk (r : R) : Ev → Bool
  | .rd (.est p _) => !isUp r p
  | .rd (.eor p _) => isUp r p
  | .rd (.wd _) => true
  | .rd .timer => true
  | .ins p _ _ => isUp r p
  | .rm p _ _ => isUp r p
  | _ => false

/-- the reference after a wire event: a session that ends takes its routes with it unless graceful
    restart was negotiated for the family (then they are kept, stale) -/
def wnext (cfg : Cfg) (r : R) : Ev → R
  | .rd (.est p fams) =>
      let r1 := next r (.rd (.est p fams))
      -- graceful restart is negotiated for the families both sides list
      let neg := fams.filter (fun f => (helperFams cfg p).contains f)
      { r1 with up := (p, neg) :: r1.up.filter (fun e => e.1 ≠ p) }
  | .rd (.wd p) => if isUp r p then next (next r (.gdown p)) (.rd (.wd p)) else next r (.rd (.wd p))
  | e => next r e

/-- in the property's domain? (Spec.wf on the machine events, with the session list as negotiated) -/
def wwf (cfg : Cfg) (r : R) (e : Ev) : Bool := wireOk r e && wf cfg r e

/-! ## the clauses -/

def framesOf (o : StepObs) (q : Peer) : List Frame := (o.filter (fun e => e.1 = q)).flatMap (·.2)

def allFrames (o : StepObs) : List Frame := o.flatMap (·.2)

def countReach (fs : List Frame) (f : Fam) (n : Nat) : Nat := (fs.filter (· = .reach f n)).length

/-- index of the last announcement of family `f`, and of the first End-of-RIB of `f` -/
def lastReachIdx (fs : List Frame) (f : Fam) : Option Nat :=
  (fs.zipIdx.filter (fun e => match e.1 with | .reach g _ => g = f | _ => false)).getLast?.map (·.2)
def firstEorIdx (fs : List Frame) (f : Fam) : Option Nat :=
  (fs.zipIdx.find? (fun e => e.1 = .eor f)).map (·.2)

def usableRib (r : R) : List (Fam × Nat × Peer) := r.rib.filter (fun e => !r.invalid.contains e.2.2)

/-- prefixes of family `f` speaker `q` must be told at the release: a usable path from somebody else that
    the table must still hold (`owedPaths`), none from `q` itself -/
def owed (r : R) (fresh : List (Fam × Nat × Peer)) (f : Fam) (q : Peer) : List Nat :=
  let mine := (usableRib r).filter (·.1 = f)
  let ns := ((mine.filter (fun e => e.2.2 ≠ q && fresh.contains e)).map (·.2.1))
  (ns.filter (fun n => !mine.any (fun e => e.2.1 = n && e.2.2 = q))).eraseDups

/-- The paths the table must still hold: what a peer announced on its present session, and what is
    RETAINED from a session that ended with graceful restart negotiated for the family (the reference
    `rib` keeps exactly those at `wd`; the others leave it) — until that peer establishes again: from
    then on the helper side may purge what it retained (at once for a family not re-negotiated, at the
    peer's End-of-RIB otherwise; that is C10's subject), so a retained path is owed again only once it
    is re-announced.  The restart time (120 s) does not elapse within a case. -/
def freshNext (fresh : List (Fam × Nat × Peer)) : Ev → List (Fam × Nat × Peer)
  | .ins p f n => if fresh.contains (f, n, p) then fresh else (f, n, p) :: fresh
  | .rm p f n => fresh.filter (· ≠ (f, n, p))
  | .rd (.est p _) => fresh.filter (·.2.2 ≠ p)
  | _ => fresh

def wstepOk (cfg : Cfg) (ev : Ev) (r r' : R) (fresh' : List (Fam × Nat × Peer)) (o : StepObs) : Except String Unit :=
  let rel := releasedNow r r'
  let fs := allFrames o
  let heldOn := fun (f : Fam) => held r f && !rel.contains f
  if fs.any (fun x => match x with | .reach f _ => heldOn f | .unreach f _ => heldOn f | _ => false) then
    .error "wire-advertised-while-deferred"
  else if fs.any (fun x => match x with | .eor f => heldOn f | _ => false) then
    .error "wire-eor-while-deferred"
  else if rel.any (fun f => r'.up.any (fun q => (owed r' fresh' f q.1).any (fun n => countReach (framesOf o q.1) f n = 0))) then
    .error "wire-release-not-announced"
  else if rel.any (fun f => o.any (fun q => (q.2.any (fun x => match x with
            | .reach g n => g = f && countReach (framesOf o q.1) g n > 1 | _ => false)))) then
    .error "wire-announced-twice"
  else if rel.any (fun f => r'.up.any (fun q => (firstEorIdx (framesOf o q.1) f).isNone)) then
    .error "wire-eor-missing-after-release"
  else if rel.any (fun f => r'.up.any (fun q =>
            match lastReachIdx (framesOf o q.1) f, firstEorIdx (framesOf o q.1) f with
            | some i, some j => j < i
            | _, _ => false)) then
    .error "wire-eor-before-routes"
  else
    match ev with
    | .rd (.est p _) =>
        let fp := framesOf o p
        let wantR := !(helperFams cfg p).isEmpty && !r.waiting.isEmpty
        if !(fp.contains .openR || fp.contains .openN) then .error "wire-no-open"
        else if fp.contains .openR ≠ wantR then .error "wire-restart-bit"
        else .ok ()
    | _ => .ok ()

def checkFrom (cfg : Cfg) (r : R) (fresh : List (Fam × Nat × Peer)) (i : Nat) : List Ev → List StepObs → Verdict
  | [], [] => .ok
  | e :: es, o :: os =>
      if !wwf cfg r e then .ok     -- outside the property's domain from here on
      else
        let r1 := wnext cfg r e
        let fresh1 := freshNext fresh e
        match wstepOk cfg e r r1 fresh1 o with
        | .error c => .fail i c
        | .ok _ =>
            let r2 := { r1 with released := r1.released ++ releasedNow r r1, timer := timerAfter cfg r r1 }
            checkFrom cfg r2 fresh1 (i + 1) es os
  | _, _ => .fail i "trace-length"

def check (cfg : Cfg) (evs : List Ev) : Trace → Verdict
  | .inconclusive => .ok
  | .steps os => checkFrom cfg (Spec.init cfg) [] 1 evs os

/-! ## the checker at work (hand-checked traces; the second of each pair is what the daemon sent
    before the repair of the initial dump / of the End-of-RIB at establishment) -/

def exCfg : Cfg := { peers := [(0, [0]), (1, [0])], dur := some 360 }
def exEvs : List Ev := [.rd (.est 0 [0]), .ins 0 0 0, .rd (.est 1 [0]), .rd (.eor 0 0), .rd (.eor 1 0), .ins 0 0 1]

example : check exCfg exEvs (.steps
    [[(0, [.openR, .eor 1, .eor 2])], [], [(1, [.openR, .eor 1, .eor 2])], [],
     [(0, [.eor 0]), (1, [.reach 0 0, .eor 0])], [(1, [.reach 0 1])]]) = .ok := by decide
/-- the table dump of a session that comes up during deferral leaks the held family -/
example : check exCfg exEvs (.steps
    [[(0, [.openR, .eor 1, .eor 2])], [], [(1, [.openR, .reach 0 0, .eor 1, .eor 2])], [],
     [(0, [.eor 0]), (1, [.reach 0 0, .eor 0])], [(1, [.reach 0 1])]]) = .fail 3 "wire-advertised-while-deferred" := by
  decide
/-- End-of-RIB at establishment although the family is held -/
example : check exCfg exEvs (.steps
    [[(0, [.openR, .eor 0, .eor 1, .eor 2])], [], [(1, [.openR, .eor 1, .eor 2])], [],
     [(0, [.eor 0]), (1, [.reach 0 0, .eor 0])], [(1, [.reach 0 1])]]) = .fail 1 "wire-eor-while-deferred" := by decide
example : check exCfg exEvs (.steps
    [[(0, [.openR, .eor 1, .eor 2])], [], [(1, [.openR, .eor 1, .eor 2])], [],
     [(0, [.eor 0]), (1, [.eor 0])], [(1, [.reach 0 1])]]) = .fail 5 "wire-release-not-announced" := by decide
example : check exCfg exEvs (.steps
    [[(0, [.openR, .eor 1, .eor 2])], [], [(1, [.openR, .eor 1, .eor 2])], [],
     [(0, [.eor 0]), (1, [.reach 0 0, .reach 0 0, .eor 0])], [(1, [.reach 0 1])]]) = .fail 5 "wire-announced-twice" := by
  decide
example : check exCfg exEvs (.steps
    [[(0, [.openR, .eor 1, .eor 2])], [], [(1, [.openR, .eor 1, .eor 2])], [],
     [(0, [.eor 0]), (1, [.reach 0 0])], [(1, [.reach 0 1])]]) = .fail 5 "wire-eor-missing-after-release" := by decide
example : check exCfg exEvs (.steps
    [[(0, [.openR, .eor 1, .eor 2])], [], [(1, [.openR, .eor 1, .eor 2])], [],
     [(0, [.eor 0]), (1, [.eor 0, .reach 0 0])], [(1, [.reach 0 1])]]) = .fail 5 "wire-eor-before-routes" := by decide
example : check exCfg exEvs (.steps
    [[(0, [.openN, .eor 1, .eor 2])], [], [(1, [.openR, .eor 1, .eor 2])], [],
     [(0, [.eor 0]), (1, [.reach 0 0, .eor 0])], [(1, [.reach 0 1])]]) = .fail 1 "wire-restart-bit" := by decide

/-- a helper drops during deferral with graceful restart negotiated: its route is retained and is owed at
    the release (review r-7, item 1); a daemon that skips stale paths there is refused -/
def exEvs2 : List Ev := [.rd (.est 0 [0]), .ins 0 0 0, .rd (.est 1 [0]), .rd (.wd 0), .rd (.eor 1 0)]
example : check { peers := [(0, [0]), (1, [0])], dur := none } exEvs2 (.steps
    [[(0, [.openR, .eor 1, .eor 2])], [], [(1, [.openR, .eor 1, .eor 2])], [], [(1, [.reach 0 0, .eor 0])]]) = .ok := by
  decide
example : check { peers := [(0, [0]), (1, [0])], dur := none } exEvs2 (.steps
    [[(0, [.openR, .eor 1, .eor 2])], [], [(1, [.openR, .eor 1, .eor 2])], [], [(1, [.eor 0])]])
    = .fail 5 "wire-release-not-announced" := by decide
/-- ... but once that helper has established again (here without graceful restart) the helper side may
    have purged what it retained: announced or not, both are accepted -/
def exEvs3 : List Ev :=
  [.rd (.est 0 [0]), .ins 0 0 0, .rd (.est 1 [0]), .rd (.wd 0), .rd (.est 0 []), .rd (.eor 1 0)]
example : check { peers := [(0, [0]), (1, [0])], dur := none } exEvs3 (.steps
    [[(0, [.openR, .eor 1, .eor 2])], [], [(1, [.openR, .eor 1, .eor 2])], [], [(0, [.openR, .eor 1, .eor 2])],
     [(0, [.eor 0]), (1, [.eor 0])]]) = .ok := by decide

end Rbgp.Gr.Restarting.Wire
