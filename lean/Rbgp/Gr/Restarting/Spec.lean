/-
  Rbgp.Gr.Restarting.Spec — C11 written from the property text as a reference checker over
  observations.  Imports the model only for its observation / event *types*; calls no model
  function.

  Property (properties.jsonl C11): after a restart with graceful restart configured, best-path
  selection and advertisement for each deferred family are held back until every configured
  helper peer that re-negotiated that family has sent End-of-RIB, dropped, or re-established
  without it, or until the selection-deferral timer expires; then every prefix received meanwhile
  is announced exactly once and the restarting flag is cleared.  A peer without graceful restart
  never blocks completion and the machine cannot stay deferring once no peer is pending.

  Reference reading.
  * `waiting` = the set of (helper, family) pairs still waited for.  Initially every configured
    helper with every family configured for it.  The set only shrinks: a helper that
    (re-)establishes keeps only the pairs whose family it re-negotiated ("re-established without
    it" clears the others; without graceful restart: all); End-of-RIB clears one pair ("has sent
    End-of-RIB" is final); a dropped helper clears all its pairs.  Timer expiry clears everything.
  * A deferred family is *held* until the first step after which no pair of `waiting` names it;
    at that step it is *released*.  Released is final (the "exactly once" of the statement is
    read per restart, DESIGN §4.0).
  * The Selection_Deferral_Timer is started when the first helper establishes with graceful
    restart while still waited for (RFC 4724 §4.1), with the configured duration
    (`stale-routes-time`: absent = 360 s, 0 = disabled), and runs until nothing is waited for.
    The step that starts it asks for it once (`StartDeferralTimer`), no other step does.
  * The restarting flag (`Global.selection_deferral` installed; it is what the R-bit of OPEN is
    derived from) is set exactly while something is waited for; a machine that reports
    `Completed` is never left installed.
  * "Selection and advertisement are held back" is judged on what is distributed: at no step —
    whatever touches the RIB: announcements, withdrawals, a peer going away, a helper's routes being
    marked stale / LLGR-stale or purged when its session ends, next-hop reachability flipping — is a
    change distributed for a family that is still held.  Routes whose next hop is unreachable are
    not eligible and are not part of the release announcement.
  * The start-up step sets the deferral flag of every deferred family and installs the machine.
  * Histories in the property's domain (`wf`): excluded are only the impossible ones: an
    End-of-RIB from a helper that is still waited for but has no established GR session, and a
    timer expiry while helpers are waited for although the timer was never started (or is
    disabled).  An End-of-RIB from a peer nobody waits for and a stale timer expiry when nothing
    is waited for are ordinary events; they must change nothing.  From the first excluded event
    on, nothing is demanded.
-/
import Rbgp.Gr.Restarting.Model
namespace Rbgp.Gr.Restarting.Spec
open Rbgp.Gr.Restarting

structure R where
  deferred : List Fam := []
  released : List Fam := []
  waiting : List (Peer × Fam) := []
  /-- established sessions: peer ↦ GR families negotiated on it -/
  up : List (Peer × List Fam) := []
  started : Bool := false
  /-- the selection-deferral timer is running -/
  timer : Bool := false
  /-- announced paths currently in the RIB: (family, prefix, peer) -/
  rib : List (Fam × Nat × Peer) := []
  /-- (family, peer): the routes of the peer in the family are kept as a GR helper (marked stale) -/
  stale : List (Fam × Peer) := []
  /-- ... as an LLGR helper -/
  llgr : List (Fam × Peer) := []
  /-- peers whose next hop is unreachable: their routes are not eligible for selection -/
  invalid : List Peer := []
  deriving DecidableEq, Repr, Inhabited

/-- configured helpers: the last entry of a peer counts; no families = not a helper -/
def helpers : List (Peer × List Fam) → List (Peer × List Fam)
  | [] => []
  | e :: rest => if rest.any (fun x => x.1 = e.1) then helpers rest else e :: helpers rest

def init (cfg : Cfg) : R :=
  let w := (helpers cfg.peers).flatMap fun e => e.2.map fun f => (e.1, f)
  { deferred := w.map (·.2), waiting := w }

def tracked (r : R) (p : Peer) : Bool := r.waiting.any (fun e => e.1 = p)
def holds (f : Fam) (w : List (Peer × Fam)) : Bool := w.any (fun e => e.2 = f)
def held (r : R) (f : Fam) : Bool := r.deferred.contains f && !r.released.contains f

def upFams (r : R) (p : Peer) : Option (List Fam) := (r.up.find? (fun e => e.1 = p)).map (·.2)

/-- the configured Selection_Deferral_Timer (`stale-routes-time`): absent = 360 s, 0 = disabled -/
def effDur : Option Nat → Option Nat
  | none => some 360
  | some 0 => none
  | some n => some n

/-- Is the event possible in this situation?  Impossible are only: an End-of-RIB from a helper that
    is still waited for but has no established GR session, and a timer expiry while helpers are
    still waited for although the timer was never started (or is disabled).  An End-of-RIB from a
    peer nobody waits for, and a (stale) timer expiry when nothing is waited for, are ordinary
    events that must change nothing. -/
def wf (cfg : Cfg) (r : R) : Ev → Bool
  | .rd (.eor p _) =>
      !tracked r p || (match upFams r p with | some fs => !fs.isEmpty | none => false)
  | .rd .timer => r.waiting.isEmpty || (r.started && (effDur cfg.dur).isSome)
  | _ => true

/-- all routes of `p` in family `f` are removed -/
def dropRoutes (r : R) (p : Peer) (f : Fam) : R :=
  { r with rib := r.rib.filter (fun e => !(e.1 = f && e.2.2 = p)) }

/-- the routes of `p` in family `f` (if any) are kept as stale -/
def markStale (r : R) (p : Peer) (f : Fam) : R :=
  if r.rib.any (fun e => e.1 = f && e.2.2 = p) && !r.stale.contains (f, p) then { r with stale := (f, p) :: r.stale }
  else r

/-- the reference bookkeeping (who is waited for, which sessions are up, which routes are in) -/
def next (r : R) : Ev → R
  | .rd (.est p fams) =>
      let up' := (p, fams) :: r.up.filter (fun e => e.1 ≠ p)
      let w' := r.waiting.filter (fun e => e.1 ≠ p || fams.contains e.2)
      { r with up := up', waiting := w', started := r.started || w'.any (fun e => e.1 = p) }
  | .rd (.eor p f) => { r with waiting := r.waiting.filter (fun e => e ≠ (p, f)) }
  | .rd (.wd p) => { r with up := r.up.filter (fun e => e.1 ≠ p), waiting := r.waiting.filter (fun e => e.1 ≠ p) }
  | .rd .timer => { r with waiting := [] }
  | .ins p f n => if r.rib.contains (f, n, p) then r else { r with rib := r.rib ++ [(f, n, p)] }
  | .rm p f n => { r with rib := r.rib.filter (· ≠ (f, n, p)) }
  | .drop p f => dropRoutes r p f
  | .stale p f => markStale r p f
  | .llgr p f =>
      if r.rib.any (fun e => e.1 = f && e.2.2 = p) && !r.llgr.contains (f, p) then { r with llgr := (f, p) :: r.llgr }
      else r
  | .purge p f => if r.stale.contains (f, p) then dropRoutes r p f else r
  | .lpurge p f => if r.llgr.contains (f, p) then dropRoutes r p f else r
  | .nhv p ok =>
      if r.invalid.contains p = !ok then r
      else { r with invalid := if ok then r.invalid.filter (· ≠ p) else p :: r.invalid }
  | .gdown p =>
      match upFams r p with
      | none => r
      | some gr =>
          -- the session carried families 0, 1, 2: those with graceful restart are kept, the others go
          let g := fun (r : R) (f : Fam) => if gr.contains f then markStale r p f else dropRoutes r p f
          let r3 := g (g (g r 0) 1) 2
          { r3 with up := r3.up.filter (fun e => e.1 ≠ p) }

/-- families that must be released at the step leading to `r'` -/
def releasedNow (r r' : R) : List Fam := r.deferred.filter fun f => held r f && !holds f r'.waiting

def isRd : Ev → Bool
  | .rd _ => true
  | _ => false

def mentions (outs : List ROut) (f : Fam) : Bool :=
  outs.any fun o => match o with
    | .famComplete g => g = f
    | .endDeferral fs => fs.contains f
    | _ => false

def sameSet (a b : List Nat) : Bool := a.all (b.contains ·) && b.all (a.contains ·)

def distinct : List Nat → Bool
  | [] => true
  | a :: l => !l.contains a && distinct l

/-- "every prefix received meanwhile is announced exactly once": the changes of family `f` are one
    per prefix that has a path, each with exactly the paths present -/
def exactRelease (rib : List (Fam × Nat × Peer)) (f : Fam) (changes : List Change) : Bool :=
  let cs := changes.filter (·.fam = f)
  let mine := rib.filter (·.1 = f)
  distinct (cs.map (·.pfx))
  && cs.all (fun c => sameSet c.peers ((mine.filter (·.2.1 = c.pfx)).map (·.2.2)) && !c.peers.isEmpty
                      && c.kind = .adv)
  && mine.all (fun e => cs.any (·.pfx = e.2.1))

def isStartTimer : ROut → Bool
  | .startTimer _ => true
  | _ => false

/-- is the selection-deferral timer running after the step that leads from `r` to `r'`?  It is started
    when the first helper establishes with graceful restart (unless disabled) and stopped when
    nothing is waited for any more. -/
def timerAfter (cfg : Cfg) (r r' : R) : Bool :=
  !r'.waiting.isEmpty && (r.timer || (!r.started && r'.started && (effDur cfg.dur).isSome))

/-- Check one observed step; `r` before, `r'` after (already computed by `next`); `ev = none` is
    the start-up step. -/
def stepOk (cfg : Cfg) (ev : Option Ev) (r r' : R) (o : Obs) : Except String Unit :=
  let rel := releasedNow r r'
  let startedNow := !r.started && r'.started
  if o.changes.any (fun c => held r c.fam && !rel.contains c.fam) then .error "change-while-deferred"
  else if r.deferred.any (fun f => held r f && !rel.contains f && (!o.flags.contains f || mentions o.outs f)) then
    .error "released-early"
  else if rel.any (fun f => o.flags.contains f) then .error "not-released"
  else if rel.any (fun f => !exactRelease (r'.rib.filter (fun e => !r'.invalid.contains e.2.2)) f o.changes) then
    .error "release-not-exact"
  else if r.deferred.any (fun f => r.released.contains f &&
            (mentions o.outs f || ((ev.map isRd).getD true && o.changes.any (·.fam = f)))) then
    .error "released-twice"
  else if o.pending.any (fun e => !tracked r' e.1 || e.2.isEmpty) then .error "nongr-in-pending"
  else if (o.tag = .awaiting || o.tag = .deferring) && o.pending.isEmpty then .error "stuck-deferring"
  else if r'.waiting.isEmpty && (o.tag = .awaiting || o.tag = .deferring || o.installed) then
    .error "not-completed"
  else if o.tag = .completed then .error "completed-still-installed"
  else if !r'.waiting.isEmpty && (o.tag = .absent || !o.installed) then .error "machine-gone-while-waited"
  else if o.outs.filter isStartTimer ≠ (if startedNow then [.startTimer (effDur cfg.dur)] else []) then
    .error "timer-start"
  else if o.timer ≠ timerAfter cfg r r' then .error "timer-armed"
  else if ev.isNone && r'.deferred.any (fun f => !o.flags.contains f) then .error "startup-not-deferred"
  else .ok ()

inductive Verdict where
  | ok
  | fail (idx : Nat) (clause : String)
  deriving DecidableEq, Repr

def checkFrom (cfg : Cfg) (r : R) (i : Nat) : List Ev → List Obs → Verdict
  | [], [] => .ok
  | e :: es, o :: os =>
      if !wf cfg r e then .ok     -- outside the property's domain from here on
      else
        let r1 := next r e
        match stepOk cfg (some e) r r1 o with
        | .error c => .fail i c
        | .ok _ =>
            let r2 := { r1 with released := r1.released ++ releasedNow r r1, timer := timerAfter cfg r r1 }
            checkFrom cfg r2 (i + 1) es os
  | _, _ => .fail i "trace-length"

/-- The first observation is the start-up step. -/
def check (cfg : Cfg) (evs : List Ev) : List Obs → Verdict
  | [] => .fail 0 "trace-length"
  | o :: os =>
      let r := init cfg
      match stepOk cfg none {} r o with
      | .error c => .fail 0 c
      | .ok _ => checkFrom cfg r 1 evs os

end Rbgp.Gr.Restarting.Spec
