/- Term encoding of C11 cases and observations (canonical: everything that came from a hash map
   or hash set is sorted here and in the harness). -/
import Rbgp.Term
import Rbgp.Gr.Restarting.Model
namespace Rbgp.Gr.Restarting.Codec
open Rbgp Rbgp.Term Rbgp.Gr.Restarting

def sortNat (l : List Nat) : List Nat := l.mergeSort (fun a b => a ≤ b)

def maxPeer : Nat := 4
def maxFam : Nat := 3
def maxPfx : Nat := 4

def peerOf? (t : Term) : Option Peer := do
  let n ← asNat? t
  if n < maxPeer then some n else none
def famOf? (t : Term) : Option Fam := do
  let n ← asNat? t
  if n < maxFam then some n else none
def pfxOf? (t : Term) : Option Nat := do
  let n ← asNat? t
  if n < maxPfx then some n else none

def famsT (fs : List Fam) : Term := ofList nat (sortNat fs)

def evOf? : Term → Option Ev
  | .list [.atom "est", p, fs] => do pure (.rd (.est (← peerOf? p) (← asListOf? famOf? fs)))
  | .list [.atom "eor", p, f] => do pure (.rd (.eor (← peerOf? p) (← famOf? f)))
  | .list [.atom "wd", p] => do pure (.rd (.wd (← peerOf? p)))
  | .atom "timer" => some (.rd .timer)
  | .list [.atom "ins", p, f, n] => do pure (.ins (← peerOf? p) (← famOf? f) (← pfxOf? n))
  | .list [.atom "rm", p, f, n] => do pure (.rm (← peerOf? p) (← famOf? f) (← pfxOf? n))
  | .list [.atom "drop", p, f] => do pure (.drop (← peerOf? p) (← famOf? f))
  | .list [.atom "stale", p, f] => do pure (.stale (← peerOf? p) (← famOf? f))
  | .list [.atom "llgr", p, f] => do pure (.llgr (← peerOf? p) (← famOf? f))
  | .list [.atom "purge", p, f] => do pure (.purge (← peerOf? p) (← famOf? f))
  | .list [.atom "lpurge", p, f] => do pure (.lpurge (← peerOf? p) (← famOf? f))
  | .list [.atom "nhv", p, b] => do pure (.nhv (← peerOf? p) (← asBool? b))
  | .list [.atom "gdown", p] => do pure (.gdown (← peerOf? p))
  | _ => none

def evT : Ev → Term
  | .rd (.est p fs) => tag "est" [nat p, ofList nat fs]
  | .rd (.eor p f) => tag "eor" [nat p, nat f]
  | .rd (.wd p) => tag "wd" [nat p]
  | .rd .timer => sym "timer"
  | .ins p f n => tag "ins" [nat p, nat f, nat n]
  | .rm p f n => tag "rm" [nat p, nat f, nat n]
  | .drop p f => tag "drop" [nat p, nat f]
  | .stale p f => tag "stale" [nat p, nat f]
  | .llgr p f => tag "llgr" [nat p, nat f]
  | .purge p f => tag "purge" [nat p, nat f]
  | .lpurge p f => tag "lpurge" [nat p, nat f]
  | .nhv p b => tag "nhv" [nat p, bool b]
  | .gdown p => tag "gdown" [nat p]

def caseT (cfg : Cfg) (evs : List Ev) : Term :=
  list [sym "case", tag "peers" (cfg.peers.map fun e => list [nat e.1, ofList nat e.2]),
        tag "dur" [opt nat cfg.dur], tag "evs" (evs.map evT)]

def cfgPeerOf? : Term → Option (Peer × List Fam)
  | .list [p, fs] => do pure ((← peerOf? p), (← asListOf? famOf? fs))
  | _ => none

/-- `(case (peers (p (f ...)) ...) (dur none|(some n)) (evs ev ...))` -/
def caseOf? : Term → Option (Cfg × List Ev)
  | .list [.atom "case", .list (.atom "peers" :: ps), .list [.atom "dur", d], .list (.atom "evs" :: evs)] => do
      pure ({ peers := (← ps.mapM cfgPeerOf?), dur := (← asOpt? asNat? d) }, (← evs.mapM evOf?))
  | _ => none

/-! observations -/

def outKey : ROut → Nat × Nat
  | .deferFamilies _ => (0, 0)
  | .famComplete f => (1, f)
  | .startTimer _ => (2, 0)
  | .endDeferral _ => (3, 0)

def canonOuts (outs : List ROut) : List ROut :=
  outs.mergeSort (fun a b => (outKey a).1 < (outKey b).1 ∨ ((outKey a).1 = (outKey b).1 ∧ (outKey a).2 ≤ (outKey b).2))

def outT : ROut → Term
  | .deferFamilies fs => tag "defer" [famsT fs]
  | .startTimer d => tag "timer" [opt nat d]
  | .famComplete f => tag "complete" [nat f]
  | .endDeferral fs => tag "end" [famsT fs]
def outOf? : Term → Option ROut
  | .list [.atom "defer", fs] => (asListOf? asNat? fs).map .deferFamilies
  | .list [.atom "timer", d] => (asOpt? asNat? d).map .startTimer
  | .list [.atom "complete", f] => (asNat? f).map .famComplete
  | .list [.atom "end", fs] => (asListOf? asNat? fs).map .endDeferral
  | _ => none

def peersKey (l : List Peer) : Nat := l.foldl (fun a p => a + 2 ^ p) 0

def canonChanges (cs : List Change) : List Change :=
  (cs.map fun c => { c with peers := sortNat c.peers }).mergeSort
    (fun a b => a.fam < b.fam ∨ (a.fam = b.fam ∧ (a.pfx < b.pfx ∨ (a.pfx = b.pfx ∧ peersKey a.peers ≤ peersKey b.peers))))

def kindT : ChgKind → Term
  | .adv => sym "adv" | .chg => sym "chg" | .mute => sym "mute"
def kindOf? : Term → Option ChgKind
  | .atom "adv" => some .adv | .atom "chg" => some .chg | .atom "mute" => some .mute
  | _ => none
def changeOf? : Term → Option Change
  | .list [f, n, ps, k] => do
      pure { fam := (← asNat? f), pfx := (← asNat? n), peers := (← asListOf? asNat? ps), kind := (← kindOf? k) }
  | _ => none

def changeT (c : Change) : Term := list [nat c.fam, nat c.pfx, ofList nat c.peers, kindT c.kind]

def tagT : Tag → Term
  | .awaiting => sym "awaiting" | .deferring => sym "deferring"
  | .completed => sym "completed" | .absent => sym "absent"
def tagOf? : Term → Option Tag
  | .atom "awaiting" => some .awaiting | .atom "deferring" => some .deferring
  | .atom "completed" => some .completed | .atom "absent" => some .absent
  | _ => none

def canonPending (p : Pending) : Pending :=
  (p.map fun e => (e.1, sortNat e.2)).mergeSort (fun a b => a.1 ≤ b.1)

def pendT (e : Peer × List Fam) : Term := list [nat e.1, ofList nat e.2]
def pendOf? : Term → Option (Peer × List Fam)
  | .list [p, fs] => do pure ((← asNat? p), (← asListOf? asNat? fs))
  | _ => none

def obsT (o : Obs) : Term :=
  list [tag "outs" ((canonOuts o.outs).map outT), tag "chg" ((canonChanges o.changes).map changeT),
        tagT o.tag, tag "pend" ((canonPending o.pending).map pendT), bool o.installed,
        tag "flags" ((sortNat o.flags).map nat), bool o.timer]

def obsOf? : Term → Option Obs
  | .list [.list (.atom "outs" :: os), .list (.atom "chg" :: cs), tg, .list (.atom "pend" :: ps), inst,
           .list (.atom "flags" :: fl), tm] => do
      pure { outs := (← os.mapM outOf?), changes := (← cs.mapM changeOf?), tag := (← tagOf? tg),
             pending := (← ps.mapM pendOf?), installed := (← asBool? inst), flags := (← fl.mapM asNat?),
             timer := (← asBool? tm) }
  | _ => none

def traceT (tr : List Obs) : Term := tag "trace" (tr.map obsT)

def traceOf? : Term → Option (List Obs)
  | .list (.atom "trace" :: ts) => ts.mapM obsOf?
  | _ => none

end Rbgp.Gr.Restarting.Codec
