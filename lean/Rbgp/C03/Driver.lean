import Rbgp.Wire.Codec
namespace Rbgp.C03
open Rbgp Rbgp.Term Rbgp.Wire Rbgp.Wire.Codec

/-- mode `model`: `profile TAB case` ↦ observation of the model;
    mode `oracle`: `profile TAB case TAB observation` ↦ verdict of the C03 reference checker. -/
def handler (mode : String) (line : String) : String :=
  match mode, line.splitOn "\t" with
  | "model", [p, c] =>
      match profileOf? p, (parse c).bind caseOf? with
      | some prof, some cs => toStr (runCase prof cs)
      | none, _ => "(bad-line)"
      | _, none => "(bad-case)"
  | "oracle", [p, c, o] =>
      match profileOf? p, (parse c).bind caseOf?, parse o with
      | some _, some cs, some obs => oracle cs obs
      | none, _, _ => "(bad-line)"
      | _, none, _ => "(bad-case)"
      | _, _, none => "fail idx=0 clause=unparsable-observation"
  | "stats", [_, c, o] =>
      match (parse c).bind caseOf?, parse o with
      | some cs, some obs => stats cs obs
      | _, _ => "unparsable=1"
  | "model", _ => "(bad-line)"
  | "oracle", _ => "(bad-line)"
  | "stats", _ => "(bad-line)"
  | _, _ => "(bad-mode)"

end Rbgp.C03
