/-
  Rbgp.Rtr.Model — executable model of the RTR client (C13), as repaired for S8/S23:
    packet/src/rpki.rs   `Message::from_bytes` / `parse`, `RtrCodec::decode`
    daemon/src/rpki.rs   `RpkiClient::serve_inner` (the PDU loop, its `v` / `end_of_data`
                         state, the queries it writes, its exit path)
    daemon/src/table_manager.rs  `rpki_reset / rpki_insert / rpki_withdraw / rpki_drop_all`
                         (through the C12 table model `Rbgp.Rpki.Model`).
  tokio is abstracted to "the client runs until it is blocked" after each delivered fragment
  (that is how the harness drives the real future).  Import-free (core + the C12 model).
-/
import Rbgp.Rpki.Model
namespace Rbgp.Rtr
open Rbgp.Rpki

/-! ### what the scripted cache sends -/

inductive Pdu where
  | cr (v sess : Nat)
  | p4 (v flags len ml : Nat) (addr : List Nat) (asn : Nat)
  | p6 (v flags len ml : Nat) (addr : List Nat) (asn : Nat)
  | eod (v sess serial : Nat)
  | notify (v sess serial : Nat)
  | creset (v : Nat)
  | err (v code : Nat) (body : List Nat)
  | raw (v ty sess : Nat) (body : List Nat)
  | junk (bytes : List Nat)
  deriving DecidableEq, Repr, Inhabited

def be16 (n : Nat) : List Nat := [n / 256 % 256, n % 256]
def be32 (n : Nat) : List Nat := [n / 16777216 % 256, n / 65536 % 256, n / 256 % 256, n % 256]

def header (v ty sess len : Nat) : List Nat := [v % 256, ty % 256] ++ be16 sess ++ be32 len

/-- wire encoding used by the harness (`encode_pdu`) -/
def Pdu.encode : Pdu → List Nat
  | .cr v s => header v 3 s 8
  | .p4 v f l m a n => header v 4 0 20 ++ [f % 256, l % 256, m % 256, 0] ++ a ++ be32 n
  | .p6 v f l m a n => header v 6 0 32 ++ [f % 256, l % 256, m % 256, 0] ++ a ++ be32 n
  | .eod v s n =>
      if v ≥ 1 then header v 7 s 24 ++ be32 n ++ be32 3600 ++ be32 600 ++ be32 7200
      else header v 7 s 12 ++ be32 n
  | .notify v s n => header v 0 s 12 ++ be32 n
  | .creset v => header v 8 0 8
  | .err v c b => header v 10 c (8 + b.length) ++ b
  | .raw v t s b => header v t s (8 + b.length) ++ b
  | .junk b => b

/-! ### `Message::from_bytes` -/

inductive Msg where
  | serialNotify (sess serial : Nat)
  | serialQuery (sess serial : Nat)
  | resetQuery
  | cacheResponse (sess : Nat)
  | ipPrefix (net : Net) (flags maxlen asn : Nat)
  | endOfData (sess serial : Nat)
  | cacheReset
  | errorReport (code : Nat)
  | unsupported (ty : Nat)
  deriving DecidableEq, Repr, Inhabited

inductive Dec where
  | incomplete                  -- `Ok(None)`
  | error                       -- `Err(_)`
  | msg (m : Msg) (len : Nat)   -- `Ok(Some((m, len)))`
  deriving DecidableEq, Repr, Inhabited

def rd16 (b : List Nat) (i : Nat) : Option Nat := do
  pure ((← b[i]?) * 256 + (← b[i + 1]?))
def rd32 (b : List Nat) (i : Nat) : Option Nat := do
  pure ((← b[i]?) * 16777216 + (← b[i + 1]?) * 65536 + (← b[i + 2]?) * 256 + (← b[i + 3]?))

/-- `Message::parse` on exactly one PDU; `none` = a short read (`Err`) -/
def parsePdu (b : List Nat) : Option Msg := do
  let version ← b[0]?
  let ty ← b[1]?
  let sess ← rd16 b 2
  let _ ← rd32 b 4
  match ty with
  | 0 => pure (.serialNotify sess (← rd32 b 8))
  | 1 => pure (.serialQuery sess (← rd32 b 8))
  | 2 => pure .resetQuery
  | 3 => pure (.cacheResponse sess)
  | 4 => do
      let flags ← b[8]?
      let plen ← b[9]?
      let ml ← b[10]?
      let _ ← b[11]?
      let a0 ← b[12]?
      let a1 ← b[13]?
      let a2 ← b[14]?
      let a3 ← b[15]?
      let asn ← rd32 b 16
      pure (.ipPrefix ⟨.v4, [a0, a1, a2, a3], plen⟩ flags ml asn)
  | 6 => do
      let flags ← b[8]?
      let plen ← b[9]?
      let ml ← b[10]?
      let _ ← b[11]?
      let addr := (b.drop 12).take 16
      if addr.length ≠ 16 then none
      let asn ← rd32 b 28
      pure (.ipPrefix ⟨.v6, addr, plen⟩ flags ml asn)
  | 7 => do
      let serial ← rd32 b 8
      if version ≥ 1 then
        let _ ← rd32 b 12
        let _ ← rd32 b 16
        let _ ← rd32 b 20
        pure (.endOfData sess serial)
      else pure (.endOfData sess serial)
  | 8 => pure .cacheReset
  | 10 => pure (.errorReport sess)
  | t => pure (.unsupported t)

/-- the exact size of the fixed-size PDU types -/
def expectedLen (version ty : Nat) : Option Nat :=
  if ty = 0 ∨ ty = 1 then some 12
  else if ty = 2 ∨ ty = 3 ∨ ty = 8 then some 8
  else if ty = 4 then some 20
  else if ty = 6 then some 32
  else if ty = 7 then some (if version ≥ 1 then 24 else 12)
  else none

/-- `expected.is_some_and(|e| e != length)` -/
def badLen (version ty length : Nat) : Bool :=
  match expectedLen version ty with
  | some e => e != length
  | none => false

def fromBytes (buf : List Nat) : Dec :=
  if buf.length < 8 then .incomplete
  else
    match buf[0]?, buf[1]?, rd32 buf 4 with
    | some version, some ty, some length =>
        if length < 8 ∨ length > 65535 then .error
        else if badLen version ty length then .error
        else if length > buf.length then .incomplete
        else
          match parsePdu (buf.take length) with
          | some m => .msg m length
          | none => .error
    | _, _, _ => .error       -- unreachable: the buffer has 8 bytes

/-! ### `serve_inner` -/

inductive Query where
  | reset
  | serial (sess serial : Nat)
  deriving DecidableEq, Repr, Inhabited

structure Sess where
  src : Src
  buf : List Nat := []                 -- bytes Framed has read and not yet decoded
  v : List (Net × Nat × Nat) := []     -- `v`
  eod : Bool := false                  -- `end_of_data`
  serial : Nat := 0                    -- `RpkiState.serial`
  sessionId : Nat := 0                 -- `RpkiState.session_id`
  sent : List Query := []              -- what was written to the cache
  softPending : Bool := false          -- a stored `Notify` permit
  done : Bool := false                 -- the future has returned
  rx : Nat := 0                        -- sum of the `RpkiState` receive counters (`RpkiState::update`)
  wfailAt : Option Nat := none         -- writes fail from this query on (harness fault injection)
  deriving Repr, Inhabited

/-- `RpkiState::update`: the message kinds that have a receive counter -/
def counted : Msg → Nat
  | .serialNotify .. => 1
  | .cacheResponse _ => 1
  | .ipPrefix .. => 1
  | .endOfData .. => 1
  | .cacheReset => 1
  | .errorReport _ => 1
  | _ => 0

/-- the `match msg` of the loop body -/
def handle (s : Sess) (t : Table) : Msg → Sess × Table
  | .serialNotify _ serial =>
      if s.eod ∧ serial ≠ s.serial then ({ s with sent := s.sent ++ [.serial s.sessionId s.serial] }, t)
      else (s, t)
  | .cacheResponse sess => ({ s with sessionId := sess }, t)
  | .ipPrefix net flags ml asn =>
      if flags % 2 = 1 then
        if s.eod then (s, t.insert net ⟨ml, asn, s.src⟩)
        else ({ s with v := s.v ++ [(net, ml, asn)] }, t)
      else if s.eod then (s, t.remove net ⟨ml, asn, s.src⟩)
      else (s, t)
  | .endOfData _ serial =>
      if !s.eod then ({ s with serial := serial, eod := true, v := [] }, t.reset s.src s.v)
      else ({ s with serial := serial }, t)
  | .cacheReset => ({ s with eod := false, v := [], sent := s.sent ++ [.reset] }, t)
  | _ => (s, t)

/-- `state.update(&msg)` then the `match msg` -/
def process (s : Sess) (t : Table) (m : Msg) : Sess × Table :=
  handle { s with rx := s.rx + counted m } t m

/-- leaving the loop: `rpki_drop_all` -/
def finish (s : Sess) (t : Table) : Sess × Table := ({ s with done := true }, t.dropSource s.src)

/-- the loop while input is buffered; `fuel` bounds the number of PDUs (each takes ≥ 8 bytes) -/
def pump : Nat → Sess → Table → Sess × Table
  | 0, s, t => (s, t)
  | fuel + 1, s, t =>
      match fromBytes s.buf with
      | .incomplete =>
          -- blocked on input: a stored soft-reset permit fires now if the branch is enabled
          if s.softPending ∧ s.eod then
            ({ s with softPending := false, sent := s.sent ++ [.serial s.sessionId s.serial] }, t)
          else (s, t)
      | .error => finish s t
      | .msg m len =>
          let (s', t') := process { s with buf := s.buf.drop len } t m
          pump fuel s' t'

/-- a fragment arrives and the client runs until it blocks -/
def feed (s : Sess) (t : Table) (bytes : List Nat) : Sess × Table :=
  if s.done then (s, t)
  else
    let s1 := { s with buf := s.buf ++ bytes }
    pump (s1.buf.length + 1) s1 t

def soft (s : Sess) (t : Table) : Sess × Table :=
  if s.done then (s, t)
  else if s.eod then ({ s with sent := s.sent ++ [.serial s.sessionId s.serial] }, t)
  else ({ s with softPending := true }, t)

/-- fault injection: from now on every write of the client fails (`let _ = lines.send(..)`) -/
def failWrites (s : Sess) (t : Table) : Sess × Table :=
  match s.wfailAt with
  | some _ => (s, t)
  | none => ({ s with wfailAt := some s.sent.length }, t)

/-- the queries that reached the cache -/
def Sess.delivered (s : Sess) : List Query :=
  match s.wfailAt with
  | some k => s.sent.take k
  | none => s.sent

/-- EOF or cancellation -/
def close (s : Sess) (t : Table) : Sess × Table := if s.done then (s, t) else finish s t

/-- a fresh connection: the Reset Query is written first -/
def Sess.start (cache sid : Nat) : Sess := { src := ⟨cache, sid⟩, sent := [.reset] }

/-! ### scripted runs -/

structure StreamDef where
  sid : Nat
  cache : Nat
  pdus : List Pdu
  deriving Repr, Inhabited

inductive Step where
  | start (sid : Nat)
  | send (sid n : Nat)
  | soft (sid : Nat)
  | wfail (sid : Nat)
  | close (sid : Nat) (eof : Bool)
  | snap
  deriving DecidableEq, Repr, Inhabited

structure Case where
  streams : List StreamDef
  steps : List Step
  deriving Repr, Inhabited

/-- per script session: the undelivered bytes and the client, once started -/
structure Slot where
  sid : Nat
  cache : Nat
  rest : List Nat
  client : Option Sess := none
  deriving Repr, Inhabited

structure World where
  table : Table := {}
  slots : List Slot          -- in the order of the case's stream list
  deriving Repr, Inhabited

structure Snap where
  roas : List (Nat × Nat × Net × Nat × Nat)            -- (sid of the owning session, cache, net, maxlen, asn)
  sess : List (Nat × Nat × Nat × Nat × List Query)     -- (sid, serial, session id, rx, queries)
  done : List Nat
  deriving DecidableEq, Repr, Inhabited

def World.init (c : Case) : World :=
  { slots := c.streams.map (fun d => ⟨d.sid, d.cache, d.pdus.flatMap Pdu.encode, none⟩) }

/-- the harness keeps its sessions in a `BTreeMap`: listings are in ascending `sid` order -/
def insertBySid (x : Nat × Sess) : List (Nat × Sess) → List (Nat × Sess)
  | [] => [x]
  | y :: ys => if x.1 < y.1 then x :: y :: ys else y :: insertBySid x ys

def sortBySid (l : List (Nat × Sess)) : List (Nat × Sess) := l.foldr insertBySid []

def updSlot (sid : Nat) (f : Slot → Table → Slot × Table) : List Slot → Table → List Slot × Table
  | [], t => ([], t)
  | x :: xs, t =>
      if x.sid = sid then
        let (x', t') := f x t
        (x' :: xs, t')
      else
        let (xs', t') := updSlot sid f xs t
        (x :: xs', t')

def roasOf (l : List (Net × Roa)) : List (Nat × Nat × Net × Nat × Nat) :=
  l.map (fun e => (e.2.src.arc, e.2.src.cache, e.1, e.2.maxlen, e.2.asn))

def World.snap (w : World) : Out Snap :=
  match w.table.iter .v4, w.table.iter .v6 with
  | .ok l4, .ok l6 =>
      let started := sortBySid (w.slots.filterMap (fun x => x.client.map (fun c => (x.sid, c))))
      .ok { roas := roasOf l4 ++ roasOf l6,
            sess := started.map (fun p => (p.1, p.2.serial, p.2.sessionId, p.2.rx, p.2.delivered)),
            done := (started.filter (fun p => p.2.done)).map (·.1) }
  | _, _ => .panic

/-- the four script steps on the addressed slot -/
def startF (x : Slot) (t : Table) : Slot × Table :=
  ({ x with client := some (Sess.start x.cache x.sid) }, t)

def sendF (n : Nat) (x : Slot) (t : Table) : Slot × Table :=
  match x.client with
  | some c => ({ x with rest := x.rest.drop n, client := some (feed c t (x.rest.take n)).1 },
               (feed c t (x.rest.take n)).2)
  | none => (x, t)

def softF (x : Slot) (t : Table) : Slot × Table :=
  match x.client with
  | some c => ({ x with client := some (soft c t).1 }, (soft c t).2)
  | none => (x, t)

def wfailF (x : Slot) (t : Table) : Slot × Table :=
  match x.client with
  | some c => ({ x with client := some (failWrites c t).1 }, (failWrites c t).2)
  | none => (x, t)

def closeF (x : Slot) (t : Table) : Slot × Table :=
  match x.client with
  | some c => ({ x with client := some (close c t).1 }, (close c t).2)
  | none => (x, t)

def World.step (w : World) : Step → World
  | .start sid => { table := (updSlot sid startF w.slots w.table).2, slots := (updSlot sid startF w.slots w.table).1 }
  | .send sid n =>
      { table := (updSlot sid (sendF n) w.slots w.table).2, slots := (updSlot sid (sendF n) w.slots w.table).1 }
  | .soft sid => { table := (updSlot sid softF w.slots w.table).2, slots := (updSlot sid softF w.slots w.table).1 }
  | .wfail sid => { table := (updSlot sid wfailF w.slots w.table).2, slots := (updSlot sid wfailF w.slots w.table).1 }
  | .close sid _ => { table := (updSlot sid closeF w.slots w.table).2, slots := (updSlot sid closeF w.slots w.table).1 }
  | .snap => w

def runSteps : World → List Step → Out (List Snap)
  | _, [] => .ok []
  | w, .snap :: rest =>
      match w.snap, runSteps w rest with
      | .ok s, .ok ss => .ok (s :: ss)
      | _, _ => .panic
  | w, st :: rest => runSteps (w.step st) rest

def run (c : Case) : Out (List Snap) := runSteps (World.init c) c.steps

end Rbgp.Rtr
