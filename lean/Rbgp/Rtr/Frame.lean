/- Rbgp.Rtr.Frame — RTR framing lemmas (C13): `from_bytes` decodes the encoding of every
   well-formed PDU to its message with the declared length, and waits on every proper prefix. -/
import Rbgp.Rtr.Spec
import Rbgp.Rpki.Proofs
namespace Rbgp.Rtr
open Rbgp.Rpki Rbgp.Rtr.Spec

/-! ## framing: decode ∘ encode -/

def PduWF : Pdu → Prop
  | .cr v s => v < 256 ∧ s < 65536
  | .p4 v f l m a n => v < 256 ∧ f < 256 ∧ l < 256 ∧ m < 256 ∧ a.length = 4 ∧ Bytes a ∧ n < 4294967296
  | .p6 v f l m a n => v < 256 ∧ f < 256 ∧ l < 256 ∧ m < 256 ∧ a.length = 16 ∧ Bytes a ∧ n < 4294967296
  | .eod v s n => v < 256 ∧ s < 65536 ∧ n < 4294967296
  | .notify v s n => v < 256 ∧ s < 65536 ∧ n < 4294967296
  | .creset v => v < 256
  | .err v c b => v < 256 ∧ c < 65536 ∧ Bytes b
  | .raw v t s b => v < 256 ∧ t < 256 ∧ s < 65536 ∧ Bytes b
  | .junk b => Bytes b

/-- the message a conforming PDU decodes to -/
def msgOf : Pdu → Msg
  | .cr _ s => .cacheResponse s
  | .p4 _ f l m a n => .ipPrefix ⟨.v4, a, l⟩ f m n
  | .p6 _ f l m a n => .ipPrefix ⟨.v6, a, l⟩ f m n
  | .eod _ s n => .endOfData s n
  | .notify _ s n => .serialNotify s n
  | .creset _ => .cacheReset
  | .err _ c _ => .errorReport c
  | .raw _ t _ _ => .unsupported t
  | .junk _ => .resetQuery

theorem rd32_be32 (n : Nat) (h : n < 4294967296) (pre post : List Nat) :
    rd32 (pre ++ be32 n ++ post) pre.length = some n := by
  simp only [rd32, be32, List.append_assoc]
  have e0 : (pre ++ ([n / 16777216 % 256, n / 65536 % 256, n / 256 % 256, n % 256] ++ post))[pre.length]? = some (n / 16777216 % 256) := by
    simp
  have e1 : (pre ++ ([n / 16777216 % 256, n / 65536 % 256, n / 256 % 256, n % 256] ++ post))[pre.length + 1]? = some (n / 65536 % 256) := by
    rw [List.getElem?_append_right (by omega)]; simp
  have e2 : (pre ++ ([n / 16777216 % 256, n / 65536 % 256, n / 256 % 256, n % 256] ++ post))[pre.length + 2]? = some (n / 256 % 256) := by
    rw [List.getElem?_append_right (by omega)]; simp
  have e3 : (pre ++ ([n / 16777216 % 256, n / 65536 % 256, n / 256 % 256, n % 256] ++ post))[pre.length + 3]? = some (n % 256) := by
    rw [List.getElem?_append_right (by omega)]; simp
  simp only [e0, e1, e2, e3, Option.bind_eq_bind, Option.bind_some, Option.pure_def, Option.some.injEq]
  omega

/-- a byte string that starts with a well-framed PDU of declared length `len` -/
structure Framed (bs : List Nat) (v ty s len : Nat) (body : List Nat) : Prop where
  eq : bs = header v ty s len ++ body
  vlt : v < 256
  tylt : ty < 256
  slt : s < 65536
  lenLo : 8 ≤ len
  lenHi : len ≤ 65535
  size : 8 + body.length = len
  good : badLen v ty len = false

theorem header_length (v ty s len : Nat) : (header v ty s len).length = 8 := by
  simp [header, be16, be32]

theorem framed_head {bs : List Nat} {v ty s len : Nat} {body : List Nat} (h : Framed bs v ty s len body)
    (more : List Nat) :
    (bs ++ more)[0]? = some v ∧ (bs ++ more)[1]? = some ty ∧ rd32 (bs ++ more) 4 = some len ∧
    rd16 (bs ++ more) 2 = some s := by
  have hv := h.vlt; have ht := h.tylt; have hs := h.slt; have hl := h.lenHi
  rw [h.eq]
  simp only [header, be16, be32, rd32, rd16, List.cons_append, List.nil_append, List.append_assoc]
  refine ⟨by simp; omega, by simp; omega, ?_, ?_⟩
  · simp; omega
  · simp; omega

/-- (F2) a complete PDU at the front of the buffer is decoded with its declared length -/
theorem fromBytes_framed {bs : List Nat} {v ty s len : Nat} {body : List Nat}
    (h : Framed bs v ty s len body) (more : List Nat) :
    fromBytes (bs ++ more) =
      match parsePdu bs with
      | some m => .msg m len
      | none => .error := by
  have hlen : bs.length = len := by rw [h.eq]; simp [header_length]; exact h.size
  obtain ⟨h0, h1, h4, _⟩ := framed_head h more
  have hlo := h.lenLo; have hhi := h.lenHi
  simp only [fromBytes, h0, h1, h4, List.length_append, hlen]
  rw [h.good]
  have : ¬ (len + more.length < 8) := by omega
  simp only [this, if_false]
  have : ¬ (len < 8 ∨ len > 65535) := by omega
  simp only [this, if_false, Bool.false_eq_true]
  have : ¬ (len > len + more.length) := by omega
  simp only [this, if_false]
  have : List.take len (bs ++ more) = bs := by
    rw [← hlen]; simp
  rw [this]
  cases parsePdu bs <;> rfl

/-- (F1) a proper prefix of a well-framed PDU is "incomplete" -/
theorem fromBytes_prefix {bs : List Nat} {v ty s len : Nat} {body : List Nat}
    (h : Framed bs v ty s len body) (k : Nat) (hk : k < len) :
    fromBytes (bs.take k) = .incomplete := by
  have hlen : bs.length = len := by rw [h.eq]; simp [header_length]; exact h.size
  by_cases h8 : k < 8
  · simp [fromBytes, List.length_take, hlen]; omega
  · have hsplit : bs.take k = header v ty s len ++ body.take (k - 8) := by
      rw [h.eq, List.take_append, header_length]
      rw [List.take_of_length_le (by rw [header_length]; omega)]
    have hf : Framed (header v ty s len ++ body) v ty s len body := { h with eq := rfl }
    have hh : (header v ty s len ++ body.take (k - 8))[0]? = some v ∧
        (header v ty s len ++ body.take (k - 8))[1]? = some ty ∧
        rd32 (header v ty s len ++ body.take (k - 8)) 4 = some len := by
      have hv := h.vlt; have ht := h.tylt; have hs := h.slt; have hl := h.lenHi
      simp only [header, be16, be32, rd32, List.cons_append, List.nil_append, List.append_assoc]
      refine ⟨by simp; omega, by simp; omega, ?_⟩
      simp; omega
    have hl2 : (bs.take k).length = k := by simp [List.length_take, hlen]; omega
    rw [hsplit] at hl2
    rw [hsplit]
    simp only [fromBytes, hh.1, hh.2.1, hh.2.2, h.good, hl2]
    have hlo := h.lenLo; have hhi := h.lenHi
    have : ¬ (len < 8 ∨ len > 65535) := by omega
    simp [h8, this, hk]

theorem mod_small {a b : Nat} (h : a < b) : a % b = a := Nat.mod_eq_of_lt h

theorem parse_encode (p : Pdu) (hc : conforming p = true) (hw : PduWF p) :
    parsePdu p.encode = some (msgOf p) := by
  cases p with
  | junk b => simp [conforming] at hc
  | cr v s =>
    obtain ⟨hv, hs⟩ := hw
    simp [Pdu.encode, header, be16, be32, parsePdu, rd16, rd32, msgOf, mod_small hv]
    omega
  | creset v =>
    have hv : v < 256 := hw
    simp [Pdu.encode, header, be16, be32, parsePdu, rd16, rd32, msgOf, mod_small hv]
  | notify v s n =>
    obtain ⟨hv, hs, hn⟩ := hw
    simp [Pdu.encode, header, be16, be32, parsePdu, rd16, rd32, msgOf, mod_small hv]
    omega
  | eod v s n =>
    obtain ⟨hv, hs, hn⟩ := hw
    by_cases h1 : v ≥ 1
    · simp [Pdu.encode, header, be16, be32, parsePdu, rd16, rd32, msgOf, mod_small hv, h1]
      omega
    · simp [Pdu.encode, header, be16, be32, parsePdu, rd16, rd32, msgOf, mod_small hv, h1]
      omega
  | err v c b =>
    obtain ⟨hv, hc', hb⟩ := hw
    simp [Pdu.encode, header, be16, be32, parsePdu, rd16, rd32, msgOf, mod_small hv]
    omega
  | raw v t s b =>
    obtain ⟨hv, ht, hs, hb⟩ := hw
    simp only [conforming, Bool.and_eq_true, Bool.not_eq_true', decide_eq_true_eq] at hc
    have hne : t ≠ 0 ∧ t ≠ 1 ∧ t ≠ 2 ∧ t ≠ 3 ∧ t ≠ 4 ∧ t ≠ 6 ∧ t ≠ 7 ∧ t ≠ 8 ∧ t ≠ 10 := by
      have := hc.1
      simp at this
      omega
    obtain ⟨h0, h1, h2, h3, h4, h6, h7, h8, h10⟩ := hne
    simp only [Pdu.encode, header, be16, be32, parsePdu, rd16, rd32, msgOf, mod_small hv, mod_small ht,
      List.cons_append, List.nil_append]
    simp [h0, h1, h2, h3, h4, h6, h7, h8, h10]
  | p4 v f l m a n =>
    obtain ⟨hv, hf, hl, hm, hla, hba, hn⟩ := hw
    match a, hla with
    | [a0, a1, a2, a3], _ =>
      simp [Pdu.encode, header, be16, be32, parsePdu, rd16, rd32, msgOf, mod_small hv, mod_small hf,
        mod_small hl, mod_small hm]
      omega
  | p6 v f l m a n =>
    obtain ⟨hv, hf, hl, hm, hla, hba, hn⟩ := hw
    have hrd := rd32_be32 n hn (header v 6 0 32 ++ [f % 256, l % 256, m % 256, 0] ++ a) []
    have hlen28 : (header v 6 0 32 ++ [f % 256, l % 256, m % 256, 0] ++ a).length = 28 := by
      simp [header_length, hla]
    rw [hlen28] at hrd
    have henc : (Pdu.p6 v f l m a n).encode = header v 6 0 32 ++ [f % 256, l % 256, m % 256, 0] ++ a ++ be32 n ++ [] := by
      simp [Pdu.encode]
    rw [henc]
    have hdrop : ((header v 6 0 32 ++ [f % 256, l % 256, m % 256, 0] ++ a ++ be32 n ++ []).drop 12).take 16 = a := by
      have : (header v 6 0 32 ++ [f % 256, l % 256, m % 256, 0] ++ a ++ be32 n ++ [])
          = (header v 6 0 32 ++ [f % 256, l % 256, m % 256, 0]) ++ (a ++ be32 n) := by simp
      rw [this, List.drop_left' (by simp [header_length])]
      rw [List.take_left' hla]
    simp only [parsePdu, hdrop, hrd, hla]
    simp [header, be16, be32, rd16, rd32, msgOf, mod_small hv, mod_small hf, mod_small hl, mod_small hm]

theorem encode_framed (p : Pdu) (hc : conforming p = true) (hw : PduWF p) :
    ∃ v ty s body, Framed p.encode v ty s (pduLen p) body := by
  cases p with
  | junk b => simp [conforming] at hc
  | cr v s =>
    obtain ⟨hv, hs⟩ := hw
    exact ⟨v, 3, s, [], by simp [Pdu.encode, mod_small hv, header, pduLen], hv, by omega, hs, by simp [pduLen],
      by simp [pduLen], by simp [pduLen], by simp [badLen, expectedLen, pduLen]⟩
  | creset v =>
    have hv : v < 256 := hw
    exact ⟨v, 8, 0, [], by simp [Pdu.encode, header, mod_small hv, pduLen], hv, by omega, by omega, by simp [pduLen],
      by simp [pduLen], by simp [pduLen], by simp [badLen, expectedLen, pduLen]⟩
  | notify v s n =>
    obtain ⟨hv, hs, hn⟩ := hw
    exact ⟨v, 0, s, be32 n, by simp [Pdu.encode, header, mod_small hv, pduLen], hv, by omega, hs, by simp [pduLen],
      by simp [pduLen], by simp [pduLen, be32], by simp [badLen, expectedLen, pduLen]⟩
  | eod v s n =>
    obtain ⟨hv, hs, hn⟩ := hw
    by_cases h1 : v ≥ 1
    · exact ⟨v, 7, s, be32 n ++ be32 3600 ++ be32 600 ++ be32 7200,
        by simp [Pdu.encode, header, mod_small hv, h1, pduLen], hv, by omega, hs, by simp [pduLen, h1],
        by simp [pduLen, h1], by simp [pduLen, be32, h1], by simp [badLen, expectedLen, pduLen, h1]⟩
    · exact ⟨v, 7, s, be32 n, by simp [Pdu.encode, header, mod_small hv, h1, pduLen], hv, by omega, hs,
        by simp [pduLen, h1], by simp [pduLen, h1], by simp [pduLen, be32, h1],
        by simp [badLen, expectedLen, pduLen, h1]⟩
  | err v c b =>
    obtain ⟨hv, hc', hb⟩ := hw
    simp only [conforming, decide_eq_true_eq] at hc
    exact ⟨v, 10, c, b, by simp [Pdu.encode, header, mod_small hv, pduLen], hv, by omega, hc', by simp [pduLen],
      by simpa [pduLen] using hc, by simp [pduLen], by simp [badLen, expectedLen]⟩
  | raw v t s b =>
    obtain ⟨hv, ht, hs, hb⟩ := hw
    simp only [conforming, Bool.and_eq_true, Bool.not_eq_true', decide_eq_true_eq] at hc
    have hne : t ≠ 0 ∧ t ≠ 1 ∧ t ≠ 2 ∧ t ≠ 3 ∧ t ≠ 4 ∧ t ≠ 6 ∧ t ≠ 7 ∧ t ≠ 8 ∧ t ≠ 10 := by
      have := hc.1
      simp at this
      omega
    obtain ⟨h0, h1, h2, h3, h4, h6, h7, h8, h10⟩ := hne
    exact ⟨v, t, s, b, by simp [Pdu.encode, header, mod_small hv, mod_small ht, pduLen], hv, ht, hs, by simp [pduLen],
      by simpa [pduLen] using hc.2, by simp [pduLen],
      by simp [badLen, expectedLen, h0, h1, h2, h3, h4, h6, h7, h8]⟩
  | p4 v f l m a n =>
    obtain ⟨hv, hf, hl, hm, hla, hba, hn⟩ := hw
    exact ⟨v, 4, 0, [f % 256, l % 256, m % 256, 0] ++ a ++ be32 n,
      by simp [Pdu.encode, header, mod_small hv, pduLen], hv, by omega, by omega, by simp [pduLen],
      by simp [pduLen], by simp [pduLen, be32, hla], by simp [badLen, expectedLen, pduLen]⟩
  | p6 v f l m a n =>
    obtain ⟨hv, hf, hl, hm, hla, hba, hn⟩ := hw
    exact ⟨v, 6, 0, [f % 256, l % 256, m % 256, 0] ++ a ++ be32 n,
      by simp [Pdu.encode, header, mod_small hv, pduLen], hv, by omega, by omega, by simp [pduLen],
      by simp [pduLen], by simp [pduLen, be32, hla], by simp [badLen, expectedLen, pduLen]⟩

theorem encode_length (p : Pdu) (hc : conforming p = true) (hw : PduWF p) :
    p.encode.length = pduLen p := by
  obtain ⟨v, ty, s, body, hf⟩ := encode_framed p hc hw
  rw [hf.eq]; simp [header_length]; exact hf.size

/-- a complete conforming PDU at the front of the buffer decodes to its message, whole -/
theorem fromBytes_encode (p : Pdu) (hc : conforming p = true) (hw : PduWF p) (more : List Nat) :
    fromBytes (p.encode ++ more) = .msg (msgOf p) (pduLen p) := by
  obtain ⟨v, ty, s, body, hf⟩ := encode_framed p hc hw
  rw [fromBytes_framed hf more, parse_encode p hc hw]

/-- a proper prefix of a conforming PDU is incomplete (the client waits) -/
theorem fromBytes_encode_prefix (p : Pdu) (hc : conforming p = true) (hw : PduWF p) (k : Nat)
    (hk : k < pduLen p) : fromBytes (p.encode.take k) = .incomplete := by
  obtain ⟨v, ty, s, body, hf⟩ := encode_framed p hc hw
  exact fromBytes_prefix hf k hk

/-- whatever `from_bytes` returns as a message was consumed with its declared length,
    between the header length and the buffer length -/
theorem fromBytes_msg_len {buf : List Nat} {m : Msg} {len : Nat} (h : fromBytes buf = .msg m len) :
    8 ≤ len ∧ len ≤ buf.length ∧ rd32 buf 4 = some len := by
  unfold fromBytes at h
  split at h
  · cases h
  · split at h
    · rename_i version ty length _ _ hl
      split at h
      · cases h
      · split at h
        · cases h
        · split at h
          · cases h
          · split at h
            · rename_i hlo _ hhi _ _
              cases h
              exact ⟨by omega, by omega, hl⟩
            · cases h
    · cases h

theorem bytes_be32 (n : Nat) : Bytes (be32 n) := by
  intro x hx
  simp only [be32, List.mem_cons, List.not_mem_nil, or_false] at hx
  rcases hx with rfl | rfl | rfl | rfl <;> omega

theorem bytes_header (v ty s len : Nat) : Bytes (header v ty s len) := by
  intro x hx
  simp only [header, be16, be32, List.cons_append, List.nil_append, List.mem_cons, List.not_mem_nil,
    or_false] at hx
  rcases hx with rfl | rfl | rfl | rfl | rfl | rfl | rfl | rfl <;> omega

theorem bytes_append {a b : List Nat} (ha : Bytes a) (hb : Bytes b) : Bytes (a ++ b) := by
  intro x hx
  rcases List.mem_append.1 hx with h | h
  · exact ha x h
  · exact hb x h

theorem bytes_flags (f l m : Nat) : Bytes [f % 256, l % 256, m % 256, 0] := by
  intro x hx
  simp only [List.mem_cons, List.not_mem_nil, or_false] at hx
  rcases hx with rfl | rfl | rfl | rfl <;> omega

/-- every well-formed script PDU (conforming or not) encodes to bytes, of the size the RFC gives -/
theorem encode_bytes_len (p : Pdu) (hw : PduWF p) : Bytes p.encode ∧ p.encode.length = pduLen p := by
  cases p with
  | junk b => exact ⟨hw, rfl⟩
  | cr v s => exact ⟨bytes_header _ _ _ _, by simp [Pdu.encode, header_length, pduLen]⟩
  | creset v => exact ⟨bytes_header _ _ _ _, by simp [Pdu.encode, header_length, pduLen]⟩
  | notify v s n =>
    exact ⟨bytes_append (bytes_header _ _ _ _) (bytes_be32 _), by simp [Pdu.encode, header_length, pduLen, be32]⟩
  | eod v s n =>
    by_cases h1 : v ≥ 1
    · refine ⟨?_, by simp [Pdu.encode, header_length, pduLen, be32, h1]⟩
      simp only [Pdu.encode, h1, if_true]
      exact bytes_append (bytes_append (bytes_append (bytes_append (bytes_header _ _ _ _) (bytes_be32 _))
        (bytes_be32 _)) (bytes_be32 _)) (bytes_be32 _)
    · refine ⟨?_, by simp [Pdu.encode, header_length, pduLen, be32, h1]⟩
      simp only [Pdu.encode, h1, if_false]
      exact bytes_append (bytes_header _ _ _ _) (bytes_be32 _)
  | err v c b =>
    obtain ⟨_, _, hb⟩ := hw
    exact ⟨bytes_append (bytes_header _ _ _ _) hb, by simp [Pdu.encode, header_length, pduLen]⟩
  | raw v t s b =>
    obtain ⟨_, _, _, hb⟩ := hw
    exact ⟨bytes_append (bytes_header _ _ _ _) hb, by simp [Pdu.encode, header_length, pduLen]⟩
  | p4 v f l m a n =>
    obtain ⟨_, _, _, _, hla, hba, _⟩ := hw
    refine ⟨?_, by simp [Pdu.encode, header_length, pduLen, be32, hla]⟩
    simp only [Pdu.encode]
    exact bytes_append (bytes_append (bytes_append (bytes_header _ _ _ _) (bytes_flags _ _ _)) hba) (bytes_be32 _)
  | p6 v f l m a n =>
    obtain ⟨_, _, _, _, hla, hba, _⟩ := hw
    refine ⟨?_, by simp [Pdu.encode, header_length, pduLen, be32, hla]⟩
    simp only [Pdu.encode]
    exact bytes_append (bytes_append (bytes_append (bytes_header _ _ _ _) (bytes_flags _ _ _)) hba) (bytes_be32 _)

end Rbgp.Rtr
