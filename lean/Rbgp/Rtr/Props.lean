/-
  Rbgp.Rtr.Props — C13, the readable statements.

  Everything here is about the MODEL of the RTR client (`Rbgp.Rtr.Model`: `from_bytes`,
  `RtrCodec::decode`, `serve_inner`, on top of the C12 table model) as repaired for S8 / S23, and
  the specification `Rbgp.Rtr.Spec` written from the property text.  `specFold src pdus` is the
  fold of a cache's responses; `abs t` is the content of the ROA table read as VRPs.
-/
import Rbgp.Rtr.Single
namespace Rbgp.Rtr.Props
open Rbgp.Rpki Rbgp.Rtr Rbgp.Rtr.Spec
open Rbgp.Rpki.Spec (Vrp)

/-! ## 0. The reference checker accepts every run -/

/-- For every script (any number of caches, any PDU streams — conforming or garbage —, any
    fragmentation, soft resets, session ends at any byte offset, snapshots anywhere) in which a
    session is started at most once, the C13 reference checker accepts the run of the model. -/
theorem check_run_ok (c : Case) (h : CaseWF c) : Spec.check c (run c) = .ok :=
  Rbgp.Rtr.check_run_ok c h

/-- non-vacuity: two caches, a serial round with a withdrawal, a Router Key PDU, a Cache Reset,
    byte-wise interleaving, one session ended -/
def exampleCase : Case :=
  ⟨[⟨1, 1, [.cr 1 7, .p4 1 1 8 24 [10, 0, 0, 0] 65001, .eod 1 7 5, .raw 1 9 0 [1, 2, 3],
            .cr 1 7, .p4 1 0 8 24 [10, 0, 0, 0] 65001, .p4 1 1 16 16 [10, 1, 0, 0] 65002, .eod 1 7 6,
            .creset 1, .cr 1 8, .p4 1 1 24 24 [10, 1, 1, 0] 65003, .eod 1 8 1]⟩,
    ⟨2, 2, [.cr 0 9, .p6 0 1 32 48 [32, 1, 13, 184, 0, 0, 0, 0, 0, 0, 0, 0, 0, 0, 0, 0] 65001, .eod 0 9 1]⟩],
   [.start 1, .start 2, .send 1 30, .send 2 30, .send 1 22, .snap, .send 2 22, .snap, .send 1 83, .snap,
    .send 1 1000, .snap, .close 2 true, .snap]⟩

set_option maxRecDepth 8000 in
example : CaseWF exampleCase := by
  refine ⟨by decide, ?_, by decide⟩
  intro d hd p hp
  simp only [exampleCase, List.mem_cons, List.not_mem_nil, or_false] at hd
  rcases hd with rfl | rfl <;> simp only [List.mem_cons, List.not_mem_nil, or_false] at hp <;>
    rcases hp with rfl | rfl | rfl | rfl | rfl | rfl | rfl | rfl | rfl | rfl | rfl | rfl <;>
    simp [PduWF, Bytes]

/-! ## 1. Installed VRPs = the fold of the cache's responses, in every fragmentation -/

/-- **After a cache has sent any sequence of well-formed PDUs (Cache Response, IPv4/IPv6
    announce/withdraw, End of Data, Serial Notify, Cache Reset, Error Report, Router Key and unknown
    types), delivered in fragments of ANY sizes, the VRPs installed are exactly the fold of its
    responses** — the full set after a reset query (also the one sent on Cache Reset), plus
    announcements minus withdrawals after each serial update — the session is still up with
    nothing left undecoded, and the recorded serial is that of the last End of Data.
    (`ok` excludes streams with a withdrawal inside a reset response.) -/
theorem installed_eq_specFold (sid cache : Nat) (ps : List Pdu) (hw : ∀ p ∈ ps, PduWF p)
    (hc : ∀ p ∈ ps, conforming p = true) (ns : List Nat) (hsum : total ps ≤ ns.sum) :
    ∃ cl, (afterSends sid cache ps ns).slots.map (·.client) = [some cl] ∧ cl.done = false ∧ cl.buf = [] ∧
      ((specFold ⟨cache, sid⟩ ps).ok = true →
        ∀ v, v ∈ abs (afterSends sid cache ps ns).table ↔ v ∈ (specFold ⟨cache, sid⟩ ps).installed) ∧
      (∀ n, (specFold ⟨cache, sid⟩ ps).lastEod = some n → cl.serial = n) :=
  single_session sid cache ps hw hc ns hsum

/-- **Fragmentation is irrelevant**: two deliveries of the same stream in different fragment sizes
    install the same VRPs. -/
theorem fragmentation_irrelevant (sid cache : Nat) (ps : List Pdu) (hw : ∀ p ∈ ps, PduWF p)
    (hc : ∀ p ∈ ps, conforming p = true) (ns ns' : List Nat) (hsum : total ps ≤ ns.sum)
    (hsum' : total ps ≤ ns'.sum) (hok : (specFold ⟨cache, sid⟩ ps).ok = true) :
    ∀ v, v ∈ abs (afterSends sid cache ps ns).table ↔ v ∈ abs (afterSends sid cache ps ns').table := by
  obtain ⟨_, _, _, _, h1, _⟩ := single_session sid cache ps hw hc ns hsum
  obtain ⟨_, _, _, _, h2, _⟩ := single_session sid cache ps hw hc ns' hsum'
  intro v
  rw [h1 hok v, h2 hok v]

/-- non-vacuity: the stream of `exampleCase`'s first cache in several fragment sizes -/
example : total (exampleCase.streams.head!).pdus ≤ ([1, 7, 3, 1000] : List Nat).sum := by decide
example : (specFold ⟨1, 1⟩ (exampleCase.streams.head!).pdus).installed.length = 1 := by decide

/-! ## 2. Progress on every well-formed PDU, including types the client does not use -/

/-- Whatever `from_bytes` returns as a message is consumed with its declared length, which lies
    between the header length and the buffer length: never zero bytes (S8). -/
theorem decode_consumes_declared_length {buf : List Nat} {m : Msg} {len : Nat}
    (h : fromBytes buf = .msg m len) : 8 ≤ len ∧ len ≤ buf.length ∧ rd32 buf 4 = some len :=
  fromBytes_msg_len h

/-- **Every well-formed PDU — Router Key (type 9), ASPA, any unknown type, Error Report … — at
    the front of the buffer is decoded whole (never an error, never "wait"), the client processes
    it exactly as the fold prescribes, stays up, and is ready for the next PDU.** -/
theorem client_progress (p : Pdu) (hc : conforming p = true) (hw : PduWF p) (more : List Nat)
    (c : Sess) (t : Table) (S : List Vrp) (f : Fold) (hi : TableInv t) (hr : R t S) (hl : Link c S f)
    (hd : c.done = false) (hb : c.buf = []) :
    fromBytes (p.encode ++ more) = .msg (msgOf p) (pduLen p) ∧
    (feed c t p.encode).1.done = false ∧ (feed c t p.encode).1.buf = [] ∧
    ∃ S', R (feed c t p.encode).2 S' ∧ Link (feed c t p.encode).1 S' (foldPdu c.src f p) := by
  refine ⟨fromBytes_encode p hc hw more, ?_⟩
  have hlen := encode_length p hc hw
  have hf : feed c t p.encode = pump (pduLen p + 1) { c with buf := p.encode } t := by
    simp [feed, hd, hb, hlen]
  rw [hf]
  have hl0 : Link { c with buf := p.encode } S f :=
    hl.of_coreEq ⟨rfl, rfl, rfl, rfl, rfl, rfl, rfl⟩ |> fun h => ⟨h.inReset, h.pending, h.installed, h.serial, h.vwf⟩
  have hs : split [p] (pduLen p) = ([p], 0, false) := by
    have h8 : 8 ≤ pduLen p := by
      obtain ⟨v, ty, s, body, hfr⟩ := encode_framed p hc hw
      exact hfr.lenLo
    rw [split_cons_pos p [] _ (by omega) hc (Nat.le_refl _)]
    simp [split]
  obtain ⟨S', _, hr', _, _, hdone, hl', _, hlink, _⟩ :=
    pump_aligned [p] { c with buf := p.encode } t S f [] (pduLen p + 1) hi hr hl0 hd
      (by simp [encodeAll]) (by intro q hq; simp at hq; subst hq; exact hw) (by show p.encode.length + 1 ≤ _; omega)
      (by show (split [p] p.encode.length).2.2 = false; rw [hlen, hs])
  have hlen' : ({ c with buf := p.encode } : Sess).buf.length = pduLen p := hlen
  rw [hlen', hs] at hl' hlink
  exact ⟨hdone, List.length_eq_zero_iff.1 hl', S', hr', by simpa [specFold] using hlink⟩

/-- non-vacuity: a Router Key PDU and an unknown type are conforming -/
example : conforming (.raw 1 9 0 [1, 2, 3]) = true ∧ conforming (.raw 2 255 7 []) = true := by decide

/-! ## 3. Caches are independent; a session's end removes its VRPs -/

/-- **Whatever bytes a session receives (well-formed or not), VRPs of other caches are
    untouched**, and the table remains a duplicate-free set. -/
theorem caches_independent (c : Sess) (t : Table) (S : List Vrp) (hi : TableInv t) (hr : R t S)
    (hok : SessOK c) (bytes : List Nat) (hb : Bytes bytes) :
    (abs (feed c t bytes).2).Nodup ∧
    ∀ v, v.cache ≠ c.src → (v ∈ abs (feed c t bytes).2 ↔ v ∈ abs t) := by
  by_cases hd : c.done = true
  · have : feed c t bytes = (c, t) := by simp [feed, hd]
    rw [this]; exact ⟨hr.nodup, fun _ _ => Iff.rfl⟩
  · have hd' : c.done = false := by simpa using hd
    have hf : feed c t bytes = pump ((c.buf ++ bytes).length + 1) { c with buf := c.buf ++ bytes } t := by
      simp [feed, hd']
    rw [hf]
    obtain ⟨S', hany⟩ := pump_any ((c.buf ++ bytes).length + 1) { c with buf := c.buf ++ bytes } t S hi hr
      ⟨Bytes.append hok.bytes hb, hok.vwf⟩ hd'
    refine ⟨hany.rel.nodup, fun v hv => ?_⟩
    rw [hany.rel.mem, hr.mem]
    exact hany.frame.other v hv

/-- **When a session ends — EOF, cancellation (`close`) or a framing error — none of its cache's
    VRPs remain, and the VRPs of every other cache (and of other sessions on the same address) are
    exactly what they were.** -/
theorem session_end_clears (c : Sess) (t : Table) (S : List Vrp) (hi : TableInv t) (hr : R t S)
    (hok : SessOK c) (hd : c.done = false) :
    ((close c t).1.done = true ∧ (∀ v ∈ abs (close c t).2, v.cache ≠ c.src) ∧
      ∀ v, v.cache ≠ c.src → (v ∈ abs (close c t).2 ↔ v ∈ abs t)) ∧
    (fromBytes c.buf = .error → ∀ fuel, (pump (fuel + 1) c t).1.done = true ∧
        (∀ v ∈ abs (pump (fuel + 1) c t).2, v.cache ≠ c.src) ∧
        ∀ v, v.cache ≠ c.src → (v ∈ abs (pump (fuel + 1) c t).2 ↔ v ∈ abs t)) := by
  obtain ⟨hany, hdone⟩ := finish_any c t S hi hr hok
  have hcl : ∀ v ∈ abs (finish c t).2, v.cache ≠ c.src := by
    intro v hv
    exact hany.cleared hdone v ((hany.rel.mem v).1 hv)
  have hoth : ∀ v, v.cache ≠ c.src → (v ∈ abs (finish c t).2 ↔ v ∈ abs t) := by
    intro v hv
    rw [hany.rel.mem, hr.mem]
    exact hany.frame.other v hv
  constructor
  · have : close c t = finish c t := by simp [close, hd]
    rw [this]; exact ⟨hdone, hcl, hoth⟩
  · intro herr fuel
    have : pump (fuel + 1) c t = finish c t := by simp only [pump, herr]
    rw [this]; exact ⟨hdone, hcl, hoth⟩

/-- non-vacuity: a declared length of 0 and a fixed-size PDU with the wrong length are framing
    errors; an unknown type with a sane length is not -/
example : fromBytes [1, 2, 0, 0, 0, 0, 0, 0] = .error := by decide
example : fromBytes [1, 4, 0, 0, 0, 0, 0, 8, 1, 2, 3, 4] = .error := by decide
example : fromBytes [1, 9, 0, 0, 0, 0, 0, 8] = .msg (.unsupported 9) 8 := by decide

end Rbgp.Rtr.Props
