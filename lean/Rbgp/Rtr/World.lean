/- Rbgp.Rtr.World — C13: the whole script world stays related to the specification walker,
   every snapshot passes the reference checker, and hence `check_run_ok`. -/
import Rbgp.Rtr.Slots
namespace Rbgp.Rtr
open Rbgp.Rpki Rbgp.Rtr.Spec
open Rbgp.Rpki.Spec (Vrp vrpOf sIns sRem sDrop sReset)

/-! ## the whole script world -/

inductive All2 {α β : Type} (r : α → β → Prop) : List α → List β → Prop
  | nil : All2 r [] []
  | cons {a : α} {b : β} {as : List α} {bs : List β} : r a b → All2 r as bs → All2 r (a :: as) (b :: bs)

theorem All2.imp_mem {α β : Type} {r r' : α → β → Prop} {as : List α} {bs : List β} (h : All2 r as bs)
    (himp : ∀ a b, r a b → b ∈ bs → r' a b) : All2 r' as bs := by
  induction h with
  | nil => exact All2.nil
  | cons hab _ ih =>
    exact All2.cons (himp _ _ hab (by simp)) (ih (fun a b hr hb => himp a b hr (by simp [hb])))

structure Good (w : World) (σ : List SSlot) (S : List Vrp) : Prop where
  inv : TableInv w.table
  rel : R w.table S
  slots : All2 (SlotRel S) w.slots σ
  nodup : (σ.map (·.sid)).Nodup
  owned : ∀ v ∈ S, ∃ x ∈ w.slots, x.client.isSome = true ∧ v.cache = x.src

theorem src_ne_of_sid {x x0 : Slot} (h : x0.sid ≠ x.sid) : x.src ≠ x0.src := by
  intro e
  simp only [Slot.src, Src.mk.injEq] at e
  exact h e.2.symm

theorem upd_slots (sid : Nat) (f : Slot → Table → Slot × Table) (g : SSlot → SSlot) (P : SSlot → Prop)
    (hstep : ∀ x y t S, TableInv t → R t S → SlotRel S x y → x.sid = sid → P y →
      ∃ S', SlotStep S x (f x t).1 (g y) (f x t).2 S') :
    ∀ (slots : List Slot) (σ : List SSlot) (t : Table) (S : List Vrp), TableInv t → R t S →
      All2 (SlotRel S) slots σ → (σ.map (·.sid)).Nodup → (∀ y ∈ σ, y.sid = sid → P y) →
      ∃ S', TableInv (updSlot sid f slots t).2 ∧ R (updSlot sid f slots t).2 S' ∧
        All2 (SlotRel S') (updSlot sid f slots t).1 (σ.map (fun y => if y.sid = sid then g y else y)) ∧
        (∀ x0 y0, SlotRel S x0 y0 → x0.sid ≠ sid → SlotRel S' x0 y0) ∧
        (∀ v ∈ S', v ∈ S ∨ ∃ x' ∈ (updSlot sid f slots t).1, x'.client.isSome = true ∧ v.cache = x'.src) ∧
        (∀ x ∈ slots, x.client.isSome = true →
          ∃ x' ∈ (updSlot sid f slots t).1, x'.client.isSome = true ∧ x'.src = x.src) := by
  intro slots σ t S hi hr hall
  induction hall with
  | nil =>
    intro _ _
    exact ⟨S, hi, hr, All2.nil, fun _ _ h _ => h, fun v hv => Or.inl hv, fun x hx => by cases hx⟩
  | @cons x y xs ys hxy hrest ih =>
    intro hnd hpre
    simp only [List.map_cons, List.nodup_cons] at hnd
    by_cases hs : x.sid = sid
    · -- the addressed slot
      obtain ⟨S', st⟩ := hstep x y t S hi hr hxy hs (hpre y (by simp) (by rw [← hxy.sid]; exact hs))
      have hupd : updSlot sid f (x :: xs) t = ((f x t).1 :: xs, (f x t).2) := by
        simp [updSlot, hs]
      rw [hupd]
      have hothers : ∀ x0 y0, SlotRel S x0 y0 → x0.sid ≠ sid → SlotRel S' x0 y0 := by
        intro x0 y0 h0 hne
        exact h0.frame st.frame (src_ne_of_sid (by rw [hs]; exact hne))
      have htail_ne : ∀ y0 ∈ ys, y0.sid ≠ sid := by
        intro y0 hy0 he
        apply hnd.1
        rw [← hxy.sid, hs, ← he]
        exact List.mem_map_of_mem (f := fun y => y.sid) hy0
      have hmap : ys.map (fun y => if y.sid = sid then g y else y) = ys := by
        conv => rhs; rw [← List.map_id ys]
        apply List.map_congr_left
        intro y0 hy0
        simp [htail_ne y0 hy0]
      refine ⟨S', st.inv, st.rel, ?_, hothers, ?_, ?_⟩
      · simp only [List.map_cons, hmap, ← hxy.sid, hs, if_true]
        refine All2.cons st.slot ?_
        exact hrest.imp_mem (fun x0 y0 h0 hy0 =>
          hothers x0 y0 h0 (by rw [h0.sid]; exact htail_ne y0 hy0))
      · intro v hv
        rcases st.owned v hv with h | ⟨h1, h2⟩
        · exact Or.inl h
        · refine Or.inr ⟨(f x t).1, by simp, h1, ?_⟩
          rw [h2]; simp [Slot.src, st.sid, st.cache]
      · intro x1 hx1 hsome
        simp only [List.mem_cons] at hx1
        rcases hx1 with rfl | hx1
        · exact ⟨(f x1 t).1, by simp, st.keep hsome, by simp [Slot.src, st.sid, st.cache]⟩
        · exact ⟨x1, by simp [hx1], hsome, rfl⟩
    · -- another slot: recurse
      obtain ⟨S', hi', hr', hall', hothers, howned, hkeep⟩ := ih hnd.2 (fun y0 hy0 => hpre y0 (by simp [hy0]))
      have hupd : updSlot sid f (x :: xs) t = (x :: (updSlot sid f xs t).1, (updSlot sid f xs t).2) := by
        simp [updSlot, hs]
      rw [hupd]
      refine ⟨S', hi', hr', ?_, hothers, ?_, ?_⟩
      · have : y.sid ≠ sid := by rw [← hxy.sid]; exact hs
        simp only [List.map_cons, this, if_false]
        exact All2.cons (hothers x y hxy hs) hall'
      · intro v hv
        rcases howned v hv with h | ⟨x', hx', h1, h2⟩
        · exact Or.inl h
        · exact Or.inr ⟨x', by simp [hx'], h1, h2⟩
      · intro x1 hx1 hsome
        simp only [List.mem_cons] at hx1
        rcases hx1 with rfl | hx1
        · exact ⟨x1, by simp, hsome, rfl⟩
        · obtain ⟨x', hx', h1, h2⟩ := hkeep x1 hx1 hsome
          exact ⟨x', by simp [hx'], h1, h2⟩

/-! ## script steps keep the world good -/

theorem slotStep_refl {S : List Vrp} {x : Slot} {y : SSlot} {t : Table} (hi : TableInv t) (hr : R t S)
    (h : SlotRel S x y) : SlotStep S x x y t S :=
  ⟨hi, hr, Frame.refl _ _, h, rfl, rfl, id, fun v hv => Or.inl hv⟩

theorem client_none_of_not_started {S : List Vrp} {x : Slot} {y : SSlot} (h : SlotRel S x y)
    (hs : y.started = false) : x.client = none := by
  have := h.started
  rw [hs] at this
  cases hc : x.client with
  | none => rfl
  | some c => rw [hc] at this; cases this

theorem started_of_client {S : List Vrp} {x : Slot} {y : SSlot} (h : SlotRel S x y) {cl : Sess}
    (hc : x.client = some cl) : y.started = true := by
  rw [h.started, hc]; rfl

/-- what every non-`snap` step needs: a `start` addresses a session that has not been started -/
def stepPre (σ : List SSlot) : Step → Prop
  | .start sid => ∀ y ∈ σ, y.sid = sid → y.started = false
  | _ => True

theorem good_of_upd {w : World} {σ : List SSlot} {S : List Vrp} (hg : Good w σ S) (sid : Nat)
    (f : Slot → Table → Slot × Table) (g : SSlot → SSlot) (P : SSlot → Prop)
    (hgsid : ∀ y, (g y).sid = y.sid)
    (hstep : ∀ x y t S, TableInv t → R t S → SlotRel S x y → x.sid = sid → P y →
      ∃ S', SlotStep S x (f x t).1 (g y) (f x t).2 S')
    (hpre : ∀ y ∈ σ, y.sid = sid → P y) :
    ∃ S', Good { table := (updSlot sid f w.slots w.table).2, slots := (updSlot sid f w.slots w.table).1 }
      (σ.map (fun y => if y.sid = sid then g y else y)) S' := by
  obtain ⟨S', hi', hr', hall', _, howned, hkeep⟩ :=
    upd_slots sid f g P hstep w.slots σ w.table S hg.inv hg.rel hg.slots hg.nodup hpre
  refine ⟨S', hi', hr', hall', ?_, ?_⟩
  · have : (σ.map (fun y => if y.sid = sid then g y else y)).map (·.sid) = σ.map (·.sid) := by
      rw [List.map_map]
      apply List.map_congr_left
      intro y _
      simp only [Function.comp]
      split
      · exact hgsid y
      · rfl
    rw [this]; exact hg.nodup
  · intro v hv
    rcases howned v hv with h | h
    · obtain ⟨x, hx, hs, hc⟩ := hg.owned v h
      obtain ⟨x', hx', hs', hsrc⟩ := hkeep x hx hs
      exact ⟨x', hx', hs', by rw [hc, hsrc]⟩
    · exact h

theorem step_good {w : World} {σ : List SSlot} {S : List Vrp} (hg : Good w σ S) (st : Step)
    (hpre : stepPre σ st) : ∃ S', Good (w.step st) (sStep σ st) S' := by
  cases st with
  | snap => exact ⟨S, hg⟩
  | start sid =>
    exact good_of_upd hg sid startF
      (fun y => { y with started := true }) (fun y => y.started = false) (fun _ => rfl)
      (fun x y t S hi hr h _ hp => ⟨S, start_step hi hr h (client_none_of_not_started h hp)⟩) hpre
  | soft sid =>
    have := good_of_upd hg sid softF
      (fun y => y) (fun _ => True) (fun _ => rfl)
      (fun x y t S hi hr h _ _ => by
        cases hc : x.client with
        | none => exact ⟨S, by simpa [softF, hc] using slotStep_refl hi hr h⟩
        | some cl => exact ⟨S, by simpa [softF, hc] using soft_step hi hr h cl hc⟩)
      (fun _ _ _ => trivial)
    have hmap : σ.map (fun y => if y.sid = sid then y else y) = σ := by
      conv => rhs; rw [← List.map_id σ]
      apply List.map_congr_left; intro y _; simp
    rw [hmap] at this
    exact this
  | wfail sid =>
    have := good_of_upd hg sid wfailF
      (fun y => y) (fun _ => True) (fun _ => rfl)
      (fun x y t S hi hr h _ _ => by
        cases hc : x.client with
        | none => exact ⟨S, by simpa [wfailF, hc] using slotStep_refl hi hr h⟩
        | some cl => exact ⟨S, by simpa [wfailF, hc] using wfail_step hi hr h cl hc⟩)
      (fun _ _ _ => trivial)
    have hmap : σ.map (fun y => if y.sid = sid then y else y) = σ := by
      conv => rhs; rw [← List.map_id σ]
      apply List.map_congr_left; intro y _; simp
    rw [hmap] at this
    exact this
  | send sid n =>
    have := good_of_upd hg sid (sendF n)
      (fun y => if y.started then { y with delivered := min (y.delivered + n) (total y.pdus) } else y)
      (fun _ => True) (fun y => by split <;> rfl)
      (fun x y t S hi hr h _ _ => by
        cases hc : x.client with
        | none =>
          have hs : y.started = false := by rw [h.started, hc]; rfl
          exact ⟨S, by simpa [sendF, hc, hs] using slotStep_refl hi hr h⟩
        | some cl =>
          obtain ⟨S', st⟩ := send_step hi hr h cl hc n
          exact ⟨S', by simpa [sendF, hc, started_of_client h hc] using st⟩)
      (fun _ _ _ => trivial)
    have hmap : σ.map (fun y => if y.sid = sid then
          (if y.started then { y with delivered := min (y.delivered + n) (total y.pdus) } else y) else y)
        = sStep σ (.send sid n) := by
      simp only [sStep]
      apply List.map_congr_left
      intro y _
      by_cases h1 : y.sid = sid <;> by_cases h2 : y.started = true <;> simp [h1, h2]
    rw [hmap] at this
    exact this
  | close sid e =>
    have := good_of_upd hg sid closeF
      (fun y => if y.started then { y with closed := true } else y)
      (fun _ => True) (fun y => by split <;> rfl)
      (fun x y t S hi hr h _ _ => by
        cases hc : x.client with
        | none =>
          have hs : y.started = false := by rw [h.started, hc]; rfl
          exact ⟨S, by simpa [closeF, hc, hs] using slotStep_refl hi hr h⟩
        | some cl =>
          obtain ⟨S', st⟩ := close_step hi hr h cl hc
          exact ⟨S', by simpa [closeF, hc, started_of_client h hc] using st⟩)
      (fun _ _ _ => trivial)
    have hmap : σ.map (fun y => if y.sid = sid then
          (if y.started then { y with closed := true } else y) else y)
        = sStep σ (.close sid e) := by
      simp only [sStep]
      apply List.map_congr_left
      intro y _
      by_cases h1 : y.sid = sid <;> by_cases h2 : y.started = true <;> simp [h1, h2]
    rw [hmap] at this
    exact this

/-! ## snapshots -/

theorem perm_insertBySid (x : Nat × Sess) (l : List (Nat × Sess)) : (insertBySid x l).Perm (x :: l) := by
  induction l with
  | nil => simp [insertBySid]
  | cons y ys ih =>
    simp only [insertBySid]
    split
    · exact List.Perm.refl _
    · exact (List.Perm.cons y ih).trans (List.Perm.swap x y ys)

theorem perm_sortBySid (l : List (Nat × Sess)) : (sortBySid l).Perm l := by
  induction l with
  | nil => simp [sortBySid]
  | cons x xs ih =>
    simp only [sortBySid, List.foldr_cons] at ih ⊢
    exact (perm_insertBySid x _).trans (List.Perm.cons x ih)

def startedOf (w : World) : List (Nat × Sess) :=
  w.slots.filterMap (fun x => x.client.map (fun c => (x.sid, c)))

theorem mem_startedOf {w : World} {sid : Nat} {cl : Sess} :
    (sid, cl) ∈ startedOf w ↔ ∃ x ∈ w.slots, x.sid = sid ∧ x.client = some cl := by
  simp only [startedOf, List.mem_filterMap, Option.map_eq_some_iff, Prod.mk.injEq]
  constructor
  · rintro ⟨x, hx, c, hc, rfl, rfl⟩; exact ⟨x, hx, rfl, hc⟩
  · rintro ⟨x, hx, rfl, hc⟩; exact ⟨x, hx, cl, hc, rfl, rfl⟩

theorem all2_left {α β : Type} {r : α → β → Prop} {as : List α} {bs : List β} (h : All2 r as bs) {a : α}
    (ha : a ∈ as) : ∃ b ∈ bs, r a b := by
  induction h with
  | nil => cases ha
  | cons hab _ ih =>
    simp only [List.mem_cons] at ha
    rcases ha with rfl | ha
    · exact ⟨_, by simp, hab⟩
    · obtain ⟨b, hb, hr⟩ := ih ha; exact ⟨b, by simp [hb], hr⟩

theorem all2_right {α β : Type} {r : α → β → Prop} {as : List α} {bs : List β} (h : All2 r as bs) {b : β}
    (hb : b ∈ bs) : ∃ a ∈ as, r a b := by
  induction h with
  | nil => cases hb
  | cons hab _ ih =>
    simp only [List.mem_cons] at hb
    rcases hb with rfl | hb
    · exact ⟨_, by simp, hab⟩
    · obtain ⟨a, ha, hr⟩ := ih hb; exact ⟨a, by simp [ha], hr⟩

theorem nodup_map_inj {α : Type} (f : α → Nat) : ∀ (l : List α), (l.map f).Nodup → ∀ a ∈ l, ∀ b ∈ l,
    f a = f b → a = b := by
  intro l
  induction l with
  | nil => intro _ a ha; cases ha
  | cons x xs ih =>
    intro hnd a ha b hb hab
    simp only [List.map_cons, List.nodup_cons] at hnd
    simp only [List.mem_cons] at ha hb
    rcases ha with rfl | ha <;> rcases hb with rfl | hb
    · rfl
    · exact absurd (hab ▸ List.mem_map_of_mem (f := f) hb) hnd.1
    · exact absurd (hab ▸ List.mem_map_of_mem (f := f) ha) hnd.1
    · exact ih hnd.2 a ha b hb hab

theorem all2_sids {S : List Vrp} {xs : List Slot} {ys : List SSlot} (h : All2 (SlotRel S) xs ys) :
    xs.map (·.sid) = ys.map (·.sid) := by
  induction h with
  | nil => rfl
  | cons hab _ ih => simp [hab.sid, ih]

/-- the unique script slot with a given `sid` -/
theorem slot_unique {w : World} {σ : List SSlot} {S : List Vrp} (hg : Good w σ S) {x x' : Slot}
    (hx : x ∈ w.slots) (hx' : x' ∈ w.slots) (h : x.sid = x'.sid) : x = x' :=
  nodup_map_inj (·.sid) w.slots (by rw [all2_sids hg.slots]; exact hg.nodup) x hx x' hx' h

structure SnapFacts (w : World) (s : Snap) : Prop where
  done : ∀ sid, s.done.contains sid = true ↔
    ∃ x ∈ w.slots, x.sid = sid ∧ ∃ cl, x.client = some cl ∧ cl.done = true
  sess : ∀ x ∈ w.slots, ∀ cl, x.client = some cl →
    (x.sid, cl.serial, cl.sessionId, cl.rx, cl.delivered) ∈ s.sess
  roas : ∃ L : List (Net × Roa), L.map Rpki.Spec.entryVrp = abs w.table ∧ s.roas = roasOf L

theorem snap_facts {w : World} {σ : List SSlot} {S : List Vrp} (hg : Good w σ S) :
    ∃ s, w.snap = .ok s ∧ SnapFacts w s := by
  obtain ⟨l4, h4, e4⟩ := iterTrie_ok (f := .v4) hg.inv.v4.keyOK
  obtain ⟨l6, h6, e6⟩ := iterTrie_ok (f := .v6) hg.inv.v6.keyOK
  have hs : w.snap = .ok
      { roas := roasOf l4 ++ roasOf l6,
        sess := (sortBySid (startedOf w)).map (fun p => (p.1, p.2.serial, p.2.sessionId, p.2.rx, p.2.delivered)),
        done := ((sortBySid (startedOf w)).filter (fun p => p.2.done)).map (·.1) } := by
    simp only [World.snap, Table.iter, Table.trie, h4, h6, startedOf]
  refine ⟨_, hs, ?_, ?_, ?_⟩
  · intro sid
    simp only [List.contains_iff_mem, List.mem_map, List.mem_filter, (perm_sortBySid _).mem_iff]
    constructor
    · rintro ⟨⟨sid', cl⟩, ⟨hm, hd⟩, rfl⟩
      obtain ⟨x, hx, hsid, hc⟩ := mem_startedOf.1 hm
      exact ⟨x, hx, hsid, cl, hc, hd⟩
    · rintro ⟨x, hx, hsid, cl, hc, hd⟩
      exact ⟨(sid, cl), ⟨mem_startedOf.2 ⟨x, hx, hsid, hc⟩, hd⟩, rfl⟩
  · intro x hx cl hc
    simp only [List.mem_map]
    exact ⟨(x.sid, cl), (perm_sortBySid _).mem_iff.2 (mem_startedOf.2 ⟨x, hx, rfl, hc⟩), rfl⟩
  · refine ⟨l4 ++ l6, ?_, by simp [roasOf]⟩
    rw [List.map_append, e4, e6]; rfl

/-- the relation does not look at the walker's `upSeen` note -/
theorem SlotRel.upSeen {S : List Vrp} {x : Slot} {y : SSlot} (h : SlotRel S x y) (n : Nat) :
    SlotRel S x { y with upSeen := n } :=
  ⟨h.sid, h.cache, h.wf, h.rest, h.le, h.started, h.fresh,
   fun cl hc =>
     have L := h.live cl hc
     ⟨L.src, L.ok, L.closed, L.gone, L.why, fun hd hcl =>
       have C := L.clean hd hcl; ⟨C.len, C.buf, C.link, C.rx⟩⟩⟩

theorem all2_map_right {α β : Type} {r : α → β → Prop} {as : List α} {bs : List β} (g : β → β)
    (h : All2 r as bs) (hg : ∀ a b, r a b → r a (g b)) : All2 r as (bs.map g) := by
  induction h with
  | nil => exact All2.nil
  | cons hab _ ih => exact All2.cons (hg _ _ hab) ih

theorem good_markUp {w : World} {σ : List SSlot} {S : List Vrp} (hg : Good w σ S) (s : Snap) :
    Good w (markUp s σ) S := by
  refine ⟨hg.inv, hg.rel, ?_, ?_, hg.owned⟩
  · apply all2_map_right _ hg.slots
    intro x y h
    split
    · exact h.upSeen _
    · exact h
  · have : (markUp s σ).map (·.sid) = σ.map (·.sid) := by
      simp only [markUp, List.map_map]
      apply List.map_congr_left
      intro y _
      simp only [Function.comp]
      split <;> rfl
    rw [this]; exact hg.nodup

theorem firstSome_none {l : List (Option String)} (h : ∀ o ∈ l, o = none) : firstSome l = none := by
  induction l with
  | nil => rfl
  | cons o os ih =>
    have := h o (by simp)
    subst this
    simp only [firstSome]
    exact ih (fun o' ho' => h o' (by simp [ho']))

theorem entryVrp_cache (e : Net × Roa) : (Rpki.Spec.entryVrp e).cache = e.2.src := rfl

theorem shown_list (c : Src) : ∀ (L : List (Net × Roa)),
    (∀ e ∈ L, e.2.src.arc = c.arc → e.2.src = c) →
    ((roasOf L).filter (fun r => r.1 = c.arc)).map (fun r => vrpOf c r.2.2.1 r.2.2.2.1 r.2.2.2.2)
      = (L.map Rpki.Spec.entryVrp).filter (fun v => v.cache = c) := by
  intro L
  induction L with
  | nil => intro _; rfl
  | cons e es ih =>
    intro h
    have ih' := ih (fun e' he' => h e' (by simp [he']))
    simp only [roasOf, List.map_cons, List.filter_cons] at ih' ⊢
    by_cases hc : e.2.src.arc = c.arc
    · have hsrc := h e (by simp) hc
      have h1 : (Rpki.Spec.entryVrp e).cache = c := hsrc
      simp only [hc, decide_true, if_true, List.map_cons, h1]
      rw [ih']
      congr 1
      simp [Rpki.Spec.entryVrp, ← hsrc]
    · have h1 : ¬ (Rpki.Spec.entryVrp e).cache = c := by
        intro he; apply hc; rw [← he]; rfl
      simp only [hc, decide_false, Bool.false_eq_true, if_false, h1]
      exact ih'

/-- rows of the snapshot labelled with a session, when every stored VRP so labelled is `c`'s -/
theorem shown_eq {L : List (Net × Roa)} {c : Src} (s : Snap) (hs : s.roas = roasOf L)
    (h : ∀ e ∈ L, e.2.src.arc = c.arc → e.2.src = c) :
    shown s c = (L.map Rpki.Spec.entryVrp).filter (fun v => v.cache = c) := by
  simp only [shown, hs]
  exact shown_list c L h

/-! ## the reference checker accepts every snapshot of a good world -/

theorem ended_done {w : World} {σ : List SSlot} {S : List Vrp} (hg : Good w σ S) {s : Snap}
    (hf : SnapFacts w s) {z : Slot} {yz : SSlot} (hz : z ∈ w.slots) (hr : SlotRel S z yz) {cl : Sess}
    (hc : z.client = some cl) (he : ended s yz = true) : cl.done = true := by
  simp only [ended, Bool.or_eq_true] at he
  rcases he with he | he
  · exact (hr.live cl hc).closed he
  · obtain ⟨x, hx, hsid, cl', hc', hd⟩ := (hf.done yz.sid).1 he
    have : x = z := slot_unique hg hx hz (by rw [hsid, hr.sid])
    subst this
    rw [hc] at hc'; cases hc'; exact hd

/-- a stored VRP labelled with `y`'s session id is `y`'s own, and `y`'s client has not finished -/
theorem own_rows {w : World} {σ : List SSlot} {S : List Vrp} (hg : Good w σ S) {y : SSlot} (hy : y ∈ σ)
    {v : Vrp} (hv : v ∈ S) (harc : v.cache.arc = y.sid) :
    v.cache = ⟨y.cache, y.sid⟩ ∧ ∃ x ∈ w.slots, SlotRel S x y ∧ ∃ cl, x.client = some cl ∧ cl.done = false := by
  obtain ⟨z, hz, hsome, hsrc⟩ := hg.owned v hv
  obtain ⟨yz, hyz, hrel⟩ := all2_left hg.slots hz
  obtain ⟨cl, hcl⟩ : ∃ cl, z.client = some cl := by
    cases hc : z.client with
    | none => rw [hc] at hsome; cases hsome
    | some cl => exact ⟨cl, rfl⟩
  have hnotdone : cl.done = false := by
    cases hd : cl.done with
    | false => rfl
    | true => exact absurd hsrc ((hrel.live cl hcl).gone hd v hv)
  have hsid : yz.sid = y.sid := by rw [← hrel.sid, ← harc, hsrc]; rfl
  have : yz = y := nodup_map_inj (·.sid) σ hg.nodup yz hyz y hy hsid
  subst this
  refine ⟨?_, z, hz, hrel, cl, hcl, hnotdone⟩
  rw [hsrc]; simp [Slot.src, hrel.sid, hrel.cache]

theorem nodupB_iff' (l : List Vrp) : Spec.nodupB l = true ↔ l.Nodup := by
  induction l with
  | nil => simp [Spec.nodupB]
  | cons v vs ih => simp [Spec.nodupB, ih, List.nodup_cons]

/-- the lower bound kept by the fold never exceeds what the fold says is installed -/
theorem floor_sub_installed (c : Src) (pdus : List Pdu) : ∀ (f : Fold),
    (∀ x, x ∈ f.floor → x ∈ f.installed) →
    ∀ x, x ∈ (pdus.foldl (foldPdu c) f).floor → x ∈ (pdus.foldl (foldPdu c) f).installed := by
  induction pdus with
  | nil => intro f h; exact h
  | cons p ps ih =>
    intro f h
    simp only [List.foldl_cons]
    apply ih
    have hpre : ∀ (v : Vrp) (ann : Bool) x, x ∈ (prefixFold f v ann).floor → x ∈ (prefixFold f v ann).installed := by
      intro v ann x
      unfold prefixFold
      split
      · split <;> exact h x
      · split
        · intro hx; exact (sIns_mem' _ _ _).2 (Or.inl (h x hx))
        · intro hx
          have := (sRem_mem' _ _ _).1 hx
          exact (sRem_mem' _ _ _).2 ⟨h x this.1, this.2⟩
    cases p with
    | p4 v fl l m a n => exact hpre _ _
    | p6 v fl l m a n => exact hpre _ _
    | eod v s n =>
      intro x
      simp only [foldPdu]
      split
      · exact id
      · exact id
    | creset v => intro x hx; simp [foldPdu] at hx
    | cr v s => exact h
    | notify v s n => exact h
    | err v cd b => exact h
    | raw v ty s b => exact h
    | junk b => exact h

theorem checkSlot_ok {w : World} {σ : List SSlot} {S : List Vrp} (hg : Good w σ S) {s : Snap}
    (hf : SnapFacts w s) {y : SSlot} (hy : y ∈ σ) : checkSlot s y = none := by
  obtain ⟨x, hx, hrel⟩ := all2_right hg.slots hy
  obtain ⟨L, hL, hroas⟩ := hf.roas
  unfold checkSlot
  cases hst : y.started with
  | false => simp
  | true =>
    simp only [Bool.not_true, Bool.false_eq_true, if_false]
    obtain ⟨cl, hcl⟩ : ∃ cl, x.client = some cl := by
      have := hrel.started; rw [hst] at this
      cases hc : x.client with
      | none => rw [hc] at this; cases this
      | some cl => exact ⟨cl, rfl⟩
    have Lv := hrel.live cl hcl
    have hcontains : cl.done = true → s.done.contains y.sid = true :=
      fun hd => (hf.done y.sid).2 ⟨x, hx, hrel.sid, cl, hcl, hd⟩
    have h1 : (y.closed && !s.done.contains y.sid) = false := by
      cases hc : y.closed with
      | false => rfl
      | true => simpa using hcontains (Lv.closed hc)
    simp only [h1, Bool.false_eq_true, if_false]
    -- rows labelled with this session
    have hrows : ∀ e ∈ L, e.2.src.arc = (⟨y.cache, y.sid⟩ : Src).arc →
        e.2.src = ⟨y.cache, y.sid⟩ ∧ cl.done = false := by
      intro e he hc
      have hvS : Rpki.Spec.entryVrp e ∈ S := (hg.rel.mem _).1 (by rw [← hL]; exact List.mem_map_of_mem he)
      obtain ⟨h1, x', hx', hrel', cl', hcl', hnd⟩ := own_rows hg hy hvS hc
      have : x' = x := slot_unique hg hx' hx (by rw [hrel'.sid, hrel.sid])
      subst this
      rw [hcl] at hcl'; cases hcl'
      exact ⟨h1, hnd⟩
    have hsh := shown_eq (c := ⟨y.cache, y.sid⟩) s hroas (fun e he hc => (hrows e he hc).1)
    rw [hL] at hsh
    cases hend : ended s y with
    | true =>
      simp only [if_true]
      have hdone : cl.done = true := ended_done hg hf hx hrel hcl hend
      have hshown : shown s ⟨y.cache, y.sid⟩ = [] := by
        simp only [shown, hroas, roasOf, List.filter_map, List.map_eq_nil_iff, List.filter_eq_nil_iff,
          Function.comp, decide_eq_true_eq]
        intro e he hc
        have := (hrows e he hc).2
        rw [hdone] at this; cases this
      simp [hshown]
    | false =>
      simp only [Bool.false_eq_true, if_false]
      have hnd : cl.done = false := by
        cases hd : cl.done with
        | false => rfl
        | true =>
          have := hcontains hd
          simp only [ended, Bool.or_eq_false_iff] at hend
          rw [hend.2] at this; cases this
      cases hdirty : (split y.pdus y.delivered).2.2 with
      | true =>
        have : split y.pdus y.delivered = ((split y.pdus y.delivered).1, (split y.pdus y.delivered).2.1, true) := by
          rw [← hdirty]
        rw [this]
        simp
      | false =>
        have C := Lv.clean hnd hdirty
        have hsrc : cl.src = ⟨y.cache, y.sid⟩ := by
          rw [Lv.src]; simp [Slot.src, hrel.sid, hrel.cache]
        have hlink := C.link
        rw [hsrc] at hlink
        have hfloor := floor_sub_installed ⟨y.cache, y.sid⟩ (split y.pdus y.delivered).1 {} (by intro x hx; cases hx)
        have hrx := C.rx
        have : split y.pdus y.delivered = ((split y.pdus y.delivered).1, (split y.pdus y.delivered).2.1, false) := by
          rw [← hdirty]
        rw [this]
        simp only [Bool.false_eq_true, if_false]
        change ∀ x, x ∈ (specFold ⟨y.cache, y.sid⟩ (split y.pdus y.delivered).1).floor →
          x ∈ (specFold ⟨y.cache, y.sid⟩ (split y.pdus y.delivered).1).installed at hfloor
        generalize hfold : specFold ⟨y.cache, y.sid⟩ (split y.pdus y.delivered).1 = f at hlink hfloor
        cases hok : f.ok with
        | false => simp
        | true =>
          simp only [Bool.not_true, Bool.false_eq_true, if_false]
          -- the view of this session's VRPs is the fold's installed set
          have hview : ∀ v, v ∈ shown s ⟨y.cache, y.sid⟩ ↔ v ∈ f.installed := by
            intro v
            rw [hsh, List.mem_filter, hlink.installed hok v, hg.rel.mem v]
            simp only [decide_eq_true_eq, hsrc]
          have hfl : f.floor.all (fun v => decide (v ∈ shown s ⟨y.cache, y.sid⟩)) = true := by
            simp only [List.all_eq_true, decide_eq_true_eq]
            intro v hv; exact (hview v).2 (hfloor v hv)
          simp only [hfl, Bool.not_true, Bool.false_eq_true, if_false]
          by_cases hleft : (split y.pdus y.delivered).2.1 ≠ 0
          · rw [if_pos hleft]
          · rw [if_neg hleft]
            have hrow := hf.sess x hx cl hcl
            have hany1 : s.sess.any (fun e => e.1 = y.sid && e.2.2.2.1 = seenOf (split y.pdus y.delivered).1) = true := by
              simp only [List.any_eq_true, Bool.and_eq_true, decide_eq_true_eq]
              exact ⟨_, hrow, hrel.sid, hrx⟩
            simp only [hany1, Bool.not_true, Bool.false_eq_true, if_false]
            cases hlast : f.lastEod with
            | none => rfl
            | some serial =>
              simp only
              have hserial : cl.serial = serial := hlink.serial serial hlast
              have hany : s.sess.any (fun e => e.1 = y.sid && e.2.1 = serial) = true := by
                simp only [List.any_eq_true, Bool.and_eq_true, decide_eq_true_eq]
                exact ⟨_, hrow, hrel.sid, hserial⟩
              simp only [hany, Bool.not_true, Bool.false_eq_true, if_false]
              have hndp : (shown s ⟨y.cache, y.sid⟩).Nodup := by
                rw [hsh]; exact hg.rel.nodup.sublist List.filter_sublist
              have hset : sameSet (shown s ⟨y.cache, y.sid⟩) f.installed = true := by
                simp only [sameSet, Bool.and_eq_true, List.all_eq_true, decide_eq_true_eq]
                exact ⟨fun v hv => (hview v).1 hv, fun v hv => (hview v).2 hv⟩
              simp [(nodupB_iff' _).2 hndp, hset]

theorem checkDropped_ok {w : World} {σ : List SSlot} {S : List Vrp} (hg : Good w σ S) {s : Snap}
    (hf : SnapFacts w s) {y : SSlot} (hy : y ∈ σ) : checkDropped s y = none := by
  obtain ⟨x, hx, hrel⟩ := all2_right hg.slots hy
  unfold checkDropped
  split
  · rename_i hcond
    exfalso
    simp only [Bool.and_eq_true, Bool.not_eq_true'] at hcond
    obtain ⟨⟨⟨⟨hst, hncl⟩, hcon⟩, hclean⟩, _⟩ := hcond
    obtain ⟨x', hx', hsid, cl, hcl, hd⟩ := (hf.done y.sid).1 hcon
    have : x' = x := slot_unique hg hx' hx (by rw [hsid, hrel.sid])
    subst this
    rcases (hrel.live cl hcl).why hd with h | h
    · rw [hncl] at h; cases h
    · rw [hclean] at h; cases h
  · rfl

theorem checkRows_ok {w : World} {σ : List SSlot} {S : List Vrp} (hg : Good w σ S) {s : Snap}
    (hf : SnapFacts w s) : checkRows σ s = none := by
  obtain ⟨L, hL, hroas⟩ := hf.roas
  unfold checkRows
  have : s.roas.all (fun r => σ.any (fun x => x.sid = r.1 && x.started && x.cache = r.2.1)) = true := by
    simp only [hroas, roasOf, List.all_eq_true, List.mem_map, List.any_eq_true, Bool.and_eq_true,
      decide_eq_true_eq]
    rintro r ⟨e, he, rfl⟩
    have hvS : Rpki.Spec.entryVrp e ∈ S := (hg.rel.mem _).1 (by rw [← hL]; exact List.mem_map_of_mem he)
    obtain ⟨z, hz, hsome, hsrc⟩ := hg.owned _ hvS
    obtain ⟨yz, hyz, hrel⟩ := all2_left hg.slots hz
    have hsrc' : e.2.src = z.src := hsrc
    refine ⟨yz, hyz, ⟨?_, ?_⟩, ?_⟩
    · rw [← hrel.sid, hsrc']; rfl
    · rw [hrel.started]; exact hsome
    · rw [← hrel.cache, hsrc']; rfl
  rw [this]; rfl

theorem checkSnap_ok {w : World} {σ : List SSlot} {S : List Vrp} (hg : Good w σ S) :
    ∃ s, w.snap = .ok s ∧ checkSnap σ s = none := by
  obtain ⟨s, hs, hf⟩ := snap_facts hg
  refine ⟨s, hs, firstSome_none ?_⟩
  intro o ho
  simp only [List.mem_cons, List.mem_append, List.mem_map] at ho
  rcases ho with rfl | ⟨y, hy, rfl⟩ | ⟨y, hy, rfl⟩
  · exact checkRows_ok hg hf
  · exact checkDropped_ok hg hf hy
  · exact checkSlot_ok hg hf hy

/-! ## the master theorem -/

/-- the script discipline: a session is started at most once (what the harness enforces) -/
def startsOnce : List SSlot → List Step → Bool
  | _, [] => true
  | σ, .start sid :: rest =>
      σ.all (fun y => decide (y.sid ≠ sid) || !y.started) && startsOnce (sStep σ (.start sid)) rest
  | σ, .send sid n :: rest => startsOnce (sStep σ (.send sid n)) rest
  | σ, .soft sid :: rest => startsOnce (sStep σ (.soft sid)) rest
  | σ, .wfail sid :: rest => startsOnce (sStep σ (.wfail sid)) rest
  | σ, .close sid e :: rest => startsOnce (sStep σ (.close sid e)) rest
  | σ, .snap :: rest => startsOnce σ rest

/-- `startsOnce` looks only at which sessions have been started -/
def keyOf (σ : List SSlot) : List (Nat × Bool) := σ.map (fun y => (y.sid, y.started))

def keyStep : List (Nat × Bool) → Step → List (Nat × Bool)
  | k, .start sid => k.map (fun e => (e.1, if e.1 = sid then true else e.2))
  | k, _ => k

theorem keyOf_sStep (σ : List SSlot) (st : Step) : keyOf (sStep σ st) = keyStep (keyOf σ) st := by
  cases st with
  | start sid =>
    simp only [sStep, keyOf, keyStep, List.map_map]
    apply List.map_congr_left
    intro y _
    simp only [Function.comp]
    split <;> simp_all
  | send sid n =>
    simp only [sStep, keyOf, keyStep, List.map_map]
    apply List.map_congr_left
    intro y _
    simp only [Function.comp]
    split <;> rfl
  | close sid e =>
    simp only [sStep, keyOf, keyStep, List.map_map]
    apply List.map_congr_left
    intro y _
    simp only [Function.comp]
    split <;> rfl
  | soft sid => rfl
  | wfail sid => rfl
  | snap => rfl

theorem keyOf_markUp (s : Snap) (σ : List SSlot) : keyOf (markUp s σ) = keyOf σ := by
  simp only [markUp, keyOf, List.map_map]
  apply List.map_congr_left
  intro y _
  simp only [Function.comp]
  split <;> rfl

theorem startsOnce_congr (steps : List Step) : ∀ (σ σ' : List SSlot), keyOf σ = keyOf σ' →
    startsOnce σ steps = startsOnce σ' steps := by
  induction steps with
  | nil => intro _ _ _; rfl
  | cons st rest ih =>
    intro σ σ' hk
    have hstep : keyOf (sStep σ st) = keyOf (sStep σ' st) := by rw [keyOf_sStep, keyOf_sStep, hk]
    cases st with
    | start sid =>
      simp only [startsOnce]
      rw [ih _ _ hstep]
      have hall : ∀ τ : List SSlot, τ.all (fun y => decide (y.sid ≠ sid) || !y.started)
          = (keyOf τ).all (fun e => decide (e.1 ≠ sid) || !e.2) := by
        intro τ; simp [keyOf, List.all_map, Function.comp_def]
      rw [hall σ, hall σ', hk]
    | send sid n => simp only [startsOnce]; exact ih _ _ hstep
    | soft sid => simp only [startsOnce]; exact ih _ _ hstep
    | wfail sid => simp only [startsOnce]; exact ih _ _ hstep
    | close sid e => simp only [startsOnce]; exact ih _ _ hstep
    | snap => simp only [startsOnce]; exact ih _ _ hk

theorem startsOnce_markUp (s : Snap) (steps : List Step) (σ : List SSlot)
    (h : startsOnce σ steps = true) : startsOnce (markUp s σ) steps = true := by
  rw [startsOnce_congr steps (markUp s σ) σ (keyOf_markUp s σ)]; exact h

structure CaseWF (c : Case) : Prop where
  nodup : (c.streams.map (·.sid)).Nodup
  wf : ∀ d ∈ c.streams, ∀ p ∈ d.pdus, PduWF p
  starts : startsOnce (initSlots c) c.steps = true

theorem all2_map {α β γ : Type} {r : β → γ → Prop} (f : α → β) (g : α → γ) (l : List α)
    (h : ∀ a ∈ l, r (f a) (g a)) : All2 r (l.map f) (l.map g) := by
  induction l with
  | nil => exact All2.nil
  | cons a as ih =>
    exact All2.cons (h a (by simp)) (ih (fun b hb => h b (by simp [hb])))

theorem good_init (c : Case) (h : CaseWF c) : Good (World.init c) (initSlots c) [] := by
  refine ⟨TableInv.empty, R.empty, ?_, ?_, fun v hv => by cases hv⟩
  · simp only [World.init, initSlots]
    apply all2_map
    intro d hd
    exact ⟨rfl, rfl, h.wf d hd, by simp [encodeAll], Nat.zero_le _, rfl,
      fun _ => ⟨rfl, rfl, fun v hv => by cases hv⟩, fun cl hc => by cases hc⟩
  · simp only [initSlots, List.map_map]
    exact h.nodup

theorem run_sim (steps : List Step) : ∀ (w : World) (σ : List SSlot) (S : List Vrp) (i : Nat),
    Good w σ S → startsOnce σ steps = true →
    ∃ obs, runSteps w steps = .ok obs ∧ checkFrom i σ steps obs = .ok := by
  induction steps with
  | nil => intro w σ S i _ _; exact ⟨[], rfl, rfl⟩
  | cons st rest ih =>
    intro w σ S i hg hso
    cases st with
    | snap =>
      obtain ⟨s, hs, hc⟩ := checkSnap_ok hg
      have hso' : startsOnce (markUp s σ) rest = true := by
        simp only [startsOnce] at hso
        exact startsOnce_markUp s rest σ hso
      obtain ⟨obs, hrun, hchk⟩ := ih w (markUp s σ) S (i + 1) (good_markUp hg s) hso'
      exact ⟨s :: obs, by simp [runSteps, hs, hrun], by simp [checkFrom, hc, hchk]⟩
    | start sid =>
      simp only [startsOnce, Bool.and_eq_true, List.all_eq_true, Bool.or_eq_true, decide_eq_true_eq,
        Bool.not_eq_true'] at hso
      have hpre : stepPre σ (.start sid) := by
        intro y hy hsid
        rcases hso.1 y hy with h | h
        · exact absurd hsid h
        · exact h
      obtain ⟨S', hg'⟩ := step_good hg (.start sid) hpre
      obtain ⟨obs, hrun, hchk⟩ := ih _ _ S' (i + 1) hg' hso.2
      exact ⟨obs, by simpa [runSteps] using hrun, by simpa [checkFrom] using hchk⟩
    | send sid n =>
      obtain ⟨S', hg'⟩ := step_good hg (.send sid n) trivial
      obtain ⟨obs, hrun, hchk⟩ := ih _ _ S' (i + 1) hg' (by simpa [startsOnce] using hso)
      exact ⟨obs, by simpa [runSteps] using hrun, by simpa [checkFrom] using hchk⟩
    | soft sid =>
      obtain ⟨S', hg'⟩ := step_good hg (.soft sid) trivial
      obtain ⟨obs, hrun, hchk⟩ := ih _ _ S' (i + 1) hg' (by simpa [startsOnce] using hso)
      exact ⟨obs, by simpa [runSteps] using hrun, by simpa [checkFrom] using hchk⟩
    | wfail sid =>
      obtain ⟨S', hg'⟩ := step_good hg (.wfail sid) trivial
      obtain ⟨obs, hrun, hchk⟩ := ih _ _ S' (i + 1) hg' (by simpa [startsOnce] using hso)
      exact ⟨obs, by simpa [runSteps] using hrun, by simpa [checkFrom] using hchk⟩
    | close sid e =>
      obtain ⟨S', hg'⟩ := step_good hg (.close sid e) trivial
      obtain ⟨obs, hrun, hchk⟩ := ih _ _ S' (i + 1) hg' (by simpa [startsOnce] using hso)
      exact ⟨obs, by simpa [runSteps] using hrun, by simpa [checkFrom] using hchk⟩

theorem check_run_ok (c : Case) (h : CaseWF c) : Spec.check c (run c) = .ok := by
  obtain ⟨obs, hrun, hchk⟩ := run_sim c.steps (World.init c) (initSlots c) [] 0 (good_init c h) h.starts
  simp [run, hrun, Spec.check, hchk]

end Rbgp.Rtr
