/- Rbgp.Rtr.Sess — one RTR session against the fold of its PDUs (C13 helper lemmas):
   `process` follows `foldPdu` on conforming PDUs, the PDU loop on a buffer aligned to a PDU
   boundary, and the effect of arbitrary input on the table (set refinement, framing, clean-up). -/
import Rbgp.Rtr.Frame
namespace Rbgp.Rtr
open Rbgp.Rpki Rbgp.Rtr.Spec
open Rbgp.Rpki.Spec (Vrp vrpOf sIns sRem sDrop sReset)

/-! ## one session against the fold -/

def vrpsOf (src : Src) (v : List (Net × Nat × Nat)) : List Vrp :=
  v.map (fun e => vrpOf src e.1 e.2.1 e.2.2)

/-- the session's state `c`, the global VRP set `S` and the fold `f` of the PDUs processed so far -/
structure Link (c : Sess) (S : List Vrp) (f : Fold) : Prop where
  inReset : f.inReset = !c.eod
  pending : f.ok = true → ∀ x, x ∈ f.pending ↔ x ∈ vrpsOf c.src c.v
  installed : f.ok = true → ∀ x, x ∈ f.installed ↔ (x ∈ S ∧ x.cache = c.src)
  serial : ∀ n, f.lastEod = some n → c.serial = n
  vwf : ∀ e ∈ c.v, NetWF e.1

/-- what a step on session `src` may change in the global set -/
structure Frame (src : Src) (S S' : List Vrp) : Prop where
  other : ∀ x, x.cache ≠ src → (x ∈ S' ↔ x ∈ S)
  owned : ∀ x, x ∈ S' → x ∈ S ∨ x.cache = src

theorem Frame.refl (src : Src) (S : List Vrp) : Frame src S S :=
  ⟨fun _ _ => Iff.rfl, fun _ h => Or.inl h⟩

theorem Frame.trans {src : Src} {S S' S'' : List Vrp} (h1 : Frame src S S') (h2 : Frame src S' S'') :
    Frame src S S'' :=
  ⟨fun x hx => (h2.other x hx).trans (h1.other x hx),
   fun x hx => by
     rcases h2.owned x hx with h | h
     · exact h1.owned x h
     · exact Or.inr h⟩

theorem sIns_mem' (s : List Vrp) (v x : Vrp) : x ∈ sIns s v ↔ x ∈ s ∨ x = v := by
  unfold sIns
  split
  · rename_i h
    constructor
    · exact Or.inl
    · rintro (h' | rfl)
      · exact h'
      · exact h
  · simp

theorem sRem_mem' (s : List Vrp) (v x : Vrp) : x ∈ sRem s v ↔ x ∈ s ∧ x ≠ v := by simp [sRem]
theorem sDrop_mem' (s : List Vrp) (c : Src) (x : Vrp) : x ∈ sDrop s c ↔ x ∈ s ∧ x.cache ≠ c := by
  simp [sDrop]

theorem sReset_mem (s : List Vrp) (c : Src) (vs : List (Net × Nat × Nat)) (x : Vrp) :
    x ∈ sReset s c vs ↔ (x ∈ s ∧ x.cache ≠ c) ∨ x ∈ vrpsOf c vs := by
  simp only [sReset]
  have : ∀ (vs : List (Net × Nat × Nat)) (s0 : List Vrp),
      x ∈ vs.foldl (fun s v => sIns s (vrpOf c v.1 v.2.1 v.2.2)) s0 ↔ x ∈ s0 ∨ x ∈ vrpsOf c vs := by
    intro vs
    induction vs with
    | nil => intro s0; simp [vrpsOf]
    | cons v vs ih =>
      intro s0
      simp only [List.foldl_cons, ih, sIns_mem', vrpsOf, List.map_cons, List.mem_cons] at *
      constructor
      · rintro ((h | h) | h)
        · exact Or.inl h
        · exact Or.inr (Or.inl h)
        · exact Or.inr (Or.inr h)
      · rintro (h | h | h)
        · exact Or.inl (Or.inl h)
        · exact Or.inl (Or.inr h)
        · exact Or.inr h
  rw [this, sDrop_mem']

theorem vrpOf_cache (c : Src) (n : Net) (ml a : Nat) : (vrpOf c n ml a).cache = c := rfl

theorem mem_vrpsOf_cache {src : Src} {v : List (Net × Nat × Nat)} {x : Vrp} (h : x ∈ vrpsOf src v) :
    x.cache = src := by
  simp only [vrpsOf, List.mem_map] at h
  obtain ⟨e, _, rfl⟩ := h
  rfl

/-- the table and set after one message, with everything the later proofs need -/
structure StepOK (c c' : Sess) (t' : Table) (S' S : List Vrp) : Prop where
  inv : TableInv t'
  rel : R t' S'
  frame : Frame c.src S S'
  src : c'.src = c.src
  buf : c'.buf = c.buf
  done : c'.done = c.done

theorem netWF_v4 {a : List Nat} (hl : a.length = 4) (hb : Bytes a) (l : Nat) : NetWF ⟨.v4, a, l⟩ :=
  ⟨by simp [hl, Fam.nbytes], hb⟩
theorem netWF_v6 {a : List Nat} (hl : a.length = 16) (hb : Bytes a) (l : Nat) : NetWF ⟨.v6, a, l⟩ :=
  ⟨by simp [hl, Fam.nbytes], hb⟩

/-- prefix PDUs -/
theorem handle_prefix (c : Sess) (t : Table) (S : List Vrp) (f : Fold) (hi : TableInv t) (hr : R t S)
    (hl : Link c S f) (net : Net) (hn : NetWF net) (flags ml asn : Nat) :
    ∃ S', StepOK c (handle c t (.ipPrefix net flags ml asn)).1 (handle c t (.ipPrefix net flags ml asn)).2 S' S ∧
      Link (handle c t (.ipPrefix net flags ml asn)).1 S'
        (prefixFold f (vrpOf c.src net ml asn) (flags % 2 = 1)) := by
  by_cases hann : flags % 2 = 1
  · by_cases he : c.eod = true
    · -- announce in a serial round
      obtain ⟨hi', hr'⟩ := insert_spec hi hr hn ⟨ml, asn, c.src⟩
      refine ⟨sIns S (vrpOf c.src net ml asn), ?_, ?_⟩
      · simp only [handle, hann, he, if_true]
        refine ⟨hi', hr', ⟨fun x hx => ?_, fun x hx => ?_⟩, rfl, rfl, rfl⟩
        · rw [sIns_mem']
          constructor
          · rintro (h | rfl)
            · exact h
            · exact absurd rfl hx
          · exact Or.inl
        · rcases (sIns_mem' _ _ _).1 hx with h | rfl
          · exact Or.inl h
          · exact Or.inr rfl
      · have hir : f.inReset = false := by rw [hl.inReset, he]; rfl
        simp only [handle, hann, he, if_true, prefixFold, hir, Bool.false_eq_true, if_false, decide_true]
        refine ⟨by simp [he], hl.pending, fun hok x => ?_, by simp, hl.vwf⟩
        rw [sIns_mem', sIns_mem', hl.installed hok]
        constructor
        · rintro (⟨h1, h2⟩ | rfl)
          · exact ⟨Or.inl h1, h2⟩
          · exact ⟨Or.inr rfl, rfl⟩
        · rintro ⟨h1 | rfl, h2⟩
          · exact Or.inl ⟨h1, h2⟩
          · exact Or.inr rfl
    · -- announce inside a reset response: buffered
      have he' : c.eod = false := by simpa using he
      refine ⟨S, ?_, ?_⟩
      · simp only [handle, hann, he', if_true, Bool.false_eq_true, if_false]
        exact ⟨hi, hr, Frame.refl _ _, rfl, rfl, rfl⟩
      · have hir : f.inReset = true := by rw [hl.inReset, he']; rfl
        simp only [handle, hann, he', if_true, Bool.false_eq_true, if_false, prefixFold, hir, decide_true]
        refine ⟨by simp [he'], fun hok x => ?_, hl.installed, by simp, ?_⟩
        · rw [sIns_mem', hl.pending hok]
          simp [vrpsOf]
        · intro e he
          simp only [List.mem_append, List.mem_singleton] at he
          rcases he with he | rfl
          · exact hl.vwf e he
          · exact hn
  · by_cases he : c.eod = true
    · -- withdrawal in a serial round
      obtain ⟨hi', hr'⟩ := remove_spec hi hr hn ⟨ml, asn, c.src⟩
      refine ⟨sRem S (vrpOf c.src net ml asn), ?_, ?_⟩
      · simp only [handle, hann, he, if_true, if_false]
        refine ⟨hi', hr', ⟨fun x hx => ?_, fun x hx => ?_⟩, rfl, rfl, rfl⟩
        · rw [sRem_mem']
          constructor
          · exact fun h => h.1
          · intro h; exact ⟨h, fun heq => hx (heq ▸ rfl)⟩
        · exact Or.inl ((sRem_mem' _ _ _).1 hx).1
      · have hir : f.inReset = false := by rw [hl.inReset, he]; rfl
        simp only [handle, hann, he, if_true, if_false, prefixFold, hir, Bool.false_eq_true, decide_false]
        refine ⟨by simp [he], hl.pending, fun hok x => ?_, by simp, hl.vwf⟩
        rw [sRem_mem', sRem_mem', hl.installed hok]
        constructor
        · rintro ⟨⟨h1, h2⟩, h3⟩; exact ⟨⟨h1, h3⟩, h2⟩
        · rintro ⟨⟨h1, h3⟩, h2⟩; exact ⟨⟨h1, h2⟩, h3⟩
    · -- withdrawal inside a reset response: ignored by the code, outside the quantifier
      have he' : c.eod = false := by simpa using he
      refine ⟨S, ?_, ?_⟩
      · simp only [handle, hann, he', if_false, Bool.false_eq_true]
        exact ⟨hi, hr, Frame.refl _ _, rfl, rfl, rfl⟩
      · have hir : f.inReset = true := by rw [hl.inReset, he']; rfl
        simp only [handle, hann, he', if_false, Bool.false_eq_true, prefixFold, hir, if_true, decide_false]
        exact ⟨by simp [he'], by simp, by simp, by simp, hl.vwf⟩

/-- every conforming PDU: the client's step matches the fold's step -/
theorem handle_pdu (c : Sess) (t : Table) (S : List Vrp) (f : Fold) (hi : TableInv t) (hr : R t S)
    (hl : Link c S f) (p : Pdu) (hc : conforming p = true) (hw : PduWF p) :
    ∃ S', StepOK c (handle c t (msgOf p)).1 (handle c t (msgOf p)).2 S' S ∧
      Link (handle c t (msgOf p)).1 S' (foldPdu c.src f p) := by
  cases p with
  | junk b => simp [conforming] at hc
  | p4 v fl l m a n =>
    obtain ⟨_, _, _, _, hla, hba, _⟩ := hw
    exact handle_prefix c t S f hi hr hl ⟨.v4, a, l⟩ (netWF_v4 hla hba l) fl m n
  | p6 v fl l m a n =>
    obtain ⟨_, _, _, _, hla, hba, _⟩ := hw
    exact handle_prefix c t S f hi hr hl ⟨.v6, a, l⟩ (netWF_v6 hla hba l) fl m n
  | cr v s =>
    refine ⟨S, ⟨hi, hr, Frame.refl _ _, rfl, rfl, rfl⟩, ?_⟩
    simp only [msgOf, handle, foldPdu]
    exact ⟨hl.inReset, hl.pending, hl.installed, by simp, hl.vwf⟩
  | err v cd b =>
    refine ⟨S, ⟨hi, hr, Frame.refl _ _, rfl, rfl, rfl⟩, ?_⟩
    simp only [msgOf, handle, foldPdu]
    exact ⟨hl.inReset, hl.pending, hl.installed, by simp, hl.vwf⟩
  | raw v ty s b =>
    refine ⟨S, ⟨hi, hr, Frame.refl _ _, rfl, rfl, rfl⟩, ?_⟩
    simp only [msgOf, handle, foldPdu]
    exact ⟨hl.inReset, hl.pending, hl.installed, by simp, hl.vwf⟩
  | notify v s n =>
    simp only [msgOf, handle, foldPdu]
    split
    · exact ⟨S, ⟨hi, hr, Frame.refl _ _, rfl, rfl, rfl⟩, ⟨hl.inReset, hl.pending, hl.installed, by simp, hl.vwf⟩⟩
    · exact ⟨S, ⟨hi, hr, Frame.refl _ _, rfl, rfl, rfl⟩, ⟨hl.inReset, hl.pending, hl.installed, by simp, hl.vwf⟩⟩
  | creset v =>
    refine ⟨S, ⟨hi, hr, Frame.refl _ _, rfl, rfl, rfl⟩, ?_⟩
    simp only [msgOf, handle, foldPdu]
    exact ⟨by simp, by simp [vrpsOf], hl.installed, by simp, by simp⟩
  | eod v s n =>
    simp only [msgOf, handle, foldPdu]
    by_cases he : c.eod = true
    · have hir : f.inReset = false := by rw [hl.inReset, he]; rfl
      simp only [he, Bool.not_true, Bool.false_eq_true, if_false, hir]
      exact ⟨S, ⟨hi, hr, Frame.refl _ _, rfl, rfl, rfl⟩,
        ⟨by simp [hir, he], hl.pending, hl.installed, by simp, hl.vwf⟩⟩
    · have he' : c.eod = false := by simpa using he
      have hir : f.inReset = true := by rw [hl.inReset, he']; rfl
      obtain ⟨hi', hr'⟩ := reset_spec hi hr c.src c.v hl.vwf
      simp only [he', Bool.not_false, if_true, hir]
      refine ⟨sReset S c.src c.v, ⟨hi', hr', ⟨fun x hx => ?_, fun x hx => ?_⟩, rfl, rfl, rfl⟩, ?_⟩
      · rw [sReset_mem]
        constructor
        · rintro (h | h)
          · exact h.1
          · exact absurd (mem_vrpsOf_cache h) hx
        · intro h; exact Or.inl ⟨h, hx⟩
      · rcases (sReset_mem _ _ _ _).1 hx with h | h
        · exact Or.inl h.1
        · exact Or.inr (mem_vrpsOf_cache h)
      · refine ⟨by simp, by simp [vrpsOf], fun hok x => ?_, by simp, by simp⟩
        simp only
        rw [hl.pending hok, sReset_mem]
        constructor
        · intro h; exact ⟨Or.inr h, mem_vrpsOf_cache h⟩
        · rintro ⟨h | h, hc⟩
          · exact absurd hc h.2
          · exact h

theorem handle_rx (c : Sess) (t : Table) (m : Msg) : (handle c t m).1.rx = c.rx := by
  cases m <;> simp only [handle] <;> (repeat' split) <;> rfl

theorem counted_msgOf (p : Pdu) (hc : conforming p = true) : counted (msgOf p) = cntPdu p := by
  cases p <;> simp_all [conforming, msgOf, counted, cntPdu]

/-- `state.update` + the match: the step of the fold, and one more counted PDU -/
theorem process_pdu (c : Sess) (t : Table) (S : List Vrp) (f : Fold) (hi : TableInv t) (hr : R t S)
    (hl : Link c S f) (p : Pdu) (hc : conforming p = true) (hw : PduWF p) :
    ∃ S', StepOK c (process c t (msgOf p)).1 (process c t (msgOf p)).2 S' S ∧
      Link (process c t (msgOf p)).1 S' (foldPdu c.src f p) ∧
      (process c t (msgOf p)).1.rx = c.rx + cntPdu p := by
  have hl0 : Link { c with rx := c.rx + counted (msgOf p) } S f :=
    ⟨hl.inReset, hl.pending, hl.installed, hl.serial, hl.vwf⟩
  obtain ⟨S', hok, hlink⟩ := handle_pdu { c with rx := c.rx + counted (msgOf p) } t S f hi hr hl0 p hc hw
  refine ⟨S', ⟨hok.inv, hok.rel, hok.frame, hok.src, hok.buf, hok.done⟩, hlink, ?_⟩
  show (handle _ t (msgOf p)).1.rx = _
  rw [handle_rx, counted_msgOf p hc]

/-! ## the PDU loop on a buffer that starts at a PDU boundary -/

def encodeAll (ps : List Pdu) : List Nat := ps.flatMap Pdu.encode

/-- agreement on everything but the query log and the soft-reset permit -/
structure CoreEq (c c' : Sess) : Prop where
  src : c'.src = c.src
  buf : c'.buf = c.buf
  v : c'.v = c.v
  eod : c'.eod = c.eod
  serial : c'.serial = c.serial
  done : c'.done = c.done
  rx : c'.rx = c.rx

theorem Link.of_coreEq {c c' : Sess} {S : List Vrp} {f : Fold} (h : Link c S f) (e : CoreEq c c') :
    Link c' S f :=
  ⟨by rw [e.eod]; exact h.inReset, by rw [e.src, e.v]; exact h.pending,
   by rw [e.src]; exact h.installed, by rw [e.serial]; exact h.serial, by rw [e.v]; exact h.vwf⟩

theorem pump_incomplete (fuel : Nat) (c : Sess) (t : Table) (h : fromBytes c.buf = .incomplete) :
    (pump (fuel + 1) c t).2 = t ∧ CoreEq c (pump (fuel + 1) c t).1 := by
  simp only [pump, h]
  split
  · exact ⟨rfl, ⟨rfl, rfl, rfl, rfl, rfl, rfl, rfl⟩⟩
  · exact ⟨rfl, ⟨rfl, rfl, rfl, rfl, rfl, rfl, rfl⟩⟩

theorem pump_msg (fuel : Nat) (c : Sess) (t : Table) {m : Msg} {len : Nat}
    (h : fromBytes c.buf = .msg m len) :
    pump (fuel + 1) c t =
      pump fuel (process { c with buf := c.buf.drop len } t m).1
                (process { c with buf := c.buf.drop len } t m).2 := by
  simp only [pump, h]

theorem split_nil (n : Nat) : split [] n = ([], n, false) := rfl

theorem pump_aligned (ps : List Pdu) : ∀ (c : Sess) (t : Table) (S : List Vrp) (f : Fold)
    (rest : List Nat) (fuel : Nat),
    TableInv t → R t S → Link c S f → c.done = false → c.buf ++ rest = encodeAll ps →
    (∀ p ∈ ps, PduWF p) → c.buf.length + 1 ≤ fuel → (split ps c.buf.length).2.2 = false →
    ∃ S', TableInv (pump fuel c t).2 ∧ R (pump fuel c t).2 S' ∧ Frame c.src S S' ∧
      (pump fuel c t).1.src = c.src ∧ (pump fuel c t).1.done = false ∧
      (pump fuel c t).1.buf.length = (split ps c.buf.length).2.1 ∧
      (pump fuel c t).1.buf ++ rest = encodeAll (ps.drop (split ps c.buf.length).1.length) ∧
      Link (pump fuel c t).1 S' ((split ps c.buf.length).1.foldl (foldPdu c.src) f) ∧
      (pump fuel c t).1.rx = c.rx + seenOf (split ps c.buf.length).1 := by
  induction ps with
  | nil =>
    intro c t S f rest fuel hi hr hl hd hb _ hfuel _
    have hnil : c.buf = [] := by
      simp only [encodeAll, List.flatMap_nil, List.append_eq_nil_iff] at hb; exact hb.1
    obtain ⟨fuel', rfl⟩ : ∃ k, fuel = k + 1 := ⟨fuel - 1, by omega⟩
    have hinc : fromBytes c.buf = .incomplete := by rw [hnil]; rfl
    obtain ⟨ht, he⟩ := pump_incomplete fuel' c t hinc
    refine ⟨S, by rw [ht]; exact hi, by rw [ht]; exact hr, Frame.refl _ _, he.src, by rw [he.done]; exact hd,
      by rw [he.buf, hnil]; rfl, by rw [he.buf]; simpa [hnil, split_nil] using hb, ?_⟩
    exact ⟨by simpa [hnil, split_nil] using hl.of_coreEq he, by rw [he.rx]; simp [hnil, split_nil, seenOf]⟩
  | cons p ps ih =>
    intro c t S f rest fuel hi hr hl hd hb hwf hfuel hclean
    obtain ⟨fuel', rfl⟩ : ∃ k, fuel = k + 1 := ⟨fuel - 1, by omega⟩
    have hwp : PduWF p := hwf p (by simp)
    have hwps : ∀ q ∈ ps, PduWF q := fun q hq => hwf q (by simp [hq])
    by_cases h0 : c.buf.length = 0
    · -- nothing buffered
      have hnil : c.buf = [] := List.length_eq_zero_iff.1 h0
      have hinc : fromBytes c.buf = .incomplete := by rw [hnil]; rfl
      obtain ⟨ht, he⟩ := pump_incomplete fuel' c t hinc
      have hs : split (p :: ps) c.buf.length = ([], 0, false) := by simp [split, h0]
      rw [hs]
      refine ⟨S, by rw [ht]; exact hi, by rw [ht]; exact hr, Frame.refl _ _, he.src,
        by rw [he.done]; exact hd, by rw [he.buf, hnil]; rfl, by rw [he.buf]; simpa using hb, ?_⟩
      exact ⟨by simpa using hl.of_coreEq he, by rw [he.rx]; simp [seenOf]⟩
    · have hconf : conforming p = true := by
        cases hcf : conforming p with
        | true => rfl
        | false =>
          exfalso
          have : (split (p :: ps) c.buf.length).2.2 = true := by simp [split, h0, hcf]
          rw [this] at hclean; cases hclean
      have hplen := encode_length p hconf hwp
      by_cases hlt : c.buf.length < pduLen p
      · -- a proper prefix of the next PDU: wait
        have hs : split (p :: ps) c.buf.length = ([], c.buf.length, false) := by
          simp [split, h0, hconf, hlt]
        have hpre : c.buf = p.encode.take c.buf.length := by
          have h1 : (c.buf ++ rest).take c.buf.length = c.buf := by simp
          rw [hb] at h1
          simp only [encodeAll, List.flatMap_cons] at h1
          rw [List.take_append_of_le_length (by omega)] at h1
          exact h1.symm
        have hinc : fromBytes c.buf = .incomplete := by
          rw [hpre]; exact fromBytes_encode_prefix p hconf hwp _ hlt
        obtain ⟨ht, he⟩ := pump_incomplete fuel' c t hinc
        rw [hs]
        refine ⟨S, by rw [ht]; exact hi, by rw [ht]; exact hr, Frame.refl _ _, he.src,
          by rw [he.done]; exact hd, by rw [he.buf], by rw [he.buf]; simpa using hb, ?_⟩
        exact ⟨by simpa using hl.of_coreEq he, by rw [he.rx]; simp [seenOf]⟩
      · -- a complete PDU is buffered
        have hge : pduLen p ≤ c.buf.length := by omega
        have hsplitB : c.buf = p.encode ++ c.buf.drop (pduLen p) := by
          have h1 : (c.buf ++ rest).take (pduLen p) = c.buf.take (pduLen p) := by
            rw [List.take_append_of_le_length hge]
          rw [hb] at h1
          simp only [encodeAll, List.flatMap_cons] at h1
          rw [← hplen, List.take_left'] at h1
          · conv => lhs; rw [← List.take_append_drop (pduLen p) c.buf]
            rw [← hplen, ← h1]
          · rfl
        have hdec : fromBytes c.buf = .msg (msgOf p) (pduLen p) := by
          rw [hsplitB]; exact fromBytes_encode p hconf hwp _
        rw [pump_msg fuel' c t hdec]
        have hl0 : Link { c with buf := c.buf.drop (pduLen p) } S f :=
          hl.of_coreEq ⟨rfl, rfl, rfl, rfl, rfl, rfl, rfl⟩ |> fun h =>
            ⟨h.inReset, h.pending, h.installed, h.serial, h.vwf⟩
        obtain ⟨S1, hok, hl1, hrx1⟩ := process_pdu { c with buf := c.buf.drop (pduLen p) } t S f hi hr hl0 p hconf hwp
        have hrest : (c.buf.drop (pduLen p)) ++ rest = encodeAll ps := by
          have h2 : (c.buf ++ rest).drop (pduLen p) = c.buf.drop (pduLen p) ++ rest := by
            rw [List.drop_append_of_le_length hge]
          rw [← h2, hb]
          simp only [encodeAll, List.flatMap_cons]
          rw [← hplen, List.drop_left']
          rfl
        have hlen8 : 8 ≤ pduLen p := by
          have := (fromBytes_msg_len hdec).1; exact this
        obtain ⟨S2, hi2, hr2, hf2, hsrc2, hdone2, hlen2, hbuf2, hl2, hrx2⟩ :=
          ih (process { c with buf := c.buf.drop (pduLen p) } t (msgOf p)).1
             (process { c with buf := c.buf.drop (pduLen p) } t (msgOf p)).2 S1 (foldPdu c.src f p) rest fuel'
             hok.inv hok.rel hl1 (by rw [hok.done]; exact hd) (by rw [hok.buf]; exact hrest) hwps
             (by rw [hok.buf]; simp only [List.length_drop]; omega)
             (by
               rw [hok.buf]
               have : (split (p :: ps) c.buf.length).2.2 = (split ps (c.buf.length - pduLen p)).2.2 := by
                 simp [split, h0, hconf, hlt]
               rw [this] at hclean
               simpa [List.length_drop] using hclean)
        have hs : split (p :: ps) c.buf.length =
            (p :: (split ps (c.buf.length - pduLen p)).1, (split ps (c.buf.length - pduLen p)).2.1,
              (split ps (c.buf.length - pduLen p)).2.2) := by
          simp [split, h0, hconf, hlt]
        rw [hs]
        rw [hok.buf] at hlen2 hbuf2 hl2 hrx2
        simp only [List.length_drop] at hlen2 hbuf2 hl2 hrx2
        rw [hok.src] at hf2 hsrc2 hl2
        refine ⟨S2, hi2, hr2, hok.frame.trans hf2, hsrc2, hdone2, hlen2, ?_, ?_, ?_⟩
        · simpa using hbuf2
        · simpa using hl2
        · rw [hrx2, hrx1]; simp only [seenOf]; omega

/-! ## any input: the table stays a set, other caches are untouched, a finished session leaves nothing -/

structure SessOK (c : Sess) : Prop where
  bytes : Bytes c.buf
  vwf : ∀ e ∈ c.v, NetWF e.1

def MsgWF : Msg → Prop
  | .ipPrefix net _ _ _ => NetWF net
  | _ => True

theorem getElem?_lt {b : List Nat} (hb : Bytes b) {i x : Nat} (h : b[i]? = some x) : x < 256 :=
  hb x (List.mem_of_getElem? h)

theorem parsePdu_wf {b : List Nat} (hb : Bytes b) {m : Msg} (h : parsePdu b = some m) : MsgWF m := by
  cases m with
  | ipPrefix net fl ml asn =>
    unfold parsePdu at h
    simp only [Option.bind_eq_bind, Option.pure_def, Option.bind_eq_some_iff] at h
    obtain ⟨version, _, ty, _, sess, _, len, _, h⟩ := h
    split at h
    all_goals try (simp [Option.bind_eq_some_iff] at h; done)
    · -- IPv4 prefix
      simp only [Option.bind_eq_some_iff, Option.some.injEq, Msg.ipPrefix.injEq] at h
      obtain ⟨_, _, _, _, _, _, _, _, a0, e12, a1, e13, a2, e14, a3, e15, _, _, hnet, _⟩ := h
      subst hnet
      refine ⟨rfl, ?_⟩
      intro x hx
      simp only [List.mem_cons, List.not_mem_nil, or_false] at hx
      rcases hx with rfl | rfl | rfl | rfl
      · exact getElem?_lt hb e12
      · exact getElem?_lt hb e13
      · exact getElem?_lt hb e14
      · exact getElem?_lt hb e15
    · -- IPv6 prefix
      simp only [Option.bind_eq_some_iff] at h
      obtain ⟨_, _, _, _, _, _, _, _, h⟩ := h
      split at h
      · cases h
      · rename_i hlen
        simp only [Option.bind_eq_some_iff, Option.some.injEq, Msg.ipPrefix.injEq] at h
        obtain ⟨_, _, hnet, _⟩ := h
        subst hnet
        refine ⟨by simpa [Fam.nbytes] using hlen, ?_⟩
        intro x hx
        exact hb x (List.mem_of_mem_drop (List.mem_of_mem_take hx))
    · -- End of Data is not a prefix
      simp only [Option.bind_eq_some_iff] at h
      obtain ⟨_, _, h⟩ := h
      split at h <;> simp [Option.bind_eq_some_iff] at h
  | _ => trivial

structure AnyOK (c c' : Sess) (t' : Table) (S S' : List Vrp) : Prop where
  inv : TableInv t'
  rel : R t' S'
  frame : Frame c.src S S'
  src : c'.src = c.src
  ok : SessOK c'
  cleared : c'.done = true → ∀ x ∈ S', x.cache ≠ c.src

theorem Bytes.drop {b : List Nat} (h : Bytes b) (n : Nat) : Bytes (b.drop n) :=
  fun x hx => h x (List.mem_of_mem_drop hx)
theorem Bytes.take {b : List Nat} (h : Bytes b) (n : Nat) : Bytes (b.take n) :=
  fun x hx => h x (List.mem_of_mem_take hx)
theorem Bytes.append {a b : List Nat} (ha : Bytes a) (hb : Bytes b) : Bytes (a ++ b) := by
  intro x hx
  rcases List.mem_append.1 hx with h | h
  · exact ha x h
  · exact hb x h

theorem frame_sIns (S : List Vrp) (v : Vrp) : Frame v.cache S (sIns S v) :=
  ⟨fun x hx => by
     rw [sIns_mem']
     exact ⟨fun h => h.elim id (fun h => absurd (h ▸ rfl) hx), Or.inl⟩,
   fun x hx => by
     rcases (sIns_mem' _ _ _).1 hx with h | rfl
     · exact Or.inl h
     · exact Or.inr rfl⟩

theorem frame_sRem (src : Src) (S : List Vrp) (v : Vrp) (hv : v.cache = src) : Frame src S (sRem S v) :=
  ⟨fun x hx => by
     rw [sRem_mem']
     exact ⟨fun h => h.1, fun h => ⟨h, fun heq => hx (heq ▸ hv)⟩⟩,
   fun x hx => Or.inl ((sRem_mem' _ _ _).1 hx).1⟩

theorem frame_sDrop (src : Src) (S : List Vrp) : Frame src S (sDrop S src) :=
  ⟨fun x hx => by rw [sDrop_mem']; exact ⟨fun h => h.1, fun h => ⟨h, hx⟩⟩,
   fun x hx => Or.inl ((sDrop_mem' _ _ _).1 hx).1⟩

theorem frame_sReset (src : Src) (S : List Vrp) (vs : List (Net × Nat × Nat)) :
    Frame src S (sReset S src vs) :=
  ⟨fun x hx => by
     rw [sReset_mem]
     constructor
     · rintro (h | h)
       · exact h.1
       · exact absurd (mem_vrpsOf_cache h) hx
     · intro h; exact Or.inl ⟨h, hx⟩,
   fun x hx => by
     rcases (sReset_mem _ _ _ _).1 hx with h | h
     · exact Or.inl h.1
     · exact Or.inr (mem_vrpsOf_cache h)⟩

/-- one message of any kind -/
theorem handle_any (c : Sess) (t : Table) (S : List Vrp) (hi : TableInv t) (hr : R t S)
    (hok : SessOK c) (hd : c.done = false) (m : Msg) (hm : MsgWF m) :
    ∃ S', AnyOK c (handle c t m).1 (handle c t m).2 S S' ∧ (handle c t m).1.done = false ∧
      (handle c t m).1.buf = c.buf := by
  have same : ∀ c' : Sess, c'.src = c.src → c'.buf = c.buf → c'.v = c.v → c'.done = c.done →
      ∃ S', AnyOK c c' t S S' ∧ c'.done = false ∧ c'.buf = c.buf := by
    intro c' h1 h2 h3 h4
    exact ⟨S, ⟨hi, hr, Frame.refl _ _, h1, ⟨by rw [h2]; exact hok.bytes, by rw [h3]; exact hok.vwf⟩,
      by rw [h4, hd]; intro h; cases h⟩, by rw [h4]; exact hd, h2⟩
  cases m with
  | serialNotify s n =>
    simp only [handle]
    split
    · exact same _ rfl rfl rfl rfl
    · exact same _ rfl rfl rfl rfl
  | serialQuery s n => exact same _ rfl rfl rfl rfl
  | resetQuery => exact same _ rfl rfl rfl rfl
  | cacheResponse s => exact same _ rfl rfl rfl rfl
  | errorReport cd => exact same _ rfl rfl rfl rfl
  | unsupported ty => exact same _ rfl rfl rfl rfl
  | cacheReset =>
    exact ⟨S, ⟨hi, hr, Frame.refl _ _, rfl, ⟨hok.bytes, by simp [handle]⟩,
      by simp only [handle]; rw [hd]; intro h; cases h⟩, hd, rfl⟩
  | endOfData s n =>
    by_cases he : c.eod = true
    · have hp : handle c t (.endOfData s n) = ({ c with serial := n }, t) := by simp [handle, he]
      rw [hp]
      exact same _ rfl rfl rfl rfl
    · have he' : c.eod = false := by simpa using he
      have hp : handle c t (.endOfData s n)
          = ({ c with serial := n, eod := true, v := [] }, t.reset c.src c.v) := by simp [handle, he']
      rw [hp]
      obtain ⟨hi', hr'⟩ := reset_spec hi hr c.src c.v hok.vwf
      exact ⟨_, ⟨hi', hr', frame_sReset _ _ _, rfl, ⟨hok.bytes, by simp⟩,
        by simp only; rw [hd]; intro h; cases h⟩, hd, rfl⟩
  | ipPrefix net fl ml asn =>
    have hn : NetWF net := hm
    by_cases hann : fl % 2 = 1
    · by_cases he : c.eod = true
      · have hp : handle c t (.ipPrefix net fl ml asn) = (c, t.insert net ⟨ml, asn, c.src⟩) := by
          simp [handle, hann, he]
        rw [hp]
        obtain ⟨hi', hr'⟩ := insert_spec hi hr hn ⟨ml, asn, c.src⟩
        exact ⟨_, ⟨hi', hr', frame_sIns S (vrpOf c.src net ml asn), rfl, hok,
          by rw [hd]; intro h; cases h⟩, hd, rfl⟩
      · have he' : c.eod = false := by simpa using he
        have hp : handle c t (.ipPrefix net fl ml asn) = ({ c with v := c.v ++ [(net, ml, asn)] }, t) := by
          simp [handle, hann, he']
        rw [hp]
        refine ⟨S, ⟨hi, hr, Frame.refl _ _, rfl, ⟨hok.bytes, ?_⟩, by simp only; rw [hd]; intro h; cases h⟩, hd, rfl⟩
        intro e he
        simp only [List.mem_append, List.mem_singleton] at he
        rcases he with he | rfl
        · exact hok.vwf e he
        · exact hn
    · by_cases he : c.eod = true
      · have hp : handle c t (.ipPrefix net fl ml asn) = (c, t.remove net ⟨ml, asn, c.src⟩) := by
          simp [handle, hann, he]
        rw [hp]
        obtain ⟨hi', hr'⟩ := remove_spec hi hr hn ⟨ml, asn, c.src⟩
        exact ⟨_, ⟨hi', hr', frame_sRem c.src S _ rfl, rfl, hok, by rw [hd]; intro h; cases h⟩, hd, rfl⟩
      · have he' : c.eod = false := by simpa using he
        have hp : handle c t (.ipPrefix net fl ml asn) = (c, t) := by simp [handle, hann, he']
        rw [hp]
        exact same _ rfl rfl rfl rfl

theorem process_any (c : Sess) (t : Table) (S : List Vrp) (hi : TableInv t) (hr : R t S)
    (hok : SessOK c) (hd : c.done = false) (m : Msg) (hm : MsgWF m) :
    ∃ S', AnyOK c (process c t m).1 (process c t m).2 S S' ∧ (process c t m).1.done = false ∧
      (process c t m).1.buf = c.buf := by
  obtain ⟨S', h, h1, h2⟩ := handle_any { c with rx := c.rx + counted m } t S hi hr ⟨hok.bytes, hok.vwf⟩ hd m hm
  exact ⟨S', ⟨h.inv, h.rel, h.frame, h.src, h.ok, h.cleared⟩, h1, h2⟩

theorem finish_any (c : Sess) (t : Table) (S : List Vrp) (hi : TableInv t) (hr : R t S) (hok : SessOK c) :
    AnyOK c (finish c t).1 (finish c t).2 S (sDrop S c.src) ∧ (finish c t).1.done = true := by
  obtain ⟨hi', hr'⟩ := drop_spec hi hr c.src
  refine ⟨⟨hi', hr', frame_sDrop _ _, rfl, ⟨hok.bytes, hok.vwf⟩, ?_⟩, rfl⟩
  intro _ x hx
  exact ((sDrop_mem' _ _ _).1 hx).2

theorem fromBytes_msg_wf {buf : List Nat} (hb : Bytes buf) {m : Msg} {len : Nat}
    (h : fromBytes buf = .msg m len) : MsgWF m := by
  unfold fromBytes at h
  split at h
  · cases h
  · split at h
    · split at h
      · cases h
      · split at h
        · cases h
        · split at h
          · cases h
          · split at h
            · rename_i hp
              cases h
              exact parsePdu_wf (Bytes.take hb _) hp
            · cases h
    · cases h

/-- the loop on any buffered input -/
theorem pump_any (fuel : Nat) : ∀ (c : Sess) (t : Table) (S : List Vrp), TableInv t → R t S →
    SessOK c → c.done = false →
    ∃ S', AnyOK c (pump fuel c t).1 (pump fuel c t).2 S S' := by
  induction fuel with
  | zero =>
    intro c t S hi hr hok hd
    exact ⟨S, ⟨hi, hr, Frame.refl _ _, rfl, hok, by simp only [pump]; rw [hd]; intro h; cases h⟩⟩
  | succ fuel ih =>
    intro c t S hi hr hok hd
    cases hdec : fromBytes c.buf with
    | incomplete =>
      obtain ⟨ht, he⟩ := pump_incomplete fuel c t hdec
      refine ⟨S, ⟨by rw [ht]; exact hi, by rw [ht]; exact hr, Frame.refl _ _, he.src,
        ⟨by rw [he.buf]; exact hok.bytes, by rw [he.v]; exact hok.vwf⟩, ?_⟩⟩
      rw [he.done, hd]; intro h; cases h
    | error =>
      have : pump (fuel + 1) c t = finish c t := by simp only [pump, hdec]
      rw [this]
      exact ⟨_, (finish_any c t S hi hr hok).1⟩
    | msg m len =>
      rw [pump_msg fuel c t hdec]
      have hok0 : SessOK { c with buf := c.buf.drop len } := ⟨Bytes.drop hok.bytes len, hok.vwf⟩
      obtain ⟨S1, h1, hd1, hb1⟩ := process_any { c with buf := c.buf.drop len } t S hi hr hok0 hd m
        (fromBytes_msg_wf hok.bytes hdec)
      obtain ⟨S2, h2⟩ := ih _ _ S1 h1.inv h1.rel h1.ok hd1
      have hsrc : (process { c with buf := c.buf.drop len } t m).1.src = c.src := h1.src
      refine ⟨S2, ⟨h2.inv, h2.rel, ?_, h2.src.trans hsrc, h2.ok, ?_⟩⟩
      · have := h2.frame; rw [hsrc] at this
        exact Frame.trans h1.frame this
      · have := h2.cleared; rw [hsrc] at this; exact this

end Rbgp.Rtr
