/- Rbgp.Rtr.Single — C13: one session fed a whole conforming stream in arbitrary fragments. -/
import Rbgp.Rtr.World
namespace Rbgp.Rtr
open Rbgp.Rpki Rbgp.Rtr.Spec
open Rbgp.Rpki.Spec (Vrp vrpOf sIns sRem sDrop sReset)

/-! ## one session fed a whole conforming stream in arbitrary fragments -/

theorem split_all (ps : List Pdu) (hc : ∀ p ∈ ps, conforming p = true) (hw : ∀ p ∈ ps, PduWF p) :
    split ps (total ps) = (ps, 0, false) := by
  induction ps with
  | nil => rfl
  | cons p ps ih =>
    have hp := hc p (by simp)
    have h8 : 8 ≤ pduLen p := by
      obtain ⟨v, ty, s, body, hf⟩ := encode_framed p hp (hw p (by simp))
      exact hf.lenLo
    have := ih (fun q hq => hc q (by simp [hq])) (fun q hq => hw q (by simp [hq]))
    simp only [total]
    rw [split_cons_pos p ps _ (by omega) hp (by omega)]
    have e : pduLen p + total ps - pduLen p = total ps := by omega
    rw [e, this]

/-- a non-`start` step list keeps the world good -/
theorem steps_good (steps : List Step) (hns : ∀ st ∈ steps, ∀ sid, st ≠ .start sid) :
    ∀ (w : World) (σ : List SSlot) (S : List Vrp), Good w σ S →
    ∃ S', Good (steps.foldl World.step w) (steps.foldl sStep σ) S' := by
  induction steps with
  | nil => intro w σ S hg; exact ⟨S, hg⟩
  | cons st rest ih =>
    intro w σ S hg
    have hpre : stepPre σ st := by
      cases st with
      | start sid => exact absurd rfl (hns (.start sid) (by simp) sid)
      | _ => trivial
    obtain ⟨S1, hg1⟩ := step_good hg st hpre
    exact ih (fun s hs => hns s (by simp [hs])) _ _ S1 hg1

def sends (sid : Nat) (ns : List Nat) : List Step := ns.map (Step.send sid)

theorem delivered_after_sends (sid : Nat) (y : SSlot) (hy : y.sid = sid) (hs : y.started = true) (ns : List Nat) :
    (sends sid ns).foldl sStep [y] =
      [{ y with delivered := ns.foldl (fun d n => min (d + n) (total y.pdus)) y.delivered }] := by
  induction ns generalizing y with
  | nil => rfl
  | cons n ns ih =>
    simp only [sends, List.map_cons, List.foldl_cons] at ih ⊢
    have : sStep [y] (.send sid n) = [{ y with delivered := min (y.delivered + n) (total y.pdus) }] := by
      simp [sStep, hy, hs]
    rw [this]
    exact ih { y with delivered := min (y.delivered + n) (total y.pdus) } hy hs

theorem foldl_min_total (tot : Nat) (ns : List Nat) : ∀ d, d ≤ tot → tot ≤ d + ns.sum →
    ns.foldl (fun d n => min (d + n) tot) d = tot := by
  induction ns with
  | nil => intro d h1 h2; simp at h2 ⊢; omega
  | cons n ns ih =>
    intro d h1 h2
    simp only [List.foldl_cons, List.sum_cons] at h2 ⊢
    exact ih _ (Nat.min_le_right _ _) (by omega)

def oneCase (sid cache : Nat) (ps : List Pdu) : Case := ⟨[⟨sid, cache, ps⟩], []⟩

/-- a fresh table, one cache, its session started and the stream delivered in fragments of the
    given sizes -/
def afterSends (sid cache : Nat) (ps : List Pdu) (ns : List Nat) : World :=
  (sends sid ns).foldl World.step ((World.init (oneCase sid cache ps)).step (.start sid))

theorem all2_singleton_right {α β : Type} {r : α → β → Prop} {as : List α} {b : β}
    (h : All2 r as [b]) : ∃ a, as = [a] ∧ r a b := by
  cases h with
  | cons hab htl =>
    cases htl
    exact ⟨_, rfl, hab⟩

theorem single_session (sid cache : Nat) (ps : List Pdu) (hw : ∀ p ∈ ps, PduWF p)
    (hc : ∀ p ∈ ps, conforming p = true) (ns : List Nat) (hsum : total ps ≤ ns.sum) :
    ∃ cl, (afterSends sid cache ps ns).slots.map (·.client) = [some cl] ∧ cl.done = false ∧ cl.buf = [] ∧
      ((specFold ⟨cache, sid⟩ ps).ok = true →
        ∀ v, v ∈ abs (afterSends sid cache ps ns).table ↔ v ∈ (specFold ⟨cache, sid⟩ ps).installed) ∧
      (∀ n, (specFold ⟨cache, sid⟩ ps).lastEod = some n → cl.serial = n) := by
  have hwf : CaseWF (oneCase sid cache ps) :=
    ⟨by simp [oneCase], by intro d hd p hp; simp [oneCase] at hd; subst hd; exact hw p hp, rfl⟩
  have hg0 := good_init _ hwf
  obtain ⟨S1, hg1⟩ := step_good hg0 (.start sid) (by
    intro y hy _
    simp [initSlots, oneCase] at hy
    subst hy; rfl)
  have hσ1 : sStep (initSlots (oneCase sid cache ps)) (.start sid)
      = [{ sid := sid, cache := cache, pdus := ps, started := true }] := by
    simp [sStep, initSlots, oneCase]
  rw [hσ1] at hg1
  obtain ⟨S2, hg2⟩ := steps_good (sends sid ns) (by
    intro st hst sid' he
    simp only [sends, List.mem_map] at hst
    obtain ⟨n, _, rfl⟩ := hst
    cases he) _ _ S1 hg1
  rw [delivered_after_sends sid _ rfl rfl ns] at hg2
  have hdel : ns.foldl (fun d n => min (d + n) (total ps)) 0 = total ps :=
    foldl_min_total (total ps) ns 0 (Nat.zero_le _) (by omega)
  simp only [hdel] at hg2
  obtain ⟨x, hxs, hrel⟩ := all2_singleton_right hg2.slots
  have hstart := hrel.started
  simp only at hstart
  obtain ⟨cl, hcl⟩ : ∃ cl, x.client = some cl := by
    cases hcx : x.client with
    | none => rw [hcx] at hstart; cases hstart
    | some cl => exact ⟨cl, rfl⟩
  have L := hrel.live cl hcl
  have hsplit : split ps (total ps) = (ps, 0, false) := split_all ps hc hw
  have hnd : cl.done = false := by
    cases hd : cl.done with
    | false => rfl
    | true =>
      rcases L.why hd with h | h
      · cases h
      · simp only [hsplit] at h; cases h
  have C := L.clean hnd (by simp only [hsplit])
  have hlen := C.len
  have hlink := C.link
  simp only [hsplit] at hlen hlink
  have hsrc : cl.src = ⟨cache, sid⟩ := by
    rw [L.src]
    have h1 := hrel.sid; have h2 := hrel.cache
    simp only at h1 h2
    simp [Slot.src, h1, h2]
  rw [hsrc] at hlink
  refine ⟨cl, ?_, hnd, List.length_eq_zero_iff.1 hlen, ?_, hlink.serial⟩
  · show (afterSends sid cache ps ns).slots.map (·.client) = [some cl]
    have : (afterSends sid cache ps ns).slots = [x] := hxs
    rw [this]; simp [hcl]
  · intro hok v
    have hmem : v ∈ abs (afterSends sid cache ps ns).table ↔ v ∈ S2 := hg2.rel.mem v
    rw [hmem, hlink.installed hok v]
    constructor
    · intro hv
      refine ⟨hv, ?_⟩
      obtain ⟨z, hz, _, hzs⟩ := hg2.owned v hv
      have : z = x := by
        have : (afterSends sid cache ps ns).slots = [x] := hxs
        change z ∈ (afterSends sid cache ps ns).slots at hz
        rw [this] at hz; simpa using hz
      subst this
      rw [hzs, ← L.src, hsrc]
    · exact fun h => h.1

end Rbgp.Rtr
