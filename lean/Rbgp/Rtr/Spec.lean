/-
  Rbgp.Rtr.Spec — C13 written from the property text as a reference checker over observations.
  Imports the model only for its *types* (`Pdu`, `Case`, `Step`, `Snap`) and the C12
  specification for VRPs as set elements; it calls no model function.

  * `foldPdu` is the fold of the cache's responses: the answer to a Reset Query (the first
    response of a session and the one after each Cache Reset) replaces the cache's set at its
    End of Data; the answer to a Serial Query adds announcements and removes withdrawals;
    every other PDU (Serial Notify, Error Report, Router Key, unknown types) changes nothing.
  * every row of the ROA table is attributed (by the harness, through the `Arc` it carries) to the
    session whose connection installed it; a row of no started session is an error
    (`vrp-of-unknown-session`).  Sessions on one cache address (hard reset, two caches on one
    host) are therefore judged separately.
  * at EVERY snapshot, for every live session fed only well-formed PDUs so far:
    the VRPs it had at its last End of Data, minus the withdrawals it has received since, must
    still be shown for it (`vrps-of-cache-lost`) — nothing another cache's session does, and no
    half-received response of its own, may remove them;
    if the bytes delivered end exactly at a PDU boundary, every PDU has been consumed
    (`pdus-not-consumed`, the receive counters of `RpkiState`) — progress, including on PDU types
    the client does not use and after the last End of Data;
    if that last PDU is an End of Data, the recorded serial is its serial
    (`end-of-data-not-processed`) and the VRPs shown for the session are exactly the fold's
    (`installed-differs-from-fold`, `installed-duplicate-vrp`).
  * a session fed only well-formed PDUs must still be up (`session-dropped-on-well-formed-stream`),
    except that it may end on receiving a complete Error Report with a fatal code (any but 2,
    RFC 8210 §10) - at that PDU, not some PDUs later: once a snapshot has shown it up with the
    report complete, that report excuses nothing;
    a session that has ended (EOF, cancellation, or the client gave up) is reported as ended
    and has left no VRP (`session-did-not-end`, `vrps-remain-after-session-end`).
-/
import Rbgp.Rtr.Model
import Rbgp.Rpki.Spec
namespace Rbgp.Rtr.Spec
open Rbgp.Rpki Rbgp.Rtr
open Rbgp.Rpki.Spec (Vrp vrpOf sIns sRem)

/-- PDU sizes (RFC 6810 / RFC 8210) -/
def pduLen : Pdu → Nat
  | .cr _ _ => 8
  | .p4 .. => 20
  | .p6 .. => 32
  | .eod v _ _ => if v ≥ 1 then 24 else 12
  | .notify .. => 12
  | .creset _ => 8
  | .err _ _ b => 8 + b.length
  | .raw _ _ _ b => 8 + b.length
  | .junk b => b.length

/-- a well-formed PDU whose meaning the property fixes: everything but raw bytes and `raw`
    spellings of the PDU types that have a meaning of their own -/
def conforming : Pdu → Bool
  | .junk _ => false
  | .raw _ ty _ b => !([0, 1, 2, 3, 4, 6, 7, 8, 10].contains ty) && 8 + b.length ≤ 65535
  | .err _ _ b => 8 + b.length ≤ 65535
  | _ => true

structure Fold where
  installed : List Vrp := []      -- what the cache has announced so far
  pending : List Vrp := []        -- the answer to a Reset Query being received
  inReset : Bool := true          -- the current response answers a Reset Query
  ok : Bool := true               -- no withdrawal inside a reset response (outside the quantifier)
  lastEod : Option Nat := none    -- serial of the End of Data, if that was the last PDU
  floor : List Vrp := []          -- VRPs that must still be installed whatever the client does with
                                  -- an unfinished response: the set at the last End of Data minus
                                  -- the withdrawals received since (nothing once a Cache Reset came)
  deriving Repr

def prefixFold (f : Fold) (v : Vrp) (announce : Bool) : Fold :=
  if f.inReset then
    if announce then { f with pending := sIns f.pending v, lastEod := none }
    else { f with ok := false, lastEod := none }
  else if announce then { f with installed := sIns f.installed v, lastEod := none }
  else { f with installed := sRem f.installed v, lastEod := none, floor := sRem f.floor v }

def foldPdu (c : Src) (f : Fold) : Pdu → Fold
  | .p4 _ flags len ml addr asn => prefixFold f (vrpOf c ⟨.v4, addr, len⟩ ml asn) (flags % 2 = 1)
  | .p6 _ flags len ml addr asn => prefixFold f (vrpOf c ⟨.v6, addr, len⟩ ml asn) (flags % 2 = 1)
  | .eod _ _ serial =>
      if f.inReset then
        { f with installed := f.pending, pending := [], inReset := false, lastEod := some serial, floor := f.pending }
      else { f with lastEod := some serial, floor := f.installed }
  | .creset _ => { f with inReset := true, pending := [], lastEod := none, floor := [] }
  | _ => { f with lastEod := none }

def specFold (c : Src) (pdus : List Pdu) : Fold := pdus.foldl (foldPdu c) {}

/-- PDU kinds the client keeps a receive counter for (everything it uses) -/
def cntPdu : Pdu → Nat
  | .cr .. => 1 | .p4 .. => 1 | .p6 .. => 1 | .eod .. => 1 | .notify .. => 1 | .creset _ => 1 | .err .. => 1
  | _ => 0

def seenOf : List Pdu → Nat
  | [] => 0
  | p :: ps => cntPdu p + seenOf ps

/-- an Error Report after which the client may give the session up: every code but 2,
    "No Data Available" (RFC 8210 §10: the router keeps the session and retries) -/
def fatalErr : Pdu → Bool
  | .err _ code _ => code ≠ 2
  | _ => false

/-- some COMPLETELY delivered fatal Error Report excuses a session end: the `j`-th completed PDU is
    one, and the session has never been seen up at a snapshot at which that PDU (`j + 1` PDUs) was
    complete.  `done` = the completed conforming PDUs, `j` = index of its head, `upSeen` = the
    largest number of completed PDUs at a snapshot that showed the session up. -/
def excused : List Pdu → Nat → Nat → Bool
  | [], _, _ => false
  | p :: ps, j, upSeen => (fatalErr p && upSeen ≤ j) || excused ps (j + 1) upSeen

/-- split a stream at `delivered` bytes: the whole conforming PDUs before that point, the number
    of further bytes delivered, and whether some byte of a non-conforming PDU was delivered -/
def split : List Pdu → Nat → List Pdu × Nat × Bool
  | [], n => ([], n, false)
  | p :: ps, n =>
      if n = 0 then ([], 0, false)
      else if !conforming p then ([], n, true)
      else if n < pduLen p then ([], n, false)
      else
        let (d, l, dirty) := split ps (n - pduLen p)
        (p :: d, l, dirty)

structure SSlot where
  sid : Nat
  cache : Nat
  pdus : List Pdu
  started : Bool := false
  closed : Bool := false
  delivered : Nat := 0
  upSeen : Nat := 0     -- most completed PDUs at a snapshot that showed this session up
  deriving Repr

def total : List Pdu → Nat
  | [] => 0
  | p :: ps => pduLen p + total ps

def sStep (σ : List SSlot) : Step → List SSlot
  | .start sid => σ.map fun x => if x.sid = sid then { x with started := true } else x
  | .send sid n => σ.map fun x =>
      if x.sid = sid ∧ x.started then { x with delivered := min (x.delivered + n) (total x.pdus) } else x
  | .soft _ => σ
  | .wfail _ => σ
  | .close sid _ => σ.map fun x => if x.sid = sid ∧ x.started then { x with closed := true } else x
  | .snap => σ

/-- the VRPs the snapshot attributes to session `c` (rows are labelled with the session whose
    connection installed them) -/
def shown (s : Snap) (c : Src) : List Vrp :=
  (s.roas.filter (fun r => r.1 = c.arc)).map (fun r => vrpOf c r.2.2.1 r.2.2.2.1 r.2.2.2.2)

def nodupB : List Vrp → Bool
  | [] => true
  | v :: vs => !(vs.contains v) && nodupB vs

def sameSet (a b : List Vrp) : Bool := a.all (· ∈ b) && b.all (· ∈ a)

def ended (s : Snap) (x : SSlot) : Bool := x.closed || s.done.contains x.sid

/-- judgement of one session at a snapshot -/
def checkSlot (s : Snap) (x : SSlot) : Option String :=
  if !x.started then none
  else if x.closed && !s.done.contains x.sid then some "session-did-not-end"
  else if ended s x then
    if !(shown s ⟨x.cache, x.sid⟩).isEmpty then some "vrps-remain-after-session-end" else none
  else
    let (done, left, dirty) := split x.pdus x.delivered
    if dirty then none
    else
      let f := specFold ⟨x.cache, x.sid⟩ done
      if !f.ok then none
      -- whatever another cache's session does, and wherever this one stands in a response
      else if !(f.floor.all (· ∈ shown s ⟨x.cache, x.sid⟩)) then some "vrps-of-cache-lost"
      else if left ≠ 0 then none
      -- exactly at a PDU boundary: every PDU so far has been consumed
      else if !(s.sess.any (fun e => e.1 = x.sid && e.2.2.2.1 = seenOf done)) then some "pdus-not-consumed"
      else
        match f.lastEod with
        | none => none
        | some serial =>
            if !(s.sess.any (fun e => e.1 = x.sid && e.2.1 = serial)) then some "end-of-data-not-processed"
            else if !nodupB (shown s ⟨x.cache, x.sid⟩) then some "installed-duplicate-vrp"
            else if !sameSet (shown s ⟨x.cache, x.sid⟩) f.installed then some "installed-differs-from-fold"
            else none

/-- a session that gave up although everything delivered was well-formed, unless it did so on
    receiving a fatal Error Report (and not some PDUs later) -/
def checkDropped (s : Snap) (x : SSlot) : Option String :=
  if x.started && !x.closed && s.done.contains x.sid && !(split x.pdus x.delivered).2.2
     && !excused (split x.pdus x.delivered).1 0 x.upSeen
  then some "session-dropped-on-well-formed-stream" else none

/-- every row belongs to a started session of the script -/
def checkRows (σ : List SSlot) (s : Snap) : Option String :=
  if s.roas.all (fun r => σ.any (fun x => x.sid = r.1 && x.started && x.cache = r.2.1)) then none
  else some "vrp-of-unknown-session"

/-- remember, for every session a snapshot shows up, how many PDUs were complete then -/
def markUp (s : Snap) (σ : List SSlot) : List SSlot :=
  σ.map fun x =>
    if x.started && !ended s x && !(split x.pdus x.delivered).2.2
    then { x with upSeen := max x.upSeen (split x.pdus x.delivered).1.length } else x

def firstSome : List (Option String) → Option String
  | [] => none
  | some c :: _ => some c
  | none :: rest => firstSome rest

def checkSnap (σ : List SSlot) (s : Snap) : Option String :=
  firstSome (checkRows σ s :: (σ.map (checkDropped s) ++ σ.map (checkSlot s)))

inductive Verdict where
  | ok
  | fail (step : Nat) (clause : String)
  deriving DecidableEq, Repr

def checkFrom : Nat → List SSlot → List Step → List Snap → Verdict
  | _, _, [], [] => .ok
  | i, _, [], _ :: _ => .fail i "observation-count"
  | i, σ, .snap :: rest, obs =>
      match obs with
      | [] => .fail i "observation-count"
      | s :: obs' =>
          match checkSnap σ s with
          | some c => .fail i c
          | none => checkFrom (i + 1) (markUp s σ) rest obs'
  | i, σ, .start sid :: rest, obs => checkFrom (i + 1) (sStep σ (.start sid)) rest obs
  | i, σ, .send sid n :: rest, obs => checkFrom (i + 1) (sStep σ (.send sid n)) rest obs
  | i, σ, .soft sid :: rest, obs => checkFrom (i + 1) (sStep σ (.soft sid)) rest obs
  | i, σ, .wfail sid :: rest, obs => checkFrom (i + 1) (sStep σ (.wfail sid)) rest obs
  | i, σ, .close sid e :: rest, obs => checkFrom (i + 1) (sStep σ (.close sid e)) rest obs

def initSlots (c : Case) : List SSlot := c.streams.map fun d => { sid := d.sid, cache := d.cache, pdus := d.pdus }

def check (c : Case) : Out (List Snap) → Verdict
  | .panic => .fail 0 "panic"
  | .ok obs => checkFrom 0 (initSlots c) c.steps obs

end Rbgp.Rtr.Spec
