/- Term encoding of C13 cases and observations (grammar: harness/daemon/rpki.rs). -/
import Rbgp.Term
import Rbgp.Rpki.Codec
import Rbgp.Rtr.Model
namespace Rbgp.Rtr.Codec
open Rbgp Rbgp.Term Rbgp.Rpki Rbgp.Rtr
open Rbgp.Rpki.Codec (natLe? netT netOf?)

def pduOf? : Term → Option Pdu
  | .list [.atom "cr", v, s] => do pure (.cr (← natLe? 255 v) (← natLe? 65535 s))
  | .list [.atom "p4", v, f, l, m, a, n] => do
      let a ← asBytes? a
      if a.length ≠ 4 then none
      pure (.p4 (← natLe? 255 v) (← natLe? 255 f) (← natLe? 255 l) (← natLe? 255 m) a (← natLe? 4294967295 n))
  | .list [.atom "p6", v, f, l, m, a, n] => do
      let a ← asBytes? a
      if a.length ≠ 16 then none
      pure (.p6 (← natLe? 255 v) (← natLe? 255 f) (← natLe? 255 l) (← natLe? 255 m) a (← natLe? 4294967295 n))
  | .list [.atom "eod", v, s, n] => do pure (.eod (← natLe? 255 v) (← natLe? 65535 s) (← natLe? 4294967295 n))
  | .list [.atom "notify", v, s, n] => do
      pure (.notify (← natLe? 255 v) (← natLe? 65535 s) (← natLe? 4294967295 n))
  | .list [.atom "creset", v] => do pure (.creset (← natLe? 255 v))
  | .list [.atom "err", v, c, b] => do pure (.err (← natLe? 255 v) (← natLe? 65535 c) (← asBytes? b))
  | .list [.atom "raw", v, t, s, b] => do
      pure (.raw (← natLe? 255 v) (← natLe? 255 t) (← natLe? 65535 s) (← asBytes? b))
  | .list [.atom "junk", b] => (asBytes? b).map .junk
  | _ => none

def streamOf? : Term → Option StreamDef
  | .list [sid, cache, .list pdus] => do
      pure ⟨(← natLe? 250 sid), (← natLe? 250 cache), (← pdus.mapM pduOf?)⟩
  | _ => none

def stepOf? : Term → Option Step
  | .list [.atom "snap"] => some .snap
  | .list [.atom "start", s] => (natLe? 250 s).map .start
  | .list [.atom "send", s, n] => do pure (.send (← natLe? 250 s) (← natLe? 1048576 n))
  | .list [.atom "sendq", s, n] => do pure (.send (← natLe? 250 s) (← natLe? 1048576 n))
  | .list [.atom "soft", s] => (natLe? 250 s).map .soft
  | .list [.atom "wfail", s] => (natLe? 250 s).map .wfail
  | .list [.atom "end", s, .atom "eof"] => (natLe? 250 s).map (fun s => .close s true)
  | .list [.atom "end", s, .atom "cancel"] => (natLe? 250 s).map (fun s => .close s false)
  | _ => none

def nodupNat : List Nat → Bool
  | [] => true
  | x :: xs => !xs.contains x && nodupNat xs

/-- the script discipline the harness enforces: known sids, one start, use after start -/
def stepsOK (sids : List Nat) : List Nat → List Step → Bool
  | _, [] => true
  | started, .snap :: rest => stepsOK sids started rest
  | started, .start s :: rest => sids.contains s && !started.contains s && stepsOK sids (s :: started) rest
  | started, .send s _ :: rest => started.contains s && stepsOK sids started rest
  | started, .soft s :: rest => started.contains s && stepsOK sids started rest
  | started, .wfail s :: rest => started.contains s && stepsOK sids started rest
  | started, .close s _ :: rest => started.contains s && stepsOK sids started rest

/-- `(sendq S N)` (bytes queued without running the client) must be followed at once by
    `(end S eof)`: the client then reads them and the end of stream in one go -/
def sendqOK : List Term → Bool
  | [] => true
  | .list [.atom "sendq", s, _] :: nxt :: rest =>
      (match nxt with
       | .list [.atom "end", s', .atom "eof"] => s == s'
       | _ => false) && sendqOK (nxt :: rest)
  | [.list [.atom "sendq", _, _]] => false
  | _ :: rest => sendqOK rest

inductive CaseT where
  | script (c : Case)
  | tcp (n : Nat)
  | tcpReset (n : Nat)
  | tcpReconnect (n : Nat)

def caseOf? : Term → Option CaseT
  | .list [.atom "case-tcp", n] => (natLe? 64 n).map .tcp
  | .list [.atom "case-tcp-reset", n] => (natLe? 64 n).map .tcpReset
  | .list [.atom "case-tcp-reconnect", n] => (natLe? 64 n).map .tcpReconnect
  | .list [.atom "case", .list (.atom "streams" :: ss), .list (.atom "steps" :: stT)] => do
      let ss ← ss.mapM streamOf?
      let st ← stT.mapM stepOf?
      let sids := ss.map (·.sid)
      if nodupNat sids && stepsOK sids [] st && sendqOK stT then some (.script ⟨ss, st⟩) else none
  | _ => none

def queryT : Query → Term
  | .reset => sym "reset"
  | .serial s n => tag "serial" [nat s, nat n]
def queryOf? : Term → Option Query
  | .atom "reset" => some .reset
  | .list [.atom "serial", s, n] => do pure (.serial (← asNat? s) (← asNat? n))
  | _ => none

def snapT (s : Snap) : Term :=
  tag "snap" [
    tag "roas" (s.roas.map fun r => list [nat r.1, nat r.2.1, netT r.2.2.1, nat r.2.2.2.1, nat r.2.2.2.2]),
    tag "sess" (s.sess.map fun x =>
      list [nat x.1, nat x.2.1, nat x.2.2.1, nat x.2.2.2.1, list (x.2.2.2.2.map queryT)]),
    tag "done" (s.done.map nat)]

def snapOf? : Term → Option Snap
  | .list [.atom "snap", .list (.atom "roas" :: rs), .list (.atom "sess" :: ss), .list (.atom "done" :: ds)] => do
      let rs ← rs.mapM fun
        | .list [sd, c, n, ml, a] => do
            pure ((← asNat? sd), (← asNat? c), (← netOf? n), (← asNat? ml), (← asNat? a))
        | _ => none
      let ss ← ss.mapM fun
        | .list [sid, ser, sess, rx, .list qs] => do
            pure ((← asNat? sid), (← asNat? ser), (← asNat? sess), (← asNat? rx), (← qs.mapM queryOf?))
        | _ => none
      let ds ← ds.mapM asNat?
      pure ⟨rs, ss, ds⟩
  | _ => none

def outT : Out (List Snap) → Term
  | .panic => list [sym "panic"]
  | .ok l => tag "obs" (l.map snapT)
def outOf? : Term → Option (Out (List Snap))
  | .list [.atom "panic"] => some .panic
  | .list (.atom "obs" :: l) => (l.mapM snapOf?).map .ok
  | _ => none

def tcpT (n : Nat) : Term := tag "tcp" (List.replicate n (sym "cleared"))
def tcpResetT (n : Nat) : Term := tag "tcp-reset" (List.replicate n (sym "ok"))
def tcpReconnectT (n : Nat) : Term := tag "tcp-reconnect" (List.replicate n (sym "ok"))

end Rbgp.Rtr.Codec
