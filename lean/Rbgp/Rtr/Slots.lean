/- Rbgp.Rtr.Slots — one script session against its specification slot (C13 helper lemmas):
   `split` arithmetic, the slot relation, and the start / send / soft / close steps. -/
import Rbgp.Rtr.Sess
namespace Rbgp.Rtr
open Rbgp.Rpki Rbgp.Rtr.Spec
open Rbgp.Rpki.Spec (Vrp vrpOf sIns sRem sDrop sReset)

/-! ## `split` -/

theorem split_zero (ps : List Pdu) : split ps 0 = ([], 0, false) := by
  cases ps <;> simp [split]

theorem split_cons_pos (p : Pdu) (ps : List Pdu) (n : Nat) (h0 : n ≠ 0) (hc : conforming p = true)
    (hge : pduLen p ≤ n) :
    split (p :: ps) n = (p :: (split ps (n - pduLen p)).1, (split ps (n - pduLen p)).2.1,
      (split ps (n - pduLen p)).2.2) := by
  have : ¬ n < pduLen p := by omega
  simp [split, h0, hc, this]

theorem split_dirty_mono (ps : List Pdu) : ∀ n n', (split ps n).2.2 = true → n ≤ n' →
    (split ps n').2.2 = true := by
  induction ps with
  | nil => intro n n' h; simp [split] at h
  | cons p ps ih =>
    intro n n' h hle
    by_cases h0 : n = 0
    · subst h0; rw [split_zero] at h; cases h
    · have h0' : n' ≠ 0 := by omega
      cases hc : conforming p with
      | false => simp [split, h0', hc]
      | true =>
        by_cases hlt : n < pduLen p
        · simp [split, h0, hc, hlt] at h
        · rw [split_cons_pos p ps n h0 hc (by omega)] at h
          rw [split_cons_pos p ps n' h0' hc (by omega)]
          exact ih _ _ h (by omega)

/-- delivering `e` more bytes: the PDUs completed so far stay, the rest is split from where
    the buffer stood -/
theorem split_extend (ps : List Pdu) : ∀ n e, (split ps n).2.2 = false →
    split ps (n + e) =
      ((split ps n).1 ++ (split (ps.drop (split ps n).1.length) ((split ps n).2.1 + e)).1,
       (split (ps.drop (split ps n).1.length) ((split ps n).2.1 + e)).2.1,
       (split (ps.drop (split ps n).1.length) ((split ps n).2.1 + e)).2.2) := by
  induction ps with
  | nil => intro n e _; simp [split]
  | cons p ps ih =>
    intro n e hcl
    by_cases h0 : n = 0
    · subst h0; simp [split_zero]
    · cases hc : conforming p with
      | false => simp [split, h0, hc] at hcl
      | true =>
        by_cases hlt : n < pduLen p
        · have : split (p :: ps) n = ([], n, false) := by simp [split, h0, hc, hlt]
          simp [this]
        · have hs := split_cons_pos p ps n h0 hc (by omega)
          rw [hs] at hcl
          have := ih (n - pduLen p) e hcl
          rw [hs, split_cons_pos p ps (n + e) (by omega) hc (by omega)]
          have hne : n + e - pduLen p = n - pduLen p + e := by omega
          rw [hne, this]
          simp

theorem encodeAll_length (ps : List Pdu) (hw : ∀ p ∈ ps, PduWF p) : (encodeAll ps).length = total ps := by
  induction ps with
  | nil => rfl
  | cons p ps ih =>
    simp only [encodeAll, List.flatMap_cons, List.length_append, total]
    rw [(encode_bytes_len p (hw p (by simp))).2]
    have := ih (fun q hq => hw q (by simp [hq]))
    simp only [encodeAll] at this
    rw [this]

theorem encodeAll_bytes (ps : List Pdu) (hw : ∀ p ∈ ps, PduWF p) : Bytes (encodeAll ps) := by
  induction ps with
  | nil => intro x hx; simp [encodeAll] at hx
  | cons p ps ih =>
    simp only [encodeAll, List.flatMap_cons]
    exact bytes_append (encode_bytes_len p (hw p (by simp))).1 (ih (fun q hq => hw q (by simp [hq])))

theorem seenOf_append (a b : List Pdu) : seenOf (a ++ b) = seenOf a + seenOf b := by
  induction a with
  | nil => simp [seenOf]
  | cons p ps ih => simp only [List.cons_append, seenOf, ih]; omega

/-! ## one script slot against its specification slot -/

def Slot.src (x : Slot) : Src := ⟨x.cache, x.sid⟩

structure Clean (S : List Vrp) (x : Slot) (y : SSlot) (cl : Sess) : Prop where
  len : cl.buf.length = (split y.pdus y.delivered).2.1
  buf : cl.buf ++ x.rest = encodeAll (y.pdus.drop (split y.pdus y.delivered).1.length)
  link : Link cl S (specFold cl.src (split y.pdus y.delivered).1)
  rx : cl.rx = seenOf (split y.pdus y.delivered).1

structure Live (S : List Vrp) (x : Slot) (y : SSlot) (cl : Sess) : Prop where
  src : cl.src = x.src
  ok : SessOK cl
  closed : y.closed = true → cl.done = true
  gone : cl.done = true → ∀ v ∈ S, v.cache ≠ x.src
  why : cl.done = true → y.closed = true ∨ (split y.pdus y.delivered).2.2 = true
  clean : cl.done = false → (split y.pdus y.delivered).2.2 = false → Clean S x y cl

structure SlotRel (S : List Vrp) (x : Slot) (y : SSlot) : Prop where
  sid : x.sid = y.sid
  cache : x.cache = y.cache
  wf : ∀ p ∈ y.pdus, PduWF p
  rest : x.rest = (encodeAll y.pdus).drop y.delivered
  le : y.delivered ≤ total y.pdus
  started : y.started = x.client.isSome
  fresh : x.client = none → y.closed = false ∧ y.delivered = 0 ∧ ∀ v ∈ S, v.cache ≠ x.src
  live : ∀ cl, x.client = some cl → Live S x y cl

theorem Link.frame {cl : Sess} {S S' : List Vrp} {f : Fold} {src : Src} (h : Link cl S f)
    (hf : Frame src S S') (hne : src ≠ cl.src) : Link cl S' f :=
  ⟨h.inReset, h.pending, fun hok x => by
    rw [h.installed hok]
    constructor
    · rintro ⟨h1, h2⟩; exact ⟨(hf.other x (by rw [h2]; exact fun e => hne e.symm)).2 h1, h2⟩
    · rintro ⟨h1, h2⟩; exact ⟨(hf.other x (by rw [h2]; exact fun e => hne e.symm)).1 h1, h2⟩,
   h.serial, h.vwf⟩

theorem gone_frame {S S' : List Vrp} {src s : Src} (hf : Frame src S S') (hne : src ≠ s)
    (h : ∀ v ∈ S, v.cache ≠ s) : ∀ v ∈ S', v.cache ≠ s := by
  intro v hv
  rcases hf.owned v hv with h' | h'
  · exact h v h'
  · rw [h']; exact hne

/-- a step on another session leaves this slot's relation intact -/
theorem SlotRel.frame {S S' : List Vrp} {x : Slot} {y : SSlot} {src : Src} (h : SlotRel S x y)
    (hf : Frame src S S') (hne : src ≠ x.src) : SlotRel S' x y :=
  { h with
    fresh := fun hc => ⟨(h.fresh hc).1, (h.fresh hc).2.1, gone_frame hf hne (h.fresh hc).2.2⟩
    live := fun cl hc =>
      have L := h.live cl hc
      { L with
        gone := fun hd => gone_frame hf hne (L.gone hd)
        clean := fun hd hcl =>
          have C := L.clean hd hcl
          { C with link := C.link.frame hf (by rw [L.src]; exact hne) } } }

/-! ## the four script steps on the addressed slot -/

theorem drop_min (l : List Nat) (n : Nat) : l.drop n = l.drop (min n l.length) := by
  by_cases h : n ≤ l.length
  · rw [Nat.min_eq_left h]
  · rw [Nat.min_eq_right (by omega), List.drop_length, List.drop_of_length_le (by omega)]

/-- result of a step on the addressed slot -/
structure SlotStep (S : List Vrp) (x x' : Slot) (y' : SSlot) (t' : Table) (S' : List Vrp) : Prop where
  inv : TableInv t'
  rel : R t' S'
  frame : Frame x.src S S'
  slot : SlotRel S' x' y'
  sid : x'.sid = x.sid
  cache : x'.cache = x.cache
  keep : x.client.isSome → x'.client.isSome
  owned : ∀ v ∈ S', v ∈ S ∨ (x'.client.isSome ∧ v.cache = x.src)

theorem start_step {S : List Vrp} {x : Slot} {y : SSlot} {t : Table} (hi : TableInv t) (hr : R t S)
    (h : SlotRel S x y) (hx : x.client = none) :
    SlotStep S x { x with client := some (Sess.start x.cache x.sid) } { y with started := true } t S := by
  obtain ⟨hcl, hdel, hgone⟩ := h.fresh hx
  refine ⟨hi, hr, Frame.refl _ _, ?_, rfl, rfl, fun _ => rfl, fun v hv => Or.inl hv⟩
  refine ⟨h.sid, h.cache, h.wf, h.rest, h.le, rfl, (fun hc => by cases hc), ?_⟩
  intro cl hc
  simp only [Option.some.injEq] at hc
  subst hc
  refine ⟨rfl, ⟨(by intro x hx; simp [Sess.start] at hx), (by intro e he; simp [Sess.start] at he)⟩,
    (by simp only; rw [hcl]; intro h; cases h), (by intro h; simp [Sess.start] at h),
    (by intro h; simp [Sess.start] at h), ?_⟩
  intro _ _
  have hs : split ({ y with started := true } : SSlot).pdus ({ y with started := true } : SSlot).delivered
      = ([], 0, false) := by
    show split y.pdus y.delivered = _
    rw [hdel, split_zero]
  refine ⟨by rw [hs]; rfl, ?_, ?_, ?_⟩
  · rw [hs]
    show [] ++ x.rest = encodeAll (y.pdus.drop 0)
    rw [h.rest, hdel, List.drop_zero, List.drop_zero, List.nil_append]
  · rw [hs]
    refine ⟨rfl, (by simp [specFold, vrpsOf, Sess.start]), ?_, (by simp [specFold]), (by simp [Sess.start])⟩
    intro _ v
    simp only [specFold, List.foldl_nil, List.not_mem_nil, false_iff, not_and]
    intro hv hc
    exact hgone v hv hc
  · rw [hs]; rfl

theorem coreEq_soft (cl : Sess) (t : Table) : (soft cl t).2 = t ∧ CoreEq cl (soft cl t).1 := by
  unfold soft
  split
  · exact ⟨rfl, ⟨rfl, rfl, rfl, rfl, rfl, rfl, rfl⟩⟩
  · split
    · exact ⟨rfl, ⟨rfl, rfl, rfl, rfl, rfl, rfl, rfl⟩⟩
    · exact ⟨rfl, ⟨rfl, rfl, rfl, rfl, rfl, rfl, rfl⟩⟩

theorem Live.of_coreEq {S : List Vrp} {x : Slot} {y : SSlot} {cl cl' : Sess} (h : Live S x y cl)
    (e : CoreEq cl cl') : Live S x y cl' :=
  ⟨by rw [e.src]; exact h.src, ⟨by rw [e.buf]; exact h.ok.bytes, by rw [e.v]; exact h.ok.vwf⟩,
   by rw [e.done]; exact h.closed, by rw [e.done]; exact h.gone, by rw [e.done]; exact h.why,
   fun hd hcl =>
     have C := h.clean (by rw [← e.done]; exact hd) hcl
     ⟨by rw [e.buf]; exact C.len, by rw [e.buf]; exact C.buf, by rw [e.src]; exact C.link.of_coreEq e,
      by rw [e.rx]; exact C.rx⟩⟩

theorem soft_step {S : List Vrp} {x : Slot} {y : SSlot} {t : Table} (hi : TableInv t) (hr : R t S)
    (h : SlotRel S x y) (cl : Sess) (hx : x.client = some cl) :
    SlotStep S x { x with client := some (soft cl t).1 } y (soft cl t).2 S := by
  obtain ⟨ht, he⟩ := coreEq_soft cl t
  rw [ht]
  refine ⟨hi, hr, Frame.refl _ _, ?_, rfl, rfl, fun _ => rfl, fun v hv => Or.inl hv⟩
  refine ⟨h.sid, h.cache, h.wf, h.rest, h.le, (by simp [h.started, hx]), (fun hc => by cases hc), ?_⟩
  intro cl' hc
  simp only [Option.some.injEq] at hc
  subst hc
  have L := (h.live cl hx).of_coreEq he
  exact ⟨L.src, L.ok, L.closed, L.gone, L.why, fun hd hcl =>
    have C := L.clean hd hcl; ⟨C.len, C.buf, C.link, C.rx⟩⟩

theorem coreEq_failWrites (cl : Sess) (t : Table) : (failWrites cl t).2 = t ∧ CoreEq cl (failWrites cl t).1 := by
  unfold failWrites
  split
  · exact ⟨rfl, ⟨rfl, rfl, rfl, rfl, rfl, rfl, rfl⟩⟩
  · exact ⟨rfl, ⟨rfl, rfl, rfl, rfl, rfl, rfl, rfl⟩⟩

theorem wfail_step {S : List Vrp} {x : Slot} {y : SSlot} {t : Table} (hi : TableInv t) (hr : R t S)
    (h : SlotRel S x y) (cl : Sess) (hx : x.client = some cl) :
    SlotStep S x { x with client := some (failWrites cl t).1 } y (failWrites cl t).2 S := by
  obtain ⟨ht, he⟩ := coreEq_failWrites cl t
  rw [ht]
  refine ⟨hi, hr, Frame.refl _ _, ?_, rfl, rfl, fun _ => rfl, fun v hv => Or.inl hv⟩
  refine ⟨h.sid, h.cache, h.wf, h.rest, h.le, (by simp [h.started, hx]), (fun hc => by cases hc), ?_⟩
  intro cl' hc
  simp only [Option.some.injEq] at hc
  subst hc
  have L := (h.live cl hx).of_coreEq he
  exact ⟨L.src, L.ok, L.closed, L.gone, L.why, fun hd hcl =>
    have C := L.clean hd hcl; ⟨C.len, C.buf, C.link, C.rx⟩⟩

theorem close_step {S : List Vrp} {x : Slot} {y : SSlot} {t : Table} (hi : TableInv t) (hr : R t S)
    (h : SlotRel S x y) (cl : Sess) (hx : x.client = some cl) :
    ∃ S', SlotStep S x { x with client := some (close cl t).1 } { y with closed := true } (close cl t).2 S' := by
  have L := h.live cl hx
  by_cases hd : cl.done = true
  · have hc : close cl t = (cl, t) := by simp [close, hd]
    rw [hc]
    refine ⟨S, hi, hr, Frame.refl _ _, ?_, rfl, rfl, fun _ => rfl, fun v hv => Or.inl hv⟩
    refine ⟨h.sid, h.cache, h.wf, h.rest, h.le, (by simp [h.started, hx]), (fun hc => by cases hc), ?_⟩
    intro cl' hc'
    simp only [Option.some.injEq] at hc'
    subst hc'
    exact ⟨L.src, L.ok, fun _ => hd, L.gone, fun _ => Or.inl rfl, fun hnd => by rw [hd] at hnd; cases hnd⟩
  · have hd' : cl.done = false := by simpa using hd
    have hc : close cl t = finish cl t := by simp [close, hd']
    rw [hc]
    obtain ⟨hany, hdone⟩ := finish_any cl t S hi hr L.ok
    refine ⟨sDrop S cl.src, hany.inv, hany.rel, by rw [← L.src]; exact hany.frame, ?_, rfl, rfl,
      fun _ => rfl, fun v hv => Or.inl ((sDrop_mem' _ _ _).1 hv).1⟩
    refine ⟨h.sid, h.cache, h.wf, h.rest, h.le, (by simp [h.started, hx]), (fun hc => by cases hc), ?_⟩
    intro cl' hc'
    simp only [Option.some.injEq] at hc'
    subst hc'
    refine ⟨L.src, hany.ok, fun _ => hdone, fun _ => ?_, fun _ => Or.inl rfl,
      fun hnd => by rw [hdone] at hnd; cases hnd⟩
    have := hany.cleared hdone
    rw [L.src] at this
    intro v hv
    exact this v (by rw [← L.src]; exact hv)

theorem send_step {S : List Vrp} {x : Slot} {y : SSlot} {t : Table} (hi : TableInv t) (hr : R t S)
    (h : SlotRel S x y) (cl : Sess) (hx : x.client = some cl) (n : Nat) :
    ∃ S', SlotStep S x
      { x with rest := x.rest.drop n, client := some (feed cl t (x.rest.take n)).1 }
      { y with delivered := min (y.delivered + n) (total y.pdus) }
      (feed cl t (x.rest.take n)).2 S' := by
  have L := h.live cl hx
  have hencl := encodeAll_length y.pdus h.wf
  have hrl : x.rest.length = total y.pdus - y.delivered := by
    rw [h.rest, List.length_drop, hencl]
  -- the number of bytes actually delivered
  have he : (x.rest.take n).length = min n x.rest.length := List.length_take
  have hdel : min (y.delivered + n) (total y.pdus) = y.delivered + (x.rest.take n).length := by
    have := h.le
    rw [he, hrl]; omega
  have hrest : x.rest.drop n = (encodeAll y.pdus).drop (min (y.delivered + n) (total y.pdus)) := by
    rw [drop_min, ← he, hdel, h.rest, List.drop_drop]
  have hle' : min (y.delivered + n) (total y.pdus) ≤ total y.pdus := Nat.min_le_right _ _
  have hbytes : Bytes (x.rest.take n) := by
    apply Bytes.take
    rw [h.rest]
    exact Bytes.drop (encodeAll_bytes y.pdus h.wf) _
  have hstart : y.started = (some (feed cl t (x.rest.take n)).1 : Option Sess).isSome := by
    simp [h.started, hx]
  by_cases hd : cl.done = true
  · -- the client has already returned: the bytes go nowhere
    have hf : feed cl t (x.rest.take n) = (cl, t) := by simp [feed, hd]
    rw [hf]
    refine ⟨S, hi, hr, Frame.refl _ _, ?_, rfl, rfl, fun _ => rfl, fun v hv => Or.inl hv⟩
    refine ⟨h.sid, h.cache, h.wf, hrest, hle', (by simp [h.started, hx]), (fun hc => by cases hc), ?_⟩
    intro cl' hc'
    simp only [Option.some.injEq] at hc'
    subst hc'
    refine ⟨L.src, L.ok, L.closed, L.gone, ?_, fun hnd => by rw [hd] at hnd; cases hnd⟩
    intro _
    rcases L.why hd with hcl | hdirty
    · exact Or.inl hcl
    · exact Or.inr (split_dirty_mono _ _ _ hdirty
        (by show y.delivered ≤ min (y.delivered + n) (total y.pdus); rw [hdel]; omega))
  · have hd' : cl.done = false := by simpa using hd
    have hnc : y.closed = false := by
      cases hc : y.closed with
      | false => rfl
      | true => rw [L.closed hc] at hd'; cases hd'
    have hf : feed cl t (x.rest.take n) =
        pump ((cl.buf ++ x.rest.take n).length + 1) { cl with buf := cl.buf ++ x.rest.take n } t := by
      simp [feed, hd']
    rw [hf]
    have hfu : ∃ fuel, fuel = (cl.buf ++ x.rest.take n).length + 1 := ⟨_, rfl⟩
    obtain ⟨fuel, hfu⟩ := hfu
    rw [← hfu]
    have hok0 : SessOK { cl with buf := cl.buf ++ x.rest.take n } :=
      ⟨Bytes.append L.ok.bytes hbytes, L.ok.vwf⟩
    by_cases hdirty : (split y.pdus (min (y.delivered + n) (total y.pdus))).2.2 = true
    · -- some byte of a non-conforming PDU has been delivered: only the general facts
      obtain ⟨S', hany⟩ := pump_any fuel
        { cl with buf := cl.buf ++ x.rest.take n } t S hi hr hok0 hd'
      have hsrc : (pump fuel { cl with buf := cl.buf ++ x.rest.take n } t).1.src
          = x.src := hany.src.trans L.src
      refine ⟨S', hany.inv, hany.rel, (by have := hany.frame; rw [show ({ cl with buf := cl.buf ++ x.rest.take n } : Sess).src = x.src from L.src] at this; exact this),
        ?_, rfl, rfl, fun _ => rfl, ?_⟩
      · refine ⟨h.sid, h.cache, h.wf, hrest, hle', (by simp [h.started, hx]), (fun hc => by cases hc), ?_⟩
        intro cl' hc'
        simp only [Option.some.injEq] at hc'
        subst hc'
        refine ⟨hsrc, hany.ok, (fun hc => by rw [hnc] at hc; cases hc), ?_, fun _ => Or.inr hdirty,
          fun _ hcl => by rw [hdirty] at hcl; cases hcl⟩
        intro hdn v hv
        have := hany.cleared hdn v hv
        rw [show ({ cl with buf := cl.buf ++ x.rest.take n } : Sess).src = x.src from L.src] at this
        exact this
      · intro v hv
        rcases hany.frame.owned v hv with h' | h'
        · exact Or.inl h'
        · exact Or.inr ⟨rfl, by rw [h']; exact L.src⟩
    · -- everything delivered so far is whole conforming PDUs plus a proper prefix
      have hclean' : (split y.pdus (min (y.delivered + n) (total y.pdus))).2.2 = false := by simpa using hdirty
      have hclean : (split y.pdus y.delivered).2.2 = false := by
        cases hc : (split y.pdus y.delivered).2.2 with
        | false => rfl
        | true =>
          have := split_dirty_mono y.pdus _ (min (y.delivered + n) (total y.pdus)) hc (by rw [hdel]; omega)
          rw [this] at hclean'; cases hclean'
      have C := L.clean hd' hclean
      have hext := split_extend y.pdus y.delivered (x.rest.take n).length hclean
      rw [← hdel] at hext
      have hlen0 : ({ cl with buf := cl.buf ++ x.rest.take n } : Sess).buf.length
          = (split y.pdus y.delivered).2.1 + (x.rest.take n).length := by
        simp only [List.length_append, C.len]
      have hl0 : Link { cl with buf := cl.buf ++ x.rest.take n } S (specFold cl.src (split y.pdus y.delivered).1) :=
        C.link.of_coreEq ⟨rfl, rfl, rfl, rfl, rfl, rfl, rfl⟩ |> fun h => ⟨h.inReset, h.pending, h.installed, h.serial, h.vwf⟩
      have hbuf0 : ({ cl with buf := cl.buf ++ x.rest.take n } : Sess).buf ++ x.rest.drop n
          = encodeAll (y.pdus.drop (split y.pdus y.delivered).1.length) := by
        show (cl.buf ++ x.rest.take n) ++ x.rest.drop n = _
        rw [List.append_assoc, List.take_append_drop]; exact C.buf
      have hwf' : ∀ p ∈ y.pdus.drop (split y.pdus y.delivered).1.length, PduWF p :=
        fun p hp => h.wf p (List.mem_of_mem_drop hp)
      obtain ⟨S', hi', hr', hfr, hsrc, hdone, hlen, hbuf, hlink, hrx⟩ :=
        pump_aligned (y.pdus.drop (split y.pdus y.delivered).1.length)
          { cl with buf := cl.buf ++ x.rest.take n } t S (specFold cl.src (split y.pdus y.delivered).1)
          (x.rest.drop n) fuel hi hr hl0 hd' hbuf0 hwf' (by rw [hfu]; exact Nat.le_refl _)
          (by rw [hlen0]; rw [hext] at hclean'; exact hclean')
      rw [hlen0] at hlen hbuf hlink hrx
      have hsrc' : (pump fuel { cl with buf := cl.buf ++ x.rest.take n } t).1.src
          = x.src := hsrc.trans L.src
      refine ⟨S', hi', hr', (by rw [show ({ cl with buf := cl.buf ++ x.rest.take n } : Sess).src = x.src from L.src] at hfr; exact hfr),
        ?_, rfl, rfl, fun _ => rfl, ?_⟩
      · refine ⟨h.sid, h.cache, h.wf, hrest, hle', (by simp [h.started, hx]), (fun hc => by cases hc), ?_⟩
        intro cl' hc'
        simp only [Option.some.injEq] at hc'
        subst hc'
        have hb' : Bytes (pump fuel { cl with buf := cl.buf ++ x.rest.take n } t).1.buf := by
          intro b hb
          have : b ∈ (pump fuel { cl with buf := cl.buf ++ x.rest.take n } t).1.buf ++ x.rest.drop n :=
            List.mem_append.2 (Or.inl hb)
          rw [hbuf] at this
          exact encodeAll_bytes _ (fun p hp => h.wf p (List.mem_of_mem_drop (List.mem_of_mem_drop hp))) b this
        refine ⟨hsrc', ⟨hb', hlink.vwf⟩, (fun hc => by rw [hnc] at hc; cases hc),
          (fun hdn => by rw [hdone] at hdn; cases hdn), (fun hdn => by rw [hdone] at hdn; cases hdn), ?_⟩
        intro _ _
        refine ⟨?_, ?_, ?_, ?_⟩
        · show _ = (split y.pdus (min (y.delivered + n) (total y.pdus))).2.1
          rw [hext]; exact hlen
        · show _ ++ x.rest.drop n = encodeAll (y.pdus.drop (split y.pdus (min (y.delivered + n) (total y.pdus))).1.length)
          rw [hext, hbuf, List.length_append, ← List.drop_drop]
        · show Link _ S' (specFold _ (split y.pdus (min (y.delivered + n) (total y.pdus))).1)
          rw [hext, hsrc]
          simp only [specFold, List.foldl_append] at hlink ⊢
          exact hlink
        · show _ = seenOf (split y.pdus (min (y.delivered + n) (total y.pdus))).1
          rw [hext, hrx]
          show cl.rx + _ = _
          rw [C.rx, seenOf_append]
      · intro v hv
        rcases hfr.owned v hv with h' | h'
        · exact Or.inl h'
        · exact Or.inr ⟨rfl, by rw [h']; exact L.src⟩

end Rbgp.Rtr
