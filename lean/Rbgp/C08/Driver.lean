import Rbgp.Fsm.Codec
import Rbgp.Fsm.TimedSpec
namespace Rbgp.C08
open Rbgp Rbgp.Term Rbgp.Fsm Rbgp.Fsm.Codec Rbgp.Fsm.Timed

def tevOf? : Term → Option TEv
  | .list [_, .list [.atom "wait", d]] => (asNat? d).map .wait
  | .list [r, e] => do pure (.ev (← roleOf? r) (← evOf? e))
  | _ => none

def caseOf? : Term → Option (Cfg × List TEv)
  | .list [.atom "case", c, .list (.atom "evs" :: evs)] => do
      let cfg ← cfgOf? c
      -- only configurations the daemon accepts (hold time 0 or 3..65535)
      if TimedSpec.cfgValid cfg then pure (cfg, (← evs.mapM tevOf?)) else none
  | _ => none

def firedT (f : Fired) : Term :=
  list [nat f.time, roleT f.role, sym (if f.isHold then "hold" else "ka"), ofList poutT f.outs]
def firedOf? : Term → Option Fired
  | .list [t, r, .atom k, o] => do
      pure { time := (← asNat? t), role := (← roleOf? r), isHold := (k == "hold"),
             outs := (← asListOf? poutOf? o) }
  | _ => none

def tobsT : TObs → Term
  | .step o => obsT o
  | .fired l => tag "fired" (l.map firedT)
def tobsOf? : Term → Option TObs
  | .list (.atom "fired" :: l) => (l.mapM firedOf?).map .fired
  | t => (obsOf? t).map .step

def traceT (tr : List TStep) : Term :=
  tag "trace" (tr.map fun s => list [tobsT s.obs, stateT s.stA, stateT s.stP])

def zipSteps : List TEv → List Term → Option (List TStep)
  | [], [] => some []
  | e :: hs, .list [o, a, p] :: ts => do
      let rest ← zipSteps hs ts
      pure ({ ev := e, obs := (← tobsOf? o), stA := (← stateOf? a), stP := (← stateOf? p) } :: rest)
  | _, _ => none

def traceOf? (h : List TEv) : Term → Option (List TStep)
  | .list (.atom "trace" :: ts) => zipSteps h ts
  | _ => none

def verdictStr : TimedSpec.Verdict → String
  | .ok => "ok"
  | .fail i c => s!"fail step={i} clause={c}"

def handler (mode : String) (line : String) : String :=
  match mode with
  | "model" =>
      match (parse line).bind caseOf? with
      | some (cfg, h) => toStr (traceT (run cfg h))
      | none => "(bad-case)"
  | "oracle" =>
      match parseMany line with
      | some [c, o] =>
          match caseOf? c with
          | some (cfg, h) =>
              match traceOf? h o with
              | some tr => verdictStr (TimedSpec.check cfg tr)
              | none => "fail step=0 clause=unparsable-observation"
          | none => "(bad-case)"
      | _ => "(bad-line)"
  | _ => "(bad-mode)"

end Rbgp.C08
