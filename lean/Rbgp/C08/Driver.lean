import Rbgp.Fsm.Codec
import Rbgp.Fsm.TimedSpec
import Rbgp.Fsm.WireCodec
import Rbgp.Fsm.WireSpec
import Rbgp.C08.Stats
namespace Rbgp.C08
open Rbgp Rbgp.Term Rbgp.Fsm Rbgp.Fsm.Codec Rbgp.Fsm.Timed

def tevOf? : Term → Option TEv
  | .list [_, .list [.atom "wait", d]] => (asNat? d).map .wait
  | .list [r, e] => do pure (.ev (← roleOf? r) (← evOf? e))
  | _ => none

def caseOf? : Term → Option (Cfg × List TEv)
  | .list [.atom "case", c, .list (.atom "evs" :: evs)] => do
      let cfg ← cfgOf? c
      -- only configurations the daemon accepts (hold time 0 or 3..65535) and histories a driver
      -- can produce (`TimedSpec.wfHist`: no injected timer inputs, no parsed OPEN with hold 1/2)
      let h ← evs.mapM tevOf?
      if TimedSpec.cfgValid cfg && TimedSpec.wfHist h then pure (cfg, h) else none
  | _ => none

/-! Timer-probe cases: `(probe <out>*)`, outputs of the passive task only. -/
def probeOutOf? : Term → Option POut
  | .list [.atom "set-hold", n] => (asNat? n).map fun n => .conn .passive (.setHold n)
  | .list [.atom "set-ka", n] => (asNat? n).map fun n => .conn .passive (.setKa n)
  | .atom "send-keepalive" => some (.conn .passive .sendKeepalive)
  | .list [.atom "state", s] => (stateOf? s).map fun s => .conn .passive (.stateChanged s)
  | .atom "stop-active-connect" => some .stopActiveConnect
  | _ => none

def probeCaseOf? : Term → Option (List POut)
  | .list (.atom "probe" :: outs) => outs.mapM probeOutOf?
  | _ => none

def armedT : Armed → Term
  | .empty => sym "empty" | .far => sym "far" | .secs n => nat n
def armedOf? : Term → Option Armed
  | .atom "empty" => some .empty | .atom "far" => some .far
  | t => (asNat? t).map .secs
def slotObsT (name : String) (o : SlotObs) : Term :=
  tag name [sym (if o.fires then "fires" else "quiet"), armedT o.armed]
def slotObsOf? (name : String) : Term → Option SlotObs
  | .list [.atom n, .atom f, a] =>
      if n == name && (f == "fires" || f == "quiet") then
        (armedOf? a).map fun a => { fires := f == "fires", armed := a }
      else none
  | _ => none
def probeObsT (o : ProbeObs) : Term := tag "probe-obs" [slotObsT "hold" o.hold, slotObsT "ka" o.ka]
def probeObsOf? : Term → Option ProbeObs
  | .list [.atom "probe-obs", h, k] => do pure { hold := (← slotObsOf? "hold" h), ka := (← slotObsOf? "ka" k) }
  | _ => none

def firedT (f : Fired) : Term :=
  list [nat f.time, roleT f.role, sym (if f.isHold then "hold" else "ka"), ofList poutT f.outs]
def firedOf? : Term → Option Fired
  | .list [t, r, .atom k, o] => do
      pure { time := (← asNat? t), role := (← roleOf? r), isHold := (k == "hold"),
             outs := (← asListOf? poutOf? o) }
  | _ => none

def tobsT : TObs → Term
  | .step o => obsT o
  | .fired l => tag "fired" (l.map firedT)
def tobsOf? : Term → Option TObs
  | .list (.atom "fired" :: l) => (l.mapM firedOf?).map .fired
  | t => (obsOf? t).map .step

def traceT (tr : List TStep) : Term :=
  tag "trace" (tr.map fun s => list [tobsT s.obs, stateT s.stA, stateT s.stP])

def zipSteps : List TEv → List Term → Option (List TStep)
  | [], [] => some []
  | e :: hs, .list [o, a, p] :: ts => do
      let rest ← zipSteps hs ts
      pure ({ ev := e, obs := (← tobsOf? o), stA := (← stateOf? a), stP := (← stateOf? p) } :: rest)
  | _, _ => none

def traceOf? (h : List TEv) : Term → Option (List TStep)
  | .list (.atom "trace" :: ts) => zipSteps h ts
  | _ => none

def verdictStr : TimedSpec.Verdict → String
  | .ok => "ok"
  | .fail i c => s!"fail step={i} clause={c}"

def handler (mode : String) (line : String) : String :=
  match mode with
  | "model" =>
      match (parse line).bind WireCodec.wireCaseOf? with
      | some (cfg, h) => toStr (WireCodec.wireObsT true (Wire.run cfg h))
      | none =>
      match (parse line).bind probeCaseOf? with
      | some outs => toStr (probeObsT (probe outs))
      | none =>
      match (parse line).bind caseOf? with
      | some (cfg, h) => toStr (traceT (run cfg h))
      | none => "(bad-case)"
  | "oracle" =>
      match parseMany line with
      | some [c, o] =>
          match WireCodec.wireCaseOf? c with
          | some (cfg, h) =>
              match WireCodec.wireObsOf? true o with
              | some tr =>
                  match WireSpec.check cfg false true h tr with
                  | .ok => "ok"
                  | .fail i cl => s!"fail step={i} clause={cl}"
              | none => "fail step=0 clause=unparsable-observation"
          | none =>
          match probeCaseOf? c with
          | some outs =>
              match probeObsOf? o with
              | some po =>
                  match TimedSpec.probeCheck outs po with
                  | none => "ok"
                  | some e => s!"fail clause={e}"
              | none => "fail clause=unparsable-observation"
          | none =>
          match caseOf? c with
          | some (cfg, h) =>
              match traceOf? h o with
              | some tr => verdictStr (TimedSpec.check cfg tr)
              | none => "fail step=0 clause=unparsable-observation"
          | none => "(bad-case)"
      | _ => "(bad-line)"
  | "stats" =>
      -- evidence only: boundary buckets hit by this case (see Rbgp/C08/Stats.lean)
      match parseMany line with
      | some [c, o] =>
          match WireCodec.wireCaseOf? c with
          | some (cfg, h) =>
              match WireCodec.wireObsOf? true o with
              | some tr => " ".intercalate ((s!"w:lh:{Stats.hb cfg.localHold}" :: Stats.wireBuckets cfg {} h tr).eraseDups)
              | none => ""
          | none =>
          match probeCaseOf? c with
          | some outs => " ".intercalate (Stats.probeBuckets outs).eraseDups
          | none =>
          match caseOf? c with
          | some (cfg, h) =>
              match traceOf? h o with
              | some tr => " ".intercalate ((s!"lh:{Stats.hb cfg.localHold}" :: Stats.timedBuckets cfg {} tr).eraseDups)
              | none => ""
          | none => ""
      | _ => ""
  | _ => "(bad-mode)"

end Rbgp.C08
