/-
  Rbgp.C08.Stats — evidence only: which boundary buckets a case (with its REAL observation) hits.
  Driver mode `stats` prints one token per bucket; `./check` sums them into
  `coverage.oracle_clause_counts`, and `expect_judged` in checks/c08.py lists the buckets every
  quick run must hit (a miss shows up under `coverage_gaps`).
-/
import Rbgp.Fsm.TimedSpec
import Rbgp.Fsm.WireSpec
namespace Rbgp.C08.Stats
open Rbgp.Fsm Rbgp.Fsm.Timed Rbgp.Fsm.Wire

/-- Bucket of a hold-time value. -/
def hb (n : Nat) : String :=
  if n ≤ 6 then toString n
  else if n < 240 then "7..239"
  else if n = 240 then "240"
  else if n < 65534 then "241..65533"
  else toString n

def rel (l r : Nat) : String :=
  if l = r then "eq" else if l + 1 = r then "l+1" else if r + 1 = l then "l-1" else if l < r then "lt" else "gt"

def stName : State → String
  | .idle => "idle" | .connect => "connect" | .active => "active"
  | .openSent => "opensent" | .openConfirm => "openconfirm" | .established => "established"

def evName : Ev → String
  | .input (.connected _) => "connected"
  | .input (.msg (.open _)) => "open-parsed"
  | .input (.msg .keepalive) => "keepalive"
  | .input (.msg .update) => "update"
  | .input (.msg (.notification ..)) => "notification"
  | .input (.msg (.routeRefresh _)) => "route-refresh"
  | .input .kaTimer => "ka-timer"
  | .input .holdTimer => "hold-timer"
  | .input .disconnected => "disconnected"
  | .input .adminShutdown => "admin-shutdown"
  | .input .updateSent => "update-sent"
  | .rawOpen _ => "open"

/-- Relation of the end of a wait to a deadline: one before, exactly at, one after. -/
def near (what : String) (deadline target : Nat) : List String :=
  if target + 1 = deadline then [s!"wait:{what}-1"]
  else if target = deadline then [s!"wait:{what}@"]
  else if target = deadline + 1 then [s!"wait:{what}+1"]
  else if deadline < target then [s!"wait:{what}>>"]
  else []

def roleBuckets (x : TimedSpec.R) (target : Nat) : List String :=
  if x.up ∧ x.confirmed then
    if x.neg = 0 then ["wait:confirmed-neg0"]
    else near "hold" (x.lastRx + x.neg) target ++ near "ka" (x.lastKa + x.neg / 3) target
  else if x.up then ["wait:opensent"] else []

def firedBuckets (s : TimedSpec.S) (fs : List Fired) : List String :=
  let one (f : Fired) : String :=
    if f.isHold then (if (s.get f.role).confirmed then "fired:hold-confirmed" else "fired:hold-opensent")
    else "fired:ka"
  fs.map one ++ (if fs.length ≥ 3 then ["fired:3-or-more-in-one-wait"] else [])
    ++ (if fs.any (fun f => fs.any (fun g => f.time = g.time ∧ f.role ≠ g.role)) then ["fired:two-roles-same-second"] else [])


/-- Timed histories: walk the real trace with the reference observer. -/
def timedBuckets (cfg : Cfg) : TimedSpec.S → List TStep → List String
  | _, [] => []
  | s, st :: rest =>
      let here : List String :=
        match st.ev with
        | .wait d =>
            let target := s.now + d
            (if d = 0 then ["wait:0"] else []) ++ roleBuckets s.a target ++ roleBuckets s.p target ++
            (match st.obs with | .fired fs => firedBuckets s fs | _ => [])
        | .ev r e =>
            let before := s.get r
            let after := TimedSpec.stOf st r
            let opened : List String :=
              match TimedSpec.openHold? e with
              | some h =>
                  if before.up ∧ ¬ before.confirmed ∧ TimedSpec.isConfirmed after then
                    let n := min cfg.localHold h
                    [s!"rh:{hb h}", s!"rel:{rel cfg.localHold h}", s!"neg:{hb n}", s!"neg%3:{n % 3}"]
                  else []
              | none => []
            let stb := if before.confirmed then "confirmed" else if before.up then "opensent" else "idle"
            s!"ev:{evName e}@{stb}" :: opened
      match TimedSpec.stepOk cfg s st with
      | .ok s' => here ++ timedBuckets cfg s' rest
      | .error _ => here

def probeBuckets (outs : List POut) : List String :=
  let one : POut → List String
    | .conn _ (.setHold n) => [s!"probe:set-hold:{hb n}"]
    | .conn _ (.setKa n) => [s!"probe:set-ka:{hb n}"]
    | _ => ["probe:other-output"]
  let holds := outs.filter fun o => match o with | .conn _ (.setHold _) => true | _ => false
  (if outs.isEmpty then ["probe:nothing-set"] else []) ++ outs.flatMap one ++
    (if holds.length ≥ 2 then ["probe:set-hold-twice-last-wins"] else [])

def actName : WAct → String
  | .connect => "connect" | .open _ => "open" | .keepalive => "keepalive"
  | .update .normal => "update" | .update .looped => "update-looped" | .update .attrsOnly => "update-attrs"
  | .update .withdraw => "update-withdraw" | .update .eor => "eor"
  | .notification .. => "notification" | .routeRefresh => "route-refresh" | .close => "close"
  | .adminShutdown => "admin-shutdown" | .holdTimer => "hold-timer"
  | .holdTimerKeepalive => "hold-timer+keepalive" | .kaTimer => "ka-timer"
  | .reset => "reset" | .bfdDown => "bfd-down" | .wait _ => "wait"

/-- Wire histories: walk the real observation with the wire observer. -/
def wireBuckets (cfg : Cfg) : WireSpec.W → List (Role × WAct) → List WStep → List String
  | w, (r, a) :: hs, st :: sts =>
      let cur := w.s.get r
      let here : List String :=
        match a with
        | .wait d =>
            let target := w.t.now + d
            (roleBuckets w.t.a target ++ roleBuckets w.t.p target).map (fun b => "w:" ++ b) ++
            st.fired.map (fun (_, _, h) => if h then "w:fired:hold" else "w:fired:ka") ++
            (if st.fired.any (fun (t, r', _) => st.fired.any (fun (t', r'', _) => t = t' ∧ r' ≠ r'')) then
               ["w:fired:two-roles-same-second"] else [])
        | .open o =>
            let acc := cur = .openSent ∧ (if r = .active then st.stA else st.stP) = .openConfirm
            s!"w:open@{stName cur}" ::
              (if acc then
                 let n := min cfg.localHold o.hold
                 [s!"w:rel:{rel cfg.localHold o.hold}", s!"w:neg:{hb n}", s!"w:neg%3:{n % 3}"]
               else [])
        | _ =>
            match st.kind with
            | .step => [s!"w:{actName a}@{stName cur}"]
            | .refused => ["w:connect-refused"]
            | .noConn => ["w:no-conn"]
            | .skipped => ["w:ka-timer-skipped"]
      match WireSpec.stepOk cfg false true w r a st with
      | .ok w' => here ++ wireBuckets cfg w' hs sts
      | .error _ => here
  | _, _, _ => []

end Rbgp.C08.Stats
