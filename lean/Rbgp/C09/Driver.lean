import Rbgp.Export.Codec
import Rbgp.Export.Spec
namespace Rbgp.C09
open Rbgp Rbgp.Term Rbgp.Export Rbgp.Export.Codec

def verdictStr : Spec.Verdict → String
  | .ok => "ok"
  | .fail c => s!"fail clause={c}"

/-- mode `model`: case ↦ observation of the model;
    mode `oracle`: case TAB observation ↦ verdict of the C09 reference checker. -/
def handler (mode : String) (line : String) : String :=
  match mode with
  | "model" =>
      match (parse line).bind caseOf? with
      | some (.exp c) => toStr (obsT (exportOne c))
      | some (.rx c) => toStr (installedT (rxInstalled c))
      | none => "(bad-case)"
  | "oracle" =>
      match line.splitOn "\t" with
      | [cs, os] =>
          match (parse cs).bind caseOf? with
          | some (.exp c) =>
              match (parse os).bind obsOf? with
              | some ob => verdictStr (Spec.checkExport c ob)
              | none => "fail clause=unparsable-observation"
          | some (.rx c) =>
              match (parse os).bind installedOf? with
              | some b => verdictStr (Spec.checkRx c b)
              | none => "fail clause=unparsable-observation"
          | none => if os == "(bad-case)" then "ok" else "fail clause=bad-case-accepted-by-harness"
      | _ => "(bad-line)"
  | _ => "(bad-mode)"

end Rbgp.C09
