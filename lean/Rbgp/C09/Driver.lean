import Rbgp.Export.Codec
import Rbgp.Export.Spec
namespace Rbgp.C09
open Rbgp Rbgp.Term Rbgp.Export Rbgp.Export.Codec

def roleStr : Role → String
  | .ebgp => "ebgp" | .rsClient => "rsc" | .ibgp => "ibgp" | .rrClient => "rrc" | .confed => "confed"

def srcStr (s : Source) : String :=
  match s.kind with
  | .locl => "local"
  | .kernel => "kernel"
  | .peer => "peer-" ++ roleStr s.role

/-- the cell of the role matrix a case sits in: source kind (and role) > receiver role -/
def cellOf (c : ExportCase) : String :=
  srcStr c.path.src ++ ">" ++ roleStr c.sess.ctx.role ++
    (if Spec.isIbgpRole c.sess.ctx.role then (if c.sess.cluster.isSome then "+rr" else "") else "")

/-- every failure names the cell, so that a recorded finding masks nothing else -/
def verdictStr (cell : String) : Spec.Verdict → String
  | .ok => "ok"
  | .fail c => s!"fail clause={c} {cell}"

def expCell (c : ExportCase) : String := s!"src={srcStr c.path.src} dst={roleStr c.sess.ctx.role}"
def rxCell (c : RxCase) : String := s!"from={roleStr c.role}"
def wireCell (w : WireCase) : String :=
  s!"wire from={roleStr (Spec.wRole w w.src)}" ++
    (match w.dst with | some d => s!" dst={roleStr (Spec.wRole w d)}" | none => "")

def isReachObs : Obs → Bool
  | .reach _ _ _ => true
  | _ => false

/-- mode `model`: case ↦ observation of the model;
    mode `oracle`: case TAB observation ↦ verdict of the C09 reference checker;
    mode `stats`: case TAB observation ↦ counters (evidence only): the cell of the role matrix with
    the number of advertisements seen in it, and whether the checker judged the case at all. -/
def handler (mode : String) (line : String) : String :=
  match mode with
  | "model" =>
      match (parse line).bind caseOf? with
      | some (.exp c) => toStr (obsT (exportOne c))
      | some (.exp2 c) => toStr (twiceT (exportTwice c))
      | some (.rx c) => toStr (installedT (rxInstalled c))
      | some (.wire w) => toStr (wireObsT w.run)
      | none => "(bad-case)"
  | "oracle" =>
      match line.splitOn "\t" with
      | [cs, os] =>
          match (parse cs).bind caseOf? with
          | some (.exp c) =>
              match (parse os).bind obsOf? with
              | some ob => verdictStr (expCell c) (Spec.checkExport c ob)
              | none => "fail clause=unparsable-observation"
          | some (.exp2 c) =>
              match (parse os).bind twiceOf? with
              | some ob => verdictStr (expCell c ++ " stale") (Spec.checkExport2 c ob.1 ob.2)
              | none => "fail clause=unparsable-observation"
          | some (.rx c) =>
              match (parse os).bind installedOf? with
              | some b => verdictStr (rxCell c) (Spec.checkRx c b)
              | none => "fail clause=unparsable-observation"
          | some (.wire w) =>
              match (parse os).bind wireObsOf? with
              | some ob =>
                  -- the inbound sentences do not depend on the receiver
                  match Spec.checkRx (Spec.wRx w) ob.installed.isSome with
                  | .fail x => s!"fail clause={x} wire from={roleStr (Spec.wRole w w.src)}"
                  | .ok => verdictStr (wireCell w) (Spec.checkWire w ob)
              | none => "fail clause=unparsable-observation"
          | none => if os == "(bad-case)" then "ok" else "fail clause=bad-case-accepted-by-harness"
      | _ => "(bad-line)"
  | "stats" =>
      match line.splitOn "\t" with
      | [cs, os] =>
          match (parse cs).bind caseOf? with
          | some (.exp c) =>
              match (parse os).bind obsOf? with
              | some ob =>
                  let judged := if Spec.wfExport c then "exp-judged=1" else "exp-skipped-not-wf=1"
                  s!"{judged} cell:{cellOf c}={if isReachObs ob then 1 else 0}"
              | none => "unparsable=1"
          | some (.exp2 c) =>
              match (parse os).bind twiceOf? with
              | some ob =>
                  let again := match ob.2 with | .reach _ _ _ => 1 | _ => 0
                  s!"exp2-judged={if Spec.wfExport c then 1 else 0} stale-readvertised={again}"
              | none => "unparsable=1"
          | some (.rx c) =>
              let wf := Spec.codesDistinct c.attrs && c.attrs.all Attr.wf
              let loops := (if Spec.rxAsLoop c then " rx-as-loop=1" else "") ++
                (if Spec.rxOriginatorLoop c then " rx-originator-loop=1" else "") ++
                (if Spec.rxClusterLoop c then " rx-cluster-loop=1" else "")
              (if wf then "rx-judged=1" else "rx-skipped-not-wf=1") ++ loops
          | some (.wire w) =>
              match (parse os).bind wireObsOf? with
              | some ob =>
                  let r := Spec.wRx w
                  let loops := (if Spec.rxAsLoop r then s!" wire-as-loop:{roleStr r.role}=1" else "") ++
                    (if Spec.rxOriginatorLoop r then s!" wire-originator-loop:{roleStr r.role}=1" else "") ++
                    (if Spec.rxClusterLoop r then s!" wire-cluster-loop:{roleStr r.role}=1" else "")
                  let cell := match w.dst with
                    | some d => s!" wirecell:{roleStr r.role}>{roleStr (Spec.wRole w d)}={if isReachObs ob.sent then 1 else 0}"
                    | none => ""
                  "wire-judged=1" ++ loops ++ cell
              | none => "unparsable=1"
          | none => "bad-case=1"
      | _ => "bad-line=1"
  | _ => "(bad-mode)"

end Rbgp.C09
