/-
  Rbgp.Rpki.Spec — C12 written from the property text as a reference checker over
  observations.  Imports the model only for its *types* (`Net`, `Src`, `Roa`, `Op`, `Ob`, …);
  it calls no model function.

  * a VRP is (cache, family, prefix, max-length, AS); its prefix is the list of its first
    `len` address bits, so that two spellings of one prefix are one key;
  * `covers v r`: the VRP's prefix bits are an initial segment of the route's prefix bits
    (⇔ `v.len ≤ r.len` and the first `v.len` bits agree) — RFC 6811 "covered";
  * Valid / Invalid / NotFound exactly as RFC 6811 §2, with the route origin AS as an explicit
    argument; the origin derivation (§2 "Route Origin ASN") is a separate function with its own
    failure clause;
  * insert / remove / drop-source / reset are the operations of a finite set of VRPs.
-/
import Rbgp.Rpki.Model
namespace Rbgp.Rpki.Spec
open Rbgp.Rpki

/-! ### prefixes as bit strings -/

/-- the 8 bits of an octet, most significant first -/
def bitsOfByte (b : Nat) : List Bool :=
  [b.testBit 7, b.testBit 6, b.testBit 5, b.testBit 4, b.testBit 3, b.testBit 2, b.testBit 1, b.testBit 0]

def bitsOf : List Nat → List Bool
  | [] => []
  | b :: bs => bitsOfByte b ++ bitsOf bs

/-- the prefix denoted by `addr/len` -/
def prefixBits (n : Net) : List Bool := (bitsOf n.addr).take n.len

structure Vrp where
  cache : Src
  fam : Fam
  len : Nat
  bits : List Bool
  maxlen : Nat
  asn : Nat
  deriving DecidableEq, Repr

def vrpOf (s : Src) (n : Net) (maxlen asn : Nat) : Vrp :=
  ⟨s, n.fam, n.len, prefixBits n, maxlen, asn⟩

/-- RFC 6811 "covered": same family, the VRP prefix is a real prefix (its length does not
    exceed the address width) and its bits are an initial segment of the route's prefix bits. -/
def covers (v : Vrp) (r : Net) : Bool :=
  v.fam = r.fam && v.bits.length = v.len && v.bits.isPrefixOf (prefixBits r)

/-- RFC 6811 "matched": covered, VRP AS = route origin AS ≠ 0 (origin `none` = NONE matches
    nothing), route length ≤ max-length. -/
def matched (origin : Option Nat) (r : Net) (v : Vrp) : Bool :=
  covers v r && v.asn ≠ 0 && origin = some v.asn && r.len ≤ v.maxlen

def rfc6811 (vrps : List Vrp) (origin : Option Nat) (r : Net) : VState :=
  if vrps.any (matched origin r) then .valid
  else if vrps.any (fun v => covers v r) then .invalid
  else .notFound

/-! ### route origin AS (RFC 6811 §2) -/

/-- what `Attribute::decode` guarantees: segment types 1..4, no empty segment -/
def pathWF (segs : List Seg) : Bool := segs.all (fun s => 1 ≤ s.1 && s.1 ≤ 4 && s.2 ≠ [])

/-- `none` = "NONE".  Final AS_SEQUENCE: its rightmost AS; empty path, or a confederation
    segment at the end: the speaker's own AS; AS_SET at the end: NONE. -/
def originRfc (localAsn : Nat) : Option (List Seg) → Option Nat
  | none => some localAsn
  | some segs =>
      match segs.getLast? with
      | none => some localAsn
      | some (t, asns) =>
          if t = 2 then asns.getLast?
          else if t = 3 ∨ t = 4 then some localAsn
          else none

/-! ### the VRP set -/

def sIns (s : List Vrp) (v : Vrp) : List Vrp := if v ∈ s then s else s ++ [v]
def sRem (s : List Vrp) (v : Vrp) : List Vrp := s.filter (· ≠ v)
def sDrop (s : List Vrp) (c : Src) : List Vrp := s.filter (fun v => v.cache ≠ c)
def sReset (s : List Vrp) (c : Src) (vs : List (Net × Nat × Nat)) : List Vrp :=
  vs.foldl (fun s v => sIns s (vrpOf c v.1 v.2.1 v.2.2)) (sDrop s c)

def famOf (s : List Vrp) (f : Fam) : List Vrp := s.filter (fun v => v.fam = f)

/-- effect of an operation on the set -/
def sStep (s : List Vrp) : Op → List Vrp
  | .ins c n ml a => sIns s (vrpOf c n ml a)
  | .rem c n ml a => sRem s (vrpOf c n ml a)
  | .drop c => sDrop s c
  | .reset c vs => sReset s c vs
  | .val _ _ => s
  | .iter _ => s
  | .display _ _ _ _ => s

/-! ### the checker -/

inductive Verdict where
  | ok
  | fail (step : Nat) (clause : String)
  deriving DecidableEq, Repr

def entryVrp (e : Net × Roa) : Vrp := vrpOf e.2.src e.1 e.2.maxlen e.2.asn

def nodupB : List Vrp → Bool
  | [] => true
  | v :: vs => !(vs.contains v) && nodupB vs

def endsInSet : Option (List Seg) → Bool
  | some segs => (segs.getLast?.map (·.1)) = some 1
  | none => false

/-- a path outside the quantifier (not what `Attribute::decode` yields) -/
def pathBad : Option (List Seg) → Bool
  | some segs => !pathWF segs
  | none => false

/-- check one `val` observation -/
def checkVal (s : List Vrp) (localAsn : Nat) (r : Net) (path : Option (List Seg)) (ob : Ob) :
    Option String :=
  if pathBad path then none
  else
    let expect := rfc6811 s (originRfc localAsn path) r
    match ob with
    | .unvalidated =>
        if famOf s r.fam = [] then some "empty-table-unvalidated" else some "rfc6811-state"
    | .v res =>
        if res.state = expect then none
        else if endsInSet path ∧ res.state = rfc6811 s (some localAsn) r then some "origin-as-set-tail"
        else some "rfc6811-state"
    | _ => some "observation-kind"

/-- check one `show` observation: the state shown by the API is the RFC 6811 state, and the
    policy condition `rpki st` matched exactly when that state is `st` -/
def checkShow (s : List Vrp) (localAsn : Nat) (st : VState) (r : Net) (path : Option (List Seg)) (ob : Ob) :
    Option String :=
  if pathBad path then none
  else
    let expect := rfc6811 s (originRfc localAsn path) r
    match ob with
    | .api none _ =>
        if famOf s r.fam = [] then some "empty-table-unvalidated" else some "rfc6811-state"
    | .api (some shown) filtered =>
        if shown.1 ≠ expect then
          if endsInSet path ∧ shown.1 = rfc6811 s (some localAsn) r then some "origin-as-set-tail"
          else some "rfc6811-state"
        else if filtered ≠ decide (expect = st) then some "policy-rpki-condition"
        else none
    | _ => some "observation-kind"

/-- check one `iter` observation -/
def checkIter (s : List Vrp) (f : Fam) (ob : Ob) : Option String :=
  match ob with
  | .it l =>
      let seen := l.map entryVrp
      if !nodupB seen then some "iter-duplicate-vrp"
      else if seen.all (· ∈ famOf s f) && (famOf s f).all (· ∈ seen) then none
      else some "iter-differs-from-set"
  | _ => some "observation-kind"

/-- walk the operations, consuming one observation per `val` / `iter` -/
def checkFrom (localAsn globalAsn : Nat) : Nat → List Vrp → List Op → List Ob → Verdict
  | _, _, [], [] => .ok
  | i, _, [], _ :: _ => .fail i "observation-count"
  | i, s, op :: ops, obs =>
      match op with
      | .val r path =>
          match obs with
          | [] => .fail i "observation-count"
          | ob :: obs' =>
              match checkVal s localAsn r path ob with
              | some c => .fail i c
              | none => checkFrom localAsn globalAsn (i + 1) s ops obs'
      | .iter f =>
          match obs with
          | [] => .fail i "observation-count"
          | ob :: obs' =>
              match checkIter s f ob with
              | some c => .fail i c
              | none => checkFrom localAsn globalAsn (i + 1) s ops obs'
      | .display loc st r path =>
          match obs with
          | [] => .fail i "observation-count"
          | ob :: obs' =>
              -- "the speaker's own AS": the global AS for a locally originated route, the
              -- session's local AS for a route learned from a peer
              match checkShow s (if loc then globalAsn else localAsn) st r path ob with
              | some c => .fail i c
              | none => checkFrom localAsn globalAsn (i + 1) s ops obs'
      | .ins c n ml a => checkFrom localAsn globalAsn (i + 1) (sStep s (.ins c n ml a)) ops obs
      | .rem c n ml a => checkFrom localAsn globalAsn (i + 1) (sStep s (.rem c n ml a)) ops obs
      | .drop c => checkFrom localAsn globalAsn (i + 1) (sStep s (.drop c)) ops obs
      | .reset c vs => checkFrom localAsn globalAsn (i + 1) (sStep s (.reset c vs)) ops obs

def check (c : Case) : Out (List Ob) → Verdict
  | .panic => .fail 0 "panic"
  | .ok obs => checkFrom c.localAsn c.globalAsn 0 [] c.ops obs

end Rbgp.Rpki.Spec
