/-
  Rbgp.Rpki.Props — C12, the readable statements.

  Everything here is about the MODEL of `table::RpkiTable` (`Rbgp.Rpki.Model`, which mirrors the
  code as repaired for S21/S22) and the specification `Rbgp.Rpki.Spec` written from the property
  text.  Addresses are arbitrary octet lists of the family's width (`NetWF`: 4 or 16 octets, each
  < 256); prefix lengths, max-lengths, AS numbers, caches and local AS are arbitrary naturals.
-/
import Rbgp.Rpki.Proofs
namespace Rbgp.Rpki.Props
open Rbgp.Rpki Rbgp.Rpki.Spec

/-! ## 0. The reference checker accepts every run -/

/-- **For every case (any history of insert / remove / drop-source / reset with validations,
    listings and `show`s of peer-learned and locally originated routes interleaved, over both
    families, also while no VRP is installed), the C12 reference checker accepts the run of the
    model.**  (Until the repair of F12 this held only for runs that never validated against an
    empty family table.) -/
theorem check_run_ok (c : Case) (hwf : CaseWF c) : Spec.check c (run c) = .ok :=
  Rbgp.Rpki.check_run_ok c hwf

/-- the former counter-example (no VRP installed at all): the state is NotFound, and a policy
    `rpki not-found` matches -/
def witnessEmpty : Case :=
  ⟨65000, 65000, [.val ⟨.v4, [10, 1, 1, 0], 24⟩ none, .display true .notFound ⟨.v4, [10, 1, 1, 0], 24⟩ none]⟩

example : run witnessEmpty =
    .ok [.v ⟨.notFound, .none, [], [], []⟩, .api (some (.notFound, .none)) true] := by decide

/-- a covering /8 VRP, then the /24 is validated; a locally originated route with an empty
    AS_PATH has the speaker's own AS (64999), not the peer session's local AS (65000), as origin -/
def exampleCase : Case :=
  ⟨65000, 64999, [.ins ⟨1, 0⟩ ⟨.v4, [10, 0, 0, 0], 8⟩ 24 65001,
           .val ⟨.v4, [10, 1, 1, 0], 24⟩ (some [(2, [65001])]), .iter .v4,
           .ins ⟨1, 0⟩ ⟨.v4, [10, 2, 0, 0], 16⟩ 24 64999,
           .display true .valid ⟨.v4, [10, 2, 1, 0], 24⟩ none,
           .display false .valid ⟨.v4, [10, 2, 1, 0], 24⟩ none]⟩

example : run exampleCase = .ok
    [.v ⟨.valid, .none, [(⟨.v4, [10, 0, 0, 0], 8⟩, ⟨24, 65001, ⟨1, 0⟩⟩)], [], []⟩,
     .it [(⟨.v4, [10, 0, 0, 0], 8⟩, ⟨24, 65001, ⟨1, 0⟩⟩)],
     .api (some (.valid, .none)) true, .api (some (.invalid, .asn)) false] := by decide

/-- the model never panics (`key_to_addr` always sees a well-formed key) -/
theorem run_never_panics (c : Case) (hwf : CaseWF c) : ∃ obs, run c = .ok obs := by
  obtain ⟨t', obs, hrun, _, _⟩ := run_ok c.localAsn c.globalAsn c.ops {} [] TableInv.empty R.empty hwf
  exact ⟨obs, by simp [run, hrun]⟩

/-! ## 1. validate = RFC 6811 -/

/-- "covered" in the specification is the bit-level definition of the property text:
    same family, VRP length ≤ route length (and ≤ the address width), first `len` bits equal. -/
theorem covers_iff_bits (c : Src) (n : Net) (ml a : Nat) (hn : NetWF n) (r : Net) :
    covers (vrpOf c n ml a) r = true ↔
      n.fam = r.fam ∧ n.len ≤ r.len ∧ n.len ≤ 8 * n.fam.nbytes ∧
      (bitsOf n.addr).take n.len = (bitsOf r.addr).take n.len :=
  covers_vrpOf_iff c n ml a hn r

/-- **For every VRP list (also the empty one), every IPv4/IPv6 route (any address content, any
    mask) and every AS_PATH, the state returned by `validate` is the RFC 6811 state** of the VRP
    set for the origin AS computed by `routeOrigin` — Valid iff some covering VRP has that origin
    (≠ 0) and max-length ≥ the route length, Invalid iff some VRP covers and none matches,
    NotFound iff none covers. -/
theorem validate_eq_rfc6811 (vrps : List (Src × Net × Nat × Nat)) (hwf : ∀ v ∈ vrps, NetWF v.2.1)
    (r : Net) (hr : NetWF r) (localAsn : Nat) (path : Option (List Seg)) :
    ((tableOf vrps).validate localAsn r path).map (·.state)
      = some (rfc6811 (vrpSet vrps) (routeOrigin localAsn path) r) := by
  obtain ⟨hi, hmem⟩ := tableOf_spec vrps hwf
  rw [validate_state hi hr localAsn path, rfc6811_congr hmem]

/-- no VRP at all: every route is NotFound -/
example (r : Net) (hr : NetWF r) (la : Nat) (path : Option (List Seg)) :
    ((tableOf []).validate la r path).map (·.state) = some .notFound := by
  rw [validate_eq_rfc6811 [] (by intro v hv; cases hv) r hr la path]; rfl

/-- The origin AS handed to the classification is RFC 6811's Route Origin ASN: rightmost AS of
    a final AS_SEQUENCE; the speaker's own AS for an empty/absent path or a confederation tail;
    NONE for an AS_SET tail (paths as `Attribute::decode` yields them).  `localAsn` is whatever
    `validate` is handed as the speaker's AS: `step` hands it the peer session's local AS for a
    peer-learned route and the global AS (`RpkiTable.local_asn`) for a locally originated one
    (`origin_of_local_route`). -/
theorem origin_is_rfc6811 (localAsn : Nat) (path : Option (List Seg))
    (hwf : ∀ segs, path = some segs → pathWF segs = true) :
    routeOrigin localAsn path = originRfc localAsn path :=
  Rbgp.Rpki.origin_is_rfc6811 localAsn path hwf

/-- A locally originated route (`Source::local()`) is validated with the speaker's global AS, a
    peer-learned one with the session's local AS: what `show` reports is the RFC 6811 state for
    `originRfc` of that AS. -/
theorem origin_of_local_route (la ga : Nat) (t : Table) (hi : TableInv t) (loc : Bool) (st : VState)
    (r : Net) (hr : NetWF r) (path : Option (List Seg)) (henc : PathEnc path)
    (hwf : ∀ segs, path = some segs → pathWF segs = true) :
    ∃ res : Validation, step la ga t (.display loc st r path)
        = .ok (t, some (.api (some (res.state, res.reason)) (decide (res.state = st)))) ∧
      res.state = rfc6811 (abs t) (originRfc (if loc then ga else la) path) r := by
  have h := validate_state hi hr (if loc then ga else la) path
  cases hv : t.validate (if loc then ga else la) r path with
  | none => simp [hv] at h
  | some res =>
    refine ⟨res, by simp [step, validateB_eq _ _ _ _ henc, hv], ?_⟩
    rw [hv] at h
    simp only [Option.map_some, Option.some.injEq] at h
    rw [h, Rbgp.Rpki.origin_is_rfc6811 _ path hwf]

/-- **The origin the code derives by walking the BYTES of the AS_PATH attribute
    (`Attribute::as_path_origin`, `as_path_final_segment_type`) is, for the wire encoding of every
    segment list (type and count fit an octet, AS numbers four), the segment-level `routeOrigin`
    above; in particular neither walk panics.** -/
theorem origin_bytes_eq_segments (localAsn : Nat) (path : Option (List Seg)) (h : PathEnc path) :
    routeOriginBytes localAsn path = .ok (routeOrigin localAsn path) :=
  routeOriginBytes_eq localAsn path h

example : routeOriginBytes 65000 (some [(2, [7, 8]), (1, [9, 4200000000])]) = .ok none := by decide
example : asPathOriginBytes [2, 2, 0, 0, 0, 7, 0, 0, 0] = .panic := by decide     -- a truncated attribute

example : routeOrigin 65000 (some [(2, [7, 8]), (1, [9, 10])]) = none := by decide
example : routeOrigin 65000 (some [(2, [7, 8]), (3, [9])]) = some 65000 := by decide
example : routeOrigin 65000 (some [(1, [9]), (2, [7, 8])]) = some 8 := by decide

/-- Same statement for the table reached by ANY history of insert / remove / drop-source /
    reset (and interleaved queries): the state is the RFC 6811 state of the set fold. -/
theorem validate_eq_rfc6811_reachable (la ga : Nat) (ops : List Op) (hwf : ∀ op ∈ ops, OpWF op)
    (r : Net) (hr : NetWF r) (localAsn : Nat) (path : Option (List Seg)) :
    ∃ t obs, runFrom la ga {} ops = .ok (t, obs) ∧
      (t.validate localAsn r path).map (·.state)
        = some (rfc6811 (ops.foldl sStep []) (routeOrigin localAsn path) r) := by
  obtain ⟨t, obs, hrun, hi, hrel⟩ := run_ok la ga ops {} [] TableInv.empty R.empty hwf
  refine ⟨t, obs, hrun, ?_⟩
  rw [validate_state hi hr localAsn path, rfc6811_congr hrel.mem]

/-- **VRPs that do not cover the route never influence the result** (more-specific, sibling,
    other family, …): adding one to any VRP list leaves the state unchanged. -/
theorem unrelated_vrps_irrelevant (vrps : List (Src × Net × Nat × Nat))
    (hwf : ∀ v ∈ vrps, NetWF v.2.1) (v : Src × Net × Nat × Nat) (hv : NetWF v.2.1)
    (r : Net) (hr : NetWF r) (localAsn : Nat) (path : Option (List Seg))
    (hnc : covers (vrpOf v.1 v.2.1 v.2.2.1 v.2.2.2) r = false) :
    ((tableOf (vrps ++ [v])).validate localAsn r path).map (·.state)
      = ((tableOf vrps).validate localAsn r path).map (·.state) := by
  rw [validate_eq_rfc6811 vrps hwf r hr localAsn path]
  rw [validate_eq_rfc6811 (vrps ++ [v]) (by
        intro w hw
        rcases List.mem_append.1 hw with hw | hw
        · exact hwf w hw
        · simp only [List.mem_singleton] at hw; subst hw; exact hv) r hr localAsn path]
  simp only [vrpSet, List.map_append, List.map_cons, List.map_nil]
  rw [rfc6811_append_not_covering _ _ _ _ hnc]

/-- non-vacuity: a more-specific /25 does not cover the /24, a /8 does -/
example : covers (vrpOf ⟨1, 0⟩ ⟨.v4, [10, 1, 1, 128], 25⟩ 25 1) ⟨.v4, [10, 1, 1, 0], 24⟩ = false := by decide
example : covers (vrpOf ⟨1, 0⟩ ⟨.v4, [10, 0, 0, 0], 8⟩ 24 1) ⟨.v4, [10, 1, 1, 0], 24⟩ = true := by decide

/-! ## 2. The table is a set keyed by (cache, prefix, max-length, AS) -/

/-- **After every history of insert / remove / drop-source / reset the table lists exactly the
    set obtained by folding the set operations, each VRP once.**  (`abs t` is what `iter`
    returns for both families, read as VRPs; two spellings of one prefix are one key.) -/
theorem table_is_set (la ga : Nat) (ops : List Op) (hwf : ∀ op ∈ ops, OpWF op) :
    ∃ t obs, runFrom la ga {} ops = .ok (t, obs) ∧ (abs t).Nodup ∧
      ∀ v, v ∈ abs t ↔ v ∈ ops.foldl sStep [] := by
  obtain ⟨t, obs, hrun, _, hrel⟩ := run_ok la ga ops {} [] TableInv.empty R.empty hwf
  exact ⟨t, obs, hrun, hrel.nodup, hrel.mem⟩

/-- the set operations really are set operations -/
theorem sIns_mem (s : List Vrp) (v x : Vrp) : x ∈ sIns s v ↔ x ∈ s ∨ x = v := by
  unfold sIns
  split
  · rename_i h
    constructor
    · exact Or.inl
    · rintro (h' | rfl)
      · exact h'
      · exact h
  · simp
theorem sRem_mem (s : List Vrp) (v x : Vrp) : x ∈ sRem s v ↔ x ∈ s ∧ x ≠ v := by
  simp [sRem]
theorem sDrop_mem (s : List Vrp) (c : Src) (x : Vrp) : x ∈ sDrop s c ↔ x ∈ s ∧ x.cache ≠ c := by
  simp [sDrop]

end Rbgp.Rpki.Props
