/- Term encoding of C12 cases and observations (see harness/pt/src/bin/c12.rs for the grammar). -/
import Rbgp.Term
import Rbgp.Rpki.Model
namespace Rbgp.Rpki.Codec
open Rbgp Rbgp.Term Rbgp.Rpki

def famT : Fam → Term
  | .v4 => nat 4
  | .v6 => nat 6
def famOf? : Term → Option Fam
  | .atom "4" => some .v4
  | .atom "6" => some .v6
  | _ => none

def natLe? (bound : Nat) (t : Term) : Option Nat := do
  let n ← asNat? t
  if n ≤ bound then some n else none

def netT (n : Net) : Term := list [famT n.fam, bytes n.addr, nat n.len]
def netOf? : Term → Option Net
  | .list [f, b, l] => do
      let f ← famOf? f
      let b ← asBytes? b
      let l ← natLe? 255 l
      if b.length = f.nbytes then some ⟨f, b, l⟩ else none
  | _ => none

def vrp3Of? : List Term → Option (Net × Nat × Nat)
  | [n, ml, a] => do pure ((← netOf? n), (← natLe? 255 ml), (← natLe? 4294967295 a))
  | _ => none

def segOf? : Term → Option Seg
  | .list (t :: asns) => do
      let t ← natLe? 255 t
      let asns ← asns.mapM (natLe? 4294967295)
      if asns.length ≤ 255 then some (t, asns) else none
  | _ => none

def pathOf? : Term → Option (Option (List Seg))
  | .atom "nopath" => some none
  | .list (.atom "path" :: segs) => (segs.mapM segOf?).map some
  | _ => none

def srcOf? (c a : Term) : Option Src := do pure ⟨(← natLe? 250 c), (← natLe? 250 a)⟩

def stateT : VState → Term
  | .valid => sym "valid" | .invalid => sym "invalid" | .notFound => sym "notfound"
def stateOf? : Term → Option VState
  | .atom "valid" => some .valid | .atom "invalid" => some .invalid
  | .atom "notfound" => some .notFound | _ => none
def reasonT : Reason → Term
  | .none => sym "none" | .asn => sym "asn" | .length => sym "length"
def reasonOf? : Term → Option Reason
  | .atom "none" => some .none | .atom "asn" => some .asn | .atom "length" => some .length
  | _ => none

def opOf? : Term → Option Op
  | .list [.atom "ins", c, a, n, ml, asn] => do
      let s ← srcOf? c a
      let v ← vrp3Of? [n, ml, asn]
      pure (.ins s v.1 v.2.1 v.2.2)
  | .list [.atom "rem", c, a, n, ml, asn] => do
      let s ← srcOf? c a
      let v ← vrp3Of? [n, ml, asn]
      pure (.rem s v.1 v.2.1 v.2.2)
  | .list [.atom "drop", c, a] => (srcOf? c a).map .drop
  | .list [.atom "reset", c, a, .list vs] => do
      let s ← srcOf? c a
      let vs ← vs.mapM (fun t => (asList? t).bind vrp3Of?)
      pure (.reset s vs)
  | .list [.atom "val", n, p] => do pure (.val (← netOf? n) (← pathOf? p))
  | .list [.atom "val", n, p, pos] => do
      let _ ← natLe? 3 pos
      pure (.val (← netOf? n) (← pathOf? p))
  | .list [.atom "show", st, n, p] => do pure (.display false (← stateOf? st) (← netOf? n) (← pathOf? p))
  | .list [.atom "showl", st, n, p] => do pure (.display true (← stateOf? st) (← netOf? n) (← pathOf? p))
  | .list [.atom "show", st, n, p, pos] => do
      let _ ← natLe? 3 pos
      pure (.display false (← stateOf? st) (← netOf? n) (← pathOf? p))
  | .list [.atom "showl", st, n, p, pos] => do
      let _ ← natLe? 3 pos
      pure (.display true (← stateOf? st) (← netOf? n) (← pathOf? p))
  | .list [.atom "showk", st, n, p] => do pure (.display true (← stateOf? st) (← netOf? n) (← pathOf? p))
  | .list [.atom "showk", st, n, p, pos] => do
      let _ ← natLe? 3 pos
      pure (.display true (← stateOf? st) (← netOf? n) (← pathOf? p))
  | .list [.atom "iter", f] => (famOf? f).map .iter
  | _ => none

def caseOf? : Term → Option Case
  | .list [.atom "case", la, .list (.atom "ops" :: ops)] => do
      let la ← natLe? 4294967295 la
      let ops ← ops.mapM opOf?
      pure ⟨la, la, ops⟩
  | .list [.atom "case", la, ga, .list (.atom "ops" :: ops)] => do
      let la ← natLe? 4294967295 la
      let ga ← natLe? 4294967295 ga
      let ops ← ops.mapM opOf?
      pure ⟨la, ga, ops⟩
  | _ => none

/-! observations -/

def entryT (e : Net × Roa) : Term :=
  list [netT e.1, nat e.2.src.cache, nat e.2.src.arc, nat e.2.maxlen, nat e.2.asn]
def entryOf? : Term → Option (Net × Roa)
  | .list [n, c, a, ml, asn] => do
      pure ((← netOf? n), ⟨(← asNat? ml), (← asNat? asn), ⟨(← asNat? c), (← asNat? a)⟩⟩)
  | _ => none

def obT : Ob → Term
  | .unvalidated => sym "none"
  | .v r => tag "v" [stateT r.state, reasonT r.reason, tag "m" (r.matched.map entryT),
                     tag "ua" (r.unmatchedAsn.map entryT), tag "ul" (r.unmatchedLength.map entryT)]
  | .it l => tag "it" (l.map entryT)
  | .api none f => tag "api" [sym "none", bool f]
  | .api (some r) f => tag "api" [stateT r.1, reasonT r.2, bool f]
def obOf? : Term → Option Ob
  | .atom "none" => some .unvalidated
  | .list [.atom "v", s, r, .list (.atom "m" :: m), .list (.atom "ua" :: ua), .list (.atom "ul" :: ul)] => do
      pure (.v ⟨(← stateOf? s), (← reasonOf? r), (← m.mapM entryOf?), (← ua.mapM entryOf?),
                (← ul.mapM entryOf?)⟩)
  | .list (.atom "it" :: l) => (l.mapM entryOf?).map .it
  | .list [.atom "api", .atom "none", f] => (asBool? f).map (.api none)
  | .list [.atom "api", st, rs, f] => do pure (.api (some ((← stateOf? st), (← reasonOf? rs))) (← asBool? f))
  | _ => none

def outT : Out (List Ob) → Term
  | .panic => list [sym "panic"]
  | .ok obs => tag "obs" (obs.map obT)
def outOf? : Term → Option (Out (List Ob))
  | .list [.atom "panic"] => some .panic
  | .list (.atom "obs" :: obs) => (obs.mapM obOf?).map .ok
  | _ => none

end Rbgp.Rpki.Codec
