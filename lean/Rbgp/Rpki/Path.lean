/- Rbgp.Rpki.Path — the byte-level AS_PATH walks of `validate` (`as_path_origin`,
   `as_path_final_segment_type`) on the wire encoding of a segment list equal the segment-level
   derivation, and never panic (C12 helper lemmas). -/
import Rbgp.Rpki.Model
namespace Rbgp.Rpki

/-- what the case codec (and `Attribute::decode`) guarantees about segments: type and count fit an
    octet, AS numbers fit four -/
def SegEnc (s : Seg) : Prop := s.1 < 256 ∧ s.2.length < 256 ∧ ∀ a ∈ s.2, a < 4294967296

def PathEnc : Option (List Seg) → Prop
  | none => True
  | some segs => ∀ s ∈ segs, SegEnc s

theorem rd32_be32' (n : Nat) (h : n < 4294967296) (rest : List Nat) : rd32 (be32 n ++ rest) = some n := by
  simp only [be32, rd32, List.cons_append, List.nil_append, Option.some.injEq]
  omega

theorem be32_length' (n : Nat) : (be32 n).length = 4 := rfl

/-- reading the AS numbers of a segment: the last one is kept, the rest of the buffer remains -/
theorem readAsns_enc (asns : List Nat) (h : ∀ a ∈ asns, a < 4294967296) (rest : List Nat) (asn0 : Nat) :
    readAsns asns.length (asns.flatMap be32 ++ rest) asn0 = some (asns.getLast?.getD asn0, rest) := by
  induction asns generalizing asn0 with
  | nil => simp [readAsns]
  | cons a as ih =>
    have ha : a < 4294967296 := h a (by simp)
    simp only [List.length_cons, readAsns, List.flatMap_cons, List.append_assoc, rd32_be32' a ha]
    have hd : (be32 a ++ (as.flatMap be32 ++ rest)).drop 4 = as.flatMap be32 ++ rest := by
      rw [List.drop_left' (be32_length' a)]
    rw [hd, ih (fun x hx => h x (by simp [hx])) a]
    cases as with
    | nil => simp
    | cons b bs =>
      have : (b :: bs).getLast? = some ((b :: bs).getLast (by simp)) := List.getLast?_eq_some_getLast (by simp)
      simp [List.getLast?_cons_cons, this]

theorem encSeg_length_pos (s : Seg) : 2 ≤ (encSeg s).length := by simp [encSeg]

/-- the walk of `as_path_origin` over the encoding of a segment list -/
theorem originWalk_enc (segs : List Seg) : ∀ (fuel : Nat) (st : Nat × Nat × Nat),
    (∀ s ∈ segs, SegEnc s) → segs.length ≤ fuel →
    originWalk fuel (encPath segs) st =
      .ok (segs.foldl (fun st s => (s.1, s.2.length, s.2.getLast?.getD st.2.2)) st) := by
  induction segs with
  | nil => intro fuel st _ _; cases fuel <;> simp [encPath, originWalk]
  | cons s rest ih =>
    intro fuel st henc hfuel
    obtain ⟨fuel', rfl⟩ : ∃ k, fuel = k + 1 := ⟨fuel - 1, by simp at hfuel; omega⟩
    obtain ⟨h1, h2, h3⟩ := henc s (by simp)
    have henc' : ∀ x ∈ rest, SegEnc x := fun x hx => henc x (by simp [hx])
    simp only [encPath, List.flatMap_cons, encSeg, List.cons_append, List.nil_append, List.append_assoc,
      originWalk, Nat.mod_eq_of_lt h1, Nat.mod_eq_of_lt h2]
    rw [readAsns_enc s.2 h3]
    simp only [List.foldl_cons]
    have := ih fuel' (s.1, s.2.length, s.2.getLast?.getD st.2.2) henc' (by simp at hfuel; omega)
    simpa [encPath] using this

theorem encPath_length_ge (segs : List Seg) : 2 * segs.length ≤ (encPath segs).length := by
  induction segs with
  | nil => simp [encPath]
  | cons s rest ih =>
    simp only [encPath, List.flatMap_cons, List.length_append, List.length_cons] at ih ⊢
    have := encSeg_length_pos s
    omega

theorem foldl_last (segs : List Seg) (st : Nat × Nat × Nat) (h : segs ≠ []) :
    ∃ asn, segs.foldl (fun st s => (s.1, s.2.length, s.2.getLast?.getD st.2.2)) st
      = ((segs.getLast h).1, (segs.getLast h).2.length, (segs.getLast h).2.getLast?.getD asn) := by
  induction segs generalizing st with
  | nil => exact absurd rfl h
  | cons s rest ih =>
    cases rest with
    | nil => exact ⟨st.2.2, by simp⟩
    | cons r rs =>
      obtain ⟨asn, hasn⟩ := ih (s.1, s.2.length, s.2.getLast?.getD st.2.2) (by simp)
      exact ⟨asn, by simpa [List.getLast_cons] using hasn⟩

/-- **`as_path_origin` on the encoded attribute = the segment-level derivation** -/
theorem asPathOriginBytes_enc (segs : List Seg) (henc : ∀ s ∈ segs, SegEnc s) :
    asPathOriginBytes (encPath segs) = .ok (asPathOrigin segs) := by
  cases segs with
  | nil => simp [asPathOriginBytes, encPath, asPathOrigin]
  | cons s rest =>
    have hlen := encPath_length_ge (s :: rest)
    have h2 : ¬ (encPath (s :: rest)).length < 2 := by simp at hlen; omega
    simp only [asPathOriginBytes, h2, if_false]
    rw [originWalk_enc (s :: rest) _ (0, 0, 0) henc (by omega)]
    obtain ⟨asn, hasn⟩ := foldl_last (s :: rest) (0, 0, 0) (by simp)
    rw [hasn]
    simp only [asPathOrigin, List.getLast?_eq_some_getLast (l := s :: rest) (by simp)]
    generalize (s :: rest).getLast (by simp) = last
    obtain ⟨t, asns⟩ := last
    cases asns with
    | nil => simp
    | cons a as =>
      have : ((a :: as).getLast?) = some ((a :: as).getLast (by simp)) := List.getLast?_eq_some_getLast (by simp)
      simp [this]

theorem finalTypeWalk_enc (segs : List Seg) : ∀ (fuel : Nat) (acc : Option Nat),
    (∀ s ∈ segs, SegEnc s) → segs.length ≤ fuel →
    finalTypeWalk fuel (encPath segs) acc = (match segs.getLast? with | some s => some s.1 | none => acc) := by
  induction segs with
  | nil => intro fuel acc _ _; cases fuel <;> simp [encPath, finalTypeWalk]
  | cons s rest ih =>
    intro fuel acc henc hfuel
    obtain ⟨fuel', rfl⟩ : ∃ k, fuel = k + 1 := ⟨fuel - 1, by simp at hfuel; omega⟩
    obtain ⟨h1, h2, h3⟩ := henc s (by simp)
    have henc' : ∀ x ∈ rest, SegEnc x := fun x hx => henc x (by simp [hx])
    have hlen : (s.2.flatMap be32).length = s.2.length * 4 := by
      induction s.2 with
      | nil => rfl
      | cons a as iha => simp [List.flatMap_cons, be32_length', iha]; omega
    simp only [encPath, List.flatMap_cons, encSeg, List.cons_append, List.nil_append, List.append_assoc,
      finalTypeWalk, Nat.mod_eq_of_lt h1, Nat.mod_eq_of_lt h2]
    rw [List.drop_left' hlen]
    have := ih fuel' (some s.1) henc' (by simp at hfuel; omega)
    simp only [encPath] at this
    rw [this]
    cases rest with
    | nil => simp
    | cons r rs =>
      have : (r :: rs).getLast? = some ((r :: rs).getLast (by simp)) := List.getLast?_eq_some_getLast (by simp)
      simp [List.getLast?_cons_cons, this]

theorem finalSegTypeBytes_enc (segs : List Seg) (henc : ∀ s ∈ segs, SegEnc s) :
    finalSegTypeBytes (encPath segs) = finalSegType segs := by
  have hlen := encPath_length_ge segs
  rw [finalSegTypeBytes, finalTypeWalk_enc segs _ none henc (by omega)]
  simp only [finalSegType]
  cases segs.getLast? <;> rfl

/-- **the origin the code derives from the bytes is the one of the segment-level model; no panic** -/
theorem routeOriginBytes_eq (localAsn : Nat) (path : Option (List Seg)) (h : PathEnc path) :
    routeOriginBytes localAsn path = .ok (routeOrigin localAsn path) := by
  cases path with
  | none => rfl
  | some segs =>
    simp only [routeOriginBytes, routeOrigin, asPathOriginBytes_enc segs h, finalSegTypeBytes_enc segs h]
    cases asPathOrigin segs with
    | some a => rfl
    | none =>
      simp only
      cases finalSegType segs with
      | none => rfl
      | some t => by_cases h1 : t = 1 <;> simp [h1]

theorem validateB_eq (t : Table) (localAsn : Nat) (net : Net) (path : Option (List Seg)) (h : PathEnc path) :
    t.validateB localAsn net path = .ok (t.validate localAsn net path) := by
  simp only [Table.validateB, routeOriginBytes_eq localAsn path h, Table.validate]

end Rbgp.Rpki
