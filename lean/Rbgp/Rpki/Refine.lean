/- Rbgp.Rpki.Refine — the model table refines a finite set of VRPs (C12 helper lemmas):
   association-list lemmas, the abstraction `abs`, invariants, and the effect of
   insert / remove / drop_source / reset on the abstraction. -/
import Rbgp.Rpki.Bits
namespace Rbgp.Rpki
open Spec

/-! ## the association list as a finite map -/

def keys (m : Trie) : List Key := m.map (·.1)

theorem get_mem {m : Trie} {k : Key} {e : List Roa} (h : m.get k = some e) : (k, e) ∈ m := by
  induction m with
  | nil => simp [Trie.get] at h
  | cons p rest ih =>
    obtain ⟨k0, e0⟩ := p
    simp only [Trie.get] at h
    split at h
    · rename_i hk; cases h; subst hk; simp
    · simp [ih h]

theorem get_none_iff {m : Trie} {k : Key} : m.get k = none ↔ k ∉ keys m := by
  induction m with
  | nil => simp [Trie.get, keys]
  | cons p rest ih =>
    obtain ⟨k0, e0⟩ := p
    simp only [Trie.get, keys, List.map_cons, List.mem_cons]
    split
    · rename_i hk; subst hk; simp
    · rename_i hk
      rw [ih]
      have : k ≠ k0 := fun h => hk h.symm
      simp [keys, this]

theorem mem_keys_of_mem {m : Trie} {p : Key × List Roa} (h : p ∈ m) : p.1 ∈ keys m :=
  List.mem_map_of_mem h

theorem get_of_mem {m : Trie} {k : Key} {e : List Roa} (hnd : (keys m).Nodup) (h : (k, e) ∈ m) :
    m.get k = some e := by
  induction m with
  | nil => simp at h
  | cons p rest ih =>
    obtain ⟨k0, e0⟩ := p
    simp only [keys, List.map_cons, List.nodup_cons] at hnd
    simp only [Trie.get]
    simp only [List.mem_cons, Prod.mk.injEq] at h
    rcases h with ⟨rfl, rfl⟩ | h
    · simp
    · have : k0 ≠ k := by
        intro hk; subst hk
        exact hnd.1 (mem_keys_of_mem h)
      simp [this, ih hnd.2 h]

theorem remove_of_not_mem {m : Trie} {k : Key} (h : k ∉ keys m) : m.remove k = m := by
  simp only [Trie.remove]
  apply List.filter_eq_self.2
  intro p hp
  have : p.1 ≠ k := fun hk => h (hk ▸ mem_keys_of_mem hp)
  simpa using this

theorem keys_set (m : Trie) (k : Key) (v : List Roa) : keys (m.set k v) = keys m := by
  induction m with
  | nil => simp [Trie.set]
  | cons p rest ih =>
    obtain ⟨k0, e0⟩ := p
    simp only [Trie.set]
    split
    · simp [keys]
    · simp only [keys, List.map_cons] at ih ⊢; rw [ih]

theorem get_set_self {m : Trie} {k : Key} (v : List Roa) (h : k ∈ keys m) :
    (m.set k v).get k = some v := by
  induction m with
  | nil => simp [keys] at h
  | cons p rest ih =>
    obtain ⟨k0, e0⟩ := p
    simp only [Trie.set]
    split
    · rename_i hk; simp [Trie.get, hk]
    · rename_i hk
      simp only [Trie.get, hk, if_false]
      apply ih
      simp only [keys, List.map_cons, List.mem_cons] at h
      rcases h with h | h
      · exact absurd h.symm hk
      · exact h

theorem remove_set (m : Trie) (k : Key) (v : List Roa) : (m.set k v).remove k = m.remove k := by
  induction m with
  | nil => simp [Trie.set]
  | cons p rest ih =>
    obtain ⟨k0, e0⟩ := p
    simp only [Trie.set]
    split
    · rename_i hk; simp [Trie.remove, hk]
    · rename_i hk
      simp only [Trie.remove, List.filter_cons] at ih ⊢
      rw [ih]

theorem mem_set {m : Trie} {k : Key} {v : List Roa} {p : Key × List Roa} (h : p ∈ m.set k v) :
    p ∈ m ∨ p = (k, v) := by
  induction m with
  | nil => simp [Trie.set] at h
  | cons q rest ih =>
    obtain ⟨k0, e0⟩ := q
    simp only [Trie.set] at h
    split at h
    · rename_i hk
      simp only [List.mem_cons] at h
      rcases h with h | h
      · right; rw [h, hk]
      · left; simp [h]
    · simp only [List.mem_cons] at h
      rcases h with h | h
      · left; simp [h]
      · rcases ih h with h | h
        · left; simp [h]
        · right; exact h

theorem mem_insertNew {m : Trie} {k : Key} {v : List Roa} {p : Key × List Roa}
    (h : p ∈ m.insertNew k v) : p ∈ m ∨ p = (k, v) := by
  induction m with
  | nil => simp [Trie.insertNew] at h; right; exact h
  | cons q rest ih =>
    obtain ⟨k0, e0⟩ := q
    simp only [Trie.insertNew] at h
    split at h
    · simp only [List.mem_cons] at h
      rcases h with h | h | h
      · right; exact h
      · left; simp [h]
      · left; simp [h]
    · simp only [List.mem_cons] at h
      rcases h with h | h
      · left; simp [h]
      · rcases ih h with h | h
        · left; simp [h]
        · right; exact h

theorem keys_insertNew_perm (m : Trie) (k : Key) (v : List Roa) :
    (keys (m.insertNew k v)).Perm (k :: keys m) := by
  induction m with
  | nil => simp [Trie.insertNew, keys]
  | cons q rest ih =>
    obtain ⟨k0, e0⟩ := q
    simp only [Trie.insertNew]
    split
    · simp [keys]
    · simp only [keys, List.map_cons] at ih ⊢
      exact (List.Perm.cons k0 ih).trans (List.Perm.swap k k0 _)

theorem keys_remove_sublist (m : Trie) (k : Key) : (keys (m.remove k)).Sublist (keys m) := by
  simp only [keys, Trie.remove]
  exact List.Sublist.map _ List.filter_sublist

/-! ## abstraction to a list of VRPs -/

def splitKey (k : Key) : List Nat × Nat := (k.dropLast, k.getLast?.getD 0)

@[simp] theorem splitKey_append (a : List Nat) (l : Nat) : splitKey (a ++ [l]) = (a, l) := by
  simp [splitKey]

def keyVrp (f : Fam) (k : Key) (r : Roa) : Vrp :=
  ⟨r.src, f, (splitKey k).2, (bitsOf (splitKey k).1).take (splitKey k).2, r.maxlen, r.asn⟩

def absTrie (f : Fam) (m : Trie) : List Vrp := m.flatMap (fun p => p.2.map (keyVrp f p.1))

def abs (t : Table) : List Vrp := absTrie .v4 t.v4 ++ absTrie .v6 t.v6

theorem absTrie_cons (f : Fam) (k : Key) (e : List Roa) (m : Trie) :
    absTrie f ((k, e) :: m) = e.map (keyVrp f k) ++ absTrie f m := by
  simp [absTrie]

theorem mem_absTrie {f : Fam} {m : Trie} {v : Vrp} :
    v ∈ absTrie f m ↔ ∃ k e r, (k, e) ∈ m ∧ r ∈ e ∧ v = keyVrp f k r := by
  simp only [absTrie, List.mem_flatMap, List.mem_map]
  constructor
  · rintro ⟨⟨k, e⟩, hp, r, hr, rfl⟩; exact ⟨k, e, r, hp, hr, rfl⟩
  · rintro ⟨k, e, r, hp, hr, rfl⟩; exact ⟨(k, e), hp, r, hr, rfl⟩

theorem fam_of_mem_absTrie {f : Fam} {m : Trie} {v : Vrp} (h : v ∈ absTrie f m) : v.fam = f := by
  obtain ⟨k, e, r, _, _, rfl⟩ := mem_absTrie.1 h
  rfl

/-- (P1) -/
theorem absTrie_perm_get {f : Fam} {m : Trie} {k : Key} {e : List Roa} (hnd : (keys m).Nodup)
    (h : m.get k = some e) :
    (absTrie f m).Perm (e.map (keyVrp f k) ++ absTrie f (m.remove k)) := by
  induction m with
  | nil => simp [Trie.get] at h
  | cons p rest ih =>
    obtain ⟨k0, e0⟩ := p
    simp only [keys, List.map_cons, List.nodup_cons] at hnd
    simp only [Trie.get] at h
    split at h
    · rename_i hk
      cases h; subst hk
      have : Trie.remove ((k0, e) :: rest) k0 = rest := by
        simp only [Trie.remove, List.filter_cons, ne_eq, not_true_eq_false, decide_false]
        simp only [Bool.false_eq_true, if_false]
        apply List.filter_eq_self.2
        intro p hp
        have : p.1 ≠ k0 := fun hk => hnd.1 (hk ▸ mem_keys_of_mem hp)
        simpa using this
      rw [this, absTrie_cons]
    · rename_i hk
      have hr : Trie.remove ((k0, e0) :: rest) k = (k0, e0) :: Trie.remove rest k := by
        simp [Trie.remove, hk]
      rw [hr, absTrie_cons, absTrie_cons]
      have := ih hnd.2 h
      exact (List.Perm.append_left _ this).trans (List.perm_append_comm_assoc _ _ _)

/-- (P2) -/
theorem absTrie_perm_set {f : Fam} {m : Trie} {k : Key} (v : List Roa) (hnd : (keys m).Nodup)
    (hk : k ∈ keys m) :
    (absTrie f (m.set k v)).Perm (v.map (keyVrp f k) ++ absTrie f (m.remove k)) := by
  have := absTrie_perm_get (f := f) (m := m.set k v) (k := k) (e := v)
    (by rw [keys_set]; exact hnd) (get_set_self v hk)
  rwa [remove_set] at this

/-- (P3) -/
theorem absTrie_perm_insertNew (f : Fam) (m : Trie) (k : Key) (v : List Roa) :
    (absTrie f (m.insertNew k v)).Perm (v.map (keyVrp f k) ++ absTrie f m) := by
  induction m with
  | nil => simp [Trie.insertNew, absTrie]
  | cons q rest ih =>
    obtain ⟨k0, e0⟩ := q
    simp only [Trie.insertNew]
    split
    · rw [absTrie_cons]
    · rw [absTrie_cons, absTrie_cons]
      exact (List.Perm.append_left _ ih).trans (List.perm_append_comm_assoc _ _ _)

/-- (P4) `drop_source` is a filter of the abstraction -/
theorem absTrie_dropTrie (f : Fam) (m : Trie) (s : Src) :
    absTrie f (dropTrie m s) = (absTrie f m).filter (fun v => v.cache ≠ s) := by
  induction m with
  | nil => simp [dropTrie, absTrie]
  | cons q rest ih =>
    obtain ⟨k0, e0⟩ := q
    rw [absTrie_cons, List.filter_append, ← ih]
    have hmap : (e0.map (keyVrp f k0)).filter (fun v => v.cache ≠ s)
        = (e0.filter (fun e => e.src ≠ s)).map (keyVrp f k0) := by
      rw [List.filter_map]
      rfl
    rw [hmap]
    by_cases hne : e0.filter (fun e => e.src ≠ s) = []
    · have : dropTrie ((k0, e0) :: rest) s = dropTrie rest s := by
        simp only [dropTrie, List.map_cons, List.filter_cons, hne]
        simp
      rw [this, hne]; simp
    · have : dropTrie ((k0, e0) :: rest) s
          = (k0, e0.filter (fun e => e.src ≠ s)) :: dropTrie rest s := by
        have hb : (List.filter (fun e => decide (e.src ≠ s)) e0).isEmpty = false := by
          cases h : List.filter (fun e => decide (e.src ≠ s)) e0 with
          | nil => exact absurd h hne
          | cons _ _ => rfl
        simp only [dropTrie, List.map_cons, List.filter_cons, hb]
        simp
      rw [this, absTrie_cons]

/-! ## invariants -/

def KeyOK (f : Fam) (k : Key) : Prop :=
  ∃ a l, k = a ++ [l] ∧ a.length = f.nbytes ∧ Bytes a ∧ maskBytes l a = a

structure TrieInv (f : Fam) (m : Trie) : Prop where
  nodup : (keys m).Nodup
  keyOK : ∀ p ∈ m, KeyOK f p.1
  nonempty : ∀ p ∈ m, p.2 ≠ []

def NetWF (n : Net) : Prop := n.addr.length = n.fam.nbytes ∧ Bytes n.addr

theorem keyOK_prefixKey {n : Net} (h : NetWF n) (l : Nat) : KeyOK n.fam (prefixKey n.addr l) := by
  refine ⟨maskBytes l n.addr, l, prefixKey_eq _ _, by simp [h.1], (maskBytes_idem _ h.2 l).2,
    (maskBytes_idem _ h.2 l).1⟩

/-- the VRP stored under `prefix_key(net)` is the VRP of `net` -/
theorem keyVrp_prefixKey {n : Net} (h : NetWF n) (r : Roa) :
    keyVrp n.fam (prefixKey n.addr n.len) r = vrpOf r.src n r.maxlen r.asn := by
  simp [keyVrp, prefixKey_eq, vrpOf, prefixBits, take_bits_maskBytes _ h.2]

theorem keyVrp_inj {f : Fam} {k1 k2 : Key} {r1 r2 : Roa} (h1 : KeyOK f k1) (h2 : KeyOK f k2)
    (h : keyVrp f k1 r1 = keyVrp f k2 r2) : k1 = k2 ∧ r1 = r2 := by
  obtain ⟨a1, l1, rfl, hl1, hb1, hm1⟩ := h1
  obtain ⟨a2, l2, rfl, hl2, hb2, hm2⟩ := h2
  simp only [keyVrp, splitKey_append, Vrp.mk.injEq] at h
  obtain ⟨hs, -, hl, hbits, hml, hasn⟩ := h
  subst hl
  have := (maskBytes_eq_iff a1 a2 (by rw [hl1, hl2]) hb1 hb2 l1).2 hbits
  rw [hm1, hm2] at this
  subst this
  refine ⟨rfl, ?_⟩
  cases r1; cases r2; simp_all

theorem keyVrp_inj_roa {f : Fam} {k : Key} {r1 r2 : Roa} (h : keyVrp f k r1 = keyVrp f k r2) :
    r1 = r2 := by
  simp only [keyVrp, Vrp.mk.injEq] at h
  cases r1; cases r2; simp_all

/-- a VRP of key `k` is not in the abstraction of a trie without `k` -/
theorem not_mem_absTrie_of_key {f : Fam} {m : Trie} {k : Key} {r : Roa} (hk : KeyOK f k)
    (hm : ∀ p ∈ m, KeyOK f p.1) (hnk : k ∉ keys m) : keyVrp f k r ∉ absTrie f m := by
  intro h
  obtain ⟨k', e, r', hp, _, heq⟩ := mem_absTrie.1 h
  have := (keyVrp_inj hk (hm _ hp) heq).1
  exact hnk (this ▸ mem_keys_of_mem hp)

theorem not_mem_keys_remove (m : Trie) (k : Key) : k ∉ keys (m.remove k) := by
  simp [keys, Trie.remove]

theorem mem_remove {m : Trie} {k : Key} {p : Key × List Roa} (h : p ∈ m.remove k) : p ∈ m := by
  simp only [Trie.remove, List.mem_filter] at h
  exact h.1

theorem TrieInv.remove {f : Fam} {m : Trie} (h : TrieInv f m) (k : Key) : TrieInv f (m.remove k) :=
  ⟨(keys_remove_sublist m k).nodup h.nodup, fun p hp => h.keyOK p (mem_remove hp),
   fun p hp => h.nonempty p (mem_remove hp)⟩

theorem TrieInv.set {f : Fam} {m : Trie} (h : TrieInv f m) {k : Key} (hk : KeyOK f k)
    {v : List Roa} (hv : v ≠ []) : TrieInv f (m.set k v) := by
  refine ⟨by rw [keys_set]; exact h.nodup, ?_, ?_⟩
  · intro p hp
    rcases mem_set hp with hp | rfl
    · exact h.keyOK p hp
    · exact hk
  · intro p hp
    rcases mem_set hp with hp | rfl
    · exact h.nonempty p hp
    · exact hv

theorem TrieInv.insertNew {f : Fam} {m : Trie} (h : TrieInv f m) {k : Key} (hk : KeyOK f k)
    (hnk : k ∉ keys m) {v : List Roa} (hv : v ≠ []) : TrieInv f (m.insertNew k v) := by
  refine ⟨?_, ?_, ?_⟩
  · exact (keys_insertNew_perm m k v).nodup_iff.2 (List.nodup_cons.2 ⟨hnk, h.nodup⟩)
  · intro p hp
    rcases mem_insertNew hp with hp | rfl
    · exact h.keyOK p hp
    · exact hk
  · intro p hp
    rcases mem_insertNew hp with hp | rfl
    · exact h.nonempty p hp
    · exact hv

theorem TrieInv.drop {f : Fam} {m : Trie} (h : TrieInv f m) (s : Src) : TrieInv f (dropTrie m s) := by
  have hsub : (keys (dropTrie m s)).Sublist (keys m) := by
    simp only [keys, dropTrie]
    have : (m.map (fun p => (p.1, p.2.filter (fun e => e.src ≠ s)))).map (·.1) = m.map (·.1) := by
      simp [List.map_map, Function.comp_def]
    rw [← this]
    exact List.Sublist.map _ List.filter_sublist
  refine ⟨hsub.nodup h.nodup, ?_, ?_⟩
  · intro p hp
    simp only [dropTrie, List.mem_filter, List.mem_map] at hp
    obtain ⟨⟨q, hq, rfl⟩, _⟩ := hp
    exact h.keyOK q hq
  · intro p hp
    simp only [dropTrie, List.mem_filter] at hp
    intro hnil
    simp [hnil] at hp

/-! ## one trie: the three kinds of change -/

/-- insert into one trie (the body of `RpkiTable::insert` after the family was selected) -/
def insTrie (m : Trie) (key : Key) (roa : Roa) : Trie :=
  match m.get key with
  | some entry =>
      if entry.any (fun e => e.src = roa.src ∧ e.maxlen = roa.maxlen ∧ e.asn = roa.asn) then m
      else m.set key (entry ++ [roa])
  | none => m.insertNew key [roa]

def remTrie (m : Trie) (key : Key) (roa : Roa) : Trie :=
  match m.get key with
  | some entry =>
      let entry' := entry.filter
        (fun e => ¬ (e.src = roa.src ∧ e.maxlen = roa.maxlen ∧ e.asn = roa.asn))
      if entry'.isEmpty then m.remove key else m.set key entry'
  | none => m

theorem any_same_iff (entry : List Roa) (roa : Roa) :
    entry.any (fun e => e.src = roa.src ∧ e.maxlen = roa.maxlen ∧ e.asn = roa.asn) = true
      ↔ roa ∈ entry := by
  simp only [List.any_eq_true, decide_eq_true_eq]
  constructor
  · rintro ⟨e, he, h1, h2, h3⟩
    have : e = roa := by cases e; cases roa; simp_all
    exact this ▸ he
  · intro h; exact ⟨roa, h, rfl, rfl, rfl⟩

theorem filter_same_eq (entry : List Roa) (roa : Roa) :
    entry.filter (fun e => ¬ (e.src = roa.src ∧ e.maxlen = roa.maxlen ∧ e.asn = roa.asn))
      = entry.filter (· ≠ roa) := by
  apply List.filter_congr
  intro e _
  have : (e.src = roa.src ∧ e.maxlen = roa.maxlen ∧ e.asn = roa.asn) ↔ e = roa := by
    constructor
    · rintro ⟨h1, h2, h3⟩; cases e; cases roa; simp_all
    · rintro rfl; exact ⟨rfl, rfl, rfl⟩
  simp [this]

theorem insTrie_spec {f : Fam} {m : Trie} (h : TrieInv f m) {k : Key} (hk : KeyOK f k) (roa : Roa) :
    TrieInv f (insTrie m k roa) ∧
    ((keyVrp f k roa ∈ absTrie f m ∧ insTrie m k roa = m) ∨
     (keyVrp f k roa ∉ absTrie f m ∧
      (absTrie f (insTrie m k roa)).Perm (absTrie f m ++ [keyVrp f k roa]))) := by
  unfold insTrie
  cases hg : m.get k with
  | none =>
    have hnk := get_none_iff.1 hg
    refine ⟨h.insertNew hk hnk (by simp), Or.inr ⟨not_mem_absTrie_of_key hk h.keyOK hnk, ?_⟩⟩
    exact (absTrie_perm_insertNew f m k [roa]).trans (List.perm_append_comm (l₁ := [keyVrp f k roa]))
  | some entry =>
    have hmem := get_mem hg
    have hP1 := absTrie_perm_get (f := f) h.nodup hg
    have hnot : keyVrp f k roa ∉ absTrie f (m.remove k) :=
      not_mem_absTrie_of_key hk (h.remove k).keyOK (not_mem_keys_remove m k)
    simp only []
    split
    · rename_i hany
      have hin : roa ∈ entry := (any_same_iff entry roa).1 hany
      refine ⟨h, Or.inl ⟨?_, rfl⟩⟩
      exact mem_absTrie.2 ⟨k, entry, roa, hmem, hin, rfl⟩
    · rename_i hany
      have hin : roa ∉ entry := fun hin => hany ((any_same_iff entry roa).2 hin)
      refine ⟨h.set hk (by simp), Or.inr ⟨?_, ?_⟩⟩
      · intro hv
        have := hP1.mem_iff.1 hv
        rcases List.mem_append.1 this with hv | hv
        · obtain ⟨r', hr', heq⟩ := List.mem_map.1 hv
          exact hin (keyVrp_inj_roa heq ▸ hr')
        · exact hnot hv
      · have hP2 := absTrie_perm_set (f := f) (entry ++ [roa]) h.nodup (mem_keys_of_mem hmem)
        refine hP2.trans ?_
        rw [List.map_append, List.append_assoc]
        refine (List.Perm.append_left _ List.perm_append_comm).trans ?_
        rw [← List.append_assoc]
        exact List.Perm.append_right _ hP1.symm

theorem remTrie_spec {f : Fam} {m : Trie} (h : TrieInv f m) {k : Key} (hk : KeyOK f k) (roa : Roa) :
    TrieInv f (remTrie m k roa) ∧
    (absTrie f (remTrie m k roa)).Perm ((absTrie f m).filter (· ≠ keyVrp f k roa)) := by
  unfold remTrie
  cases hg : m.get k with
  | none =>
    have hnk := get_none_iff.1 hg
    refine ⟨h, ?_⟩
    have : (absTrie f m).filter (· ≠ keyVrp f k roa) = absTrie f m := by
      apply List.filter_eq_self.2
      intro v hv
      have : v ≠ keyVrp f k roa := fun heq => not_mem_absTrie_of_key hk h.keyOK hnk (heq ▸ hv)
      simpa using this
    rw [this]
  | some entry =>
    have hmem := get_mem hg
    have hP1 := absTrie_perm_get (f := f) h.nodup hg
    have hnot : keyVrp f k roa ∉ absTrie f (m.remove k) :=
      not_mem_absTrie_of_key hk (h.remove k).keyOK (not_mem_keys_remove m k)
    have hrest : (absTrie f (m.remove k)).filter (· ≠ keyVrp f k roa) = absTrie f (m.remove k) := by
      apply List.filter_eq_self.2
      intro v hv
      have : v ≠ keyVrp f k roa := fun heq => hnot (heq ▸ hv)
      simpa using this
    have hmapf : (entry.map (keyVrp f k)).filter (· ≠ keyVrp f k roa)
        = (entry.filter (· ≠ roa)).map (keyVrp f k) := by
      rw [List.filter_map]
      congr 1
      apply List.filter_congr
      intro e _
      have : keyVrp f k e = keyVrp f k roa ↔ e = roa :=
        ⟨keyVrp_inj_roa, fun h => h ▸ rfl⟩
      simp [this]
    have htarget : ((absTrie f m).filter (· ≠ keyVrp f k roa)).Perm
        ((entry.filter (· ≠ roa)).map (keyVrp f k) ++ absTrie f (m.remove k)) := by
      refine (hP1.filter _).trans ?_
      rw [List.filter_append, hmapf, hrest]
    simp only [filter_same_eq]
    split
    · rename_i hemp
      have hnil : entry.filter (· ≠ roa) = [] := by simpa using hemp
      refine ⟨h.remove k, ?_⟩
      rw [hnil] at htarget
      simpa using htarget.symm
    · rename_i hemp
      have hne : entry.filter (· ≠ roa) ≠ [] := by simpa using hemp
      refine ⟨h.set hk hne, ?_⟩
      exact (absTrie_perm_set (f := f) _ h.nodup (mem_keys_of_mem hmem)).trans htarget.symm

/-! ## the table: refinement to the set of VRPs -/

structure TableInv (t : Table) : Prop where
  v4 : TrieInv .v4 t.v4
  v6 : TrieInv .v6 t.v6

theorem TableInv.trie {t : Table} (h : TableInv t) (f : Fam) : TrieInv f (t.trie f) := by
  cases f
  · exact h.v4
  · exact h.v6

/-- the model table holds exactly the set `s`, each VRP once -/
structure R (t : Table) (s : List Vrp) : Prop where
  nodup : (abs t).Nodup
  mem : ∀ v, v ∈ abs t ↔ v ∈ s

theorem abs_setTrie_perm (t : Table) (f : Fam) (m : Trie) (l : List Vrp)
    (h : (absTrie f m).Perm (absTrie f (t.trie f) ++ l)) :
    (abs (t.setTrie f m)).Perm (abs t ++ l) := by
  cases f
  · simp only [abs, Table.setTrie, Table.trie] at h ⊢
    refine (List.Perm.append_right _ h).trans ?_
    rw [List.append_assoc, List.append_assoc]
    exact List.Perm.append_left _ List.perm_append_comm
  · simp only [abs, Table.setTrie, Table.trie] at h ⊢
    refine (List.Perm.append_left _ h).trans ?_
    rw [List.append_assoc]

theorem not_mem_abs_of_not_mem_trie {t : Table} {f : Fam} {v : Vrp} (hf : v.fam = f)
    (h : v ∉ absTrie f (t.trie f)) : v ∉ abs t := by
  intro hv
  simp only [abs, List.mem_append] at hv
  cases f
  · rcases hv with hv | hv
    · exact h hv
    · have := fam_of_mem_absTrie hv; rw [hf] at this; cases this
  · rcases hv with hv | hv
    · have := fam_of_mem_absTrie hv; rw [hf] at this; cases this
    · exact h hv

theorem mem_abs_of_mem_trie {t : Table} {f : Fam} {v : Vrp} (h : v ∈ absTrie f (t.trie f)) :
    v ∈ abs t := by
  simp only [abs, List.mem_append]
  cases f
  · exact Or.inl h
  · exact Or.inr h

theorem abs_setTrie_filter (t : Table) (f : Fam) (m : Trie) (v : Vrp) (hf : v.fam = f)
    (h : (absTrie f m).Perm ((absTrie f (t.trie f)).filter (· ≠ v))) :
    (abs (t.setTrie f m)).Perm ((abs t).filter (· ≠ v)) := by
  have other : ∀ g, g ≠ f → (absTrie g (t.trie g)).filter (· ≠ v) = absTrie g (t.trie g) := by
    intro g hg
    apply List.filter_eq_self.2
    intro x hx
    have : x ≠ v := by
      intro heq; subst heq
      exact hg ((fam_of_mem_absTrie hx).symm.trans hf)
    simpa using this
  cases f
  · simp only [abs, Table.setTrie, Table.trie, List.filter_append] at h ⊢
    have := other .v6 (by simp)
    simp only [Table.trie] at this
    rw [this]
    exact List.Perm.append_right _ h
  · simp only [abs, Table.setTrie, Table.trie, List.filter_append] at h ⊢
    have := other .v4 (by simp)
    simp only [Table.trie] at this
    rw [this]
    exact List.Perm.append_left _ h

theorem TableInv.setTrie {t : Table} (h : TableInv t) {f : Fam} {m : Trie} (hm : TrieInv f m) :
    TableInv (t.setTrie f m) := by
  cases f
  · exact ⟨hm, h.v6⟩
  · exact ⟨h.v4, hm⟩

theorem setTrie_trie_self (t : Table) (f : Fam) : t.setTrie f (t.trie f) = t := by
  cases f <;> rfl

theorem insert_eq (t : Table) (net : Net) (roa : Roa) :
    t.insert net roa = t.setTrie net.fam (insTrie (t.trie net.fam) (prefixKey net.addr net.len) roa) := by
  simp only [Table.insert, insTrie]
  cases hg : (t.trie net.fam).get (prefixKey net.addr net.len) with
  | none => rfl
  | some entry =>
    simp only []
    split
    · rw [setTrie_trie_self]
    · rfl

theorem remove_eq (t : Table) (net : Net) (roa : Roa) :
    t.remove net roa = t.setTrie net.fam (remTrie (t.trie net.fam) (prefixKey net.addr net.len) roa) := by
  simp only [Table.remove, remTrie]
  cases hg : (t.trie net.fam).get (prefixKey net.addr net.len) with
  | none => simp only []; rw [setTrie_trie_self]
  | some entry =>
    simp only []
    split <;> rfl

theorem R.sIns_new {t t' : Table} {s : List Vrp} {v : Vrp} (h : R t s) (hv : v ∉ abs t)
    (hp : (abs t').Perm (abs t ++ [v])) : R t' (sIns s v) := by
  have hvs : v ∉ s := fun hvs => hv ((h.mem v).2 hvs)
  refine ⟨hp.nodup_iff.2 ?_, ?_⟩
  · rw [List.nodup_append]
    refine ⟨h.nodup, by simp, ?_⟩
    intro a ha b hb
    simp only [List.mem_singleton] at hb
    subst hb
    exact fun heq => hv (heq ▸ ha)
  · intro x
    rw [hp.mem_iff]
    simp only [sIns, hvs, if_false, List.mem_append, List.mem_singleton, h.mem]

theorem R.sIns_old {t : Table} {s : List Vrp} {v : Vrp} (h : R t s) (hv : v ∈ abs t) :
    R t (sIns s v) := by
  have hvs : v ∈ s := (h.mem v).1 hv
  simpa [sIns, hvs] using h

theorem R.filter {t t' : Table} {s : List Vrp} (p : Vrp → Bool) (h : R t s)
    (hp : (abs t').Perm ((abs t).filter p)) : R t' (s.filter p) := by
  refine ⟨hp.nodup_iff.2 (h.nodup.sublist List.filter_sublist), ?_⟩
  intro x
  rw [hp.mem_iff]
  simp only [List.mem_filter, h.mem]

theorem insert_spec {t : Table} {s : List Vrp} (hi : TableInv t) (hr : R t s) {net : Net}
    (hn : NetWF net) (roa : Roa) :
    TableInv (t.insert net roa) ∧ R (t.insert net roa) (sIns s (vrpOf roa.src net roa.maxlen roa.asn)) := by
  rw [insert_eq]
  have hk := keyOK_prefixKey hn net.len
  obtain ⟨hinv, hcase⟩ := insTrie_spec (hi.trie net.fam) hk roa
  rw [keyVrp_prefixKey hn] at hcase
  refine ⟨hi.setTrie hinv, ?_⟩
  rcases hcase with ⟨hmem, heq⟩ | ⟨hnot, hperm⟩
  · rw [heq, setTrie_trie_self]
    exact hr.sIns_old (mem_abs_of_mem_trie hmem)
  · exact hr.sIns_new (not_mem_abs_of_not_mem_trie rfl hnot) (abs_setTrie_perm t _ _ _ hperm)

theorem remove_spec {t : Table} {s : List Vrp} (hi : TableInv t) (hr : R t s) {net : Net}
    (hn : NetWF net) (roa : Roa) :
    TableInv (t.remove net roa) ∧ R (t.remove net roa) (sRem s (vrpOf roa.src net roa.maxlen roa.asn)) := by
  rw [remove_eq]
  have hk := keyOK_prefixKey hn net.len
  obtain ⟨hinv, hperm⟩ := remTrie_spec (hi.trie net.fam) hk roa
  rw [keyVrp_prefixKey hn] at hperm
  refine ⟨hi.setTrie hinv, ?_⟩
  exact hr.filter _ (abs_setTrie_filter t _ _ _ rfl hperm)

theorem drop_spec {t : Table} {s : List Vrp} (hi : TableInv t) (hr : R t s) (c : Src) :
    TableInv (t.dropSource c) ∧ R (t.dropSource c) (sDrop s c) := by
  refine ⟨⟨hi.v4.drop c, hi.v6.drop c⟩, ?_⟩
  apply hr.filter (fun v => v.cache ≠ c)
  simp only [abs, Table.dropSource, absTrie_dropTrie, List.filter_append]
  exact List.Perm.refl _

theorem reset_spec {t : Table} {s : List Vrp} (hi : TableInv t) (hr : R t s) (c : Src)
    (vs : List (Net × Nat × Nat)) (hvs : ∀ v ∈ vs, NetWF v.1) :
    TableInv (t.reset c vs) ∧ R (t.reset c vs) (sReset s c vs) := by
  simp only [Table.reset, sReset]
  obtain ⟨hi0, hr0⟩ := drop_spec hi hr c
  generalize t.dropSource c = t0 at hi0 hr0
  generalize sDrop s c = s0 at hr0
  induction vs generalizing t0 s0 with
  | nil => exact ⟨hi0, hr0⟩
  | cons v vs ih =>
    simp only [List.foldl_cons]
    have hv := hvs v (by simp)
    obtain ⟨hi1, hr1⟩ := insert_spec hi0 hr0 hv ⟨v.2.1, v.2.2, c⟩
    exact ih (fun w hw => hvs w (by simp [hw])) _ hi1 _ hr1

theorem TableInv.empty : TableInv {} :=
  ⟨⟨by simp [keys], by simp, by simp⟩, ⟨by simp [keys], by simp, by simp⟩⟩

theorem R.empty : R {} [] := ⟨by simp [abs, absTrie], by simp [abs, absTrie]⟩

end Rbgp.Rpki
