/-
  Rbgp.Rpki.Model — executable model of `table::RpkiTable` (table/src/lib.rs) as repaired for
  S21/S22: `prefix_key`, `key_to_addr`, `validate`, `insert`, `remove`, `drop_source`, `iter`,
  plus `TableManager::rpki_reset` (drop_source + inserts) and the origin derivation
  (`Attribute::as_path_origin`, `as_path_final_segment_type`).

  The patricia map is an association list sorted by key bytes (`PatriciaMap` iterates in key
  order); `get`/`get_mut`/`insert`/`remove` have their documented map semantics.
  `Arc<IpAddr>` identity of a ROA's source is the pair (cache address index, Arc instance).
  Import-free (core only).
-/
namespace Rbgp.Rpki

inductive Fam where
  | v4 | v6
  deriving DecidableEq, Repr, Inhabited

def Fam.nbytes : Fam → Nat
  | .v4 => 4
  | .v6 => 16

/-- `packet::IpNet` / the `V4`/`V6` arms of `packet::Nlri`: address octets and mask byte. -/
structure Net where
  fam : Fam
  addr : List Nat
  len : Nat
  deriving DecidableEq, Repr, Inhabited

/-- Identity of an `Arc<IpAddr>`: (address index, which allocation). `Arc::ptr_eq` = equality. -/
structure Src where
  cache : Nat
  arc : Nat
  deriving DecidableEq, Repr, Inhabited

structure Roa where
  maxlen : Nat
  asn : Nat
  src : Src
  deriving DecidableEq, Repr, Inhabited

abbrev Key := List Nat
abbrev Trie := List (Key × List Roa)

/-- `RpkiTable.roas`: one patricia map per family. -/
structure Table where
  v4 : Trie := []
  v6 : Trie := []
  deriving Repr, Inhabited

def Table.trie (t : Table) : Fam → Trie
  | .v4 => t.v4
  | .v6 => t.v6

def Table.setTrie (t : Table) (f : Fam) (m : Trie) : Table :=
  match f with
  | .v4 => { t with v4 := m }
  | .v6 => { t with v6 := m }

/-! ### `prefix_key` -/

/-- `((b as u16) >> host << host) as u8` -/
def maskByte (b host : Nat) : Nat := (b >>> host) <<< host

/-- the loop of `prefix_key`: `i` is the octet index -/
def prefixKeyAux (len : Nat) : Nat → List Nat → List Nat
  | _, [] => []
  | i, b :: bs => maskByte b (min (8 * (i + 1) - len) 8) :: prefixKeyAux len (i + 1) bs

def prefixKey (octets : List Nat) (len : Nat) : Key := prefixKeyAux len 0 octets ++ [len]

/-! ### the patricia map operations that are used -/

def ltKey : Key → Key → Bool
  | [], [] => false
  | [], _ :: _ => true
  | _ :: _, [] => false
  | a :: as, b :: bs => if a < b then true else if b < a then false else ltKey as bs

def Trie.get : Trie → Key → Option (List Roa)
  | [], _ => none
  | (k, e) :: rest, key => if k = key then some e else Trie.get rest key

/-- assignment through `get_mut` (the key is present) -/
def Trie.set : Trie → Key → List Roa → Trie
  | [], _, _ => []
  | (k, e) :: rest, key, v => if k = key then (k, v) :: rest else (k, e) :: Trie.set rest key v

/-- `insert` of a key that is not present: keeps the list sorted -/
def Trie.insertNew : Trie → Key → List Roa → Trie
  | [], key, v => [(key, v)]
  | (k, e) :: rest, key, v =>
      if ltKey key k then (key, v) :: (k, e) :: rest else (k, e) :: Trie.insertNew rest key v

def Trie.remove (t : Trie) (key : Key) : Trie := t.filter (fun p => p.1 ≠ key)

/-! ### `key_to_addr` (panics are explicit) -/

inductive Out (α : Type) where
  | ok : α → Out α
  | panic : Out α
  deriving DecidableEq, Repr

def keyToNet (key : Key) : Out Net :=
  match key.reverse with
  | [] => .panic                         -- `expect("RPKI trie key must end with a prefix-length byte")`
  | mask :: rest =>
      if rest.length = 4 then .ok ⟨.v4, rest.reverse, mask⟩
      else if rest.length = 16 then .ok ⟨.v6, rest.reverse, mask⟩
      else .panic                        -- `unreachable!`

/-! ### origin derivation -/

/-- an AS_PATH segment: (type byte, AS numbers) -/
abbrev Seg := Nat × List Nat

/-- `Attribute::as_path_origin`: last AS of the final segment if that is a non-empty AS_SEQUENCE -/
def asPathOrigin (segs : List Seg) : Option Nat :=
  match segs.getLast? with
  | none => none
  | some (t, asns) =>
      match asns.getLast? with
      | some a => if t = 2 then some a else none
      | none => none

/-- `as_path_final_segment_type` -/
def finalSegType (segs : List Seg) : Option Nat := segs.getLast?.map (·.1)

/-- the `asn` computed at the top of `validate`; `none` is RFC 6811's NONE -/
def routeOrigin (localAsn : Nat) : Option (List Seg) → Option Nat
  | none => some localAsn
  | some segs =>
      match asPathOrigin segs with
      | some a => some a
      | none =>
          match finalSegType segs with
          | some 1 => none
          | _ => some localAsn

/-! ### the same derivation on the bytes of the attribute

`validate` really works on the binary AS_PATH: `Attribute::as_path_origin` walks the segments
with a cursor (`read_u8().unwrap()`, `read_u32().unwrap()`: a truncated attribute panics) and
`as_path_final_segment_type` walks them with an index.  The harness encodes the segments of a
case as the wire does (type octet, count octet, four octets per AS). -/

def be32 (n : Nat) : List Nat := [n / 16777216 % 256, n / 65536 % 256, n / 256 % 256, n % 256]

def encSeg (s : Seg) : List Nat := [s.1 % 256, s.2.length % 256] ++ s.2.flatMap be32

def encPath (segs : List Seg) : List Nat := segs.flatMap encSeg

/-- the four octets at the front of `b` as a number (`read_u32::<NetworkEndian>`) -/
def rd32 : List Nat → Option Nat
  | a :: b :: c :: d :: _ => some (a * 16777216 + b * 65536 + c * 256 + d)
  | _ => none

/-- the `for i in 0..num` loop: reads `num` AS numbers, keeps the last one; `none` = a read failed -/
def readAsns : Nat → List Nat → Nat → Option (Nat × List Nat)
  | 0, buf, asn => some (asn, buf)
  | k + 1, buf, _ =>
      match rd32 buf with
      | some n => readAsns k (buf.drop 4) n
      | none => none

/-- the `while c.position() < len` loop of `as_path_origin`; state = (t, num, asn) -/
def originWalk : Nat → List Nat → Nat × Nat × Nat → Out (Nat × Nat × Nat)
  | _, [], st => .ok st
  | 0, _ :: _, st => .ok st                       -- (unreachable with fuel = buffer length)
  | _ + 1, [_], _ => .panic                       -- `read_u8().unwrap()` of the count
  | fuel + 1, t :: num :: rest, st =>
      match readAsns num rest st.2.2 with
      | some (asn, rest') => originWalk fuel rest' (t, num, asn)
      | none => .panic                            -- `read_u32().unwrap()`

def asPathOriginBytes (buf : List Nat) : Out (Option Nat) :=
  if buf.length < 2 then .ok none
  else
    match originWalk buf.length buf (0, 0, 0) with
    | .panic => .panic
    | .ok (t, num, asn) => .ok (if t = 2 ∧ num > 0 then some asn else none)

/-- `as_path_final_segment_type`: `while pos + 2 <= buf.len()` -/
def finalTypeWalk : Nat → List Nat → Option Nat → Option Nat
  | fuel + 1, t :: num :: rest, _ => finalTypeWalk fuel (rest.drop (num * 4)) (some t)
  | _, _, acc => acc

def finalSegTypeBytes (buf : List Nat) : Option Nat := finalTypeWalk buf.length buf none

/-- the `asn` computed at the top of `validate`, on the encoded attribute -/
def routeOriginBytes (localAsn : Nat) : Option (List Seg) → Out (Option Nat)
  | none => .ok (some localAsn)
  | some segs =>
      match asPathOriginBytes (encPath segs) with
      | .panic => .panic
      | .ok (some a) => .ok (some a)
      | .ok none =>
          match finalSegTypeBytes (encPath segs) with
          | some 1 => .ok none
          | _ => .ok (some localAsn)

/-! ### `validate` -/

inductive VState where
  | valid | invalid | notFound
  deriving DecidableEq, Repr, Inhabited

inductive Reason where
  | none | asn | length
  deriving DecidableEq, Repr, Inhabited

structure Validation where
  state : VState
  reason : Reason
  matched : List (Net × Roa)
  unmatchedAsn : List (Net × Roa)
  unmatchedLength : List (Net × Roa)
  deriving DecidableEq, Repr, Inhabited

/-- the three result vectors -/
structure Acc where
  m : List (Net × Roa) := []
  ua : List (Net × Roa) := []
  ul : List (Net × Roa) := []
  deriving Repr

/-- body of `for roa in entry` -/
def classifyRoa (mask : Nat) (asn : Option Nat) (ipnet : Net) (acc : Acc) (roa : Roa) : Acc :=
  if mask ≤ roa.maxlen then
    if roa.asn ≠ 0 ∧ some roa.asn = asn then { acc with m := acc.m ++ [(ipnet, roa)] }
    else { acc with ua := acc.ua ++ [(ipnet, roa)] }
  else { acc with ul := acc.ul ++ [(ipnet, roa)] }

/-- body of `for len in 0..=mask.min(max_bits)`; the key was just built by `prefix_key`, so
    `key_to_addr` returns the masked address with `len` (no panic possible there). -/
def validateStep (m : Trie) (net : Net) (asn : Option Nat) (acc : Acc) (len : Nat) : Acc :=
  let key := prefixKey net.addr len
  match m.get key with
  | none => acc
  | some entry =>
      let ipnet : Net := ⟨net.fam, prefixKeyAux len 0 net.addr, len⟩
      entry.foldl (classifyRoa net.len asn ipnet) acc

def finish (acc : Acc) : Validation :=
  if acc.m ≠ [] then ⟨.valid, .none, acc.m, acc.ua, acc.ul⟩
  else if acc.ua ≠ [] then ⟨.invalid, .asn, acc.m, acc.ua, acc.ul⟩
  else if acc.ul ≠ [] then ⟨.invalid, .length, acc.m, acc.ua, acc.ul⟩
  else ⟨.notFound, .none, acc.m, acc.ua, acc.ul⟩

/-- `validate` once the origin `asn` is known -/
def Table.validateO (t : Table) (asn : Option Nat) (net : Net) : Option Validation :=
  let m := t.trie net.fam
  let maxBits := min (net.addr.length * 8) 255
  let acc := (List.range (min net.len maxBits + 1)).foldl (validateStep m net asn) {}
  some (finish acc)

/-- with the origin derived from the segments -/
def Table.validate (t : Table) (localAsn : Nat) (net : Net) (path : Option (List Seg)) :
    Option Validation :=
  t.validateO (routeOrigin localAsn path) net

/-- as the code does it: the origin derived from the bytes of the attribute (may panic) -/
def Table.validateB (t : Table) (localAsn : Nat) (net : Net) (path : Option (List Seg)) :
    Out (Option Validation) :=
  match routeOriginBytes localAsn path with
  | .panic => .panic
  | .ok o => .ok (t.validateO o net)

/-! ### mutation -/

def Table.insert (t : Table) (net : Net) (roa : Roa) : Table :=
  let key := prefixKey net.addr net.len
  let m := t.trie net.fam
  match m.get key with
  | some entry =>
      if entry.any (fun e => e.src = roa.src ∧ e.maxlen = roa.maxlen ∧ e.asn = roa.asn) then t
      else t.setTrie net.fam (m.set key (entry ++ [roa]))
  | none => t.setTrie net.fam (m.insertNew key [roa])

def Table.remove (t : Table) (net : Net) (roa : Roa) : Table :=
  let key := prefixKey net.addr net.len
  let m := t.trie net.fam
  match m.get key with
  | some entry =>
      let entry' := entry.filter
        (fun e => ¬ (e.src = roa.src ∧ e.maxlen = roa.maxlen ∧ e.asn = roa.asn))
      if entry'.isEmpty then t.setTrie net.fam (m.remove key)
      else t.setTrie net.fam (m.set key entry')
  | none => t

def dropTrie (m : Trie) (s : Src) : Trie :=
  (m.map (fun p => (p.1, p.2.filter (fun e => e.src ≠ s)))).filter (fun p => ¬ p.2.isEmpty)

def Table.dropSource (t : Table) (s : Src) : Table :=
  { v4 := dropTrie t.v4 s, v6 := dropTrie t.v6 s }

/-- `TableManager::rpki_reset` -/
def Table.reset (t : Table) (s : Src) (vrps : List (Net × Nat × Nat)) : Table :=
  vrps.foldl (fun t v => t.insert v.1 ⟨v.2.1, v.2.2, s⟩) (t.dropSource s)

/-- `iter(family)`; `none` = a `key_to_addr` panic -/
def iterTrie : Trie → Out (List (Net × Roa))
  | [] => .ok []
  | (k, e) :: rest =>
      match keyToNet k, iterTrie rest with
      | .ok n, .ok l => .ok (e.map (fun r => (n, r)) ++ l)
      | _, _ => .panic

def Table.iter (t : Table) (f : Fam) : Out (List (Net × Roa)) := iterTrie (t.trie f)

/-! ### cases -/

inductive Op where
  | ins (s : Src) (net : Net) (maxlen asn : Nat)
  | rem (s : Src) (net : Net) (maxlen asn : Nat)
  | drop (s : Src)
  | reset (s : Src) (vrps : List (Net × Nat × Nat))
  | val (net : Net) (path : Option (List Seg))
  | iter (f : Fam)
  /-- the daemon path: import policy `rpki st ⇒ reject`, `insert_route`, `collect_paths`, API conversion -/
  | display (loc : Bool) (st : VState) (net : Net) (path : Option (List Seg))
  deriving Repr, Inhabited

inductive Ob where
  | unvalidated                         -- `validate` returned `None`
  | v (r : Validation)
  | it (l : List (Net × Roa))
  | api (r : Option (VState × Reason)) (filtered : Bool)   -- what the API shows; did the policy filter
  deriving DecidableEq, Repr, Inhabited

structure Case where
  localAsn : Nat        -- `Source.local_asn` of the peer session the routes come from
  globalAsn : Nat       -- `RpkiTable.local_asn`: the speaker's own AS, used for `Source::local()` routes
  ops : List Op
  deriving Repr, Inhabited

def step (localAsn globalAsn : Nat) (t : Table) : Op → Out (Table × Option Ob)
  | .ins s net ml asn => .ok (t.insert net ⟨ml, asn, s⟩, none)
  | .rem s net ml asn => .ok (t.remove net ⟨ml, asn, s⟩, none)
  | .drop s => .ok (t.dropSource s, none)
  | .reset s v => .ok (t.reset s v, none)
  | .val net path =>
      match t.validateB localAsn net path with
      | .panic => .panic
      | .ok none => .ok (t, some .unvalidated)
      | .ok (some r) => .ok (t, some (.v r))
  | .iter f =>
      match t.iter f with
      | .ok l => .ok (t, some (.it l))
      | .panic => .panic
  | .display loc st net path =>
      -- `collect_paths` phase 2 and `Condition::Rpki` both call `validate`; `rpki_validation_to_api`
      -- maps state and reason one to one; the statement rejects iff the state is the configured one
      -- `validate` takes the speaker's own AS for a locally originated route, the session's otherwise
      match t.validateB (if loc then globalAsn else localAsn) net path with
      | .panic => .panic
      | .ok none => .ok (t, some (.api none false))
      | .ok (some r) => .ok (t, some (.api (some (r.state, r.reason)) (decide (r.state = st))))

def runFrom (localAsn globalAsn : Nat) : Table → List Op → Out (Table × List Ob)
  | t, [] => .ok (t, [])
  | t, op :: ops =>
      match step localAsn globalAsn t op with
      | .panic => .panic
      | .ok (t', o) =>
          match runFrom localAsn globalAsn t' ops with
          | .panic => .panic
          | .ok (t'', os) => .ok (t'', (match o with | some x => [x] | none => []) ++ os)

/-- observation of a case: the list of `val` / `iter` results, or a panic -/
def run (c : Case) : Out (List Ob) :=
  match runFrom c.localAsn c.globalAsn {} c.ops with
  | .ok (_, os) => .ok os
  | .panic => .panic

end Rbgp.Rpki
