/-
  Rbgp.Rpki.Model — executable model of `table::RpkiTable` (table/src/lib.rs) as repaired for
  S21/S22: `prefix_key`, `key_to_addr`, `validate`, `insert`, `remove`, `drop_source`, `iter`,
  plus `TableManager::rpki_reset` (drop_source + inserts) and the origin derivation
  (`Attribute::as_path_origin`, `as_path_final_segment_type`).

  The patricia map is an association list sorted by key bytes (`PatriciaMap` iterates in key
  order); `get`/`get_mut`/`insert`/`remove` have their documented map semantics.
  `Arc<IpAddr>` identity of a ROA's source is the pair (cache address index, Arc instance).
  Import-free (core only).
-/
namespace Rbgp.Rpki

inductive Fam where
  | v4 | v6
  deriving DecidableEq, Repr, Inhabited

def Fam.nbytes : Fam → Nat
  | .v4 => 4
  | .v6 => 16

/-- `packet::IpNet` / the `V4`/`V6` arms of `packet::Nlri`: address octets and mask byte. -/
structure Net where
  fam : Fam
  addr : List Nat
  len : Nat
  deriving DecidableEq, Repr, Inhabited

/-- Identity of an `Arc<IpAddr>`: (address index, which allocation). `Arc::ptr_eq` = equality. -/
structure Src where
  cache : Nat
  arc : Nat
  deriving DecidableEq, Repr, Inhabited

structure Roa where
  maxlen : Nat
  asn : Nat
  src : Src
  deriving DecidableEq, Repr, Inhabited

abbrev Key := List Nat
abbrev Trie := List (Key × List Roa)

/-- `RpkiTable.roas`: one patricia map per family. -/
structure Table where
  v4 : Trie := []
  v6 : Trie := []
  deriving Repr, Inhabited

def Table.trie (t : Table) : Fam → Trie
  | .v4 => t.v4
  | .v6 => t.v6

def Table.setTrie (t : Table) (f : Fam) (m : Trie) : Table :=
  match f with
  | .v4 => { t with v4 := m }
  | .v6 => { t with v6 := m }

/-! ### `prefix_key` -/

/-- `((b as u16) >> host << host) as u8` -/
def maskByte (b host : Nat) : Nat := (b >>> host) <<< host

/-- the loop of `prefix_key`: `i` is the octet index -/
def prefixKeyAux (len : Nat) : Nat → List Nat → List Nat
  | _, [] => []
  | i, b :: bs => maskByte b (min (8 * (i + 1) - len) 8) :: prefixKeyAux len (i + 1) bs

def prefixKey (octets : List Nat) (len : Nat) : Key := prefixKeyAux len 0 octets ++ [len]

/-! ### the patricia map operations that are used -/

def ltKey : Key → Key → Bool
  | [], [] => false
  | [], _ :: _ => true
  | _ :: _, [] => false
  | a :: as, b :: bs => if a < b then true else if b < a then false else ltKey as bs

def Trie.get : Trie → Key → Option (List Roa)
  | [], _ => none
  | (k, e) :: rest, key => if k = key then some e else Trie.get rest key

/-- assignment through `get_mut` (the key is present) -/
def Trie.set : Trie → Key → List Roa → Trie
  | [], _, _ => []
  | (k, e) :: rest, key, v => if k = key then (k, v) :: rest else (k, e) :: Trie.set rest key v

/-- `insert` of a key that is not present: keeps the list sorted -/
def Trie.insertNew : Trie → Key → List Roa → Trie
  | [], key, v => [(key, v)]
  | (k, e) :: rest, key, v =>
      if ltKey key k then (key, v) :: (k, e) :: rest else (k, e) :: Trie.insertNew rest key v

def Trie.remove (t : Trie) (key : Key) : Trie := t.filter (fun p => p.1 ≠ key)

/-! ### `key_to_addr` (panics are explicit) -/

inductive Out (α : Type) where
  | ok : α → Out α
  | panic : Out α
  deriving DecidableEq, Repr

def keyToNet (key : Key) : Out Net :=
  match key.reverse with
  | [] => .panic                         -- `expect("RPKI trie key must end with a prefix-length byte")`
  | mask :: rest =>
      if rest.length = 4 then .ok ⟨.v4, rest.reverse, mask⟩
      else if rest.length = 16 then .ok ⟨.v6, rest.reverse, mask⟩
      else .panic                        -- `unreachable!`

/-! ### origin derivation -/

/-- an AS_PATH segment: (type byte, AS numbers) -/
abbrev Seg := Nat × List Nat

/-- `Attribute::as_path_origin`: last AS of the final segment if that is a non-empty AS_SEQUENCE -/
def asPathOrigin (segs : List Seg) : Option Nat :=
  match segs.getLast? with
  | none => none
  | some (t, asns) =>
      match asns.getLast? with
      | some a => if t = 2 then some a else none
      | none => none

/-- `as_path_final_segment_type` -/
def finalSegType (segs : List Seg) : Option Nat := segs.getLast?.map (·.1)

/-- the `asn` computed at the top of `validate`; `none` is RFC 6811's NONE -/
def routeOrigin (localAsn : Nat) : Option (List Seg) → Option Nat
  | none => some localAsn
  | some segs =>
      match asPathOrigin segs with
      | some a => some a
      | none =>
          match finalSegType segs with
          | some 1 => none
          | _ => some localAsn

/-! ### `validate` -/

inductive VState where
  | valid | invalid | notFound
  deriving DecidableEq, Repr, Inhabited

inductive Reason where
  | none | asn | length
  deriving DecidableEq, Repr, Inhabited

structure Validation where
  state : VState
  reason : Reason
  matched : List (Net × Roa)
  unmatchedAsn : List (Net × Roa)
  unmatchedLength : List (Net × Roa)
  deriving DecidableEq, Repr, Inhabited

/-- the three result vectors -/
structure Acc where
  m : List (Net × Roa) := []
  ua : List (Net × Roa) := []
  ul : List (Net × Roa) := []
  deriving Repr

/-- body of `for roa in entry` -/
def classifyRoa (mask : Nat) (asn : Option Nat) (ipnet : Net) (acc : Acc) (roa : Roa) : Acc :=
  if mask ≤ roa.maxlen then
    if roa.asn ≠ 0 ∧ some roa.asn = asn then { acc with m := acc.m ++ [(ipnet, roa)] }
    else { acc with ua := acc.ua ++ [(ipnet, roa)] }
  else { acc with ul := acc.ul ++ [(ipnet, roa)] }

/-- body of `for len in 0..=mask.min(max_bits)`; the key was just built by `prefix_key`, so
    `key_to_addr` returns the masked address with `len` (no panic possible there). -/
def validateStep (m : Trie) (net : Net) (asn : Option Nat) (acc : Acc) (len : Nat) : Acc :=
  let key := prefixKey net.addr len
  match m.get key with
  | none => acc
  | some entry =>
      let ipnet : Net := ⟨net.fam, prefixKeyAux len 0 net.addr, len⟩
      entry.foldl (classifyRoa net.len asn ipnet) acc

def finish (acc : Acc) : Validation :=
  if acc.m ≠ [] then ⟨.valid, .none, acc.m, acc.ua, acc.ul⟩
  else if acc.ua ≠ [] then ⟨.invalid, .asn, acc.m, acc.ua, acc.ul⟩
  else if acc.ul ≠ [] then ⟨.invalid, .length, acc.m, acc.ua, acc.ul⟩
  else ⟨.notFound, .none, acc.m, acc.ua, acc.ul⟩

def Table.validate (t : Table) (localAsn : Nat) (net : Net) (path : Option (List Seg)) :
    Option Validation :=
  let m := t.trie net.fam
  let asn := routeOrigin localAsn path
  let maxBits := min (net.addr.length * 8) 255
  let acc := (List.range (min net.len maxBits + 1)).foldl (validateStep m net asn) {}
  some (finish acc)

/-! ### mutation -/

def Table.insert (t : Table) (net : Net) (roa : Roa) : Table :=
  let key := prefixKey net.addr net.len
  let m := t.trie net.fam
  match m.get key with
  | some entry =>
      if entry.any (fun e => e.src = roa.src ∧ e.maxlen = roa.maxlen ∧ e.asn = roa.asn) then t
      else t.setTrie net.fam (m.set key (entry ++ [roa]))
  | none => t.setTrie net.fam (m.insertNew key [roa])

def Table.remove (t : Table) (net : Net) (roa : Roa) : Table :=
  let key := prefixKey net.addr net.len
  let m := t.trie net.fam
  match m.get key with
  | some entry =>
      let entry' := entry.filter
        (fun e => ¬ (e.src = roa.src ∧ e.maxlen = roa.maxlen ∧ e.asn = roa.asn))
      if entry'.isEmpty then t.setTrie net.fam (m.remove key)
      else t.setTrie net.fam (m.set key entry')
  | none => t

def dropTrie (m : Trie) (s : Src) : Trie :=
  (m.map (fun p => (p.1, p.2.filter (fun e => e.src ≠ s)))).filter (fun p => ¬ p.2.isEmpty)

def Table.dropSource (t : Table) (s : Src) : Table :=
  { v4 := dropTrie t.v4 s, v6 := dropTrie t.v6 s }

/-- `TableManager::rpki_reset` -/
def Table.reset (t : Table) (s : Src) (vrps : List (Net × Nat × Nat)) : Table :=
  vrps.foldl (fun t v => t.insert v.1 ⟨v.2.1, v.2.2, s⟩) (t.dropSource s)

/-- `iter(family)`; `none` = a `key_to_addr` panic -/
def iterTrie : Trie → Out (List (Net × Roa))
  | [] => .ok []
  | (k, e) :: rest =>
      match keyToNet k, iterTrie rest with
      | .ok n, .ok l => .ok (e.map (fun r => (n, r)) ++ l)
      | _, _ => .panic

def Table.iter (t : Table) (f : Fam) : Out (List (Net × Roa)) := iterTrie (t.trie f)

/-! ### cases -/

inductive Op where
  | ins (s : Src) (net : Net) (maxlen asn : Nat)
  | rem (s : Src) (net : Net) (maxlen asn : Nat)
  | drop (s : Src)
  | reset (s : Src) (vrps : List (Net × Nat × Nat))
  | val (net : Net) (path : Option (List Seg))
  | iter (f : Fam)
  /-- the daemon path: import policy `rpki st ⇒ reject`, `insert_route`, `collect_paths`, API conversion -/
  | display (loc : Bool) (st : VState) (net : Net) (path : Option (List Seg))
  deriving Repr, Inhabited

inductive Ob where
  | unvalidated                         -- `validate` returned `None`
  | v (r : Validation)
  | it (l : List (Net × Roa))
  | api (r : Option (VState × Reason)) (filtered : Bool)   -- what the API shows; did the policy filter
  deriving DecidableEq, Repr, Inhabited

structure Case where
  localAsn : Nat        -- `Source.local_asn` of the peer session the routes come from
  globalAsn : Nat       -- `RpkiTable.local_asn`: the speaker's own AS, used for `Source::local()` routes
  ops : List Op
  deriving Repr, Inhabited

def step (localAsn globalAsn : Nat) (t : Table) : Op → Out (Table × Option Ob)
  | .ins s net ml asn => .ok (t.insert net ⟨ml, asn, s⟩, none)
  | .rem s net ml asn => .ok (t.remove net ⟨ml, asn, s⟩, none)
  | .drop s => .ok (t.dropSource s, none)
  | .reset s v => .ok (t.reset s v, none)
  | .val net path =>
      match t.validate localAsn net path with
      | none => .ok (t, some .unvalidated)
      | some r => .ok (t, some (.v r))
  | .iter f =>
      match t.iter f with
      | .ok l => .ok (t, some (.it l))
      | .panic => .panic
  | .display loc st net path =>
      -- `collect_paths` phase 2 and `Condition::Rpki` both call `validate`; `rpki_validation_to_api`
      -- maps state and reason one to one; the statement rejects iff the state is the configured one
      -- `validate` takes the speaker's own AS for a locally originated route, the session's otherwise
      match t.validate (if loc then globalAsn else localAsn) net path with
      | none => .ok (t, some (.api none false))
      | some r => .ok (t, some (.api (some (r.state, r.reason)) (decide (r.state = st))))

def runFrom (localAsn globalAsn : Nat) : Table → List Op → Out (Table × List Ob)
  | t, [] => .ok (t, [])
  | t, op :: ops =>
      match step localAsn globalAsn t op with
      | .panic => .panic
      | .ok (t', o) =>
          match runFrom localAsn globalAsn t' ops with
          | .panic => .panic
          | .ok (t'', os) => .ok (t'', (match o with | some x => [x] | none => []) ++ os)

/-- observation of a case: the list of `val` / `iter` results, or a panic -/
def run (c : Case) : Out (List Ob) :=
  match runFrom c.localAsn c.globalAsn {} c.ops with
  | .ok (_, os) => .ok os
  | .panic => .panic

end Rbgp.Rpki
