/- Rbgp.Rpki.Proofs — C12 lemmas: `validate` computes the RFC 6811 state of the stored VRP set,
   the origin derivation, `iter`, and the simulation between model runs and the reference checker. -/
import Rbgp.Rpki.Refine
import Rbgp.Rpki.Path
namespace Rbgp.Rpki
open Spec

/-! ## `validate` -/

def condM (mask : Nat) (asn : Option Nat) (r : Roa) : Prop :=
  mask ≤ r.maxlen ∧ (r.asn ≠ 0 ∧ some r.asn = asn)
def condUa (mask : Nat) (asn : Option Nat) (r : Roa) : Prop :=
  mask ≤ r.maxlen ∧ ¬ (r.asn ≠ 0 ∧ some r.asn = asn)
def condUl (mask : Nat) (r : Roa) : Prop := ¬ mask ≤ r.maxlen

theorem ex_cons {α} (P : α → Prop) (x : α) (xs : List α) :
    (∃ y ∈ x :: xs, P y) ↔ P x ∨ ∃ y ∈ xs, P y := by simp

theorem classify_m (mask : Nat) (asn : Option Nat) (ip : Net) (acc : Acc) (r : Roa) :
    (classifyRoa mask asn ip acc r).m ≠ [] ↔ acc.m ≠ [] ∨ condM mask asn r := by
  unfold classifyRoa condM
  by_cases hl : mask ≤ r.maxlen <;> by_cases ha : r.asn ≠ 0 ∧ some r.asn = asn <;> simp [hl, ha]

theorem classify_ua (mask : Nat) (asn : Option Nat) (ip : Net) (acc : Acc) (r : Roa) :
    (classifyRoa mask asn ip acc r).ua ≠ [] ↔ acc.ua ≠ [] ∨ condUa mask asn r := by
  unfold classifyRoa condUa
  by_cases hl : mask ≤ r.maxlen <;> by_cases ha : r.asn ≠ 0 ∧ some r.asn = asn <;> simp [hl, ha]

theorem classify_ul (mask : Nat) (asn : Option Nat) (ip : Net) (acc : Acc) (r : Roa) :
    (classifyRoa mask asn ip acc r).ul ≠ [] ↔ acc.ul ≠ [] ∨ condUl mask r := by
  unfold classifyRoa condUl
  by_cases hl : mask ≤ r.maxlen <;> by_cases ha : r.asn ≠ 0 ∧ some r.asn = asn <;> simp [hl, ha]

theorem foldl_classify (mask : Nat) (asn : Option Nat) (ip : Net) (entry : List Roa) (acc : Acc) :
    ((entry.foldl (classifyRoa mask asn ip) acc).m ≠ [] ↔ acc.m ≠ [] ∨ ∃ r ∈ entry, condM mask asn r) ∧
    ((entry.foldl (classifyRoa mask asn ip) acc).ua ≠ [] ↔ acc.ua ≠ [] ∨ ∃ r ∈ entry, condUa mask asn r) ∧
    ((entry.foldl (classifyRoa mask asn ip) acc).ul ≠ [] ↔ acc.ul ≠ [] ∨ ∃ r ∈ entry, condUl mask r) := by
  induction entry generalizing acc with
  | nil => simp
  | cons r rest ih =>
    simp only [List.foldl_cons]
    obtain ⟨h1, h2, h3⟩ := ih (classifyRoa mask asn ip acc r)
    rw [h1, h2, h3, classify_m, classify_ua, classify_ul, ex_cons, ex_cons, ex_cons]
    simp only [or_assoc, and_self]

/-- the VRPs stored for the route address truncated to `l` bits -/
def cand (m : Trie) (net : Net) (l : Nat) : List Roa := (m.get (prefixKey net.addr l)).getD []

theorem validateStep_spec (m : Trie) (net : Net) (asn : Option Nat) (acc : Acc) (l : Nat) :
    ((validateStep m net asn acc l).m ≠ [] ↔ acc.m ≠ [] ∨ ∃ r ∈ cand m net l, condM net.len asn r) ∧
    ((validateStep m net asn acc l).ua ≠ [] ↔ acc.ua ≠ [] ∨ ∃ r ∈ cand m net l, condUa net.len asn r) ∧
    ((validateStep m net asn acc l).ul ≠ [] ↔ acc.ul ≠ [] ∨ ∃ r ∈ cand m net l, condUl net.len r) := by
  simp only [validateStep, cand]
  cases hg : m.get (prefixKey net.addr l) with
  | none => simp
  | some entry =>
    simp only [Option.getD_some]
    exact foldl_classify net.len asn ⟨net.fam, prefixKeyAux l 0 net.addr, l⟩ entry acc

theorem foldl_validateStep (m : Trie) (net : Net) (asn : Option Nat) (ls : List Nat) (acc : Acc) :
    ((ls.foldl (validateStep m net asn) acc).m ≠ [] ↔
        acc.m ≠ [] ∨ ∃ l ∈ ls, ∃ r ∈ cand m net l, condM net.len asn r) ∧
    ((ls.foldl (validateStep m net asn) acc).ua ≠ [] ↔
        acc.ua ≠ [] ∨ ∃ l ∈ ls, ∃ r ∈ cand m net l, condUa net.len asn r) ∧
    ((ls.foldl (validateStep m net asn) acc).ul ≠ [] ↔
        acc.ul ≠ [] ∨ ∃ l ∈ ls, ∃ r ∈ cand m net l, condUl net.len r) := by
  induction ls generalizing acc with
  | nil => simp
  | cons l rest ih =>
    simp only [List.foldl_cons]
    obtain ⟨h1, h2, h3⟩ := ih (validateStep m net asn acc l)
    obtain ⟨g1, g2, g3⟩ := validateStep_spec m net asn acc l
    rw [h1, h2, h3, g1, g2, g3, ex_cons, ex_cons, ex_cons]
    simp only [or_assoc, and_self]

/-- the range walked by `validate` -/
def maxLen (net : Net) : Nat := min net.len (min (net.addr.length * 8) 255)

theorem finish_state (acc : Acc) :
    (finish acc).state =
      if acc.m ≠ [] then .valid else if acc.ua ≠ [] ∨ acc.ul ≠ [] then .invalid else .notFound := by
  unfold finish
  by_cases h1 : acc.m ≠ [] <;> by_cases h2 : acc.ua ≠ [] <;> by_cases h3 : acc.ul ≠ [] <;>
    simp [h1, h2, h3]

/-! ### candidates = covering VRPs -/

theorem covers_keyVrp_iff {f : Fam} {k : Key} (hk : KeyOK f k) (roa : Roa) {r : Net} (hn : NetWF r)
    (hf : r.fam = f) :
    covers (keyVrp f k roa) r = true ↔ ∃ l, l ≤ maxLen r ∧ k = prefixKey r.addr l := by
  obtain ⟨a, l0, rfl, hla, hba, hma⟩ := hk
  have hlen : (bitsOf a).length = 8 * f.nbytes := by rw [bitsOf_length, hla]
  have hrlen : (bitsOf r.addr).length = 8 * f.nbytes := by rw [bitsOf_length, hn.1, hf]
  have hnb : f.nbytes ≤ 16 := by cases f <;> simp [Fam.nbytes]
  have hmax : maxLen r = min r.len (8 * f.nbytes) := by
    simp only [maxLen, hn.1, hf]; omega
  simp only [covers, keyVrp, splitKey_append, prefixBits, Bool.and_eq_true, decide_eq_true_eq,
    List.isPrefixOf_iff_prefix, List.length_take, hlen]
  constructor
  · rintro ⟨⟨_, hl8⟩, hpre⟩
    have hl8' : l0 ≤ 8 * f.nbytes := by omega
    rw [List.prefix_take_iff] at hpre
    obtain ⟨hpre, hlr⟩ := hpre
    simp only [List.length_take, hlen] at hlr
    have hlr' : l0 ≤ r.len := by omega
    rw [List.prefix_iff_eq_take] at hpre
    simp only [List.length_take, hlen, Nat.min_eq_left hl8'] at hpre
    have hmb := (maskBytes_eq_iff a r.addr (by rw [hla, hn.1, hf]) hba hn.2 l0).2 hpre
    rw [hma] at hmb
    refine ⟨l0, by rw [hmax]; omega, ?_⟩
    rw [prefixKey_eq, ← hmb]
  · rintro ⟨l, hl, hkey⟩
    rw [prefixKey_eq] at hkey
    have := List.append_inj hkey (by simp [hla, hn.1, hf])
    obtain ⟨ha, hl0⟩ := this
    simp only [List.cons.injEq, and_true] at hl0
    subst hl0
    rw [hmax] at hl
    have hl8' : l0 ≤ 8 * f.nbytes := by omega
    refine ⟨⟨hf.symm, by omega⟩, ?_⟩
    rw [List.prefix_take_iff]
    refine ⟨?_, by simp only [List.length_take, hlen]; omega⟩
    rw [List.prefix_iff_eq_take]
    simp only [List.length_take, hlen, Nat.min_eq_left hl8']
    rw [ha]
    exact take_bits_maskBytes r.addr hn.2 l0

/-- some covering VRP of the route's family satisfies `Q` ⇔ some candidate ROA does -/
theorem exists_cover_iff {f : Fam} {m : Trie} (hi : TrieInv f m) {r : Net} (hn : NetWF r)
    (hf : r.fam = f) (Q : Nat → Nat → Prop) :
    (∃ v ∈ absTrie f m, covers v r = true ∧ Q v.maxlen v.asn) ↔
    (∃ l ∈ List.range (maxLen r + 1), ∃ roa ∈ cand m r l, Q roa.maxlen roa.asn) := by
  constructor
  · rintro ⟨v, hv, hc, hq⟩
    obtain ⟨k, e, roa, hp, hr, rfl⟩ := mem_absTrie.1 hv
    obtain ⟨l, hl, rfl⟩ := (covers_keyVrp_iff (hi.keyOK _ hp) roa hn hf).1 hc
    refine ⟨l, by simp; omega, roa, ?_, hq⟩
    simp [cand, get_of_mem hi.nodup hp, hr]
  · rintro ⟨l, hl, roa, hr, hq⟩
    simp only [cand] at hr
    cases hg : m.get (prefixKey r.addr l) with
    | none => simp [hg] at hr
    | some e =>
      simp only [hg, Option.getD_some] at hr
      have hp := get_mem hg
      refine ⟨keyVrp f (prefixKey r.addr l) roa, mem_absTrie.2 ⟨_, e, roa, hp, hr, rfl⟩, ?_, hq⟩
      apply (covers_keyVrp_iff (hi.keyOK _ hp) roa hn hf).2
      exact ⟨l, by simp at hl; omega, rfl⟩

theorem any_abs_iff {t : Table} {r : Net} (p : Vrp → Bool) (hp : ∀ v, p v = true → v.fam = r.fam) :
    (abs t).any p = true ↔ ∃ v ∈ absTrie r.fam (t.trie r.fam), p v = true := by
  simp only [List.any_eq_true, abs, List.mem_append]
  constructor
  · rintro ⟨v, hv, hpv⟩
    have hfam := hp v hpv
    refine ⟨v, ?_, hpv⟩
    rcases hv with hv | hv
    · have := fam_of_mem_absTrie hv
      have h4 : r.fam = .v4 := by rw [← hfam, this]
      rw [h4]; exact hv
    · have := fam_of_mem_absTrie hv
      have h6 : r.fam = .v6 := by rw [← hfam, this]
      rw [h6]; exact hv
  · rintro ⟨v, hv, hpv⟩
    refine ⟨v, ?_, hpv⟩
    cases hf : r.fam <;> rw [hf] at hv
    · exact Or.inl hv
    · exact Or.inr hv

theorem covers_fam {v : Vrp} {r : Net} (h : covers v r = true) : v.fam = r.fam := by
  simp only [covers, Bool.and_eq_true, decide_eq_true_eq] at h
  exact h.1.1

/-- **the state computed by `validate` is the RFC 6811 state of the stored VRP set** -/
theorem validate_state {t : Table} (hi : TableInv t) {r : Net} (hn : NetWF r) (localAsn : Nat)
    (path : Option (List Seg)) :
    (t.validate localAsn r path).map (·.state)
      = some (rfc6811 (abs t) (routeOrigin localAsn path) r) := by
  have hti := hi.trie r.fam
  simp only [Table.validate, Table.validateO, Option.map_some, Option.some.injEq]
  rw [finish_state]
  obtain ⟨hm, hua, hul⟩ := foldl_validateStep (t.trie r.fam) r (routeOrigin localAsn path)
    (List.range (min r.len (min (r.addr.length * 8) 255) + 1)) {}
  have hM := exists_cover_iff hti hn rfl
    (fun ml a => r.len ≤ ml ∧ (a ≠ 0 ∧ some a = routeOrigin localAsn path))
  have hC := exists_cover_iff hti hn rfl (fun _ _ => True)
  simp only [maxLen] at hM hC
  -- valid
  have hvalid : (abs t).any (matched (routeOrigin localAsn path) r) = true ↔
      ∃ l ∈ List.range (min r.len (min (r.addr.length * 8) 255) + 1),
        ∃ roa ∈ cand (t.trie r.fam) r l, condM r.len (routeOrigin localAsn path) roa := by
    rw [any_abs_iff (r := r) _ (fun v hv => by
      simp only [matched, Bool.and_eq_true] at hv; exact covers_fam hv.1.1.1)]
    simp only [condM]
    rw [← hM]
    constructor
    · rintro ⟨v, hv, hmv⟩
      simp only [matched, Bool.and_eq_true, decide_eq_true_eq] at hmv
      exact ⟨v, hv, hmv.1.1.1, hmv.2, hmv.1.1.2, hmv.1.2.symm⟩
    · rintro ⟨v, hv, hc, h1, h2, h3⟩
      refine ⟨v, hv, ?_⟩
      simp only [matched, Bool.and_eq_true, decide_eq_true_eq]
      exact ⟨⟨⟨hc, h2⟩, h3.symm⟩, h1⟩
  have hcover : (abs t).any (fun v => covers v r) = true ↔
      ∃ l ∈ List.range (min r.len (min (r.addr.length * 8) 255) + 1),
        ∃ roa ∈ cand (t.trie r.fam) r l, True := by
    rw [any_abs_iff (r := r) _ (fun v hv => covers_fam hv)]
    rw [← hC]
    constructor
    · rintro ⟨v, hv, hc⟩; exact ⟨v, hv, hc, trivial⟩
    · rintro ⟨v, hv, hc, _⟩; exact ⟨v, hv, hc⟩
  simp only [rfc6811]
  by_cases hv : (abs t).any (matched (routeOrigin localAsn path) r) = true
  · have : (List.foldl (validateStep (t.trie r.fam) r (routeOrigin localAsn path)) {}
        (List.range (min r.len (min (r.addr.length * 8) 255) + 1))).m ≠ [] := by
      rw [hm]; right; exact hvalid.1 hv
    simp [hv, this]
  · have hmnil : ¬ (List.foldl (validateStep (t.trie r.fam) r (routeOrigin localAsn path)) {}
        (List.range (min r.len (min (r.addr.length * 8) 255) + 1))).m ≠ [] := by
      rw [hm]
      rintro (h | h)
      · exact h rfl
      · exact hv (hvalid.2 h)
    simp only [hv, hmnil, if_false, Bool.false_eq_true]
    by_cases hc : (abs t).any (fun v => covers v r) = true
    · obtain ⟨l, hl, roa, hr, _⟩ := hcover.1 hc
      have hnotM : ¬ condM r.len (routeOrigin localAsn path) roa := by
        intro hcm
        exact hv (hvalid.2 ⟨l, hl, roa, hr, hcm⟩)
      have : (List.foldl (validateStep (t.trie r.fam) r (routeOrigin localAsn path)) {}
          (List.range (min r.len (min (r.addr.length * 8) 255) + 1))).ua ≠ [] ∨
          (List.foldl (validateStep (t.trie r.fam) r (routeOrigin localAsn path)) {}
          (List.range (min r.len (min (r.addr.length * 8) 255) + 1))).ul ≠ [] := by
        rw [hua, hul]
        by_cases hl' : r.len ≤ roa.maxlen
        · left; right
          exact ⟨l, hl, roa, hr, hl', fun h => hnotM ⟨hl', h⟩⟩
        · right; right
          exact ⟨l, hl, roa, hr, hl'⟩
      simp [hc, this]
    · have : ¬ ((List.foldl (validateStep (t.trie r.fam) r (routeOrigin localAsn path)) {}
          (List.range (min r.len (min (r.addr.length * 8) 255) + 1))).ua ≠ [] ∨
          (List.foldl (validateStep (t.trie r.fam) r (routeOrigin localAsn path)) {}
          (List.range (min r.len (min (r.addr.length * 8) 255) + 1))).ul ≠ []) := by
        rw [hua, hul]
        rintro ((h | ⟨l, hl, roa, hr, _⟩) | (h | ⟨l, hl, roa, hr, _⟩))
        · exact h rfl
        · exact hc (hcover.2 ⟨l, hl, roa, hr, trivial⟩)
        · exact h rfl
        · exact hc (hcover.2 ⟨l, hl, roa, hr, trivial⟩)
      simp [hc, this]

/-! ## origin derivation -/

theorem origin_is_rfc6811 (localAsn : Nat) (path : Option (List Seg))
    (hwf : ∀ segs, path = some segs → pathWF segs = true) :
    routeOrigin localAsn path = originRfc localAsn path := by
  cases path with
  | none => rfl
  | some segs =>
    have hw := hwf segs rfl
    simp only [routeOrigin, originRfc, asPathOrigin, finalSegType]
    cases hl : segs.getLast? with
    | none => simp
    | some last =>
      obtain ⟨t, asns⟩ := last
      have hmem : (t, asns) ∈ segs := List.mem_of_getLast? hl
      simp only [pathWF, List.all_eq_true, Bool.and_eq_true, decide_eq_true_eq] at hw
      obtain ⟨⟨ht1, ht4⟩, hne⟩ := hw _ hmem
      cases ha : asns.getLast? with
      | none =>
        have : asns = [] := List.getLast?_eq_none_iff.1 ha
        simp [this] at hne
      | some a =>
        simp only [Option.map_some]
        by_cases h2 : t = 2
        · simp [h2, ha]
        · have : t = 1 ∨ t = 3 ∨ t = 4 := by
            simp only at ht1 ht4; omega
          rcases this with rfl | rfl | rfl <;> simp [ha]

/-! ## `iter` -/

theorem keyToNet_ok {f : Fam} {k : Key} (hk : KeyOK f k) :
    ∃ n, keyToNet k = .ok n ∧ ∀ r, entryVrp (n, r) = keyVrp f k r := by
  obtain ⟨a, l, rfl, hla, _, _⟩ := hk
  cases f
  · refine ⟨⟨.v4, a, l⟩, ?_, ?_⟩
    · simp only [Fam.nbytes] at hla; simp [keyToNet, hla]
    · intro r; simp [entryVrp, vrpOf, keyVrp, prefixBits]
  · refine ⟨⟨.v6, a, l⟩, ?_, ?_⟩
    · simp only [Fam.nbytes] at hla; simp [keyToNet, hla]
    · intro r; simp [entryVrp, vrpOf, keyVrp, prefixBits]

theorem iterTrie_ok {f : Fam} {m : Trie} (hk : ∀ p ∈ m, KeyOK f p.1) :
    ∃ l, iterTrie m = .ok l ∧ l.map entryVrp = absTrie f m := by
  induction m with
  | nil => exact ⟨[], rfl, by simp [absTrie]⟩
  | cons p rest ih =>
    obtain ⟨k, e⟩ := p
    obtain ⟨l, hl, habs⟩ := ih (fun q hq => hk q (by simp [hq]))
    obtain ⟨n, hn, hv⟩ := keyToNet_ok (hk (k, e) (by simp))
    refine ⟨e.map (fun r => (n, r)) ++ l, ?_, ?_⟩
    · simp [iterTrie, hn, hl]
    · rw [List.map_append, habs, absTrie_cons, List.map_map]
      congr 1
      apply List.map_congr_left
      intro r _
      exact hv r

theorem nodupB_iff (l : List Vrp) : nodupB l = true ↔ l.Nodup := by
  induction l with
  | nil => simp [nodupB]
  | cons v vs ih => simp [nodupB, ih, List.nodup_cons]

theorem abs_fam_filter (t : Table) (f : Fam) :
    (abs t).filter (fun v => v.fam = f) = absTrie f (t.trie f) := by
  have self : ∀ g m, (absTrie g m).filter (fun v => v.fam = g) = absTrie g m := by
    intro g m
    apply List.filter_eq_self.2
    intro v hv; simp [fam_of_mem_absTrie hv]
  have other : ∀ g m, g ≠ f → (absTrie g m).filter (fun v => v.fam = f) = [] := by
    intro g m hg
    apply List.filter_eq_nil_iff.2
    intro v hv; simp [fam_of_mem_absTrie hv, hg]
  cases f
  · simp only [abs, List.filter_append, Table.trie, self, other .v6 t.v6 (by simp), List.append_nil]
  · simp only [abs, List.filter_append, Table.trie, self, other .v4 t.v4 (by simp), List.nil_append]

/-! ## the reference checker accepts every model run -/

def OpWF : Op → Prop
  | .ins _ n _ _ => NetWF n
  | .rem _ n _ _ => NetWF n
  | .drop _ => True
  | .reset _ vs => ∀ v ∈ vs, NetWF v.1
  | .val n p => NetWF n ∧ PathEnc p
  | .iter _ => True
  | .display _ _ n p => NetWF n ∧ PathEnc p

theorem rfc6811_congr {s1 s2 : List Vrp} (h : ∀ v, v ∈ s1 ↔ v ∈ s2) (o : Option Nat) (r : Net) :
    rfc6811 s1 o r = rfc6811 s2 o r := by
  have any_congr : ∀ p : Vrp → Bool, s1.any p = s2.any p := by
    intro p
    rw [Bool.eq_iff_iff]
    simp only [List.any_eq_true]
    exact ⟨fun ⟨v, hv, hp⟩ => ⟨v, (h v).1 hv, hp⟩, fun ⟨v, hv, hp⟩ => ⟨v, (h v).2 hv, hp⟩⟩
  simp only [rfc6811, any_congr]

theorem trie_ne_nil_of_fam {t : Table} {s : List Vrp} (hr : R t s) {f : Fam}
    (h : (famOf s f).isEmpty = false) : t.trie f ≠ [] := by
  intro hnil
  cases hs : famOf s f with
  | nil => simp [hs] at h
  | cons v vs =>
    have hv : v ∈ famOf s f := by simp [hs]
    simp only [famOf, List.mem_filter, decide_eq_true_eq] at hv
    have hva := (hr.mem v).2 hv.1
    have : v ∈ (abs t).filter (fun v => v.fam = f) := by simp [hva, hv.2]
    rw [abs_fam_filter, hnil] at this
    simp [absTrie] at this

theorem step_sim (la ga : Nat) {t : Table} {s : List Vrp} (hi : TableInv t) (hr : R t s) (op : Op)
    (hwf : OpWF op) :
    (∀ c n ml a, op = .ins c n ml a → ∃ t', step la ga t op = .ok (t', none) ∧ TableInv t' ∧ R t' (sStep s op)) ∧
    (∀ c n ml a, op = .rem c n ml a → ∃ t', step la ga t op = .ok (t', none) ∧ TableInv t' ∧ R t' (sStep s op)) ∧
    (∀ c, op = .drop c → ∃ t', step la ga t op = .ok (t', none) ∧ TableInv t' ∧ R t' (sStep s op)) ∧
    (∀ c vs, op = .reset c vs → ∃ t', step la ga t op = .ok (t', none) ∧ TableInv t' ∧ R t' (sStep s op)) := by
  refine ⟨?_, ?_, ?_, ?_⟩
  · rintro c n ml a rfl
    obtain ⟨h1, h2⟩ := insert_spec hi hr hwf ⟨ml, a, c⟩
    exact ⟨_, rfl, h1, h2⟩
  · rintro c n ml a rfl
    obtain ⟨h1, h2⟩ := remove_spec hi hr hwf ⟨ml, a, c⟩
    exact ⟨_, rfl, h1, h2⟩
  · rintro c rfl
    obtain ⟨h1, h2⟩ := drop_spec hi hr c
    exact ⟨_, rfl, h1, h2⟩
  · rintro c vs rfl
    obtain ⟨h1, h2⟩ := reset_spec hi hr c vs hwf
    exact ⟨_, rfl, h1, h2⟩

theorem checkVal_ok {t : Table} {s : List Vrp} (hi : TableInv t) (hr : R t s) (la : Nat) {r : Net}
    (hn : NetWF r) (path : Option (List Seg)) :
    ∃ res, t.validate la r path = some res ∧ checkVal s la r path (.v res) = none := by
  have hst := validate_state hi hn la path
  cases hv : t.validate la r path with
  | none => simp [hv] at hst
  | some res =>
    refine ⟨res, rfl, ?_⟩
    simp only [hv, Option.map_some, Option.some.injEq] at hst
    simp only [checkVal]
    by_cases hbad : pathBad path = true
    · simp [hbad]
    · have hwf' : ∀ segs, path = some segs → pathWF segs = true := by
        intro segs hp; subst hp; simpa [pathBad] using hbad
      simp only [hbad, if_false]
      rw [← origin_is_rfc6811 la path hwf', ← rfc6811_congr hr.mem, hst]
      simp

theorem checkShow_ok {t : Table} {s : List Vrp} (hi : TableInv t) (hr : R t s) (la : Nat) (st : VState) {r : Net}
    (hn : NetWF r) (path : Option (List Seg)) :
    ∃ res, t.validate la r path = some res ∧
      checkShow s la st r path (.api (some (res.state, res.reason)) (decide (res.state = st))) = none := by
  have hst := validate_state hi hn la path
  cases hv : t.validate la r path with
  | none => simp [hv] at hst
  | some res =>
    refine ⟨res, rfl, ?_⟩
    simp only [hv, Option.map_some, Option.some.injEq] at hst
    simp only [checkShow]
    by_cases hbad : pathBad path = true
    · simp [hbad]
    · have hwf' : ∀ segs, path = some segs → pathWF segs = true := by
        intro segs hp; subst hp; simpa [pathBad] using hbad
      simp only [hbad, if_false]
      rw [← origin_is_rfc6811 la path hwf', ← rfc6811_congr hr.mem, hst]
      simp

theorem checkIter_ok {t : Table} {s : List Vrp} (hi : TableInv t) (hr : R t s) (f : Fam) :
    ∃ l, t.iter f = .ok l ∧ checkIter s f (.it l) = none := by
  obtain ⟨l, hl, habs⟩ := iterTrie_ok (hi.trie f).keyOK
  refine ⟨l, hl, ?_⟩
  have hnd : (absTrie f (t.trie f)).Nodup := by
    rw [← abs_fam_filter]; exact hr.nodup.sublist List.filter_sublist
  have hmem : ∀ v, v ∈ absTrie f (t.trie f) ↔ v ∈ famOf s f := by
    intro v
    rw [← abs_fam_filter]
    simp only [famOf, List.mem_filter, hr.mem]
  simp only [checkIter, habs, (nodupB_iff _).2 hnd]
  have h1 : (absTrie f (t.trie f)).all (fun x => decide (x ∈ famOf s f)) = true := by
    simp only [List.all_eq_true, decide_eq_true_eq]; exact fun v hv => (hmem v).1 hv
  have h2 : (famOf s f).all (fun x => decide (x ∈ absTrie f (t.trie f))) = true := by
    simp only [List.all_eq_true, decide_eq_true_eq]; exact fun v hv => (hmem v).2 hv
  simp [h1, h2]

theorem run_sim (la ga : Nat) (ops : List Op) : ∀ (t : Table) (s : List Vrp) (i : Nat),
    TableInv t → R t s → (∀ op ∈ ops, OpWF op) →
    ∃ t' obs, runFrom la ga t ops = .ok (t', obs) ∧ checkFrom la ga i s ops obs = .ok ∧
      TableInv t' ∧ R t' (ops.foldl sStep s) := by
  induction ops with
  | nil => intro t s i hi hr _; exact ⟨t, [], rfl, rfl, hi, hr⟩
  | cons op ops ih =>
    intro t s i hi hr hwf
    have hwf0 := hwf op (by simp)
    have hwf' : ∀ o ∈ ops, OpWF o := fun o ho => hwf o (by simp [ho])
    obtain ⟨s1, s2, s3, s4⟩ := step_sim la ga hi hr op hwf0
    cases op with
    | ins c n ml a =>
      obtain ⟨t1, hs, hi1, hr1⟩ := s1 c n ml a rfl
      obtain ⟨t', obs, hrun, hchk, hi', hr'⟩ := ih t1 _ (i + 1) hi1 hr1 hwf'
      exact ⟨t', obs, by simp [runFrom, hs, hrun], by simpa [checkFrom] using hchk, hi', by simpa using hr'⟩
    | rem c n ml a =>
      obtain ⟨t1, hs, hi1, hr1⟩ := s2 c n ml a rfl
      obtain ⟨t', obs, hrun, hchk, hi', hr'⟩ := ih t1 _ (i + 1) hi1 hr1 hwf'
      exact ⟨t', obs, by simp [runFrom, hs, hrun], by simpa [checkFrom] using hchk, hi', by simpa using hr'⟩
    | drop c =>
      obtain ⟨t1, hs, hi1, hr1⟩ := s3 c rfl
      obtain ⟨t', obs, hrun, hchk, hi', hr'⟩ := ih t1 _ (i + 1) hi1 hr1 hwf'
      exact ⟨t', obs, by simp [runFrom, hs, hrun], by simpa [checkFrom] using hchk, hi', by simpa using hr'⟩
    | reset c vs =>
      obtain ⟨t1, hs, hi1, hr1⟩ := s4 c vs rfl
      obtain ⟨t', obs, hrun, hchk, hi', hr'⟩ := ih t1 _ (i + 1) hi1 hr1 hwf'
      exact ⟨t', obs, by simp [runFrom, hs, hrun], by simpa [checkFrom] using hchk, hi', by simpa using hr'⟩
    | val r path =>
      obtain ⟨res, hv, hc⟩ := checkVal_ok hi hr la hwf0.1 path
      obtain ⟨t', obs, hrun, hchk, hi', hr'⟩ := ih t s (i + 1) hi hr hwf'
      refine ⟨t', .v res :: obs, by simp [runFrom, step, validateB_eq _ _ _ _ hwf0.2, hv, hrun], ?_, hi', by simpa [sStep] using hr'⟩
      simp [checkFrom, hc, hchk]
    | display loc st r path =>
      obtain ⟨res, hv, hc⟩ := checkShow_ok hi hr (if loc then ga else la) st hwf0.1 path
      obtain ⟨t', obs, hrun, hchk, hi', hr'⟩ := ih t s (i + 1) hi hr hwf'
      refine ⟨t', .api (some (res.state, res.reason)) (decide (res.state = st)) :: obs,
        by simp [runFrom, step, validateB_eq _ _ _ _ hwf0.2, hv, hrun], ?_, hi', by simpa [sStep] using hr'⟩
      simp [checkFrom, hc, hchk]
    | iter f =>
      obtain ⟨l, hl, hc⟩ := checkIter_ok hi hr f
      obtain ⟨t', obs, hrun, hchk, hi', hr'⟩ := ih t s (i + 1) hi hr hwf'
      refine ⟨t', .it l :: obs, by simp [runFrom, step, hl, hrun], ?_, hi', by simpa [sStep] using hr'⟩
      simp [checkFrom, hc, hchk]

def CaseWF (c : Case) : Prop := ∀ op ∈ c.ops, OpWF op

theorem check_run_ok (c : Case) (hwf : CaseWF c) :
    Spec.check c (run c) = .ok := by
  obtain ⟨t', obs, hrun, hchk, _, _⟩ := run_sim c.localAsn c.globalAsn c.ops {} [] 0 TableInv.empty R.empty hwf
  simp [run, hrun, Spec.check, hchk]

/-! ## histories: the table is the set fold (no validate needed) -/

theorem run_ok (la ga : Nat) (ops : List Op) : ∀ (t : Table) (s : List Vrp),
    TableInv t → R t s → (∀ op ∈ ops, OpWF op) →
    ∃ t' obs, runFrom la ga t ops = .ok (t', obs) ∧ TableInv t' ∧ R t' (ops.foldl sStep s) := by
  induction ops with
  | nil => intro t s hi hr _; exact ⟨t, [], rfl, hi, hr⟩
  | cons op ops ih =>
    intro t s hi hr hwf
    have hwf0 := hwf op (by simp)
    have hwf' : ∀ o ∈ ops, OpWF o := fun o ho => hwf o (by simp [ho])
    obtain ⟨s1, s2, s3, s4⟩ := step_sim la ga hi hr op hwf0
    cases op with
    | ins c n ml a =>
      obtain ⟨t1, hs, hi1, hr1⟩ := s1 c n ml a rfl
      obtain ⟨t', obs, hrun, hi', hr'⟩ := ih t1 _ hi1 hr1 hwf'
      exact ⟨t', obs, by simp [runFrom, hs, hrun], hi', by simpa using hr'⟩
    | rem c n ml a =>
      obtain ⟨t1, hs, hi1, hr1⟩ := s2 c n ml a rfl
      obtain ⟨t', obs, hrun, hi', hr'⟩ := ih t1 _ hi1 hr1 hwf'
      exact ⟨t', obs, by simp [runFrom, hs, hrun], hi', by simpa using hr'⟩
    | drop c =>
      obtain ⟨t1, hs, hi1, hr1⟩ := s3 c rfl
      obtain ⟨t', obs, hrun, hi', hr'⟩ := ih t1 _ hi1 hr1 hwf'
      exact ⟨t', obs, by simp [runFrom, hs, hrun], hi', by simpa using hr'⟩
    | reset c vs =>
      obtain ⟨t1, hs, hi1, hr1⟩ := s4 c vs rfl
      obtain ⟨t', obs, hrun, hi', hr'⟩ := ih t1 _ hi1 hr1 hwf'
      exact ⟨t', obs, by simp [runFrom, hs, hrun], hi', by simpa using hr'⟩
    | val r path =>
      obtain ⟨t', obs, hrun, hi', hr'⟩ := ih t s hi hr hwf'
      cases hv : t.validate la r path with
      | none => exact ⟨t', .unvalidated :: obs, by simp [runFrom, step, validateB_eq _ _ _ _ hwf0.2, hv, hrun], hi', by simpa [sStep] using hr'⟩
      | some res => exact ⟨t', .v res :: obs, by simp [runFrom, step, validateB_eq _ _ _ _ hwf0.2, hv, hrun], hi', by simpa [sStep] using hr'⟩
    | display loc st r path =>
      obtain ⟨t', obs, hrun, hi', hr'⟩ := ih t s hi hr hwf'
      cases hv : t.validate (if loc then ga else la) r path with
      | none => exact ⟨t', .api none false :: obs, by simp [runFrom, step, validateB_eq _ _ _ _ hwf0.2, hv, hrun], hi', by simpa [sStep] using hr'⟩
      | some res =>
        exact ⟨t', .api (some (res.state, res.reason)) (decide (res.state = st)) :: obs,
          by simp [runFrom, step, validateB_eq _ _ _ _ hwf0.2, hv, hrun], hi', by simpa [sStep] using hr'⟩
    | iter f =>
      obtain ⟨l, hl, _⟩ := checkIter_ok hi hr f
      obtain ⟨t', obs, hrun, hi', hr'⟩ := ih t s hi hr hwf'
      exact ⟨t', .it l :: obs, by simp [runFrom, step, hl, hrun], hi', by simpa [sStep] using hr'⟩

/-! ## "every VRP list" -/

/-- the table holding a given list of VRPs (inserted one by one) -/
def tableOf (vrps : List (Src × Net × Nat × Nat)) : Table :=
  vrps.foldl (fun t v => t.insert v.2.1 ⟨v.2.2.1, v.2.2.2, v.1⟩) {}

/-- the same list as a set of VRPs in the sense of the specification -/
def vrpSet (vrps : List (Src × Net × Nat × Nat)) : List Vrp :=
  vrps.map (fun v => vrpOf v.1 v.2.1 v.2.2.1 v.2.2.2)

theorem mem_foldl_sIns (vs : List Vrp) (s : List Vrp) (x : Vrp) :
    x ∈ vs.foldl sIns s ↔ x ∈ s ∨ x ∈ vs := by
  induction vs generalizing s with
  | nil => simp
  | cons v vs ih =>
    simp only [List.foldl_cons, ih, List.mem_cons]
    have : x ∈ sIns s v ↔ x ∈ s ∨ x = v := by
      unfold sIns
      split
      · rename_i h; constructor
        · exact Or.inl
        · rintro (h' | rfl); exact h'; exact h
      · simp
    rw [this, or_assoc]

theorem tableOf_spec (vrps : List (Src × Net × Nat × Nat)) (hwf : ∀ v ∈ vrps, NetWF v.2.1) :
    TableInv (tableOf vrps) ∧ ∀ x, x ∈ abs (tableOf vrps) ↔ x ∈ vrpSet vrps := by
  have key : ∀ (vs : List (Src × Net × Nat × Nat)) (t : Table) (s : List Vrp), TableInv t → R t s →
      (∀ v ∈ vs, NetWF v.2.1) →
      TableInv (vs.foldl (fun t v => t.insert v.2.1 ⟨v.2.2.1, v.2.2.2, v.1⟩) t) ∧
      R (vs.foldl (fun t v => t.insert v.2.1 ⟨v.2.2.1, v.2.2.2, v.1⟩) t)
        ((vs.map (fun v => vrpOf v.1 v.2.1 v.2.2.1 v.2.2.2)).foldl sIns s) := by
    intro vs
    induction vs with
    | nil => intro t s hi hr _; exact ⟨hi, hr⟩
    | cons v vs ih =>
      intro t s hi hr hw
      obtain ⟨hi1, hr1⟩ := insert_spec hi hr (hw v (by simp)) ⟨v.2.2.1, v.2.2.2, v.1⟩
      exact ih _ _ hi1 hr1 (fun w hw' => hw w (by simp [hw']))
  obtain ⟨hi, hr⟩ := key vrps {} [] TableInv.empty R.empty hwf
  refine ⟨hi, fun x => ?_⟩
  have := hr.mem x
  unfold tableOf
  rw [this, mem_foldl_sIns]
  simp [vrpSet]

theorem rfc6811_append_not_covering (s : List Vrp) (v : Vrp) (o : Option Nat) (r : Net)
    (h : covers v r = false) : rfc6811 (s ++ [v]) o r = rfc6811 s o r := by
  simp [rfc6811, List.any_append, matched, h]

theorem covers_vrpOf_iff (c : Src) (n : Net) (ml a : Nat) (hn : NetWF n) (r : Net) :
    covers (vrpOf c n ml a) r = true ↔
      n.fam = r.fam ∧ n.len ≤ r.len ∧ n.len ≤ 8 * n.fam.nbytes ∧
      (bitsOf n.addr).take n.len = (bitsOf r.addr).take n.len := by
  simp only [covers, vrpOf, prefixBits, Bool.and_eq_true, decide_eq_true_eq,
    List.isPrefixOf_iff_prefix, List.length_take, bitsOf_length, hn.1]
  constructor
  · rintro ⟨⟨hf, hl⟩, hpre⟩
    have hl8 : n.len ≤ 8 * n.fam.nbytes := by omega
    rw [List.prefix_take_iff] at hpre
    obtain ⟨hpre, hlr⟩ := hpre
    simp only [List.length_take, bitsOf_length, hn.1] at hlr
    rw [List.prefix_iff_eq_take] at hpre
    simp only [List.length_take, bitsOf_length, hn.1, Nat.min_eq_left hl8] at hpre
    exact ⟨of_decide_eq_true hf, by omega, hl8, hpre⟩
  · rintro ⟨hf, hlr, hl8, hbits⟩
    refine ⟨⟨decide_eq_true hf, by omega⟩, ?_⟩
    rw [List.prefix_take_iff]
    refine ⟨?_, by simp only [List.length_take, bitsOf_length, hn.1]; omega⟩
    rw [List.prefix_iff_eq_take]
    simp only [List.length_take, bitsOf_length, hn.1, Nat.min_eq_left hl8]
    exact hbits

end Rbgp.Rpki
