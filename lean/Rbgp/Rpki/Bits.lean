/- Rbgp.Rpki.Bits — bit-level lemmas: `prefix_key` masks exactly the first `len` bits (C12 helper lemmas). -/
import Rbgp.Rpki.Spec
namespace Rbgp.Rpki
open Spec

def fromBits (l : List Bool) : Nat := l.foldl (fun acc b => 2 * acc + b.toNat) 0

theorem byteC1 : ∀ x, x < 256 → ∀ k, k ≤ 8 →
    maskByte x (8 - k) = fromBits ((bitsOfByte x).take k) <<< (8 - k) := by decide +kernel

theorem byteC2 : ∀ x, x < 256 → ∀ k, k ≤ 8 →
    (bitsOfByte (maskByte x (8 - k))).take k = (bitsOfByte x).take k := by decide +kernel

theorem byteC3 : ∀ x, x < 256 → ∀ k, k ≤ 8 →
    maskByte (maskByte x (8 - k)) (8 - k) = maskByte x (8 - k) ∧ maskByte x (8 - k) < 256 := by decide +kernel


/-- `prefix_key`'s loop written as a recursion on the remaining length -/
def maskBytes : Nat → List Nat → List Nat
  | _, [] => []
  | l, b :: bs => maskByte b (8 - min l 8) :: maskBytes (l - 8) bs

theorem prefixKeyAux_eq (len : Nat) (bs : List Nat) (i : Nat) :
    prefixKeyAux len i bs = maskBytes (len - 8 * i) bs := by
  induction bs generalizing i with
  | nil => simp [prefixKeyAux, maskBytes]
  | cons b bs ih =>
    simp only [prefixKeyAux, maskBytes]
    rw [ih (i + 1)]
    have h1 : min (8 * (i + 1) - len) 8 = 8 - min (len - 8 * i) 8 := by omega
    have h2 : len - 8 * (i + 1) = len - 8 * i - 8 := by omega
    rw [h1, h2]

theorem prefixKey_eq (a : List Nat) (l : Nat) : prefixKey a l = maskBytes l a ++ [l] := by
  simp [prefixKey, prefixKeyAux_eq]

@[simp] theorem maskBytes_length (l : Nat) (a : List Nat) : (maskBytes l a).length = a.length := by
  induction a generalizing l with
  | nil => simp [maskBytes]
  | cons b bs ih => simp [maskBytes, ih]

def Bytes (a : List Nat) : Prop := ∀ x ∈ a, x < 256

theorem bitsOfByte_length (b : Nat) : (bitsOfByte b).length = 8 := by simp [bitsOfByte]

theorem bitsOf_length (a : List Nat) : (bitsOf a).length = 8 * a.length := by
  induction a with
  | nil => simp [bitsOf]
  | cons b bs ih => simp [bitsOf, bitsOfByte_length, ih]; omega

theorem take_bitsOf_cons (l b : Nat) (bs : List Nat) :
    (bitsOf (b :: bs)).take l = (bitsOfByte b).take (min l 8) ++ (bitsOf bs).take (l - 8) := by
  simp only [bitsOf, List.take_append, bitsOfByte_length]
  congr 1
  by_cases h : l ≤ 8
  · rw [Nat.min_eq_left h]
  · rw [Nat.min_eq_right (by omega)]
    rw [List.take_of_length_le (by simp [bitsOfByte_length]; omega)]
    rw [List.take_of_length_le (by simp [bitsOfByte_length])]

theorem byte_mask_eq_iff (x y : Nat) (hx : x < 256) (hy : y < 256) (k : Nat) (hk : k ≤ 8) :
    maskByte x (8 - k) = maskByte y (8 - k) ↔ (bitsOfByte x).take k = (bitsOfByte y).take k := by
  constructor
  · intro h
    rw [← byteC2 x hx k hk, ← byteC2 y hy k hk, h]
  · intro h
    rw [byteC1 x hx k hk, byteC1 y hy k hk, h]

theorem maskBytes_eq_iff (a b : List Nat) (hl : a.length = b.length) (ha : Bytes a) (hb : Bytes b)
    (l : Nat) : maskBytes l a = maskBytes l b ↔ (bitsOf a).take l = (bitsOf b).take l := by
  induction a generalizing b l with
  | nil =>
    cases b with
    | nil => simp [maskBytes, bitsOf]
    | cons y b => simp at hl
  | cons x a ih =>
    cases b with
    | nil => simp at hl
    | cons y b =>
      have hx : x < 256 := ha x (by simp)
      have hy : y < 256 := hb y (by simp)
      have ha' : Bytes a := fun z hz => ha z (by simp [hz])
      have hb' : Bytes b := fun z hz => hb z (by simp [hz])
      have hl' : a.length = b.length := by simpa using hl
      rw [take_bitsOf_cons, take_bitsOf_cons]
      simp only [maskBytes, List.cons.injEq]
      rw [byte_mask_eq_iff x y hx hy (min l 8) (by omega), ih b hl' ha' hb' (l - 8)]
      constructor
      · rintro ⟨h1, h2⟩; rw [h1, h2]
      · intro h
        have := List.append_inj h (by simp [bitsOfByte_length])
        exact this

theorem maskBytes_idem (a : List Nat) (ha : Bytes a) (l : Nat) :
    maskBytes l (maskBytes l a) = maskBytes l a ∧ Bytes (maskBytes l a) := by
  induction a generalizing l with
  | nil => simp [maskBytes, Bytes]
  | cons x a ih =>
    have hx : x < 256 := ha x (by simp)
    have ha' : Bytes a := fun z hz => ha z (by simp [hz])
    have := byteC3 x hx (min l 8) (by omega)
    have ih' := ih ha' (l - 8)
    simp only [maskBytes]
    refine ⟨by rw [this.1, ih'.1], ?_⟩
    intro z hz
    simp at hz
    rcases hz with rfl | hz
    · exact this.2
    · exact ih'.2 z hz

theorem take_bits_maskBytes (a : List Nat) (ha : Bytes a) (l : Nat) :
    (bitsOf (maskBytes l a)).take l = (bitsOf a).take l := by
  have h := maskBytes_idem a ha l
  exact (maskBytes_eq_iff (maskBytes l a) a (by simp) h.2 ha l).1 h.1

end Rbgp.Rpki
