import Rbgp.Monitor.Codec
import Rbgp.Monitor.Spec
namespace Rbgp.C18
open Rbgp Rbgp.Term Rbgp.Monitor Rbgp.Monitor.Codec

def verdictStr : Spec.Verdict → String
  | .ok => "ok"
  | .fail i p c => s!"fail idx={i} pos={p} clause={c}"

/-- mode `model`: case ↦ observation of the model;
    mode `oracle`: case TAB observation ↦ verdict of the C18 reference checker. -/
def handler (mode : String) (line : String) : String :=
  match mode with
  | "model" =>
      match (parse line).bind caseOf? with
      | some c => toStr (obsT (observe c (run c)))
      | none => "(bad-case)"
  | "oracle" =>
      match line.splitOn "\t" with
      | [c, o] =>
          match (parse c).bind caseOf? with
          | some c =>
              match (parse o).bind obsOf? with
              | some obs => verdictStr (Spec.check c obs)
              | none => "fail idx=0 pos=0 clause=unparsable-observation"
          | none =>
              -- an ill-formed case must be refused by the implementation harness as well
              if o == "(bad-case)" then "ok" else "fail idx=0 pos=0 clause=bad-case-accepted"
      | _ => "(bad-line)"
  | _ => "(bad-mode)"

end Rbgp.C18
