import Rbgp.Monitor.Codec
import Rbgp.Monitor.Spec
namespace Rbgp.C18
open Rbgp Rbgp.Term Rbgp.Monitor Rbgp.Monitor.Codec

def verdictStr : Spec.Verdict → String
  | .ok => "ok"
  | .fail i p c => s!"fail idx={i} pos={p} clause={c}"

/-- mode `model`: case ↦ observation of the model;
    mode `oracle`: case TAB observation ↦ verdict of the C18 reference checker. -/
def handler (mode : String) (line : String) : String :=
  match mode with
  | "model" =>
      match (parse line).bind caseOf? with
      | some p => if p.ext then "(unmodelled-op)" else toStr (obsT (observe p.case (run p.case)))
      | none => "(bad-case)"
  | "oracle" =>
      match parseMany line with
      | some [c, o] =>
          match caseOf? c with
          | some p =>
              match obsOf? o with
              | some obs => verdictStr (Spec.check p.case obs)
              | none => "fail idx=0 pos=0 clause=unparsable-observation"
          | none => "(bad-case)"
      | _ => "(bad-line)"
  | _ => "(bad-mode)"

end Rbgp.C18
