/-
  Rbgp.Rib.ExactInsert — the exact evolution of the path set in `Table::insert` / `Table::remove`
  (`ExactSound` for the two operations).
-/
import Rbgp.Rib.EntryInsert
namespace Rbgp.Rib

/-! ## `Op.removes` of the two operations -/

theorem removes_insert_self (t : Table) (src : Src) (fam : Fam) (net : Net) (rpid : Nat) (nh : Option Nat)
    (attr : Attrs) (filtered nhInv : Bool) (x0 : Entry) :
    (Op.insert src fam net rpid nh attr filtered nhInv).removes t fam net x0 = matchKey src.addr rpid x0 := by
  simp [Op.removes, matchKey, sameAddr]

theorem removes_insert_other (t : Table) (src : Src) {f fam : Fam} {n net : Net} (rpid : Nat) (nh : Option Nat)
    (attr : Attrs) (filtered nhInv : Bool) (x0 : Entry) (h : f ≠ fam ∨ n ≠ net) :
    (Op.insert src fam net rpid nh attr filtered nhInv).removes t f n x0 = false := by
  rcases h with h | h <;> simp [Op.removes, h]

theorem removes_remove_self (t : Table) (src : Src) (fam : Fam) (net : Net) (rpid : Nat) (x0 : Entry) :
    (Op.remove src fam net rpid).removes t fam net x0 = matchKey src.addr rpid x0 := by
  simp [Op.removes, matchKey, sameAddr]

theorem removes_remove_other (t : Table) (src : Src) {f fam : Fam} {n net : Net} (rpid : Nat) (x0 : Entry)
    (h : f ≠ fam ∨ n ≠ net) : (Op.remove src fam net rpid).removes t f n x0 = false := by
  rcases h with h | h <;> simp [Op.removes, h]

/-! ## Entry lists -/

/-- with distinct path keys, erasing the one path with a key leaves none with it -/
theorem eraseIdx_key_fresh {addr rpid : Nat} {es : List Entry} {i : Nat} {old : Entry}
    (hn : (es.map fun e => (e.src.addr, e.rpid)).Nodup) (hi : es[i]? = some old)
    (hm : matchKey addr rpid old = true) : ∀ x ∈ es.eraseIdx i, matchKey addr rpid x = false := by
  intro x hx
  have hp := (eraseIdx_perm hi).map fun e : Entry => (e.src.addr, e.rpid)
  have hn' := hp.nodup hn
  simp only [List.map_cons, List.nodup_cons] at hn'
  cases hx' : matchKey addr rpid x with
  | false => rfl
  | true =>
    exfalso
    apply hn'.1
    rw [matchKey_iff.mp hm, ← matchKey_iff.mp hx']
    exact List.mem_map.mpr ⟨x, hx, rfl⟩

/-- a path with another key survives the erasure -/
theorem mem_eraseIdx_of_key {addr rpid : Nat} {es : List Entry} {i : Nat} {old x : Entry}
    (hi : es[i]? = some old) (hm : matchKey addr rpid old = true) (hx : x ∈ es)
    (hxk : matchKey addr rpid x = false) : x ∈ es.eraseIdx i := by
  have := (eraseIdx_perm hi).mem_iff.mp hx
  rcases List.mem_cons.mp this with rfl | h
  · rw [hm] at hxk; exact absurd hxk (by simp)
  · exact h

theorem PlanSpec.keeps {dst : Dest} {addr rpid : Nat} {pl : InsPlan} (spec : PlanSpec dst addr rpid pl)
    {x : Entry} (hx : x ∈ dst.entries) (hxk : matchKey addr rpid x = false) : x ∈ pl.entries := by
  cases spec with
  | fresh hr he hk hn => rw [he]; exact hx
  | repl i old hr he hi hm hk hn => rw [he]; exact mem_eraseIdx_of_key hi hm hx hxk

/-! ## The tables `insert` / `remove` write -/

theorem insTable_entries_self (t : Table) (src : Src) (fam : Fam) (net : Net) (pl : InsPlan) (e : Entry)
    (st : Nat × Nat) :
    (insTable t src fam net pl e st).entries fam net = insertSorted (cmpFor t.flags net.t2) e pl.entries := by
  unfold Table.entries insTable
  rw [upd_rib_self]
  show (match alookup net (aset net (insDest t.flags net pl e) pl.rib.dests) with
    | some d => d.entries | none => []) = _
  rw [alookup_aset_self]; rfl

theorem insTable_entries_other (t : Table) (src : Src) {fam : Fam} {net : Net} {pl : InsPlan} (e : Entry)
    (st : Nat × Nat) (hdests : pl.rib.dests = (t.rib fam).dests) {f : Fam} {n : Net} (h : f ≠ fam ∨ n ≠ net) :
    (insTable t src fam net pl e st).entries f n = t.entries f n := by
  apply entries_of_lookup_eq
  unfold insTable
  refine lookup_upd _ _ ?_ f n h
  intro m hm
  show alookup m (aset net _ pl.rib.dests) = _
  rw [alookup_aset_ne hm, hdests]

theorem insTable_stale (t : Table) (src : Src) (fam : Fam) (net : Net) (pl : InsPlan) (e : Entry) (st : Nat × Nat) :
    (insTable t src fam net pl e st).stale = t.stale ∧ (insTable t src fam net pl e st).llgr = t.llgr := by
  have := upd_flags t fam (insRib net pl (insDest t.flags net pl e)) (aset (src.addr, fam) st t.stats)
    (if !pl.sessHas && src.lim.isSome then aset (src.id, fam) (atomicInc (t.ctr (src.id, fam))) t.ctrs else t.ctrs)
  unfold insTable
  exact ⟨congrArg Flags.stale this, congrArg Flags.llgr this⟩

theorem upd_stale (t : Table) (f : Fam) (r : Rib) (s c) :
    (t.upd f r s c).stale = t.stale ∧ (t.upd f r s c).llgr = t.llgr :=
  ⟨congrArg Flags.stale (upd_flags t f r s c), congrArg Flags.llgr (upd_flags t f r s c)⟩

theorem remTable_entries_self {t : Table} {fam : Fam} (hk : (((t.rib fam).dests).map (·.1)).Nodup) (net : Net)
    (dst : Dest) (entries : List Entry) (s c) :
    (t.upd fam (remRib (t.rib fam) net dst entries) s c).entries fam net = entries := by
  unfold Table.entries
  rw [upd_rib_self, remRib_lookup_self hk]
  by_cases he : entries.isEmpty = true
  · rw [if_pos he, List.isEmpty_iff.mp he]
  · rw [if_neg he]

theorem remTable_entries_other (t : Table) {fam : Fam} {net : Net} (dst : Dest) (entries : List Entry) (s c)
    {f : Fam} {n : Net} (h : f ≠ fam ∨ n ≠ net) :
    (t.upd fam (remRib (t.rib fam) net dst entries) s c).entries f n = t.entries f n :=
  entries_of_lookup_eq (lookup_upd _ _ (fun _ hm => remRib_lookup_ne _ _ _ _ hm) f n h)

/-! ## `insert` -/

theorem entryExact_insert {c g} (p : Profile) {t : Table} (hinv : Inv c g t) (src : Src) (fam : Fam) (net : Net)
    (rpid : Nat) (nh : Option Nat) (attr : Attrs) (filtered nhInv : Bool) {t' : Table} {r : Res}
    (hstep : t.insert p src fam net rpid nh attr filtered nhInv = .ok (t', r)) :
    EntryExact t (.insert src fam net rpid nh attr filtered nhInv) t' r := by
  obtain ⟨spec, hes, hdests⟩ := insert_plan_spec hinv src fam net rpid
  rcases insert_cases p t src fam net rpid nh attr filtered nhInv with h | h | ⟨aslen, st, h⟩
  · rw [h, insertLimit_eq hinv src fam net rpid] at hstep
    cases hstep
    refine ⟨fun h => absurd rfl h, fun h => absurd rfl h, fun h => absurd rfl h, ?_, ?_⟩
    · intro i; constructor
      · exact Or.inl
      · rintro (h | ⟨a, f, h, _⟩)
        · exact h
        · cases h
    · intro i; constructor
      · exact Or.inl
      · rintro (h | ⟨a, f, h, _⟩)
        · exact h
        · cases h
  · rw [h] at hstep; cases hstep
  · rw [h, insertCommit_eq'] at hstep
    cases hstep
    have hself := insTable_entries_self t src fam net (insertPlan t src fam net rpid)
      (newEntry (insertPlan t src fam net rpid) src nh attr rpid filtered nhInv aslen) st
    have hfl := insTable_stale t src fam net (insertPlan t src fam net rpid)
      (newEntry (insertPlan t src fam net rpid) src nh attr rpid filtered nhInv aslen) st
    refine ⟨?_, ?_, ?_, ?_, ?_⟩
    · intro _ f n x0 hx0 hrm
      show x0 ∈ _
      by_cases hfn : f = fam ∧ n = net
      · obtain ⟨rfl, rfl⟩ := hfn
        rw [removes_insert_self] at hrm
        rw [hself]
        exact mem_insertSorted.mpr (Or.inr (spec.keeps (by rw [hes]; exact hx0) hrm))
      · rw [insTable_entries_other t src _ st hdests (not_both hfn)]; exact hx0
    · rintro _ f n ⟨x, hx⟩
      obtain ⟨rfl, rfl, _⟩ := hx
      refine ⟨newEntry (insertPlan t src f n rpid) src nh attr rpid filtered nhInv aslen, ?_, ?_⟩
      · rw [hself]; exact mem_insertSorted.mpr (Or.inl rfl)
      · exact ⟨rfl, rfl, rfl, rfl, rfl, rfl, rfl, rfl⟩
    · intro _ f n x hx
      by_cases hfn : f = fam ∧ n = net
      · obtain ⟨rfl, rfl⟩ := hfn
        rw [hself] at hx
        rcases mem_insertSorted.mp hx with rfl | hx
        · exact Or.inr ⟨rfl, rfl, rfl, rfl, rfl, rfl, rfl, rfl⟩
        · left
          refine ⟨x, ?_, rfl, ?_⟩
          · rw [← hes]; exact spec.sublist.subset hx
          · rw [removes_insert_self]; exact spec.key_fresh x hx
      · left
        rw [insTable_entries_other t src _ st hdests (not_both hfn)] at hx
        exact ⟨x, hx, rfl, removes_insert_other t src rpid nh attr filtered nhInv x (not_both hfn)⟩
    · intro i; rw [hfl.1]; constructor
      · exact Or.inl
      · rintro (h | ⟨a, f, h, _⟩)
        · exact h
        · cases h
    · intro i; rw [hfl.2]; constructor
      · exact Or.inl
      · rintro (h | ⟨a, f, h, _⟩)
        · exact h
        · cases h

/-! ## `remove` -/

theorem remove_cases' (p : Profile) (t : Table) (src : Src) (fam : Fam) (net : Net) (rpid : Nat) :
    (t.remove p src fam net rpid = .ok (t, .removed none) ∧
      ∀ x ∈ t.entries fam net, matchKey src.addr rpid x = false) ∨
    t.remove p src fam net rpid = .panic ∨
    ∃ dst i removed st, alookup net (t.rib fam).dests = some dst ∧ dst.entries[i]? = some removed ∧
      matchKey src.addr rpid removed = true ∧
      t.remove p src fam net rpid = .ok (removeCommit t src fam net dst removed (dst.entries.eraseIdx i) st) := by
  unfold Table.remove
  cases h : alookup net (t.rib fam).dests with
  | none =>
    refine Or.inl ⟨rfl, ?_⟩
    intro x hx; unfold Table.entries at hx; rw [h] at hx; simp at hx
  | some dst =>
    simp only []
    cases hf : dst.entries.findIdx? (fun e => sameAddr src.addr e && e.rpid == rpid) with
    | none =>
      refine Or.inl ⟨rfl, ?_⟩
      intro x hx; unfold Table.entries at hx; rw [h] at hx
      exact List.findIdx?_eq_none_iff.mp hf x hx
    | some i =>
      simp only []
      obtain ⟨hlt, hm, _⟩ := List.findIdx?_eq_some_iff_getElem.mp hf
      cases hi : dst.entries[i]? with
      | none => exact Or.inr (Or.inl rfl)
      | some removed =>
        have : removed = dst.entries[i] := by
          rw [List.getElem?_eq_getElem hlt] at hi; exact (Option.some.inj hi).symm
        simp only []
        cases alookup (src.addr, fam) t.stats with
        | none => exact Or.inr (Or.inl rfl)
        | some st =>
          simp only []
          cases removeStats p st (if (dst.entries.eraseIdx i).any (sameAddr src.addr) then 0 else 1)
              (if removed.filtered then 0 else 1) with
          | panic => exact Or.inr (Or.inl rfl)
          | ok st' => exact Or.inr (Or.inr ⟨dst, i, removed, st', rfl, hi, by rw [this]; exact hm, rfl⟩)

theorem entryExact_remove {c g} (p : Profile) {t : Table} (hinv : Inv c g t) (src : Src) (fam : Fam) (net : Net)
    (rpid : Nat) {t' : Table} {r : Res} (hstep : t.remove p src fam net rpid = .ok (t', r)) :
    EntryExact t (.remove src fam net rpid) t' r := by
  have hstale : ∀ (l : List Nat) (i : Nat), i ∈ l ↔ (i ∈ l ∨ ∃ a f, Op.remove src fam net rpid = .restale a f ∧ marksOf t a f i) := by
    intro l i; constructor
    · exact Or.inl
    · rintro (h | ⟨a, f, h, _⟩)
      · exact h
      · cases h
  have hllgr : ∀ (l : List Nat) (i : Nat), i ∈ l ↔ (i ∈ l ∨ ∃ a f, Op.remove src fam net rpid = .restaleLlgr a f ∧ marksOf t a f i) := by
    intro l i; constructor
    · exact Or.inl
    · rintro (h | ⟨a, f, h, _⟩)
      · exact h
      · cases h
  rcases remove_cases' p t src fam net rpid with ⟨h, hk⟩ | h | ⟨dst, i, removed, st, hl, hi, hm, h⟩
  · rw [h] at hstep; cases hstep
    refine ⟨fun _ f n x0 hx0 _ => hx0, fun _ f n ⟨x, hx⟩ => absurd hx (fun h => h), ?_, hstale _, hllgr _⟩
    intro _ f n x hx
    left
    refine ⟨x, hx, rfl, ?_⟩
    by_cases hfn : f = fam ∧ n = net
    · obtain ⟨rfl, rfl⟩ := hfn
      rw [removes_remove_self]; exact hk x hx
    · exact removes_remove_other t src rpid x (not_both hfn)
  · rw [h] at hstep; cases hstep
  · rw [h, removeCommit_eq] at hstep
    cases hstep
    have hd := (hinv.rib fam).lookup hl
    have hent : t.entries fam net = dst.entries := by unfold Table.entries; rw [hl]
    have hself := remTable_entries_self (hinv.rib fam).keys net dst (dst.entries.eraseIdx i)
      (aset (src.addr, fam) st t.stats) (remCtrs t src fam removed (dst.entries.eraseIdx i))
    have hfl := upd_stale t fam (remRib (t.rib fam) net dst (dst.entries.eraseIdx i))
      (aset (src.addr, fam) st t.stats) (remCtrs t src fam removed (dst.entries.eraseIdx i))
    refine ⟨?_, fun _ f n ⟨x, hx⟩ => absurd hx (fun h => h), ?_, ?_, ?_⟩
    · intro _ f n x0 hx0 hrm
      show x0 ∈ _
      by_cases hfn : f = fam ∧ n = net
      · obtain ⟨rfl, rfl⟩ := hfn
        rw [removes_remove_self] at hrm
        rw [hself]
        rw [hent] at hx0
        exact mem_eraseIdx_of_key hi hm hx0 hrm
      · rw [remTable_entries_other t dst _ _ _ (not_both hfn)]; exact hx0
    · intro _ f n x hx
      left
      by_cases hfn : f = fam ∧ n = net
      · obtain ⟨rfl, rfl⟩ := hfn
        rw [hself] at hx
        refine ⟨x, ?_, rfl, ?_⟩
        · rw [hent]; exact (List.eraseIdx_sublist _ _).subset hx
        · rw [removes_remove_self]; exact eraseIdx_key_fresh hd.pathKeys hi hm x hx
      · rw [remTable_entries_other t dst _ _ _ (not_both hfn)] at hx
        exact ⟨x, hx, rfl, removes_remove_other t src rpid x (not_both hfn)⟩
    · intro j; rw [hfl.1]; exact hstale _ j
    · intro j; rw [hfl.2]; exact hllgr _ j

theorem exactSound_insert_remove : ExactSound Op.isInsertOrRemove := by
  intro c g p t op t' r hsel hwf hinv hstep
  cases op with
  | insert src fam net rpid nh attr filtered nhInv =>
    exact entryExact_insert p hinv src fam net rpid nh attr filtered nhInv hstep
  | remove src fam net rpid => exact entryExact_remove p hinv src fam net rpid hstep
  | _ => exact absurd hsel (by simp [Op.isInsertOrRemove])

end Rbgp.Rib
