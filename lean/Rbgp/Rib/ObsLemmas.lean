/-
  Rbgp.Rib.ObsLemmas — facts about the canonicalisation used by `observe` (sorting) and about the
  look-ups the reference checkers perform on observations.
-/
import Rbgp.Rib.Obs
namespace Rbgp.Rib

theorem insertBy_perm {α} (lt : α → α → Bool) (x : α) (l : List α) : (insertBy lt x l).Perm (x :: l) := by
  induction l with
  | nil => simp [insertBy]
  | cons y l ih =>
    simp only [insertBy]
    split
    · exact (List.Perm.cons y ih).trans (List.Perm.swap x y l)
    · exact List.Perm.refl _

theorem sortOn_perm {α} (lt : α → α → Bool) (l : List α) : (sortOn lt l).Perm l := by
  induction l with
  | nil => simp [sortOn]
  | cons x l ih =>
    simp only [sortOn, List.foldr_cons]
    exact (insertBy_perm lt x _).trans (List.Perm.cons x ih)

theorem mem_sortOn {α} {lt : α → α → Bool} {l : List α} {a : α} : a ∈ sortOn lt l ↔ a ∈ l :=
  (sortOn_perm lt l).mem_iff

/-- with a key that identifies elements, `find?` by key does not depend on the order -/
theorem find?_key_perm {α κ} [DecidableEq κ] (key : α → κ) {l l' : List α} (hp : l.Perm l')
    (hn : (l.map key).Nodup) (k : κ) :
    l'.find? (fun a => key a = k) = l.find? (fun a => key a = k) := by
  have hn' : (l'.map key).Nodup := (hp.map key).nodup_iff.mp hn
  have uniq : ∀ {m : List α}, (m.map key).Nodup → ∀ a ∈ m, key a = k → m.find? (fun a => key a = k) = some a := by
    intro m hm a ha hk
    induction m with
    | nil => simp at ha
    | cons b m ih =>
      simp only [List.map_cons, List.nodup_cons] at hm
      rcases List.mem_cons.mp ha with rfl | ha'
      · simp [hk]
      · have : key b ≠ k := by
          intro e; exact hm.1 (List.mem_map.mpr ⟨a, ha', by rw [hk, e]⟩)
        simp [List.find?_cons, this, ih hm.2 ha']
  cases h : l.find? (fun a => key a = k) with
  | none =>
    have hnone : ∀ a ∈ l, ¬ key a = k := by
      intro a ha; simpa using List.find?_eq_none.mp h a ha
    apply List.find?_eq_none.mpr
    intro a ha; simpa using hnone a (hp.mem_iff.mpr ha)
  | some a =>
    have ha := List.mem_of_find?_eq_some h
    have hk : key a = k := by simpa using List.find?_some h
    exact uniq hn' a (hp.mem_iff.mp ha) hk

theorem firstSome_eq_none {α} {f : α → Option String} {l : List α} (h : ∀ a ∈ l, f a = none) :
    (l.foldr (fun a acc => match f a with | some s => some s | none => acc) none) = none := by
  induction l with
  | nil => rfl
  | cons a l ih =>
    simp only [List.foldr_cons, h a List.mem_cons_self]
    exact ih (fun b hb => h b (List.mem_cons_of_mem _ hb))

end Rbgp.Rib
