/-
  Rbgp.Rib.Model — executable model of `table/src/lib.rs` (`Table`, `Rib`, `Destination`, `RibEntry`,
  `impl Ord for RibEntry`, `evpn_type2_cmp`, `IdAllocator`, `NlriChange::ecmp_paths`) and of
  `packet/src/bgp.rs Attribute::as_path_length`, shared by C02 / C06 / C15.

  Conventions (DESIGN.md §3):
  * `Arc` identity = the index of the source / attribute set in the case (`Src.id`, `Attrs.id`);
  * the mutable `stale` / `llgr_stale` atomics of `Source` are the table-external sets `Table.stale` /
    `Table.llgr` of source ids, threaded through every operation;
  * hash maps are association lists (observations are sorted by the codec);
  * `partition_point` on a ranked list = linear "insert after the last element that is not worse";
    `sort_unstable` = stable insertion sort (what std does below 20 elements);
  * fixed-width arithmetic where the property is about width: AS-hop accumulator (`usize`), the
    `u64` statistics (`-=` panics in debug, wraps in release) and the `AtomicU64` limit counter
    (`fetch_sub` always wraps);
  * Rust `unwrap` / `unreachable!` are the outcome `Out.panic`.
  Import-free (core only).
-/
namespace Rbgp.Rib

/-! ## Outcomes and fixed-width arithmetic -/

inductive Profile where
  | debug | release
  deriving DecidableEq, Repr, Inhabited

inductive Out (α : Type) where
  | ok (a : α)
  | panic
  deriving Repr

instance : Monad Out where
  pure := .ok
  bind x f := match x with
    | .ok a => f a
    | .panic => .panic

def U64 : Nat := 18446744073709551616

/-- `a -= b` on a `u64`: overflow check in debug, wrap in release. -/
def subU64 (p : Profile) (a b : Nat) : Out Nat :=
  if b ≤ a then .ok (a - b)
  else match p with
    | .debug => .panic
    | .release => .ok ((a + U64 - b % U64) % U64)

/-- `a += b` on a `usize` (64-bit target). -/
def addUsize (p : Profile) (a b : Nat) : Out Nat :=
  if a + b < U64 then .ok (a + b)
  else match p with
    | .debug => .panic
    | .release => .ok ((a + b) % U64)

/-- `AtomicU64::fetch_sub(1)`: wraps in every profile. -/
def atomicDec (v : Nat) : Nat := if v = 0 then U64 - 1 else v - 1
/-- `AtomicU64::fetch_add(1)`. -/
def atomicInc (v : Nat) : Nat := (v + 1) % U64

/-! ## Inputs -/

inductive Role where
  | ebgp | rs | ibgp | rr | confed
  deriving DecidableEq, Repr, Inhabited

/-- `PeerRole::prefers_over_ibgp`. -/
def Role.prefersOverIbgp : Role → Bool
  | .ebgp => true
  | .rs => true
  | _ => false

/-- One `Arc<Source>`; `id` is the allocation identity. -/
structure Src where
  id : Nat
  addr : Nat
  rid : Nat
  role : Role
  /-- configured prefix limit of the session (`None`: no limit, no counter is passed) -/
  lim : Option Nat
  deriving DecidableEq, Repr, Inhabited

/-- One `Arc<Vec<Attribute>>`; `id` is the allocation identity.  `Val` attributes are numbers, `Bin`
    attributes raw bytes, each present at most once. -/
structure Attrs where
  id : Nat
  lp : Option Nat
  origin : Option Nat
  asPath : Option (List Nat)
  oid : Option Nat
  cluster : Option (List Nat)
  comm : Option (List Nat)
  ext : Option (List Nat)
  deriving DecidableEq, Repr, Inhabited

inductive Fam where
  | v4 | ev
  deriving DecidableEq, Repr, Inhabited

/-- `t2 = true`: EVPN type-2 (MAC/IP advertisement) NLRI number `k`; else IPv4 prefix number `k`. -/
structure Net where
  t2 : Bool
  k : Nat
  deriving DecidableEq, Repr, Inhabited

inductive Op where
  | insert (src : Src) (fam : Fam) (net : Net) (rpid : Nat) (nh : Option Nat) (attr : Attrs)
      (filtered nhInv : Bool)
  | remove (src : Src) (fam : Fam) (net : Net) (rpid : Nat)
  | drop (addr : Nat) (fam : Fam)
  | dropStale (addr : Nat) (fam : Fam) (ctr : Option Nat)
  | dropLlgr (addr : Nat) (fam : Fam) (ctr : Option Nat)
  | dropNoLlgr (addr : Nat) (fam : Fam) (ctr : Option Nat)
  | restale (addr : Nat) (fam : Fam)
  | restaleLlgr (addr : Nat) (fam : Fam)
  | nhValidity (nh : Nat) (reachable : Bool)
  | startDeferral (fam : Fam)
  | endDeferral (fam : Fam)
  deriving Repr, Inhabited

structure Case where
  srcs : List Src
  attrs : List Attrs
  ops : List Op
  /-- `Table::new(shard_idx)`: packed into bits [31:24] of every destination id -/
  shard : Nat := 0
  deriving Repr, Inhabited

/-! ## Attribute getters (`PathAttribute`, `has_*_community`, `mac_mobility`, `as_path_length`) -/

/-- `Attribute::as_path_length` over the raw segment bytes (accumulator `acc`).  A missing length
    byte is `read_u8().unwrap()`, a segment type outside 1..4 is `unreachable!()`;
    `set_position` past the end simply ends the loop. -/
def asPathLengthAux (p : Profile) : List Nat → Nat → Out Nat
  | [], acc => .ok acc
  | [_], _ => .panic
  | t :: l :: rest, acc =>
      match (match t with
        | 1 => addUsize p acc 1
        | 2 => addUsize p acc l
        | 3 => Out.ok acc
        | 4 => Out.ok acc
        | _ => Out.panic) with
      | .panic => .panic
      | .ok acc' => asPathLengthAux p (rest.drop (l * 4)) acc'
termination_by bs => bs.length
decreasing_by simp [List.length_drop]; omega

def asPathLength (p : Profile) (bs : List Nat) : Out Nat := asPathLengthAux p bs 0

/-- AS_PATH bytes as `Attribute::decode` guarantees them: whole segments of type 1..4. -/
def asPathWf : List Nat → Bool
  | [] => true
  | [_] => false
  | t :: l :: rest => 1 ≤ t && t ≤ 4 && l * 4 ≤ rest.length && asPathWf (rest.drop (l * 4))
termination_by bs => bs.length
decreasing_by simp [List.length_drop]; omega

/-- `PathAttribute::attr_as_path_length`. -/
def Attrs.asPathLen (p : Profile) (a : Attrs) : Out Nat :=
  match a.asPath with
  | some bs => asPathLength p bs
  | none => .ok 0

def Attrs.localPref (a : Attrs) : Nat :=
  match a.lp with
  | some v => v
  | none => 100

def Attrs.originV (a : Attrs) : Nat :=
  match a.origin with
  | some v => v
  | none => 2

def Attrs.clusterLen (a : Attrs) : Nat :=
  match a.cluster with
  | some bs => bs.length / 4
  | none => 0

def be32 (a b c d : Nat) : Nat := a * 16777216 + b * 65536 + c * 256 + d

/-- `bin.chunks(4).any(|c| u32::from_be_bytes(c) == v)` (a short last chunk never matches). -/
def hasComm4 (v : Nat) : List Nat → Bool
  | a :: b :: c :: d :: rest => be32 a b c d == v || hasComm4 v rest
  | _ => false

def LLGR_STALE : Nat := 4294901766
def NO_LLGR : Nat := 4294901767

def Attrs.hasLlgrStale (a : Attrs) : Bool :=
  match a.comm with
  | some bs => hasComm4 LLGR_STALE bs
  | none => false

def Attrs.hasNoLlgr (a : Attrs) : Bool :=
  match a.comm with
  | some bs => hasComm4 NO_LLGR bs
  | none => false

/-- `chunks_exact(8).find_map(type 0x06 subtype 0x00 ↦ sequence)`. -/
def macMobilitySeq : List Nat → Option Nat
  | e0 :: e1 :: _ :: _ :: e4 :: e5 :: e6 :: e7 :: rest =>
      if e0 == 6 && e1 == 0 then some (be32 e4 e5 e6 e7) else macMobilitySeq rest
  | _ => none

def Attrs.mm (a : Attrs) : Option Nat :=
  match a.ext with
  | some bs => macMobilitySeq bs
  | none => none

/-! ## State -/

/-- `RibEntry` (+ its `Path`).  `aslen` caches `attr_as_path_length()` (computed when the entry is
    built; the Rust recomputes the same pure value at every comparison). -/
structure Entry where
  lpid : Nat
  src : Src
  nh : Option Nat
  attr : Attrs
  rpid : Nat
  filtered : Bool
  nhInv : Bool
  aslen : Nat
  deriving DecidableEq, Repr, Inhabited

def Entry.eligible (e : Entry) : Bool := !e.filtered && !e.nhInv

structure Dest where
  entries : List Entry
  next : Nat
  id : Nat
  deriving Repr, Inhabited

structure Rib where
  deferring : Bool := false
  dests : List (Net × Dest) := []
  used : List Nat := []
  deriving Repr, Inhabited

structure Table where
  v4 : Rib := {}
  ev : Rib := {}
  /-- `route_stats[(addr, family)] = (received, accepted)` -/
  stats : List ((Nat × Fam) × (Nat × Nat)) := []
  /-- ids of sources whose `stale` / `llgr_stale` atomic is set -/
  stale : List Nat := []
  llgr : List Nat := []
  /-- limit counters, one per (source id, family); absent = 0 -/
  ctrs : List ((Nat × Fam) × Nat) := []
  deriving Repr, Inhabited

def Table.rib (t : Table) : Fam → Rib
  | .v4 => t.v4
  | .ev => t.ev
def Table.setRib (t : Table) (f : Fam) (r : Rib) : Table :=
  match f with
  | .v4 => { t with v4 := r }
  | .ev => { t with ev := r }

/-- association-list helpers -/
def alookup {κ ν} [DecidableEq κ] (k : κ) : List (κ × ν) → Option ν
  | [] => none
  | (k', v) :: l => if k' = k then some v else alookup k l
def aset {κ ν} [DecidableEq κ] (k : κ) (v : ν) : List (κ × ν) → List (κ × ν)
  | [] => [(k, v)]
  | (k', v') :: l => if k' = k then (k, v) :: l else (k', v') :: aset k v l
def aerase {κ ν} [DecidableEq κ] (k : κ) : List (κ × ν) → List (κ × ν)
  | [] => []
  | (k', v') :: l => if k' = k then l else (k', v') :: aerase k l

def Table.ctr (t : Table) (k : Nat × Fam) : Nat :=
  match alookup k t.ctrs with
  | some v => v
  | none => 0

/-! ## The comparator (`impl Ord for RibEntry`, `evpn_type2_cmp`) -/

structure Flags where
  stale : List Nat
  llgr : List Nat
  deriving Repr

def Table.flags (t : Table) : Flags := { stale := t.stale, llgr := t.llgr }

def cmpBool (a b : Bool) : Ordering := compare a.toNat b.toNat

/-- `RibEntry::is_llgr_stale` -/
def Entry.isLlgr (fl : Flags) (e : Entry) : Bool := fl.llgr.contains e.src.id || e.attr.hasLlgrStale
def Entry.isStale (fl : Flags) (e : Entry) : Bool := fl.stale.contains e.src.id
/-- `RibEntry::originator_id` -/
def Entry.originatorId (e : Entry) : Nat :=
  match e.attr.oid with
  | some v => v
  | none => e.src.rid

/-- `impl Ord for RibEntry`: `Less` = better. -/
def cmpEntry (fl : Flags) (a b : Entry) : Ordering :=
  (cmpBool (a.isLlgr fl) (b.isLlgr fl)).then <|
  (compare b.attr.localPref a.attr.localPref).then <|
  (compare a.aslen b.aslen).then <|
  (compare a.attr.originV b.attr.originV).then <|
  (cmpBool b.src.role.prefersOverIbgp a.src.role.prefersOverIbgp).then <|
  (cmpBool (a.isStale fl) (b.isStale fl)).then <|
  (compare a.attr.clusterLen b.attr.clusterLen).then <|
  (compare a.originatorId b.originatorId)

/-- `evpn_type2_cmp` -/
def cmpEvpn (fl : Flags) (a b : Entry) : Ordering :=
  match a.attr.mm, b.attr.mm with
  | some x, some y => (compare y x).then (cmpEntry fl a b)
  | some _, none => .lt
  | none, some _ => .gt
  | none, none => cmpEntry fl a b

def cmpFor (fl : Flags) (t2 : Bool) : Entry → Entry → Ordering :=
  if t2 then cmpEvpn fl else cmpEntry fl

/-- `v.insert(v.partition_point(|a| e.cmp(a).is_ge()), e)` on a ranked list. -/
def insertSorted (c : Entry → Entry → Ordering) (e : Entry) : List Entry → List Entry
  | [] => [e]
  | a :: l => if c e a != .lt then a :: insertSorted c e l else e :: a :: l

/-- `sort_unstable` (insertion sort: each element goes after its equals). -/
def sortBy (c : Entry → Entry → Ordering) (l : List Entry) : List Entry :=
  l.foldl (fun acc x => insertSorted c x acc) []

/-! ## Destination helpers -/

def Dest.best (d : Dest) : Option Entry := d.entries.find? Entry.eligible
def Dest.eligibleList (d : Dest) : List Entry := d.entries.filter Entry.eligible

/-- `(Arc::as_ptr(source), Arc::as_ptr(attr), nexthop)` of the first eligible entry -/
def bestKey (es : List Entry) : Option (Nat × Nat × Option Nat) :=
  (es.find? Entry.eligible).map fun e => (e.src.id, e.attr.id, e.nh)
def bestLpid (es : List Entry) : Option Nat :=
  (es.find? Entry.eligible).map fun e => e.lpid

/-- `IdAllocator::alloc`: lowest id not in use. -/
def firstFree (used : List Nat) : Nat → Nat → Nat
  | 0, n => n
  | fuel + 1, n => if used.contains n then firstFree used fuel (n + 1) else n
def allocId (used : List Nat) : Nat := firstFree used used.length 0

/-- `Destination::alloc_path_id` (u32 wrap-around not modelled). -/
def pathIdLoop (es : List Entry) : Nat → Nat → Nat
  | 0, n => n
  | fuel + 1, n => if es.any (fun e => e.lpid == n) then pathIdLoop es fuel (n + 1) else n
def allocPathId (d : Dest) : Nat × Dest :=
  let next0 := if d.entries.isEmpty then 1 else d.next
  let id := pathIdLoop d.entries d.entries.length next0
  (id, { d with next := id + 1 })

/-! ## Change notifications -/

/-- `NlriChange` (paths carry the whole entry so that `ecmp_paths` can be evaluated). -/
structure Change where
  fam : Fam
  net : Net
  destId : Nat
  best : Bool
  any : Bool
  replaced : Option Nat
  paths : List Entry
  deriving Repr, Inhabited

inductive Res where
  | unit
  | noChange
  | limit
  | changed (c : Change)
  | removed (c : Option Change)
  | changes (cs : List Change)
  deriving Repr, Inhabited

/-- The `ecmp_paths` key: every decision step before the router-id. -/
def ecmpKey (fl : Flags) (t2 : Bool) (e : Entry) :
    Option Nat × Bool × Nat × Nat × Nat × Bool × Bool × Nat :=
  (if t2 then e.attr.mm else none, e.isLlgr fl, e.attr.localPref, e.aslen, e.attr.originV,
   e.src.role.prefersOverIbgp, e.isStale fl, e.attr.clusterLen)

/-- `NlriChange::ecmp_paths().len()` -/
def ecmpCount (fl : Flags) (t2 : Bool) : List Entry → Nat
  | [] => 0
  | b :: l => ((b :: l).takeWhile fun e => ecmpKey fl t2 e == ecmpKey fl t2 b).length

/-! ## `Table::insert`

Written as a small shell over pure pieces (`insertPlan`, `insertStats`, `insertCommit`) so that every
proof can talk about the pieces; the shell only sequences the two fallible computations
(`attr_as_path_length`, the `u64` statistics). -/

def sameAddr (addr : Nat) (e : Entry) : Bool := e.src.addr == addr

/-- index of the LAST entry with the same peer address and remote path id -/
def replacedIdx (addr rpid : Nat) : List Entry → Nat → Option Nat → Option Nat
  | [], _, acc => acc
  | e :: l, i, acc =>
      replacedIdx addr rpid l (i + 1) (if sameAddr addr e && e.rpid == rpid then some i else acc)

def statsGet (t : Table) (k : Nat × Fam) : Nat × Nat :=
  match alookup k t.stats with
  | some v => v
  | none => (0, 0)

/-- Everything `insert` decides before it builds the new entry. -/
structure InsPlan where
  /-- the rib with the destination looked up or created (`entry(net).or_insert_with`) -/
  rib : Rib
  dst : Dest
  oldBest : Option (Nat × Nat × Option Nat)
  replaced : Option Entry
  /-- `dst.entry` after `remove(replaced_idx)` -/
  entries : List Entry
  isNew : Bool
  /-- this session's Source (`Arc::ptr_eq`) already holds a path of the destination -/
  sessHas : Bool
  deriving Repr

def insertPlan (t : Table) (src : Src) (fam : Fam) (net : Net) (rpid : Nat) : InsPlan :=
  let rib := t.rib fam
  let (rib, dst) : Rib × Dest :=
    match alookup net rib.dests with
    | some d => (rib, d)
    | none =>
        let id := allocId rib.used
        ({ rib with used := id :: rib.used }, { entries := [], next := 1, id := id })
  let ridx := replacedIdx src.addr rpid dst.entries 0 none
  let peerHasPath := dst.entries.any fun e => sameAddr src.addr e && !(e.rpid == rpid)
  let replaced : Option Entry := match ridx with
    | some i => dst.entries[i]?
    | none => none
  let entries := match ridx with
    | some i => dst.entries.eraseIdx i
    | none => dst.entries
  { rib, dst, oldBest := bestKey dst.entries, replaced, entries, isNew := replaced.isNone && !peerHasPath,
    sessHas := dst.entries.any fun e => e.src.id == src.id }

/-- `PrefixLimitExceeded`: the limit is checked before anything is modified; a destination created
    just for this path is released again. -/
def insertLimit (t : Table) (fam : Fam) (net : Net) (pl : InsPlan) : Table :=
  let rib := if pl.dst.entries.isEmpty then
      { pl.rib with dests := aerase net pl.rib.dests, used := pl.rib.used.erase pl.dst.id }
    else { pl.rib with dests := aset net pl.dst pl.rib.dests }
  t.setRib fam rib

/-- the `route_stats` update of `insert` -/
def insertStats (p : Profile) (st : Nat × Nat) (replaced : Option Entry) (isNew filtered : Bool) : Out (Nat × Nat) :=
  match replaced with
  | some old =>
      if old.filtered && !filtered then .ok (st.1, st.2 + 1)
      else if !old.filtered && filtered then
        match subU64 p st.2 1 with
        | .ok a => .ok (st.1, a)
        | .panic => .panic
      else .ok st
  | none =>
      if isNew then .ok (st.1 + 1, if filtered then st.2 else st.2 + 1)
      else .ok (st.1, if filtered then st.2 else st.2 + 1)

def insertCommit (t : Table) (src : Src) (fam : Fam) (net : Net) (rpid : Nat) (nh : Option Nat) (attr : Attrs)
    (filtered nhInv : Bool) (pl : InsPlan) (aslen : Nat) (st : Nat × Nat) : Table × Res :=
  let ck := (src.id, fam)
  let ctrs := if !pl.sessHas && src.lim.isSome then aset ck (atomicInc (t.ctr ck)) t.ctrs else t.ctrs
  let (lpid, dst) : Nat × Dest := match pl.replaced with
    | some old => (old.lpid, { pl.dst with entries := pl.entries })
    | none => allocPathId { pl.dst with entries := pl.entries }
  let entry : Entry := { lpid, src, nh, attr, rpid, filtered, nhInv, aslen }
  let entries := insertSorted (cmpFor t.flags net.t2) entry dst.entries
  let dst := { dst with entries := entries }
  let rib := { pl.rib with dests := aset net dst pl.rib.dests }
  let t' := { (t.setRib fam rib) with stats := aset (src.addr, fam) st t.stats, ctrs := ctrs }
  let bestChanged := pl.oldBest != bestKey entries
  let anyChanged := !filtered || (match pl.replaced with | some r => !r.filtered | none => false)
  if pl.rib.deferring || (!bestChanged && !anyChanged) then (t', .noChange)
  else (t', .changed { fam, net, destId := dst.id, best := bestChanged, any := anyChanged,
                       replaced := pl.replaced.map (·.lpid), paths := entries.filter Entry.eligible })

def Table.insert (p : Profile) (t : Table) (src : Src) (fam : Fam) (net : Net) (rpid : Nat)
    (nh : Option Nat) (attr : Attrs) (filtered nhInv : Bool) : Out (Table × Res) :=
  let pl := insertPlan t src fam net rpid
  -- the limit counter is per session: a prefix is new to it when its own Source holds no path yet
  let limitHit := !pl.sessHas && (match src.lim with | some max => t.ctr (src.id, fam) ≥ max | none => false)
  if limitHit then .ok (insertLimit t fam net pl, .limit)
  else
    match attr.asPathLen p with
    | .panic => .panic
    | .ok aslen =>
        match insertStats p (statsGet t (src.addr, fam)) pl.replaced pl.isNew filtered with
        | .panic => .panic
        | .ok st => .ok (insertCommit t src fam net rpid nh attr filtered nhInv pl aslen st)

/-! ## `Table::remove` -/

/-- the `route_stats` update of `remove` (and of one destination of a purge) -/
def removeStats (p : Profile) (st : Nat × Nat) (peerGone : Nat) (removedAccepted : Nat) : Out (Nat × Nat) :=
  match subU64 p st.1 peerGone with
  | .panic => .panic
  | .ok r =>
      match subU64 p st.2 removedAccepted with
      | .panic => .panic
      | .ok a => .ok (r, a)

def removeCommit (t : Table) (src : Src) (fam : Fam) (net : Net) (dst : Dest) (removed : Entry)
    (entries : List Entry) (st : Nat × Nat) : Table × Res :=
  let rib := t.rib fam
  let ck := (src.id, fam)
  -- the counter follows the paths of the session's own Source only
  let sessStill := entries.any fun e => e.src.id == src.id
  let ctrs := if removed.src.id == src.id && !sessStill && src.lim.isSome
    then aset ck (atomicDec (t.ctr ck)) t.ctrs else t.ctrs
  let stats := aset (src.addr, fam) st t.stats
  let wasUnfiltered := !removed.filtered
  if entries.isEmpty then
    let rib' := { rib with dests := aerase net rib.dests, used := rib.used.erase dst.id }
    let t' := { (t.setRib fam rib') with stats := stats, ctrs := ctrs }
    if rib.deferring || !wasUnfiltered then (t', .removed none)
    else (t', .removed (some { fam, net, destId := dst.id, best := true, any := true, replaced := none, paths := [] }))
  else
    let rib' := { rib with dests := aset net { dst with entries := entries } rib.dests }
    let t' := { (t.setRib fam rib') with stats := stats, ctrs := ctrs }
    let bestChanged := bestKey dst.entries != bestKey entries
    if rib.deferring || (!bestChanged && !wasUnfiltered) then (t', .removed none)
    else (t', .removed (some { fam, net, destId := dst.id, best := bestChanged, any := wasUnfiltered,
                               replaced := none, paths := entries.filter Entry.eligible }))

def Table.remove (p : Profile) (t : Table) (src : Src) (fam : Fam) (net : Net) (rpid : Nat) :
    Out (Table × Res) :=
  match alookup net (t.rib fam).dests with
  | none => .ok (t, .removed none)
  | some dst =>
    match dst.entries.findIdx? (fun e => sameAddr src.addr e && e.rpid == rpid) with
    | none => .ok (t, .removed none)
    | some i =>
      match dst.entries[i]? with
      | none => .panic
      | some removed =>
        let entries := dst.entries.eraseIdx i
        -- route_stats.get_mut(addr).unwrap().get_mut(family).unwrap()
        match alookup (src.addr, fam) t.stats with
        | none => .panic
        | some st =>
          match removeStats p st (if entries.any (sameAddr src.addr) then 0 else 1)
                  (if removed.filtered then 0 else 1) with
          | .panic => .panic
          | .ok st' => .ok (removeCommit t src fam net dst removed entries st')

/-! ## Purges: `drop`, `drop_stale`, `drop_llgr_stale`, `drop_no_llgr`

One closure call of `destinations.retain(..)` is the pure `purgeOne`; the counters it touches only
ever go down, so the sequence of per-destination decrements is one subtraction of the totals
(same overflow-check outcome in debug, same wrapped value in release). -/

structure PurgeOut where
  /-- the destination if it is retained -/
  keep : Option (Net × Dest)
  freed : Option Nat
  change : Option Change
  /-- the destination was touched and the peer has no path left in it -/
  peerGone : Bool
  /-- removed paths that had passed import policy -/
  removedAccepted : Nat
  deriving Repr

def purgeOne (fam : Fam) (addr : Nat) (pred : Entry → Bool) (nd : Net × Dest) : PurgeOut :=
  let (net, dst) := nd
  if !dst.entries.any pred then
    { keep := some nd, freed := none, change := none, peerGone := false, removedAccepted := 0 }
  else
    let removedAnyUnf := dst.entries.any fun e => pred e && e.eligible
    let removedAccepted := (dst.entries.filter fun e => pred e && !e.filtered).length
    let entries := dst.entries.filter fun e => !pred e
    let peerGone := !entries.any (sameAddr addr)
    if entries.isEmpty then
      { keep := none, freed := some dst.id, peerGone, removedAccepted,
        change := if removedAnyUnf then
            some { fam, net, destId := dst.id, best := true, any := true, replaced := none, paths := [] }
          else none }
    else
      { keep := some (net, { dst with entries := entries }), freed := none, peerGone, removedAccepted,
        change := if removedAnyUnf then
            some { fam, net, destId := dst.id, best := bestLpid dst.entries != bestLpid entries, any := true,
                   replaced := none, paths := entries.filter Entry.eligible }
          else none }

/-- `k` times `fetch_sub(1)` -/
def atomicDecN (k v : Nat) : Nat := (v + U64 - k % U64) % U64

/-- Common body of the four purge functions.  `ctr`: source id whose limit counter is passed;
    `dropStats`: `drop` removes the statistics of (addr, family) first and does not maintain them. -/
def Table.purge (p : Profile) (t : Table) (addr : Nat) (fam : Fam) (pred : Entry → Bool)
    (ctr : Option Nat) (dropStats : Bool) : Out (Table × Res) :=
  let sk := (addr, fam)
  let rib := t.rib fam
  let outs := rib.dests.map (purgeOne fam addr pred)
  let gone := (outs.filter (·.peerGone)).length
  let racc := (outs.map (·.removedAccepted)).sum
  let freed := outs.filterMap (·.freed)
  let rib' := { rib with dests := outs.filterMap (·.keep), used := rib.used.filter fun i => !freed.contains i }
  let ctrs := match ctr with
    | some s => aset (s, fam) (atomicDecN gone (t.ctr (s, fam))) t.ctrs
    | none => t.ctrs
  let res : Res := .changes (if rib.deferring then [] else outs.filterMap (·.change))
  if dropStats then
    .ok ({ (t.setRib fam rib') with stats := aerase sk t.stats, ctrs := ctrs }, res)
  else
    match alookup sk t.stats with
    | none => .ok ({ (t.setRib fam rib') with ctrs := ctrs }, res)
    | some st =>
        match removeStats p st gone racc with
        | .panic => .panic
        | .ok st' => .ok ({ (t.setRib fam rib') with stats := aset sk st' t.stats, ctrs := ctrs }, res)

def Table.drop (p : Profile) (t : Table) (addr : Nat) (fam : Fam) : Out (Table × Res) :=
  t.purge p addr fam (sameAddr addr) none true

def Table.dropStale (p : Profile) (t : Table) (addr : Nat) (fam : Fam) (ctr : Option Nat) : Out (Table × Res) :=
  t.purge p addr fam (fun e => sameAddr addr e && e.isStale t.flags) ctr false

def Table.dropLlgr (p : Profile) (t : Table) (addr : Nat) (fam : Fam) (ctr : Option Nat) : Out (Table × Res) :=
  t.purge p addr fam (fun e => sameAddr addr e && t.flags.llgr.contains e.src.id) ctr false

def Table.dropNoLlgr (p : Profile) (t : Table) (addr : Nat) (fam : Fam) (ctr : Option Nat) : Out (Table × Res) :=
  t.purge p addr fam (fun e => sameAddr addr e && e.attr.hasNoLlgr) ctr false

/-! ## `restale`, `restale_llgr` -/

def addIds (ids : List Nat) (set : List Nat) : List Nat :=
  ids.foldl (fun s i => if s.contains i then s else i :: s) set

/-- One destination of `restale` / `restale_llgr`: mark, re-sort, report.  `llgrMark` selects which
    flag is set.  Returns the new flag sets, the destination and the change (if any). -/
def restaleDest (fam : Fam) (addr : Nat) (llgrMark : Bool) (fl : Flags) (nd : Net × Dest) :
    Flags × (Net × Dest) × Option Change :=
  let (net, dst) := nd
  if !dst.entries.any (sameAddr addr) then (fl, nd, none)
  else
    let anyUnf := dst.entries.any fun e => sameAddr addr e && !e.filtered
    let ids := (dst.entries.filter (sameAddr addr)).map (·.src.id)
    let fl' : Flags := if llgrMark then { fl with llgr := addIds ids fl.llgr } else { fl with stale := addIds ids fl.stale }
    let entries := sortBy (cmpFor fl' net.t2) dst.entries
    -- restale_llgr: the LLGR_STALE community is attached on export from the source's flag, so a best
    -- path of `addr` that keeps its rank is still a changed route
    let bestChanged := bestLpid dst.entries != bestLpid entries ||
      (llgrMark && (match entries.find? Entry.eligible with | some e => sameAddr addr e | none => false))
    (fl', (net, { dst with entries := entries }),
     if bestChanged || anyUnf then
       some { fam, net, destId := dst.id, best := bestChanged, any := anyUnf, replaced := none,
              paths := entries.filter Entry.eligible }
     else none)

/-- `restale_llgr`: one change per usable path of `addr` (reported as replaced, so that add-path
    neighbours advertise it again), `best_changed` on the first only -/
def expandGo (c : Change) : Bool → List Nat → List Change
  | _, [] => []
  | first, pid :: l => { c with best := c.best && first, any := true, replaced := some pid } :: expandGo c false l

def expandLlgr (addr : Nat) (c : Change) : List Change :=
  let remarked := (c.paths.filter (sameAddr addr)).map (·.lpid)
  if remarked.isEmpty then [c] else expandGo c true remarked

/-- the destinations are visited one after the other; flags set while visiting one destination are
    seen by the sorts of the following ones -/
def restaleLoop (fam : Fam) (addr : Nat) (llgrMark : Bool) :
    List (Net × Dest) → Flags → Flags × List (Net × Dest) × List Change
  | [], fl => (fl, [], [])
  | nd :: l, fl =>
      let (fl1, nd', c) := restaleDest fam addr llgrMark fl nd
      let (fl2, ds, cs) := restaleLoop fam addr llgrMark l fl1
      (fl2, nd' :: ds, match c with
        | some c => (if llgrMark then expandLlgr addr c else [c]) ++ cs
        | none => cs)

def Table.restaleGen (t : Table) (addr : Nat) (fam : Fam) (llgrMark : Bool) : Table × Res :=
  let rib := t.rib fam
  let (fl, ds, cs) := restaleLoop fam addr llgrMark rib.dests t.flags
  ({ (t.setRib fam { rib with dests := ds }) with stale := fl.stale, llgr := fl.llgr },
   .changes (if rib.deferring then [] else cs))

/-! ## `update_nexthop_validity` -/

def nhvDest (fam : Fam) (nh : Nat) (reachable : Bool) (nd : Net × Dest) : (Net × Dest) × Option Change :=
  let (net, dst) := nd
  let nowInvalid := !reachable
  if !(dst.entries.any fun e => e.nh == some nh && e.nhInv != nowInvalid) then (nd, none)
  else
    let entries := dst.entries.map fun e => if e.nh == some nh then { e with nhInv := nowInvalid } else e
    ((net, { dst with entries := entries }),
     some { fam, net, destId := dst.id, best := bestKey dst.entries != bestKey entries, any := true,
            replaced := none, paths := entries.filter Entry.eligible })

def Rib.nhv (fam : Fam) (nh : Nat) (reachable : Bool) (r : Rib) : Rib × List Change :=
  let l := r.dests.map (nhvDest fam nh reachable)
  ({ r with dests := l.map (·.1) }, if r.deferring then [] else l.filterMap (·.2))

def Table.nhValidity (t : Table) (nh : Nat) (reachable : Bool) : Table × Res :=
  let r4 := t.v4.nhv .v4 nh reachable
  let re := t.ev.nhv .ev nh reachable
  ({ t with v4 := r4.1, ev := re.1 }, .changes (r4.2 ++ re.2))

/-! ## Deferral, dumps -/

/-- the body of `collect_loc_rib_paths_impl(family, max)` for a family whose route selection is not deferred -/
def Rib.collectAll (fam : Fam) (r : Rib) (max : Option Nat) : List Change :=
  r.dests.filterMap fun (net, dst) =>
    let el := dst.entries.filter Entry.eligible
    let ps := match max with
      | some n => el.take n
      | none => el
    if ps.isEmpty then none
    else some { fam, net, destId := dst.id, best := true, any := true, replaced := none, paths := ps }

/-- `collect_loc_rib_paths_impl(family, max)`: while route selection of the family is deferred nothing
    has been selected yet, the Loc-RIB is empty until `end_deferral()` -/
def Rib.collect (fam : Fam) (r : Rib) (max : Option Nat) : List Change :=
  if r.deferring then [] else r.collectAll fam max

def Table.startDeferral (t : Table) (fam : Fam) : Table :=
  t.setRib fam { t.rib fam with deferring := true }

def Table.endDeferral (t : Table) (fam : Fam) : Table × Res :=
  let t' := t.setRib fam { t.rib fam with deferring := false }
  (t', .changes ((t'.rib fam).collect fam none))

/-- `Table::state(family)` -/
def Rib.state (r : Rib) : Nat × Nat × Nat :=
  let es := r.dests.flatMap fun nd => nd.2.entries
  (r.dests.length, es.length, (es.filter fun e => !e.filtered).length)

/-! ## Running a case -/

def Table.step (p : Profile) (t : Table) : Op → Out (Table × Res)
  | .insert src fam net rpid nh attr filtered nhInv => t.insert p src fam net rpid nh attr filtered nhInv
  | .remove src fam net rpid => t.remove p src fam net rpid
  | .drop addr fam => t.drop p addr fam
  | .dropStale addr fam ctr => t.dropStale p addr fam ctr
  | .dropLlgr addr fam ctr => t.dropLlgr p addr fam ctr
  | .dropNoLlgr addr fam ctr => t.dropNoLlgr p addr fam ctr
  | .restale addr fam => .ok (t.restaleGen addr fam false)
  | .restaleLlgr addr fam => .ok (t.restaleGen addr fam true)
  | .nhValidity nh reachable => .ok (t.nhValidity nh reachable)
  | .startDeferral fam => .ok (t.startDeferral fam, .unit)
  | .endDeferral fam => .ok (t.endDeferral fam)

/-- The states and results of a run; the flag = a step panicked (the run stops there). -/
def runFrom (p : Profile) : Table → List Op → List (Table × Res) × Bool
  | _, [] => ([], false)
  | t, op :: ops =>
      match t.step p op with
      | .panic => ([], true)
      | .ok (t', r) => ((t', r) :: (runFrom p t' ops).1, (runFrom p t' ops).2)

def run (p : Profile) (c : Case) : List (Table × Res) × Bool := runFrom p {} c.ops

end Rbgp.Rib
