/-
  Rbgp.Rib.Model — executable model of `table/src/lib.rs` (`Table`, `Rib`, `Destination`, `RibEntry`,
  `impl Ord for RibEntry`, `evpn_type2_cmp`, `IdAllocator`, `NlriChange::ecmp_paths`) and of
  `packet/src/bgp.rs Attribute::as_path_length`, shared by C02 / C06 / C15.

  Conventions (DESIGN.md §3):
  * `Arc` identity = the index of the source / attribute set in the case (`Src.id`, `Attrs.id`);
  * the mutable `stale` / `llgr_stale` atomics of `Source` are the table-external sets `Table.stale` /
    `Table.llgr` of source ids, threaded through every operation;
  * hash maps are association lists (observations are sorted by the codec);
  * `partition_point` on a ranked list = linear "insert after the last element that is not worse";
    `sort_unstable` = stable insertion sort (what std does below 20 elements);
  * fixed-width arithmetic where the property is about width: AS-hop accumulator (`usize`), the
    `u64` statistics (`-=` panics in debug, wraps in release) and the `AtomicU64` limit counter
    (`fetch_sub` always wraps);
  * Rust `unwrap` / `unreachable!` are the outcome `Out.panic`.
  Import-free (core only).
-/
namespace Rbgp.Rib

/-! ## Outcomes and fixed-width arithmetic -/

inductive Profile where
  | debug | release
  deriving DecidableEq, Repr, Inhabited

inductive Out (α : Type) where
  | ok (a : α)
  | panic
  deriving Repr

instance : Monad Out where
  pure := .ok
  bind x f := match x with
    | .ok a => f a
    | .panic => .panic

def U64 : Nat := 18446744073709551616

/-- `a -= b` on a `u64`: overflow check in debug, wrap in release. -/
def subU64 (p : Profile) (a b : Nat) : Out Nat :=
  if b ≤ a then .ok (a - b)
  else match p with
    | .debug => .panic
    | .release => .ok (a + U64 - b)

/-- `a += b` on a `usize` (64-bit target). -/
def addUsize (p : Profile) (a b : Nat) : Out Nat :=
  if a + b < U64 then .ok (a + b)
  else match p with
    | .debug => .panic
    | .release => .ok ((a + b) % U64)

/-- `AtomicU64::fetch_sub(1)`: wraps in every profile. -/
def atomicDec (v : Nat) : Nat := if v = 0 then U64 - 1 else v - 1
/-- `AtomicU64::fetch_add(1)`. -/
def atomicInc (v : Nat) : Nat := (v + 1) % U64

/-! ## Inputs -/

inductive Role where
  | ebgp | rs | ibgp | rr | confed
  deriving DecidableEq, Repr, Inhabited

/-- `PeerRole::prefers_over_ibgp`. -/
def Role.prefersOverIbgp : Role → Bool
  | .ebgp => true
  | .rs => true
  | _ => false

/-- One `Arc<Source>`; `id` is the allocation identity. -/
structure Src where
  id : Nat
  addr : Nat
  rid : Nat
  role : Role
  /-- configured prefix limit of the session (`None`: no limit, no counter is passed) -/
  lim : Option Nat
  deriving DecidableEq, Repr, Inhabited

/-- One `Arc<Vec<Attribute>>`; `id` is the allocation identity.  `Val` attributes are numbers, `Bin`
    attributes raw bytes, each present at most once. -/
structure Attrs where
  id : Nat
  lp : Option Nat
  origin : Option Nat
  asPath : Option (List Nat)
  oid : Option Nat
  cluster : Option (List Nat)
  comm : Option (List Nat)
  ext : Option (List Nat)
  deriving DecidableEq, Repr, Inhabited

inductive Fam where
  | v4 | ev
  deriving DecidableEq, Repr, Inhabited

/-- `t2 = true`: EVPN type-2 (MAC/IP advertisement) NLRI number `k`; else IPv4 prefix number `k`. -/
structure Net where
  t2 : Bool
  k : Nat
  deriving DecidableEq, Repr, Inhabited

inductive Op where
  | insert (src : Src) (fam : Fam) (net : Net) (rpid : Nat) (nh : Option Nat) (attr : Attrs)
      (filtered nhInv : Bool)
  | remove (src : Src) (fam : Fam) (net : Net) (rpid : Nat)
  | drop (addr : Nat) (fam : Fam)
  | dropStale (addr : Nat) (fam : Fam) (ctr : Option Nat)
  | dropLlgr (addr : Nat) (fam : Fam) (ctr : Option Nat)
  | dropNoLlgr (addr : Nat) (fam : Fam) (ctr : Option Nat)
  | restale (addr : Nat) (fam : Fam)
  | restaleLlgr (addr : Nat) (fam : Fam)
  | nhValidity (nh : Nat) (reachable : Bool)
  | startDeferral (fam : Fam)
  | endDeferral (fam : Fam)
  deriving Repr, Inhabited

structure Case where
  srcs : List Src
  attrs : List Attrs
  ops : List Op
  deriving Repr, Inhabited

/-! ## Attribute getters (`PathAttribute`, `has_*_community`, `mac_mobility`, `as_path_length`) -/

/-- `Attribute::as_path_length` over the raw segment bytes (accumulator `acc`).  A missing length
    byte is `read_u8().unwrap()`, a segment type outside 1..4 is `unreachable!()`;
    `set_position` past the end simply ends the loop. -/
def asPathLengthAux (p : Profile) : List Nat → Nat → Out Nat
  | [], acc => .ok acc
  | [_], _ => .panic
  | t :: l :: rest, acc =>
      match (match t with
        | 1 => addUsize p acc 1
        | 2 => addUsize p acc l
        | 3 => Out.ok acc
        | 4 => Out.ok acc
        | _ => Out.panic) with
      | .panic => .panic
      | .ok acc' => asPathLengthAux p (rest.drop (l * 4)) acc'
termination_by bs => bs.length
decreasing_by simp [List.length_drop]; omega

def asPathLength (p : Profile) (bs : List Nat) : Out Nat := asPathLengthAux p bs 0

/-- `PathAttribute::attr_as_path_length`. -/
def Attrs.asPathLen (p : Profile) (a : Attrs) : Out Nat :=
  match a.asPath with
  | some bs => asPathLength p bs
  | none => .ok 0

def Attrs.localPref (a : Attrs) : Nat :=
  match a.lp with
  | some v => v
  | none => 100

def Attrs.originV (a : Attrs) : Nat :=
  match a.origin with
  | some v => v
  | none => 2

def Attrs.clusterLen (a : Attrs) : Nat :=
  match a.cluster with
  | some bs => bs.length / 4
  | none => 0

def be32 (a b c d : Nat) : Nat := a * 16777216 + b * 65536 + c * 256 + d

/-- `bin.chunks(4).any(|c| u32::from_be_bytes(c) == v)` (a short last chunk never matches). -/
def hasComm4 (v : Nat) : List Nat → Bool
  | a :: b :: c :: d :: rest => be32 a b c d == v || hasComm4 v rest
  | _ => false

def LLGR_STALE : Nat := 4294901766
def NO_LLGR : Nat := 4294901767

def Attrs.hasLlgrStale (a : Attrs) : Bool :=
  match a.comm with
  | some bs => hasComm4 LLGR_STALE bs
  | none => false

def Attrs.hasNoLlgr (a : Attrs) : Bool :=
  match a.comm with
  | some bs => hasComm4 NO_LLGR bs
  | none => false

/-- `chunks_exact(8).find_map(type 0x06 subtype 0x00 ↦ sequence)`. -/
def macMobilitySeq : List Nat → Option Nat
  | e0 :: e1 :: _ :: _ :: e4 :: e5 :: e6 :: e7 :: rest =>
      if e0 == 6 && e1 == 0 then some (be32 e4 e5 e6 e7) else macMobilitySeq rest
  | _ => none

def Attrs.mm (a : Attrs) : Option Nat :=
  match a.ext with
  | some bs => macMobilitySeq bs
  | none => none

/-! ## State -/

/-- `RibEntry` (+ its `Path`).  `aslen` caches `attr_as_path_length()` (computed when the entry is
    built; the Rust recomputes the same pure value at every comparison). -/
structure Entry where
  lpid : Nat
  src : Src
  nh : Option Nat
  attr : Attrs
  rpid : Nat
  filtered : Bool
  nhInv : Bool
  aslen : Nat
  deriving DecidableEq, Repr, Inhabited

def Entry.eligible (e : Entry) : Bool := !e.filtered && !e.nhInv

structure Dest where
  entries : List Entry
  next : Nat
  id : Nat
  deriving Repr, Inhabited

structure Rib where
  deferring : Bool := false
  dests : List (Net × Dest) := []
  used : List Nat := []
  deriving Repr, Inhabited

structure Table where
  v4 : Rib := {}
  ev : Rib := {}
  /-- `route_stats[(addr, family)] = (received, accepted)` -/
  stats : List ((Nat × Fam) × (Nat × Nat)) := []
  /-- ids of sources whose `stale` / `llgr_stale` atomic is set -/
  stale : List Nat := []
  llgr : List Nat := []
  /-- limit counters, one per (source id, family); absent = 0 -/
  ctrs : List ((Nat × Fam) × Nat) := []
  deriving Repr, Inhabited

def Table.rib (t : Table) : Fam → Rib
  | .v4 => t.v4
  | .ev => t.ev
def Table.setRib (t : Table) (f : Fam) (r : Rib) : Table :=
  match f with
  | .v4 => { t with v4 := r }
  | .ev => { t with ev := r }

/-- association-list helpers -/
def alookup {κ ν} [DecidableEq κ] (k : κ) : List (κ × ν) → Option ν
  | [] => none
  | (k', v) :: l => if k' = k then some v else alookup k l
def aset {κ ν} [DecidableEq κ] (k : κ) (v : ν) : List (κ × ν) → List (κ × ν)
  | [] => [(k, v)]
  | (k', v') :: l => if k' = k then (k, v) :: l else (k', v') :: aset k v l
def aerase {κ ν} [DecidableEq κ] (k : κ) : List (κ × ν) → List (κ × ν)
  | [] => []
  | (k', v') :: l => if k' = k then l else (k', v') :: aerase k l

def Table.ctr (t : Table) (k : Nat × Fam) : Nat :=
  match alookup k t.ctrs with
  | some v => v
  | none => 0

/-! ## The comparator (`impl Ord for RibEntry`, `evpn_type2_cmp`) -/

structure Flags where
  stale : List Nat
  llgr : List Nat
  deriving Repr

def Table.flags (t : Table) : Flags := { stale := t.stale, llgr := t.llgr }

def cmpBool (a b : Bool) : Ordering := compare a.toNat b.toNat

/-- `RibEntry::is_llgr_stale` -/
def Entry.isLlgr (fl : Flags) (e : Entry) : Bool := fl.llgr.contains e.src.id || e.attr.hasLlgrStale
def Entry.isStale (fl : Flags) (e : Entry) : Bool := fl.stale.contains e.src.id
/-- `RibEntry::originator_id` -/
def Entry.originatorId (e : Entry) : Nat :=
  match e.attr.oid with
  | some v => v
  | none => e.src.rid

/-- `impl Ord for RibEntry`: `Less` = better. -/
def cmpEntry (fl : Flags) (a b : Entry) : Ordering :=
  (cmpBool (a.isLlgr fl) (b.isLlgr fl)).then <|
  (compare b.attr.localPref a.attr.localPref).then <|
  (compare a.aslen b.aslen).then <|
  (compare a.attr.originV b.attr.originV).then <|
  (cmpBool b.src.role.prefersOverIbgp a.src.role.prefersOverIbgp).then <|
  (cmpBool (a.isStale fl) (b.isStale fl)).then <|
  (compare a.attr.clusterLen b.attr.clusterLen).then <|
  (compare a.originatorId b.originatorId)

/-- `evpn_type2_cmp` -/
def cmpEvpn (fl : Flags) (a b : Entry) : Ordering :=
  match a.attr.mm, b.attr.mm with
  | some x, some y => (compare y x).then (cmpEntry fl a b)
  | some _, none => .lt
  | none, some _ => .gt
  | none, none => cmpEntry fl a b

def cmpFor (fl : Flags) (t2 : Bool) : Entry → Entry → Ordering :=
  if t2 then cmpEvpn fl else cmpEntry fl

/-- `v.insert(v.partition_point(|a| e.cmp(a).is_ge()), e)` on a ranked list. -/
def insertSorted (c : Entry → Entry → Ordering) (e : Entry) : List Entry → List Entry
  | [] => [e]
  | a :: l => if c e a != .lt then a :: insertSorted c e l else e :: a :: l

/-- `sort_unstable` (insertion sort: each element goes after its equals). -/
def sortBy (c : Entry → Entry → Ordering) (l : List Entry) : List Entry :=
  l.foldl (fun acc x => insertSorted c x acc) []

/-! ## Destination helpers -/

def Dest.best (d : Dest) : Option Entry := d.entries.find? Entry.eligible
def Dest.eligibleList (d : Dest) : List Entry := d.entries.filter Entry.eligible

/-- `(Arc::as_ptr(source), Arc::as_ptr(attr), nexthop)` of the first eligible entry -/
def bestKey (es : List Entry) : Option (Nat × Nat × Option Nat) :=
  (es.find? Entry.eligible).map fun e => (e.src.id, e.attr.id, e.nh)
def bestLpid (es : List Entry) : Option Nat :=
  (es.find? Entry.eligible).map fun e => e.lpid

/-- `IdAllocator::alloc`: lowest id not in use. -/
def firstFree (used : List Nat) : Nat → Nat → Nat
  | 0, n => n
  | fuel + 1, n => if used.contains n then firstFree used fuel (n + 1) else n
def allocId (used : List Nat) : Nat := firstFree used used.length 0

/-- `Destination::alloc_path_id` (u32 wrap-around not modelled). -/
def pathIdLoop (es : List Entry) : Nat → Nat → Nat
  | 0, n => n
  | fuel + 1, n => if es.any (fun e => e.lpid == n) then pathIdLoop es fuel (n + 1) else n
def allocPathId (d : Dest) : Nat × Dest :=
  let next0 := if d.entries.isEmpty then 1 else d.next
  let id := pathIdLoop d.entries d.entries.length next0
  (id, { d with next := id + 1 })

/-! ## Change notifications -/

/-- `NlriChange` (paths carry the whole entry so that `ecmp_paths` can be evaluated). -/
structure Change where
  fam : Fam
  net : Net
  destId : Nat
  best : Bool
  any : Bool
  replaced : Option Nat
  paths : List Entry
  deriving Repr, Inhabited

inductive Res where
  | unit
  | noChange
  | limit
  | changed (c : Change)
  | removed (c : Option Change)
  | changes (cs : List Change)
  deriving Repr, Inhabited

/-- The `ecmp_paths` key: every decision step before the router-id. -/
def ecmpKey (fl : Flags) (t2 : Bool) (e : Entry) :
    Option Nat × Bool × Nat × Nat × Nat × Bool × Bool × Nat :=
  (if t2 then e.attr.mm else none, e.isLlgr fl, e.attr.localPref, e.aslen, e.attr.originV,
   e.src.role.prefersOverIbgp, e.isStale fl, e.attr.clusterLen)

/-- `NlriChange::ecmp_paths().len()` -/
def ecmpCount (fl : Flags) (t2 : Bool) : List Entry → Nat
  | [] => 0
  | b :: l => ((b :: l).takeWhile fun e => ecmpKey fl t2 e == ecmpKey fl t2 b).length

/-! ## `Table::insert` -/

def sameAddr (addr : Nat) (e : Entry) : Bool := e.src.addr == addr

/-- index of the LAST entry with the same peer address and remote path id -/
def replacedIdx (addr rpid : Nat) : List Entry → Nat → Option Nat → Option Nat
  | [], _, acc => acc
  | e :: l, i, acc =>
      replacedIdx addr rpid l (i + 1) (if sameAddr addr e && e.rpid == rpid then some i else acc)

def statsGet (t : Table) (k : Nat × Fam) : Nat × Nat :=
  match alookup k t.stats with
  | some v => v
  | none => (0, 0)

def Table.insert (p : Profile) (t : Table) (src : Src) (fam : Fam) (net : Net) (rpid : Nat)
    (nh : Option Nat) (attr : Attrs) (filtered nhInv : Bool) : Out (Table × Res) := do
  let lim := src.lim
  let rib := t.rib fam
  let deferring := rib.deferring
  -- destinations.entry(net).or_insert_with(|| Destination::with_id(alloc()))
  let (rib, dst) :=
    match alookup net rib.dests with
    | some d => (rib, d)
    | none =>
        let id := allocId rib.used
        ({ rib with used := id :: rib.used }, { entries := [], next := 1, id := id })
  let oldBest := bestKey dst.entries
  let ridx := replacedIdx src.addr rpid dst.entries 0 none
  let peerHasPath := dst.entries.any fun e => sameAddr src.addr e && !(e.rpid == rpid)
  let replaced : Option Entry := match ridx with
    | some i => dst.entries[i]?
    | none => none
  let entries := match ridx with
    | some i => dst.entries.eraseIdx i
    | none => dst.entries
  let isNew := replaced.isNone && !peerHasPath
  let ck := (src.id, fam)
  -- prefix limit
  let limitHit := isNew && (match lim with | some max => t.ctr ck ≥ max | none => false)
  if limitHit then
    -- a destination created just for this path is released again
    let rib := if entries.isEmpty then
        { rib with dests := aerase net rib.dests, used := rib.used.erase dst.id }
      else { rib with dests := aset net { dst with entries := entries } rib.dests }
    return (t.setRib fam rib, .limit)
  let ctrs := if isNew && lim.isSome then aset ck (atomicInc (t.ctr ck)) t.ctrs else t.ctrs
  let (lpid, dst) := match replaced with
    | some old => (old.lpid, { dst with entries := entries })
    | none => allocPathId { dst with entries := entries }
  let aslen ← attr.asPathLen p
  let entry : Entry := { lpid, src, nh, attr, rpid, filtered, nhInv, aslen }
  -- route_stats
  let sk := (src.addr, fam)
  let (recv, acc) := statsGet t sk
  let (recv, acc) ← (match replaced with
    | some old =>
        if old.filtered && !filtered then pure (recv, acc + 1)
        else if !old.filtered && filtered then do
          let a ← subU64 p acc 1
          pure (recv, a)
        else pure (recv, acc)
    | none =>
        if isNew then pure (recv + 1, if filtered then acc else acc + 1)
        else pure (recv, if filtered then acc else acc + 1) : Out (Nat × Nat))
  let stats := aset sk (recv, acc) t.stats
  let entries := insertSorted (cmpFor t.flags net.t2) entry dst.entries
  let dst := { dst with entries := entries }
  let rib := { rib with dests := aset net dst rib.dests }
  let t' := { (t.setRib fam rib) with stats := stats, ctrs := ctrs }
  if deferring then return (t', .noChange)
  let newBest := bestKey entries
  let bestChanged := oldBest != newBest
  let anyChanged := !filtered || (match replaced with | some r => !r.filtered | none => false)
  if !bestChanged && !anyChanged then return (t', .noChange)
  return (t', .changed { fam, net, destId := dst.id, best := bestChanged, any := anyChanged,
                         replaced := replaced.map (·.lpid), paths := entries.filter Entry.eligible })

/-! ## `Table::remove` -/

def Table.remove (p : Profile) (t : Table) (src : Src) (fam : Fam) (net : Net) (rpid : Nat) :
    Out (Table × Res) := do
  let withCtr := src.lim.isSome
  let rib := t.rib fam
  match alookup net rib.dests with
  | none => return (t, .removed none)
  | some dst =>
    match dst.entries.findIdx? (fun e => sameAddr src.addr e && e.rpid == rpid) with
    | none => return (t, .removed none)
    | some i =>
      match dst.entries[i]? with
      | none => .panic
      | some removed =>
        let oldBest := bestKey dst.entries
        let wasUnfiltered := !removed.filtered
        let entries := dst.entries.eraseIdx i
        let peerStill := entries.any (sameAddr src.addr)
        let sk := (src.addr, fam)
        -- route_stats.get_mut(addr).unwrap().get_mut(family).unwrap()
        match alookup sk t.stats with
        | none => .panic
        | some (recv, acc) =>
          let recv ← if !peerStill then subU64 p recv 1 else pure recv
          let ck := (src.id, fam)
          let ctrs := if !peerStill && withCtr then aset ck (atomicDec (t.ctr ck)) t.ctrs else t.ctrs
          let acc ← if wasUnfiltered then subU64 p acc 1 else pure acc
          let stats := aset sk (recv, acc) t.stats
          if entries.isEmpty then
            let rib := { rib with dests := aerase net rib.dests, used := rib.used.erase dst.id }
            let t' := { (t.setRib fam rib) with stats := stats, ctrs := ctrs }
            if rib.deferring then return (t', .removed none)
            return (t', .removed (if wasUnfiltered then
              some { fam, net, destId := dst.id, best := true, any := true, replaced := none, paths := [] }
              else none))
          else
            let rib := { rib with dests := aset net { dst with entries := entries } rib.dests }
            let t' := { (t.setRib fam rib) with stats := stats, ctrs := ctrs }
            if rib.deferring then return (t', .removed none)
            let bestChanged := oldBest != bestKey entries
            let anyChanged := wasUnfiltered
            if !bestChanged && !anyChanged then return (t', .removed none)
            return (t', .removed (some { fam, net, destId := dst.id, best := bestChanged, any := anyChanged,
                                         replaced := none, paths := entries.filter Entry.eligible }))

/-! ## Purges: `drop`, `drop_stale`, `drop_llgr_stale`, `drop_no_llgr` -/

/-- Mutable context threaded through `destinations.retain(..)`. -/
structure PurgeAcc where
  dests : List (Net × Dest) := []      -- kept destinations (reversed)
  freed : List Nat := []
  changes : List Change := []          -- reversed
  ctr : Nat                            -- the limit counter passed by the caller (if any)
  recv : Nat
  acc : Nat
  deriving Repr

/-- One closure call of `retain` for the purge functions.  `pred` selects the entries to remove
    (it always implies "same peer address"); `useCtr`: a counter was passed; `useStats`: the
    statistics of (addr, family) exist and are maintained. -/
def purgeDest (p : Profile) (fam : Fam) (addr : Nat) (pred : Entry → Bool) (useCtr useStats : Bool)
    (nd : Net × Dest) (a : PurgeAcc) : Out PurgeAcc := do
  let (net, dst) := nd
  if !dst.entries.any pred then
    return { a with dests := nd :: a.dests }
  let oldBest := bestLpid dst.entries
  let removedAnyUnf := dst.entries.any fun e => pred e && e.eligible
  let removedAccepted := (dst.entries.filter fun e => pred e && !e.filtered).length
  let entries := dst.entries.filter fun e => !pred e
  let peerStill := entries.any (sameAddr addr)
  let ctr := if !peerStill && useCtr then atomicDec a.ctr else a.ctr
  let recv ← if useStats && !peerStill then subU64 p a.recv 1 else pure a.recv
  let acc ← if useStats then subU64 p a.acc removedAccepted else pure a.acc
  let a := { a with ctr := ctr, recv := recv, acc := acc }
  if !removedAnyUnf then
    if entries.isEmpty then return { a with freed := dst.id :: a.freed }
    else return { a with dests := (net, { dst with entries := entries }) :: a.dests }
  if entries.isEmpty then
    return { a with freed := dst.id :: a.freed,
                    changes := { fam, net, destId := dst.id, best := true, any := true,
                                 replaced := none, paths := [] } :: a.changes }
  return { a with dests := (net, { dst with entries := entries }) :: a.dests,
                  changes := { fam, net, destId := dst.id, best := oldBest != bestLpid entries, any := true,
                               replaced := none, paths := entries.filter Entry.eligible } :: a.changes }

def purgeLoop (p : Profile) (fam : Fam) (addr : Nat) (pred : Entry → Bool) (useCtr useStats : Bool) :
    List (Net × Dest) → PurgeAcc → Out PurgeAcc
  | [], a => .ok a
  | nd :: l, a =>
      match purgeDest p fam addr pred useCtr useStats nd a with
      | .panic => .panic
      | .ok a' => purgeLoop p fam addr pred useCtr useStats l a'

/-- Common body of the four purge functions.  `ctr`: source id whose limit counter is passed;
    `dropStats`: `drop` removes the statistics of (addr, family) first and does not maintain them. -/
def Table.purge (p : Profile) (t : Table) (addr : Nat) (fam : Fam) (pred : Entry → Bool)
    (ctr : Option Nat) (dropStats : Bool) : Out (Table × Res) := do
  let sk := (addr, fam)
  let stats0 := if dropStats then aerase sk t.stats else t.stats
  let (useStats, recv, acc) := match alookup sk stats0 with
    | some (r, a) => (true, r, a)
    | none => (false, 0, 0)
  let rib := t.rib fam
  let c0 := match ctr with
    | some s => t.ctr (s, fam)
    | none => 0
  let a ← purgeLoop p fam addr pred ctr.isSome useStats rib.dests { ctr := c0, recv := recv, acc := acc }
  let rib' := { rib with dests := a.dests.reverse, used := rib.used.filter fun i => !a.freed.contains i }
  let stats := if useStats then aset sk (a.recv, a.acc) stats0 else stats0
  let ctrs := match ctr with
    | some s => aset (s, fam) a.ctr t.ctrs
    | none => t.ctrs
  let t' := { (t.setRib fam rib') with stats := stats, ctrs := ctrs }
  return (t', .changes (if rib.deferring then [] else a.changes.reverse))

def Table.drop (p : Profile) (t : Table) (addr : Nat) (fam : Fam) : Out (Table × Res) :=
  t.purge p addr fam (sameAddr addr) none true

def Table.dropStale (p : Profile) (t : Table) (addr : Nat) (fam : Fam) (ctr : Option Nat) : Out (Table × Res) :=
  t.purge p addr fam (fun e => sameAddr addr e && e.isStale t.flags) ctr false

def Table.dropLlgr (p : Profile) (t : Table) (addr : Nat) (fam : Fam) (ctr : Option Nat) : Out (Table × Res) :=
  t.purge p addr fam (fun e => sameAddr addr e && e.isLlgr t.flags) ctr false

def Table.dropNoLlgr (p : Profile) (t : Table) (addr : Nat) (fam : Fam) (ctr : Option Nat) : Out (Table × Res) :=
  t.purge p addr fam (fun e => sameAddr addr e && e.attr.hasNoLlgr) ctr false

/-! ## `restale`, `restale_llgr` -/

def addIds (ids : List Nat) (set : List Nat) : List Nat :=
  ids.foldl (fun s i => if s.contains i then s else i :: s) set

/-- One destination of `restale` / `restale_llgr`: mark, re-sort, report.  `llgrMark` selects which
    flag is set.  Returns the new flag sets, the destination and the change (if any). -/
def restaleDest (fam : Fam) (addr : Nat) (llgrMark : Bool) (fl : Flags) (nd : Net × Dest) :
    Flags × (Net × Dest) × Option Change :=
  let (net, dst) := nd
  if !dst.entries.any (sameAddr addr) then (fl, nd, none)
  else
    let oldBest := bestLpid dst.entries
    let anyUnf := dst.entries.any fun e => sameAddr addr e && !e.filtered
    let ids := (dst.entries.filter (sameAddr addr)).map (·.src.id)
    let fl' : Flags := if llgrMark then { fl with llgr := addIds ids fl.llgr } else { fl with stale := addIds ids fl.stale }
    let entries := sortBy (cmpFor fl' net.t2) dst.entries
    let bestChanged := oldBest != bestLpid entries
    let dst' := { dst with entries := entries }
    if bestChanged || anyUnf then
      (fl', (net, dst'), some { fam, net, destId := dst.id, best := bestChanged, any := anyUnf,
                                replaced := none, paths := entries.filter Entry.eligible })
    else (fl', (net, dst'), none)

def restaleLoop (fam : Fam) (addr : Nat) (llgrMark : Bool) :
    List (Net × Dest) → Flags → List (Net × Dest) → List Change → Flags × List (Net × Dest) × List Change
  | [], fl, ds, cs => (fl, ds.reverse, cs.reverse)
  | nd :: l, fl, ds, cs =>
      let (fl', nd', c) := restaleDest fam addr llgrMark fl nd
      restaleLoop fam addr llgrMark l fl' (nd' :: ds) (match c with | some c => c :: cs | none => cs)

def Table.restaleGen (t : Table) (addr : Nat) (fam : Fam) (llgrMark : Bool) : Table × Res :=
  let rib := t.rib fam
  let (fl, ds, cs) := restaleLoop fam addr llgrMark rib.dests t.flags [] []
  let t' := { (t.setRib fam { rib with dests := ds }) with stale := fl.stale, llgr := fl.llgr }
  (t', .changes (if rib.deferring then [] else cs))

/-! ## `update_nexthop_validity` -/

def nhvDest (fam : Fam) (nh : Nat) (reachable : Bool) (nd : Net × Dest) : (Net × Dest) × Option Change :=
  let (net, dst) := nd
  let oldBest := bestKey dst.entries
  let nowInvalid := !reachable
  let anyChanged := dst.entries.any fun e => e.nh == some nh && e.nhInv != nowInvalid
  if !anyChanged then (nd, none)
  else
    let entries := dst.entries.map fun e => if e.nh == some nh then { e with nhInv := nowInvalid } else e
    ((net, { dst with entries := entries }),
     some { fam, net, destId := dst.id, best := oldBest != bestKey entries, any := true, replaced := none,
            paths := entries.filter Entry.eligible })

def Rib.nhv (fam : Fam) (nh : Nat) (reachable : Bool) (r : Rib) : Rib × List Change :=
  let l := r.dests.map (nhvDest fam nh reachable)
  ({ r with dests := l.map (·.1) }, if r.deferring then [] else l.filterMap (·.2))

def Table.nhValidity (t : Table) (nh : Nat) (reachable : Bool) : Table × Res :=
  let (r4, c4) := t.v4.nhv .v4 nh reachable
  let (re, ce) := t.ev.nhv .ev nh reachable
  ({ t with v4 := r4, ev := re }, .changes (c4 ++ ce))

/-! ## Deferral, dumps -/

/-- `collect_loc_rib_paths_impl(family, max)` -/
def Rib.collect (fam : Fam) (r : Rib) (max : Option Nat) : List Change :=
  r.dests.filterMap fun (net, dst) =>
    let el := dst.entries.filter Entry.eligible
    let ps := match max with
      | some n => el.take n
      | none => el
    if ps.isEmpty then none
    else some { fam, net, destId := dst.id, best := true, any := true, replaced := none, paths := ps }

def Table.startDeferral (t : Table) (fam : Fam) : Table :=
  t.setRib fam { t.rib fam with deferring := true }

def Table.endDeferral (t : Table) (fam : Fam) : Table × Res :=
  let t' := t.setRib fam { t.rib fam with deferring := false }
  (t', .changes ((t'.rib fam).collect fam none))

/-- `Table::state(family)` -/
def Rib.state (r : Rib) : Nat × Nat × Nat :=
  let es := r.dests.flatMap fun nd => nd.2.entries
  (r.dests.length, es.length, (es.filter fun e => !e.filtered).length)

/-! ## Running a case -/

def Table.step (p : Profile) (t : Table) : Op → Out (Table × Res)
  | .insert src fam net rpid nh attr filtered nhInv => t.insert p src fam net rpid nh attr filtered nhInv
  | .remove src fam net rpid => t.remove p src fam net rpid
  | .drop addr fam => t.drop p addr fam
  | .dropStale addr fam ctr => t.dropStale p addr fam ctr
  | .dropLlgr addr fam ctr => t.dropLlgr p addr fam ctr
  | .dropNoLlgr addr fam ctr => t.dropNoLlgr p addr fam ctr
  | .restale addr fam => .ok (t.restaleGen addr fam false)
  | .restaleLlgr addr fam => .ok (t.restaleGen addr fam true)
  | .nhValidity nh reachable => .ok (t.nhValidity nh reachable)
  | .startDeferral fam => .ok (t.startDeferral fam, .unit)
  | .endDeferral fam => .ok (t.endDeferral fam)

/-- The states and results of a run; `none` at the end = the step panicked. -/
def runFrom (p : Profile) : Table → List Op → List (Table × Res) × Bool
  | _, [] => ([], false)
  | t, op :: ops =>
      match t.step p op with
      | .panic => ([], true)
      | .ok (t', r) =>
          let (l, pn) := runFrom p t' ops
          ((t', r) :: l, pn)

def run (p : Profile) (c : Case) : List (Table × Res) × Bool := runFrom p {} c.ops

end Rbgp.Rib
