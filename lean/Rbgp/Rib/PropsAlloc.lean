/-
  Rbgp.Rib.PropsAlloc — C06, the destination-id allocator (`IdAllocator` as modelled: the set of ids
  in use; `alloc` = lowest id not in use, `dealloc` = remove).
-/
import Rbgp.Rib.InvInsert
namespace Rbgp.Rib.PropsAlloc
open Rbgp.Rib

theorem firstFree_below (used : List Nat) : ∀ (fuel n m : Nat), n ≤ m → m < firstFree used fuel n → m ∈ used := by
  intro fuel
  induction fuel with
  | zero => intro n m h1 h2; simp only [firstFree] at h2; omega
  | succ fuel ih =>
    intro n m h1 h2
    simp only [firstFree] at h2
    by_cases hc : used.contains n = true
    · rw [if_pos hc] at h2
      rcases Nat.eq_or_lt_of_le h1 with rfl | hlt
      · simpa using hc
      · exact ih (n + 1) m hlt h2
    · rw [if_neg hc] at h2; omega

/-- **alloc_lowest_free**: `alloc` returns an id that is not in use, and every smaller id is in use. -/
theorem alloc_lowest_free (used : List Nat) : allocId used ∉ used ∧ ∀ m, m < allocId used → m ∈ used :=
  ⟨allocId_not_mem used, fun m hm => firstFree_below used used.length 0 m (Nat.zero_le _) hm⟩

/-- **dealloc_frees_exactly**: releasing an id (of a set without duplicates) frees that id and no other. -/
theorem dealloc_frees_exactly (used : List Nat) (hn : used.Nodup) (i : Nat) :
    i ∉ used.erase i ∧ ∀ j, j ≠ i → (j ∈ used.erase i ↔ j ∈ used) := by
  refine ⟨fun h => ?_, fun j hj => ?_⟩
  · exact (List.Nodup.mem_erase_iff hn).mp h |>.1 rfl
  · rw [List.Nodup.mem_erase_iff hn]
    exact ⟨fun h => h.2, fun h => ⟨hj, h⟩⟩

/-- non-vacuity: ids 0,1,3 in use: the allocator hands out 2 -/
example : allocId [3, 0, 1] = 2 := by decide

end Rbgp.Rib.PropsAlloc

#print axioms Rbgp.Rib.PropsAlloc.alloc_lowest_free
#print axioms Rbgp.Rib.PropsAlloc.dealloc_frees_exactly
