/-
  Rbgp.Rib.SpecRef — the reference path set shared by the three reference checkers.

  None of the checkers trusts the table's own dump for WHICH paths exist: the operations of the case
  are folded into a reference set of paths (what the API contract of `Table` says must be in the RIB:
  `insert` adds or replaces the path (peer address, path id) of a prefix unless the limit is signalled,
  `remove` deletes it, `drop` deletes the peer's paths, the stale purges delete the paths of sessions
  marked (LLGR-)stale, `drop_no_llgr` the peer's paths carrying NO_LLGR, next-hop reachability flips
  update the paths using that next hop), together with the sets of sessions marked stale / LLGR-stale,
  and every dump (`destinations(Global, family, [], true)`, `Source::is_stale`) must agree with it.
  Written from the operations' contract, independently of the model.
-/
import Rbgp.Rib.Obs
namespace Rbgp.Rib.SpecRef
open Rbgp.Rib

structure RefPath where
  src : Nat
  attr : Nat
  rpid : Nat
  filtered : Bool
  nh : Option Nat
  /-- the latest information says the next hop is unreachable -/
  nhInv : Bool
  deriving DecidableEq, Repr, Inhabited

/-- (family, prefix, peer address, remote path id) identifies a path -/
abbrev Key := Fam × Net × Nat × Nat

structure RefSt where
  paths : List (Key × RefPath) := []
  stale : List Nat := []
  llgr : List Nat := []
  deriving Repr

def setPath (k : Key) (v : RefPath) : List (Key × RefPath) → List (Key × RefPath)
  | [] => [(k, v)]
  | (k', v') :: l => if k' = k then (k, v) :: l else (k', v') :: setPath k v l

def getPath (k : Key) : List (Key × RefPath) → Option RefPath
  | [] => none
  | (k', v') :: l => if k' = k then some v' else getPath k l

def addId (i : Nat) (l : List Nat) : List Nat := if l.contains i then l else i :: l

/-- well-known community NO_LLGR = 0xFFFF0007 (RFC 9494), read off the raw attribute -/
def carriesNoLlgr : List Nat → Bool
  | a :: b :: c :: d :: rest => (a == 255 && b == 255 && c == 0 && d == 7) || carriesNoLlgr rest
  | _ => false

def attrNoLlgr (c : Case) (attr : Nat) : Bool :=
  match c.attrs[attr]? with
  | some a => (match a.comm with | some bs => carriesNoLlgr bs | none => false)
  | none => false

/-- paths of peer `a` in family `f` -/
def ofPeer (a : Nat) (f : Fam) (kv : Key × RefPath) : Bool := kv.1.1 == f && kv.1.2.2.1 == a

def refStep (c : Case) (st : RefSt) (op : Op) (res : ResObs) : RefSt :=
  match op with
  | .insert src fam net rpid nh attr filtered nhInv =>
      if res = .limit then st
      else { st with paths := setPath (fam, net, src.addr, rpid)
                        { src := src.id, attr := attr.id, rpid, filtered, nh, nhInv } st.paths }
  | .remove src fam net rpid =>
      { st with paths := st.paths.filter fun kv => !(kv.1 == (fam, net, src.addr, rpid)) }
  | .drop a f => { st with paths := st.paths.filter fun kv => !ofPeer a f kv }
  | .dropStale a f _ => { st with paths := st.paths.filter fun kv => !(ofPeer a f kv && st.stale.contains kv.2.src) }
  | .dropLlgr a f _ => { st with paths := st.paths.filter fun kv => !(ofPeer a f kv && st.llgr.contains kv.2.src) }
  | .dropNoLlgr a f _ => { st with paths := st.paths.filter fun kv => !(ofPeer a f kv && attrNoLlgr c kv.2.attr) }
  | .restale a f =>
      { st with stale := ((st.paths.filter (ofPeer a f)).map (·.2.src)).foldl (fun l i => addId i l) st.stale }
  | .restaleLlgr a f =>
      { st with llgr := ((st.paths.filter (ofPeer a f)).map (·.2.src)).foldl (fun l i => addId i l) st.llgr }
  | .nhValidity k reachable =>
      { st with paths := st.paths.map fun kv => if kv.2.nh = some k then (kv.1, { kv.2 with nhInv := !reachable }) else kv }
  | .startDeferral _ => st
  | .endDeferral _ => st

/-- the reference paths of one prefix -/
def pathsOf (st : RefSt) (f : Fam) (n : Net) : List RefPath :=
  (st.paths.filter fun kv => kv.1.1 == f && kv.1.2.1 == n).map (·.2)

def sameSet (a b : List Nat) : Bool := a.all b.contains && b.all a.contains

/-- the dump of a family lists exactly the reference paths (as a set per prefix, with the right
    flags), and the stale markers agree -/
def checkFam (st : RefSt) (fo : FamObs) : Option String :=
  -- every dumped path is a reference path
  if !(fo.dests.all fun d => d.2.all fun e =>
        (pathsOf st fo.fam d.1).any fun p => p.src == e.src && p.rpid == e.rpid && p.attr == e.attr && p.filtered == e.filtered)
    then some "dumped-path-not-in-reference-set"
  else if !(fo.dests.all fun d => d.2.all fun e => e.stale == st.stale.contains e.src)
    then some "stale-marker-differs-from-reference"
  -- every reference path of the family is dumped, once
  else if !(st.paths.all fun kv => kv.1.1 != fo.fam ||
        (match fo.dests.find? (fun d => d.1 = kv.1.2.1) with
         | some d => (d.2.filter fun e => e.src == kv.2.src && e.rpid == kv.2.rpid).length == 1
         | none => false))
    then some "reference-path-missing-from-dump"
  else if !(fo.dests.all fun d => d.2.length == (pathsOf st fo.fam d.1).length && !d.2.isEmpty)
    then some "dump-lists-a-path-twice"
  else none

def firstSome {α} (f : α → Option String) : List α → Option String
  | [] => none
  | a :: l => match f a with
    | some s => some s
    | none => firstSome f l

def check (c : Case) (st : RefSt) (s : StepObs) : Option String :=
  (firstSome (checkFam st) s.fams).orElse fun _ =>
  if !sameSet s.stale (st.stale.filter fun i => i < c.srcs.length) then some "stale-sessions-differ-from-reference"
  else if !sameSet s.llgr (st.llgr.filter fun i => i < c.srcs.length) then some "llgr-stale-sessions-differ-from-reference"
  else none

end Rbgp.Rib.SpecRef
