/-
  Rbgp.Rib.GoodDef — `Case.Good` (what the codec guarantees of a case) and the invariant that every
  attribute set in the table is one of the case's (`AttrRefInv`, defined in RefDef).
-/
import Rbgp.Rib.RefDef
namespace Rbgp.Rib

/-- every `Arc<Vec<Attribute>>` handed to `insert` is one of the case's attribute sets -/
def Op.AttrRef (c : Case) : Op → Prop
  | .insert _ _ _ _ _ attr _ _ => c.attrs[attr.id]? = some attr
  | _ => True

/-- a case the codec can produce: sources and attribute sets are referred to by their position -/
structure Case.Good (c : Case) (g : Nat → Fam) : Prop where
  wf : c.WFWith g
  attrRef : ∀ op ∈ c.ops, op.AttrRef c

theorem nhFlip_fields (k : Nat) (reach : Bool) (e : Entry) :
    (nhFlip k reach e).src = e.src ∧ (nhFlip k reach e).rpid = e.rpid ∧ (nhFlip k reach e).nh = e.nh ∧
    (nhFlip k reach e).attr = e.attr ∧
    (nhFlip k reach e).nhInv = (if e.nh = some k then !reach else e.nhInv) := by
  unfold nhFlip
  by_cases h : e.nh = some k <;> simp [h]

theorem attrRef_step {c : Case} {t t' : Table} {op : Op} {r : Res} (h : AttrRefInv c t)
    (hop : op.AttrRef c) (hE : EntryFacts t op t' r) : AttrRefInv c t' := by
  intro f n x hx
  rcases hE.mem f n x hx with ⟨x0, hx0, rfl, _⟩ | ⟨hins, _⟩
  · have := h f n x0 hx0
    cases op <;> simp only [Op.flip] <;> try exact this
    rw [(nhFlip_fields _ _ x0).2.2.2.1]; exact this
  · cases op <;> simp only [Op.inserts] at hins
    obtain ⟨_, _, _, _, _, _, ha, _⟩ := hins
    rw [ha]; exact hop

theorem attrRefInv_empty (c : Case) : AttrRefInv c {} := by
  intro f n e he; cases f <;> simp [Table.entries, Table.rib, alookup] at he

end Rbgp.Rib
