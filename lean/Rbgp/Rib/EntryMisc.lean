/-
  Rbgp.Rib.EntryMisc — how the paths of every prefix evolve under `restale`, `restale_llgr`,
  `update_nexthop_validity` and start / end of deferral (`EntrySound Op.isMisc`).
-/
import Rbgp.Rib.InvMisc
import Rbgp.Rib.EntryDef
namespace Rbgp.Rib

theorem entries_mapDests {t t' : Table} {F : Fam → Net × Dest → Net × Dest}
    (hd : ∀ f, (t'.rib f).dests = (t.rib f).dests.map (F f)) (hF : ∀ f nd, (F f nd).1 = nd.1)
    (f : Fam) (n : Net) :
    t'.entries f n = match alookup n (t.rib f).dests with
      | some d => (F f (n, d)).2.entries
      | none => [] := by
  unfold Table.entries
  rw [hd f, alookup_map (F f) (hF f)]
  cases alookup n (t.rib f).dests <;> rfl

/-- paths after a step that maps every destination on its own -/
theorem entryFacts_of_map {t t' : Table} {op : Op} {r : Res} {F : Fam → Net × Dest → Net × Dest}
    (hd : ∀ f, (t'.rib f).dests = (t.rib f).dests.map (F f)) (hF : ∀ f nd, (F f nd).1 = nd.1)
    (hx : ∀ f, ∀ nd ∈ (t.rib f).dests, ∀ x ∈ (F f nd).2.entries, ∃ x0 ∈ nd.2.entries, x = op.flip x0)
    (hrep : ∀ f n x0, ¬ op.replaces f n x0) (hr : r ≠ .limit) : EntryFacts t op t' r := by
  refine ⟨?_, fun h => absurd h hr⟩
  intro f n x hxm
  rw [entries_mapDests hd hF f n] at hxm
  left
  unfold Table.entries
  cases hl : alookup n (t.rib f).dests with
  | none => rw [hl] at hxm; simp at hxm
  | some d =>
    rw [hl] at hxm
    obtain ⟨x0, h0, h1⟩ := hx f (n, d) (alookup_some_mem hl) x hxm
    exact ⟨x0, h0, h1, Or.inr (hrep f n x0)⟩

/-! ## `restale` / `restale_llgr` -/

theorem mem_rd_entries {fam : Fam} {addr : Nat} {m : Bool} {FL : Flags} {nd : Net × Dest} {x : Entry} :
    x ∈ (rd fam addr m FL nd).1.2.entries ↔ x ∈ nd.2.entries := by
  cases ht : nd.2.entries.any (sameAddr addr) with
  | false => rw [rd_untouched fam addr FL nd ht]
  | true => rw [rd_entries_touched fam addr FL nd ht]; exact mem_sortBy

/-- what `restale` / `restale_llgr` do to the destinations and to the flag sets -/
theorem restaleGen_spec {c : Case} {g : Nat → Fam} {t : Table} (addr : Nat) (fam : Fam) (m : Bool)
    (hinv : Inv c g t) :
    ∃ FL, (∀ f, ((t.restaleGen addr fam m).1.rib f).dests
        = (t.rib f).dests.map fun nd => if f = fam then (rd fam addr m FL nd).1 else nd) ∧
      (t.restaleGen addr fam m).1.flags = FL ∧ FL.other m = t.flags.other m ∧
      ∀ i, (FL.marked m).contains i = true ↔
        ((t.flags.marked m).contains i = true ∨ ∃ nd ∈ (t.rib fam).dests, i ∈ addrIds addr nd) := by
  have hP : ∀ nd ∈ (t.rib fam).dests, ∀ e ∈ nd.2.entries,
      sameAddr addr e = true ↔ PeerId c g addr fam e.src.id :=
    fun nd hnd e he => peerId_iff (((hinv.rib fam).dest nd hnd).srcOk e he)
  have s := restaleLoop_spec fam addr m (PeerId c g addr fam) (t.rib fam).dests t.flags hP
  refine ⟨(restaleLoop fam addr m (t.rib fam).dests t.flags).1, fun f => ?_, ?_, s.other, s.marks⟩
  · rw [restaleGen_eq]
    have hrib : ∀ (t0 : Table) (a b : List Nat), ({ t0 with stale := a, llgr := b } : Table).rib f = t0.rib f := by
      intro t0 a b; cases f <;> rfl
    simp only
    rw [hrib]
    by_cases hf : f = fam
    · subst hf
      rw [rib_setRib_self]
      simp only [if_pos]
      exact s.dests
    · rw [rib_setRib_ne t hf]
      simp only [if_neg hf]
      rw [List.map_id']
  · rw [restaleGen_eq]; rfl

theorem restaleGen_entryFacts {c : Case} {g : Nat → Fam} {t : Table} (addr : Nat) (fam : Fam) (m : Bool)
    (op : Op) (hflip : ∀ e, op.flip e = e) (hrep : ∀ f n x0, ¬ op.replaces f n x0) (hinv : Inv c g t) :
    EntryFacts t op (t.restaleGen addr fam m).1 (t.restaleGen addr fam m).2 := by
  obtain ⟨FL, hd, -⟩ := restaleGen_spec addr fam m hinv
  refine entryFacts_of_map hd ?_ ?_ hrep ?_
  · intro f nd
    by_cases hf : f = fam
    · simp only [if_pos hf]; exact (rd_key fam addr FL nd).1
    · simp only [if_neg hf]
  · intro f nd _ x hx
    refine ⟨x, ?_, (hflip x).symm⟩
    by_cases hf : f = fam
    · simp only [if_pos hf] at hx; exact mem_rd_entries.mp hx
    · simp only [if_neg hf] at hx; exact hx
  · rw [restaleGen_eq]; exact fun h => nomatch h

/-! ## `update_nexthop_validity` -/

theorem nhFlip_eq_nhvUpd : nhFlip = nhvUpd := rfl

theorem nhFlip_of_untouched {k : Nat} {reachable : Bool} {e : Entry}
    (h : (e.nh == some k && e.nhInv != !reachable) = false) : nhFlip k reachable e = e := by
  unfold nhFlip
  by_cases h1 : (e.nh == some k) = true
  · rw [if_pos h1]
    rw [h1, Bool.true_and] at h
    have h2 : e.nhInv = !reachable := by
      revert h; cases e.nhInv <;> cases reachable <;> simp
    cases e
    simp only at h2
    rw [h2]
  · rw [if_neg h1]

theorem mem_nhvDest_entries {fam : Fam} {k : Nat} {reachable : Bool} {nd : Net × Dest} {x : Entry}
    (h : x ∈ (nhvDest fam k reachable nd).1.2.entries) : ∃ x0 ∈ nd.2.entries, x = nhFlip k reachable x0 := by
  cases ht : (nd.2.entries.any fun e => e.nh == some k && e.nhInv != !reachable) with
  | false =>
    rw [nhvDest_untouched fam k reachable nd ht] at h
    exact ⟨x, h, (nhFlip_of_untouched (Bool.eq_false_iff.mpr (List.any_eq_false.mp ht x h))).symm⟩
  | true =>
    rw [nhvDest_touched fam k reachable nd ht] at h
    obtain ⟨x0, h0, h1⟩ := List.mem_map.mp h
    exact ⟨x0, h0, h1.symm⟩

theorem nhValidity_entryFacts (t : Table) (k : Nat) (reachable : Bool) :
    EntryFacts t (.nhValidity k reachable) (t.nhValidity k reachable).1 (t.nhValidity k reachable).2 := by
  refine entryFacts_of_map (F := fun f nd => (nhvDest f k reachable nd).1) ?_ ?_ ?_ ?_ ?_
  · intro f; rw [nhValidity_rib, nhv_dests]
  · intro f nd; exact (nhvDest_key f k reachable nd).1
  · intro f nd _ x hx; exact mem_nhvDest_entries hx
  · intro f n x0 h; exact h
  · exact fun h => nomatch h

/-! ## start / end of deferral -/

theorem setDeferring_entryFacts (t : Table) (fam : Fam) (b : Bool) (op : Op) (r : Res)
    (hflip : ∀ e, op.flip e = e) (hrep : ∀ f n x0, ¬ op.replaces f n x0) (hr : r ≠ .limit) :
    EntryFacts t op (t.setRib fam { t.rib fam with deferring := b }) r := by
  refine entryFacts_of_map (F := fun _ nd => nd) ?_ (fun _ _ => rfl) ?_ hrep hr
  · intro f; rw [setDeferring_dests, List.map_id']
  · intro f nd _ x hx; exact ⟨x, hx, (hflip x).symm⟩

/-! ## the five operations -/

theorem entrySound_misc : EntrySound Op.isMisc := by
  intro c g p t op t' r hsel _ hinv hstep
  cases op with
  | restale addr fam =>
    have h : (t', r) = t.restaleGen addr fam false := (Out.ok.inj hstep).symm
    have h1 : t' = (t.restaleGen addr fam false).1 := congrArg Prod.fst h
    have h2 : r = (t.restaleGen addr fam false).2 := congrArg Prod.snd h
    rw [h1, h2]
    exact restaleGen_entryFacts addr fam false _ (fun _ => rfl) (fun _ _ _ h => h) hinv
  | restaleLlgr addr fam =>
    have h : (t', r) = t.restaleGen addr fam true := (Out.ok.inj hstep).symm
    have h1 : t' = (t.restaleGen addr fam true).1 := congrArg Prod.fst h
    have h2 : r = (t.restaleGen addr fam true).2 := congrArg Prod.snd h
    rw [h1, h2]
    exact restaleGen_entryFacts addr fam true _ (fun _ => rfl) (fun _ _ _ h => h) hinv
  | nhValidity k reachable =>
    have h : (t', r) = t.nhValidity k reachable := (Out.ok.inj hstep).symm
    have h1 : t' = (t.nhValidity k reachable).1 := congrArg Prod.fst h
    have h2 : r = (t.nhValidity k reachable).2 := congrArg Prod.snd h
    rw [h1, h2]
    exact nhValidity_entryFacts t k reachable
  | startDeferral fam =>
    have h : (t', r) = (t.startDeferral fam, Res.unit) := (Out.ok.inj hstep).symm
    have h1 : t' = t.startDeferral fam := congrArg Prod.fst h
    have h2 : r = Res.unit := congrArg Prod.snd h
    rw [h1, h2]
    exact setDeferring_entryFacts t fam true _ _ (fun _ => rfl) (fun _ _ _ h => h) (fun h => nomatch h)
  | endDeferral fam =>
    have h : (t', r) = t.endDeferral fam := (Out.ok.inj hstep).symm
    have h1 : t' = (t.endDeferral fam).1 := congrArg Prod.fst h
    have h2 : r = (t.endDeferral fam).2 := congrArg Prod.snd h
    rw [h1, h2]
    exact setDeferring_entryFacts t fam false _ _ (fun _ => rfl) (fun _ _ _ h => h) (fun h => nomatch h)
  | _ => exact absurd hsel (by simp [Op.isMisc])

end Rbgp.Rib
