/-
  Rbgp.Rib.InvMisc — `restale`, `restale_llgr`, `update_nexthop_validity`, start / end of deferral keep
  the invariant of reachable tables and report what `StepFacts` promises.  The framework ("every
  destination is mapped on its own") and the `restale` part are in InvRestale.lean.
-/
import Rbgp.Rib.InvRestale
namespace Rbgp.Rib

def Op.isMisc : Op → Prop
  | .restale .. => True
  | .restaleLlgr .. => True
  | .nhValidity .. => True
  | .startDeferral .. => True
  | .endDeferral .. => True
  | _ => False

/-! ## `update_nexthop_validity` -/

def nhvUpd (nh : Nat) (reachable : Bool) (e : Entry) : Entry :=
  if e.nh == some nh then { e with nhInv := !reachable } else e

theorem nhvUpd_k (nh : Nat) (reachable : Bool) (e : Entry) : (nhvUpd nh reachable e).k = e.k := by
  unfold nhvUpd; split <;> rfl

theorem nhvDest_untouched (fam : Fam) (nh : Nat) (reachable : Bool) (nd : Net × Dest)
    (h : (nd.2.entries.any fun e => e.nh == some nh && e.nhInv != !reachable) = false) :
    nhvDest fam nh reachable nd = (nd, none) := by
  obtain ⟨net, dst⟩ := nd
  simp only at h
  simp only [nhvDest, h]
  rfl

theorem nhvDest_touched (fam : Fam) (nh : Nat) (reachable : Bool) (nd : Net × Dest)
    (h : (nd.2.entries.any fun e => e.nh == some nh && e.nhInv != !reachable) = true) :
    nhvDest fam nh reachable nd =
      ((nd.1, { nd.2 with entries := nd.2.entries.map (nhvUpd nh reachable) }),
       some { fam, net := nd.1, destId := nd.2.id,
              best := bestKey nd.2.entries != bestKey (nd.2.entries.map (nhvUpd nh reachable)), any := true,
              replaced := none, paths := (nd.2.entries.map (nhvUpd nh reachable)).filter Entry.eligible }) := by
  obtain ⟨net, dst⟩ := nd
  simp only at h
  simp only [nhvDest, h]
  rfl

theorem nhvDest_key (fam : Fam) (nh : Nat) (reachable : Bool) (nd : Net × Dest) :
    (nhvDest fam nh reachable nd).1.1 = nd.1 ∧ (nhvDest fam nh reachable nd).1.2.id = nd.2.id := by
  cases h : (nd.2.entries.any fun e => e.nh == some nh && e.nhInv != !reachable) with
  | false => rw [nhvDest_untouched fam nh reachable nd h]; exact ⟨rfl, rfl⟩
  | true => rw [nhvDest_touched fam nh reachable nd h]; exact ⟨rfl, rfl⟩

theorem nhvDest_destOk {fl : Flags} (fam : Fam) (nh : Nat) (reachable : Bool) {nd : Net × Dest}
    (hs : Sorted (cmpFor fl nd.1.t2) nd.2.entries) : DestOk fl nd (nhvDest fam nh reachable nd).1 := by
  cases h : (nd.2.entries.any fun e => e.nh == some nh && e.nhInv != !reachable) with
  | false => rw [nhvDest_untouched fam nh reachable nd h]; exact DestOk.refl hs
  | true =>
    rw [nhvDest_touched fam nh reachable nd h]
    refine ⟨rfl, rfl, ?_, ?_⟩
    · simp only [List.map_map]
      apply List.Perm.of_eq
      exact List.map_congr_left fun e _ => nhvUpd_k nh reachable e
    · simp only [Sorted, List.pairwise_map]
      exact hs.imp fun {a b} hab => by
        rw [cmpFor_of_k fl _ (nhvUpd_k nh reachable a) (nhvUpd_k nh reachable b)]; exact hab

theorem nhvDest_change {fam : Fam} {nh : Nat} {reachable : Bool} {nd : Net × Dest} {ch : Change}
    (h : (nhvDest fam nh reachable nd).2 = some ch) :
    ch.fam = fam ∧ ch.net = nd.1 ∧ ch.destId = nd.2.id ∧
      ch.paths = (nhvDest fam nh reachable nd).1.2.entries.filter Entry.eligible := by
  cases ht : (nd.2.entries.any fun e => e.nh == some nh && e.nhInv != !reachable) with
  | false => rw [nhvDest_untouched fam nh reachable nd ht] at h; exact absurd h (by simp)
  | true =>
    rw [nhvDest_touched fam nh reachable nd ht] at h ⊢
    simp only [Option.some.injEq] at h
    subst h; exact ⟨rfl, rfl, rfl, rfl⟩

theorem nhvDest_any {fam : Fam} {nh : Nat} {reachable : Bool} {nd : Net × Dest}
    (hne : nd.2.entries.filter Entry.eligible
      ≠ (nhvDest fam nh reachable nd).1.2.entries.filter Entry.eligible) :
    ∃ ch, (nhvDest fam nh reachable nd).2 = some ch ∧ ch.any = true := by
  cases ht : (nd.2.entries.any fun e => e.nh == some nh && e.nhInv != !reachable) with
  | false => rw [nhvDest_untouched fam nh reachable nd ht] at hne; exact absurd rfl hne
  | true => rw [nhvDest_touched fam nh reachable nd ht]; exact ⟨_, rfl, rfl⟩

theorem nhvDest_best {fam : Fam} {nh : Nat} {reachable : Bool} {nd : Net × Dest}
    (hne : identOf (nd.2.entries.filter Entry.eligible)
      ≠ identOf ((nhvDest fam nh reachable nd).1.2.entries.filter Entry.eligible)) :
    ∃ ch, (nhvDest fam nh reachable nd).2 = some ch ∧ ch.best = true := by
  cases ht : (nd.2.entries.any fun e => e.nh == some nh && e.nhInv != !reachable) with
  | false => rw [nhvDest_untouched fam nh reachable nd ht] at hne; exact absurd rfl hne
  | true =>
    rw [nhvDest_touched fam nh reachable nd ht] at hne ⊢
    refine ⟨_, rfl, ?_⟩
    simp only at hne ⊢
    rw [bestKey_eq_identOf, bestKey_eq_identOf]
    simpa using hne

theorem nhv_dests (fam : Fam) (nh : Nat) (reachable : Bool) (r : Rib) :
    (r.nhv fam nh reachable).1.dests = r.dests.map fun nd => (nhvDest fam nh reachable nd).1 := by
  unfold Rib.nhv; simp only [List.map_map]; rfl

theorem nhv_chs (fam : Fam) (nh : Nat) (reachable : Bool) (r : Rib) :
    (r.nhv fam nh reachable).2
      = r.dests.filterMap fun nd => if r.deferring = true then none else (nhvDest fam nh reachable nd).2 := by
  unfold Rib.nhv; simp only [List.filterMap_map]; rw [filterMap_unless]; rfl

theorem nhValidity_rib (t : Table) (nh : Nat) (reachable : Bool) (f : Fam) :
    (t.nhValidity nh reachable).1.rib f = ((t.rib f).nhv f nh reachable).1 := by
  cases f <;> rfl

theorem nhValidity_sound {c : Case} {g : Nat → Fam} {t : Table} (nh : Nat) (reachable : Bool)
    (hinv : Inv c g t) :
    Inv c g (t.nhValidity nh reachable).1 ∧
      StepFacts t (.nhValidity nh reachable) (t.nhValidity nh reachable).1 (t.nhValidity nh reachable).2 := by
  let F : Fam → Net × Dest → Net × Dest := fun f nd => (nhvDest f nh reachable nd).1
  let G : Fam → Net × Dest → Option Change := fun f nd =>
    if (t.rib f).deferring = true then none else (nhvDest f nh reachable nd).2
  have hd : ∀ f, ((t.nhValidity nh reachable).1.rib f).dests = (t.rib f).dests.map (F f) := by
    intro f; rw [nhValidity_rib, nhv_dests]
  have hFok : ∀ f, ∀ nd ∈ (t.rib f).dests, DestOk (t.nhValidity nh reachable).1.flags nd (F f nd) :=
    fun f nd hnd => nhvDest_destOk f nh reachable ((hinv.rib f).dest nd hnd).sorted
  refine ⟨hinv.mapDests hd (fun f => by rw [nhValidity_rib]; rfl) hFok rfl rfl, ?_⟩
  refine stepFacts_of_map (F := F) (G := G) hd ?_ (fun f => (hinv.rib f).keys) ?_ ?_ ?_ ?_ ?_ ?_ ?_
  · show (t.v4.nhv .v4 nh reachable).2 ++ (t.ev.nhv .ev nh reachable).2 = _
    rw [nhv_chs, nhv_chs]; rfl
  · intro f nd; exact nhvDest_key f nh reachable nd
  · intro f nd ch h
    simp only [G] at h
    split at h
    · exact absurd h (by simp)
    · exact nhvDest_change h
  · intro f hdf nd _ hne
    simp only [G, hdf, Bool.false_eq_true, if_false]
    exact nhvDest_any hne
  · intro f hdf nd _ hne
    simp only [G, hdf, Bool.false_eq_true, if_false]
    exact nhvDest_best hne
  · intro f hdf _ nd
    simp only [G, hdf, if_true]
  · intro f h; exact absurd h (by simp [Op.isEndDeferral])
  · intro f
    rw [nhValidity_rib]
    simp only [Op.isStartDeferral, Op.isEndDeferral, Bool.false_eq_true, if_false]
    rfl

/-! ## start / end of deferral -/

theorem setDeferring_dests (t : Table) (fam : Fam) (b : Bool) (f : Fam) :
    ((t.setRib fam { t.rib fam with deferring := b }).rib f).dests = (t.rib f).dests := by
  by_cases hf : f = fam
  · subst hf; rw [rib_setRib_self]
  · rw [rib_setRib_ne t hf]

theorem setDeferring_used (t : Table) (fam : Fam) (b : Bool) (f : Fam) :
    ((t.setRib fam { t.rib fam with deferring := b }).rib f).used = (t.rib f).used := by
  by_cases hf : f = fam
  · subst hf; rw [rib_setRib_self]
  · rw [rib_setRib_ne t hf]

theorem setDeferring_deferring (t : Table) (fam : Fam) (b : Bool) (f : Fam) :
    ((t.setRib fam { t.rib fam with deferring := b }).rib f).deferring
      = if f = fam then b else (t.rib f).deferring := by
  by_cases hf : f = fam
  · subst hf; rw [rib_setRib_self, if_pos rfl]
  · rw [rib_setRib_ne t hf, if_neg hf]

theorem setDeferring_inv {c : Case} {g : Nat → Fam} {t : Table} (fam : Fam) (b : Bool) (hinv : Inv c g t) :
    Inv c g (t.setRib fam { t.rib fam with deferring := b }) := by
  refine hinv.mapDests (F := fun _ nd => nd) (fun f => ?_) (setDeferring_used t fam b) ?_ ?_ ?_
  · rw [setDeferring_dests, List.map_id']
  · intro f nd hnd
    have : (t.setRib fam { t.rib fam with deferring := b }).flags = t.flags := by cases fam <;> rfl
    rw [this]
    exact DestOk.refl ((hinv.rib f).dest nd hnd).sorted
  · cases fam <;> rfl
  · cases fam <;> rfl

theorem fam_beq_iff (a b : Fam) : (a == b) = true ↔ a = b := by
  cases a <;> cases b <;> simp

theorem startDeferral_sound {c : Case} {g : Nat → Fam} {t : Table} (fam : Fam) (hinv : Inv c g t) :
    Inv c g (t.startDeferral fam) ∧ StepFacts t (.startDeferral fam) (t.startDeferral fam) .unit := by
  refine ⟨setDeferring_inv fam true hinv, ?_⟩
  refine stepFacts_of_map (F := fun _ nd => nd) (G := fun _ _ => none) ?_ ?_ (fun f => (hinv.rib f).keys)
    ?_ ?_ ?_ ?_ ?_ ?_ ?_
  · intro f; unfold Table.startDeferral; rw [setDeferring_dests, List.map_id']
  · rw [filterMap_none', filterMap_none']; rfl
  · intro f nd; exact ⟨rfl, rfl⟩
  · intro f nd ch h; exact absurd h (by simp)
  · intro f _ nd _ hne; exact absurd rfl hne
  · intro f _ nd _ hne; exact absurd rfl hne
  · intro f _ _ nd; rfl
  · intro f h; exact absurd h (by simp [Op.isEndDeferral])
  · intro f
    unfold Table.startDeferral
    rw [setDeferring_deferring]
    by_cases hf : f = fam
    · subst hf; simp [Op.isStartDeferral]
    · have : (fam == f) = false := by
        cases h : fam == f
        · rfl
        · exact absurd ((fam_beq_iff fam f).mp h).symm hf
      simp [Op.isStartDeferral, Op.isEndDeferral, hf, this]

/-- what `collect_loc_rib_paths` reports about one destination -/
def collectOne (fam : Fam) (nd : Net × Dest) : Option Change :=
  if (nd.2.entries.filter Entry.eligible).isEmpty then none
  else some { fam, net := nd.1, destId := nd.2.id, best := true, any := true, replaced := none,
              paths := nd.2.entries.filter Entry.eligible }

theorem collect_eq_collectOne (fam : Fam) (r : Rib) (hd : r.deferring = false) :
    r.collect fam none = r.dests.filterMap (collectOne fam) := by
  unfold Rib.collect
  rw [hd]
  show r.collectAll fam none = _
  unfold Rib.collectAll
  congr 1

theorem endDeferral_sound {c : Case} {g : Nat → Fam} {t : Table} (fam : Fam) (hinv : Inv c g t) :
    Inv c g (t.endDeferral fam).1 ∧
      StepFacts t (.endDeferral fam) (t.endDeferral fam).1 (t.endDeferral fam).2 := by
  refine ⟨setDeferring_inv fam false hinv, ?_⟩
  refine stepFacts_of_map (F := fun _ nd => nd)
    (G := fun f nd => if f = fam then collectOne fam nd else none) ?_ ?_ (fun f => (hinv.rib f).keys)
    ?_ ?_ ?_ ?_ ?_ ?_ ?_
  · intro f; unfold Table.endDeferral; simp only; rw [setDeferring_dests, List.map_id']
  · show ((t.setRib fam { t.rib fam with deferring := false }).rib fam).collect fam none = _
    rw [collect_eq_collectOne _ _ (by rw [setDeferring_deferring, if_pos rfl]), setDeferring_dests, chs_single t fam]
  · intro f nd; exact ⟨rfl, rfl⟩
  · intro f nd ch h
    by_cases hf : f = fam
    · subst hf
      simp only [if_pos] at h
      unfold collectOne at h
      split at h
      · exact absurd h (by simp)
      · simp only [Option.some.injEq] at h
        subst h; exact ⟨rfl, rfl, rfl, rfl⟩
    · simp only [if_neg hf] at h; exact absurd h (by simp)
  · intro f _ nd _ hne; exact absurd rfl hne
  · intro f _ nd _ hne; exact absurd rfl hne
  · intro f _ hop nd
    have hf : f ≠ fam := by
      intro e; subst e
      simp [Op.isEndDeferral] at hop
    simp only [if_neg hf]
  · intro f hop nd _ hne
    have hf : f = fam := by
      simp only [Op.isEndDeferral] at hop
      exact ((fam_beq_iff fam f).mp hop).symm
    subst hf
    simp only [if_pos]
    unfold collectOne
    have : (nd.2.entries.filter Entry.eligible).isEmpty = false := by
      cases h : nd.2.entries.filter Entry.eligible with
      | nil => exact absurd h hne
      | cons _ _ => rfl
    rw [this]
    exact ⟨_, rfl, rfl, rfl⟩
  · intro f
    unfold Table.endDeferral
    simp only
    rw [setDeferring_deferring]
    by_cases hf : f = fam
    · subst hf; simp [Op.isStartDeferral, Op.isEndDeferral]
    · have : (fam == f) = false := by
        cases h : fam == f
        · rfl
        · exact absurd ((fam_beq_iff fam f).mp h).symm hf
      simp [Op.isStartDeferral, Op.isEndDeferral, hf, this]

/-! ## the five operations -/

theorem stepSound_misc : StepSound Op.isMisc := by
  intro c g p t op hsel _ hinv
  cases op with
  | restale addr fam =>
    exact ⟨_, _, rfl, restaleGen_sound addr fam false (.restale addr fam) (fun _ => rfl) (fun _ => rfl) (fun _ => rfl) hinv⟩
  | restaleLlgr addr fam =>
    exact ⟨_, _, rfl, restaleGen_sound addr fam true (.restaleLlgr addr fam) (fun _ => rfl) (fun _ => rfl)
      (fun h => absurd h (by simp [Op.isRestaleLlgr])) hinv⟩
  | nhValidity nh reachable => exact ⟨_, _, rfl, nhValidity_sound nh reachable hinv⟩
  | startDeferral fam => exact ⟨_, _, rfl, startDeferral_sound fam hinv⟩
  | endDeferral fam => exact ⟨_, _, rfl, endDeferral_sound fam hinv⟩
  | _ => exact absurd hsel (by simp [Op.isMisc])

end Rbgp.Rib
