/-
  Rbgp.Rib.EntryPurge — the four purge operations only ever remove paths: every path of a prefix
  after the step was a path of that prefix before it (`EntrySound Op.isPurge`).
-/
import Rbgp.Rib.InvPurge
import Rbgp.Rib.EntryDef
namespace Rbgp.Rib

section
variable {c : Case} {g : Nat → Fam} {t t' : Table} {fam : Fam} {addr : Nat} {pred : Entry → Bool}

/-- the paths of a prefix after a purge are among the paths it had -/
theorem PurgeShape.entries_subset (hs : PurgeShape t fam addr pred t')
    (hr : RibInv c g t.flags fam (t.rib fam)) (f : Fam) (n : Net) (x : Entry)
    (hx : x ∈ t'.entries f n) : x ∈ t.entries f n := by
  by_cases hf : f = fam
  · subst hf
    unfold Table.entries at hx ⊢
    rw [hs.dests hr, alookup_keptDests pred hr.keys] at hx
    cases hl : alookup n (t.rib f).dests with
    | none => rw [hl] at hx; simp at hx
    | some d =>
      rw [hl] at hx
      by_cases hk : (keptD pred d).entries = []
      · simp [hk] at hx
      · have hx' : x ∈ (keptD pred d).entries := by simpa [hk] using hx
        exact (List.mem_filter.mp hx').1
  · unfold Table.entries at hx ⊢
    rw [hs.ribOther f hf] at hx
    exact hx

theorem purge_entryFacts (hs : PurgeShape t fam addr pred t')
    (hr : RibInv c g t.flags fam (t.rib fam)) (op : Op) (cs : List Change)
    (hflip : ∀ e, op.flip e = e) (hrep : ∀ f n x, ¬ op.replaces f n x) :
    EntryFacts t op t' (.changes cs) := by
  refine ⟨?_, ?_⟩
  · intro f n x hx
    exact Or.inl ⟨x, hs.entries_subset hr f n x hx, (hflip x).symm, Or.inr (hrep f n x)⟩
  · intro h; cases h

/-- the generic purge: whatever it returns, paths were only removed -/
theorem purge_entrySound (p : Profile) (ctr : Option Nat) (dropStats : Bool)
    (hp : ∀ e, pred e = true → sameAddr addr e = true)
    (hdrop : dropStats = true → pred = sameAddr addr) (hinv : Inv c g t) (op : Op)
    (hflip : ∀ e, op.flip e = e) (hrep : ∀ f n x, ¬ op.replaces f n x) {r : Res}
    (hrun : t.purge p addr fam pred ctr dropStats = .ok (t', r)) : EntryFacts t op t' r := by
  obtain ⟨stats', hrun', _, _, _⟩ := purge_stats (fam := fam) p ctr dropStats hp hdrop hinv
  rw [hrun'] at hrun
  cases hrun
  exact purge_entryFacts (purgeTable_shape t fam addr pred ctr stats') (hinv.rib fam) op _ hflip hrep

end

theorem entrySound_purge : EntrySound Op.isPurge := by
  intro c g p t op t' r hsel _ hinv hrun
  cases op with
  | drop addr fam =>
    exact purge_entrySound p none true (fun _ h => h) (fun _ => rfl) hinv (.drop addr fam)
      (fun _ => rfl) (fun _ _ _ h => h) hrun
  | dropStale addr fam ctr =>
    exact purge_entrySound p ctr false (fun e h => by simp at h; exact h.1) (fun h => by simp at h) hinv
      (.dropStale addr fam ctr)
      (fun _ => rfl) (fun _ _ _ h => h) hrun
  | dropLlgr addr fam ctr =>
    exact purge_entrySound p ctr false (fun e h => by simp at h; exact h.1) (fun h => by simp at h) hinv
      (.dropLlgr addr fam ctr)
      (fun _ => rfl) (fun _ _ _ h => h) hrun
  | dropNoLlgr addr fam ctr =>
    exact purge_entrySound p ctr false (fun e h => by simp at h; exact h.1) (fun h => by simp at h) hinv
      (.dropNoLlgr addr fam ctr)
      (fun _ => rfl) (fun _ _ _ h => h) hrun
  | _ => exact absurd hsel (by simp [Op.isPurge])

end Rbgp.Rib
