/-
  Rbgp.Rib.PropsC15 — C15, the readable statements.

  "After any history, the per-peer received and accepted prefix counts, the per-session prefix-limit
   counter and the table totals equal what a recount of the RIB gives; counters never underflow, a
   prefix with no paths is not counted as a destination, and a peer's distinct accepted prefixes never
   exceed its configured maximum without the limit being signalled."

  Everything here is about the MODEL (`Rbgp.Rib.Model`), for every well-formed case (`Case.WFWith g`),
  every finite history of the operations and both build profiles.

  * The statistics (`route_stats`) and the table totals are PROVED equal to the recount in every
    reachable state, unconditionally (`stats_eq_recount`, `state_eq_recount`), and no arithmetic check
    fires (`no_panic`).
  * The prefix-limit counter is per session (per Source).  For every history the codecs accept
    (`Case.PurgeCtrOk`) of fewer than 2^63 steps (`Case.Short`) and ANY number of sessions per peer it
    is PROVED to be at least the recount of the session's own paths (`sessCount`), below 2^63, and
    equal to that recount as long as nothing took paths of the session away behind its back
    (`limit_counter_ge_recount`, `no_underflow`, `limit_counter_eq_recount`), and a session never holds
    more than `max` prefixes without the limit being signalled (`limit_enforced_session`).
  * Per peer ADDRESS the limit is NOT enforced by the model, which mirrors the code: the stale paths a
    restarted session inherits are not counted against its limit.  So the full-strength statement
    `C15_full` is REFUTED (`not_C15_full`, witness `C15.wCase`); with one session per limited peer
    (`Case.OneSession`) the per-address clause and the whole reference checker are proved
    (`limit_enforced_partial`, `check_run_ok_partial`).
-/
import Rbgp.Rib.ProofsC15
import Rbgp.Rib.StepAll
import Rbgp.Rib.RefProofs
namespace Rbgp.Rib.PropsC15
open Rbgp.Rib

/-! ## 0. The reference checker -/

/-- **C15, partial master theorem.**  For every case the codecs accept (`Case.Good`, `PurgeCtrOk`) with
    fewer than 2^63 steps and one session per limited peer, and both profiles, the C15 reference
    checker accepts the observation of the model's run. -/
theorem check_run_ok_partial (p : Profile) (c : Case) (g : Nat → Fam) (h : c.Good g) (hpc : c.PurgeCtrOk)
    (hsh : c.Short) (hone : c.OneSession) : SpecC15.check c (observe p c) = .ok :=
  C15.check_run_ok_partial allSound refSound p h hpc hsh hone

/-- the full-strength statement: the checker accepts the run of EVERY well-formed case -/
def C15_full : Prop := ∀ (p : Profile) (c : Case), c.WF → SpecC15.check c (observe p c) = .ok

/-- **The full-strength statement is false for the model** (which mirrors the code): residual of the
    finding "inherited stale paths". -/
theorem not_C15_full : ¬ C15_full := C15.not_C15_full

/-- the witness: a session of peer 1 (limit: one prefix) announces a prefix and goes down (its path is
    kept, stale); a new session of the same peer announces another prefix.  The peer now has two
    prefixes in the RIB and no limit was signalled: step 2 fails the clause "limit enforced or
    signalled".  The case is accepted by the codecs and short; it violates `OneSession` only. -/
theorem inherited_stale_paths_witness :
    C15.wCase.WF ∧ C15.wCase.PurgeCtrOk ∧ C15.wCase.Short ∧
    SpecC15.check C15.wCase (observe .debug C15.wCase) =
      .fail 2 "limit-exceeded-not-signalled class=inherited-stale-paths" := by
  refine ⟨C15.wCase_wf, ?_, by decide, C15.wCase_verdict⟩
  intro op hop
  simp only [C15.wCase, List.mem_cons, List.not_mem_nil, or_false] at hop
  rcases hop with rfl | rfl | rfl <;> trivial

/-! ## Steps of a run -/

/-- the tables of a run, starting with the empty one -/
def states (p : Profile) (c : Case) : List Table := {} :: (run p c).1.map (·.1)

/-- step number `i` of the run of `c` executes `op` on `t` and yields table `t'` and result `r` -/
def RunStepAt (p : Profile) (c : Case) (i : Nat) (t : Table) (op : Op) (t' : Table) (r : Res) : Prop :=
  (states p c)[i]? = some t ∧ c.ops[i]? = some op ∧ (run p c).1[i]? = some (t', r)

theorem runStepAt_lt {p : Profile} {c : Case} {i : Nat} {t t' : Table} {op : Op} {r : Res}
    (hs : RunStepAt p c i t op t' r) : i < c.ops.length := by
  have := hs.2.1
  rcases Nat.lt_or_ge i c.ops.length with h | h
  · exact h
  · rw [List.getElem?_eq_none h] at this; cases this

/-- what the proofs know about step `i` of a run: the step equation, the invariant of reachable tables
    and the invariant of the counters (`C15.GInv`) before and after -/
theorem runStepAt_facts {p : Profile} {c : Case} {g : Nat → Fam} (h : c.WFWith g) (hpc : c.PurgeCtrOk)
    (hsh : c.Short) {i : Nat} {t t' : Table} {op : Op} {r : Res} (hs : RunStepAt p c i t op t' r) :
    Inv c g t ∧ Inv c g t' ∧ t.step p op = .ok (t', r) ∧
    C15.GInv c t i (c.ops.take i) ∧ C15.GInv c t' (i + 1) (c.ops.take (i + 1)) := by
  obtain ⟨h1, h2, h3⟩ := hs
  obtain ⟨e1, e2, e3, e4, e5⟩ := C15.run_at allSound p c.ops {} 0 [] h hpc
    (by simpa using (show c.ops.length < SpecC15.HALF from hsh)) (inv_empty c g) (C15.ginv_empty c) i t t' op r h1 h2 h3
  exact ⟨e1, e2, e3, by simpa using e4, by simpa using e5⟩

/-! ## 1. Statistics and table totals equal the recount (unconditionally) -/

/-- **stats_eq_recount**: in every state of a run, `route_stats[(addr, family)]` (read as (0, 0) when
    absent, as `peer_stats` reports it) is the recount: the number of prefixes of the family with at
    least one path of the peer, and the number of its paths that passed import policy. -/
theorem stats_eq_recount (p : Profile) (c : Case) (g : Nat → Fam) (h : c.WFWith g) :
    ∀ tr ∈ (run p c).1, ∀ (addr : Nat) (f : Fam),
      statsGet tr.1 (addr, f) = (recvCount addr (tr.1.rib f), accCount addr (tr.1.rib f)) := by
  intro tr htr addr f
  exact (runFrom_inv allSound p c.ops h {} (inv_empty c g) tr htr).stats.get addr f

/-- an absent statistics entry means the peer has no path in the family -/
theorem stats_absent (p : Profile) (c : Case) (g : Nat → Fam) (h : c.WFWith g) :
    ∀ tr ∈ (run p c).1, ∀ (addr : Nat) (f : Fam), alookup (addr, f) tr.1.stats = none →
      ∀ nd ∈ (tr.1.rib f).dests, nd.2.entries.any (sameAddr addr) = false := by
  intro tr htr addr f hl
  have := (runFrom_inv allSound p c.ops h {} (inv_empty c g) tr htr).stats addr f
  rw [hl] at this
  exact this

/-- **state_eq_recount**: in every state of a run, `Table::state(family)` = (destinations, paths,
    accepted) is the recount over the destinations that have at least one path, and every destination
    has at least one path (a prefix with no paths is not counted as a destination). -/
theorem state_eq_recount (p : Profile) (c : Case) (g : Nat → Fam) (h : c.WFWith g) :
    ∀ tr ∈ (run p c).1, ∀ f : Fam,
      (tr.1.rib f).state.1 = ((tr.1.rib f).dests.filter fun nd => !nd.2.entries.isEmpty).length ∧
      (tr.1.rib f).state.2.1 = ((tr.1.rib f).dests.map fun nd => nd.2.entries.length).sum ∧
      (tr.1.rib f).state.2.2 =
        ((tr.1.rib f).dests.map fun nd => (nd.2.entries.filter fun e => !e.filtered).length).sum ∧
      ∀ nd ∈ (tr.1.rib f).dests, nd.2.entries ≠ [] := by
  intro tr htr f
  have hr := (runFrom_inv allSound p c.ops h {} (inv_empty c g) tr htr).rib f
  refine ⟨?_, ?_, ?_, fun nd hnd => (hr.dest nd hnd).nonEmpty⟩
  · have : ((tr.1.rib f).dests.filter fun nd => !nd.2.entries.isEmpty) = (tr.1.rib f).dests := by
      apply List.filter_eq_self.mpr
      intro nd hnd
      have := (hr.dest nd hnd).nonEmpty
      cases he : nd.2.entries with
      | nil => exact absurd he this
      | cons a l => rfl
    rw [this]; rfl
  · show ((tr.1.rib f).dests.flatMap fun nd => nd.2.entries).length = _
    rw [List.length_flatMap]
  · show (((tr.1.rib f).dests.flatMap fun nd => nd.2.entries).filter fun e => !e.filtered).length = _
    rw [List.filter_flatMap, List.length_flatMap]

/-! ## 2. No underflow -/

/-- **no_panic**: a run of a well-formed case never panics, in either profile: no `u64` subtraction
    of the statistics underflows (debug: the overflow check does not fire) and no `unwrap` fails. -/
theorem no_panic (p : Profile) (c : Case) (g : Nat → Fam) (h : c.WFWith g) : (run p c).2 = false :=
  runFrom_no_panic allSound p c.ops h {} (inv_empty c g)

/-- **no_underflow**: after every step the recounts (hence the statistics) and the limit counters of
    all limited sessions are below 2^63: no counter has wrapped. -/
theorem no_underflow {p : Profile} {c : Case} {g : Nat → Fam} (h : c.WFWith g) (hpc : c.PurgeCtrOk)
    (hsh : c.Short) {i : Nat} {t t' : Table} {op : Op} {r : Res} (hs : RunStepAt p c i t op t' r) :
    (∀ addr f, (statsGet t' (addr, f)).1 < SpecC15.HALF ∧ (statsGet t' (addr, f)).2 < SpecC15.HALF) ∧
    (∀ s : Src, s.WF c → s.lim.isSome = true → ∀ f, t'.ctr (s.id, f) < SpecC15.HALF) := by
  have hlt := runStepAt_lt hs
  have hsh' : c.ops.length < SpecC15.HALF := hsh
  obtain ⟨_, hinv', _, _, hg'⟩ := runStepAt_facts h hpc hsh hs
  constructor
  · intro addr f
    rw [hinv'.stats.get addr f]
    have := hg'.bound addr f
    simp only []
    omega
  · intro s hw hl f
    have := (hg'.ge s hw hl f).2
    omega

/-! ## 3. The limit counter of a session (any number of sessions per peer) -/

/-- **limit_counter_ge_recount**: after every step the counter of a limited session is at least the
    number of prefixes with a path of that session's Source. -/
theorem limit_counter_ge_recount {p : Profile} {c : Case} {g : Nat → Fam} (h : c.WFWith g)
    (hpc : c.PurgeCtrOk) (hsh : c.Short) {i : Nat} {t t' : Table} {op : Op} {r : Res}
    (hs : RunStepAt p c i t op t' r) (s : Src) (hw : s.WF c) (hl : s.lim.isSome = true) (f : Fam) :
    sessCount s.id (t'.rib f) ≤ t'.ctr (s.id, f) := by
  obtain ⟨_, _, _, _, hg'⟩ := runStepAt_facts h hpc hsh hs
  exact (hg'.ge s hw hl f).1

/-- **limit_counter_eq_recount**: the counter of a limited session EQUALS the number of prefixes with
    a path of its Source, as long as no operation so far took paths of the session away without
    settling its counter (`Op.disturbs`: an announcement / withdrawal by another session of the same
    peer in the family, a drop of the peer, a counter-less purge of its stale paths). -/
theorem limit_counter_eq_recount {p : Profile} {c : Case} {g : Nat → Fam} (h : c.WFWith g)
    (hpc : c.PurgeCtrOk) (hsh : c.Short) {i : Nat} {t t' : Table} {op : Op} {r : Res}
    (hs : RunStepAt p c i t op t' r) (s : Src) (hw : s.WF c) (hl : s.lim.isSome = true) (f : Fam)
    (hno : ∀ o ∈ c.ops.take (i + 1), o.disturbs s f = false) :
    t'.ctr (s.id, f) = sessCount s.id (t'.rib f) := by
  obtain ⟨_, _, _, _, hg'⟩ := runStepAt_facts h hpc hsh hs
  exact hg'.eq s hw hl f hno

/-- **limit_enforced_session**: an `insert` of a limited session that brings the SESSION a new prefix
    and is not answered with `PrefixLimitExceeded` leaves the session with at most `max` prefixes. -/
theorem limit_enforced_session {p : Profile} {c : Case} {g : Nat → Fam} (h : c.WFWith g) (hpc : c.PurgeCtrOk)
    (hsh : c.Short) {i : Nat} {t t' : Table} {r : Res} {src : Src} {fam : Fam} {net : Net} {rpid : Nat}
    {nh : Option Nat} {attr : Attrs} {filtered nhInv : Bool}
    (hs : RunStepAt p c i t (.insert src fam net rpid nh attr filtered nhInv) t' r)
    {max : Nat} (hmax : src.lim = some max) (hr : r ≠ .limit)
    (hnew : ((t.entries fam net).any fun e => e.src.id == src.id) = false) :
    sessCount src.id (t'.rib fam) ≤ max := by
  have hop : Op.insert src fam net rpid nh attr filtered nhInv ∈ c.ops := List.mem_of_getElem? hs.2.1
  have hwf := h _ hop
  obtain ⟨hinv, hinv', hstep, hg, _⟩ := runStepAt_facts h hpc hsh hs
  obtain ⟨e1, _, e4, _⟩ := (C15.ctrFacts_step p hinv hinv' _ hstep).spec.2 hr
  rw [hnew] at e1
  have hc := (hg.ge src hwf.1 (by rw [hmax]; rfl) fam).1
  have := e4 hnew max hmax
  simp only [Bool.not_false, Bool.toNat_true] at e1
  omega

/-- **limit_signalled**: `PrefixLimitExceeded` is answered only to an announcement that would bring the
    SESSION a new prefix while its counter has reached the maximum, and it changes nothing (holds for
    every well-formed case). -/
theorem limit_signalled {c : Case} {g : Nat → Fam} (p : Profile) {t t' : Table} (hinv : Inv c g t) (hinv' : Inv c g t')
    {src : Src} {fam : Fam} {net : Net} {rpid : Nat} {nh : Option Nat} {attr : Attrs} {filtered nhInv : Bool}
    (hstep : t.step p (.insert src fam net rpid nh attr filtered nhInv) = .ok (t', .limit)) :
    ((t.entries fam net).any fun e => e.src.id == src.id) = false ∧
    (∃ max, src.lim = some max ∧ max ≤ t.ctr (src.id, fam)) ∧ t' = t :=
  (C15.ctrFacts_step p hinv hinv' _ hstep).spec.1 rfl

/-! ## 4. The limit per peer address (one session per limited peer) -/

/-- with one session per limited peer, the session's recount is the peer's -/
theorem sessCount_eq_recvCount (p : Profile) (c : Case) (g : Nat → Fam) (h : c.WFWith g) (hone : c.OneSession) :
    ∀ tr ∈ (run p c).1, ∀ s : Src, s.WF c → s.lim.isSome = true → ∀ f,
      sessCount s.id (tr.1.rib f) = recvCount s.addr (tr.1.rib f) := by
  intro tr htr s hw hl f
  exact C15.sess_eq_recv hone ((runFrom_inv allSound p c.ops h {} (inv_empty c g) tr htr).rib f) hw hl

/-- **limit_enforced_partial**: with one session per limited peer, an `insert` that brings the PEER a
    new prefix and is not answered with `PrefixLimitExceeded` leaves the peer with at most `max`
    prefixes. -/
theorem limit_enforced_partial {p : Profile} {c : Case} {g : Nat → Fam} (h : c.WFWith g) (hpc : c.PurgeCtrOk)
    (hsh : c.Short) (hone : c.OneSession)
    {i : Nat} {t t' : Table} {r : Res} {src : Src} {fam : Fam} {net : Net} {rpid : Nat} {nh : Option Nat}
    {attr : Attrs} {filtered nhInv : Bool}
    (hs : RunStepAt p c i t (.insert src fam net rpid nh attr filtered nhInv) t' r)
    {max : Nat} (hmax : src.lim = some max) (hr : r ≠ .limit)
    (hnew : (t.entries fam net).any (sameAddr src.addr) = false) :
    recvCount src.addr (t'.rib fam) ≤ max := by
  have hop : Op.insert src fam net rpid nh attr filtered nhInv ∈ c.ops := List.mem_of_getElem? hs.2.1
  have hwf := h _ hop
  obtain ⟨hinv, hinv', _, _, _⟩ := runStepAt_facts h hpc hsh hs
  have hl : src.lim.isSome = true := by rw [hmax]; rfl
  have hhas : ((t.entries fam net).any fun e => e.src.id == src.id) = false := by
    rw [List.any_eq_false] at hnew ⊢
    intro x hx hq
    apply hnew x hx
    have hxs : x.src = src := C15.src_eq_of_id (C15.entries_wf hinv hx) hwf.1 (by simpa using hq)
    simp [sameAddr, hxs]
  rw [← C15.sess_eq_recv hone (hinv'.rib fam) hwf.1 hl]
  exact limit_enforced_session h hpc hsh hs hmax hr hhas

/-! ## Non-vacuity -/

def exS0 : Src := { id := 0, addr := 1, rid := 1, role := .ebgp, lim := some 1 }
def exS1 : Src := { id := 1, addr := 2, rid := 2, role := .ibgp, lim := none }
def exAttr : Attrs :=
  { id := 0, lp := some 100, origin := some 0, asPath := none, oid := none, cluster := none, comm := none, ext := none }
def exN1 : Net := ⟨false, 1⟩
def exN2 : Net := ⟨false, 2⟩

/-- a session limited to one prefix announces a prefix, is refused a second one, a second (unlimited)
    peer announces, the first peer's stale paths are purged with its counter (there are none), it
    withdraws its prefix, and the second peer is dropped -/
def exCase : Case :=
  { srcs := [exS0, exS1], attrs := [exAttr],
    ops := [ .insert exS0 .v4 exN1 0 (some 1) exAttr false false,
             .insert exS0 .v4 exN2 0 (some 1) exAttr false false,
             .insert exS1 .v4 exN1 0 (some 1) exAttr true false,
             .dropStale 1 .v4 (some 0),
             .remove exS0 .v4 exN1 0,
             .drop 2 .v4 ] }

theorem exAttr_wf : exAttr.WF :=
  ⟨by intro bs h; simp [exAttr] at h, by intro bs h; simp [exAttr] at h, by intro bs h; simp [exAttr] at h⟩

theorem exCase_wf : exCase.WFWith (fun _ => .v4) := by
  intro op hop
  simp only [exCase, List.mem_cons, List.not_mem_nil, or_false] at hop
  rcases hop with rfl | rfl | rfl | rfl | rfl | rfl
  · exact ⟨rfl, rfl, exAttr_wf⟩
  · exact ⟨rfl, rfl, exAttr_wf⟩
  · exact ⟨rfl, rfl, exAttr_wf⟩
  · trivial
  · exact ⟨rfl, rfl⟩
  · trivial

theorem exCase_purge : exCase.PurgeCtrOk := by
  intro op hop
  simp only [exCase, List.mem_cons, List.not_mem_nil, or_false] at hop
  rcases hop with rfl | rfl | rfl | rfl | rfl | rfl <;> try trivial
  intro i hi
  cases hi
  exact ⟨exS0, rfl, rfl, rfl, by decide⟩

theorem exCase_short : exCase.Short := by decide
theorem exCase_one : exCase.OneSession := by decide

/-- the hypotheses of `check_run_ok_partial` are satisfiable -/
theorem exCase_good : exCase.Good (fun _ => .v4) := by
  refine ⟨exCase_wf, ?_⟩
  intro op hop
  simp only [exCase, List.mem_cons, List.not_mem_nil, or_false] at hop
  rcases hop with rfl | rfl | rfl | rfl | rfl | rfl <;> first | rfl | trivial

example : SpecC15.check exCase (observe .debug exCase) = .ok :=
  check_run_ok_partial .debug exCase _ exCase_good exCase_purge exCase_short exCase_one

/-- ... and the checker's verdict on the example, evaluated -/
example : SpecC15.check exCase (observe .release exCase) = .ok := by decide

/-- the run of the example has six steps and does not panic -/
example : (run .debug exCase).1.length = 6 ∧ (run .debug exCase).2 = false := by decide

def isLimit : Res → Bool
  | .limit => true
  | _ => false

def exState (i : Nat) : Table := (states .debug exCase)[i]?.getD {}
def exRes (i : Nat) : Res := ((run .debug exCase).1[i]?.map (·.2)).getD .unit

/-- step 0 brings the limited session (and its peer) a new prefix and is accepted:
    `limit_enforced_session` / `limit_enforced_partial` apply; afterwards the counter is 1 = the recount
    (`limit_counter_eq_recount` applies: nothing has disturbed the session) -/
example : RunStepAt .debug exCase 0 (exState 0) (.insert exS0 .v4 exN1 0 (some 1) exAttr false false)
      (exState 1) (exRes 0) ∧
    exS0.lim = some 1 ∧ exRes 0 ≠ .limit ∧
    (((exState 0).entries .v4 exN1).any fun e => e.src.id == exS0.id) = false ∧
    ((exState 0).entries .v4 exN1).any (sameAddr exS0.addr) = false ∧
    (exState 1).ctr (0, .v4) = 1 ∧ sessCount 0 ((exState 1).rib .v4) = 1 ∧
    (∀ o ∈ exCase.ops.take 1, o.disturbs exS0 .v4 = false) :=
  ⟨⟨rfl, rfl, rfl⟩, rfl, fun h => absurd (congrArg isLimit h) (by decide), by decide, by decide, by decide,
    by decide, by decide⟩

/-- step 1 is answered with `PrefixLimitExceeded` (`limit_signalled` applies) -/
example : (exState 1).step .debug (.insert exS0 .v4 exN2 0 (some 1) exAttr false false) =
    .ok (exState 2, .limit) := rfl

/-- up to the end of the example nothing disturbs the limited session (the purge is handed its counter,
    the withdrawal is its own, the drop is of the other peer): `limit_counter_eq_recount` applies at
    every step -/
example : RunStepAt .debug exCase 5 (exState 5) (.drop 2 .v4) (exState 6) (exRes 5) ∧
    (∀ o ∈ exCase.ops.take 6, o.disturbs exS0 .v4 = false) ∧
    (.drop 2 .v4 : Op).disturbs exS1 .v4 = true :=
  ⟨⟨rfl, rfl, rfl⟩, by decide, rfl⟩

/-- `stats_eq_recount` / `state_eq_recount` speak about states with paths: after step 2 the table has
    one destination with two paths, one of which passed policy -/
example : ∃ tr ∈ (run .debug exCase).1, (tr.1.rib .v4).state = (1, 2, 1) ∧
    statsGet tr.1 (1, .v4) = (1, 1) ∧ statsGet tr.1 (2, .v4) = (1, 0) :=
  ⟨(exState 3, exRes 2), List.mem_of_getElem? (i := 2) rfl, by decide, by decide, by decide⟩

/-- the statements of section 3 do not need `OneSession`: two limited sessions of the same peer, one
    per family; neither disturbs the other -/
def exY0 : Src := { id := 0, addr := 1, rid := 1, role := .ebgp, lim := some 2 }
def exY1 : Src := { id := 1, addr := 1, rid := 1, role := .ebgp, lim := some 2 }
def exTwo : Case :=
  { srcs := [exY0, exY1], attrs := [exAttr],
    ops := [ .insert exY0 .v4 exN1 0 (some 1) exAttr false false,
             .insert exY1 .ev exN1 0 (some 1) exAttr false false,
             .insert exY0 .v4 exN2 0 (some 1) exAttr false false ] }

example : exTwo.WFWith (fun i => if i = 0 then .v4 else .ev) ∧ exTwo.PurgeCtrOk ∧ exTwo.Short ∧ ¬ exTwo.OneSession ∧
    (∀ o ∈ exTwo.ops.take 3, o.disturbs exY0 .v4 = false) ∧
    (∀ o ∈ exTwo.ops.take 3, o.disturbs exY1 .ev = false) := by
  refine ⟨?_, ?_, by decide, by decide, by decide, by decide⟩
  · intro op hop
    simp only [exTwo, List.mem_cons, List.not_mem_nil, or_false] at hop
    rcases hop with rfl | rfl | rfl
    · exact ⟨rfl, rfl, exAttr_wf⟩
    · exact ⟨rfl, rfl, exAttr_wf⟩
    · exact ⟨rfl, rfl, exAttr_wf⟩
  · intro op hop
    simp only [exTwo, List.mem_cons, List.not_mem_nil, or_false] at hop
    rcases hop with rfl | rfl | rfl <;> trivial

end Rbgp.Rib.PropsC15

#print axioms Rbgp.Rib.PropsC15.check_run_ok_partial
#print axioms Rbgp.Rib.PropsC15.not_C15_full
#print axioms Rbgp.Rib.PropsC15.inherited_stale_paths_witness
#print axioms Rbgp.Rib.PropsC15.runStepAt_facts
#print axioms Rbgp.Rib.PropsC15.stats_eq_recount
#print axioms Rbgp.Rib.PropsC15.stats_absent
#print axioms Rbgp.Rib.PropsC15.state_eq_recount
#print axioms Rbgp.Rib.PropsC15.no_panic
#print axioms Rbgp.Rib.PropsC15.no_underflow
#print axioms Rbgp.Rib.PropsC15.limit_counter_ge_recount
#print axioms Rbgp.Rib.PropsC15.limit_counter_eq_recount
#print axioms Rbgp.Rib.PropsC15.limit_enforced_session
#print axioms Rbgp.Rib.PropsC15.limit_signalled
#print axioms Rbgp.Rib.PropsC15.sessCount_eq_recvCount
#print axioms Rbgp.Rib.PropsC15.limit_enforced_partial
