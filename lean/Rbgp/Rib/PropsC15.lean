/-
  Rbgp.Rib.PropsC15 — C15, the readable statements.

  "After any history, the per-peer received and accepted prefix counts, the per-session prefix-limit
   counter and the table totals equal what a recount of the RIB gives; counters never underflow, a
   prefix with no paths is not counted as a destination, and a peer's distinct accepted prefixes never
   exceed its configured maximum without the limit being signalled."

  Everything here is about the MODEL (`Rbgp.Rib.Model`), for every well-formed case (`Case.WFWith g`),
  every finite history of the operations and both build profiles.

  * The statistics (`route_stats`) and the table totals are PROVED equal to the recount in every
    reachable state, unconditionally (`stats_eq_recount`, `state_eq_recount`), and no arithmetic check
    fires (`no_panic`).
  * The prefix-limit counter is NOT always equal to the recount in the model, because the model mirrors
    the code including an open finding: a restarted session of a peer starts with a fresh counter while
    the stale paths it inherits are in the RIB.  So the full-strength statement `C15_full` is REFUTED
    (`not_C15_full`, witness `C15.wCase`), and the statements about the limit counter are proved for the
    histories described by `Case.PlainLimits` (`*_partial`).
-/
import Rbgp.Rib.ProofsC15
import Rbgp.Rib.StepAll
namespace Rbgp.Rib.PropsC15
open Rbgp.Rib

/-! ## 0. The reference checker -/

/-- **C15, partial master theorem.**  For every well-formed case whose history is outside the open
    finding (`Case.PlainLimits`: a limited session is the only source of its peer address, a stale-path
    purge of such a peer is handed that session's counter or none and never another limited peer's
    counter, fewer than 2^63 steps) and both profiles, the C15 reference checker accepts the
    observation of the model's run. -/
theorem check_run_ok_partial (p : Profile) (c : Case) (g : Nat → Fam) (h : c.WFWith g) (hp : c.PlainLimits) :
    SpecC15.check c (observe p c) = .ok :=
  C15.check_run_ok_partial allSound p h hp

/-- the full-strength statement: the checker accepts the run of EVERY well-formed case -/
def C15_full : Prop := ∀ (p : Profile) (c : Case), c.WF → SpecC15.check c (observe p c) = .ok

/-- **The full-strength statement is false for the model** (which mirrors the code): open finding
    "inherited stale paths". -/
theorem not_C15_full : ¬ C15_full := C15.not_C15_full

/-- the witness: a session of peer 1 announces a prefix and goes down (its path is kept, stale); a new
    session of the same peer re-announces the prefix.  The new session's counter stays 0 although the
    peer has a prefix in the RIB: step 2 fails the clause "limit counter = recount". -/
theorem inherited_stale_paths_witness :
    C15.wCase.WF ∧ SpecC15.check C15.wCase (observe .debug C15.wCase) =
      .fail 2 "limit-counter-ne-recount class=inherited-stale-paths" :=
  ⟨C15.wCase_wf, C15.wCase_verdict⟩

/-! ## Steps of a run -/

/-- the tables of a run, starting with the empty one -/
def states (p : Profile) (c : Case) : List Table := {} :: (run p c).1.map (·.1)

/-- step number `i` of the run of `c` executes `op` on `t` and yields table `t'` and result `r` -/
def RunStepAt (p : Profile) (c : Case) (i : Nat) (t : Table) (op : Op) (t' : Table) (r : Res) : Prop :=
  (states p c)[i]? = some t ∧ c.ops[i]? = some op ∧ (run p c).1[i]? = some (t', r)

theorem runStepAt_lt {p : Profile} {c : Case} {i : Nat} {t t' : Table} {op : Op} {r : Res}
    (hs : RunStepAt p c i t op t' r) : i < c.ops.length := by
  have := hs.2.1
  rcases Nat.lt_or_ge i c.ops.length with h | h
  · exact h
  · rw [List.getElem?_eq_none h] at this; cases this

/-- what the proofs know about step `i` of a run outside the open finding -/
theorem runStepAt_facts {p : Profile} {c : Case} {g : Nat → Fam} (h : c.WFWith g) (hp : c.PlainLimits)
    {i : Nat} {t t' : Table} {op : Op} {r : Res} (hs : RunStepAt p c i t op t' r) :
    Inv c g t ∧ Inv c g t' ∧ t.step p op = .ok (t', r) ∧
    ∃ st, C15.SInv c t st i ∧
      C15.SInv c t' { live := SpecC15.liveStep c st op, dead := SpecC15.deadStep c st op,
                      prev := (stepObs c (t', r)).fams } (i + 1) ∧
      C15.DeadProv c (SpecC15.deadStep c st op) (c.ops.take (i + 1)) := by
  obtain ⟨h1, h2, h3⟩ := hs
  obtain ⟨e1, e2, e3, st, e4, _, e6, e7⟩ := C15.run_at allSound p hp c.ops {} {} 0 [] h (fun _ ho => ho)
    (by simpa using hp.short) (inv_empty c g) (C15.sinv_empty c) (fun _ _ hm => by simp at hm) i t t' op r h1 h2 h3
  refine ⟨e1, e2, e3, st, ?_, ?_, ?_⟩
  · simpa using e4
  · simpa using e6
  · simpa using e7

/-! ## 1. Statistics and table totals equal the recount (unconditionally) -/

/-- **stats_eq_recount**: in every state of a run, `route_stats[(addr, family)]` (read as (0, 0) when
    absent, as `peer_stats` reports it) is the recount: the number of prefixes of the family with at
    least one path of the peer, and the number of its paths that passed import policy. -/
theorem stats_eq_recount (p : Profile) (c : Case) (g : Nat → Fam) (h : c.WFWith g) :
    ∀ tr ∈ (run p c).1, ∀ (addr : Nat) (f : Fam),
      statsGet tr.1 (addr, f) = (recvCount addr (tr.1.rib f), accCount addr (tr.1.rib f)) := by
  intro tr htr addr f
  exact (runFrom_inv allSound p c.ops h {} (inv_empty c g) tr htr).stats.get addr f

/-- an absent statistics entry means the peer has no path in the family -/
theorem stats_absent (p : Profile) (c : Case) (g : Nat → Fam) (h : c.WFWith g) :
    ∀ tr ∈ (run p c).1, ∀ (addr : Nat) (f : Fam), alookup (addr, f) tr.1.stats = none →
      ∀ nd ∈ (tr.1.rib f).dests, nd.2.entries.any (sameAddr addr) = false := by
  intro tr htr addr f hl
  have := (runFrom_inv allSound p c.ops h {} (inv_empty c g) tr htr).stats addr f
  rw [hl] at this
  exact this

/-- **state_eq_recount**: in every state of a run, `Table::state(family)` = (destinations, paths,
    accepted) is the recount over the destinations that have at least one path, and every destination
    has at least one path (a prefix with no paths is not counted as a destination). -/
theorem state_eq_recount (p : Profile) (c : Case) (g : Nat → Fam) (h : c.WFWith g) :
    ∀ tr ∈ (run p c).1, ∀ f : Fam,
      (tr.1.rib f).state.1 = ((tr.1.rib f).dests.filter fun nd => !nd.2.entries.isEmpty).length ∧
      (tr.1.rib f).state.2.1 = ((tr.1.rib f).dests.map fun nd => nd.2.entries.length).sum ∧
      (tr.1.rib f).state.2.2 =
        ((tr.1.rib f).dests.map fun nd => (nd.2.entries.filter fun e => !e.filtered).length).sum ∧
      ∀ nd ∈ (tr.1.rib f).dests, nd.2.entries ≠ [] := by
  intro tr htr f
  have hr := (runFrom_inv allSound p c.ops h {} (inv_empty c g) tr htr).rib f
  refine ⟨?_, ?_, ?_, fun nd hnd => (hr.dest nd hnd).nonEmpty⟩
  · rw [nonEmpty_filter_eq hr]; rfl
  · show ((tr.1.rib f).dests.flatMap fun nd => nd.2.entries).length = _
    rw [List.length_flatMap]
  · show (((tr.1.rib f).dests.flatMap fun nd => nd.2.entries).filter fun e => !e.filtered).length = _
    rw [List.filter_flatMap, List.length_flatMap]

/-! ## 2. No underflow -/

/-- **no_panic**: a run of a well-formed case never panics, in either profile: no `u64` subtraction
    of the statistics underflows (debug: the overflow check does not fire) and no `unwrap` fails. -/
theorem no_panic (p : Profile) (c : Case) (g : Nat → Fam) (h : c.WFWith g) : (run p c).2 = false :=
  runFrom_no_panic allSound p c.ops h {} (inv_empty c g)

/-- **no_underflow**: outside the open finding, after every step the recounts (hence the statistics)
    and the limit counters of all limited sessions are below 2^63: no counter has wrapped. -/
theorem no_underflow {p : Profile} {c : Case} {g : Nat → Fam} (h : c.WFWith g) (hp : c.PlainLimits)
    {i : Nat} {t t' : Table} {op : Op} {r : Res} (hs : RunStepAt p c i t op t' r) :
    (∀ addr f, (statsGet t' (addr, f)).1 < SpecC15.HALF ∧ (statsGet t' (addr, f)).2 < SpecC15.HALF) ∧
    (∀ s : Src, s.WF c → s.lim.isSome = true → ∀ f, t'.ctr (s.id, f) < SpecC15.HALF) := by
  have hlt := runStepAt_lt hs
  have hsh := hp.short
  obtain ⟨_, hinv', _, st, _, hs', _⟩ := runStepAt_facts h hp hs
  constructor
  · intro addr f
    rw [hinv'.stats.get addr f]
    have := hs'.bound addr f
    simp only []
    omega
  · intro s hw hl f
    have := (hs'.ctr s hw hl f).2
    omega

/-! ## 3. The limit counter (outside the open finding) -/

/-- **limit_counter_ge_recount_partial**: after every step the counter of a limited session is at
    least the number of prefixes with a path of its peer. -/
theorem limit_counter_ge_recount_partial {p : Profile} {c : Case} {g : Nat → Fam} (h : c.WFWith g)
    (hp : c.PlainLimits) {i : Nat} {t t' : Table} {op : Op} {r : Res} (hs : RunStepAt p c i t op t' r)
    (s : Src) (hw : s.WF c) (hl : s.lim.isSome = true) (f : Fam) :
    recvCount s.addr (t'.rib f) ≤ t'.ctr (s.id, f) := by
  obtain ⟨_, _, _, st, _, hs', _⟩ := runStepAt_facts h hp hs
  exact (hs'.ctr s hw hl f).1

/-- **limit_counter_eq_recount_partial**: as long as the peer of a limited session has not been
    dropped or re-marked stale and no counter-less purge of its stale paths was requested (the
    operations after which the daemon no longer uses the session's counter), the counter EQUALS the
    number of prefixes with a path of the peer. -/
theorem limit_counter_eq_recount_partial {p : Profile} {c : Case} {g : Nat → Fam} (h : c.WFWith g)
    (hp : c.PlainLimits) {i : Nat} {t t' : Table} {op : Op} {r : Res} (hs : RunStepAt p c i t op t' r)
    (s : Src) (hw : s.WF c) (hl : s.lim.isSome = true) (f : Fam)
    (hno : ∀ o ∈ c.ops.take (i + 1), o.endsSessions c ≠ some (s.addr, f)) :
    t'.ctr (s.id, f) = recvCount s.addr (t'.rib f) := by
  obtain ⟨_, _, _, st, _, hs', hd⟩ := runStepAt_facts h hp hs
  apply hs'.eq s hw hl f
  intro hm
  obtain ⟨o, ho, a, h1, h2⟩ := hd s.id f hm
  rw [C15.addrOf_wf hw, Option.some.injEq] at h2
  subst h2
  exact hno o ho h1

/-- **limit_enforced_partial**: an `insert` of a limited session that brings the peer a NEW prefix
    and is not answered with `PrefixLimitExceeded` leaves the peer with at most `max` prefixes. -/
theorem limit_enforced_partial {p : Profile} {c : Case} {g : Nat → Fam} (h : c.WFWith g) (hp : c.PlainLimits)
    {i : Nat} {t t' : Table} {r : Res} {src : Src} {fam : Fam} {net : Net} {rpid : Nat} {nh : Option Nat}
    {attr : Attrs} {filtered nhInv : Bool}
    (hs : RunStepAt p c i t (.insert src fam net rpid nh attr filtered nhInv) t' r)
    {max : Nat} (hmax : src.lim = some max) (hr : r ≠ .limit)
    (hnew : (t.entries fam net).any (sameAddr src.addr) = false) :
    recvCount src.addr (t'.rib fam) ≤ max := by
  have hop : Op.insert src fam net rpid nh attr filtered nhInv ∈ c.ops := List.mem_of_getElem? hs.2.1
  have hwf := h _ hop
  obtain ⟨hinv, hinv', hstep, st, hs0, _, _⟩ := runStepAt_facts h hp hs
  obtain ⟨e1, _, _, e4⟩ := (C15.ctrFacts_step p hinv hinv' _ hstep).spec.2 hr
  rw [hnew] at e1 e4
  have hc := (hs0.ctr src hwf.1 (by rw [hmax]; rfl) fam).1
  have := e4 rfl max hmax
  simp only [Bool.not_false, Bool.toNat_true] at e1
  omega

/-- **limit_signalled**: `PrefixLimitExceeded` is answered only to an announcement that would bring the
    peer a new prefix while the session's counter has reached the maximum, and it changes nothing
    (holds for every well-formed case). -/
theorem limit_signalled {c : Case} {g : Nat → Fam} (p : Profile) {t t' : Table} (hinv : Inv c g t) (hinv' : Inv c g t')
    {src : Src} {fam : Fam} {net : Net} {rpid : Nat} {nh : Option Nat} {attr : Attrs} {filtered nhInv : Bool}
    (hstep : t.step p (.insert src fam net rpid nh attr filtered nhInv) = .ok (t', .limit)) :
    (t.entries fam net).any (sameAddr src.addr) = false ∧
    (∃ max, src.lim = some max ∧ max ≤ t.ctr (src.id, fam)) ∧ t' = t := by
  obtain ⟨e1, e2, e3⟩ := (C15.ctrFacts_step p hinv hinv' _ hstep).spec.1 rfl
  exact ⟨by simpa using e1, e2, e3⟩

/-! ## Non-vacuity -/

def exS0 : Src := { id := 0, addr := 1, rid := 1, role := .ebgp, lim := some 1 }
def exS1 : Src := { id := 1, addr := 2, rid := 2, role := .ibgp, lim := none }
def exAttr : Attrs :=
  { id := 0, lp := some 100, origin := some 0, asPath := none, oid := none, cluster := none, comm := none, ext := none }
def exN1 : Net := ⟨false, 1⟩
def exN2 : Net := ⟨false, 2⟩

/-- a session limited to one prefix announces a prefix, is refused a second one, a second (unlimited)
    peer announces, the first peer's stale paths are purged with its counter (there are none), it
    withdraws its prefix, and the second peer is dropped -/
def exCase : Case :=
  { srcs := [exS0, exS1], attrs := [exAttr],
    ops := [ .insert exS0 .v4 exN1 0 (some 1) exAttr false false,
             .insert exS0 .v4 exN2 0 (some 1) exAttr false false,
             .insert exS1 .v4 exN1 0 (some 1) exAttr true false,
             .dropStale 1 .v4 (some 0),
             .remove exS0 .v4 exN1 0,
             .drop 2 .v4 ] }

theorem exAttr_wf : exAttr.WF :=
  ⟨by intro bs h; simp [exAttr] at h, by intro bs h; simp [exAttr] at h, by intro bs h; simp [exAttr] at h⟩

theorem exCase_wf : exCase.WFWith (fun _ => .v4) := by
  intro op hop
  simp only [exCase, List.mem_cons, List.not_mem_nil, or_false] at hop
  rcases hop with rfl | rfl | rfl | rfl | rfl | rfl
  · exact ⟨rfl, rfl, exAttr_wf⟩
  · exact ⟨rfl, rfl, exAttr_wf⟩
  · exact ⟨rfl, rfl, exAttr_wf⟩
  · trivial
  · exact ⟨rfl, rfl⟩
  · trivial

theorem exCase_plain : exCase.PlainLimits where
  oneSession := by decide
  purgeCtr := by
    intro op hop s hs hl
    simp only [exCase, List.mem_cons, List.not_mem_nil, or_false] at hop hs
    rcases hop with rfl | rfl | rfl | rfl | rfl | rfl <;> try trivial
    rcases hs with rfl | rfl
    · exact fun _ => Or.inr rfl
    · exact absurd hl (by decide)
  ctrPeer := by
    intro op hop i s hi hl
    simp only [exCase, List.mem_cons, List.not_mem_nil, or_false] at hop
    rcases hop with rfl | rfl | rfl | rfl | rfl | rfl <;> try trivial
    intro hc
    cases hc
    simp only [exCase, List.getElem?_cons_zero, Option.some.injEq] at hi
    subst hi
    rfl
  short := by decide

/-- the hypotheses of `check_run_ok_partial` are satisfiable -/
example : SpecC15.check exCase (observe .debug exCase) = .ok :=
  check_run_ok_partial .debug exCase _ exCase_wf exCase_plain

/-- ... and the checker's verdict on the example, evaluated -/
example : SpecC15.check exCase (observe .release exCase) = .ok := by decide

/-- the run of the example has six steps and does not panic -/
example : (run .debug exCase).1.length = 6 ∧ (run .debug exCase).2 = false := by decide

def isLimit : Res → Bool
  | .limit => true
  | _ => false

def exState (i : Nat) : Table := (states .debug exCase)[i]?.getD {}
def exRes (i : Nat) : Res := ((run .debug exCase).1[i]?.map (·.2)).getD .unit

/-- step 0 brings the limited peer a new prefix and is accepted: `limit_enforced_partial` applies;
    afterwards the counter is 1 = the recount (`limit_counter_eq_recount_partial` applies: nothing has
    ended the session) -/
example : RunStepAt .debug exCase 0 (exState 0) (.insert exS0 .v4 exN1 0 (some 1) exAttr false false)
      (exState 1) (exRes 0) ∧
    exS0.lim = some 1 ∧ exRes 0 ≠ .limit ∧ ((exState 0).entries .v4 exN1).any (sameAddr exS0.addr) = false ∧
    (exState 1).ctr (0, .v4) = 1 ∧ recvCount 1 ((exState 1).rib .v4) = 1 ∧
    (∀ o ∈ exCase.ops.take 1, o.endsSessions exCase ≠ some (exS0.addr, .v4)) :=
  ⟨⟨rfl, rfl, rfl⟩, rfl, fun h => absurd (congrArg isLimit h) (by decide), by decide, by decide, by decide,
    by decide⟩

/-- step 1 is answered with `PrefixLimitExceeded` (`limit_signalled` applies) -/
example : (exState 1).step .debug (.insert exS0 .v4 exN2 0 (some 1) exAttr false false) =
    .ok (exState 2, .limit) := rfl

/-- after step 3 (the purge that is handed the session's counter) nothing has ended the session of the
    limited peer: `limit_counter_eq_recount_partial` still applies; step 5 ends the sessions of the
    other peer only -/
example : RunStepAt .debug exCase 5 (exState 5) (.drop 2 .v4) (exState 6) (exRes 5) ∧
    (∀ o ∈ exCase.ops.take 6, o.endsSessions exCase ≠ some (exS0.addr, .v4)) ∧
    (.drop 2 .v4 : Op).endsSessions exCase = some (2, .v4) :=
  ⟨⟨rfl, rfl, rfl⟩, by decide, rfl⟩

/-- `stats_eq_recount` / `state_eq_recount` speak about states with paths: after step 2 the table has
    one destination with two paths, one of which passed policy -/
example : ∃ tr ∈ (run .debug exCase).1, (tr.1.rib .v4).state = (1, 2, 1) ∧
    statsGet tr.1 (1, .v4) = (1, 1) ∧ statsGet tr.1 (2, .v4) = (1, 0) :=
  ⟨(exState 3, exRes 2), List.mem_of_getElem? (i := 2) rfl, by decide, by decide, by decide⟩

end Rbgp.Rib.PropsC15

#print axioms Rbgp.Rib.PropsC15.check_run_ok_partial
#print axioms Rbgp.Rib.PropsC15.not_C15_full
#print axioms Rbgp.Rib.PropsC15.inherited_stale_paths_witness
#print axioms Rbgp.Rib.PropsC15.runStepAt_facts
#print axioms Rbgp.Rib.PropsC15.stats_eq_recount
#print axioms Rbgp.Rib.PropsC15.stats_absent
#print axioms Rbgp.Rib.PropsC15.state_eq_recount
#print axioms Rbgp.Rib.PropsC15.no_panic
#print axioms Rbgp.Rib.PropsC15.no_underflow
#print axioms Rbgp.Rib.PropsC15.limit_counter_ge_recount_partial
#print axioms Rbgp.Rib.PropsC15.limit_counter_eq_recount_partial
#print axioms Rbgp.Rib.PropsC15.limit_enforced_partial
#print axioms Rbgp.Rib.PropsC15.limit_signalled
