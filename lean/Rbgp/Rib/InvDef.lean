/-
  Rbgp.Rib.InvDef — well-formedness of cases, the invariant of reachable tables, and the facts every
  step establishes about the notifications it returns.  Definitions only (plus the statements the
  per-operation proof files discharge).
-/
import Rbgp.Rib.Cmp
namespace Rbgp.Rib

/-! ## Well-formed inputs -/

/-- hop count of AS_PATH bytes, without widths (what `as_path_length` computes when nothing overflows) -/
def hopsOf : List Nat → Nat
  | t :: l :: rest => (match t with | 1 => 1 | 2 => l | _ => 0) + hopsOf (rest.drop (l * 4))
  | _ => 0
termination_by bs => bs.length
decreasing_by simp [List.length_drop]; omega

def Attrs.hops (a : Attrs) : Nat :=
  match a.asPath with
  | some bs => hopsOf bs
  | none => 0

/-- What `Attribute::decode` guarantees about an attribute set (and the codec about a case):
    AS_PATH made of whole segments of type 1..4, shorter than 2^64 bytes; bytes are bytes. -/
structure Attrs.WF (a : Attrs) : Prop where
  asPath : ∀ bs, a.asPath = some bs → asPathWf bs = true ∧ bs.length < U64
  commBytes : ∀ bs, a.comm = some bs → ∀ b ∈ bs, b < 256
  extBytes : ∀ bs, a.ext = some bs → ∀ b ∈ bs, b < 256

/-- a source record is the one the case declares under its id (`Arc` identity) -/
def Src.WF (c : Case) (s : Src) : Prop := c.srcs[s.id]? = some s

/-- `g` binds every source (session) to the one family it is used in, as `on_established` does. -/
def Op.WF (c : Case) (g : Nat → Fam) : Op → Prop
  | .insert src fam _ _ _ attr _ _ => src.WF c ∧ g src.id = fam ∧ attr.WF
  | .remove src fam _ _ => src.WF c ∧ g src.id = fam
  | _ => True

def Case.WFWith (c : Case) (g : Nat → Fam) : Prop := ∀ op ∈ c.ops, op.WF c g
def Case.WF (c : Case) : Prop := ∃ g, c.WFWith g

/-! ## The invariant of reachable tables -/

structure DestInv (c : Case) (g : Nat → Fam) (fl : Flags) (f : Fam) (net : Net) (d : Dest) : Prop where
  nonEmpty : d.entries ≠ []
  /-- (peer address, remote path id) identifies a path of a destination -/
  pathKeys : (d.entries.map fun e => (e.src.addr, e.rpid)).Nodup
  lpids : (d.entries.map (·.lpid)).Nodup
  sorted : Sorted (cmpFor fl net.t2) d.entries
  srcOk : ∀ e ∈ d.entries, e.src.WF c ∧ g e.src.id = f
  attrOk : ∀ e ∈ d.entries, e.attr.WF ∧ e.aslen = e.attr.hops

structure RibInv (c : Case) (g : Nat → Fam) (fl : Flags) (f : Fam) (r : Rib) : Prop where
  keys : (r.dests.map (·.1)).Nodup
  ids : (r.dests.map (·.2.id)).Nodup
  used : r.used.Perm (r.dests.map (·.2.id))
  dest : ∀ nd ∈ r.dests, DestInv c g fl f nd.1 nd.2

/-- recount of `route_stats`: prefixes with ≥ 1 path of the peer, and its paths that passed policy -/
def recvCount (addr : Nat) (r : Rib) : Nat :=
  (r.dests.filter fun nd => nd.2.entries.any (sameAddr addr)).length
def accCount (addr : Nat) (r : Rib) : Nat :=
  (r.dests.map fun nd => (nd.2.entries.filter fun e => sameAddr addr e && !e.filtered).length).sum

def StatsInv (t : Table) : Prop :=
  ∀ addr f, match alookup (addr, f) t.stats with
    | some st => st = (recvCount addr (t.rib f), accCount addr (t.rib f))
    | none => ∀ nd ∈ (t.rib f).dests, nd.2.entries.any (sameAddr addr) = false

structure Inv (c : Case) (g : Nat → Fam) (t : Table) : Prop where
  rib : ∀ f, RibInv c g t.flags f (t.rib f)
  stats : StatsInv t
  statsKeys : (t.stats.map (·.1)).Nodup
  ctrKeys : (t.ctrs.map (·.1)).Nodup

/-! ## What a step tells its consumers -/

/-- the exportable (eligible, ranked) paths of a prefix; `[]` if it has none -/
def Table.elig (t : Table) (f : Fam) (n : Net) : List Entry :=
  match alookup n (t.rib f).dests with
  | some d => d.entries.filter Entry.eligible
  | none => []

def Table.destId (t : Table) (f : Fam) (n : Net) : Option Nat :=
  (alookup n (t.rib f).dests).map (·.id)

def Res.chs : Res → List Change
  | .changed c => [c]
  | .removed (some c) => [c]
  | .changes cs => cs
  | _ => []

/-- identity of the best path as a non-add-path consumer sees it -/
def identOf (es : List Entry) : Option (Nat × Nat × Option Nat) :=
  es.head?.map fun e => (e.src.id, e.attr.id, e.nh)

def Op.isRestaleLlgr : Op → Bool
  | .restaleLlgr .. => true
  | _ => false

def Op.isEndDeferral (f : Fam) : Op → Bool
  | .endDeferral f' => f' == f
  | _ => false
def Op.isStartDeferral (f : Fam) : Op → Bool
  | .startDeferral f' => f' == f
  | _ => false

structure StepFacts (t : Table) (op : Op) (t' : Table) (r : Res) : Prop where
  /-- a notification carries exactly the exportable paths of its prefix after the step -/
  exact : ∀ ch ∈ r.chs, ch.paths = t'.elig ch.fam ch.net
  /-- ... and the identifier of that destination (the one it had, if it is gone) -/
  idNew : ∀ ch ∈ r.chs, t'.destId ch.fam ch.net = some ch.destId ∨
            (t'.destId ch.fam ch.net = none ∧ t.destId ch.fam ch.net = some ch.destId)
  /-- at most one notification per prefix, except for `restale_llgr`, which reports every re-marked
      usable path of a prefix in a notification of its own (all carrying the same paths and id, see
      `exact` / `idNew`) -/
  nets : op.isRestaleLlgr = false → (r.chs.map fun ch => (ch.fam, ch.net)).Nodup
  /-- a destination that survives keeps its identifier -/
  idStable : ∀ f n i, t.destId f n = some i → t'.destId f n = some i ∨ t'.destId f n = none
  /-- whenever the exportable paths of a prefix change, an add-path consumer is told -/
  completeAny : ∀ f n, (t.rib f).deferring = false → t.elig f n ≠ t'.elig f n →
      ∃ ch ∈ r.chs, ch.fam = f ∧ ch.net = n ∧ ch.any = true
  /-- whenever the best path's identity changes, a best-only consumer is told -/
  completeBest : ∀ f n, (t.rib f).deferring = false → identOf (t.elig f n) ≠ identOf (t'.elig f n) →
      ∃ ch ∈ r.chs, ch.fam = f ∧ ch.net = n ∧ ch.best = true
  /-- nothing is emitted for a deferring family, except by the end of the deferral -/
  silent : ∀ f, (t.rib f).deferring = true → op.isEndDeferral f = false → ∀ ch ∈ r.chs, ch.fam ≠ f
  /-- the end of a deferral announces every prefix that has an exportable path -/
  endDeferral : ∀ f, op.isEndDeferral f = true → ∀ n, t'.elig f n ≠ [] →
      ∃ ch ∈ r.chs, ch.fam = f ∧ ch.net = n ∧ ch.best = true ∧ ch.any = true
  /-- the deferring flag changes only through start / end of deferral -/
  deferring : ∀ f, (t'.rib f).deferring =
      if op.isStartDeferral f then true else if op.isEndDeferral f then false else (t.rib f).deferring

/-- What each per-operation proof file establishes for its operations (`sel`). -/
def StepSound (sel : Op → Prop) : Prop :=
  ∀ (c : Case) (g : Nat → Fam) (p : Profile) (t : Table) (op : Op), sel op → op.WF c g → Inv c g t →
    ∃ t' r, t.step p op = .ok (t', r) ∧ Inv c g t' ∧ StepFacts t op t' r

end Rbgp.Rib
