/- Term encoding of Rib cases and observations (shared by the C02 / C06 / C15 drivers).
   Mirrors harness/pt/src/rib.rs. -/
import Rbgp.Term
import Rbgp.Rib.Obs
namespace Rbgp.Rib.Codec
open Rbgp Rbgp.Term Rbgp.Rib

def dash : Term := sym "-"
def optNatT : Option Nat → Term
  | none => dash
  | some n => nat n
def optNat? : Term → Option (Option Nat)
  | .atom "-" => some none
  | t => (asNat? t).map some
def optBytes? : Term → Option (Option (List Nat))
  | .atom "-" => some none
  | t => (asBytes? t).map some
def guardO (b : Bool) : Option Unit := if b then some () else none

def famT : Fam → Term
  | .v4 => sym "v4"
  | .ev => sym "ev"
def famOf? : Term → Option Fam
  | .atom "v4" => some .v4
  | .atom "ev" => some .ev
  | _ => none

def netT (n : Net) : Term := list [sym (if n.t2 then "m" else "v"), nat n.k]
def netOf? : Term → Option Net
  | .list [.atom "v", k] => do
      let k ← asNat? k
      guardO (k ≤ 255)
      pure { t2 := false, k }
  | .list [.atom "m", k] => do
      let k ← asNat? k
      guardO (k ≤ 255)
      pure { t2 := true, k }
  | _ => none

def roleOf? : Term → Option Role
  | .atom "ebgp" => some .ebgp
  | .atom "rs" => some .rs
  | .atom "ibgp" => some .ibgp
  | .atom "rr" => some .rr
  | .atom "confed" => some .confed
  | _ => none

def U32MAX : Nat := 4294967295

def srcOf? (id : Nat) : Term → Option Src
  | .list [.atom "s", a, r, role, lim] => do
      let addr ← asNat? a
      guardO (addr ≤ 255)
      let rid ← asNat? r
      guardO (rid ≤ U32MAX)
      let lim ← optNat? lim
      guardO (match lim with | some v => v ≤ U32MAX | none => true)
      pure { id, addr, rid, role := (← roleOf? role), lim }
  | _ => none

def attrsOf? (id : Nat) : Term → Option Attrs
  | .list [.atom "a", lp, origin, asPath, oid, cluster, comm, ext] => do
      let lp ← optNat? lp
      guardO (match lp with | some v => v ≤ U32MAX | none => true)
      let origin ← optNat? origin
      guardO (match origin with | some v => v ≤ 255 | none => true)
      let asPath ← optBytes? asPath
      guardO (match asPath with | some b => asPathWf b | none => true)
      let oid ← optNat? oid
      guardO (match oid with | some v => v ≤ U32MAX | none => true)
      pure { id, lp, origin, asPath, oid, cluster := (← optBytes? cluster), comm := (← optBytes? comm),
             ext := (← optBytes? ext) }
  | _ => none

def mapIdx? {α} (f : Nat → Term → Option α) : List Term → Nat → Option (List α)
  | [], _ => some []
  | t :: l, i => do
      let a ← f i t
      let r ← mapIdx? f l (i + 1)
      pure (a :: r)

def opOf? (srcs : List Src) (attrs : List Attrs) : Term → Option Op
  | .list [.atom "ins", s, f, n, rpid, nh, a, filt, nhinv] => do
      let src ← srcs[(← asNat? s)]?
      let rpid ← asNat? rpid
      guardO (rpid ≤ U32MAX)
      let nh ← optNat? nh
      guardO (match nh with | some v => v ≤ 255 | none => true)
      let attr ← attrs[(← asNat? a)]?
      pure (.insert src (← famOf? f) (← netOf? n) rpid nh attr (← asBool? filt) (← asBool? nhinv))
  | .list [.atom "rm", s, f, n, rpid] => do
      let src ← srcs[(← asNat? s)]?
      let rpid ← asNat? rpid
      guardO (rpid ≤ U32MAX)
      pure (.remove src (← famOf? f) (← netOf? n) rpid)
  | .list [.atom "drop", a, f] => do
      let a ← asNat? a
      guardO (a ≤ 255)
      pure (.drop a (← famOf? f))
  | .list [.atom "restale", a, f] => do
      let a ← asNat? a
      guardO (a ≤ 255)
      pure (.restale a (← famOf? f))
  | .list [.atom "restale-llgr", a, f] => do
      let a ← asNat? a
      guardO (a ≤ 255)
      pure (.restaleLlgr a (← famOf? f))
  | .list [.atom kind, a, f, c] => do
      let a ← asNat? a
      guardO (a ≤ 255)
      let f ← famOf? f
      let c ← optNat? c
      guardO (match c with | some s => s < srcs.length | none => true)
      match kind with
      | "dstale" => pure (.dropStale a f c)
      | "dllgr" => pure (.dropLlgr a f c)
      | "dnollgr" => pure (.dropNoLlgr a f c)
      | _ => none
  | .list [.atom "nhv", k, r] => do
      let k ← asNat? k
      guardO (k ≤ 255)
      pure (.nhValidity k (← asBool? r))
  | .list [.atom "sdef", f] => do pure (.startDeferral (← famOf? f))
  | .list [.atom "edef", f] => do pure (.endDeferral (← famOf? f))
  | _ => none

/-- the family a source is used with by an announcement / withdrawal -/
def srcFamOf : Op → Option (Nat × Fam)
  | .insert s f .. => some (s.id, f)
  | .remove s f .. => some (s.id, f)
  | _ => none

/-- one `Arc<Source>` belongs to one (session, family): every source is used with a single family -/
def oneFamPerSrc : List Op → List (Nat × Fam) → Bool
  | [], _ => true
  | op :: ops, seen =>
      match srcFamOf op with
      | none => oneFamPerSrc ops seen
      | some (s, f) =>
          match seen.find? (fun x => x.1 = s) with
          | some (_, f') => f' == f && oneFamPerSrc ops seen
          | none => oneFamPerSrc ops ((s, f) :: seen)

/-- Only one session of a peer is established at a time (C07): between two session ends of
    (address, family) (`drop`, `restale`, `restale_llgr`) only one Source of that address announces
    or withdraws. -/
def oneLiveSession : List Op → List ((Nat × Fam) × Nat) → Bool
  | [], _ => true
  | op :: ops, cur =>
      match op with
      | .insert s f .. | .remove s f .. =>
          (match cur.find? (fun x => x.1 = (s.addr, f)) with
           | some (_, i) => i == s.id && oneLiveSession ops cur
           | none => oneLiveSession ops (((s.addr, f), s.id) :: cur))
      | .drop a f | .restale a f | .restaleLlgr a f =>
          oneLiveSession ops (cur.filter fun x => !(x.1 == (a, f)))
      | _ => oneLiveSession ops cur

/-- bytes are bytes, AS_PATH bytes are whole segments (what `Attribute::decode` guarantees) -/
def attrWfB (a : Attrs) : Bool :=
  (match a.asPath with | some b => asPathWf b && decide (b.length < U64) | none => true) &&
  (match a.comm with | some b => b.all (· < 256) | none => true) &&
  (match a.ext with | some b => b.all (· < 256) | none => true)

/-- a purge of peer `a` may only be handed the limit counter of a session of that peer that has a
    limit (only those own a counter), and only when that session is the peer's only one (purges settle
    the counter by peer address) -/
def purgeCtrB (c : Case) (a s : Nat) : Bool :=
  match c.srcs[s]? with
  | some src => src.lim.isSome && src.addr == a && c.srcs.all (fun s' => s'.id == s || s'.addr != a)
  | none => false

/-- sources and attribute sets are referred to by their position in the case (`Arc` identity) -/
def opRefB (c : Case) : Op → Bool
  | .insert s _ _ _ _ a _ _ => decide (c.srcs[s.id]? = some s) && decide (c.attrs[a.id]? = some a) && attrWfB a
  | .remove s _ _ _ => decide (c.srcs[s.id]? = some s)
  | .dropStale a _ (some s) | .dropLlgr a _ (some s) | .dropNoLlgr a _ (some s) => purgeCtrB c a s
  | _ => true

/-- The well-formedness both sides demand of a case (everything else is `(bad-case)`); it always
    holds for the references `opOf?` resolves, and rejects a source used with two families. -/
def goodB (c : Case) : Bool := c.ops.all (opRefB c) && oneFamPerSrc c.ops [] && oneLiveSession c.ops []

def mkCase? (ss as os : List Term) (shard : Nat) : Option Case := do
  let srcs ← mapIdx? srcOf? ss 0
  let attrs ← mapIdx? attrsOf? as 0
  let ops ← os.mapM (opOf? srcs attrs)
  guardO (shard ≤ 254)
  guardO (goodB { srcs, attrs, ops, shard })
  pure { srcs, attrs, ops, shard }

def caseOf? : Term → Option Case
  | .list [.atom "case", .list (.atom "srcs" :: ss), .list (.atom "attrs" :: as), .list (.atom "ops" :: os)] =>
      mkCase? ss as os 0
  | .list [.atom "case", .list (.atom "srcs" :: ss), .list (.atom "attrs" :: as), .list (.atom "ops" :: os),
           .list [.atom "shard", k]] => do mkCase? ss as os (← asNat? k)
  | _ => none

/-! ## observations -/

def pathT (p : PathRef) : Term := list [nat p.lpid, nat p.src, nat p.attr, optNatT p.nh]
def pathOf? : Term → Option PathRef
  | .list [l, s, a, nh] => do pure { lpid := (← asNat? l), src := (← asNat? s), attr := (← asNat? a), nh := (← optNat? nh) }
  | _ => none

def changeT (c : ChangeObs) : Term :=
  list ([famT c.fam, netT c.net, nat c.destId, bool c.best, bool c.any, optNatT c.replaced, optNatT c.newBest,
         list (c.ecmp.map nat)] ++ c.paths.map pathT)
def changeOf? : Term → Option ChangeObs
  | .list (f :: n :: d :: b :: a :: r :: nb :: .list e :: ps) => do
      pure { fam := (← famOf? f), net := (← netOf? n), destId := (← asNat? d), best := (← asBool? b),
             any := (← asBool? a), replaced := (← optNat? r), newBest := (← optNat? nb), ecmp := (← e.mapM asNat?),
             paths := (← ps.mapM pathOf?) }
  | _ => none

def resT : ResObs → Term
  | .unit => dash
  | .noChange => sym "nochange"
  | .limit => sym "limit"
  | .ch c => tag "ch" [changeT c]
  | .chs cs => tag "chs" (cs.map changeT)
def resOf? : Term → Option ResObs
  | .atom "-" => some .unit
  | .atom "nochange" => some .noChange
  | .atom "limit" => some .limit
  | .list [.atom "ch", c] => (changeOf? c).map .ch
  | .list (.atom "chs" :: cs) => (cs.mapM changeOf?).map .chs
  | _ => none

def dentryT (e : DEntry) : Term := list [nat e.src, nat e.rpid, nat e.attr, bool e.stale, bool e.filtered]
def dentryOf? : Term → Option DEntry
  | .list [s, r, a, st, f] => do
      pure { src := (← asNat? s), rpid := (← asNat? r), attr := (← asNat? a), stale := (← asBool? st), filtered := (← asBool? f) }
  | _ => none

def destsT (l : List (Net × List DEntry)) : List Term := l.map fun d => list (netT d.1 :: d.2.map dentryT)
def destsOf? (l : List Term) : Option (List (Net × List DEntry)) :=
  l.mapM fun
    | .list (n :: es) => do pure ((← netOf? n), (← es.mapM dentryOf?))
    | _ => none
def limT (l : List (Net × List Nat)) : List Term := l.map fun x => list (netT x.1 :: x.2.map nat)
def limOf? (l : List Term) : Option (List (Net × List Nat)) :=
  l.mapM fun
    | .list (n :: ps) => do pure ((← netOf? n), (← ps.mapM asNat?))
    | _ => none

def famObsT (o : FamObs) : Term :=
  tag "fam" [famT o.fam,
    tag "dests" (destsT o.dests),
    tag "nofilt" (destsT o.nofilt),
    tag "loc" (o.loc.map fun l => list (netT l.net :: nat l.destId :: list (l.ecmp.map nat) :: l.paths.map pathT)),
    tag "lim2" (limT o.lim2),
    tag "lim3" (limT o.lim3),
    tag "state" [nat o.state.1, nat o.state.2.1, nat o.state.2.2],
    tag "adjin" (o.adjIn.map fun x => list (nat x.1 :: destsT x.2)),
    tag "rslocal" (o.rsLocal.map fun x => list (nat x.1 :: x.2.map fun d => list [netT d.1, dentryT d.2]))]
def famObsOf? : Term → Option FamObs
  | .list [.atom "fam", f, .list (.atom "dests" :: ds), .list (.atom "nofilt" :: nf), .list (.atom "loc" :: ls),
           .list (.atom "lim2" :: l2), .list (.atom "lim3" :: l3), .list [.atom "state", a, b, c],
           .list (.atom "adjin" :: ai), .list (.atom "rslocal" :: rl)] => do
      let loc ← ls.mapM fun
        | .list (n :: d :: .list e :: ps) => do
            pure ({ net := (← netOf? n), destId := (← asNat? d), ecmp := (← e.mapM asNat?), paths := (← ps.mapM pathOf?) } : LocObs)
        | _ => none
      let adjIn ← ai.mapM fun
        | .list (a :: ds) => do pure ((← asNat? a), (← destsOf? ds))
        | _ => none
      let rsLocal ← rl.mapM fun
        | .list (a :: ds) => do
            let l ← ds.mapM fun
              | .list [n, e] => do pure ((← netOf? n), (← dentryOf? e))
              | _ => none
            pure ((← asNat? a), l)
        | _ => none
      pure { fam := (← famOf? f), dests := (← destsOf? ds), nofilt := (← destsOf? nf), loc, lim2 := (← limOf? l2),
             lim3 := (← limOf? l3), state := ((← asNat? a), (← asNat? b), (← asNat? c)), adjIn, rsLocal }
  | _ => none

def stepT (s : StepObs) : Term :=
  tag "st" ([resT s.res] ++ s.fams.map famObsT ++
    [tag "stats" (s.stats.map fun x => list [nat x.1, famT x.2.1, nat x.2.2.1, nat x.2.2.2]),
     tag "ctrs" (s.ctrs.map fun x => list [nat x.1, famT x.2.1, nat x.2.2]),
     tag "stale" (s.stale.map nat), tag "llgr" (s.llgr.map nat), tag "cov" (s.cov.map sym)])

/-- split `fam` blocks from the trailing five blocks -/
def stepOf? : Term → Option StepObs
  | .list (.atom "st" :: r :: rest) => do
      let res ← resOf? r
      let n := rest.length
      guardO (5 ≤ n)
      let fams ← (rest.take (n - 5)).mapM famObsOf?
      match rest.drop (n - 5) with
      | [.list (.atom "stats" :: st), .list (.atom "ctrs" :: cs), .list (.atom "stale" :: sl), .list (.atom "llgr" :: ll),
         .list (.atom "cov" :: cv)] =>
          let stats ← st.mapM fun
            | .list [a, f, r, c] => do pure ((← asNat? a), (← famOf? f), (← asNat? r), (← asNat? c))
            | _ => none
          let ctrs ← cs.mapM fun
            | .list [s, f, v] => do pure ((← asNat? s), (← famOf? f), (← asNat? v))
            | _ => none
          pure { res, fams, stats, ctrs, stale := (← sl.mapM asNat?), llgr := (← ll.mapM asNat?), cov := (← cv.mapM asSym?) }
      | _ => none
  | _ => none

def obsT (o : Obs) : Term :=
  list (sym "obs" :: o.steps.map stepT ++ (if o.panicked then [sym "panic"] else []))

def obsOf? : Term → Option Obs
  | .list (.atom "obs" :: l) =>
      match l.getLast? with
      | some (.atom "panic") => do pure { steps := (← l.dropLast.mapM stepOf?), panicked := true }
      | _ => do pure { steps := (← l.mapM stepOf?), panicked := false }
  | _ => none

def profileOf? : String → Option Profile
  | "debug" => some .debug
  | "release" => some .release
  | _ => none

end Rbgp.Rib.Codec
