/-
  Rbgp.Rib.ProofsC06 — the C06 master theorem: the reference checker `SpecC06.check` accepts the
  observation of every model run of a well-formed case (given soundness of every operation).
  Helper lemmas; the readable statements are in PropsC06.lean.
-/
import Rbgp.Rib.Run
import Rbgp.Rib.ObsFacts
import Rbgp.Rib.SpecC06
namespace Rbgp.Rib.C06
open Rbgp.Rib Rbgp.Rib.SpecC06

/-! ## views -/

def ViewWF (m : View) : Prop := (m.map (·.1)).Nodup

theorem vErase_keys_sublist (k : Fam × Net) (m : View) : ((vErase k m).map (·.1)).Sublist (m.map (·.1)) := by
  induction m with
  | nil => simp [vErase]
  | cons x m ih =>
    obtain ⟨k', v⟩ := x
    by_cases h : k' = k
    · simp only [vErase, h, if_true, List.map_cons]; exact List.Sublist.cons _ ih
    · simp only [vErase, h, if_false, List.map_cons]; exact List.Sublist.cons_cons _ ih

theorem not_mem_vErase_keys (k : Fam × Net) (m : View) : k ∉ (vErase k m).map (·.1) := by
  induction m with
  | nil => simp [vErase]
  | cons x m ih =>
    obtain ⟨k', v⟩ := x
    by_cases h : k' = k
    · simp only [vErase, h, if_true]; exact ih
    · simp only [vErase, h, if_false, List.map_cons, List.mem_cons, not_or]
      exact ⟨fun e => h e.symm, ih⟩

theorem vGet_vErase_self (k : Fam × Net) (m : View) : vGet k (vErase k m) = none := by
  induction m with
  | nil => rfl
  | cons x m ih =>
    obtain ⟨k', v⟩ := x
    by_cases h : k' = k
    · simp only [vErase, h, if_true]; exact ih
    · simp only [vErase, h, if_false, vGet]; exact ih

theorem vGet_vErase_ne {k k' : Fam × Net} (h : k ≠ k') (m : View) : vGet k' (vErase k m) = vGet k' m := by
  induction m with
  | nil => rfl
  | cons x m ih =>
    obtain ⟨k'', v⟩ := x
    by_cases h1 : k'' = k
    · have h2 : ¬ k'' = k' := fun e => h (h1.symm.trans e)
      simp only [vErase, h1, if_true, vGet]
      rw [if_neg (fun e => h e), ih]
    · by_cases h2 : k'' = k'
      · subst h2; simp only [vErase, h1, if_false, vGet, if_true]
      · simp only [vErase, h1, if_false, vGet, h2, ih]

def ckey (c : ChangeObs) : Fam × Net := (c.fam, c.net)
def cval (c : ChangeObs) : Option (Nat × List PathRef) :=
  if c.paths.isEmpty then none else some (c.destId, c.paths)

theorem vGet_apply (m : View) (c : ChangeObs) (k : Fam × Net) :
    vGet k (apply m c) = if ckey c = k then cval c else vGet k m := by
  unfold apply cval
  by_cases hk : ckey c = k
  · rw [if_pos hk]
    by_cases he : c.paths.isEmpty = true
    · rw [if_pos he, if_pos he]; rw [← hk]; exact vGet_vErase_self _ m
    · rw [if_neg he, if_neg he]; rw [← hk]; simp [vSet, vGet, ckey]
  · rw [if_neg hk]
    by_cases he : c.paths.isEmpty = true
    · rw [if_pos he]; exact vGet_vErase_ne hk m
    · rw [if_neg he]
      have : ¬ (c.fam, c.net) = k := hk
      simp only [vSet, vGet, this, if_false]
      exact vGet_vErase_ne hk m

theorem wf_apply {m : View} (h : ViewWF m) (c : ChangeObs) : ViewWF (apply m c) := by
  unfold apply
  split
  · exact List.Nodup.sublist (vErase_keys_sublist _ m) h
  · unfold ViewWF vSet
    simp only [List.map_cons, List.nodup_cons]
    exact ⟨not_mem_vErase_keys _ m, List.Nodup.sublist (vErase_keys_sublist _ m) h⟩

theorem wf_foldl (L : List ChangeObs) {m : View} (h : ViewWF m) : ViewWF (L.foldl apply m) := by
  induction L generalizing m with
  | nil => exact h
  | cons c L ih => exact ih (wf_apply h c)

theorem vGet_foldl_miss (L : List ChangeObs) (m : View) (k : Fam × Net) (h : ∀ c ∈ L, ckey c ≠ k) :
    vGet k (L.foldl apply m) = vGet k m := by
  induction L generalizing m with
  | nil => rfl
  | cons c L ih =>
    rw [List.foldl_cons, ih _ fun c' hc' => h c' (List.mem_cons_of_mem _ hc'), vGet_apply,
      if_neg (h c List.mem_cons_self)]

theorem vGet_foldl_hit (L : List ChangeObs) (m : View) (c : ChangeObs) (hn : (L.map ckey).Nodup) (hc : c ∈ L) :
    vGet (ckey c) (L.foldl apply m) = cval c := by
  induction L generalizing m with
  | nil => simp at hc
  | cons a L ih =>
    simp only [List.map_cons, List.nodup_cons] at hn
    rw [List.foldl_cons]
    rcases List.mem_cons.mp hc with rfl | hc'
    · rw [vGet_foldl_miss, vGet_apply, if_pos rfl]
      intro c' hc' e
      exact hn.1 (List.mem_map.mpr ⟨c', hc', e⟩)
    · exact ih _ hn.2 hc'

theorem vGet_some_mem {k : Fam × Net} {v : Nat × List PathRef} {m : View} (h : vGet k m = some v) : (k, v) ∈ m := by
  induction m with
  | nil => simp [vGet] at h
  | cons x m ih =>
    obtain ⟨k', v'⟩ := x
    by_cases hk : k' = k
    · simp only [vGet, hk, if_true, Option.some.injEq] at h
      subst h; subst hk; exact List.mem_cons_self
    · simp only [vGet, hk, if_false] at h
      exact List.mem_cons_of_mem _ (ih h)

theorem vGet_of_mem {k : Fam × Net} {v : Nat × List PathRef} {m : View} (hw : ViewWF m) (h : (k, v) ∈ m) :
    vGet k m = some v := by
  induction m with
  | nil => simp at h
  | cons x m ih =>
    obtain ⟨k', v'⟩ := x
    unfold ViewWF at hw
    simp only [List.map_cons, List.nodup_cons] at hw
    rcases List.mem_cons.mp h with e | h'
    · cases e; simp [vGet]
    · have : k' ≠ k := by
        intro e; subst e; exact hw.1 (List.mem_map.mpr ⟨(k', v), h', rfl⟩)
      simp only [vGet, this, if_false]
      exact ih hw.2 h'

/-! ## the observed notifications -/

theorem changesOf_obs_perm (fl : Flags) (r : Res) : (changesOf (r.obs fl)).Perm (r.chs.map (Change.obs fl)) := by
  cases r with
  | unit => exact List.Perm.refl _
  | noChange => exact List.Perm.refl _
  | limit => exact List.Perm.refl _
  | changed c => exact List.Perm.refl _
  | removed oc => cases oc <;> exact List.Perm.refl _
  | changes cs => exact sortOn_perm _ _

theorem cval_obs (fl : Flags) (ch : Change) :
    cval (ch.obs fl) = if ch.paths.isEmpty then none else some (ch.destId, ch.paths.map Entry.ref) := by
  unfold cval Change.obs
  cases ch.paths <;> rfl

section fold
variable {fl : Flags} {chs : List Change} {L : List ChangeObs}

theorem keys_nodup_of_perm (hp : L.Perm (chs.map (Change.obs fl)))
    (hn : (chs.map fun ch => (ch.fam, ch.net)).Nodup) : (L.map ckey).Nodup := by
  have : (L.map ckey).Perm (chs.map fun ch => (ch.fam, ch.net)) := by
    have := hp.map ckey
    rw [List.map_map] at this
    exact this
  exact this.nodup_iff.mpr hn

theorem view_hit (hp : L.Perm (chs.map (Change.obs fl))) (hn : (chs.map fun ch => (ch.fam, ch.net)).Nodup)
    (m : View) {ch : Change} (hc : ch ∈ chs) :
    vGet (ch.fam, ch.net) (L.foldl apply m) =
      if ch.paths.isEmpty then none else some (ch.destId, ch.paths.map Entry.ref) := by
  rw [← cval_obs fl ch]
  exact vGet_foldl_hit L m (ch.obs fl) (keys_nodup_of_perm hp hn)
    (hp.mem_iff.mpr (List.mem_map.mpr ⟨ch, hc, rfl⟩))

theorem view_miss (hp : L.Perm (chs.map (Change.obs fl))) (m : View) {k : Fam × Net}
    (h : ∀ ch ∈ chs, (ch.fam, ch.net) ≠ k) : vGet k (L.foldl apply m) = vGet k m := by
  apply vGet_foldl_miss
  intro c hc
  obtain ⟨ch, hch, rfl⟩ := List.mem_map.mp (hp.mem_iff.mp hc)
  exact h ch hch

theorem perm_filter_best (hp : L.Perm (chs.map (Change.obs fl))) :
    (L.filter (·.best)).Perm ((chs.filter (·.best)).map (Change.obs fl)) := by
  have := hp.filter (·.best)
  rw [List.filter_map] at this
  exact this

theorem perm_filter_any (hp : L.Perm (chs.map (Change.obs fl))) :
    (L.filter (·.any)).Perm ((chs.filter (·.any)).map (Change.obs fl)) := by
  have := hp.filter (·.any)
  rw [List.filter_map] at this
  exact this

theorem keys_nodup_filter (q : Change → Bool) (hn : (chs.map fun ch => (ch.fam, ch.net)).Nodup) :
    ((chs.filter q).map fun ch => (ch.fam, ch.net)).Nodup :=
  List.Nodup.sublist (List.Sublist.map _ List.filter_sublist) hn

end fold

/-! ## what the three consumers hold for one family -/

theorem bestIdent_ref (es : List Entry) : bestIdent (es.map Entry.ref) = identOf es := by
  cases es <;> rfl

theorem identOf_eq_none {es : List Entry} : identOf es = none ↔ es = [] := by
  cases es <;> simp [identOf]

/-- The views of family `f` agree with exportable lists `E` and identifiers `D`. -/
structure FamRel (E : Net → List Entry) (D : Net → Option Nat) (full best add : View) (f : Fam) : Prop where
  full : ∀ n, vGet (f, n) full =
    if (E n).isEmpty then none else (D n).map fun i => (i, (E n).map Entry.ref)
  add : ∀ n, (vGet (f, n) add).map (·.2) = if (E n).isEmpty then none else some ((E n).map Entry.ref)
  bestNone : ∀ n, vGet (f, n) best = none ↔ E n = []
  bestId : ∀ n v, vGet (f, n) best = some v → bestIdent v.2 = identOf (E n)

theorem isEmpty_false_of_ne {α} {l : List α} (h : l ≠ []) : l.isEmpty = false := by
  cases l with
  | nil => exact absurd rfl h
  | cons _ _ => rfl

/-- one step of the three folds, for one family -/
theorem FamRel.step {E E' : Net → List Entry} {D D' : Net → Option Nat} {full best add : View} {f : Fam}
    {fl : Flags} {chs : List Change} {L : List ChangeObs}
    (h : FamRel E D full best add f)
    (hp : L.Perm (chs.map (Change.obs fl))) (hn : (chs.map fun ch => (ch.fam, ch.net)).Nodup)
    (hex : ∀ ch ∈ chs, ch.fam = f → ch.paths = E' ch.net)
    (hid : ∀ ch ∈ chs, ch.fam = f → E' ch.net ≠ [] → D' ch.net = some ch.destId)
    (hst : ∀ n, E n ≠ [] → E' n ≠ [] → D' n = D n)
    (hany : ∀ n, E n ≠ E' n → ∃ ch ∈ chs, ch.fam = f ∧ ch.net = n ∧ ch.any = true)
    (hbest : ∀ n, identOf (E n) ≠ identOf (E' n) → ∃ ch ∈ chs, ch.fam = f ∧ ch.net = n ∧ ch.best = true) :
    FamRel E' D' (L.foldl apply full) ((L.filter (·.best)).foldl apply best)
      ((L.filter (·.any)).foldl apply add) f := by
  have hpb := perm_filter_best hp
  have hpa := perm_filter_any hp
  have hnb := keys_nodup_filter (·.best) hn
  have hna := keys_nodup_filter (·.any) hn
  refine ⟨?_, ?_, ?_, ?_⟩
  · intro n
    by_cases hh : ∃ ch ∈ chs, ch.fam = f ∧ ch.net = n
    · obtain ⟨ch, hch, hf, hnet⟩ := hh
      have := view_hit hp hn full hch
      rw [hf, hnet] at this
      rw [this, hex ch hch hf, hnet]
      by_cases he : E' n = []
      · rw [he]; rfl
      · rw [isEmpty_false_of_ne he]
        have := hid ch hch hf (by rw [hnet]; exact he)
        rw [hnet] at this
        rw [this]; rfl
    · have hmiss : ∀ ch ∈ chs, (ch.fam, ch.net) ≠ (f, n) := by
        intro ch hch e
        exact hh ⟨ch, hch, (Prod.mk.inj e).1, (Prod.mk.inj e).2⟩
      rw [view_miss hp full hmiss, h.full n]
      have hE : E n = E' n := by
        apply Classical.byContradiction
        intro hne
        obtain ⟨ch, hch, h1, h2, -⟩ := hany n hne
        exact hh ⟨ch, hch, h1, h2⟩
      rw [← hE]
      by_cases he : E n = []
      · rw [he]; rfl
      · rw [isEmpty_false_of_ne he, hst n he (hE ▸ he)]
  · intro n
    by_cases hh : ∃ ch ∈ chs.filter (·.any), ch.fam = f ∧ ch.net = n
    · obtain ⟨ch, hch, hf, hnet⟩ := hh
      have := view_hit hpa hna add hch
      rw [hf, hnet] at this
      rw [this, hex ch (List.mem_filter.mp hch).1 hf, hnet]
      by_cases he : E' n = []
      · rw [he]; rfl
      · rw [isEmpty_false_of_ne he]; rfl
    · have hmiss : ∀ ch ∈ chs.filter (·.any), (ch.fam, ch.net) ≠ (f, n) := by
        intro ch hch e
        exact hh ⟨ch, hch, (Prod.mk.inj e).1, (Prod.mk.inj e).2⟩
      rw [view_miss hpa add hmiss, h.add n]
      have hE : E n = E' n := by
        apply Classical.byContradiction
        intro hne
        obtain ⟨ch, hch, h1, h2, h3⟩ := hany n hne
        exact hh ⟨ch, List.mem_filter.mpr ⟨hch, h3⟩, h1, h2⟩
      rw [← hE]
  · intro n
    by_cases hh : ∃ ch ∈ chs.filter (·.best), ch.fam = f ∧ ch.net = n
    · obtain ⟨ch, hch, hf, hnet⟩ := hh
      have := view_hit hpb hnb best hch
      rw [hf, hnet] at this
      rw [this, hex ch (List.mem_filter.mp hch).1 hf, hnet]
      by_cases he : E' n = []
      · rw [he]; simp
      · rw [isEmpty_false_of_ne he]; simp [he]
    · have hmiss : ∀ ch ∈ chs.filter (·.best), (ch.fam, ch.net) ≠ (f, n) := by
        intro ch hch e
        exact hh ⟨ch, hch, (Prod.mk.inj e).1, (Prod.mk.inj e).2⟩
      rw [view_miss hpb best hmiss, h.bestNone n]
      have hI : identOf (E n) = identOf (E' n) := by
        apply Classical.byContradiction
        intro hne
        obtain ⟨ch, hch, h1, h2, h3⟩ := hbest n hne
        exact hh ⟨ch, List.mem_filter.mpr ⟨hch, h3⟩, h1, h2⟩
      rw [← identOf_eq_none, hI, identOf_eq_none]
  · intro n v hv
    by_cases hh : ∃ ch ∈ chs.filter (·.best), ch.fam = f ∧ ch.net = n
    · obtain ⟨ch, hch, hf, hnet⟩ := hh
      have := view_hit hpb hnb best hch
      rw [hf, hnet] at this
      rw [this, hex ch (List.mem_filter.mp hch).1 hf, hnet] at hv
      by_cases he : E' n = []
      · rw [he] at hv; simp at hv
      · rw [isEmpty_false_of_ne he] at hv
        simp only [Bool.false_eq_true, if_false, Option.some.injEq] at hv
        rw [← hv]; exact bestIdent_ref _
    · have hmiss : ∀ ch ∈ chs.filter (·.best), (ch.fam, ch.net) ≠ (f, n) := by
        intro ch hch e
        exact hh ⟨ch, hch, (Prod.mk.inj e).1, (Prod.mk.inj e).2⟩
      rw [view_miss hpb best hmiss] at hv
      have hI : identOf (E n) = identOf (E' n) := by
        apply Classical.byContradiction
        intro hne
        obtain ⟨ch, hch, h1, h2, h3⟩ := hbest n hne
        exact hh ⟨ch, List.mem_filter.mpr ⟨hch, h3⟩, h1, h2⟩
      rw [← hI]; exact h.bestId n v hv

/-! ## the relation between a model state and the state of the checker -/

/-- the exportable paths as the consumers should see them: nothing while the family defers -/
def vis (t : Table) (f : Fam) (n : Net) : List Entry :=
  if (t.rib f).deferring = true then [] else t.elig f n

theorem vis_of_not_deferring {t : Table} {f : Fam} (h : (t.rib f).deferring = false) : vis t f = t.elig f := by
  funext n; unfold vis; rw [h]; rfl

theorem vis_of_deferring {t : Table} {f : Fam} (h : (t.rib f).deferring = true) (n : Net) : vis t f n = [] := by
  unfold vis; rw [if_pos h]

structure Rel (t : Table) (st : St) : Prop where
  defr : ∀ f, f ∈ st.deferring ↔ (t.rib f).deferring = true
  defNodup : st.deferring.Nodup
  wfFull : ViewWF st.full
  wfBest : ViewWF st.bestOnly
  wfAdd : ViewWF st.addPath
  fam : ∀ f, f ∉ st.outside → FamRel (vis t f) (t.destId f) st.full st.bestOnly st.addPath f

/-! ## small facts about the checker's helpers -/

theorem nodupNat_iff (l : List Nat) : nodupNat l = true ↔ l.Nodup := by
  induction l with
  | nil => simp [nodupNat]
  | cons x l ih => simp [nodupNat, ih]

theorem firstSome_none {α} {f : α → Option String} {l : List α} (h : ∀ a ∈ l, f a = none) :
    firstSome f l = none := by
  induction l with
  | nil => rfl
  | cons a l ih =>
    simp only [firstSome, h a List.mem_cons_self]
    exact ih fun b hb => h b (List.mem_cons_of_mem _ hb)

theorem viewSubset_of {f : Fam} {m : View} {loc : List LocObs}
    (h : ∀ kv ∈ m, kv.1.1 = f → ∃ l ∈ loc, l.net = kv.1.2) : viewSubset f m loc = true := by
  unfold viewSubset
  rw [List.all_eq_true]
  intro kv hkv
  by_cases hf : kv.1.1 = f
  · obtain ⟨l, hl, hn⟩ := h kv hkv hf
    have : (loc.any fun l => decide (l.net = kv.1.2)) = true :=
      List.any_eq_true.mpr ⟨l, hl, by simpa using hn⟩
    rw [this, Bool.or_true]
  · have : (kv.1.1 != f) = true := by simpa using hf
    rw [this, Bool.true_or]

theorem nodup_of_map {α β} (f : α → β) {l : List α} (h : (l.map f).Nodup) : l.Nodup := by
  induction l with
  | nil => exact List.nodup_nil
  | cons a l ih =>
    simp only [List.map_cons, List.nodup_cons] at h ⊢
    exact ⟨fun ha => h.1 (List.mem_map.mpr ⟨a, ha, rfl⟩), ih h.2⟩

theorem nodup_map_of_inj {α β} (f : α → β) {l : List α} (hl : l.Nodup)
    (hi : ∀ a ∈ l, ∀ b ∈ l, f a = f b → a = b) : (l.map f).Nodup := by
  induction l with
  | nil => exact List.nodup_nil
  | cons a l ih =>
    simp only [List.map_cons, List.nodup_cons] at hl ⊢
    refine ⟨?_, ih hl.2 fun x hx y hy => hi x (List.mem_cons_of_mem _ hx) y (List.mem_cons_of_mem _ hy)⟩
    intro hm
    obtain ⟨b, hb, e⟩ := List.mem_map.mp hm
    have := hi b (List.mem_cons_of_mem _ hb) a List.mem_cons_self e
    subst this; exact hl.1 hb

theorem eq_of_nodup_map' {α β : Type} (f : α → β) {l : List α} (hn : (l.map f).Nodup) {a b : α}
    (ha : a ∈ l) (hb : b ∈ l) (hab : f a = f b) : a = b := by
  induction l with
  | nil => simp at ha
  | cons x l ih =>
    simp only [List.map_cons, List.nodup_cons, List.mem_map, not_exists, not_and] at hn
    rcases List.mem_cons.mp ha with ha' | ha' <;> rcases List.mem_cons.mp hb with hb' | hb'
    · rw [ha', hb']
    · subst ha'; exact absurd hab.symm (hn.1 b hb')
    · subst hb'; exact absurd hab (hn.1 a ha')
    · exact ih hn.2 ha' hb'

/-- `checkFam` accepts when its clauses hold -/
theorem checkFam_none {st : St} {fo : FamObs}
    (h : st.deferring.contains fo.fam = false → st.outside.contains fo.fam = false →
      (fo.loc.map (·.destId)).Nodup ∧
      ((st.full.filter fun kv => kv.1.1 == fo.fam).map fun kv => kv.2.1).Nodup ∧
      (∀ l ∈ fo.loc, ∃ i j k bp, vGet (fo.fam, l.net) st.full = some (i, l.paths) ∧
        vGet (fo.fam, l.net) st.bestOnly = some (j, bp) ∧ bestIdent bp = bestIdent l.paths ∧
        vGet (fo.fam, l.net) st.addPath = some (k, l.paths)) ∧
      viewSubset fo.fam st.full fo.loc = true ∧ viewSubset fo.fam st.bestOnly fo.loc = true ∧
      viewSubset fo.fam st.addPath fo.loc = true) : checkFam st fo = none := by
  unfold checkFam
  cases hd : st.deferring.contains fo.fam with
  | true => simp
  | false =>
    cases ho : st.outside.contains fo.fam with
    | true => simp
    | false =>
      obtain ⟨h1, h2, h3, h4, h5, h6⟩ := h hd ho
      have e1 := (nodupNat_iff _).mpr h1
      have e2 := (nodupNat_iff _).mpr h2
      rw [e1, e2, h4, h5, h6, firstSome_none]
      · rfl
      · intro l hl
        obtain ⟨i, j, k, bp, g1, g2, g3, g4⟩ := h3 l hl
        simp only [g1, g2, g3, g4, ne_eq, not_true_eq_false, if_false]

/-! ## a related state passes `checkFam` -/

theorem elig_of_mem {t : Table} {f : Fam} (hk : ((t.rib f).dests.map (·.1)).Nodup) {nd : Net × Dest}
    (h : nd ∈ (t.rib f).dests) :
    t.elig f nd.1 = nd.2.entries.filter Entry.eligible ∧ t.destId f nd.1 = some nd.2.id := by
  unfold Table.elig Table.destId
  rw [alookup_of_mem hk (show (nd.1, nd.2) ∈ _ from h)]
  exact ⟨rfl, rfl⟩

theorem destId_some_of_elig {t : Table} {f : Fam} {n : Net} (h : t.elig f n ≠ []) : ∃ i, t.destId f n = some i := by
  unfold Table.elig at h
  unfold Table.destId
  cases ha : alookup n (t.rib f).dests with
  | none => rw [ha] at h; exact absurd rfl h
  | some d => exact ⟨d.id, rfl⟩

theorem elig_nil_of_destId_none {t : Table} {f : Fam} {n : Net} (h : t.destId f n = none) : t.elig f n = [] := by
  apply Classical.byContradiction
  intro hne
  obtain ⟨i, hi⟩ := destId_some_of_elig hne
  rw [hi] at h; exact absurd h (by simp)

/-- different prefixes of a family have different destination identifiers -/
theorem destId_inj {c : Case} {g : Nat → Fam} {fl : Flags} {t : Table} {f : Fam}
    (h : RibInv c g fl f (t.rib f)) {n1 n2 : Net} {i : Nat}
    (h1 : t.destId f n1 = some i) (h2 : t.destId f n2 = some i) : n1 = n2 := by
  unfold Table.destId at h1 h2
  cases ha : alookup n1 (t.rib f).dests with
  | none => rw [ha] at h1; simp at h1
  | some d1 =>
    cases hb : alookup n2 (t.rib f).dests with
    | none => rw [hb] at h2; simp at h2
    | some d2 =>
      rw [ha] at h1; rw [hb] at h2
      simp only [Option.map_some, Option.some.injEq] at h1 h2
      have := eq_of_nodup_map' (fun nd : Net × Dest => nd.2.id) h.ids (alookup_some_mem ha) (alookup_some_mem hb)
        (h1.trans h2.symm)
      exact (Prod.mk.inj this).1

theorem filterMap_map_sublist {α β γ : Type} (G : α → Option β) (kb : β → γ) (ka : α → γ)
    (hG : ∀ a b, G a = some b → kb b = ka a) (l : List α) :
    ((l.filterMap G).map kb).Sublist (l.map ka) := by
  induction l with
  | nil => simp
  | cons a l ih =>
    rw [List.filterMap_cons]
    cases h : G a with
    | none => simpa using List.Sublist.cons _ ih
    | some b => simpa [hG a b h] using ih

theorem loc_ids_nodup {c : Case} {g : Nat → Fam} {fl : Flags} (t : Table) (f : Fam)
    (h : RibInv c g fl f (t.rib f)) : ((famObs t f).loc.map (·.destId)).Nodup := by
  simp only [famObs]
  refine ((sortOn_perm _ _).map _).nodup_iff.mpr ?_
  rw [List.map_map, Rbgp.Rib.collect_eq]
  have : (((t.rib f).dests.filterMap (collectOf f none)).map
      ((fun l : LocObs => l.destId) ∘ fun (ch : Change) =>
        ({ net := ch.net, destId := ch.destId, ecmp := ecmpCount t.flags ch.net.t2 ch.paths,
           paths := ch.paths.map Entry.ref } : LocObs))).Sublist ((t.rib f).dests.map (·.2.id)) := by
    apply filterMap_map_sublist
    intro nd ch hc
    rw [(collectOf_some hc).2]; rfl
  exact List.Nodup.sublist this h.ids

theorem famObs_fam (t : Table) (f : Fam) : (famObs t f).fam = f := rfl

theorem checkFam_ok {c : Case} {g : Nat → Fam} {t : Table} {st : St} (hrel : Rel t st) (hinv : Inv c g t)
    (f : Fam) : checkFam st (famObs t f) = none := by
  apply checkFam_none
  rw [famObs_fam]
  intro hd ho
  have hd' : (t.rib f).deferring = false := by
    cases hx : (t.rib f).deferring with
    | false => rfl
    | true =>
      have := (hrel.defr f).mpr hx
      rw [List.contains_iff_mem.mpr this] at hd; exact absurd hd (by simp)
  have ho' : f ∉ st.outside := by
    intro hm; rw [List.contains_iff_mem.mpr hm] at ho; exact absurd ho (by simp)
  have FR := hrel.fam f ho'
  rw [vis_of_not_deferring hd'] at FR
  have hR := hinv.rib f
  -- a stored prefix has exportable paths
  have hloc : ∀ n, t.elig f n ≠ [] → ∃ l ∈ (famObs t f).loc, l.net = n := by
    intro n hne
    have := famObs_loc_find t f hR n
    obtain ⟨i, hi⟩ := destId_some_of_elig hne
    rw [isEmpty_false_of_ne hne, hi] at this
    simp only [Bool.false_eq_true, if_false, Option.map_some] at this
    exact ⟨_, List.mem_of_find?_eq_some this, by simpa using List.find?_some this⟩
  refine ⟨loc_ids_nodup t f hR, ?_, ?_, ?_, ?_, ?_⟩
  · apply nodup_map_of_inj
    · exact List.Nodup.sublist List.filter_sublist (nodup_of_map _ hrel.wfFull)
    · intro a ha b hb hab
      obtain ⟨ha1, ha2⟩ := List.mem_filter.mp ha
      obtain ⟨hb1, hb2⟩ := List.mem_filter.mp hb
      obtain ⟨⟨fa, na⟩, ⟨ia, pa⟩⟩ := a
      obtain ⟨⟨fb, nb⟩, ⟨ib, pb⟩⟩ := b
      simp only [beq_iff_eq] at ha2 hb2 hab
      rw [ha2] at ha1 ⊢; rw [hb2] at hb1 ⊢
      rw [hab] at ha1 ⊢
      have va := vGet_of_mem hrel.wfFull ha1
      have vb := vGet_of_mem hrel.wfFull hb1
      have key : ∀ {n i ps}, vGet (f, n) st.full = some (i, ps) → t.destId f n = some i := by
        intro n i ps hv
        rw [FR.full n] at hv
        by_cases he : (t.elig f n).isEmpty = true
        · rw [if_pos he] at hv; exact absurd hv (by simp)
        · rw [if_neg he] at hv
          cases hD : t.destId f n with
          | none => rw [hD] at hv; exact absurd hv (by simp)
          | some j =>
            rw [hD] at hv
            simp only [Option.map_some, Option.some.injEq, Prod.mk.injEq] at hv
            rw [hv.1]
      have hn : na = nb := destId_inj hR (key va) (key vb)
      subst hn
      rw [va] at vb
      simp only [Option.some.injEq, Prod.mk.injEq] at vb
      rw [vb.2]
  · intro l hl
    obtain ⟨nd, hnd, hne, rfl⟩ := famObs_loc_mem t f hl
    obtain ⟨hE, hD⟩ := elig_of_mem hR.keys hnd
    have hne' : t.elig f nd.1 ≠ [] := by rw [hE]; exact hne
    have h1 := FR.full nd.1
    rw [isEmpty_false_of_ne hne', hD] at h1
    simp only [Bool.false_eq_true, if_false, Option.map_some] at h1
    have h2 := FR.add nd.1
    rw [isEmpty_false_of_ne hne'] at h2
    simp only [Bool.false_eq_true, if_false] at h2
    cases hb : vGet (f, nd.1) st.bestOnly with
    | none => exact absurd ((FR.bestNone nd.1).mp hb) hne'
    | some bv =>
      cases ha : vGet (f, nd.1) st.addPath with
      | none => rw [ha] at h2; exact absurd h2 (by simp)
      | some av =>
        rw [ha] at h2
        simp only [Option.map_some, Option.some.injEq] at h2
        refine ⟨nd.2.id, bv.1, av.1, bv.2, ?_, hb, ?_, ?_⟩
        · show vGet (f, nd.1) st.full = some (nd.2.id, (nd.2.entries.filter Entry.eligible).map Entry.ref)
          rw [h1, hE]
        · rw [FR.bestId nd.1 bv hb, hE]; exact (bestIdent_ref _).symm
        · show vGet (f, nd.1) st.addPath = some (av.1, (nd.2.entries.filter Entry.eligible).map Entry.ref)
          rw [ha, ← hE, ← h2]
  · apply viewSubset_of
    intro kv hkv hf
    obtain ⟨⟨f', n⟩, v⟩ := kv
    simp only at hf; subst hf
    have hv := vGet_of_mem hrel.wfFull hkv
    apply hloc n
    intro he
    rw [FR.full n, he] at hv
    exact absurd hv (by simp)
  · apply viewSubset_of
    intro kv hkv hf
    obtain ⟨⟨f', n⟩, v⟩ := kv
    simp only at hf; subst hf
    have hv := vGet_of_mem hrel.wfBest hkv
    apply hloc n
    intro he
    rw [(FR.bestNone n).mpr he] at hv
    exact absurd hv (by simp)
  · apply viewSubset_of
    intro kv hkv hf
    obtain ⟨⟨f', n⟩, v⟩ := kv
    simp only at hf; subst hf
    have hv := vGet_of_mem hrel.wfAdd hkv
    apply hloc n
    intro he
    have := FR.add n
    rw [hv, he] at this
    exact absurd this (by simp)

/-! ## `checkStep`, unfolded -/

def defr2 (op : Op) (l : List Fam) : List Fam :=
  match op with
  | .startDeferral f => f :: l.erase f
  | .endDeferral f => l.erase f
  | _ => l

def out2 (op : Op) (st : St) (fams : List FamObs) : List Fam :=
  match op with
  | .startDeferral f =>
      if hasFam st.full f || !(famLoc fams f).isEmpty then f :: st.outside.erase f else st.outside
  | _ => st.outside

def endOk (op : Op) (s : StepObs) : Option String :=
  match op with
  | .endDeferral f =>
      if (famLoc s.fams f).all fun l => (changesOf s.res).any fun c =>
          c.fam = f ∧ c.net = l.net ∧ c.paths = l.paths ∧ c.best ∧ c.any
      then none else some "end-of-deferral-misses-prefix"
  | _ => none

def st2Of (st : St) (op : Op) (s : StepObs) : St :=
  { full := (changesOf s.res).foldl apply st.full
    bestOnly := ((changesOf s.res).filter (·.best)).foldl apply st.bestOnly
    addPath := ((changesOf s.res).filter (·.any)).foldl apply st.addPath
    deferring := defr2 op st.deferring
    outside := out2 op st s.fams }

theorem checkStep_eq (st : St) (op : Op) (s : StepObs) :
    checkStep st op s =
      (st2Of st op s, (endOk op s).orElse fun _ => firstSome (checkFam (st2Of st op s)) s.fams) := by
  cases op <;> rfl

theorem fam_beq {a b : Fam} : (a == b) = true ↔ a = b := by
  cases a <;> cases b <;> simp

theorem mem_defr2 (op : Op) {l : List Fam} (hn : l.Nodup) (f : Fam) :
    f ∈ defr2 op l ↔ (op.isStartDeferral f = true ∨ (op.isEndDeferral f = false ∧ f ∈ l)) := by
  cases op with
  | startDeferral f0 =>
    simp only [defr2, Op.isStartDeferral, Op.isEndDeferral, List.mem_cons, fam_beq, true_and]
    by_cases h : f = f0
    · subst h; simp
    · rw [List.mem_erase_of_ne h]
      constructor
      · rintro (h1 | h1)
        · exact absurd h1 h
        · exact Or.inr h1
      · rintro (h1 | h1)
        · exact absurd h1.symm h
        · exact Or.inr h1
  | endDeferral f0 =>
    simp only [defr2, Op.isStartDeferral, Op.isEndDeferral, hn.mem_erase_iff, Bool.false_eq_true, false_or]
    constructor
    · rintro ⟨h1, h2⟩
      refine ⟨?_, h2⟩
      cases hb : f0 == f
      · rfl
      · exact absurd (fam_beq.mp hb).symm h1
    · rintro ⟨h1, h2⟩
      refine ⟨fun e => ?_, h2⟩
      subst e
      have : (f == f) = true := fam_beq.mpr rfl
      rw [this] at h1; exact absurd h1 (by simp)
  | _ => simp [defr2, Op.isStartDeferral, Op.isEndDeferral]

theorem nodup_defr2 (op : Op) {l : List Fam} (hn : l.Nodup) : (defr2 op l).Nodup := by
  cases op with
  | startDeferral f0 =>
    simp only [defr2, List.nodup_cons]
    refine ⟨?_, hn.erase f0⟩
    rw [hn.mem_erase_iff]
    exact fun h => h.1 rfl
  | endDeferral f0 => exact hn.erase f0
  | _ => exact hn

theorem not_mem_out2 {op : Op} {st : St} {fams : List FamObs} {f : Fam} (h : f ∉ out2 op st fams) :
    f ∉ st.outside ∧ (op.isStartDeferral f = true → hasFam st.full f = false ∧ (famLoc fams f).isEmpty = true) := by
  cases op with
  | startDeferral f0 =>
    simp only [out2] at h
    simp only [Op.isStartDeferral, fam_beq]
    by_cases hc : (hasFam st.full f0 || !(famLoc fams f0).isEmpty) = true
    · rw [if_pos hc] at h
      simp only [List.mem_cons, not_or] at h
      refine ⟨?_, fun e => absurd e.symm h.1⟩
      intro hm
      exact h.2 ((List.mem_erase_of_ne h.1).mpr hm)
    · rw [if_neg hc] at h
      refine ⟨h, fun e => ?_⟩
      subst e
      simp only [Bool.or_eq_true, Bool.not_eq_true', not_or, Bool.not_eq_true, Bool.not_eq_false] at hc
      exact hc
  | _ => exact ⟨h, fun e => by simp [Op.isStartDeferral] at e⟩

theorem start_not_end {op : Op} {f : Fam} (h : op.isStartDeferral f = true) : op.isEndDeferral f = false := by
  cases op <;> simp [Op.isStartDeferral, Op.isEndDeferral] at h ⊢

theorem famLoc_obs (t : Table) (f : Fam) : famLoc (allFams.map (famObs t)) f = (famObs t f).loc := by
  cases f <;> simp [famLoc, allFams, famObs_fam]

theorem elig_nil_of_loc_nil {c : Case} {g : Nat → Fam} {t : Table} {f : Fam}
    (hR : RibInv c g t.flags f (t.rib f)) (h : (famObs t f).loc = []) (n : Net) : t.elig f n = [] := by
  apply Classical.byContradiction
  intro hne
  have := famObs_loc_find t f hR n
  obtain ⟨i, hi⟩ := destId_some_of_elig hne
  rw [isEmpty_false_of_ne hne, hi, h] at this
  simp at this

theorem hasFam_false {m : View} {f : Fam} (h : hasFam m f = false) (n : Net) : vGet (f, n) m = none := by
  cases hv : vGet (f, n) m with
  | none => rfl
  | some v =>
    have := vGet_some_mem hv
    have : hasFam m f = true := List.any_eq_true.mpr ⟨_, this, by simp⟩
    rw [h] at this; exact absurd this (by simp)

/-! ## one step -/

theorem endOk_none {c : Case} {g : Nat → Fam} {t t' : Table} {op : Op} {r : Res}
    (hinv' : Inv c g t') (hf : StepFacts t op t' r) : endOk op (stepObs c (t', r)) = none := by
  cases op with
  | endDeferral f0 =>
    show (if (famLoc (allFams.map (famObs t')) f0).all fun l => (changesOf (r.obs t'.flags)).any fun c =>
          c.fam = f0 ∧ c.net = l.net ∧ c.paths = l.paths ∧ c.best ∧ c.any
      then none else some "end-of-deferral-misses-prefix") = none
    rw [if_pos]
    rw [famLoc_obs, List.all_eq_true]
    intro l hl
    obtain ⟨nd, hnd, hne, rfl⟩ := famObs_loc_mem t' f0 hl
    obtain ⟨hE, -⟩ := elig_of_mem (hinv'.rib f0).keys hnd
    have hne' : t'.elig f0 nd.1 ≠ [] := by rw [hE]; exact hne
    have hend : (Op.endDeferral f0).isEndDeferral f0 = true := fam_beq.mpr rfl
    obtain ⟨ch, hch, h1, h2, h3, h4⟩ := hf.endDeferral f0 hend nd.1 hne'
    have hp := changesOf_obs_perm t'.flags r
    have hmem : ch.obs t'.flags ∈ changesOf (r.obs t'.flags) :=
      hp.mem_iff.mpr (List.mem_map.mpr ⟨ch, hch, rfl⟩)
    refine List.any_eq_true.mpr ⟨_, hmem, ?_⟩
    have hpaths : ch.paths = nd.2.entries.filter Entry.eligible := by
      rw [hf.exact ch hch, h1, h2, hE]
    simp only [decide_eq_true_eq]
    refine ⟨h1, h2, ?_, h3, h4⟩
    show ch.paths.map Entry.ref = (nd.2.entries.filter Entry.eligible).map Entry.ref
    rw [hpaths]
  | _ => rfl

theorem step_rel {c : Case} {g : Nat → Fam} {t t' : Table} {op : Op} {r : Res} {st : St}
    (hrel : Rel t st) (hinv' : Inv c g t') (hf : StepFacts t op t' r) :
    Rel t' (st2Of st op (stepObs c (t', r))) := by
  have hp := changesOf_obs_perm t'.flags r
  refine ⟨?_, nodup_defr2 op hrel.defNodup, wf_foldl _ hrel.wfFull, wf_foldl _ hrel.wfBest,
    wf_foldl _ hrel.wfAdd, ?_⟩
  · intro f
    show f ∈ defr2 op st.deferring ↔ _
    rw [mem_defr2 op hrel.defNodup, hf.deferring f, hrel.defr f]
    cases h1 : op.isStartDeferral f <;> cases h2 : op.isEndDeferral f <;> simp
  · intro f hout
    obtain ⟨ho, hstart⟩ := not_mem_out2 hout
    have FR := hrel.fam f ho
    have hdef := hf.deferring f
    show FamRel (vis t' f) (t'.destId f) ((changesOf (r.obs t'.flags)).foldl apply st.full)
      (((changesOf (r.obs t'.flags)).filter (·.best)).foldl apply st.bestOnly)
      (((changesOf (r.obs t'.flags)).filter (·.any)).foldl apply st.addPath) f
    cases hd' : (t'.rib f).deferring with
    | false =>
      rw [vis_of_not_deferring hd']
      refine FR.step hp hf.nets ?_ ?_ ?_ ?_ ?_
      · intro ch hch hcf
        rw [hf.exact ch hch, hcf]
      · intro ch hch hcf hne
        rcases hf.idNew ch hch with h | h
        · rw [← hcf]; exact h
        · rw [hcf] at h
          exact absurd (elig_nil_of_destId_none h.1) hne
      · intro n h1 h2
        have hd0 : (t.rib f).deferring = false := by
          cases hx : (t.rib f).deferring with
          | false => rfl
          | true => exact absurd (vis_of_deferring hx n) h1
        rw [vis_of_not_deferring hd0] at h1
        obtain ⟨i, hi⟩ := destId_some_of_elig h1
        rcases hf.idStable f n i hi with h | h
        · rw [h, hi]
        · exact absurd (elig_nil_of_destId_none h) h2
      · intro n hne
        cases hd0 : (t.rib f).deferring with
        | false =>
          rw [vis_of_not_deferring hd0] at hne
          exact hf.completeAny f n hd0 hne
        | true =>
          rw [vis_of_deferring hd0] at hne
          have hend : op.isEndDeferral f = true := by
            rw [hd', hd0] at hdef
            cases h1 : op.isStartDeferral f <;> cases h2 : op.isEndDeferral f <;> simp [h1, h2] at hdef ⊢
          obtain ⟨ch, hch, h1, h2, -, h4⟩ := hf.endDeferral f hend n (Ne.symm hne)
          exact ⟨ch, hch, h1, h2, h4⟩
      · intro n hne
        cases hd0 : (t.rib f).deferring with
        | false =>
          rw [vis_of_not_deferring hd0] at hne
          exact hf.completeBest f n hd0 hne
        | true =>
          rw [vis_of_deferring hd0] at hne
          have hend : op.isEndDeferral f = true := by
            rw [hd', hd0] at hdef
            cases h1 : op.isStartDeferral f <;> cases h2 : op.isEndDeferral f <;> simp [h1, h2] at hdef ⊢
          have hne' : t'.elig f n ≠ [] := by
            intro e; rw [e] at hne; exact hne rfl
          obtain ⟨ch, hch, h1, h2, h3, -⟩ := hf.endDeferral f hend n hne'
          exact ⟨ch, hch, h1, h2, h3⟩
    | true =>
      have hE' : vis t' f = fun _ => [] := by funext n; exact vis_of_deferring hd' n
      rw [hE']
      -- before the step the consumers saw nothing of this family, and nothing is announced
      have hpre : (∀ n, vis t f n = []) ∧ ∀ ch ∈ r.chs, ch.fam = f → ch.paths = [] := by
        cases hd0 : (t.rib f).deferring with
        | true =>
          refine ⟨vis_of_deferring hd0, ?_⟩
          have hend : op.isEndDeferral f = false := by
            rw [hd', hd0] at hdef
            cases h1 : op.isStartDeferral f with
            | true => exact start_not_end h1
            | false =>
              cases h2 : op.isEndDeferral f with
              | false => rfl
              | true => simp [h1, h2] at hdef
          intro ch hch hcf
          exact absurd hcf (hf.silent f hd0 hend ch hch)
        | false =>
          have hst : op.isStartDeferral f = true := by
            rw [hd', hd0] at hdef
            cases h1 : op.isStartDeferral f <;> cases h2 : op.isEndDeferral f <;> simp [h1, h2] at hdef ⊢
          obtain ⟨hh, hl⟩ := hstart hst
          have hl' : (famObs t' f).loc = [] := by
            have : famLoc (stepObs c (t', r)).fams f = (famObs t' f).loc := famLoc_obs t' f
            rw [this] at hl
            exact List.isEmpty_iff.mp hl
          constructor
          · intro n
            rw [vis_of_not_deferring hd0]
            have h1 := FR.full n
            rw [hasFam_false hh n, vis_of_not_deferring hd0] at h1
            apply Classical.byContradiction
            intro hne
            obtain ⟨i, hi⟩ := destId_some_of_elig hne
            rw [isEmpty_false_of_ne hne, hi] at h1
            simp at h1
          · intro ch hch hcf
            rw [hf.exact ch hch, hcf]
            exact elig_nil_of_loc_nil (hinv'.rib f) hl' _
      refine FR.step hp hf.nets ?_ ?_ ?_ ?_ ?_
      · intro ch hch hcf; exact hpre.2 ch hch hcf
      · intro ch _ _ hne; exact absurd rfl hne
      · intro n _ hne; exact absurd rfl hne
      · intro n hne; exact absurd (hpre.1 n) hne
      · intro n hne; rw [hpre.1 n] at hne; exact absurd rfl hne

theorem checkStep_ok {c : Case} {g : Nat → Fam} {t t' : Table} {op : Op} {r : Res} {st : St}
    (hrel : Rel t st) (hinv' : Inv c g t') (hf : StepFacts t op t' r) :
    checkStep st op (stepObs c (t', r)) = (st2Of st op (stepObs c (t', r)), none) ∧
      Rel t' (st2Of st op (stepObs c (t', r))) := by
  have hrel' := step_rel (c := c) hrel hinv' hf
  refine ⟨?_, hrel'⟩
  rw [checkStep_eq, endOk_none hinv' hf]
  congr 1
  show firstSome (checkFam _) (allFams.map (famObs t')) = none
  apply firstSome_none
  intro fo hfo
  obtain ⟨f, -, rfl⟩ := List.mem_map.mp hfo
  exact checkFam_ok hrel' hinv' f

/-! ## the run -/

theorem rel_empty : Rel {} {} where
  defr f := by cases f <;> simp [Table.rib]
  defNodup := List.nodup_nil
  wfFull := List.nodup_nil
  wfBest := List.nodup_nil
  wfAdd := List.nodup_nil
  fam f _ := by
    have hE : ∀ n, vis {} f n = [] := by
      intro n; unfold vis Table.elig; cases f <;> simp [Table.rib, alookup]
    refine ⟨?_, ?_, ?_, ?_⟩
    · intro n; rw [hE n]; rfl
    · intro n; rw [hE n]; rfl
    · intro n; rw [hE n]; simp [vGet]
    · intro n v hv; simp [vGet] at hv

theorem checkSteps_ok (hS : AllSound) {c : Case} {g : Nat → Fam} (p : Profile) (ops : List Op)
    (hops : ∀ op ∈ ops, op.WF c g) (t : Table) (hinv : Inv c g t) (st : St) (hrel : Rel t st) (i : Nat) :
    checkSteps i st ops ((runFrom p t ops).1.map (stepObs c)) = .ok := by
  induction ops generalizing t st i with
  | nil => rfl
  | cons op ops ih =>
    obtain ⟨t', r, _, hrun, hinv', hf, _⟩ := run_step hS p ops (hops op List.mem_cons_self) hinv
    rw [hrun]
    simp only [List.map_cons]
    obtain ⟨h1, h2⟩ := checkStep_ok (c := c) hrel hinv' hf
    simp only [checkSteps, h1]
    exact ih (fun o ho => hops o (List.mem_cons_of_mem _ ho)) t' hinv' _ h2 (i + 1)

/-- **C06 master theorem**: the reference checker accepts the observation of every model run of a
    well-formed case. -/
theorem check_run_ok (hS : AllSound) {c : Case} {g : Nat → Fam} (p : Profile) (h : c.WFWith g) :
    SpecC06.check c (observe p c) = .ok := by
  have h1 := checkSteps_ok hS p c.ops h {} (inv_empty c g) {} rel_empty 0
  have h2 := runFrom_no_panic hS p c.ops h {} (inv_empty c g)
  unfold SpecC06.check observe run
  simp only [h1, h2]
  rfl

end Rbgp.Rib.C06
