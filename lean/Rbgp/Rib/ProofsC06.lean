/-
  Rbgp.Rib.ProofsC06 — the C06 master theorem: the reference checker `SpecC06.check` accepts the
  observation of every model run of a well-formed case (given soundness of every operation and of
  the reference path set).  Helper lemmas; the readable statements are in PropsC06.lean.
-/
import Rbgp.Rib.Run
import Rbgp.Rib.ObsFacts
import Rbgp.Rib.SpecC06
import Rbgp.Rib.GoodDef
namespace Rbgp.Rib.C06
open Rbgp.Rib Rbgp.Rib.SpecC06

/-! ## views -/

def ViewWF (m : View) : Prop := (m.map (·.1)).Nodup

theorem vErase_keys_sublist (k : Fam × Nat) (m : View) : ((vErase k m).map (·.1)).Sublist (m.map (·.1)) := by
  induction m with
  | nil => simp [vErase]
  | cons x m ih =>
    obtain ⟨k', v⟩ := x
    by_cases h : k' = k
    · simp only [vErase, h, if_true, List.map_cons]; exact List.Sublist.cons _ ih
    · simp only [vErase, h, if_false, List.map_cons]; exact List.Sublist.cons_cons _ ih

theorem not_mem_vErase_keys (k : Fam × Nat) (m : View) : k ∉ (vErase k m).map (·.1) := by
  induction m with
  | nil => simp [vErase]
  | cons x m ih =>
    obtain ⟨k', v⟩ := x
    by_cases h : k' = k
    · simp only [vErase, h, if_true]; exact ih
    · simp only [vErase, h, if_false, List.map_cons, List.mem_cons, not_or]
      exact ⟨fun e => h e.symm, ih⟩

theorem vGet_vErase_self (k : Fam × Nat) (m : View) : vGet k (vErase k m) = none := by
  induction m with
  | nil => rfl
  | cons x m ih =>
    obtain ⟨k', v⟩ := x
    by_cases h : k' = k
    · simp only [vErase, h, if_true]; exact ih
    · simp only [vErase, h, if_false, vGet]; exact ih

theorem vGet_vErase_ne {k k' : Fam × Nat} (h : k ≠ k') (m : View) : vGet k' (vErase k m) = vGet k' m := by
  induction m with
  | nil => rfl
  | cons x m ih =>
    obtain ⟨k'', v⟩ := x
    by_cases h1 : k'' = k
    · have h2 : ¬ k'' = k' := fun e => h (h1.symm.trans e)
      simp only [vErase, h1, if_true, vGet]
      rw [if_neg (fun e => h e), ih]
    · by_cases h2 : k'' = k'
      · subst h2; simp only [vErase, h1, if_false, vGet, if_true]
      · simp only [vErase, h1, if_false, vGet, h2, ih]

def okey (c : ChangeObs) : Fam × Nat := (c.fam, c.destId)
def oval (c : ChangeObs) : Option (Net × List PathRef) :=
  if c.paths.isEmpty then none else some (c.net, c.paths)

theorem vGet_apply (m : View) (c : ChangeObs) (k : Fam × Nat) :
    vGet k (apply m c) = if okey c = k then oval c else vGet k m := by
  unfold apply oval
  by_cases hk : okey c = k
  · rw [if_pos hk]
    by_cases he : c.paths.isEmpty = true
    · rw [if_pos he, if_pos he]; rw [← hk]; exact vGet_vErase_self _ m
    · rw [if_neg he, if_neg he]; rw [← hk]; simp [vSet, vGet, okey]
  · rw [if_neg hk]
    by_cases he : c.paths.isEmpty = true
    · rw [if_pos he]; exact vGet_vErase_ne hk m
    · rw [if_neg he]
      have : ¬ (c.fam, c.destId) = k := hk
      simp only [vSet, vGet, this, if_false]
      exact vGet_vErase_ne hk m

theorem wf_apply {m : View} (h : ViewWF m) (c : ChangeObs) : ViewWF (apply m c) := by
  unfold apply
  split
  · exact List.Nodup.sublist (vErase_keys_sublist _ m) h
  · unfold ViewWF vSet
    simp only [List.map_cons, List.nodup_cons]
    exact ⟨not_mem_vErase_keys _ m, List.Nodup.sublist (vErase_keys_sublist _ m) h⟩

theorem wf_foldl (L : List ChangeObs) {m : View} (h : ViewWF m) : ViewWF (L.foldl apply m) := by
  induction L generalizing m with
  | nil => exact h
  | cons c L ih => exact ih (wf_apply h c)

theorem vGet_foldl_miss (L : List ChangeObs) (m : View) (k : Fam × Nat) (h : ∀ c ∈ L, okey c ≠ k) :
    vGet k (L.foldl apply m) = vGet k m := by
  induction L generalizing m with
  | nil => rfl
  | cons c L ih =>
    rw [List.foldl_cons, ih _ fun c' hc' => h c' (List.mem_cons_of_mem _ hc'), vGet_apply,
      if_neg (h c List.mem_cons_self)]

/-- notifications with the same key carry the same payload -/
def Consistent (L : List ChangeObs) : Prop := ∀ a ∈ L, ∀ b ∈ L, okey a = okey b → oval a = oval b

theorem Consistent.tail {a : ChangeObs} {L : List ChangeObs} (h : Consistent (a :: L)) : Consistent L :=
  fun x hx y hy => h x (List.mem_cons_of_mem _ hx) y (List.mem_cons_of_mem _ hy)

theorem Consistent.of_subset {L L' : List ChangeObs} (h : Consistent L) (hs : ∀ x ∈ L', x ∈ L) : Consistent L' :=
  fun x hx y hy => h x (hs x hx) y (hs y hy)

/-- folding notifications with consistent payloads: the value at a notified key is that payload,
    whatever the order -/
theorem vGet_foldl_hit (L : List ChangeObs) (m : View) (c : ChangeObs) (hc : Consistent L) (h : c ∈ L) :
    vGet (okey c) (L.foldl apply m) = oval c := by
  induction L generalizing m c with
  | nil => simp at h
  | cons a L ih =>
    rw [List.foldl_cons]
    by_cases hx : ∃ c' ∈ L, okey c' = okey c
    · obtain ⟨c', hc', hk⟩ := hx
      rw [← hk, ih _ c' hc.tail hc']
      exact hc c' (List.mem_cons_of_mem _ hc') c h hk
    · rw [vGet_foldl_miss L _ _ fun c' hc' e => hx ⟨c', hc', e⟩, vGet_apply]
      rcases List.mem_cons.mp h with rfl | h'
      · rw [if_pos rfl]
      · exact absurd ⟨c, h', rfl⟩ hx

theorem vGet_some_mem {k : Fam × Nat} {v : Net × List PathRef} {m : View} (h : vGet k m = some v) : (k, v) ∈ m := by
  induction m with
  | nil => simp [vGet] at h
  | cons x m ih =>
    obtain ⟨k', v'⟩ := x
    by_cases hk : k' = k
    · simp only [vGet, hk, if_true, Option.some.injEq] at h
      subst h; subst hk; exact List.mem_cons_self
    · simp only [vGet, hk, if_false] at h
      exact List.mem_cons_of_mem _ (ih h)

theorem vGet_of_mem {k : Fam × Nat} {v : Net × List PathRef} {m : View} (hw : ViewWF m) (h : (k, v) ∈ m) :
    vGet k m = some v := by
  induction m with
  | nil => simp at h
  | cons x m ih =>
    obtain ⟨k', v'⟩ := x
    unfold ViewWF at hw
    simp only [List.map_cons, List.nodup_cons] at hw
    rcases List.mem_cons.mp h with e | h'
    · cases e; simp [vGet]
    · have : k' ≠ k := by
        intro e; subst e; exact hw.1 (List.mem_map.mpr ⟨(k', v), h', rfl⟩)
      simp only [vGet, this, if_false]
      exact ih hw.2 h'

/-! ## dropping a family from a view -/

theorem vGet_dropFam_ne {f f' : Fam} (h : f ≠ f') (k : Nat) (m : View) :
    vGet (f, k) (dropFam m f') = vGet (f, k) m := by
  induction m with
  | nil => rfl
  | cons x m ih =>
    obtain ⟨⟨fx, kx⟩, v⟩ := x
    unfold dropFam at ih ⊢
    by_cases hfx : fx = f'
    · have hk : ¬ (fx, kx) = (f, k) := fun e => h ((Prod.mk.inj e).1.symm.trans hfx)
      have hb : (fx != f') = false := by simp [hfx]
      simp only [List.filter_cons, hb, vGet, hk, if_false, Bool.false_eq_true]
      exact ih
    · have : (fx != f') = true := by simpa using hfx
      simp only [List.filter_cons, this, if_true, vGet]
      rw [ih]

theorem vGet_dropFam_self (f : Fam) (k : Nat) (m : View) : vGet (f, k) (dropFam m f) = none := by
  cases h : vGet (f, k) (dropFam m f) with
  | none => rfl
  | some v =>
    have := vGet_some_mem h
    unfold dropFam at this
    have := (List.mem_filter.mp this).2
    simp at this

theorem wf_dropFam {m : View} (h : ViewWF m) (f : Fam) : ViewWF (dropFam m f) :=
  List.Nodup.sublist (List.Sublist.map _ List.filter_sublist) h

/-! ## the observed notifications -/

theorem changesOf_obs_perm (sh : Nat) (fl : Flags) (r : Res) :
    (changesOf (r.obs sh fl)).Perm (r.chs.map (Change.obs sh fl)) := by
  cases r with
  | unit => exact List.Perm.refl _
  | noChange => exact List.Perm.refl _
  | limit => exact List.Perm.refl _
  | changed c => exact List.Perm.refl _
  | removed oc => cases oc <;> exact List.Perm.refl _
  | changes cs => exact sortOn_perm _ _

theorem packId_inj {sh a b : Nat} (h : packId sh a = packId sh b) : a = b := by
  unfold packId at h; omega

theorem oval_obs (sh : Nat) (fl : Flags) (ch : Change) :
    oval (ch.obs sh fl) = if ch.paths.isEmpty then none else some (ch.net, ch.paths.map Entry.ref) := by
  unfold oval Change.obs
  cases ch.paths <;> rfl

theorem okey_obs (sh : Nat) (fl : Flags) (ch : Change) : okey (ch.obs sh fl) = (ch.fam, packId sh ch.destId) := rfl

theorem isEmpty_false_of_ne {α} {l : List α} (h : l ≠ []) : l.isEmpty = false := by
  cases l with
  | nil => exact absurd rfl h
  | cons _ _ => rfl

theorem bestIdent_ref (es : List Entry) : bestIdent (es.map Entry.ref) = identOf es := by
  cases es <;> rfl

theorem identOf_eq_none {es : List Entry} : identOf es = none ↔ es = [] := by
  cases es <;> simp [identOf]

/-! ## what a consumer holds for one family -/

/-- The view agrees with exportable lists `E` and identifiers `D` of family `f`: it holds exactly
    the destinations with a non-empty exportable list, under their packed identifier, with a good
    payload. -/
structure ViewRel (sh : Nat) (Good : Net → Net × List PathRef → Prop) (E : Net → List Entry)
    (D : Net → Option Nat) (view : View) (f : Fam) : Prop where
  sound : ∀ k v, vGet (f, k) view = some v → ∃ n i, D n = some i ∧ k = packId sh i ∧ E n ≠ [] ∧ Good n v
  complete : ∀ n i, D n = some i → E n ≠ [] → ∃ v, vGet (f, packId sh i) view = some v

theorem ViewRel.congr {sh : Nat} {Good : Net → Net × List PathRef → Prop} {E : Net → List Entry}
    {D : Net → Option Nat} {view view2 : View} {f : Fam} (h : ViewRel sh Good E D view f)
    (he : ∀ k, vGet (f, k) view2 = vGet (f, k) view) : ViewRel sh Good E D view2 f :=
  ⟨fun k v hv => h.sound k v (he k ▸ hv), fun n i h1 h2 => by rw [he]; exact h.complete n i h1 h2⟩

/-- a view without entries of the family agrees with "nothing exportable" -/
theorem ViewRel.empty {sh : Nat} {Good : Net → Net × List PathRef → Prop} {D : Net → Option Nat} {view : View}
    {f : Fam} (h : ∀ k, vGet (f, k) view = none) : ViewRel sh Good (fun _ => []) D view f :=
  ⟨fun k v hv => by rw [h k] at hv; exact absurd hv (by simp), fun n i _ h2 => absurd rfl h2⟩

section step
variable {sh : Nat} {Good Good' : Net → Net × List PathRef → Prop} {E E' : Net → List Entry}
  {D D' : Net → Option Nat} {view : View} {f : Fam} {fl : Flags} {chs : List Change} {sel : Change → Bool}
  {Ls : List ChangeObs}

/-- one step of one fold (over the notifications selected by `sel`), for one family -/
theorem ViewRel.step (h : ViewRel sh Good E D view f)
    (hp : Ls.Perm ((chs.filter sel).map (Change.obs sh fl))) (hcons : Consistent Ls)
    (hex : ∀ ch ∈ chs, ch.fam = f → ch.paths = E' ch.net)
    (hid : ∀ ch ∈ chs, ch.fam = f →
      D' ch.net = some ch.destId ∨ (D' ch.net = none ∧ D ch.net = some ch.destId))
    (hstab : ∀ n i, D n = some i → D' n = some i ∨ D' n = none)
    (hinj' : ∀ n1 n2 i, D' n1 = some i → D' n2 = some i → n1 = n2)
    (hown : ∀ n n2 i, D n = some i → D' n2 = some i → n2 = n)
    (hED : ∀ n, E n ≠ [] → ∃ i, D n = some i) (hED' : ∀ n, E' n ≠ [] → ∃ i, D' n = some i)
    (hkeep : ∀ n, (∀ ch ∈ chs, sel ch = true → ¬ (ch.fam = f ∧ ch.net = n)) →
      (E n ≠ [] ↔ E' n ≠ []) ∧ ∀ v, E n ≠ [] → Good n v → Good' n v)
    (hGood' : ∀ n, E' n ≠ [] → Good' n (n, (E' n).map Entry.ref)) :
    ViewRel sh Good' E' D' (Ls.foldl apply view) f := by
  -- a notification of prefix n carries the identifier of n
  have A1 : ∀ ch ∈ chs, ch.fam = f → ∀ i, D ch.net = some i → ch.destId = i := by
    intro ch hch hcf i hi
    rcases hid ch hch hcf with h1 | ⟨_, h2⟩
    · rcases hstab ch.net i hi with h3 | h3
      · rw [h3] at h1; exact (Option.some.inj h1).symm
      · rw [h3] at h1; exact absurd h1 (by simp)
    · rw [hi] at h2; exact (Option.some.inj h2).symm
  have A2 : ∀ ch ∈ chs, ch.fam = f → ∀ i, D' ch.net = some i → ch.destId = i := by
    intro ch hch hcf i hi
    rcases hid ch hch hcf with h1 | ⟨h1, _⟩
    · rw [hi] at h1; exact (Option.some.inj h1).symm
    · rw [hi] at h1; exact absurd h1 (by simp)
  have B : ∀ ch ∈ chs, ch.fam = f → ∀ n2, D' n2 = some ch.destId → ch.net = n2 := by
    intro ch hch hcf n2 h2
    rcases hid ch hch hcf with h1 | ⟨_, h1⟩
    · exact hinj' _ _ _ h1 h2
    · exact (hown _ _ _ h1 h2).symm
  -- the value of the folded view at a key
  have hit : ∀ ch ∈ chs, sel ch = true → ch.fam = f →
      vGet (f, packId sh ch.destId) (Ls.foldl apply view) =
        if (E' ch.net).isEmpty then none else some (ch.net, (E' ch.net).map Entry.ref) := by
    intro ch hch hs hcf
    have hm : ch.obs sh fl ∈ Ls :=
      hp.mem_iff.mpr (List.mem_map.mpr ⟨ch, List.mem_filter.mpr ⟨hch, hs⟩, rfl⟩)
    have := vGet_foldl_hit Ls view _ hcons hm
    rw [okey_obs, oval_obs, hcf, hex ch hch hcf] at this
    exact this
  have miss : ∀ k, (∀ ch ∈ chs, sel ch = true → ch.fam = f → packId sh ch.destId ≠ k) →
      vGet (f, k) (Ls.foldl apply view) = vGet (f, k) view := by
    intro k hk
    apply vGet_foldl_miss
    intro c hc e
    obtain ⟨ch, hch, rfl⟩ := List.mem_map.mp (hp.mem_iff.mp hc)
    obtain ⟨h1, h2⟩ := List.mem_filter.mp hch
    rw [okey_obs] at e
    exact hk ch h1 h2 (Prod.mk.inj e).1 (Prod.mk.inj e).2
  constructor
  · intro k v hv
    by_cases hh : ∃ ch ∈ chs, sel ch = true ∧ ch.fam = f ∧ packId sh ch.destId = k
    · obtain ⟨ch, hch, hs, hcf, hk⟩ := hh
      rw [← hk, hit ch hch hs hcf] at hv
      by_cases he : E' ch.net = []
      · rw [he] at hv; exact absurd hv (by simp)
      · rw [isEmpty_false_of_ne he] at hv
        simp only [Bool.false_eq_true, if_false, Option.some.injEq] at hv
        obtain ⟨i, hi⟩ := hED' _ he
        have := A2 ch hch hcf i hi
        exact ⟨ch.net, ch.destId, this ▸ hi, hk.symm, he, hv ▸ hGood' _ he⟩
    · rw [miss k fun ch hch hs hcf e => hh ⟨ch, hch, hs, hcf, e⟩] at hv
      obtain ⟨n, i, h1, h2, h3, h4⟩ := h.sound k v hv
      have hno : ∀ ch ∈ chs, sel ch = true → ¬ (ch.fam = f ∧ ch.net = n) := by
        rintro ch hch hs ⟨hcf, hn⟩
        have := A1 ch hch hcf i (hn ▸ h1)
        exact hh ⟨ch, hch, hs, hcf, by rw [this, h2]⟩
      obtain ⟨g1, g2⟩ := hkeep n hno
      have he' := g1.mp h3
      obtain ⟨i', hi'⟩ := hED' n he'
      rcases hstab n i h1 with h5 | h5
      · exact ⟨n, i, h5, h2, he', g2 v h3 h4⟩
      · rw [h5] at hi'; exact absurd hi' (by simp)
  · intro n2 i2 h1 h2
    by_cases hh : ∃ ch ∈ chs, sel ch = true ∧ ch.fam = f ∧ packId sh ch.destId = packId sh i2
    · obtain ⟨ch, hch, hs, hcf, hk⟩ := hh
      have hd : ch.destId = i2 := packId_inj hk
      have hn : ch.net = n2 := B ch hch hcf n2 (hd ▸ h1)
      rw [← hk, hit ch hch hs hcf, hn, isEmpty_false_of_ne h2]
      exact ⟨_, rfl⟩
    · rw [miss _ fun ch hch hs hcf e => hh ⟨ch, hch, hs, hcf, e⟩]
      have hno : ∀ ch ∈ chs, sel ch = true → ¬ (ch.fam = f ∧ ch.net = n2) := by
        rintro ch hch hs ⟨hcf, hn⟩
        have := A2 ch hch hcf i2 (hn ▸ h1)
        exact hh ⟨ch, hch, hs, hcf, by rw [this]⟩
      obtain ⟨g1, _⟩ := hkeep n2 hno
      have he := g1.mpr h2
      obtain ⟨j, hj⟩ := hED n2 he
      rcases hstab n2 j hj with h5 | h5
      · rw [h1] at h5
        have : i2 = j := Option.some.inj h5
        exact h.complete n2 i2 (this ▸ hj) he
      · rw [h1] at h5; exact absurd h5 (by simp)

end step

/-- payload of the full and of the add-path consumer -/
def GoodFull (E : Net → List Entry) (n : Net) (v : Net × List PathRef) : Prop := v = (n, (E n).map Entry.ref)
/-- payload of the best-only consumer: right prefix, right best path -/
def GoodBest (E : Net → List Entry) (n : Net) (v : Net × List PathRef) : Prop :=
  v.1 = n ∧ bestIdent v.2 = identOf (E n)

/-- The three views of family `f` agree with exportable lists `E` and identifiers `D`. -/
structure FamRel (sh : Nat) (E : Net → List Entry) (D : Net → Option Nat) (full best add : View) (f : Fam) : Prop where
  full : ViewRel sh (GoodFull E) E D full f
  best : ViewRel sh (GoodBest E) E D best f
  add : ViewRel sh (GoodFull E) E D add f

theorem filter_true' {α} (l : List α) : l.filter (fun _ => true) = l := by
  induction l with
  | nil => rfl
  | cons a l ih => rw [List.filter_cons, if_pos rfl, ih]

/-- one step of the three folds, for one family -/
theorem FamRel.step {sh : Nat} {E E' : Net → List Entry} {D D' : Net → Option Nat} {full best add : View} {f : Fam}
    {fl : Flags} {chs : List Change} {L : List ChangeObs}
    (h : FamRel sh E D full best add f)
    (hp : L.Perm (chs.map (Change.obs sh fl))) (hcons : Consistent L)
    (hex : ∀ ch ∈ chs, ch.fam = f → ch.paths = E' ch.net)
    (hid : ∀ ch ∈ chs, ch.fam = f →
      D' ch.net = some ch.destId ∨ (D' ch.net = none ∧ D ch.net = some ch.destId))
    (hstab : ∀ n i, D n = some i → D' n = some i ∨ D' n = none)
    (hinj' : ∀ n1 n2 i, D' n1 = some i → D' n2 = some i → n1 = n2)
    (hown : ∀ n n2 i, D n = some i → D' n2 = some i → n2 = n)
    (hED : ∀ n, E n ≠ [] → ∃ i, D n = some i) (hED' : ∀ n, E' n ≠ [] → ∃ i, D' n = some i)
    (hany : ∀ n, E n ≠ E' n → ∃ ch ∈ chs, ch.fam = f ∧ ch.net = n ∧ ch.any = true)
    (hbest : ∀ n, identOf (E n) ≠ identOf (E' n) → ∃ ch ∈ chs, ch.fam = f ∧ ch.net = n ∧ ch.best = true) :
    FamRel sh E' D' (L.foldl apply full) ((L.filter (·.best)).foldl apply best)
      ((L.filter (·.any)).foldl apply add) f := by
  have hpb : (L.filter (·.best)).Perm ((chs.filter (·.best)).map (Change.obs sh fl)) := by
    have := hp.filter (·.best); rw [List.filter_map] at this; exact this
  have hpa : (L.filter (·.any)).Perm ((chs.filter (·.any)).map (Change.obs sh fl)) := by
    have := hp.filter (·.any); rw [List.filter_map] at this; exact this
  have hpf : L.Perm ((chs.filter fun _ => true).map (Change.obs sh fl)) := by rw [filter_true']; exact hp
  have hcb : Consistent (L.filter (·.best)) := hcons.of_subset fun x hx => (List.mem_filter.mp hx).1
  have hca : Consistent (L.filter (·.any)) := hcons.of_subset fun x hx => (List.mem_filter.mp hx).1
  have hEq : ∀ n, (∀ ch ∈ chs, ch.any = true → ¬ (ch.fam = f ∧ ch.net = n)) → E n = E' n := by
    intro n hno
    apply Classical.byContradiction
    intro hne
    obtain ⟨ch, hch, h1, h2, h3⟩ := hany n hne
    exact hno ch hch h3 ⟨h1, h2⟩
  have hId : ∀ n, (∀ ch ∈ chs, ch.best = true → ¬ (ch.fam = f ∧ ch.net = n)) → identOf (E n) = identOf (E' n) := by
    intro n hno
    apply Classical.byContradiction
    intro hne
    obtain ⟨ch, hch, h1, h2, h3⟩ := hbest n hne
    exact hno ch hch h3 ⟨h1, h2⟩
  refine ⟨?_, ?_, ?_⟩
  · refine h.full.step hpf hcons hex hid hstab hinj' hown hED hED' ?_ (fun n _ => rfl)
    intro n hno
    have := hEq n fun ch hch _ => hno ch hch rfl
    refine ⟨by rw [this], fun v _ hg => ?_⟩
    unfold GoodFull at hg ⊢; rw [← this]; exact hg
  · refine h.best.step hpb hcb hex hid hstab hinj' hown hED hED' ?_
      (fun n _ => ⟨rfl, bestIdent_ref _⟩)
    intro n hno
    have := hId n hno
    refine ⟨?_, fun v _ hg => ⟨hg.1, hg.2.trans this⟩⟩
    rw [Ne, Ne, ← identOf_eq_none, ← identOf_eq_none, this]
  · refine h.add.step hpa hca hex hid hstab hinj' hown hED hED' ?_ (fun n _ => rfl)
    intro n hno
    have := hEq n hno
    refine ⟨by rw [this], fun v _ hg => ?_⟩
    unfold GoodFull at hg ⊢; rw [← this]; exact hg

/-! ## the relation between a model state and the state of the checker -/

/-- the exportable paths as the consumers should see them: nothing while the family defers -/
def vis (t : Table) (f : Fam) (n : Net) : List Entry :=
  if (t.rib f).deferring = true then [] else t.elig f n

theorem vis_of_not_deferring {t : Table} {f : Fam} (h : (t.rib f).deferring = false) : vis t f = t.elig f := by
  funext n; unfold vis; rw [h]; rfl

theorem vis_of_deferring {t : Table} {f : Fam} (h : (t.rib f).deferring = true) (n : Net) : vis t f n = [] := by
  unfold vis; rw [if_pos h]

structure Rel (c : Case) (t : Table) (st : St) : Prop where
  defr : ∀ f, f ∈ st.deferring ↔ (t.rib f).deferring = true
  defNodup : st.deferring.Nodup
  outNodup : st.outside.Nodup
  wfFull : ViewWF st.full
  wfBest : ViewWF st.bestOnly
  wfAdd : ViewWF st.addPath
  fam : ∀ f, f ∉ st.outside → FamRel c.shard (vis t f) (t.destId f) st.full st.bestOnly st.addPath f
  ref : RefRel t st.ref
  attr : AttrRefInv c t

/-! ## small facts about the checker's helpers -/

theorem nodupNat_iff (l : List Nat) : nodupNat l = true ↔ l.Nodup := by
  induction l with
  | nil => simp [nodupNat]
  | cons x l ih => simp [nodupNat, ih]

theorem firstSome_none {α} {f : α → Option String} {l : List α} (h : ∀ a ∈ l, f a = none) :
    firstSome f l = none := by
  induction l with
  | nil => rfl
  | cons a l ih =>
    simp only [firstSome, h a List.mem_cons_self]
    exact ih fun b hb => h b (List.mem_cons_of_mem _ hb)

theorem viewSubset_of {f : Fam} {m : View} {loc : List LocObs}
    (h : ∀ kv ∈ m, kv.1.1 = f → ∃ l ∈ loc, l.destId = kv.1.2) : viewSubset f m loc = true := by
  unfold viewSubset
  rw [List.all_eq_true]
  intro kv hkv
  by_cases hf : kv.1.1 = f
  · obtain ⟨l, hl, hn⟩ := h kv hkv hf
    have : (loc.any fun l => decide (l.destId = kv.1.2)) = true :=
      List.any_eq_true.mpr ⟨l, hl, by simpa using hn⟩
    rw [this, Bool.or_true]
  · have : (kv.1.1 != f) = true := by simpa using hf
    rw [this, Bool.true_or]

theorem eq_of_nodup_map' {α β : Type} (f : α → β) {l : List α} (hn : (l.map f).Nodup) {a b : α}
    (ha : a ∈ l) (hb : b ∈ l) (hab : f a = f b) : a = b := by
  induction l with
  | nil => simp at ha
  | cons x l ih =>
    simp only [List.map_cons, List.nodup_cons, List.mem_map, not_exists, not_and] at hn
    rcases List.mem_cons.mp ha with ha' | ha' <;> rcases List.mem_cons.mp hb with hb' | hb'
    · rw [ha', hb']
    · subst ha'; exact absurd hab.symm (hn.1 b hb')
    · subst hb'; exact absurd hab (hn.1 a ha')
    · exact ih hn.2 ha' hb'

theorem clauseLoc_none {st : St} {f : Fam} {l : LocObs} {j k : Net} {bp : List PathRef}
    (g1 : vGet (f, l.destId) st.full = some (l.net, l.paths))
    (g2 : vGet (f, l.destId) st.bestOnly = some (j, bp)) (g3 : bestIdent bp = bestIdent l.paths)
    (g4 : vGet (f, l.destId) st.addPath = some (k, l.paths)) : clauseLoc st f l = none := by
  simp only [clauseLoc, g1, g2, g3, g4, ne_eq, not_true_eq_false, if_false]

/-- `checkFam` accepts when its clauses hold -/
theorem checkFam_none {st : St} {fo : FamObs}
    (h : st.deferring.contains fo.fam = false → st.outside.contains fo.fam = false →
      (fo.loc.map (·.destId)).Nodup ∧ (∀ l ∈ fo.loc, clauseLoc st fo.fam l = none) ∧
      viewSubset fo.fam st.full fo.loc = true ∧ viewSubset fo.fam st.bestOnly fo.loc = true ∧
      viewSubset fo.fam st.addPath fo.loc = true) : checkFam st fo = none := by
  unfold checkFam
  cases hd : st.deferring.contains fo.fam with
  | true => simp
  | false =>
    cases ho : st.outside.contains fo.fam with
    | true => simp
    | false =>
      obtain ⟨h1, h3, h4, h5, h6⟩ := h hd ho
      have e1 := (nodupNat_iff _).mpr h1
      rw [e1, h4, h5, h6, firstSome_none h3]
      rfl

/-! ## tables -/

theorem elig_of_mem {t : Table} {f : Fam} (hk : ((t.rib f).dests.map (·.1)).Nodup) {nd : Net × Dest}
    (h : nd ∈ (t.rib f).dests) :
    t.elig f nd.1 = nd.2.entries.filter Entry.eligible ∧ t.destId f nd.1 = some nd.2.id := by
  unfold Table.elig Table.destId
  rw [alookup_of_mem hk (show (nd.1, nd.2) ∈ _ from h)]
  exact ⟨rfl, rfl⟩

theorem destId_some_of_elig {t : Table} {f : Fam} {n : Net} (h : t.elig f n ≠ []) : ∃ i, t.destId f n = some i := by
  unfold Table.elig at h
  unfold Table.destId
  cases ha : alookup n (t.rib f).dests with
  | none => rw [ha] at h; exact absurd rfl h
  | some d => exact ⟨d.id, rfl⟩

theorem destId_some_of_vis {t : Table} {f : Fam} {n : Net} (h : vis t f n ≠ []) : ∃ i, t.destId f n = some i := by
  apply destId_some_of_elig
  unfold vis at h
  split at h
  · exact absurd rfl h
  · exact h

theorem elig_nil_of_destId_none {t : Table} {f : Fam} {n : Net} (h : t.destId f n = none) : t.elig f n = [] := by
  apply Classical.byContradiction
  intro hne
  obtain ⟨i, hi⟩ := destId_some_of_elig hne
  rw [hi] at h; exact absurd h (by simp)

theorem entries_nil_of_destId_none {t : Table} {f : Fam} {n : Net} (h : t.destId f n = none) :
    t.entries f n = [] := by
  unfold Table.destId at h
  unfold Table.entries
  cases ha : alookup n (t.rib f).dests with
  | none => rfl
  | some d => rw [ha] at h; simp at h

theorem entries_ne_of_destId_some {c : Case} {g : Nat → Fam} {fl : Flags} {t : Table} {f : Fam}
    (h : RibInv c g fl f (t.rib f)) {n : Net} {i : Nat} (hi : t.destId f n = some i) : t.entries f n ≠ [] := by
  unfold Table.destId at hi
  unfold Table.entries
  cases ha : alookup n (t.rib f).dests with
  | none => rw [ha] at hi; simp at hi
  | some d => exact (h.dest (n, d) (alookup_some_mem ha)).nonEmpty

/-- different prefixes of a family have different destination identifiers -/
theorem destId_inj {c : Case} {g : Nat → Fam} {fl : Flags} {t : Table} {f : Fam}
    (h : RibInv c g fl f (t.rib f)) {n1 n2 : Net} {i : Nat}
    (h1 : t.destId f n1 = some i) (h2 : t.destId f n2 = some i) : n1 = n2 := by
  unfold Table.destId at h1 h2
  cases ha : alookup n1 (t.rib f).dests with
  | none => rw [ha] at h1; simp at h1
  | some d1 =>
    cases hb : alookup n2 (t.rib f).dests with
    | none => rw [hb] at h2; simp at h2
    | some d2 =>
      rw [ha] at h1; rw [hb] at h2
      simp only [Option.map_some, Option.some.injEq] at h1 h2
      have := eq_of_nodup_map' (fun nd : Net × Dest => nd.2.id) h.ids (alookup_some_mem ha) (alookup_some_mem hb)
        (h1.trans h2.symm)
      exact (Prod.mk.inj this).1

/-- within one step an identifier does not move to another prefix -/
theorem id_owner {c : Case} {g : Nat → Fam} {t t' : Table} {op : Op} {r : Res}
    (hinv : Inv c g t) (hinv' : Inv c g t') (hf : StepFacts t op t' r) (hE : EntryFacts t op t' r)
    (hX : EntryExact t op t' r) {f : Fam} {n n2 : Net} {i : Nat}
    (h1 : t.destId f n = some i) (h2 : t'.destId f n2 = some i) : n2 = n := by
  apply Classical.byContradiction
  intro hne
  cases hD : t.destId f n2 with
  | some j =>
    rcases hf.idStable f n2 j hD with h | h
    · rw [h2] at h
      have : i = j := Option.some.inj h
      exact hne (destId_inj (hinv.rib f) (this ▸ hD) h1)
    · rw [h2] at h; exact absurd h (by simp)
  | none =>
    rcases hf.idStable f n i h1 with h | h
    · exact hne (destId_inj (hinv'.rib f) h2 h)
    · -- n2 is new and n is gone: impossible
      have hne2 := entries_ne_of_destId_some (hinv'.rib f) h2
      obtain ⟨x, hx⟩ := List.exists_mem_of_ne_nil _ hne2
      rcases hE.mem f n2 x hx with ⟨x0, hx0, _⟩ | ⟨hins, hr⟩
      · rw [entries_nil_of_destId_none hD] at hx0; simp at hx0
      · obtain ⟨x0, hx0⟩ := List.exists_mem_of_ne_nil _ (entries_ne_of_destId_some (hinv.rib f) h1)
        have hrem : op.removes t f n x0 = false := by
          cases op <;> simp only [Op.inserts] at hins
          obtain ⟨-, hn, -⟩ := hins
          simp only [Op.removes]
          have : (n == n2) = false := by
            simp only [beq_eq_false_iff_ne, ne_eq]; exact fun e => hne e.symm
          rw [← hn, this]; simp
        have := hX.keep hr f n x0 hx0 hrem
        rw [entries_nil_of_destId_none h] at this
        simp at this

/-- notifications of one step with the same family and identifier are about the same prefix -/
theorem step_key_net {c : Case} {g : Nat → Fam} {t t' : Table} {op : Op} {r : Res}
    (hinv : Inv c g t) (hinv' : Inv c g t') (hf : StepFacts t op t' r) (hE : EntryFacts t op t' r)
    (hX : EntryExact t op t' r) {a b : Change} (ha : a ∈ r.chs) (hb : b ∈ r.chs)
    (h1 : a.fam = b.fam) (h2 : a.destId = b.destId) : a.net = b.net := by
  rcases hf.idNew a ha with ga | ⟨ga', ga⟩ <;> rcases hf.idNew b hb with gb | ⟨gb', gb⟩
  · rw [h1, h2] at ga; exact destId_inj (hinv'.rib _) ga gb
  · rw [h1, h2] at ga; exact id_owner hinv hinv' hf hE hX gb ga
  · rw [h1, h2] at ga; exact (id_owner hinv hinv' hf hE hX ga gb).symm
  · rw [h1, h2] at ga; exact destId_inj (hinv.rib _) ga gb

theorem step_consistent {c : Case} {g : Nat → Fam} {t t' : Table} {op : Op} {r : Res}
    (hinv : Inv c g t) (hinv' : Inv c g t') (hf : StepFacts t op t' r) (hE : EntryFacts t op t' r)
    (hX : EntryExact t op t' r) {sh : Nat} {fl : Flags} {L : List ChangeObs}
    (hp : L.Perm (r.chs.map (Change.obs sh fl))) : Consistent L := by
  intro x hx y hy hk
  obtain ⟨a, ha, rfl⟩ := List.mem_map.mp (hp.mem_iff.mp hx)
  obtain ⟨b, hb, rfl⟩ := List.mem_map.mp (hp.mem_iff.mp hy)
  rw [okey_obs, okey_obs] at hk
  have h1 : a.fam = b.fam := (Prod.mk.inj hk).1
  have h2 : a.destId = b.destId := packId_inj (Prod.mk.inj hk).2
  have h3 := step_key_net hinv hinv' hf hE hX ha hb h1 h2
  rw [oval_obs, oval_obs, hf.exact a ha, hf.exact b hb, h1, h3]

/-! ## a related state passes `checkFam` -/

theorem filterMap_map_sublist {α β γ : Type} (G : α → Option β) (kb : β → γ) (ka : α → γ)
    (hG : ∀ a b, G a = some b → kb b = ka a) (l : List α) :
    ((l.filterMap G).map kb).Sublist (l.map ka) := by
  induction l with
  | nil => simp
  | cons a l ih =>
    rw [List.filterMap_cons]
    cases h : G a with
    | none => simpa using List.Sublist.cons _ ih
    | some b => simpa [hG a b h] using ih

theorem loc_ids_nodup {c : Case} {g : Nat → Fam} {fl : Flags} (t : Table) (f : Fam)
    (h : RibInv c g fl f (t.rib f)) : ((famObs c t f).loc.map (·.destId)).Nodup := by
  simp only [famObs]
  refine ((sortOn_perm _ _).map _).nodup_iff.mpr ?_
  rw [List.map_map]
  cases hx : (t.rib f).deferring with
  | true => rw [collect_deferring hx]; exact List.nodup_nil
  | false =>
  rw [collect_not_deferring hx, Rbgp.Rib.collect_eq]
  have : (((t.rib f).dests.filterMap (collectOf f none)).map
      ((fun l : LocObs => l.destId) ∘ fun (ch : Change) =>
        ({ net := ch.net, destId := packId c.shard ch.destId, ecmp := ecmpIds t.flags ch.net.t2 ch.paths,
           paths := ch.paths.map Entry.ref } : LocObs))).Sublist
        ((t.rib f).dests.map fun nd => packId c.shard nd.2.id) := by
    apply filterMap_map_sublist
    intro nd ch hc
    rw [(collectOf_some hc).2]; rfl
  refine List.Nodup.sublist this ?_
  have : ((t.rib f).dests.map fun nd => packId c.shard nd.2.id)
      = ((t.rib f).dests.map (·.2.id)).map (packId c.shard) := by rw [List.map_map]; rfl
  rw [this]
  exact List.Pairwise.map _ (fun a b hab e => hab (packId_inj e)) h.ids

theorem famObs_fam (c : Case) (t : Table) (f : Fam) : (famObs c t f).fam = f := rfl

theorem checkFam_ok {c : Case} {g : Nat → Fam} {t : Table} {st : St} (hrel : Rel c t st) (hinv : Inv c g t)
    (f : Fam) : checkFam st (famObs c t f) = none := by
  apply checkFam_none
  rw [famObs_fam]
  intro hd ho
  have hd' : (t.rib f).deferring = false := by
    cases hx : (t.rib f).deferring with
    | false => rfl
    | true =>
      have := (hrel.defr f).mpr hx
      rw [List.contains_iff_mem.mpr this] at hd; exact absurd hd (by simp)
  have ho' : f ∉ st.outside := by
    intro hm; rw [List.contains_iff_mem.mpr hm] at ho; exact absurd ho (by simp)
  have FR := hrel.fam f ho'
  rw [vis_of_not_deferring hd'] at FR
  have hR := hinv.rib f
  -- a stored destination is in the dump
  have hloc : ∀ n i, t.destId f n = some i → t.elig f n ≠ [] →
      ∃ l ∈ (famObs c t f).loc, l.destId = packId c.shard i := by
    intro n i hi hne
    have := famObs_loc_find (c := c) t f hR hd' n
    rw [isEmpty_false_of_ne hne, hi] at this
    simp only [Bool.false_eq_true, if_false, Option.map_some] at this
    refine ⟨_, List.mem_of_find?_eq_some this, rfl⟩
  have hsub : ∀ {Good : Net → Net × List PathRef → Prop} {view : View}, ViewWF view →
      ViewRel c.shard Good (t.elig f) (t.destId f) view f → viewSubset f view (famObs c t f).loc = true := by
    intro Good view hw hv
    apply viewSubset_of
    intro kv hkv hf
    obtain ⟨⟨f', k⟩, v⟩ := kv
    simp only at hf; subst hf
    obtain ⟨n, i, h1, h2, h3, -⟩ := hv.sound k v (vGet_of_mem hw hkv)
    obtain ⟨l, hl, hl2⟩ := hloc n i h1 h3
    exact ⟨l, hl, by rw [hl2, h2]⟩
  refine ⟨loc_ids_nodup t f hR, ?_, hsub hrel.wfFull FR.full, hsub hrel.wfBest FR.best, hsub hrel.wfAdd FR.add⟩
  intro l hl
  obtain ⟨nd, hnd, hne, rfl⟩ := famObs_loc_mem t f hl
  obtain ⟨hE, hD⟩ := elig_of_mem hR.keys hnd
  have hne' : t.elig f nd.1 ≠ [] := by rw [hE]; exact hne
  -- what a view holds under this identifier
  have hget : ∀ {Good : Net → Net × List PathRef → Prop} {view : View},
      ViewRel c.shard Good (t.elig f) (t.destId f) view f →
      ∃ v, vGet (f, packId c.shard nd.2.id) view = some v ∧ Good nd.1 v := by
    intro Good view hv
    obtain ⟨v, hv1⟩ := hv.complete nd.1 nd.2.id hD hne'
    obtain ⟨n, i, h1, h2, -, h4⟩ := hv.sound _ v hv1
    have : i = nd.2.id := (packId_inj h2).symm
    have hn : n = nd.1 := destId_inj hR (this ▸ h1) hD
    exact ⟨v, hv1, hn ▸ h4⟩
  obtain ⟨v1, g1, q1⟩ := hget FR.full
  obtain ⟨v2, g2, q2⟩ := hget FR.best
  obtain ⟨v3, g3, q3⟩ := hget FR.add
  unfold GoodFull at q1 q3
  have e2 : v2 = (v2.1, v2.2) := rfl
  rw [e2] at g2
  refine clauseLoc_none (j := v2.1) (k := nd.1) (bp := v2.2) ?_ g2 ?_ ?_
  · show vGet (f, packId c.shard nd.2.id) st.full = some (nd.1, (nd.2.entries.filter Entry.eligible).map Entry.ref)
    rw [g1, q1, hE]
  · rw [q2.2, hE]; exact (bestIdent_ref _).symm
  · show vGet (f, packId c.shard nd.2.id) st.addPath = some (nd.1, (nd.2.entries.filter Entry.eligible).map Entry.ref)
    rw [g3, q3, hE]

/-! ## `checkStep`, unfolded -/

def defr2 (op : Op) (l : List Fam) : List Fam :=
  match op with
  | .startDeferral f => f :: l.erase f
  | .endDeferral f => l.erase f
  | _ => l

def view0 (st : St) (op : Op) (v : View) : View :=
  match op with
  | .endDeferral f => if st.outside.contains f then dropFam v f else v
  | _ => v

def out0 (st : St) (op : Op) : List Fam :=
  match op with
  | .endDeferral f => if st.outside.contains f then st.outside.erase f else st.outside
  | _ => st.outside

def out2 (op : Op) (st : St) : List Fam :=
  match op with
  | .startDeferral f =>
      if hasFam st.full f then f :: (out0 st op).erase f else out0 st op
  | _ => out0 st op

def endOk (op : Op) (s : StepObs) : Option String :=
  match op with
  | .endDeferral f =>
      if (famLoc s.fams f).all fun l => (changesOf s.res).any fun c =>
          c.fam = f ∧ c.net = l.net ∧ c.paths = l.paths ∧ c.best ∧ c.any
      then none else some "end-of-deferral-misses-prefix"
  | _ => none

def st2Of (c : Case) (st : St) (op : Op) (s : StepObs) : St :=
  { full := (changesOf s.res).foldl apply (view0 st op st.full)
    bestOnly := ((changesOf s.res).filter (·.best)).foldl apply (view0 st op st.bestOnly)
    addPath := ((changesOf s.res).filter (·.any)).foldl apply (view0 st op st.addPath)
    deferring := defr2 op st.deferring
    outside := out2 op st
    ref := SpecRef.refStep c st.ref op s.res }

theorem checkStep_eq (c : Case) (st : St) (op : Op) (s : StepObs) :
    checkStep c st op s =
      (st2Of c st op s, (SpecRef.check c (st2Of c st op s).ref s).orElse fun _ =>
        (endOk op s).orElse fun _ => firstSome (checkFam (st2Of c st op s)) s.fams) := by
  cases op with
  | endDeferral f =>
    unfold checkStep st2Of view0 out2 out0 defr2 endOk
    by_cases h : st.outside.contains f = true
    · simp only [h, if_true]
    · simp only [h]
      simp only [Bool.false_eq_true, if_false]
  | _ => rfl

theorem fam_beq {a b : Fam} : (a == b) = true ↔ a = b := by
  cases a <;> cases b <;> simp

theorem mem_defr2 (op : Op) {l : List Fam} (hn : l.Nodup) (f : Fam) :
    f ∈ defr2 op l ↔ (op.isStartDeferral f = true ∨ (op.isEndDeferral f = false ∧ f ∈ l)) := by
  cases op with
  | startDeferral f0 =>
    simp only [defr2, Op.isStartDeferral, Op.isEndDeferral, List.mem_cons, fam_beq, true_and]
    by_cases h : f = f0
    · subst h; simp
    · rw [List.mem_erase_of_ne h]
      constructor
      · rintro (h1 | h1)
        · exact absurd h1 h
        · exact Or.inr h1
      · rintro (h1 | h1)
        · exact absurd h1.symm h
        · exact Or.inr h1
  | endDeferral f0 =>
    simp only [defr2, Op.isStartDeferral, Op.isEndDeferral, hn.mem_erase_iff, Bool.false_eq_true, false_or]
    constructor
    · rintro ⟨h1, h2⟩
      refine ⟨?_, h2⟩
      cases hb : f0 == f
      · rfl
      · exact absurd (fam_beq.mp hb).symm h1
    · rintro ⟨h1, h2⟩
      refine ⟨fun e => ?_, h2⟩
      subst e
      have : (f == f) = true := fam_beq.mpr rfl
      rw [this] at h1; exact absurd h1 (by simp)
  | _ => simp [defr2, Op.isStartDeferral, Op.isEndDeferral]

theorem nodup_defr2 (op : Op) {l : List Fam} (hn : l.Nodup) : (defr2 op l).Nodup := by
  cases op with
  | startDeferral f0 =>
    simp only [defr2, List.nodup_cons]
    refine ⟨?_, hn.erase f0⟩
    rw [hn.mem_erase_iff]
    exact fun h => h.1 rfl
  | endDeferral f0 => exact hn.erase f0
  | _ => exact hn

theorem nodup_out2 (op : Op) (st : St) (hn : st.outside.Nodup) : (out2 op st).Nodup := by
  cases op with
  | startDeferral f0 =>
    simp only [out2, out0]
    split
    · simp only [List.nodup_cons]
      refine ⟨?_, hn.erase f0⟩
      rw [hn.mem_erase_iff]
      exact fun h => h.1 rfl
    · exact hn
  | endDeferral f0 =>
    simp only [out2, out0]
    split
    · exact hn.erase f0
    · exact hn
  | _ => exact hn

/-- a family that is judged after the step: either it was judged before (and, if the step starts
    its deferral, it starts from an empty state), or the step is the end of its unjudged deferral -/
theorem not_mem_out2 {op : Op} {st : St} {f : Fam} (_hn : st.outside.Nodup)
    (h : f ∉ out2 op st) :
    (f ∉ st.outside ∧ (op.isStartDeferral f = true → hasFam st.full f = false)) ∨
    (f ∈ st.outside ∧ op.isEndDeferral f = true) := by
  cases op with
  | startDeferral f0 =>
    left
    simp only [out2, out0] at h
    simp only [Op.isStartDeferral, fam_beq]
    by_cases hc : hasFam st.full f0 = true
    · rw [if_pos hc] at h
      simp only [List.mem_cons, not_or] at h
      refine ⟨?_, fun e => absurd e.symm h.1⟩
      intro hm
      exact h.2 ((List.mem_erase_of_ne h.1).mpr hm)
    · rw [if_neg hc] at h
      refine ⟨h, fun e => ?_⟩
      subst e
      simpa using hc
  | endDeferral f0 =>
    simp only [out2, out0] at h
    by_cases hf : f ∈ st.outside
    · right
      refine ⟨hf, ?_⟩
      simp only [Op.isEndDeferral, fam_beq]
      apply Classical.byContradiction
      intro hne
      by_cases hc : st.outside.contains f0 = true
      · rw [if_pos hc] at h
        exact h ((List.mem_erase_of_ne fun e => hne e.symm).mpr hf)
      · rw [if_neg hc] at h; exact h hf
    · left; exact ⟨hf, fun e => by simp [Op.isStartDeferral] at e⟩
  | _ => left; exact ⟨h, fun e => by simp [Op.isStartDeferral] at e⟩

/-- the views a family not reset by the step starts the step with -/
theorem vGet_view0_of_not_outside {st : St} {op : Op} {f : Fam} (h : f ∉ st.outside) (v : View) (k : Nat) :
    vGet (f, k) (view0 st op v) = vGet (f, k) v := by
  cases op with
  | endDeferral f0 =>
    simp only [view0]
    split
    · rename_i hc
      apply vGet_dropFam_ne
      intro e; subst e; exact h (List.contains_iff_mem.mp hc)
    · rfl
  | _ => rfl

theorem vGet_view0_of_reset {st : St} {op : Op} {f : Fam} (h1 : f ∈ st.outside) (h2 : op.isEndDeferral f = true)
    (v : View) (k : Nat) : vGet (f, k) (view0 st op v) = none := by
  cases op with
  | endDeferral f0 =>
    have : f0 = f := fam_beq.mp h2
    subst this
    simp only [view0, List.contains_iff_mem.mpr h1, if_true]
    exact vGet_dropFam_self _ k v
  | _ => simp [Op.isEndDeferral] at h2

theorem wf_view0 (st : St) (op : Op) {v : View} (h : ViewWF v) : ViewWF (view0 st op v) := by
  cases op with
  | endDeferral f0 => simp only [view0]; split; exact wf_dropFam h f0; exact h
  | _ => exact h

theorem start_not_end {op : Op} {f : Fam} (h : op.isStartDeferral f = true) : op.isEndDeferral f = false := by
  cases op <;> simp [Op.isStartDeferral, Op.isEndDeferral] at h ⊢

theorem end_not_start {op : Op} {f : Fam} (h : op.isEndDeferral f = true) : op.isStartDeferral f = false := by
  cases op <;> simp [Op.isStartDeferral, Op.isEndDeferral] at h ⊢

theorem famLoc_obs (c : Case) (t : Table) (f : Fam) : famLoc (allFams.map (famObs c t)) f = (famObs c t f).loc := by
  cases f <;> simp [famLoc, allFams, famObs_fam]

/-- the start of a deferral announces nothing -/
theorem chs_nil_of_start {p : Profile} {t t' : Table} {op : Op} {r : Res} {f : Fam}
    (h : op.isStartDeferral f = true) (hstep : t.step p op = .ok (t', r)) : r.chs = [] := by
  cases op with
  | startDeferral f0 =>
    simp only [Table.step] at hstep
    cases hstep
    rfl
  | _ => simp [Op.isStartDeferral] at h

theorem hasFam_false {m : View} {f : Fam} (h : hasFam m f = false) (k : Nat) : vGet (f, k) m = none := by
  cases hv : vGet (f, k) m with
  | none => rfl
  | some v =>
    have := vGet_some_mem hv
    have : hasFam m f = true := List.any_eq_true.mpr ⟨_, this, by simp⟩
    rw [h] at this; exact absurd this (by simp)

/-! ## one step -/

theorem endOk_none {c : Case} {g : Nat → Fam} {t t' : Table} {op : Op} {r : Res}
    (hinv' : Inv c g t') (hf : StepFacts t op t' r) : endOk op (stepObs c op (t', r)) = none := by
  cases op with
  | endDeferral f0 =>
    show (if (famLoc (allFams.map (famObs c t')) f0).all fun l =>
          (changesOf (r.obs c.shard t'.flags)).any fun ch =>
            ch.fam = f0 ∧ ch.net = l.net ∧ ch.paths = l.paths ∧ ch.best ∧ ch.any
      then none else some "end-of-deferral-misses-prefix") = none
    rw [if_pos]
    rw [famLoc_obs, List.all_eq_true]
    intro l hl
    obtain ⟨nd, hnd, hne, rfl⟩ := famObs_loc_mem t' f0 hl
    obtain ⟨hE, -⟩ := elig_of_mem (hinv'.rib f0).keys hnd
    have hne' : t'.elig f0 nd.1 ≠ [] := by rw [hE]; exact hne
    have hend : (Op.endDeferral f0).isEndDeferral f0 = true := fam_beq.mpr rfl
    obtain ⟨ch, hch, h1, h2, h3, h4⟩ := hf.endDeferral f0 hend nd.1 hne'
    have hp := changesOf_obs_perm c.shard t'.flags r
    have hmem : ch.obs c.shard t'.flags ∈ changesOf (r.obs c.shard t'.flags) :=
      hp.mem_iff.mpr (List.mem_map.mpr ⟨ch, hch, rfl⟩)
    refine List.any_eq_true.mpr ⟨_, hmem, ?_⟩
    have hpaths : ch.paths = nd.2.entries.filter Entry.eligible := by
      rw [hf.exact ch hch, h1, h2, hE]
    simp only [decide_eq_true_eq]
    refine ⟨h1, h2, ?_, h3, h4⟩
    show ch.paths.map Entry.ref = (nd.2.entries.filter Entry.eligible).map Entry.ref
    rw [hpaths]
  | _ => rfl

theorem step_rel (hR : RefSound) {c : Case} {g : Nat → Fam} {p : Profile} {t t' : Table} {op : Op} {r : Res}
    {st : St} (hop : op.WF c g) (hopA : op.AttrRef c) (hstep : t.step p op = .ok (t', r))
    (hrel : Rel c t st) (hinv : Inv c g t) (hinv' : Inv c g t') (hf : StepFacts t op t' r)
    (hE : EntryFacts t op t' r) (hX : EntryExact t op t' r) :
    Rel c t' (st2Of c st op (stepObs c op (t', r))) ∧
      SpecRef.check c (st2Of c st op (stepObs c op (t', r))).ref (stepObs c op (t', r)) = none := by
  have hp := changesOf_obs_perm c.shard t'.flags r
  have hcons := step_consistent hinv hinv' hf hE hX hp
  have hattr' := attrRef_step hrel.attr hopA hE
  obtain ⟨href, hchk⟩ := hR c g p t op t' r st.ref hop hinv hinv' hstep hE hX hrel.attr hattr' hrel.ref
  refine ⟨⟨?_, nodup_defr2 op hrel.defNodup, nodup_out2 op st hrel.outNodup,
    wf_foldl _ (wf_view0 st op hrel.wfFull), wf_foldl _ (wf_view0 st op hrel.wfBest),
    wf_foldl _ (wf_view0 st op hrel.wfAdd), ?_, href, hattr'⟩, hchk⟩
  · intro f
    show f ∈ defr2 op st.deferring ↔ _
    rw [mem_defr2 op hrel.defNodup, hf.deferring f, hrel.defr f]
    cases h1 : op.isStartDeferral f <;> cases h2 : op.isEndDeferral f <;> simp
  · intro f hout
    have hdef := hf.deferring f
    show FamRel c.shard (vis t' f) (t'.destId f)
      ((changesOf (r.obs c.shard t'.flags)).foldl apply (view0 st op st.full))
      (((changesOf (r.obs c.shard t'.flags)).filter (·.best)).foldl apply (view0 st op st.bestOnly))
      (((changesOf (r.obs c.shard t'.flags)).filter (·.any)).foldl apply (view0 st op st.addPath)) f
    -- facts about identifiers, the same in every case
    have hid : ∀ ch ∈ r.chs, ch.fam = f →
        t'.destId f ch.net = some ch.destId ∨ (t'.destId f ch.net = none ∧ t.destId f ch.net = some ch.destId) := by
      intro ch hch hcf; rw [← hcf]; exact hf.idNew ch hch
    have hstab := hf.idStable f
    have hinj' : ∀ n1 n2 i, t'.destId f n1 = some i → t'.destId f n2 = some i → n1 = n2 :=
      fun n1 n2 i h1 h2 => destId_inj (hinv'.rib f) h1 h2
    have hown : ∀ n n2 i, t.destId f n = some i → t'.destId f n2 = some i → n2 = n :=
      fun n n2 i h1 h2 => id_owner hinv hinv' hf hE hX h1 h2
    have hED' : ∀ n, vis t' f n ≠ [] → ∃ i, t'.destId f n = some i := fun n h => destId_some_of_vis h
    rcases not_mem_out2 hrel.outNodup hout with ⟨ho, hstart⟩ | ⟨ho, hend⟩
    · -- the family was judged before the step
      have FR := hrel.fam f ho
      have FR0 : FamRel c.shard (vis t f) (t.destId f) (view0 st op st.full) (view0 st op st.bestOnly)
          (view0 st op st.addPath) f :=
        ⟨FR.full.congr (vGet_view0_of_not_outside ho _), FR.best.congr (vGet_view0_of_not_outside ho _),
          FR.add.congr (vGet_view0_of_not_outside ho _)⟩
      have hED : ∀ n, vis t f n ≠ [] → ∃ i, t.destId f n = some i := fun n h => destId_some_of_vis h
      cases hd' : (t'.rib f).deferring with
      | false =>
        have hvis' : vis t' f = t'.elig f := vis_of_not_deferring hd'
        refine FR0.step hp hcons ?_ hid hstab hinj' hown hED hED' ?_ ?_
        · intro ch hch hcf
          rw [hvis', hf.exact ch hch, hcf]
        · intro n hne
          rw [hvis'] at hne
          cases hd0 : (t.rib f).deferring with
          | false =>
            rw [vis_of_not_deferring hd0] at hne
            exact hf.completeAny f n hd0 hne
          | true =>
            rw [vis_of_deferring hd0] at hne
            have hend : op.isEndDeferral f = true := by
              rw [hd', hd0] at hdef
              cases h1 : op.isStartDeferral f <;> cases h2 : op.isEndDeferral f <;> simp [h1, h2] at hdef ⊢
            obtain ⟨ch, hch, h1, h2, -, h4⟩ := hf.endDeferral f hend n (Ne.symm hne)
            exact ⟨ch, hch, h1, h2, h4⟩
        · intro n hne
          rw [hvis'] at hne
          cases hd0 : (t.rib f).deferring with
          | false =>
            rw [vis_of_not_deferring hd0] at hne
            exact hf.completeBest f n hd0 hne
          | true =>
            rw [vis_of_deferring hd0] at hne
            have hend : op.isEndDeferral f = true := by
              rw [hd', hd0] at hdef
              cases h1 : op.isStartDeferral f <;> cases h2 : op.isEndDeferral f <;> simp [h1, h2] at hdef ⊢
            have hne' : t'.elig f n ≠ [] := by
              intro e; rw [e] at hne; exact hne rfl
            obtain ⟨ch, hch, h1, h2, h3, -⟩ := hf.endDeferral f hend n hne'
            exact ⟨ch, hch, h1, h2, h3⟩
      | true =>
        have hE' : vis t' f = fun _ => [] := by funext n; exact vis_of_deferring hd' n
        -- before the step the consumers saw nothing of this family, and nothing is announced
        have hpre : (∀ n, vis t f n = []) ∧ ∀ ch ∈ r.chs, ch.fam = f → ch.paths = [] := by
          cases hd0 : (t.rib f).deferring with
          | true =>
            refine ⟨vis_of_deferring hd0, ?_⟩
            have hend : op.isEndDeferral f = false := by
              rw [hd', hd0] at hdef
              cases h1 : op.isStartDeferral f with
              | true => exact start_not_end h1
              | false =>
                cases h2 : op.isEndDeferral f with
                | false => rfl
                | true => simp [h1, h2] at hdef
            intro ch hch hcf
            exact absurd hcf (hf.silent f hd0 hend ch hch)
          | false =>
            have hst : op.isStartDeferral f = true := by
              rw [hd', hd0] at hdef
              cases h1 : op.isStartDeferral f <;> cases h2 : op.isEndDeferral f <;> simp [h1, h2] at hdef ⊢
            have hh := hstart hst
            constructor
            · intro n
              apply Classical.byContradiction
              intro hne
              obtain ⟨i, hi⟩ := hED n hne
              obtain ⟨v, hv⟩ := FR.full.complete n i hi hne
              rw [hasFam_false hh] at hv
              exact absurd hv (by simp)
            · intro ch hch hcf
              rw [chs_nil_of_start hst hstep] at hch
              exact absurd hch List.not_mem_nil
        rw [hE']
        refine FR0.step hp hcons ?_ hid hstab hinj' hown hED (fun n h => absurd rfl h) ?_ ?_
        · intro ch hch hcf; exact hpre.2 ch hch hcf
        · intro n hne; exact absurd (hpre.1 n) hne
        · intro n hne; rw [hpre.1 n] at hne; exact absurd rfl hne
    · -- the end of an unjudged deferral: the consumers of the family start afresh
      have hd' : (t'.rib f).deferring = false := by
        rw [hdef, end_not_start hend, hend]; rfl
      have hvis' : vis t' f = t'.elig f := vis_of_not_deferring hd'
      have FR0 : FamRel c.shard (fun _ => []) (t.destId f) (view0 st op st.full) (view0 st op st.bestOnly)
          (view0 st op st.addPath) f :=
        ⟨ViewRel.empty (vGet_view0_of_reset ho hend _), ViewRel.empty (vGet_view0_of_reset ho hend _),
          ViewRel.empty (vGet_view0_of_reset ho hend _)⟩
      refine FR0.step hp hcons ?_ hid hstab hinj' hown (fun n h => absurd rfl h) hED' ?_ ?_
      · intro ch hch hcf
        rw [hvis', hf.exact ch hch, hcf]
      · intro n hne
        rw [hvis'] at hne
        obtain ⟨ch, hch, h1, h2, -, h4⟩ := hf.endDeferral f hend n (Ne.symm hne)
        exact ⟨ch, hch, h1, h2, h4⟩
      · intro n hne
        rw [hvis'] at hne
        have hne' : t'.elig f n ≠ [] := by
          intro e; rw [e] at hne; exact hne rfl
        obtain ⟨ch, hch, h1, h2, h3, -⟩ := hf.endDeferral f hend n hne'
        exact ⟨ch, hch, h1, h2, h3⟩

theorem checkStep_ok (hR : RefSound) {c : Case} {g : Nat → Fam} {p : Profile} {t t' : Table} {op : Op} {r : Res}
    {st : St} (hop : op.WF c g) (hopA : op.AttrRef c) (hstep : t.step p op = .ok (t', r))
    (hrel : Rel c t st) (hinv : Inv c g t) (hinv' : Inv c g t') (hf : StepFacts t op t' r)
    (hE : EntryFacts t op t' r) (hX : EntryExact t op t' r) :
    checkStep c st op (stepObs c op (t', r)) = (st2Of c st op (stepObs c op (t', r)), none) ∧
      Rel c t' (st2Of c st op (stepObs c op (t', r))) := by
  obtain ⟨hrel', hchk⟩ := step_rel hR hop hopA hstep hrel hinv hinv' hf hE hX
  refine ⟨?_, hrel'⟩
  rw [checkStep_eq, hchk, endOk_none hinv' hf]
  congr 1
  show firstSome (checkFam _) (allFams.map (famObs c t')) = none
  apply firstSome_none
  intro fo hfo
  obtain ⟨f, -, rfl⟩ := List.mem_map.mp hfo
  exact checkFam_ok hrel' hinv' f

/-! ## the run -/

theorem rel_empty (c : Case) : Rel c {} {} where
  defr f := by cases f <;> simp [Table.rib]
  defNodup := List.nodup_nil
  outNodup := List.nodup_nil
  wfFull := List.nodup_nil
  wfBest := List.nodup_nil
  wfAdd := List.nodup_nil
  fam f _ := by
    have hE : vis {} f = fun _ => [] := by
      funext n; unfold vis Table.elig; cases f <;> simp [Table.rib, alookup]
    rw [hE]
    exact ⟨ViewRel.empty fun _ => rfl, ViewRel.empty fun _ => rfl, ViewRel.empty fun _ => rfl⟩
  ref := refRel_empty
  attr := attrRefInv_empty c

theorem runFrom_length (hS : AllSound) {c : Case} {g : Nat → Fam} (p : Profile) (ops : List Op)
    (hops : ∀ op ∈ ops, op.WF c g) (t : Table) (hinv : Inv c g t) : (runFrom p t ops).1.length = ops.length := by
  induction ops generalizing t with
  | nil => rfl
  | cons op ops ih =>
    obtain ⟨t', r, _, hrun, hinv', _⟩ := run_step hS p ops (hops op List.mem_cons_self) hinv
    rw [hrun]
    simp only [List.length_cons]
    rw [ih (fun o ho => hops o (List.mem_cons_of_mem _ ho)) t' hinv']

theorem checkSteps_ok (hS : AllSound) (hR : RefSound) {c : Case} {g : Nat → Fam} (p : Profile) (ops : List Op)
    (hops : ∀ op ∈ ops, op.WF c g ∧ op.AttrRef c) (t : Table) (hinv : Inv c g t) (st : St)
    (hrel : Rel c t st) (i : Nat) :
    checkSteps c i st ops (List.zipWith (stepObs c) ops (runFrom p t ops).1) = .ok := by
  induction ops generalizing t st i with
  | nil => rfl
  | cons op ops ih =>
    obtain ⟨hw, ha⟩ := hops op List.mem_cons_self
    obtain ⟨t', r, hstep, hrun, hinv', hf, hE, hX⟩ := run_step hS p ops hw hinv
    rw [hrun]
    simp only [List.zipWith_cons_cons]
    obtain ⟨h1, h2⟩ := checkStep_ok hR hw ha hstep hrel hinv hinv' hf hE hX
    simp only [checkSteps, h1]
    exact ih (fun o ho => hops o (List.mem_cons_of_mem _ ho)) t' hinv' _ h2 (i + 1)

/-- **C06 master theorem**: the reference checker accepts the observation of every model run of a
    case the codec can produce. -/
theorem check_run_ok (hS : AllSound) (hR : RefSound) {c : Case} {g : Nat → Fam} (p : Profile) (h : c.Good g) :
    SpecC06.check c (observe p c) = .ok := by
  have hops : ∀ op ∈ c.ops, op.WF c g ∧ op.AttrRef c := fun op hop => ⟨h.wf op hop, h.attrRef op hop⟩
  have h1 := checkSteps_ok hS hR p c.ops hops {} (inv_empty c g) {} (rel_empty c) 0
  have h2 := runFrom_no_panic hS p c.ops h.wf {} (inv_empty c g)
  have h3 := runFrom_length hS p c.ops h.wf {} (inv_empty c g)
  have h4 : (List.zipWith (stepObs c) c.ops (runFrom p {} c.ops).1).length = c.ops.length := by
    rw [List.length_zipWith, h3, Nat.min_self]
  unfold SpecC06.check observe run
  simp only [h1, h2, h4]
  simp

end Rbgp.Rib.C06
