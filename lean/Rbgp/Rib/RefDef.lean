/-
  Rbgp.Rib.RefDef — the relation between a table of the model and the reference path set the
  checkers fold from the operations (SpecRef), and the statement that every step preserves it and
  passes `SpecRef.check` (discharged in RefProofs.lean).
-/
import Rbgp.Rib.EntryDef
import Rbgp.Rib.SpecRef
namespace Rbgp.Rib
open SpecRef

/-- what the reference set records of a path -/
def refOf (x : Entry) : RefPath :=
  { src := x.src.id, attr := x.attr.id, rpid := x.rpid, filtered := x.filtered, nh := x.nh, nhInv := x.nhInv }

/-- every `Arc<Vec<Attribute>>` in the table is one of the case's attribute sets -/
def AttrRefInv (c : Case) (t : Table) : Prop :=
  ∀ f n, ∀ e ∈ t.entries f n, c.attrs[e.attr.id]? = some e.attr

structure RefRel (t : Table) (st : RefSt) : Prop where
  /-- every path of the table is recorded under its key -/
  fwd : ∀ f n, ∀ x ∈ t.entries f n, getPath (f, n, x.src.addr, x.rpid) st.paths = some (refOf x)
  /-- every recorded path is in the table -/
  bwd : ∀ kv ∈ st.paths, ∃ x ∈ t.entries kv.1.1 kv.1.2.1, kv.1 = (kv.1.1, kv.1.2.1, x.src.addr, x.rpid) ∧ kv.2 = refOf x
  keys : (st.paths.map (·.1)).Nodup
  stale : ∀ i, i ∈ st.stale ↔ i ∈ t.stale
  llgr : ∀ i, i ∈ st.llgr ↔ i ∈ t.llgr

/-- one step of a run keeps the reference set in step with the table and its observation passes the
    reference check -/
def RefSound : Prop :=
  ∀ (c : Case) (g : Nat → Fam) (p : Profile) (t : Table) (op : Op) (t' : Table) (r : Res) (st : RefSt),
    op.WF c g → Inv c g t → Inv c g t' → t.step p op = .ok (t', r) →
    EntryFacts t op t' r → EntryExact t op t' r → AttrRefInv c t → AttrRefInv c t' → RefRel t st →
    RefRel t' (refStep c st op (r.obs c.shard t'.flags)) ∧
    SpecRef.check c (refStep c st op (r.obs c.shard t'.flags)) (stepObs c op (t', r)) = none

theorem refRel_empty : RefRel {} {} where
  fwd := by intro f n x hx; cases f <;> simp [Table.entries, Table.rib, alookup] at hx
  bwd := by intro kv h; simp at h
  keys := by simp
  stale := by intro i; simp
  llgr := by intro i; simp

end Rbgp.Rib
