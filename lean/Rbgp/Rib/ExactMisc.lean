/-
  Rbgp.Rib.ExactMisc — the exact evolution of the path sets and of the stale markers under `restale`,
  `restale_llgr`, `update_nexthop_validity` and start / end of deferral (`ExactSound Op.isMisc`).
-/
import Rbgp.Rib.EntryMisc
namespace Rbgp.Rib

/-- paths and markers after a step that maps every destination on its own, removes and inserts
    nothing -/
theorem entryExact_of_map {t t' : Table} {op : Op} {r : Res} {F : Fam → Net × Dest → Net × Dest}
    (hd : ∀ f, (t'.rib f).dests = (t.rib f).dests.map (F f)) (hF : ∀ f nd, (F f nd).1 = nd.1)
    (hx : ∀ f, ∀ nd ∈ (t.rib f).dests, ∀ x ∈ (F f nd).2.entries, ∃ x0 ∈ nd.2.entries, x = op.flip x0)
    (hy : ∀ f, ∀ nd ∈ (t.rib f).dests, ∀ x0 ∈ nd.2.entries, op.flip x0 ∈ (F f nd).2.entries)
    (hrem : ∀ f n x0, op.removes t f n x0 = false) (hins : ∀ f n x, ¬ op.inserts f n x)
    (hstale : ∀ i, i ∈ t'.stale ↔ (i ∈ t.stale ∨ ∃ a f, op = .restale a f ∧ marksOf t a f i))
    (hllgr : ∀ i, i ∈ t'.llgr ↔ (i ∈ t.llgr ∨ ∃ a f, op = .restaleLlgr a f ∧ marksOf t a f i)) :
    EntryExact t op t' r := by
  refine ⟨?_, ?_, ?_, hstale, hllgr⟩
  · intro _ f n x0 h0 _
    rw [entries_mapDests hd hF f n]
    unfold Table.entries at h0
    cases hl : alookup n (t.rib f).dests with
    | none => rw [hl] at h0; simp at h0
    | some d =>
      rw [hl] at h0
      exact hy f (n, d) (alookup_some_mem hl) x0 h0
  · intro _ f n ⟨x, hx'⟩; exact absurd hx' (hins f n x)
  · intro _ f n x hxm
    rw [entries_mapDests hd hF f n] at hxm
    left
    unfold Table.entries
    cases hl : alookup n (t.rib f).dests with
    | none => rw [hl] at hxm; simp at hxm
    | some d =>
      rw [hl] at hxm
      obtain ⟨x0, h0, h1⟩ := hx f (n, d) (alookup_some_mem hl) x hxm
      exact ⟨x0, h0, h1, hrem f n x0⟩

/-! ## `restale` / `restale_llgr` -/

theorem marksOf_iff {t : Table} {a : Nat} {f : Fam} (hk : ((t.rib f).dests.map (·.1)).Nodup) (i : Nat) :
    marksOf t a f i ↔ ∃ nd ∈ (t.rib f).dests, i ∈ addrIds a nd := by
  unfold marksOf addrIds Table.entries
  constructor
  · rintro ⟨n, x, hx, h1, h2⟩
    cases hl : alookup n (t.rib f).dests with
    | none => rw [hl] at hx; simp at hx
    | some d =>
      rw [hl] at hx
      exact ⟨(n, d), alookup_some_mem hl, List.mem_map.mpr ⟨x, List.mem_filter.mpr ⟨hx, h1⟩, h2⟩⟩
  · rintro ⟨nd, hnd, hi⟩
    obtain ⟨x, hx, h2⟩ := List.mem_map.mp hi
    obtain ⟨h3, h4⟩ := List.mem_filter.mp hx
    refine ⟨nd.1, x, ?_, h4, h2⟩
    rw [alookup_of_mem hk (show (nd.1, nd.2) ∈ _ from hnd)]
    exact h3

theorem restaleGen_entryExact {c : Case} {g : Nat → Fam} {t : Table} (addr : Nat) (fam : Fam) (m : Bool)
    (op : Op) (hop : op = if m then .restaleLlgr addr fam else .restale addr fam) (hinv : Inv c g t) :
    EntryExact t op (t.restaleGen addr fam m).1 (t.restaleGen addr fam m).2 := by
  obtain ⟨FL, hd, hfl, hother, hmarks⟩ := restaleGen_spec addr fam m hinv
  have hflip : ∀ e, op.flip e = e := by intro e; rw [hop]; cases m <;> rfl
  have hst : (t.restaleGen addr fam m).1.stale = FL.stale := by rw [← hfl]; rfl
  have hll : (t.restaleGen addr fam m).1.llgr = FL.llgr := by rw [← hfl]; rfl
  have hk := (hinv.rib fam).keys
  refine entryExact_of_map hd ?_ ?_ ?_ ?_ ?_ ?_ ?_
  · intro f nd
    by_cases hf : f = fam
    · simp only [if_pos hf]; exact (rd_key fam addr FL nd).1
    · simp only [if_neg hf]
  · intro f nd _ x hx
    refine ⟨x, ?_, (hflip x).symm⟩
    by_cases hf : f = fam
    · simp only [if_pos hf] at hx; exact mem_rd_entries.mp hx
    · simp only [if_neg hf] at hx; exact hx
  · intro f nd _ x0 hx0
    rw [hflip]
    by_cases hf : f = fam
    · simp only [if_pos hf]; exact mem_rd_entries.mpr hx0
    · simp only [if_neg hf]; exact hx0
  · intro f n x0; rw [hop]; cases m <;> rfl
  · intro f n x h; rw [hop] at h; cases m <;> exact h
  · intro i
    rw [hst]
    cases m with
    | false =>
      have := hmarks i
      simp only [Flags.marked, Bool.false_eq_true, if_false, List.contains_iff_mem] at this
      rw [this, hop]
      simp only [Bool.false_eq_true, if_false]
      constructor
      · rintro (h | h)
        · exact Or.inl h
        · exact Or.inr ⟨addr, fam, rfl, (marksOf_iff hk i).mpr h⟩
      · rintro (h | ⟨a, f, he, h⟩)
        · exact Or.inl h
        · cases he; exact Or.inr ((marksOf_iff hk i).mp h)
    | true =>
      have : FL.stale = t.stale := hother
      rw [this, hop]
      simp only [if_true]
      constructor
      · exact Or.inl
      · rintro (h | ⟨a, f, he, -⟩)
        · exact h
        · exact absurd he (by simp)
  · intro i
    rw [hll]
    cases m with
    | true =>
      have := hmarks i
      simp only [Flags.marked, if_true, List.contains_iff_mem] at this
      rw [this, hop]
      simp only [if_true]
      constructor
      · rintro (h | h)
        · exact Or.inl h
        · exact Or.inr ⟨addr, fam, rfl, (marksOf_iff hk i).mpr h⟩
      · rintro (h | ⟨a, f, he, h⟩)
        · exact Or.inl h
        · cases he; exact Or.inr ((marksOf_iff hk i).mp h)
    | false =>
      have : FL.llgr = t.llgr := hother
      rw [this, hop]
      simp only [Bool.false_eq_true, if_false]
      constructor
      · exact Or.inl
      · rintro (h | ⟨a, f, he, -⟩)
        · exact h
        · exact absurd he (by simp)

/-! ## `update_nexthop_validity` -/

theorem nhFlip_mem_nhvDest {fam : Fam} {k : Nat} {reachable : Bool} {nd : Net × Dest} {x0 : Entry}
    (h : x0 ∈ nd.2.entries) : nhFlip k reachable x0 ∈ (nhvDest fam k reachable nd).1.2.entries := by
  cases ht : (nd.2.entries.any fun e => e.nh == some k && e.nhInv != !reachable) with
  | false =>
    rw [nhvDest_untouched fam k reachable nd ht]
    rw [nhFlip_of_untouched (Bool.eq_false_iff.mpr (List.any_eq_false.mp ht x0 h))]
    exact h
  | true =>
    rw [nhvDest_touched fam k reachable nd ht]
    exact List.mem_map.mpr ⟨x0, h, rfl⟩

theorem nhValidity_entryExact (t : Table) (k : Nat) (reachable : Bool) :
    EntryExact t (.nhValidity k reachable) (t.nhValidity k reachable).1 (t.nhValidity k reachable).2 := by
  refine entryExact_of_map (F := fun f nd => (nhvDest f k reachable nd).1) ?_ ?_ ?_ ?_ ?_ ?_ ?_ ?_
  · intro f; rw [nhValidity_rib, nhv_dests]
  · intro f nd; exact (nhvDest_key f k reachable nd).1
  · intro f nd _ x hx; exact mem_nhvDest_entries hx
  · intro f nd _ x0 hx0; exact nhFlip_mem_nhvDest hx0
  · intro f n x0; rfl
  · intro f n x h; exact h
  · intro i
    show i ∈ t.stale ↔ _
    constructor
    · exact Or.inl
    · rintro (h | ⟨a, f, he, -⟩)
      · exact h
      · exact absurd he (by simp)
  · intro i
    show i ∈ t.llgr ↔ _
    constructor
    · exact Or.inl
    · rintro (h | ⟨a, f, he, -⟩)
      · exact h
      · exact absurd he (by simp)

/-! ## start / end of deferral -/

theorem setDeferring_entryExact (t : Table) (fam : Fam) (b : Bool) (op : Op) (r : Res)
    (hflip : ∀ e, op.flip e = e) (hrem : ∀ f n x0, op.removes t f n x0 = false)
    (hins : ∀ f n x, ¬ op.inserts f n x) (h1 : ∀ a f, op ≠ .restale a f) (h2 : ∀ a f, op ≠ .restaleLlgr a f) :
    EntryExact t op (t.setRib fam { t.rib fam with deferring := b }) r := by
  refine entryExact_of_map (F := fun _ nd => nd) ?_ (fun _ _ => rfl) ?_ ?_ hrem hins ?_ ?_
  · intro f; rw [setDeferring_dests, List.map_id']
  · intro f nd _ x hx; exact ⟨x, hx, (hflip x).symm⟩
  · intro f nd _ x0 hx0; rw [hflip]; exact hx0
  · intro i
    have : (t.setRib fam { t.rib fam with deferring := b }).stale = t.stale := by cases fam <;> rfl
    rw [this]
    constructor
    · exact Or.inl
    · rintro (h | ⟨a, f, he, -⟩)
      · exact h
      · exact absurd he (h1 a f)
  · intro i
    have : (t.setRib fam { t.rib fam with deferring := b }).llgr = t.llgr := by cases fam <;> rfl
    rw [this]
    constructor
    · exact Or.inl
    · rintro (h | ⟨a, f, he, -⟩)
      · exact h
      · exact absurd he (h2 a f)

/-! ## the five operations -/

theorem exactSound_misc : ExactSound Op.isMisc := by
  intro c g p t op t' r hsel _ hinv hstep
  cases op with
  | restale addr fam =>
    have h : (t', r) = t.restaleGen addr fam false := (Out.ok.inj hstep).symm
    have h1 : t' = (t.restaleGen addr fam false).1 := congrArg Prod.fst h
    have h2 : r = (t.restaleGen addr fam false).2 := congrArg Prod.snd h
    rw [h1, h2]
    exact restaleGen_entryExact addr fam false _ rfl hinv
  | restaleLlgr addr fam =>
    have h : (t', r) = t.restaleGen addr fam true := (Out.ok.inj hstep).symm
    have h1 : t' = (t.restaleGen addr fam true).1 := congrArg Prod.fst h
    have h2 : r = (t.restaleGen addr fam true).2 := congrArg Prod.snd h
    rw [h1, h2]
    exact restaleGen_entryExact addr fam true _ rfl hinv
  | nhValidity k reachable =>
    have h : (t', r) = t.nhValidity k reachable := (Out.ok.inj hstep).symm
    have h1 : t' = (t.nhValidity k reachable).1 := congrArg Prod.fst h
    have h2 : r = (t.nhValidity k reachable).2 := congrArg Prod.snd h
    rw [h1, h2]
    exact nhValidity_entryExact t k reachable
  | startDeferral fam =>
    have h : (t', r) = (t.startDeferral fam, Res.unit) := (Out.ok.inj hstep).symm
    have h1 : t' = t.startDeferral fam := congrArg Prod.fst h
    have h2 : r = Res.unit := congrArg Prod.snd h
    rw [h1, h2]
    exact setDeferring_entryExact t fam true _ _ (fun _ => rfl) (fun _ _ _ => rfl) (fun _ _ _ h => h)
      (fun _ _ h => by simp at h) (fun _ _ h => by simp at h)
  | endDeferral fam =>
    have h : (t', r) = t.endDeferral fam := (Out.ok.inj hstep).symm
    have h1 : t' = (t.endDeferral fam).1 := congrArg Prod.fst h
    have h2 : r = (t.endDeferral fam).2 := congrArg Prod.snd h
    rw [h1, h2]
    exact setDeferring_entryExact t fam false _ _ (fun _ => rfl) (fun _ _ _ => rfl) (fun _ _ _ h => h)
      (fun _ _ h => by simp at h) (fun _ _ h => by simp at h)
  | _ => exact absurd hsel (by simp [Op.isMisc])

end Rbgp.Rib
