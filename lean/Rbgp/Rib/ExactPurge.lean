/-
  Rbgp.Rib.ExactPurge — the four purge operations remove exactly the paths `Op.removes` names and
  touch no stale marker (`ExactSound Op.isPurge`).
-/
import Rbgp.Rib.InvPurge
import Rbgp.Rib.EntryDef
namespace Rbgp.Rib

section
variable {c : Case} {g : Nat → Fam} {t t' : Table} {fam : Fam} {addr : Nat} {pred : Entry → Bool}

/-- the paths of a prefix after a purge: the paths it had that the predicate does not select -/
theorem PurgeShape.mem_entries (hs : PurgeShape t fam addr pred t')
    (hr : RibInv c g t.flags fam (t.rib fam)) (f : Fam) (n : Net) (x : Entry) :
    x ∈ t'.entries f n ↔ x ∈ t.entries f n ∧ (f = fam → pred x = false) := by
  by_cases hf : f = fam
  · subst hf
    unfold Table.entries
    rw [hs.dests hr, alookup_keptDests pred hr.keys]
    cases hl : alookup n (t.rib f).dests with
    | none => simp
    | some d =>
      have hrhs : (f = f → pred x = false) ↔ pred x = false := ⟨fun h => h rfl, fun h _ => h⟩
      rw [hrhs, Option.bind_some]
      by_cases hk : (keptD pred d).entries = []
      · have hall : ∀ y ∈ d.entries, pred y = true := by
          intro y hy
          cases hp : pred y
          · have : y ∈ (keptD pred d).entries := List.mem_filter.mpr ⟨hy, by simp [hp]⟩
            rw [hk] at this; simp at this
          · rfl
        rw [if_pos (by rw [hk]; rfl)]
        constructor
        · intro h; simp at h
        · rintro ⟨hx, h⟩
          rw [hall x hx] at h
          exact absurd h (by simp)
      · have he : (keptD pred d).entries.isEmpty = false := by
          rw [Bool.eq_false_iff, Ne, List.isEmpty_iff]; exact hk
        rw [if_neg (by rw [he]; simp)]
        show x ∈ (keptD pred d).entries ↔ _
        rw [keptD_entries, List.mem_filter]
        simp
  · unfold Table.entries
    rw [hs.ribOther f hf]
    constructor
    · exact fun h => ⟨h, fun e => absurd e hf⟩
    · exact fun h => h.1

theorem purge_entryExact (hs : PurgeShape t fam addr pred t')
    (hr : RibInv c g t.flags fam (t.rib fam)) (op : Op) (cs : List Change)
    (hflip : ∀ e, op.flip e = e) (hins : ∀ f n x, ¬ op.inserts f n x)
    (hrem : ∀ f n x0, op.removes t f n x0 = (f == fam && pred x0))
    (hst : ∀ a f, op ≠ .restale a f) (hll : ∀ a f, op ≠ .restaleLlgr a f) :
    EntryExact t op t' (.changes cs) := by
  have hremf : ∀ f n x0, op.removes t f n x0 = false ↔ (f = fam → pred x0 = false) := by
    intro f n x0
    rw [hrem]
    by_cases hf : f = fam
    · subst hf; simp
    · have : (f == fam) = false := by simpa using hf
      simp [this, hf]
  refine ⟨?_, ?_, ?_, ?_, ?_⟩
  · intro _ f n x0 hx0 hrm
    rw [hflip]
    exact (hs.mem_entries hr f n x0).mpr ⟨hx0, (hremf f n x0).mp hrm⟩
  · intro _ f n ⟨x, hx⟩; exact absurd hx (hins f n x)
  · intro _ f n x hx
    obtain ⟨h1, h2⟩ := (hs.mem_entries hr f n x).mp hx
    exact Or.inl ⟨x, h1, (hflip x).symm, (hremf f n x).mpr h2⟩
  · intro i
    have : t'.stale = t.stale := congrArg Flags.stale hs.flags
    rw [this]
    exact ⟨Or.inl, fun h => h.elim id (fun ⟨a, f, e, _⟩ => absurd e (hst a f))⟩
  · intro i
    have : t'.llgr = t.llgr := congrArg Flags.llgr hs.flags
    rw [this]
    exact ⟨Or.inl, fun h => h.elim id (fun ⟨a, f, e, _⟩ => absurd e (hll a f))⟩

theorem purge_exactSound (p : Profile) (ctr : Option Nat) (dropStats : Bool)
    (hp : ∀ e, pred e = true → sameAddr addr e = true)
    (hdrop : dropStats = true → pred = sameAddr addr) (hinv : Inv c g t) (op : Op)
    (hflip : ∀ e, op.flip e = e) (hins : ∀ f n x, ¬ op.inserts f n x)
    (hrem : ∀ f n x0, op.removes t f n x0 = (f == fam && pred x0))
    (hst : ∀ a f, op ≠ .restale a f) (hll : ∀ a f, op ≠ .restaleLlgr a f) {r : Res}
    (hrun : t.purge p addr fam pred ctr dropStats = .ok (t', r)) : EntryExact t op t' r := by
  obtain ⟨stats', hrun', _, _, _⟩ := purge_stats (fam := fam) p ctr dropStats hp hdrop hinv
  rw [hrun'] at hrun
  cases hrun
  exact purge_entryExact (purgeTable_shape t fam addr pred ctr stats') (hinv.rib fam) op _ hflip hins hrem hst hll

end

theorem exactSound_purge : ExactSound Op.isPurge := by
  intro c g p t op t' r hsel _ hinv hrun
  cases op with
  | drop addr fam =>
    exact purge_exactSound p none true (fun _ h => h) (fun _ => rfl) hinv (.drop addr fam)
      (fun _ => rfl) (fun _ _ _ h => h) (fun _ _ _ => rfl) (fun _ _ h => by cases h) (fun _ _ h => by cases h) hrun
  | dropStale addr fam ctr =>
    exact purge_exactSound p ctr false (fun e h => by simp at h; exact h.1) (fun h => by simp at h) hinv
      (.dropStale addr fam ctr)
      (fun _ => rfl) (fun _ _ _ h => h) (fun _ _ _ => by simp [Op.removes, Bool.and_assoc])
      (fun _ _ h => by cases h) (fun _ _ h => by cases h) hrun
  | dropLlgr addr fam ctr =>
    exact purge_exactSound p ctr false (fun e h => by simp at h; exact h.1) (fun h => by simp at h) hinv
      (.dropLlgr addr fam ctr)
      (fun _ => rfl) (fun _ _ _ h => h) (fun _ _ _ => by simp [Op.removes, Bool.and_assoc])
      (fun _ _ h => by cases h) (fun _ _ h => by cases h) hrun
  | dropNoLlgr addr fam ctr =>
    exact purge_exactSound p ctr false (fun e h => by simp at h; exact h.1) (fun h => by simp at h) hinv
      (.dropNoLlgr addr fam ctr)
      (fun _ => rfl) (fun _ _ _ h => h) (fun _ _ _ => by simp [Op.removes, Bool.and_assoc])
      (fun _ _ h => by cases h) (fun _ _ h => by cases h) hrun
  | _ => exact absurd hsel (by simp [Op.isPurge])

end Rbgp.Rib
