/-
  Rbgp.Rib.RefProofs — every step of the model keeps the reference path set of the checkers in step
  with the table, and the observation of the step passes the reference check (`RefSound`).
-/
import Rbgp.Rib.RefDef
import Rbgp.Rib.ObsFacts
namespace Rbgp.Rib
open SpecRef

/-! ## The reference set is an association list -/

theorem setPath_eq_aset (k : Key) (v : RefPath) (l : List (Key × RefPath)) : setPath k v l = aset k v l := by
  induction l with
  | nil => rfl
  | cons x l ih =>
    obtain ⟨k', v'⟩ := x
    by_cases h : k' = k <;> simp [setPath, aset, h, ih]

theorem getPath_eq_alookup (k : Key) (l : List (Key × RefPath)) : getPath k l = alookup k l := by
  induction l with
  | nil => rfl
  | cons x l ih =>
    obtain ⟨k', v'⟩ := x
    by_cases h : k' = k <;> simp [getPath, alookup, h, ih]

def refKeyOf (f : Fam) (n : Net) (x : Entry) : Key := (f, n, x.src.addr, x.rpid)

/-- the path part of `RefRel`, with membership instead of look-ups -/
structure PathsRel (t : Table) (paths : List (Key × RefPath)) : Prop where
  fwd : ∀ f n, ∀ x ∈ t.entries f n, (refKeyOf f n x, refOf x) ∈ paths
  bwd : ∀ kv ∈ paths, ∃ x ∈ t.entries kv.1.1 kv.1.2.1, kv = (refKeyOf kv.1.1 kv.1.2.1 x, refOf x)
  keys : (paths.map (·.1)).Nodup

theorem RefRel.toPaths {t : Table} {st : RefSt} (h : RefRel t st) : PathsRel t st.paths := by
  refine ⟨?_, ?_, h.keys⟩
  · intro f n x hx
    have := h.fwd f n x hx
    rw [getPath_eq_alookup] at this
    exact alookup_some_mem this
  · intro kv hkv
    obtain ⟨x, hx, h1, h2⟩ := h.bwd kv hkv
    exact ⟨x, hx, Prod.ext h1 h2⟩

theorem PathsRel.toRef {t : Table} {st : RefSt} (h : PathsRel t st.paths)
    (hs : ∀ i, i ∈ st.stale ↔ i ∈ t.stale) (hl : ∀ i, i ∈ st.llgr ↔ i ∈ t.llgr) : RefRel t st := by
  refine ⟨?_, ?_, h.keys, hs, hl⟩
  · intro f n x hx
    rw [getPath_eq_alookup]
    exact alookup_of_mem h.keys (h.fwd f n x hx)
  · intro kv hkv
    obtain ⟨x, hx, he⟩ := h.bwd kv hkv
    exact ⟨x, hx, congrArg Prod.fst he, congrArg Prod.snd he⟩

/-- a step that removes the paths selected by `rm` (`q` on the reference side) and rewrites the others
    by `fl` (`hv` on the reference side) -/
theorem pathsRel_filter_map {t t' : Table} {paths paths' : List (Key × RefPath)} (h : PathsRel t paths)
    (q : Key × RefPath → Bool) (hv : RefPath → RefPath) (rm : Fam → Net → Entry → Bool) (fl : Entry → Entry)
    (hq : ∀ f n, ∀ x ∈ t.entries f n, q (refKeyOf f n x, refOf x) = rm f n x)
    (hfl : ∀ x, (fl x).src.addr = x.src.addr ∧ (fl x).rpid = x.rpid ∧ refOf (fl x) = hv (refOf x))
    (keep : ∀ f n, ∀ x0 ∈ t.entries f n, rm f n x0 = false → fl x0 ∈ t'.entries f n)
    (only : ∀ f n, ∀ x ∈ t'.entries f n, ∃ x0 ∈ t.entries f n, x = fl x0 ∧ rm f n x0 = false)
    (hmem : ∀ kv', kv' ∈ paths' ↔ ∃ kv ∈ paths, q kv = false ∧ kv' = (kv.1, hv kv.2))
    (hkeys : (paths'.map (·.1)).Nodup) : PathsRel t' paths' := by
  have hkey : ∀ f n x, refKeyOf f n (fl x) = refKeyOf f n x := by
    intro f n x; unfold refKeyOf; rw [(hfl x).1, (hfl x).2.1]
  refine ⟨?_, ?_, hkeys⟩
  · intro f n x hx
    obtain ⟨x0, hx0, rfl, hrm⟩ := only f n x hx
    rw [hmem]
    refine ⟨_, h.fwd f n x0 hx0, ?_, ?_⟩
    · rw [hq f n x0 hx0]; exact hrm
    · rw [hkey, (hfl x0).2.2]
  · intro kv' hkv'
    obtain ⟨kv, hkv, hqf, rfl⟩ := (hmem kv').mp hkv'
    obtain ⟨x, hx, he⟩ := h.bwd kv hkv
    have hrm : rm kv.1.1 kv.1.2.1 x = false := by
      rw [← hq _ _ x hx, ← he]; exact hqf
    refine ⟨fl x, keep _ _ x hx hrm, ?_⟩
    show (kv.1, hv kv.2) = _
    rw [hkey, (hfl x).2.2]
    conv => lhs; rw [he]

/-- an accepted `insert` -/
theorem pathsRel_insert {t t' : Table} {paths : List (Key × RefPath)} (h : PathsRel t paths)
    (k0 : Key) (v0 : RefPath) (rm : Fam → Net → Entry → Bool) (ins : Fam → Net → Entry → Prop)
    (hrm : ∀ f n x, rm f n x = false ↔ refKeyOf f n x ≠ k0)
    (hins : ∀ f n x, ins f n x → refKeyOf f n x = k0 ∧ refOf x = v0)
    (keep : ∀ f n, ∀ x0 ∈ t.entries f n, rm f n x0 = false → x0 ∈ t'.entries f n)
    (hnew : ∃ x ∈ t'.entries k0.1 k0.2.1, ins k0.1 k0.2.1 x)
    (only : ∀ f n, ∀ x ∈ t'.entries f n, (∃ x0 ∈ t.entries f n, x = x0 ∧ rm f n x0 = false) ∨ ins f n x) :
    PathsRel t' (aset k0 v0 paths) := by
  refine ⟨?_, ?_, aset_keys_nodup v0 h.keys⟩
  · intro f n x hx
    rcases only f n x hx with ⟨x0, hx0, rfl, hr⟩ | hi
    · exact mem_aset_of_ne (h.fwd f n x hx0) ((hrm f n x).mp hr)
    · obtain ⟨h1, h2⟩ := hins f n x hi
      rw [h1, h2]; exact mem_aset_self _ _ _
  · intro kv hkv
    rcases mem_aset_key h.keys hkv with rfl | ⟨hkv, hne⟩
    · obtain ⟨x, hx, hi⟩ := hnew
      obtain ⟨h1, h2⟩ := hins _ _ x hi
      exact ⟨x, hx, by rw [h1, h2]⟩
    · obtain ⟨x, hx, he⟩ := h.bwd kv hkv
      refine ⟨x, keep _ _ x hx ?_, he⟩
      rw [hrm]
      intro hk
      apply hne
      rw [he]; exact hk

/-! ## Helpers for the per-operation case split -/

theorem mem_filter_not_char (paths : List (Key × RefPath)) (q : Key × RefPath → Bool) (kv' : Key × RefPath) :
    kv' ∈ paths.filter (fun kv => !q kv) ↔ ∃ kv ∈ paths, q kv = false ∧ kv' = (kv.1, id kv.2) := by
  rw [List.mem_filter]
  constructor
  · rintro ⟨h1, h2⟩
    exact ⟨kv', h1, by simpa using h2, rfl⟩
  · rintro ⟨kv, h1, h2, rfl⟩
    exact ⟨h1, by simpa using h2⟩

theorem filter_keys_nodup {paths : List (Key × RefPath)} (h : (paths.map (·.1)).Nodup) (q : Key × RefPath → Bool) :
    ((paths.filter q).map (·.1)).Nodup :=
  h.sublist (List.filter_sublist.map _)

theorem mem_foldl_addId (ids : List Nat) (s : List Nat) (i : Nat) :
    i ∈ ids.foldl (fun l j => addId j l) s ↔ i ∈ s ∨ i ∈ ids := by
  induction ids generalizing s with
  | nil => simp
  | cons j ids ih =>
    rw [List.foldl_cons, ih]
    unfold addId
    by_cases hc : s.contains j = true
    · rw [if_pos hc]
      have : j ∈ s := List.contains_iff_mem.mp hc
      constructor
      · rintro (h | h)
        · exact Or.inl h
        · exact Or.inr (List.mem_cons_of_mem _ h)
      · rintro (h | h)
        · exact Or.inl h
        · rcases List.mem_cons.mp h with rfl | h
          · exact Or.inl this
          · exact Or.inr h
    · rw [if_neg hc]
      simp only [List.mem_cons]
      constructor
      · rintro ((h | h) | h)
        · exact Or.inr (Or.inl h)
        · exact Or.inl h
        · exact Or.inr (Or.inr h)
      · rintro (h | h | h)
        · exact Or.inl (Or.inr h)
        · exact Or.inl (Or.inl h)
        · exact Or.inr h

theorem ref_obs_eq_limit (sh : Nat) (fl : Flags) (r : Res) : r.obs sh fl = .limit ↔ r = .limit := by
  cases r with
  | removed o => cases o <;> simp [Res.obs]
  | _ => simp [Res.obs]

/-- the marked sessions, read off the reference set -/
theorem ref_marksOf_iff {t : Table} {paths : List (Key × RefPath)} (h : PathsRel t paths) (a : Nat) (f : Fam) (i : Nat) :
    marksOf t a f i ↔ i ∈ (paths.filter (ofPeer a f)).map (·.2.src) := by
  rw [List.mem_map]
  constructor
  · rintro ⟨n, x, hx, hs, rfl⟩
    refine ⟨_, List.mem_filter.mpr ⟨h.fwd f n x hx, ?_⟩, rfl⟩
    simp only [ofPeer, refKeyOf, sameAddr] at hs ⊢
    simp [hs]
  · rintro ⟨kv, hkv, rfl⟩
    obtain ⟨hkv, hp⟩ := List.mem_filter.mp hkv
    obtain ⟨x, hx, he⟩ := h.bwd kv hkv
    simp only [ofPeer, Bool.and_eq_true, beq_iff_eq] at hp
    refine ⟨kv.1.2.1, x, ?_, ?_, ?_⟩
    · rw [← hp.1]; exact hx
    · have : kv.1.2.2.1 = x.src.addr := by rw [he]; rfl
      simp [sameAddr, ← this, hp.2]
    · rw [he]; rfl

/-! ## Only `insert` can be rejected by the prefix limit -/

theorem ref_ok_inj {α} {a b : α} (h : Out.ok a = Out.ok b) : a = b := by cases h; rfl

theorem removeCommit_not_limit (t : Table) (src : Src) (fam : Fam) (net : Net) (dst : Dest) (removed : Entry)
    (entries : List Entry) (st : Nat × Nat) : (removeCommit t src fam net dst removed entries st).2 ≠ .limit := by
  unfold removeCommit
  simp only []
  split <;> split <;> simp

theorem remove_not_limit {p : Profile} {t t' : Table} {src : Src} {fam : Fam} {net : Net} {rpid : Nat} {r : Res}
    (h : t.remove p src fam net rpid = .ok (t', r)) : r ≠ .limit := by
  unfold Table.remove at h
  split at h
  · cases h; simp
  · split at h
    · cases h; simp
    · split at h
      · cases h
      · simp only [] at h
        split at h
        · cases h
        · split at h
          · cases h
          · have := congrArg Prod.snd (ref_ok_inj h)
            simp only [] at this
            rw [← this]
            exact removeCommit_not_limit _ _ _ _ _ _ _ _

theorem purge_not_limit {p : Profile} {t t' : Table} {addr : Nat} {fam : Fam} {pred : Entry → Bool}
    {ctr : Option Nat} {ds : Bool} {r : Res} (h : t.purge p addr fam pred ctr ds = .ok (t', r)) : r ≠ .limit := by
  unfold Table.purge at h
  simp only [] at h
  split at h
  · cases h; simp
  · split at h
    · cases h; simp
    · split at h
      · cases h
      · cases h; simp

theorem step_not_limit {p : Profile} {t t' : Table} {op : Op} {r : Res} (h : t.step p op = .ok (t', r))
    (hop : ∀ src fam net rpid nh attr fl nv, op ≠ .insert src fam net rpid nh attr fl nv) : r ≠ .limit := by
  cases op with
  | insert src fam net rpid nh attr fl nv => exact absurd rfl (hop src fam net rpid nh attr fl nv)
  | remove src fam net rpid => exact remove_not_limit h
  | drop a f => exact purge_not_limit (show t.purge p a f (sameAddr a) none true = _ from h)
  | dropStale a f c => exact purge_not_limit (show t.purge p a f _ c false = _ from h)
  | dropLlgr a f c => exact purge_not_limit (show t.purge p a f _ c false = _ from h)
  | dropNoLlgr a f c => exact purge_not_limit (show t.purge p a f _ c false = _ from h)
  | restale a f => have := congrArg Prod.snd (ref_ok_inj h); simp only [Table.restaleGen] at this; rw [← this]; simp
  | restaleLlgr a f => have := congrArg Prod.snd (ref_ok_inj h); simp only [Table.restaleGen] at this; rw [← this]; simp
  | nhValidity k rr => have := congrArg Prod.snd (ref_ok_inj h); simp only [Table.nhValidity] at this; rw [← this]; simp
  | startDeferral f => have := congrArg Prod.snd (ref_ok_inj h); simp only [] at this; rw [← this]; simp
  | endDeferral f => have := congrArg Prod.snd (ref_ok_inj h); simp only [Table.endDeferral] at this; rw [← this]; simp


/-! ## NO_LLGR on the raw community bytes -/

theorem be32_eq_noLlgr {a b c d : Nat} (hb : b < 256) (hc : c < 256) (hd : d < 256) :
    (be32 a b c d == NO_LLGR) = (a == 255 && b == 255 && c == 0 && d == 7) := by
  rw [Bool.eq_iff_iff]
  simp only [be32, NO_LLGR, beq_iff_eq, Bool.and_eq_true]
  omega

theorem carriesNoLlgr_eq : ∀ (bs : List Nat), (∀ b ∈ bs, b < 256) → carriesNoLlgr bs = hasComm4 NO_LLGR bs
  | [], _ => rfl
  | [_], _ => rfl
  | [_, _], _ => rfl
  | [_, _, _], _ => rfl
  | a :: b :: c :: d :: rest, h => by
    have ih := carriesNoLlgr_eq rest (fun x hx => h x (by simp [hx]))
    simp only [carriesNoLlgr, hasComm4, ih]
    rw [be32_eq_noLlgr (h b (by simp)) (h c (by simp)) (h d (by simp))]

theorem attrNoLlgr_eq {c : Case} {a : Attrs} (h : c.attrs[a.id]? = some a) (hwf : a.WF) :
    attrNoLlgr c a.id = a.hasNoLlgr := by
  unfold attrNoLlgr Attrs.hasNoLlgr
  rw [h]
  cases hc : a.comm with
  | none => simp only [hc]
  | some bs => simp only [hc]; exact carriesNoLlgr_eq bs (hwf.commBytes bs hc)

theorem RibInv.lookup' {c g fl f} {r : Rib} (hr : RibInv c g fl f r) {net : Net} {d : Dest}
    (h : alookup net r.dests = some d) : DestInv c g fl f net d :=
  hr.dest (net, d) (alookup_some_mem h)

theorem entries_attr_wf {c g} {t : Table} (hinv : Inv c g t) {f : Fam} {n : Net} {x : Entry}
    (hx : x ∈ t.entries f n) : x.attr.WF := by
  unfold Table.entries at hx
  cases h : alookup n (t.rib f).dests with
  | none => rw [h] at hx; simp at hx
  | some d =>
    rw [h] at hx
    exact (((hinv.rib f).dest (n, d) (alookup_some_mem h)).attrOk x hx).1

/-! ## The reference set follows the table -/

theorem ref_flags_unchanged {t t' : Table} {op : Op} {r : Res} (he : EntryExact t op t' r) :
    ((∀ a f, op ≠ .restale a f) → ∀ i, i ∈ t'.stale ↔ i ∈ t.stale) ∧
    ((∀ a f, op ≠ .restaleLlgr a f) → ∀ i, i ∈ t'.llgr ↔ i ∈ t.llgr) := by
  constructor
  · intro hop i
    rw [he.stale]
    constructor
    · rintro (h | ⟨a, f, h, _⟩)
      · exact h
      · exact absurd h (hop a f)
    · exact Or.inl
  · intro hop i
    rw [he.llgr]
    constructor
    · rintro (h | ⟨a, f, h, _⟩)
      · exact h
      · exact absurd h (hop a f)
    · exact Or.inl

theorem ref_mem_self_char (paths : List (Key × RefPath)) (kv' : Key × RefPath) :
    kv' ∈ paths ↔ ∃ kv ∈ paths, (fun _ : Key × RefPath => false) kv = false ∧ kv' = (kv.1, id kv.2) := by
  constructor
  · intro h; exact ⟨kv', h, rfl, rfl⟩
  · rintro ⟨kv, h, _, rfl⟩; exact h

/-- a step that changes no path -/
theorem pathsRel_same {t t' : Table} {paths : List (Key × RefPath)} (h : PathsRel t paths)
    (keep : ∀ f n, ∀ x0 ∈ t.entries f n, x0 ∈ t'.entries f n)
    (only : ∀ f n, ∀ x ∈ t'.entries f n, x ∈ t.entries f n) : PathsRel t' paths :=
  pathsRel_filter_map h (fun _ => false) id (fun _ _ _ => false) id (fun _ _ _ _ => rfl)
    (fun _ => ⟨rfl, rfl, rfl⟩) (fun f n x hx _ => keep f n x hx) (fun f n x hx => ⟨x, only f n x hx, rfl, rfl⟩)
    (ref_mem_self_char paths) h.keys

/-- a step that removes the paths selected by `Op.removes` -/
theorem pathsRel_purge {t t' : Table} {op : Op} {r : Res} {paths : List (Key × RefPath)} (h : PathsRel t paths)
    (he : EntryExact t op t' r) (hl : r ≠ .limit) (hflip : ∀ x, op.flip x = x) (hins : ∀ f n x, ¬ op.inserts f n x)
    (q : Key × RefPath → Bool)
    (hq : ∀ f n, ∀ x ∈ t.entries f n, q (refKeyOf f n x, refOf x) = op.removes t f n x) :
    PathsRel t' (paths.filter fun kv => !q kv) :=
  pathsRel_filter_map h q id (fun f n x => op.removes t f n x) id hq (fun _ => ⟨rfl, rfl, rfl⟩)
    (fun f n x hx hr => by have := he.keep hl f n x hx hr; rwa [hflip] at this)
    (fun f n x hx => by
      rcases he.only hl f n x hx with ⟨x0, hx0, hxe, hr⟩ | hi
      · exact ⟨x0, hx0, by rw [hxe, hflip]; rfl, hr⟩
      · exact absurd hi (hins f n x))
    (mem_filter_not_char paths q) (filter_keys_nodup h.keys _)

theorem nhFlip_facts (k : Nat) (reachable : Bool) (x : Entry) :
    (nhFlip k reachable x).src.addr = x.src.addr ∧ (nhFlip k reachable x).rpid = x.rpid ∧
    refOf (nhFlip k reachable x) =
      (fun v : RefPath => if v.nh = some k then { v with nhInv := !reachable } else v) (refOf x) := by
  unfold nhFlip
  by_cases h : x.nh = some k
  · have : (refOf x).nh = some k := h
    simp only [h, beq_self_eq_true, if_true, this]
    refine ⟨?_, ?_, ?_⟩ <;> first | trivial | rfl
  · have h1 : (x.nh == some k) = false := by simpa using h
    have h2 : ¬ (refOf x).nh = some k := h
    simp only [h1, Bool.false_eq_true, if_false, h2]
    refine ⟨?_, ?_, ?_⟩ <;> first | trivial | rfl

theorem refRel_step {c : Case} {g : Nat → Fam} {p : Profile} {t t' : Table} {op : Op} {r : Res} {st : RefSt}
    (hinv : Inv c g t) (hstep : t.step p op = .ok (t', r)) (hf : EntryFacts t op t' r)
    (he : EntryExact t op t' r) (ha : AttrRefInv c t) (hrel : RefRel t st) :
    RefRel t' (refStep c st op (r.obs c.shard t'.flags)) := by
  have hP := hrel.toPaths
  have hfl := ref_flags_unchanged he
  have hS : (∀ a f, op ≠ .restale a f) → ∀ i, i ∈ st.stale ↔ i ∈ t'.stale :=
    fun h i => (hrel.stale i).trans (hfl.1 h i).symm
  have hL : (∀ a f, op ≠ .restaleLlgr a f) → ∀ i, i ∈ st.llgr ↔ i ∈ t'.llgr :=
    fun h i => (hrel.llgr i).trans (hfl.2 h i).symm
  cases op with
  | insert src fam net rpid nh attr filtered nhInv =>
    have hs := hS (by intros; simp)
    have hl := hL (by intros; simp)
    by_cases hlim : r = .limit
    · have : refStep c st (.insert src fam net rpid nh attr filtered nhInv) (r.obs c.shard t'.flags) = st := by
        simp only [refStep]; rw [if_pos ((ref_obs_eq_limit _ _ r).mpr hlim)]
      rw [this]
      refine ⟨?_, ?_, hrel.keys, hs, hl⟩
      · intro f n x hx; rw [hf.limit hlim] at hx; exact hrel.fwd f n x hx
      · intro kv hkv
        obtain ⟨x, hx, h⟩ := hrel.bwd kv hkv
        exact ⟨x, by rw [hf.limit hlim]; exact hx, h⟩
    · have : refStep c st (.insert src fam net rpid nh attr filtered nhInv) (r.obs c.shard t'.flags) =
          { paths := aset (fam, net, src.addr, rpid) (RefPath.mk src.id attr.id rpid filtered nh nhInv) st.paths,
            stale := st.stale, llgr := st.llgr } := by
        simp only [refStep]; rw [if_neg (fun h => hlim ((ref_obs_eq_limit _ _ r).mp h)), setPath_eq_aset]
      rw [this]
      refine PathsRel.toRef ?_ hs hl
      refine pathsRel_insert hP _ _ (fun f n x => (Op.insert src fam net rpid nh attr filtered nhInv).removes t f n x)
        (fun f n x => (Op.insert src fam net rpid nh attr filtered nhInv).inserts f n x) ?_ ?_
        (he.keep hlim) ?_ (he.only hlim)
      · intro f n x
        rw [← Bool.not_eq_true, ne_eq]
        apply not_congr
        simp [Op.removes, refKeyOf, and_assoc]
      · rintro f n x ⟨rfl, rfl, h1, h2, h3, h4, h5, h6⟩
        simp only [refKeyOf, refOf, h1, h2, h3, h4, h5, h6, and_self]
      · exact he.ins hlim fam net
          ⟨{ lpid := 0, src, nh, attr, rpid, filtered, nhInv, aslen := 0 }, rfl, rfl, rfl, rfl, rfl, rfl, rfl, rfl⟩
  | remove src fam net rpid =>
    have hl := step_not_limit hstep (by intros; simp)
    refine PathsRel.toRef ?_ (hS (by intros; simp)) (hL (by intros; simp))
    refine pathsRel_purge hP he hl (fun _ => rfl) (fun _ _ _ h => h)
      (fun kv => kv.1 == (fam, net, src.addr, rpid)) ?_
    intro f n x _
    rw [Bool.eq_iff_iff]
    simp [Op.removes, refKeyOf, and_assoc]
  | drop a fam =>
    have hl := step_not_limit hstep (by intros; simp)
    refine PathsRel.toRef ?_ (hS (by intros; simp)) (hL (by intros; simp))
    refine pathsRel_purge hP he hl (fun _ => rfl) (fun _ _ _ h => h) (ofPeer a fam) ?_
    intro f n x _
    simp [Op.removes, refKeyOf, ofPeer, sameAddr]
  | dropStale a fam ctr =>
    have hl := step_not_limit hstep (by intros; simp)
    refine PathsRel.toRef ?_ (hS (by intros; simp)) (hL (by intros; simp))
    refine pathsRel_purge hP he hl (fun _ => rfl) (fun _ _ _ h => h)
      (fun kv => ofPeer a fam kv && st.stale.contains kv.2.src) ?_
    intro f n x _
    have : decide (x.src.id ∈ st.stale) = decide (x.src.id ∈ t.stale) := by
      rw [decide_eq_decide]; exact hrel.stale _
    simp [Op.removes, refKeyOf, ofPeer, sameAddr, refOf, Entry.isStale, Table.flags, this]
  | dropLlgr a fam ctr =>
    have hl := step_not_limit hstep (by intros; simp)
    refine PathsRel.toRef ?_ (hS (by intros; simp)) (hL (by intros; simp))
    refine pathsRel_purge hP he hl (fun _ => rfl) (fun _ _ _ h => h)
      (fun kv => ofPeer a fam kv && st.llgr.contains kv.2.src) ?_
    intro f n x _
    have : decide (x.src.id ∈ st.llgr) = decide (x.src.id ∈ t.llgr) := by
      rw [decide_eq_decide]; exact hrel.llgr _
    simp [Op.removes, refKeyOf, ofPeer, sameAddr, refOf, Table.flags, this]
  | dropNoLlgr a fam ctr =>
    have hl := step_not_limit hstep (by intros; simp)
    refine PathsRel.toRef ?_ (hS (by intros; simp)) (hL (by intros; simp))
    refine pathsRel_purge hP he hl (fun _ => rfl) (fun _ _ _ h => h)
      (fun kv => ofPeer a fam kv && attrNoLlgr c kv.2.attr) ?_
    intro f n x hx
    have : attrNoLlgr c x.attr.id = x.attr.hasNoLlgr := attrNoLlgr_eq (ha f n x hx) (entries_attr_wf hinv hx)
    simp [Op.removes, refKeyOf, ofPeer, sameAddr, refOf, this]
  | restale a f =>
    have hl := step_not_limit hstep (by intros; simp)
    have hP' : PathsRel t' st.paths := pathsRel_same hP (fun f n x hx => he.keep hl f n x hx rfl)
      (fun f n x hx => by
        rcases he.only hl f n x hx with ⟨x0, hx0, hxe, _⟩ | hi
        · rw [hxe]; exact hx0
        · exact absurd hi (fun h => h))
    refine PathsRel.toRef hP' ?_ (hL (by intros; simp))
    intro i
    show i ∈ ((st.paths.filter (ofPeer a f)).map (·.2.src)).foldl (fun l i => addId i l) st.stale ↔ _
    rw [mem_foldl_addId, he.stale, hrel.stale, ← ref_marksOf_iff hP]
    constructor
    · rintro (h | h)
      · exact Or.inl h
      · exact Or.inr ⟨a, f, rfl, h⟩
    · rintro (h | ⟨a', f', h, hm⟩)
      · exact Or.inl h
      · cases h; exact Or.inr hm
  | restaleLlgr a f =>
    have hl := step_not_limit hstep (by intros; simp)
    have hP' : PathsRel t' st.paths := pathsRel_same hP (fun f n x hx => he.keep hl f n x hx rfl)
      (fun f n x hx => by
        rcases he.only hl f n x hx with ⟨x0, hx0, hxe, _⟩ | hi
        · rw [hxe]; exact hx0
        · exact absurd hi (fun h => h))
    refine PathsRel.toRef hP' (hS (by intros; simp)) ?_
    intro i
    show i ∈ ((st.paths.filter (ofPeer a f)).map (·.2.src)).foldl (fun l i => addId i l) st.llgr ↔ _
    rw [mem_foldl_addId, he.llgr, hrel.llgr, ← ref_marksOf_iff hP]
    constructor
    · rintro (h | h)
      · exact Or.inl h
      · exact Or.inr ⟨a, f, rfl, h⟩
    · rintro (h | ⟨a', f', h, hm⟩)
      · exact Or.inl h
      · cases h; exact Or.inr hm
  | nhValidity k reachable =>
    have hl := step_not_limit hstep (by intros; simp)
    refine PathsRel.toRef ?_ (hS (by intros; simp)) (hL (by intros; simp))
    have hg : ∀ kv : Key × RefPath,
        (if kv.2.nh = some k then (kv.1, { kv.2 with nhInv := !reachable }) else kv) =
        (kv.1, (fun v : RefPath => if v.nh = some k then { v with nhInv := !reachable } else v) kv.2) := by
      intro kv; by_cases h : kv.2.nh = some k <;> simp [h]
    refine pathsRel_filter_map hP (fun _ => false)
      (fun v : RefPath => if v.nh = some k then { v with nhInv := !reachable } else v)
      (fun _ _ _ => false) (nhFlip k reachable) (fun _ _ _ _ => rfl) (nhFlip_facts k reachable)
      (fun f n x hx _ => he.keep hl f n x hx rfl) ?_ ?_ ?_
    · intro f n x hx
      rcases he.only hl f n x hx with ⟨x0, hx0, hxe, _⟩ | hi
      · exact ⟨x0, hx0, hxe, rfl⟩
      · exact absurd hi (fun h => h)
    · intro kv'
      show kv' ∈ st.paths.map _ ↔ _
      rw [List.mem_map]
      constructor
      · rintro ⟨kv, hkv, rfl⟩; exact ⟨kv, hkv, rfl, hg kv⟩
      · rintro ⟨kv, hkv, _, rfl⟩; exact ⟨kv, hkv, hg kv⟩
    · show (List.map (fun kv : Key × RefPath => kv.1) (List.map _ st.paths)).Nodup
      rw [List.map_map]
      have : ((fun x : Key × RefPath => x.1) ∘ fun kv : Key × RefPath =>
          if kv.2.nh = some k then (kv.1, { kv.2 with nhInv := !reachable }) else kv) = (fun kv => kv.1) := by
        funext kv; simp only [Function.comp]; rw [hg]
      rw [this]; exact hP.keys
  | startDeferral f =>
    have hl := step_not_limit hstep (by intros; simp)
    refine PathsRel.toRef (st := st) ?_ (hS (by intros; simp)) (hL (by intros; simp))
    exact pathsRel_same hP (fun f n x hx => he.keep hl f n x hx rfl)
      (fun f n x hx => by
        rcases he.only hl f n x hx with ⟨x0, hx0, hxe, _⟩ | hi
        · rw [hxe]; exact hx0
        · exact absurd hi (fun h => h))
  | endDeferral f =>
    have hl := step_not_limit hstep (by intros; simp)
    refine PathsRel.toRef (st := st) ?_ (hS (by intros; simp)) (hL (by intros; simp))
    exact pathsRel_same hP (fun f n x hx => he.keep hl f n x hx rfl)
      (fun f n x hx => by
        rcases he.only hl f n x hx with ⟨x0, hx0, hxe, _⟩ | hi
        · rw [hxe]; exact hx0
        · exact absurd hi (fun h => h))

/-! ## The dump agrees with the reference set -/

theorem ref_firstSome_none {α} {f : α → Option String} {l : List α} (h : ∀ a ∈ l, f a = none) :
    SpecRef.firstSome f l = none := by
  induction l with
  | nil => rfl
  | cons a l ih =>
    simp only [SpecRef.firstSome, h a List.mem_cons_self]
    exact ih (fun b hb => h b (List.mem_cons_of_mem _ hb))

theorem ref_sameSet_of_mem {a b : List Nat} (h : ∀ i, i ∈ a ↔ i ∈ b) : sameSet a b = true := by
  unfold sameSet
  rw [Bool.and_eq_true, List.all_eq_true, List.all_eq_true]
  exact ⟨fun i hi => List.contains_iff_mem.mpr ((h i).mp hi), fun i hi => List.contains_iff_mem.mpr ((h i).mpr hi)⟩

theorem ref_nodup_of_map {α β} (g : α → β) {l : List α} (h : (l.map g).Nodup) : l.Nodup := by
  unfold List.Nodup at h ⊢
  rw [List.pairwise_map] at h
  exact h.imp (fun hab e => hab (congrArg g e))

theorem ref_entries_of_mem {t : Table} {f : Fam} (hk : ((t.rib f).dests.map (·.1)).Nodup) {nd : Net × Dest}
    (h : nd ∈ (t.rib f).dests) : t.entries f nd.1 = nd.2.entries := by
  unfold Table.entries
  rw [alookup_of_mem hk (show (nd.1, nd.2) ∈ _ from h)]

theorem ref_entries_lookup {t : Table} {f : Fam} {n : Net} {x : Entry} (hx : x ∈ t.entries f n) :
    ∃ d, alookup n (t.rib f).dests = some d ∧ t.entries f n = d.entries := by
  unfold Table.entries at hx ⊢
  cases h : alookup n (t.rib f).dests with
  | none => rw [h] at hx; simp at hx
  | some d => exact ⟨d, rfl, rfl⟩

/-- exactly one path of a destination has a given path key -/
theorem ref_count_unique {l : List Entry} (hn : (l.map fun e => (e.src.addr, e.rpid)).Nodup) {x : Entry} (hx : x ∈ l)
    (P : Entry → Bool) (hPx : P x = true)
    (hP : ∀ y ∈ l, P y = true → (y.src.addr, y.rpid) = (x.src.addr, x.rpid)) : (l.filter P).length = 1 := by
  induction l with
  | nil => simp at hx
  | cons a l ih =>
    simp only [List.map_cons, List.nodup_cons] at hn
    rcases List.mem_cons.mp hx with rfl | hx'
    · rw [List.filter_cons, if_pos hPx]
      have : l.filter P = [] := by
        rw [List.filter_eq_nil_iff]
        intro y hy hPy
        apply hn.1
        rw [← hP y (List.mem_cons_of_mem _ hy) hPy]
        exact List.mem_map.mpr ⟨y, hy, rfl⟩
      rw [this]; rfl
    · have hPa : ¬ P a = true := by
        intro hPa
        apply hn.1
        rw [hP a List.mem_cons_self hPa]
        exact List.mem_map.mpr ⟨x, hx', rfl⟩
      rw [List.filter_cons, if_neg hPa]
      exact ih hn.2 hx' (fun y hy => hP y (List.mem_cons_of_mem _ hy))

theorem ref_ite4_none (A B C D : Bool) (s1 s2 s3 s4 : String) (hA : A = true) (hB : B = true) (hC : C = true)
    (hD : D = true) :
    (if (!A) = true then some s1 else if (!B) = true then some s2 else if (!C) = true then some s3
     else if (!D) = true then some s4 else none) = none := by
  subst hA hB hC hD; rfl

theorem mem_pathsOf {st : RefSt} {f : Fam} {n : Net} {kv : Key × RefPath} (h : kv ∈ st.paths)
    (hf : kv.1.1 = f) (hn : kv.1.2.1 = n) : kv.2 ∈ pathsOf st f n := by
  unfold pathsOf
  exact List.mem_map.mpr ⟨kv, List.mem_filter.mpr ⟨h, by simp [hf, hn]⟩, rfl⟩

theorem pathsOf_length {c g} {t : Table} {st : RefSt} (hinv : Inv c g t) (hP : PathsRel t st.paths) {f : Fam}
    {nd : Net × Dest} (hnd : nd ∈ (t.rib f).dests) : (pathsOf st f nd.1).length = nd.2.entries.length := by
  have hr := hinv.rib f
  have hes := ref_entries_of_mem hr.keys hnd
  have hn1 : (nd.2.entries.map fun e => (e.src.addr, e.rpid)).Nodup := (hr.dest nd hnd).pathKeys
  have hfilt : ∀ kv ∈ st.paths.filter (fun kv => kv.1.1 == f && kv.1.2.1 == nd.1), kv.1.1 = f ∧ kv.1.2.1 = nd.1 := by
    intro kv hkv
    have := (List.mem_filter.mp hkv).2
    simpa using this
  have hn2 : ((st.paths.filter fun kv => kv.1.1 == f && kv.1.2.1 == nd.1).map
      fun kv => (kv.1.2.2.1, kv.1.2.2.2)).Nodup := by
    apply ref_nodup_of_map (fun p : Nat × Nat => ((f, nd.1, p.1, p.2) : Key))
    rw [List.map_map]
    have : (st.paths.filter fun kv => kv.1.1 == f && kv.1.2.1 == nd.1).map
        ((fun p : Nat × Nat => ((f, nd.1, p.1, p.2) : Key)) ∘ fun kv => (kv.1.2.2.1, kv.1.2.2.2)) =
        (st.paths.filter fun kv => kv.1.1 == f && kv.1.2.1 == nd.1).map (·.1) := by
      apply List.map_congr_left
      intro kv hkv
      obtain ⟨h1, h2⟩ := hfilt kv hkv
      simp only [Function.comp]
      rw [← h1, ← h2]
    rw [this]
    exact filter_keys_nodup hP.keys _
  have hperm := (List.perm_ext_iff_of_nodup hn2 hn1).mpr (by
    intro p
    rw [List.mem_map, List.mem_map]
    constructor
    · rintro ⟨kv, hkv, rfl⟩
      obtain ⟨h1, h2⟩ := hfilt kv hkv
      obtain ⟨x, hx, he⟩ := hP.bwd kv (List.mem_filter.mp hkv).1
      rw [h1, h2, hes] at hx
      refine ⟨x, hx, ?_⟩
      rw [he]; rfl
    · rintro ⟨x, hx, rfl⟩
      refine ⟨_, List.mem_filter.mpr ⟨hP.fwd f nd.1 x (by rw [hes]; exact hx), ?_⟩, rfl⟩
      simp [refKeyOf])
  unfold pathsOf
  rw [List.length_map]
  have := hperm.length_eq
  rw [List.length_map, List.length_map] at this
  exact this

theorem ref_checkFam_ok {c g} {t : Table} {st : RefSt} (hinv : Inv c g t) (hrel : RefRel t st) (f : Fam) :
    checkFam st (famObs c t f) = none := by
  have hr := hinv.rib f
  have hP := hrel.toPaths
  have hfam : (famObs c t f).fam = f := rfl
  unfold checkFam
  apply ref_ite4_none
  · rw [hfam, List.all_eq_true]
    intro d hd
    obtain ⟨nd, hnd, rfl⟩ := (famObs_dests_mem t f hr).mp hd
    rw [List.all_eq_true]
    intro e he
    obtain ⟨x, hx, rfl⟩ := List.mem_map.mp he
    rw [List.any_eq_true]
    have hx' : x ∈ t.entries f nd.1 := by rw [ref_entries_of_mem hr.keys hnd]; exact hx
    refine ⟨refOf x, mem_pathsOf (hP.fwd f nd.1 x hx') rfl rfl, ?_⟩
    simp [refOf, dentryOf]
  · rw [List.all_eq_true]
    intro d hd
    obtain ⟨nd, hnd, rfl⟩ := (famObs_dests_mem t f hr).mp hd
    rw [List.all_eq_true]
    intro e he
    obtain ⟨x, hx, rfl⟩ := List.mem_map.mp he
    have : st.stale.contains x.src.id = t.stale.contains x.src.id := by
      rw [Bool.eq_iff_iff, List.contains_iff_mem, List.contains_iff_mem]; exact hrel.stale _
    simp only [dentryOf, Entry.isStale, Table.flags, this, beq_self_eq_true]
  · rw [hfam, List.all_eq_true]
    intro kv hkv
    by_cases hf : kv.1.1 = f
    · obtain ⟨x, hx, he⟩ := hP.bwd kv hkv
      rw [hf] at hx
      obtain ⟨d, hl, hes⟩ := ref_entries_lookup hx
      rw [hes] at hx
      have hd := hr.lookup' hl
      have hfind := famObs_dests_find (c := c) t f hr kv.1.2.1
      rw [hl] at hfind
      cases hfd : (famObs c t f).dests.find? (fun d => d.1 = kv.1.2.1) with
      | none => rw [hfd] at hfind; simp at hfind
      | some dd =>
        rw [hfd] at hfind
        simp only [Option.map_some, Option.some.injEq] at hfind
        simp only [hfind, List.filter_map, List.length_map]
        have hcnt := ref_count_unique hd.pathKeys hx
          ((fun e : DEntry => e.src == kv.2.src && e.rpid == kv.2.rpid) ∘ dentryOf t.flags)
          (by rw [he]; simp [dentryOf, refOf])
          (by
            intro y hy hPy
            rw [he] at hPy
            simp only [Function.comp, dentryOf, refOf, Bool.and_eq_true, beq_iff_eq] at hPy
            have h1 := (hd.srcOk y hy).1
            have h2 := (hd.srcOk x hx).1
            unfold Src.WF at h1 h2
            rw [hPy.1, h2] at h1
            have : x.src = y.src := Option.some.inj h1
            rw [this, hPy.2])
        rw [hcnt]
        simp
    · have : (kv.1.1 != f) = true := by simpa using hf
      rw [this]; rfl
  · rw [hfam, List.all_eq_true]
    intro d hd
    obtain ⟨nd, hnd, rfl⟩ := (famObs_dests_mem t f hr).mp hd
    have hlen := pathsOf_length hinv hP hnd
    have hne := (hr.dest nd hnd).nonEmpty
    simp only [List.length_map, hlen, beq_self_eq_true, Bool.true_and, Bool.not_eq_true', List.isEmpty_eq_false_iff,
      ne_eq, List.map_eq_nil_iff]
    exact hne

theorem ref_check_ok {c g} {t : Table} {st : RefSt} (op : Op) (r : Res) (hinv : Inv c g t) (hrel : RefRel t st) :
    SpecRef.check c st (stepObs c op (t, r)) = none := by
  unfold SpecRef.check
  have h1 : SpecRef.firstSome (checkFam st) (stepObs c op (t, r)).fams = none := by
    apply ref_firstSome_none
    intro fo hfo
    obtain ⟨f, _, rfl⟩ := List.mem_map.mp (show fo ∈ allFams.map (famObs c t) from hfo)
    exact ref_checkFam_ok hinv hrel f
  have h2 : sameSet (stepObs c op (t, r)).stale (st.stale.filter fun i => i < c.srcs.length) = true := by
    apply ref_sameSet_of_mem
    intro i
    show i ∈ sortOn _ (t.stale.filter fun i => i < c.srcs.length) ↔ _
    rw [mem_sortOn, List.mem_filter, List.mem_filter, hrel.stale]
  have h3 : sameSet (stepObs c op (t, r)).llgr (st.llgr.filter fun i => i < c.srcs.length) = true := by
    apply ref_sameSet_of_mem
    intro i
    show i ∈ sortOn _ (t.llgr.filter fun i => i < c.srcs.length) ↔ _
    rw [mem_sortOn, List.mem_filter, List.mem_filter, hrel.llgr]
  rw [h1, h2, h3]
  rfl

/-- **RefSound** -/
theorem refSound : RefSound := by
  intro c g p t op t' r st _ hinv hinv' hstep hf he ha _ hrel
  have h := refRel_step hinv hstep hf he ha hrel
  exact ⟨h, ref_check_ok op r hinv' h⟩

end Rbgp.Rib
